package main

import (
	"fmt"
	"math/rand"

	"github.com/SAP/go-dblib/asetypes"
)

// C10, value leg: DataType.GoValue must not panic on any data of any length.
//
// c10ValueGen emits `val dec <typehex> <hex>` lines (protocol of c04.go; Impl = valuesImpl, Lean entry
// point Dblib.Value.run) for EVERY data type byte 0..255 x EVERY data length 0..255:
//   - all-zero data for every (type, length) pair;
//   - for the data types that occur in one of the asetypes tables (ReflectTypes, ByteSizes, LengthBytes),
//     i.e. the ones goValue has arms for, additionally all-0xff data and boundary-biased random data for every
//     length (thorough: 12 random strings per pair), a leading sign / surrogate / NUL pattern, and
//   - lengths just around the fixed sizes with every single byte set to 0x80.
//
// The answer classes are ok / err / panic; the property (and Props/C10/Values.lean: c10_govalue_total)
// demands that `panic` never occurs.
func c10ValueGen(tier string, rng *rand.Rand, emit func(Case)) {
	reps := 1
	if tier == "thorough" {
		reps = 12
	}
	for ti := 0; ti < 256; ti++ {
		t := asetypes.DataType(ti)
		interesting := t.GoReflectType() != nil || t.ByteSize() != -1 || t.LengthBytes() != -1
		for n := 0; n <= 255; n++ {
			emit(Case{Line: fmt.Sprintf("val dec %02x %s", ti, hx(make([]byte, n))), Kind: "c10-val-zero"})
			if !interesting || n == 0 {
				continue
			}
			ff := make([]byte, n)
			for i := range ff {
				ff[i] = 0xff
			}
			emit(Case{Line: fmt.Sprintf("val dec %02x %s", ti, hx(ff)), Kind: "c10-val-ones"})
			for r := 0; r < reps; r++ {
				b := valRandBytes(rng, n)
				switch rng.Intn(4) {
				case 0: // sign byte of numeric, BIT value
					b[0] = byte(rng.Intn(3))
				case 1: // UTF-16 surrogates (unitext), little-endian
					for i := 0; i+1 < n; i += 2 {
						if rng.Intn(3) == 0 {
							b[i+1] = byte(0xd8 + rng.Intn(8))
						}
					}
				case 2: // trailing NULs
					for i := n - 1; i >= 0 && i >= n-1-rng.Intn(4); i-- {
						b[i] = 0
					}
				}
				emit(Case{Line: fmt.Sprintf("val dec %02x %s", ti, hx(b)), Kind: "c10-val-random"})
			}
			if n <= 17 {
				for i := 0; i < n; i++ {
					b := make([]byte, n)
					b[i] = 0x80
					emit(Case{Line: fmt.Sprintf("val dec %02x %s", ti, hx(b)), Kind: "c10-val-onebit"})
				}
			}
		}
	}
}

// c10ValueOracle: the value leg of C10 on a `val dec` line — the real code must answer, not panic.
func c10ValueOracle(line, out string) string {
	if out == "panic" {
		return "GoValue panics on data sent by the server"
	}
	return ""
}
