package main

import (
	"bufio"
	"encoding/json"
	"fmt"
	"hash/fnv"
	"math/rand"
	"os"
	"os/exec"
	"sort"
	"strings"
	"sync"
	"time"
)

// Case is one self-contained input: a line of the line protocol. The same
// line is executed by the real code (Prop.Impl) and by the Lean model driver.
type Case struct {
	Line string
	Kind string // generator bucket, for the input distribution in the evidence
}

// Prop describes the correspondence and oracle machinery of one property.
type Prop struct {
	ID string
	// Gen emits the cases of a tier. Corpus cases (minimised past failures and
	// witnesses of known findings) are emitted first by the framework.
	Gen func(tier string, rng *rand.Rand, emit func(Case))
	// Impl runs the real code on a line and returns the canonical answer.
	Impl func(line string) string
	// Oracle evaluates the property statement itself on the implementation's
	// answer (written from the property text, not from the model). It returns
	// "" when the case satisfies the property, otherwise the violated clause.
	Oracle func(line, implOut string) string
	// Agree decides whether model and implementation answers correspond.
	// nil = string equality.
	Agree func(modelOut, implOut string) bool
	// FindingKey maps a failing case to the key used in known_findings.json.
	FindingKey func(line, implOut, clause string) string
	// Nontrivial classifies a case for the distinct_nontrivial count.
	Nontrivial func(line, implOut string) bool
	Rule       string
	// NoModel: lines that the Lean driver does not execute (oracle only).
	NoModel func(line string) bool
	// Timeout per case.
	Timeout time.Duration
	// Serial: run Impl sequentially (for cases that use many goroutines/timers themselves).
	Serial bool
	// NoShrink disables token-deletion shrinking.
	NoShrink bool
	// Isolate: run every case in a subprocess of its own (cases that can bring the process down
	// with an unrecoverable runtime error, e.g. "concurrent map read and map write"); the answer of
	// a dead subprocess is `crash`.
	Isolate bool
	// Timed: the answer depends on wall-clock waits (read timeouts, quiet periods). A case whose
	// answer fails the oracle or differs from the model is run again alone (twice at most) before it
	// counts: under load a wait can be misjudged; a deterministic violation fails again.
	Timed       bool
	Assumptions []string
}

var registry = map[string]*Prop{}

func register(p *Prop) { registry[p.ID] = p }

type knownFile struct {
	Findings []struct {
		Property string `json:"property"`
		Key      string `json:"key"`
		What     string `json:"what"`
	} `json:"findings"`
	Fixed []string `json:"fixed"`
}

type proofStatus struct {
	Obligations int                 `json:"obligations"`
	Discharged  int                 `json:"discharged"`
	CheckerCmd  string              `json:"checker_cmd"`
	TrustedBase []string            `json:"trusted_base"`
	Theorems    []string            `json:"theorems"`
	Broken      []string            `json:"broken"`      // theorems / build targets that no longer check
	BuildLog    string              `json:"build_log"`   // tail of the lake output when broken
	DriverOK    bool                `json:"driver_ok"`   // the model driver could be built
	GenChanged  []string            `json:"gen_changed"` // regenerated files that differ from the committed reference
	Axioms      map[string][]string `json:"axioms"`
	LeanWallS   float64             `json:"lean_wall_s"`
}

type replay struct {
	Property     string   `json:"property"`
	Kind         string   `json:"kind"` // impl-violation | correspondence-broken | proof-broken
	Seed         int64    `json:"seed"`
	Ops          []string `json:"ops"`
	Impl         []string `json:"impl,omitempty"`
	Model        []string `json:"model,omitempty"`
	OracleClause string   `json:"oracle_clause,omitempty"`
	Theorem      string   `json:"theorem,omitempty"`
	Detail       string   `json:"detail,omitempty"`
	HowToReplay  string   `json:"how_to_replay"`
}

func isolatedImpl(p *Prop, line string) string {
	timeout := p.Timeout
	if timeout == 0 {
		timeout = 20 * time.Second
	}
	cmd := exec.Command(os.Args[0], "-prop", p.ID, "-case", line)
	if len(line) > 100000 {
		cmd = exec.Command(os.Args[0], "-prop", p.ID, "-case", "-")
		cmd.Stdin = strings.NewReader(line)
	}
	var stdout, stderr strings.Builder
	cmd.Stdout = &stdout
	cmd.Stderr = &stderr
	if err := cmd.Start(); err != nil {
		return "crash"
	}
	done := make(chan error, 1)
	go func() { done <- cmd.Wait() }()
	select {
	case err := <-done:
		if err != nil {
			first := strings.SplitN(strings.TrimSpace(stderr.String()), "\n", 2)[0]
			panicLog(line, "subprocess died: "+first)
			return "crash"
		}
		return strings.TrimSpace(stdout.String())
	case <-time.After(timeout + 5*time.Second):
		cmd.Process.Kill()
		return "timeout"
	}
}

func safeImpl(p *Prop, line string) (out string) {
	// VERIF_FORCE_ISOLATE: ./check re-runs a property whose harness process died with every case in a process
	// of its own, to pin the case that brings it down
	if (p.Isolate || os.Getenv("VERIF_FORCE_ISOLATE") != "") && os.Getenv("VERIF_CHILD") == "" {
		return isolatedImpl(p, line)
	}
	timeout := p.Timeout
	if timeout == 0 {
		timeout = 20 * time.Second
	}
	ch := make(chan string, 1)
	go func() {
		defer func() {
			if r := recover(); r != nil {
				ch <- "panic"
				panicLog(line, r)
			}
		}()
		ch <- p.Impl(line)
	}()
	select {
	case s := <-ch:
		return s
	case <-time.After(timeout):
		return "timeout"
	}
}

var panicMu sync.Mutex
var panicSamples []string

func panicLog(line string, r interface{}) {
	panicMu.Lock()
	defer panicMu.Unlock()
	if len(panicSamples) < 20 {
		l := line
		if len(l) > 200 {
			l = l[:200] + "…"
		}
		panicSamples = append(panicSamples, fmt.Sprintf("%s => %v", l, r))
	}
}

// runDriver feeds lines to the Lean model driver and returns its answers.
func runDriver(driver string, lines []string) ([]string, error) {
	if len(lines) == 0 {
		return nil, nil
	}
	cmd := exec.Command(driver)
	stdin, err := cmd.StdinPipe()
	if err != nil {
		return nil, err
	}
	stdout, err := cmd.StdoutPipe()
	if err != nil {
		return nil, err
	}
	cmd.Stderr = os.Stderr
	if err := cmd.Start(); err != nil {
		return nil, err
	}
	go func() {
		w := bufio.NewWriterSize(stdin, 1<<20)
		for _, l := range lines {
			w.WriteString(l)
			w.WriteByte('\n')
		}
		w.Flush()
		stdin.Close()
	}()
	outs := make([]string, 0, len(lines))
	sc := bufio.NewScanner(stdout)
	sc.Buffer(make([]byte, 1<<20), 1<<28)
	for sc.Scan() {
		outs = append(outs, sc.Text())
	}
	if err := cmd.Wait(); err != nil {
		return outs, fmt.Errorf("driver: %w", err)
	}
	if len(outs) != len(lines) {
		return outs, fmt.Errorf("driver answered %d lines for %d cases", len(outs), len(lines))
	}
	return outs, nil
}

func runImplAll(p *Prop, cases []Case) []string {
	outs := make([]string, len(cases))
	if p.Serial {
		for i, c := range cases {
			outs[i] = safeImpl(p, c.Line)
		}
		return outs
	}
	var wg sync.WaitGroup
	workers := 16
	idx := make(chan int, 1024)
	for w := 0; w < workers; w++ {
		wg.Add(1)
		go func() {
			defer wg.Done()
			for i := range idx {
				outs[i] = safeImpl(p, cases[i].Line)
			}
		}()
	}
	for i := range cases {
		idx <- i
	}
	close(idx)
	wg.Wait()
	return outs
}

func clip(s string, n int) string {
	if len(s) > n {
		return s[:n] + "…"
	}
	return s
}

// shrink removes tokens (after the model name) while pred stays true.
func shrink(line string, pred func(string) bool) string {
	toks := strings.Fields(line)
	if len(toks) <= 2 {
		return line
	}
	changed := true
	budget := 400
	for changed && budget > 0 {
		changed = false
		for i := len(toks) - 1; i >= 1 && budget > 0; i-- {
			if len(toks) <= 2 {
				break
			}
			cand := append(append([]string{}, toks[:i]...), toks[i+1:]...)
			budget--
			if pred(strings.Join(cand, " ")) {
				toks = cand
				changed = true
			}
		}
	}
	return strings.Join(toks, " ")
}

type runConfig struct {
	prop, tier, driver, outFile, replayDir, knownFile, proofFile, corpusDir string
	seed                                                                    int64
}

func loadCorpus(dir, id string) []Case {
	var cs []Case
	ents, err := os.ReadDir(dir + "/" + id)
	if err != nil {
		return nil
	}
	names := []string{}
	for _, e := range ents {
		if strings.HasSuffix(e.Name(), ".ops") {
			names = append(names, e.Name())
		}
	}
	sort.Strings(names)
	for _, n := range names {
		b, err := os.ReadFile(dir + "/" + id + "/" + n)
		if err != nil {
			continue
		}
		for _, l := range strings.Split(string(b), "\n") {
			l = strings.TrimSpace(l)
			if l == "" || strings.HasPrefix(l, "#") {
				continue
			}
			cs = append(cs, Case{Line: l, Kind: "corpus"})
		}
	}
	return cs
}

func writeReplay(cfg runConfig, r replay, n int) string {
	os.MkdirAll(cfg.replayDir, 0o755)
	path := fmt.Sprintf("%s/%s-%s-%d-%d.json", cfg.replayDir, r.Property, r.Kind, cfg.seed, n)
	r.HowToReplay = "./check replay " + path
	b, _ := json.MarshalIndent(r, "", " ")
	os.WriteFile(path, b, 0o644)
	return path
}

func runProp(cfg runConfig) int {
	start := time.Now()
	p := registry[cfg.prop]
	if p == nil {
		fmt.Fprintf(os.Stderr, "unknown property %s\n", cfg.prop)
		return 2
	}

	var known knownFile
	if b, err := os.ReadFile(cfg.knownFile); err == nil {
		json.Unmarshal(b, &known)
	}
	knownKeys := map[string]string{}
	for _, f := range known.Findings {
		if f.Property == p.ID {
			knownKeys[f.Key] = f.What
		}
	}

	var proof proofStatus
	if b, err := os.ReadFile(cfg.proofFile); err == nil {
		json.Unmarshal(b, &proof)
	}

	// 1.-4. cases (corpus first, then the generator) are processed in batches so that the thorough
	// tiers with millions of cases run in bounded memory: implementation, model, comparison, oracle
	agree := p.Agree
	if agree == nil {
		agree = func(m, i string) bool { return m == i }
	}
	type fail struct {
		line, out, clause, key string
	}
	type div struct {
		line, impl, model string
	}
	var diverge []div
	var oracleFails []fail
	nDiverge, nOracleFails, nCases, nModel, nNontrivial, retimed := 0, 0, 0, 0, 0, 0
	kinds := map[string]int{}
	classes := map[string]int{}
	knownSeen := map[string]bool{}
	reportedKeys := map[string]bool{}
	driverErr := ""
	samples := []interface{}{}
	const batchSize = 200000
	processBatch := func(cases []Case) {
		if len(cases) == 0 {
			return
		}
		implOut := runImplAll(p, cases)
		var modelLines []string
		var modelIdx []int
		for i, c := range cases {
			if p.NoModel != nil && p.NoModel(c.Line) {
				continue
			}
			modelLines = append(modelLines, c.Line)
			modelIdx = append(modelIdx, i)
		}
		nModel += len(modelLines)
		modelOut := make([]string, len(cases))
		hasModel := make([]bool, len(cases))
		if proof.DriverOK || cfg.proofFile == "" {
			outs, err := runDriver(cfg.driver, modelLines)
			if err != nil {
				driverErr = err.Error()
			}
			for k, o := range outs {
				if k < len(modelIdx) {
					modelOut[modelIdx[k]] = o
					hasModel[modelIdx[k]] = true
				}
			}
		} else {
			driverErr = "model driver could not be built"
		}
		if p.Timed {
			for i, c := range cases {
				bad := func() bool {
					return (hasModel[i] && !agree(modelOut[i], implOut[i])) || (p.Oracle != nil && p.Oracle(c.Line, implOut[i]) != "")
				}
				for try := 0; try < 2 && bad(); try++ {
					implOut[i] = safeImpl(p, c.Line)
					retimed++
				}
			}
		}
		for i, c := range cases {
			kinds[c.Kind]++
			cls := implOut[i]
			if j := strings.IndexAny(cls, " :[."); j >= 0 {
				cls = cls[:j]
			}
			if len(cls) > 24 {
				cls = cls[:24]
			}
			classes[cls]++
			if p.Nontrivial == nil || p.Nontrivial(c.Line, implOut[i]) {
				nNontrivial++
			}
			if hasModel[i] && !agree(modelOut[i], implOut[i]) {
				nDiverge++
				if len(diverge) < 20 {
					diverge = append(diverge, div{c.Line, implOut[i], modelOut[i]})
				}
			}
			if p.Oracle != nil {
				cl := p.Oracle(c.Line, implOut[i])
				if cl == "" && implOut[i] == "crash" {
					// whatever a property's oracle looks at: a case that takes its (child) process down is a failure
					cl = "the code under test does not bring the process down (unrecovered panic in a goroutine of the library, fatal runtime error, out of memory)"
				}
				if cl != "" {
					nOracleFails++
					key := ""
					if p.FindingKey != nil {
						key = p.FindingKey(c.Line, implOut[i], cl)
					}
					if _, ok := knownKeys[key]; ok && key != "" {
						knownSeen[key] = true
					} else if rk := cl + "|" + key; !reportedKeys[rk] && len(oracleFails) < 50 {
						reportedKeys[rk] = true
						oracleFails = append(oracleFails, fail{c.Line, implOut[i], cl, key})
					}
				}
			}
		}
		if len(samples) < 6 {
			for _, i := range []int{0, len(cases) / 2} {
				if len(samples) < 6 {
					samples = append(samples, map[string]string{"case": clip(cases[i].Line, 300), "impl": clip(implOut[i], 300), "model": clip(modelOut[i], 300)})
				}
			}
		}
		nCases += len(cases)
	}
	seen := map[uint64]struct{}{}
	hashOf := func(s string) uint64 {
		h := fnv.New64a()
		h.Write([]byte(s))
		return h.Sum64()
	}
	var batch []Case
	onlyKind := os.Getenv("VERIF_ONLYKIND") // restrict the run to one generator bucket (used by ./check after a harness crash)
	add := func(c Case) {
		if onlyKind != "" {
			hit := false
			for _, k := range strings.Split(onlyKind, ",") {
				if strings.HasPrefix(c.Kind, k) {
					hit = true
				}
			}
			if !hit {
				return
			}
		}
		h := hashOf(c.Line)
		if _, dup := seen[h]; dup {
			return
		}
		seen[h] = struct{}{}
		batch = append(batch, c)
		if len(batch) >= batchSize {
			processBatch(batch)
			batch = nil
		}
	}
	for _, c := range loadCorpus(cfg.corpusDir, p.ID) {
		add(c)
	}
	rng := rand.New(rand.NewSource(cfg.seed))
	p.Gen(cfg.tier, rng, add)
	processBatch(batch)
	batch = nil
	seen = nil
	if retimed > 0 {
		fmt.Fprintf(os.Stderr, "%s: %d re-runs of timing-dependent answers\n", p.ID, retimed)
	}

	if os.Getenv("VERIF_DUMP") != "" {
		for k, d := range diverge {
			if k < 10 {
				fmt.Fprintf(os.Stderr, "DIVERGE case=%s\n  impl =%s\n  model=%s\n", clip(d.line, 400), clip(d.impl, 300), clip(d.model, 300))
			}
		}
		for k, f := range oracleFails {
			if k < 10 {
				fmt.Fprintf(os.Stderr, "ORACLE case=%s\n  impl =%s\n  clause=%s\n", clip(f.line, 400), clip(f.out, 300), f.clause)
			}
		}
	}
	violations := 0
	var lines []string
	nReplay := 0

	// 4a. oracle failures on the real code: genuine failing inputs (each distinct clause/key once, shrunk)
	for _, f := range oracleFails {
		line := f.line
		if !p.NoShrink {
			line = shrink(line, func(l string) bool {
				o := safeImpl(p, l)
				cl := p.Oracle(l, o)
				if cl != f.clause {
					return false
				}
				if p.FindingKey != nil {
					if _, ok := knownKeys[p.FindingKey(l, o, cl)]; ok {
						return false
					}
				}
				return true
			})
		}
		o := safeImpl(p, line)
		mo, _ := runDriver(cfg.driver, []string{line})
		nReplay++
		path := writeReplay(cfg, replay{Property: p.ID, Kind: "impl-violation", Seed: cfg.seed,
			Ops: []string{line}, Impl: []string{o}, Model: mo, OracleClause: f.clause}, nReplay)
		lines = append(lines, fmt.Sprintf("VIOLATION property=%s replay=%s", p.ID, path))
		violations++
		if violations >= 5 {
			break
		}
	}

	// 4b. correspondence broken without a failing input
	if violations == 0 && (nDiverge > 0 || driverErr != "") {
		detail := driverErr
		var ops, io, mo []string
		if len(diverge) > 0 {
			line := diverge[0].line
			if !p.NoShrink {
				line = shrink(line, func(l string) bool {
					o := safeImpl(p, l)
					m, err := runDriver(cfg.driver, []string{l})
					return err == nil && len(m) == 1 && !agree(m[0], o)
				})
			}
			o := safeImpl(p, line)
			m, _ := runDriver(cfg.driver, []string{line})
			ops, io, mo = []string{line}, []string{o}, m
			detail = fmt.Sprintf("%d of %d cases: model and implementation answers differ", nDiverge, nCases)
		}
		nReplay++
		path := writeReplay(cfg, replay{Property: p.ID, Kind: "correspondence-broken", Seed: cfg.seed,
			Ops: ops, Impl: io, Model: mo, Detail: detail,
			Theorem: "correspondence " + p.ID + " (model driver vs implementation)"}, nReplay)
		lines = append(lines, fmt.Sprintf("VIOLATION property=%s replay=%s no-failing-input-found", p.ID, path))
		violations++
	}

	// 4c. proof obligations broken without a failing input
	if violations == 0 && cfg.proofFile != "" && (len(proof.Broken) > 0 || proof.Discharged != proof.Obligations || proof.Obligations == 0) {
		nReplay++
		path := writeReplay(cfg, replay{Property: p.ID, Kind: "proof-broken", Seed: cfg.seed,
			Theorem: strings.Join(proof.Broken, ", "),
			Detail:  "proof obligations no longer check: " + clip(proof.BuildLog, 4000)}, nReplay)
		lines = append(lines, fmt.Sprintf("VIOLATION property=%s replay=%s no-failing-input-found", p.ID, path))
		violations++
	}

	// known findings reproduced in this run
	keys := []string{}
	for k := range knownSeen {
		keys = append(keys, k)
	}
	sort.Strings(keys)
	for _, k := range keys {
		fmt.Printf("KNOWN-FINDING: property=%s %s\n", p.ID, knownKeys[k])
	}
	for _, l := range lines {
		fmt.Println(l)
	}

	// 5. evidence
	for _, th := range proof.Theorems {
		if len(samples) < 14 {
			samples = append(samples, map[string]string{"obligation": th})
		}
	}
	cov := map[string]interface{}{
		"obligations":                   proof.Obligations,
		"discharged":                    proof.Discharged,
		"checker_cmd":                   proof.CheckerCmd,
		"trusted_base":                  proof.TrustedBase,
		"theorems":                      proof.Theorems,
		"axioms":                        proof.Axioms,
		"broken":                        proof.Broken,
		"evaluations":                   nCases,
		"distinct_nontrivial":           nNontrivial,
		"rule":                          p.Rule,
		"samples":                       samples,
		"traces_validated_against_impl": nModel,
		"model_vs_impl_disagreements":   nDiverge,
		"oracle_failures":               nOracleFails,
		"known_findings_reproduced":     keys,
		"input_distribution":            kinds,
		"outcome_classes":               classes,
		"panic_samples":                 panicSamples,
		"lean_wall_s":                   proof.LeanWallS,
	}
	ev := map[string]interface{}{
		"property_id": p.ID,
		"tier":        cfg.tier,
		"seed":        cfg.seed,
		"level":       "proof",
		"coverage":    cov,
		"assumptions": p.Assumptions,
		"wall_s":      time.Since(start).Seconds() + proof.LeanWallS,
		"violations":  violations,
	}
	b, _ := json.MarshalIndent(ev, "", " ")
	if cfg.outFile != "" {
		os.WriteFile(cfg.outFile, b, 0o644)
	}
	fmt.Printf("%s %s: %d cases, %d model-checked, %d disagreements, %d oracle failures (%d known), proofs %d/%d, %.1fs\n",
		p.ID, cfg.tier, nCases, nModel, nDiverge, nOracleFails, len(knownSeen),
		proof.Discharged, proof.Obligations, time.Since(start).Seconds())
	if violations > 0 {
		return 1
	}
	return 0
}
