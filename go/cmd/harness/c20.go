package main

import (
	"database/sql"
	"fmt"
	"math/rand"
	"os"
	"os/exec"
	"sort"
	"strconv"
	"strings"

	dblib "github.com/SAP/go-dblib"
)

// isoImpl: `iso fromgo n` -> "ok a" | "err";  `iso togo n [reps]` -> sorted set of observed answers,
// `iso str n` -> sorted set of observed String() results.
func isoImpl(line string) string {
	f := strings.Fields(line)
	if len(f) < 3 {
		return "bad-op"
	}
	n, err := strconv.Atoi(f[2])
	if err != nil {
		return "bad-op"
	}
	reps := 400
	switch f[1] {
	case "fromgo":
		seen := map[string]bool{}
		for i := 0; i < 50; i++ {
			a, err := dblib.ASEIsolationLevelFromGo(sql.IsolationLevel(n))
			if err != nil {
				if a != dblib.ASELevelInvalid {
					seen["err-with-level"] = true
				}
				seen["err"] = true
			} else {
				seen[fmt.Sprintf("ok %d", int(a))] = true
			}
		}
		return joinSet(seen)
	case "after":
		// `iso after <sql level> <ase level>`: what translating the sql level gives after the ASE level was
		// translated back and printed in the same (fresh) process — the same as without that history
		if len(f) < 4 {
			return "bad-op"
		}
		out, err := exec.Command(os.Args[0], "-isochild", "after:"+f[3]+":"+f[2]).Output()
		if err != nil {
			return "crash"
		}
		return strings.TrimSpace(string(out))
	case "before":
		// `iso before <ase level> <sql level>`: what translating the ASE level back gives after the sql level was
		// translated in the same (fresh) process — the same as without that history
		if len(f) < 4 {
			return "bad-op"
		}
		out, err := exec.Command(os.Args[0], "-isochild", "before:"+f[2]+":"+f[3]).Output()
		if err != nil {
			return "crash"
		}
		g := strings.Fields(string(out))
		if len(g) != 2 {
			return "crash"
		}
		return g[0]
	case "togo":
		seen := map[string]bool{}
		for i := 0; i < reps; i++ {
			seen[strconv.Itoa(int(dblib.ASEIsolationLevel(n).ToGo()))] = true
		}
		// other processes: map iteration order is seeded per process/iteration
		if len(f) > 3 && f[3] == "procs" {
			// (a table built once per process from a map has one order per process: enough processes that a
			// two-way choice is seen both ways with probability 1 - 2^-16)
			for i := 0; i < 16; i++ {
				out, err := exec.Command(os.Args[0], "-isochild", f[2]).Output()
				if err == nil {
					for _, s := range strings.Fields(string(out)) {
						seen[s] = true
					}
				}
			}
		}
		return joinSetNum(seen)
	case "str":
		seen := map[string]bool{}
		for i := 0; i < reps; i++ {
			seen[strings.ReplaceAll(dblib.ASEIsolationLevel(n).String(), " ", "_")] = true
		}
		return joinSet(seen)
	}
	return "bad-op"
}

func isoChild(arg string) {
	if strings.HasPrefix(arg, "before:") {
		// the other history: a sql level is translated first, THEN an ASE level is translated back and printed
		f := strings.Split(arg, ":")
		a, _ := strconv.Atoi(f[1])
		q, _ := strconv.Atoi(f[2])
		_, _ = dblib.ASEIsolationLevelFromGo(sql.IsolationLevel(q))
		fmt.Printf("%d %s\n", int(dblib.ASEIsolationLevel(a).ToGo()), strings.ReplaceAll(dblib.ASEIsolationLevel(a).String(), " ", "_"))
		return
	}
	if strings.HasPrefix(arg, "after:") {
		// a history in a fresh process: translate an ASE level back and print it, THEN translate a sql level
		f := strings.Split(arg, ":")
		a, _ := strconv.Atoi(f[1])
		q, _ := strconv.Atoi(f[2])
		_ = dblib.ASEIsolationLevel(a).ToGo()
		_ = dblib.ASEIsolationLevel(a).String()
		lvl, err := dblib.ASEIsolationLevelFromGo(sql.IsolationLevel(q))
		if err != nil {
			fmt.Println("err")
		} else {
			fmt.Printf("ok %d\n", int(lvl))
		}
		return
	}
	n, _ := strconv.Atoi(arg)
	seen := map[string]bool{}
	for i := 0; i < 200; i++ {
		seen[strconv.Itoa(int(dblib.ASEIsolationLevel(n).ToGo()))] = true
	}
	fmt.Println(strings.ReplaceAll(joinSetNum(seen), ",", " "))
}

func joinSet(m map[string]bool) string {
	ks := []string{}
	for k := range m {
		ks = append(ks, k)
	}
	sort.Strings(ks)
	return strings.Join(ks, ",")
}

func joinSetNum(m map[string]bool) string {
	ks := []int{}
	for k := range m {
		n, _ := strconv.Atoi(k)
		ks = append(ks, n)
	}
	sort.Ints(ks)
	s := []string{}
	for _, k := range ks {
		s = append(s, strconv.Itoa(k))
	}
	return strings.Join(s, ",")
}

func init() {
	register(&Prop{
		ID: "C20",
		Gen: func(tier string, rng *rand.Rand, emit func(Case)) {
			for n := -8; n <= 64; n++ {
				emit(Case{Line: fmt.Sprintf("iso fromgo %d", n), Kind: "fromgo"})
			}
			for n := -8; n <= 16; n++ {
				l := fmt.Sprintf("iso togo %d", n)
				if tier == "thorough" || (n >= -1 && n <= 4) {
					l += " procs"
				}
				emit(Case{Line: l, Kind: "togo"})
				emit(Case{Line: fmt.Sprintf("iso str %d", n), Kind: "string"})
			}
			for i := 0; i < 40; i++ {
				emit(Case{Line: fmt.Sprintf("iso fromgo %d", rng.Int63n(1<<40)-(1<<39)), Kind: "fromgo-random"})
			}
			// histories: a level is translated back and printed first (the invalid level a failed call returns,
			// unknown values, the supported ones), then every sql level is translated: same answers as without
			for _, a := range []int{-1, 0, 5, 2, 64} {
				for q := -1; q <= 8; q++ {
					emit(Case{Line: fmt.Sprintf("iso after %d %d", q, a), Kind: "fromgo-after-togo"})
				}
			}
			for a := -1; a <= 5; a++ {
				for q := -1; q <= 8; q++ {
					emit(Case{Line: fmt.Sprintf("iso before %d %d", a, q), Kind: "togo-after-fromgo"})
				}
			}
		},
		Impl:    isoImpl,
		NoModel: func(line string) bool { return strings.HasPrefix(line, "iso str") },
		// the model answers with the set of possible results; every observed result must be possible
		Agree: func(m, i string) bool {
			ms := map[string]bool{}
			for _, x := range strings.Split(m, ",") {
				ms[x] = true
			}
			if strings.HasPrefix(i, "ok") || i == "err" {
				return m == i
			}
			for _, x := range strings.Split(i, ",") {
				if !ms[x] {
					return false
				}
			}
			return true
		},
		Oracle: func(line, out string) string {
			f := strings.Fields(line)
			n, _ := strconv.Atoi(f[2])
			if strings.Contains(out, "panic") || out == "timeout" || out == "crash" {
				return "every level value gets an answer (a translation, a default or an error), never a crash"
			}
			switch f[1] {
			case "fromgo", "after":
				want := "err"
				switch sql.IsolationLevel(n) {
				case sql.LevelDefault, sql.LevelReadCommitted:
					want = fmt.Sprintf("ok %d", int(dblib.ASELevelReadCommitted))
				case sql.LevelReadUncommitted:
					want = fmt.Sprintf("ok %d", int(dblib.ASELevelReadUncommitted))
				case sql.LevelRepeatableRead:
					want = fmt.Sprintf("ok %d", int(dblib.ASELevelRepeatableRead))
				case sql.LevelSerializable:
					want = fmt.Sprintf("ok %d", int(dblib.ASELevelSerializableRead))
				}
				if out != want && f[1] == "after" {
					return "the four supported levels translate, every other level is an error — also after a level was translated back and printed (the same answer for the same level)"
				}
				if out != want {
					return "the four supported levels (default = read committed) translate, every other level is an error"
				}
			case "togo", "before":
				if strings.Contains(out, ",") {
					return "translating back always gives the same answer for the same level"
				}
				// there and back for supported non-default levels
				back := map[int]sql.IsolationLevel{
					int(dblib.ASELevelReadUncommitted): sql.LevelReadUncommitted, int(dblib.ASELevelReadCommitted): sql.LevelReadCommitted,
					int(dblib.ASELevelRepeatableRead): sql.LevelRepeatableRead, int(dblib.ASELevelSerializableRead): sql.LevelSerializable}
				if w, ok := back[n]; ok && out != strconv.Itoa(int(w)) {
					return "a supported non-default level translated there and back is unchanged"
				}
			case "str":
				if strings.Contains(out, ",") {
					return "printing a level always gives the same answer"
				}
				// … and that answer is the name of the level it translates back to (the four supported
				// levels, Default for everything else), whatever was printed before in this process
				names := map[int]sql.IsolationLevel{
					int(dblib.ASELevelReadUncommitted): sql.LevelReadUncommitted, int(dblib.ASELevelReadCommitted): sql.LevelReadCommitted,
					int(dblib.ASELevelRepeatableRead): sql.LevelRepeatableRead, int(dblib.ASELevelSerializableRead): sql.LevelSerializable}
				if out != strings.ReplaceAll(names[n].String(), " ", "_") { // missing key: sql.LevelDefault
					return "printing a level agrees with translating it back"
				}
			}
			return ""
		},
		FindingKey:  func(line, out, clause string) string { return line },
		Nontrivial:  func(line, out string) bool { return out != "err" },
		Rule:        "sql levels -8..64 plus 40 random 40-bit values through ASEIsolationLevelFromGo (50 evaluations each); ASE levels -8..16 through ToGo and String (400 evaluations each in-process, plus 16 child processes x 200 for the levels marked procs); non-trivial = answer other than the error",
		NoShrink:    true,
		Assumptions: []string{"Go map iteration order is unspecified (modelled as: any entry may be visited first)"},
	})
}

// rule addenda (rounds 9-12): what the evidence says about the coverage of a run
func init() {
	if p := registry["C20"]; p != nil {
		p.Rule += " Histories in both orders in fresh processes (ToGo before the first FromGo and after it), 16 child processes."
	}
}
