package main

// Codec group "Cursor": dynamic SQL and cursor packages (the kinds reachable from
// tds.LookupPackage). Lean counterpart: lean/Dblib/Model/Codec/Cursor.lean.
//
// Canonical field lists (integers decimal, strings as hex, `-` = empty):
//
//   dynamic | dynamic2         <type> <status> <id> <stmt>
//   curdeclare | curdeclare3   <name> <options> <status> <stmt> <columns>
//                              columns: `.` = none, else hex names joined by `,` (`-` = empty name)
//   curinfo | curinfo3         <cursorid> <name> <command> <status> <rownum> <totalrows> <rowcount>
//   curopen                    <cursorid> <name> <status>
//   curfetch                   <cursorid> <name> <type> <rownumber>
//   curupdate                  <cursorid> <name> <status> <table> <stmt>
//   curdelete                  <cursorid> <name> <status> <table>
//
// Gen emits only field lists that are in normal form for the writer (a name only when the cursor
// id is 0, a statement only when the dynamic type carries one, rownum/totalrows only in the wide
// CURINFO, rowcount only with the ROWCNT status bit, a row number only for ABS/REL fetches) and
// within the field widths, so that a correct writer/reader pair reproduces exactly the fields.
// SpecEnc / SpecDec are written from the TDS 5.0 token layouts: the body is delimited by the
// declared length and must be consumed exactly; they share no code with /repo.

import (
	"fmt"
	"math/rand"
	"reflect"
	"strconv"
	"strings"
	"unsafe"

	"github.com/SAP/go-dblib/tds"
)

// ---------------------------------------------------------------- field helpers

func curU(s string, bits int) (uint64, bool) {
	v, err := strconv.ParseUint(s, 10, bits)
	return v, err == nil
}

func curI32(s string) (int32, bool) {
	v, err := strconv.ParseInt(s, 10, 32)
	return int32(v), err == nil
}

func curHex(s string) (string, bool) {
	b := unhx(s)
	if b == nil {
		return "", false
	}
	return string(b), true
}

func curShowCols(cols []string) string {
	if len(cols) == 0 {
		return "."
	}
	parts := make([]string, len(cols))
	for i, c := range cols {
		parts[i] = hx([]byte(c))
	}
	return strings.Join(parts, ",")
}

func curParseCols(s string) ([]string, bool) {
	if s == "." {
		return nil, true
	}
	var cols []string
	for _, p := range strings.Split(s, ",") {
		c, ok := curHex(p)
		if !ok {
			return nil, false
		}
		cols = append(cols, c)
	}
	return cols, true
}

// the update column list of CurDeclarePackage is an unexported field without accessor
func curDeclColumns(p *tds.CurDeclarePackage) *[]string {
	f := reflect.ValueOf(p).Elem().FieldByName("columns")
	return (*[]string)(unsafe.Pointer(f.UnsafeAddr()))
}

func lookupAs(tok tds.Token) tds.Package {
	p, _ := tds.LookupPackage(tok)
	return p
}

// ---------------------------------------------------------------- independent layout codec

type curW struct{ b []byte }

func (w *curW) u(width int, v uint64) {
	for i := 0; i < width; i++ {
		w.b = append(w.b, byte(v>>(8*uint(i))))
	}
}
func (w *curW) s(x string) { w.b = append(w.b, x...) }

// frame = token, length of the body on lenWidth bytes, body
func curFrame(tok byte, lenWidth int, body []byte) []byte {
	w := &curW{b: []byte{tok}}
	w.u(lenWidth, uint64(len(body)))
	return append(w.b, body...)
}

type curR struct {
	b   []byte
	bad bool
}

func (r *curR) u(width int) uint64 {
	if len(r.b) < width {
		r.bad = true
		r.b = nil
		return 0
	}
	var v uint64
	for i := 0; i < width; i++ {
		v |= uint64(r.b[i]) << (8 * uint(i))
	}
	r.b = r.b[width:]
	return v
}
func (r *curR) i32() int32 { return int32(uint32(r.u(4))) }
func (r *curR) s(n uint64) string {
	if uint64(len(r.b)) < n {
		r.bad = true
		r.b = nil
		return ""
	}
	x := string(r.b[:n])
	r.b = r.b[n:]
	return x
}

// curUnframe checks token and declared length; returns the body (exactly the declared bytes).
func curUnframe(bs []byte, tok byte, lenWidth int) (*curR, bool) {
	if len(bs) < 1+lenWidth || bs[0] != tok {
		return nil, false
	}
	r := &curR{b: bs[1:]}
	n := r.u(lenWidth)
	if uint64(len(r.b)) != n {
		return nil, false
	}
	return r, true
}

func (r *curR) done() bool { return !r.bad && len(r.b) == 0 }

// cursor reference: id, and a name iff id == 0
func (r *curR) ref() (int32, string) {
	id := r.i32()
	name := ""
	if id == 0 {
		name = r.s(r.u(1))
	}
	return id, name
}

func (w *curW) ref(id int32, name string) {
	w.u(4, uint64(uint32(id)))
	if id == 0 {
		w.u(1, uint64(len(name)))
		w.s(name)
	}
}

// ---------------------------------------------------------------- generators

var curNameLens = []int{0, 1, 254, 255}
var curIDs = []int32{0, 1, -1, 2147483647, -2147483648, 256}

func curBytes(rng *rand.Rand, n int) string {
	b := make([]byte, n)
	for i := range b {
		b[i] = byte(rng.Intn(256))
	}
	return hx(b)
}

func curText(rng *rand.Rand, n int) string {
	b := make([]byte, n)
	for i := range b {
		b[i] = byte('a' + rng.Intn(26))
	}
	return hx(b)
}

func curRandLen(rng *rand.Rand) int {
	switch rng.Intn(10) {
	case 0:
		return 0
	case 1:
		return 255
	case 2:
		return 254
	default:
		return rng.Intn(40)
	}
}

func curRandI32(rng *rand.Rand) int32 {
	switch rng.Intn(6) {
	case 0:
		return 0
	case 1:
		return 2147483647
	case 2:
		return -2147483648
	case 3:
		return -1
	default:
		return int32(rng.Uint32())
	}
}

func curRandID(rng *rand.Rand) int32 {
	if rng.Intn(2) == 0 {
		return 0
	}
	return curRandI32(rng)
}

func curN(tier string, quick, thorough int) int {
	if tier == "thorough" {
		return thorough
	}
	return quick
}

func dynHasStmt(t uint64) bool { return t&1 == 1 || t&8 == 8 }

func genDynamic(wide bool) func(string, *rand.Rand, func(string)) {
	return func(tier string, rng *rand.Rand, emit func(string)) {
		types := []uint64{1, 2, 4, 8, 0x10, 0x20, 0x40, 0x80, 0x09, 0x21, 0x22, 0x03, 0xff}
		stati := []uint64{0, 1, 2, 4, 8, 0x0f, 0xff}
		stmtLens := []int{0, 1, 254, 255, 256}
		for _, t := range types {
			for _, il := range curNameLens {
				if !dynHasStmt(t) {
					emit(fmt.Sprintf("%d 0 %s -", t, curText(rng, il)))
					continue
				}
				for _, sl := range stmtLens {
					emit(fmt.Sprintf("%d 0 %s %s", t, curText(rng, il), curText(rng, sl)))
				}
			}
		}
		for _, s := range stati {
			emit(fmt.Sprintf("1 %d %s %s", s, curText(rng, 3), curText(rng, 9)))
			emit(fmt.Sprintf("32 %d %s -", s, curText(rng, 3)))
		}
		// largest statements: narrow totalLength must stay below MaxInt16
		for _, il := range []int{0, 255} {
			if wide {
				emit(fmt.Sprintf("1 0 %s %s", curText(rng, il), curText(rng, 65535)))
				emit(fmt.Sprintf("8 1 %s %s", curText(rng, il), curText(rng, 65536)))
				emit(fmt.Sprintf("1 0 %s %s", curText(rng, il), curText(rng, 70000)))
			} else {
				emit(fmt.Sprintf("1 0 %s %s", curText(rng, il), curText(rng, 32767-1-5-il)))
				emit(fmt.Sprintf("8 1 %s %s", curText(rng, il), curText(rng, 32767-2-5-il)))
			}
		}
		for i := 0; i < curN(tier, 200, 3000); i++ {
			t := uint64(1 + rng.Intn(255))
			st := uint64(rng.Intn(256))
			if rng.Intn(2) == 0 {
				st = uint64(rng.Intn(16))
			}
			stmt := "-"
			if dynHasStmt(t) {
				n := rng.Intn(300)
				if rng.Intn(20) == 0 {
					n = rng.Intn(5000)
				}
				stmt = curBytes(rng, n)
			}
			emit(fmt.Sprintf("%d %d %s %s", t, st, curBytes(rng, curRandLen(rng)), stmt))
		}
	}
}

func genCurDeclare(wide bool) func(string, *rand.Rand, func(string)) {
	return func(tier string, rng *rand.Rand, emit func(string)) {
		var opts []uint64
		for b := uint(0); b < 8; b++ {
			opts = append(opts, 1<<b)
		}
		opts = append(opts, 0, 0xff)
		if wide {
			opts = append(opts, 0x100, 0x200, 0x3ff, 0xffff, 0x10000, 0xffffffff)
		}
		cols := func(k int) string {
			switch k {
			case 0:
				return "."
			case 1:
				return "-"
			case 2:
				return curText(rng, 1)
			case 3:
				return curText(rng, 255)
			case 4:
				return curText(rng, 254) + ",-," + curText(rng, 2)
			default:
				parts := make([]string, 300)
				for i := range parts {
					parts[i] = curText(rng, i%3)
				}
				return strings.Join(parts, ",")
			}
		}
		for _, nl := range curNameLens {
			for _, sl := range []int{0, 1, 254, 255, 256} {
				for k := 0; k < 6; k++ {
					emit(fmt.Sprintf("%s 1 0 %s %s", curText(rng, nl), curText(rng, sl), cols(k)))
				}
			}
		}
		for _, o := range opts {
			for _, st := range []uint64{0, 1, 0xff} {
				emit(fmt.Sprintf("%s %d %d %s .", curText(rng, 2), o, st, curText(rng, 5)))
			}
		}
		// largest statements
		if wide {
			emit(fmt.Sprintf("%s 1 0 %s .", curText(rng, 255), curText(rng, 65535)))
			emit(fmt.Sprintf("- 1 0 %s -", curText(rng, 65536)))
			emit(fmt.Sprintf("- 2 1 %s %s", curText(rng, 70000), cols(4)))
		} else {
			emit(fmt.Sprintf("%s 1 0 %s .", curText(rng, 255), curText(rng, 65535-7-255)))
			emit(fmt.Sprintf("- 1 0 %s .", curText(rng, 65535-7)))
			emit(fmt.Sprintf("- 2 1 %s -", curText(rng, 65535-7-1)))
		}
		for i := 0; i < curN(tier, 200, 3000); i++ {
			var o uint64
			if wide {
				o = uint64(rng.Uint32())
				if rng.Intn(2) == 0 {
					o = uint64(rng.Intn(0x400))
				}
			} else {
				o = uint64(rng.Intn(256))
			}
			nc := rng.Intn(4)
			cs := "."
			if nc > 0 {
				parts := make([]string, nc)
				for j := range parts {
					parts[j] = curBytes(rng, curRandLen(rng))
				}
				cs = strings.Join(parts, ",")
			}
			emit(fmt.Sprintf("%s %d %d %s %s", curBytes(rng, curRandLen(rng)), o, rng.Intn(256),
				curBytes(rng, rng.Intn(300)), cs))
		}
	}
}

func genCurInfo(wide bool) func(string, *rand.Rand, func(string)) {
	return func(tier string, rng *rand.Rand, emit func(string)) {
		line := func(id int32, nameLen int, cmd, status uint64, rn, tr, rc int32) {
			name := "-"
			if id == 0 {
				name = curText(rng, nameLen)
			}
			if !wide {
				rn, tr = 0, 0
			}
			if status&0x20 == 0 {
				rc = 0
			}
			emit(fmt.Sprintf("%d %s %d %d %d %d %d", id, name, cmd, status, rn, tr, rc))
		}
		var stati []uint64
		maxBit := uint(16)
		if wide {
			maxBit = 32
		}
		for b := uint(0); b < maxBit; b++ {
			stati = append(stati, 1<<b, 1<<b|0x20)
		}
		stati = append(stati, 0, 0x3fff, 0xffff)
		if wide {
			stati = append(stati, 0xffffffff, 0xffffffdf)
		}
		for _, id := range curIDs {
			for _, nl := range curNameLens {
				for _, st := range []uint64{0, 0x20} {
					line(id, nl, 1, st, 7, 9, 11)
				}
				if id != 0 {
					break
				}
			}
		}
		for _, st := range stati {
			line(0, 3, 2, st, 1, 2, 3)
			line(5, 0, 3, st, -1, -2, -3)
		}
		for _, cmd := range []uint64{0, 1, 2, 3, 4, 5, 255} {
			line(1, 0, cmd, 0x21, 0, 0, 1)
		}
		for _, v := range []int32{0, 1, -1, 2147483647, -2147483648} {
			line(1, 0, 3, 0x22, v, 5, 6)
			line(1, 0, 3, 0x22, 5, v, 6)
			line(1, 0, 3, 0x22, 5, 6, v)
		}
		for i := 0; i < curN(tier, 300, 5000); i++ {
			var st uint64
			if wide {
				st = uint64(rng.Uint32())
			} else {
				st = uint64(rng.Intn(65536))
			}
			if rng.Intn(2) == 0 {
				st &= 0x3fff
			}
			line(curRandID(rng), curRandLen(rng), uint64(rng.Intn(256)), st,
				curRandI32(rng), curRandI32(rng), curRandI32(rng))
		}
	}
}

func genCurOpen(tier string, rng *rand.Rand, emit func(string)) {
	line := func(id int32, nameLen int, st uint64) {
		name := "-"
		if id == 0 {
			name = curText(rng, nameLen)
		}
		emit(fmt.Sprintf("%d %s %d", id, name, st))
	}
	for _, id := range curIDs {
		for _, nl := range curNameLens {
			for _, st := range []uint64{0, 1, 2, 3, 255} {
				line(id, nl, st)
			}
			if id != 0 {
				break
			}
		}
	}
	for i := 0; i < curN(tier, 200, 3000); i++ {
		line(curRandID(rng), curRandLen(rng), uint64(rng.Intn(256)))
	}
}

func genCurFetch(tier string, rng *rand.Rand, emit func(string)) {
	line := func(id int32, nameLen int, ty uint64, rn int32) {
		name := "-"
		if id == 0 {
			name = curText(rng, nameLen)
		}
		if ty != 5 && ty != 6 {
			rn = 0
		}
		emit(fmt.Sprintf("%d %s %d %d", id, name, ty, rn))
	}
	for _, id := range curIDs {
		for _, nl := range curNameLens {
			for _, ty := range []uint64{0, 1, 2, 3, 4, 5, 6, 7, 255} {
				line(id, nl, ty, 42)
			}
			if id != 0 {
				break
			}
		}
	}
	for _, v := range []int32{0, 1, -1, 2147483647, -2147483648} {
		line(0, 1, 5, v)
		line(3, 0, 6, v)
	}
	for i := 0; i < curN(tier, 200, 3000); i++ {
		ty := uint64(rng.Intn(8))
		if rng.Intn(8) == 0 {
			ty = uint64(rng.Intn(256))
		}
		line(curRandID(rng), curRandLen(rng), ty, curRandI32(rng))
	}
}

func genCurUpdate(tier string, rng *rand.Rand, emit func(string)) {
	line := func(id int32, nameLen int, st uint64, tableLen, stmtLen int) {
		name := "-"
		if id == 0 {
			name = curText(rng, nameLen)
		}
		emit(fmt.Sprintf("%d %s %d %s %s", id, name, st, curText(rng, tableLen), curText(rng, stmtLen)))
	}
	for _, id := range []int32{0, 1, -1} {
		for _, nl := range curNameLens {
			for _, tl := range curNameLens {
				// stmtLen 0: a legal package for the writer (the statement is optional)
				for _, sl := range []int{0, 1, 255, 256} {
					line(id, nl, 0, tl, sl)
				}
			}
			if id != 0 {
				break
			}
		}
	}
	for _, st := range []uint64{0, 1, 2, 3, 255} {
		line(2, 0, st, 3, 4)
		line(2, 0, st, 3, 0)
	}
	// largest statement: totalLength is a uint16
	line(0, 255, 1, 255, 65535-(4+1+1+255+1+255+2))
	line(7, 0, 1, 0, 65535-(4+1+1+2))
	for i := 0; i < curN(tier, 200, 3000); i++ {
		sl := rng.Intn(300)
		if rng.Intn(5) == 0 {
			sl = 0
		}
		line(curRandID(rng), curRandLen(rng), uint64(rng.Intn(256)), curRandLen(rng), sl)
	}
}

func genCurDelete(tier string, rng *rand.Rand, emit func(string)) {
	line := func(id int32, nameLen int, st uint64, tableLen int) {
		name := "-"
		if id == 0 {
			name = curText(rng, nameLen)
		}
		emit(fmt.Sprintf("%d %s %d %s", id, name, st, curText(rng, tableLen)))
	}
	for _, id := range curIDs {
		for _, nl := range curNameLens {
			for _, tl := range curNameLens {
				line(id, nl, 0, tl)
			}
			if id != 0 {
				break
			}
		}
	}
	for _, st := range []uint64{0, 1, 255} {
		line(2, 0, st, 3)
	}
	for i := 0; i < curN(tier, 200, 3000); i++ {
		line(curRandID(rng), curRandLen(rng), uint64(rng.Intn(256)), curRandLen(rng))
	}
}

// ---------------------------------------------------------------- registrations

func init() {
	// ---- DYNAMIC / DYNAMIC2
	for _, wide := range []bool{false, true} {
		wide := wide
		kind, tok, lw := "dynamic", byte(tds.TDS_DYNAMIC), 2
		if wide {
			kind, tok, lw = "dynamic2", byte(tds.TDS_DYNAMIC2), 4
		}
		registerCodec(&pkgCodec{
			Kind: kind, Tokens: []byte{tok},
			Show: func(p tds.Package) string {
				d := p.(*tds.DynamicPackage)
				return fmt.Sprintf("%s %d %d %s %s", kind, byte(d.Type), byte(d.Status), hx([]byte(d.ID)), hx([]byte(d.Stmt)))
			},
			Build: func(f []string) (tds.Package, bool) {
				if len(f) != 4 {
					return nil, false
				}
				t, ok1 := curU(f[0], 8)
				s, ok2 := curU(f[1], 8)
				id, ok3 := curHex(f[2])
				stmt, ok4 := curHex(f[3])
				if !(ok1 && ok2 && ok3 && ok4) {
					return nil, false
				}
				d := tds.NewDynamicPackage(wide)
				d.Type, d.Status, d.ID, d.Stmt = tds.DynamicOperationType(t), tds.DynamicStatusType(s), id, stmt
				return d, true
			},
			Gen: genDynamic(wide),
			// TDS_DYNAMIC: token, Length(2|4), Type(1), Status(1), IdLen(1), Id,
			// [StmtLen(2|4), Stmt] iff Type has TDS_DYN_PREPARE or TDS_DYN_EXEC_IMMED
			SpecEnc: func(f []string) ([]byte, bool) {
				if len(f) != 4 {
					return nil, false
				}
				t, ok1 := curU(f[0], 8)
				s, ok2 := curU(f[1], 8)
				id, ok3 := curHex(f[2])
				stmt, ok4 := curHex(f[3])
				if !(ok1 && ok2 && ok3 && ok4) || len(id) > 255 {
					return nil, false
				}
				w := &curW{}
				w.u(1, t)
				w.u(1, s)
				w.u(1, uint64(len(id)))
				w.s(id)
				if dynHasStmt(t) {
					w.u(lw, uint64(len(stmt)))
					w.s(stmt)
				} else if stmt != "" {
					return nil, false
				}
				return curFrame(tok, lw, w.b), true
			},
			SpecDec: func(bs []byte) (string, bool) {
				r, ok := curUnframe(bs, tok, lw)
				if !ok {
					return "", false
				}
				t, s := r.u(1), r.u(1)
				id := r.s(r.u(1))
				stmt := ""
				if dynHasStmt(t) {
					stmt = r.s(r.u(lw))
				}
				if !r.done() {
					return "", false
				}
				return fmt.Sprintf("%s %d %d %s %s", kind, t, s, hx([]byte(id)), hx([]byte(stmt))), true
			},
		})
	}

	// ---- CURDECLARE / CURDECLARE3
	for _, wide := range []bool{false, true} {
		wide := wide
		kind, tok, lw, ow := "curdeclare", tds.TDS_CURDECLARE, 2, 1
		if wide {
			kind, tok, lw, ow = "curdeclare3", tds.TDS_CURDECLARE3, 4, 4
		}
		registerCodec(&pkgCodec{
			Kind: kind, Tokens: []byte{byte(tok)}, ClientOnly: true,
			Show: func(p tds.Package) string {
				d := p.(*tds.CurDeclarePackage)
				return fmt.Sprintf("%s %s %d %d %s %s", kind, hx([]byte(d.Name)), uint64(d.Options), uint64(d.Status),
					hx([]byte(d.Stmt)), curShowCols(*curDeclColumns(d)))
			},
			Build: func(f []string) (tds.Package, bool) {
				if len(f) != 5 {
					return nil, false
				}
				name, ok1 := curHex(f[0])
				o, ok2 := curU(f[1], 64)
				s, ok3 := curU(f[2], 64)
				stmt, ok4 := curHex(f[3])
				cols, ok5 := curParseCols(f[4])
				if !(ok1 && ok2 && ok3 && ok4 && ok5) {
					return nil, false
				}
				d := lookupAs(tok).(*tds.CurDeclarePackage) // carries the unexported `wide`
				d.Name, d.Options, d.Status, d.Stmt = name, tds.CursorOption(o), tds.CursorDStatus(s), stmt
				*curDeclColumns(d) = cols
				return d, true
			},
			Gen: genCurDeclare(wide),
			// TDS_CURDECLARE: token, Length(2|4), NameLen(1), Name, Options(1|4), Status(1),
			// StmtLen(2|4), Stmt, NumColumns(2), { ColNameLen(1), ColName }*
			SpecDec: func(bs []byte) (string, bool) {
				r, ok := curUnframe(bs, byte(tok), lw)
				if !ok {
					return "", false
				}
				name := r.s(r.u(1))
				o, s := r.u(ow), r.u(1)
				stmt := r.s(r.u(lw))
				nc := r.u(2)
				var cols []string
				for i := uint64(0); i < nc && !r.bad; i++ {
					cols = append(cols, r.s(r.u(1)))
				}
				if !r.done() {
					return "", false
				}
				return fmt.Sprintf("%s %s %d %d %s %s", kind, hx([]byte(name)), o, s, hx([]byte(stmt)), curShowCols(cols)), true
			},
		})
	}

	// ---- CURINFO / CURINFO3
	for _, wide := range []bool{false, true} {
		wide := wide
		kind, tok, sw := "curinfo", tds.TDS_CURINFO, 2
		if wide {
			kind, tok, sw = "curinfo3", tds.TDS_CURINFO3, 4
		}
		parse := func(f []string) (id int32, name string, cmd, st uint64, rn, tr, rc int32, ok bool) {
			if len(f) != 7 {
				return
			}
			var ok1, ok2, ok3, ok4, ok5, ok6, ok7 bool
			id, ok1 = curI32(f[0])
			name, ok2 = curHex(f[1])
			cmd, ok3 = curU(f[2], 64)
			st, ok4 = curU(f[3], 64)
			rn, ok5 = curI32(f[4])
			tr, ok6 = curI32(f[5])
			rc, ok7 = curI32(f[6])
			ok = ok1 && ok2 && ok3 && ok4 && ok5 && ok6 && ok7
			return
		}
		registerCodec(&pkgCodec{
			Kind: kind, Tokens: []byte{byte(tok)},
			Show: func(p tds.Package) string {
				d := p.(*tds.CurInfoPackage)
				return fmt.Sprintf("%s %d %s %d %d %d %d %d", kind, d.CursorID, hx([]byte(d.Name)), uint64(d.Command),
					uint64(d.Status), d.RowNum, d.TotalRows, d.RowCount)
			},
			Build: func(f []string) (tds.Package, bool) {
				id, name, cmd, st, rn, tr, rc, ok := parse(f)
				if !ok {
					return nil, false
				}
				d := lookupAs(tok).(*tds.CurInfoPackage)
				d.CursorID, d.Name, d.Command, d.Status = id, name, tds.CursorCommand(cmd), tds.CursorIStatus(st)
				d.RowNum, d.TotalRows, d.RowCount = rn, tr, rc
				return d, true
			},
			Gen: genCurInfo(wide),
			// TDS_CURINFO: token, Length(2), CursorId(4), [NameLen(1), Name] iff CursorId == 0,
			// Command(1), Status(2|4), [RowNum(4), TotalRows(4)] in the wide form,
			// [RowCount(4)] iff Status has TDS_CUR_ISTAT_ROWCNT
			SpecEnc: func(f []string) ([]byte, bool) {
				id, name, cmd, st, rn, tr, rc, ok := parse(f)
				if !ok || len(name) > 255 || cmd > 255 || st>>(8*uint(sw)) != 0 {
					return nil, false
				}
				if (id != 0 && name != "") || (!wide && (rn != 0 || tr != 0)) || (st&0x20 == 0 && rc != 0) {
					return nil, false
				}
				w := &curW{}
				w.ref(id, name)
				w.u(1, cmd)
				w.u(sw, st)
				if wide {
					w.u(4, uint64(uint32(rn)))
					w.u(4, uint64(uint32(tr)))
				}
				if st&0x20 != 0 {
					w.u(4, uint64(uint32(rc)))
				}
				return curFrame(byte(tok), 2, w.b), true
			},
			SpecDec: func(bs []byte) (string, bool) {
				r, ok := curUnframe(bs, byte(tok), 2)
				if !ok {
					return "", false
				}
				id, name := r.ref()
				cmd, st := r.u(1), r.u(sw)
				var rn, tr, rc int32
				if wide {
					rn, tr = r.i32(), r.i32()
				}
				if st&0x20 != 0 {
					rc = r.i32()
				}
				if !r.done() {
					return "", false
				}
				return fmt.Sprintf("%s %d %s %d %d %d %d %d", kind, id, hx([]byte(name)), cmd, st, rn, tr, rc), true
			},
		})
	}

	// ---- CUROPEN
	registerCodec(&pkgCodec{
		Kind: "curopen", Tokens: []byte{byte(tds.TDS_CUROPEN)}, ClientOnly: true,
		Show: func(p tds.Package) string {
			d := p.(*tds.CurOpenPackage)
			return fmt.Sprintf("curopen %d %s %d", d.CursorID, hx([]byte(d.Name)), uint64(d.Status))
		},
		Build: func(f []string) (tds.Package, bool) {
			if len(f) != 3 {
				return nil, false
			}
			id, ok1 := curI32(f[0])
			name, ok2 := curHex(f[1])
			st, ok3 := curU(f[2], 64)
			if !(ok1 && ok2 && ok3) {
				return nil, false
			}
			return &tds.CurOpenPackage{CursorID: id, Name: name, Status: tds.CursorOStatus(st)}, true
		},
		Gen: genCurOpen,
		// TDS_CUROPEN: token, Length(2), CursorId(4), [NameLen(1), Name] iff CursorId == 0, Status(1)
		SpecDec: func(bs []byte) (string, bool) {
			r, ok := curUnframe(bs, byte(tds.TDS_CUROPEN), 2)
			if !ok {
				return "", false
			}
			id, name := r.ref()
			st := r.u(1)
			if !r.done() {
				return "", false
			}
			return fmt.Sprintf("curopen %d %s %d", id, hx([]byte(name)), st), true
		},
	})

	// ---- CURFETCH
	registerCodec(&pkgCodec{
		Kind: "curfetch", Tokens: []byte{byte(tds.TDS_CURFETCH)}, ClientOnly: true,
		Show: func(p tds.Package) string {
			d := p.(*tds.CurFetchPackage)
			return fmt.Sprintf("curfetch %d %s %d %d", d.CursorID, hx([]byte(d.Name)), uint64(d.Type), d.RowNumber)
		},
		Build: func(f []string) (tds.Package, bool) {
			if len(f) != 4 {
				return nil, false
			}
			id, ok1 := curI32(f[0])
			name, ok2 := curHex(f[1])
			ty, ok3 := curU(f[2], 64)
			rn, ok4 := curI32(f[3])
			if !(ok1 && ok2 && ok3 && ok4) {
				return nil, false
			}
			return &tds.CurFetchPackage{CursorID: id, Name: name, Type: tds.CursorFetchType(ty), RowNumber: rn}, true
		},
		Gen: genCurFetch,
		// TDS_CURFETCH: token, Length(2), CursorId(4), [NameLen(1), Name] iff CursorId == 0, Type(1),
		// [RowNum(4)] iff Type is TDS_CUR_ABS (5) or TDS_CUR_REL (6)
		SpecDec: func(bs []byte) (string, bool) {
			r, ok := curUnframe(bs, byte(tds.TDS_CURFETCH), 2)
			if !ok {
				return "", false
			}
			id, name := r.ref()
			ty := r.u(1)
			var rn int32
			if ty == 5 || ty == 6 {
				rn = r.i32()
			}
			if !r.done() {
				return "", false
			}
			return fmt.Sprintf("curfetch %d %s %d %d", id, hx([]byte(name)), ty, rn), true
		},
	})

	// ---- CURUPDATE
	registerCodec(&pkgCodec{
		Kind: "curupdate", Tokens: []byte{byte(tds.TDS_CURUPDATE)}, ClientOnly: true,
		Show: func(p tds.Package) string {
			d := p.(*tds.CurUpdatePackage)
			return fmt.Sprintf("curupdate %d %s %d %s %s", d.CursorID, hx([]byte(d.Name)), uint64(d.Status),
				hx([]byte(d.TableName)), hx([]byte(d.Stmt)))
		},
		Build: func(f []string) (tds.Package, bool) {
			if len(f) != 5 {
				return nil, false
			}
			id, ok1 := curI32(f[0])
			name, ok2 := curHex(f[1])
			st, ok3 := curU(f[2], 64)
			table, ok4 := curHex(f[3])
			stmt, ok5 := curHex(f[4])
			if !(ok1 && ok2 && ok3 && ok4 && ok5) {
				return nil, false
			}
			return &tds.CurUpdatePackage{CursorID: id, Name: name, Status: tds.CursorOStatus(st), TableName: table, Stmt: stmt}, true
		},
		Gen: genCurUpdate,
		// TDS_CURUPDATE: token, Length(2), CursorId(4), [NameLen(1), Name] iff CursorId == 0, Status(1),
		// TableNameLen(1), TableName, [StmtLen(2), Stmt] — the statement block is optional: it is
		// present iff the declared length has room for it
		SpecDec: func(bs []byte) (string, bool) {
			r, ok := curUnframe(bs, byte(tds.TDS_CURUPDATE), 2)
			if !ok {
				return "", false
			}
			id, name := r.ref()
			st := r.u(1)
			table := r.s(r.u(1))
			stmt := ""
			if !r.bad && len(r.b) > 0 {
				stmt = r.s(r.u(2))
			}
			if !r.done() {
				return "", false
			}
			return fmt.Sprintf("curupdate %d %s %d %s %s", id, hx([]byte(name)), st, hx([]byte(table)), hx([]byte(stmt))), true
		},
	})

	// ---- CURDELETE
	registerCodec(&pkgCodec{
		Kind: "curdelete", Tokens: []byte{byte(tds.TDS_CURDELETE)}, ClientOnly: true,
		Show: func(p tds.Package) string {
			d := p.(*tds.CurDeletePackage)
			return fmt.Sprintf("curdelete %d %s %d %s", d.CursorID, hx([]byte(d.Name)), uint64(d.Status), hx([]byte(d.TableName)))
		},
		Build: func(f []string) (tds.Package, bool) {
			if len(f) != 4 {
				return nil, false
			}
			id, ok1 := curI32(f[0])
			name, ok2 := curHex(f[1])
			st, ok3 := curU(f[2], 64)
			table, ok4 := curHex(f[3])
			if !(ok1 && ok2 && ok3 && ok4) {
				return nil, false
			}
			return &tds.CurDeletePackage{CursorID: id, Name: name, Status: tds.CursorDeleteStatus(st), TableName: table}, true
		},
		Gen: genCurDelete,
		// TDS_CURDELETE: token, Length(2), CursorId(4), [NameLen(1), Name] iff CursorId == 0, Status(1),
		// TableNameLen(1), TableName
		SpecDec: func(bs []byte) (string, bool) {
			r, ok := curUnframe(bs, byte(tds.TDS_CURDELETE), 2)
			if !ok {
				return "", false
			}
			id, name := r.ref()
			st := r.u(1)
			table := r.s(r.u(1))
			if !r.done() {
				return "", false
			}
			return fmt.Sprintf("curdelete %d %s %d %s", id, hx([]byte(name)), st, hx([]byte(table))), true
		},
	})
}
