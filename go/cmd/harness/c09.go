package main

// C09 — Passwords never cross the wire in clear when encryption is negotiated.
//
//   lr <enc> <host> <user> <pw> <hostproc> <app> <serv> <lang> <charset>   (values hex)
//        -> `ok <hex of the login record>` | `err`      real LoginConfig.pack vs the Lean interpreter of the
//           regenerated layout (Gen/LoginLayout.lean)
//   lwc <n> <rounds>                                    (oracle only) n encrypted logins at the same time: session keys fresh
//   lw <enc> <pwhex> <nremote> <noncelen> <userhex> [<nonce kind g|z|z2|lz|ff> [<packet size>]]    (oracle only, no model)
//        -> `ok …` | violated clause: a full Login against the scripted peer; everything the client wrote
//           and every error text is searched for the secrets, the ciphertexts are decrypted with the
//           peer's private key (RSA-OAEP/SHA-1) and compared with nonce || secret.

import (
	"bytes"
	"context"
	"crypto/rsa"
	"crypto/sha1"
	"encoding/binary"
	"fmt"
	mrand "math/rand"
	"strconv"
	"strings"
	"sync"
	"time"

	"github.com/SAP/go-dblib/tds"
)

func lrImpl(f []string) string {
	if len(f) != 9 {
		return "bad-op"
	}
	enc, err := strconv.Atoi(f[0])
	if err != nil {
		return "bad-op"
	}
	var v [8][]byte
	for i := 0; i < 8; i++ {
		v[i] = unhx(f[i+1])
		if v[i] == nil {
			return "bad-op"
		}
	}
	info := testInfo()
	info.Username = string(v[1])
	info.Password = string(v[2])
	cfg := &tds.LoginConfig{DSN: info, Hostname: string(v[0]), HostProc: string(v[3]), AppName: string(v[4]),
		ServName: string(v[5]), Language: string(v[6]), CharSet: string(v[7]), Encrypt: tds.TDSMsgId(enc)}
	bs, err := cfg.VerifPack()
	if err != nil {
		return "err"
	}
	return "ok " + hx(bs)
}

type cliMsg struct {
	kind   string // msg | paramfmt | params | other
	msgID  int
	types  []byte
	fields [][]byte
}

// parseClientPackages decodes the package stream the client sends after the login record
// (independent decoder, TDS 5.0 layouts).
func parseClientPackages(b []byte) ([]cliMsg, bool) {
	var out []cliMsg
	var lastTypes []byte
	for len(b) > 0 {
		switch b[0] {
		case 0x65:
			if len(b) < 5 {
				return out, false
			}
			out = append(out, cliMsg{kind: "msg", msgID: int(binary.LittleEndian.Uint16(b[3:5]))})
			b = b[5:]
		case 0xEC:
			if len(b) < 5 {
				return out, false
			}
			l := int(binary.LittleEndian.Uint16(b[1:3]))
			if len(b) < 3+l {
				return out, false
			}
			body := b[3 : 3+l]
			n := int(binary.LittleEndian.Uint16(body[0:2]))
			body = body[2:]
			lastTypes = nil
			for i := 0; i < n; i++ {
				if len(body) < 1 {
					return out, false
				}
				nl := int(body[0])
				if len(body) < 1+nl+1+4+1 {
					return out, false
				}
				dt := body[1+nl+1+4]
				body = body[1+nl+1+4+1:]
				switch dt {
				case 0xE1:
					body = body[4:]
				case 0x27:
					body = body[1:]
				default:
					return out, false
				}
				ll := int(body[0])
				body = body[1+ll:]
				lastTypes = append(lastTypes, dt)
			}
			out = append(out, cliMsg{kind: "paramfmt", types: lastTypes})
			b = b[3+l:]
		case 0xD7:
			b = b[1:]
			m := cliMsg{kind: "params"}
			for _, dt := range lastTypes {
				switch dt {
				case 0xE1:
					if len(b) < 4 {
						return out, false
					}
					l := int(binary.LittleEndian.Uint32(b[:4]))
					if len(b) < 4+l {
						return out, false
					}
					m.fields = append(m.fields, b[4:4+l])
					b = b[4+l:]
				case 0x27:
					l := int(b[0])
					m.fields = append(m.fields, b[1:1+l])
					b = b[1+l:]
				}
			}
			out = append(out, m)
		default:
			return out, false
		}
	}
	return out, true
}

// bodiesOf splits the client's wire bytes into messages (concatenated packet bodies up to EOM).
func bodiesOf(w []byte) [][]byte {
	var msgs [][]byte
	var cur []byte
	for len(w) >= 8 {
		l := int(w[2])<<8 | int(w[3])
		if l < 8 || l > len(w) {
			break
		}
		cur = append(cur, w[8:l]...)
		if w[1]&1 == 1 {
			msgs = append(msgs, cur)
			cur = nil
		}
		w = w[l:]
	}
	return msgs
}

func lwImpl(f []string) string {
	if len(f) < 5 || len(f) > 7 {
		return "bad-op"
	}
	nonceKind := "g"
	packetSize := 0
	if len(f) == 7 {
		packetSize, _ = strconv.Atoi(f[6])
	}
	if len(f) >= 6 {
		nonceKind = f[5]
		f = f[:5]
	}
	enc, e1 := strconv.Atoi(f[0])
	pw := unhx(f[1])
	nrem, e2 := strconv.Atoi(f[2])
	nlen, e3 := strconv.Atoi(f[3])
	user := unhx(f[4])
	if e1 != nil || e2 != nil || e3 != nil || pw == nil || user == nil {
		return "bad-op"
	}
	// the server's key pair differs from case to case (three pairs, chosen by the case)
	key, pemKey := testKeyN(enc + len(pw)*7 + nrem*3 + nlen + len(user))
	// lastCfg: the configuration of the most recent login; reuseCfg makes the next login use it again (a
	// reconnect / retry with the same *LoginConfig: Login prepends the current server to its list every time)
	var lastCfg *tds.LoginConfig
	reuseCfg := false
	run := func() (wire []byte, errText string, outcome string, nonce []byte, rempw [][]byte) {
		mc := newMemConn()
		info := testInfo()
		info.Host = "dbhost"
		info.Username = string(user)
		info.Password = string(pw)
		info.ClientHostname = "client"
		conn, err := tds.VerifNewConn(context.Background(), mc, info, true)
		if err != nil {
			return nil, "", "setup", nil, nil
		}
		defer conn.VerifCancel()
		if packetSize >= 64 {
			conn.VerifSetPacketSize(packetSize) // the packet size in force (whatever a server negotiated earlier)
		}
		ch, _ := conn.NewChannel()
		cfg, _ := tds.NewLoginConfig(info)
		cfg.Encrypt = tds.TDSMsgId(enc)
		for i := 0; i < nrem; i++ {
			p := fmt.Sprintf("rem%dSecret-%s", i, string(pw))
			rempw = append(rempw, []byte(p))
			cfg.RemoteServers = append(cfg.RemoteServers, tds.LoginConfigRemoteServer{Name: fmt.Sprintf("srv%d", i), Password: p})
		}
		if reuseCfg && lastCfg != nil {
			cfg = lastCfg
		}
		lastCfg = cfg
		nonce = genBytes(nlen, 17)
		// a nonce is arbitrary bytes: ending in NUL bytes, starting with them, nothing but them
		switch nonceKind {
		case "z":
			if nlen > 0 {
				nonce[nlen-1] = 0
			}
		case "z2":
			for i := nlen / 2; i < nlen; i++ {
				nonce[i] = 0
			}
		case "lz":
			if nlen > 0 {
				nonce[0] = 0
			}
		case "ff":
			for i := range nonce {
				nonce[i] = 0xff
			}
		}
		if enc == 35 {
			m1 := append(wLoginAck(7, "ASE"), wMsg(1, 35)...)
			m1 = append(m1, wParamFmt([]wFmt{{datatype: 0x38}, {datatype: 0xE1, fmtBytes: le32(0x7fffffff)}, {datatype: 0xE1, fmtBytes: le32(0x7fffffff)}})...)
			m1 = append(m1, wParams(0xD7, [][]byte{le32(1), append(le32(len(pemKey)), pemKey...), append(le32(len(nonce)), nonce...)})...)
			m1 = append(m1, wDone(0xFD, 0, 0, 0)...)
			mc.feed(packetize(m1, nil, 4, 0))
			req := make([]byte, 14)
			req[13] = 2
			res := make([]byte, 7)
			res[6] = 2
			m2 := append(wLoginAck(5, "ASE"), wCapability(map[byte][]byte{1: req, 2: res})...)
			m2 = append(m2, wDone(0xFD, 0, 0, 0)...)
			mc.feed(packetize(m2, nil, 4, 0))
		} else {
			mc.feed(packetize(append(wLoginAck(5, "ASE"), wDone(0xFD, 0, 0, 0)...), nil, 4, 0))
		}
		ctx, cancel := context.WithTimeout(context.Background(), 400*time.Millisecond)
		defer cancel()
		lerr := ch.Login(ctx, cfg)
		outcome = "success"
		if lerr != nil {
			outcome = "error"
			errText = lerr.Error()
		}
		return mc.written(), errText, outcome, nonce, rempw
	}
	if enc == 35 {
		// the client has talked to another server (another key pair) before: every case is self-contained
		keyIdx := enc + len(pw)*7 + nrem*3 + nlen + len(user)
		_, pemKey = testKeyN(keyIdx + 1)
		run()
		_, pemKey = testKeyN(keyIdx)
	}
	wire, errText, outcome, nonce, rempw := run()
	msgs := bodiesOf(wire)
	secrets := append([][]byte{pw}, rempw...)
	if enc != 35 {
		// control: the plain flow carries the password in its slot
		if len(pw) > 30 {
			if outcome == "success" || len(msgs) != 0 {
				return "control: a clear text password longer than its slot is rejected"
			}
			return "ok plain rejected"
		}
		if len(msgs) < 1 || len(msgs[0]) < 93 {
			return "control: the plain flow sends a login record"
		}
		if len(pw) <= 30 && !bytes.Equal(msgs[0][62:62+len(pw)], pw) {
			return "control: in the plain flow the password is in its slot"
		}
		return "ok plain " + outcome
	}
	// 1. no secret in clear anywhere the client wrote, nor in the error text
	for i, s := range secrets {
		if len(s) >= 6 {
			if bytes.Contains(wire, s) {
				return fmt.Sprintf("secret %d appears in clear in the bytes the client wrote", i)
			}
			if strings.Contains(errText, string(s)) {
				return fmt.Sprintf("secret %d appears in the error text", i)
			}
		}
	}
	// 2. the password slot of the login record is empty
	if len(msgs) < 1 || len(msgs[0]) < 93 {
		return "the client sends a login record"
	}
	if !bytes.Equal(msgs[0][62:93], make([]byte, 31)) {
		return "the login record's password slot is empty"
	}
	if msgs[0][514] != 0x1|0x20|0x80 {
		return "the login record announces the extended-plus password protocol"
	}
	capacity := key.Size() - 2*sha1.Size - 2
	fits := len(nonce)+32 <= capacity
	for _, s := range secrets {
		if len(nonce)+len(s) > capacity {
			fits = false
		}
	}
	if !fits || len(nonce) == 0 {
		if outcome == "success" {
			return "a secret that does not fit the key must be an error, not a truncated secret"
		}
		return "ok toolong " + outcome
	}
	if outcome != "success" {
		return "valid negotiation must succeed: " + clip(errText, 100)
	}
	if len(msgs) != 2 {
		return "the client sends the login record and the password message"
	}
	pkgs, ok := parseClientPackages(msgs[1])
	if !ok {
		return "the password message consists of MSG/PARAMFMT/PARAMS packages"
	}
	dec := func(c []byte) ([]byte, bool) {
		p, err := rsa.DecryptOAEP(sha1.New(), nil, key, c, []byte{})
		return p, err == nil
	}
	var ciphers [][]byte
	// expected: MSG(LOGPWD3=31) fmt params(cipher); MSG(REMPWD3=32) fmt params(name,cipher)*; MSG(SYMKEY=34) fmt params(cipher)
	i := 0
	expectMsg := func(id int) bool {
		if i+2 >= len(pkgs) || pkgs[i].kind != "msg" || pkgs[i].msgID != id || pkgs[i+1].kind != "paramfmt" || pkgs[i+2].kind != "params" {
			return false
		}
		return true
	}
	if !expectMsg(31) || len(pkgs[i+2].fields) != 1 {
		return "the encrypted password travels as MSG(LOGPWD3), PARAMFMT, PARAMS(ciphertext)"
	}
	c := pkgs[i+2].fields[0]
	ciphers = append(ciphers, c)
	if p, ok := dec(c); !ok || !bytes.Equal(p, append(append([]byte{}, nonce...), pw...)) {
		return "the password ciphertext decrypts to nonce || password"
	}
	i += 3
	if !expectMsg(32) || len(pkgs[i+2].fields) != 2*(1+len(rempw)) {
		return "the remote passwords travel as MSG(REMPWD3), PARAMFMT, PARAMS(name, ciphertext, …)"
	}
	all := append([][]byte{pw}, rempw...)
	for k, s := range all {
		c := pkgs[i+2].fields[2*k+1]
		ciphers = append(ciphers, c)
		if p, ok := dec(c); !ok || !bytes.Equal(p, append(append([]byte{}, nonce...), s...)) {
			return "every remote password ciphertext decrypts to nonce || remote password"
		}
	}
	i += 3
	if !expectMsg(34) || len(pkgs[i+2].fields) != 1 {
		return "the session key travels as MSG(SYMKEY), PARAMFMT, PARAMS(ciphertext)"
	}
	c = pkgs[i+2].fields[0]
	ciphers = append(ciphers, c)
	p, ok := dec(c)
	if !ok || len(p) != len(nonce)+32 || !bytes.Equal(p[:len(nonce)], nonce) {
		return "the session key ciphertext decrypts to nonce || 32 key bytes"
	}
	if i+3 != len(pkgs) {
		return "nothing else is sent in the password message"
	}
	// 3. fresh randomness: no two ciphertexts are equal, a second login differs entirely
	for a := range ciphers {
		for b := a + 1; b < len(ciphers); b++ {
			if bytes.Equal(ciphers[a], ciphers[b]) {
				return "each ciphertext uses fresh randomness"
			}
		}
	}
	wire2, _, _, _, _ := run()
	if m2 := bodiesOf(wire2); len(m2) == 2 {
		if p2, ok := parseClientPackages(m2[1]); ok && len(p2) == len(pkgs) {
			k2, _ := dec(p2[len(p2)-1].fields[0])
			if bytes.Equal(k2, p) {
				return "the session key is fresh for every login"
			}
			if bytes.Equal(p2[2].fields[0], pkgs[2].fields[0]) {
				return "each ciphertext uses fresh randomness"
			}
		}
	}
	// a further login with the SAME configuration object (reconnect, retry): still nothing in clear, neither
	// on the wire nor in an error text
	reuseCfg = true
	// … with the password corrected in between (a rejected login, the user retypes, the application retries
	// with the configuration it has): what is sent for the current server must be the password of THIS login
	newpw := append(append([]byte{}, pw...), 'X')
	changed := lastCfg != nil && lastCfg.DSN != nil && len(nonce)+len(newpw) <= capacity
	if changed {
		lastCfg.DSN.Password = string(newpw)
		secrets = append(secrets, newpw)
	}
	wire3, errText3, outcome3, nonce3, _ := run()
	for i, s := range secrets {
		if len(s) >= 6 {
			if bytes.Contains(wire3, s) {
				return fmt.Sprintf("secret %d appears in clear in the bytes the client wrote (login repeated with the same configuration)", i)
			}
			if strings.Contains(errText3, string(s)) {
				return fmt.Sprintf("secret %d appears in the error text (login repeated with the same configuration)", i)
			}
		}
	}
	if changed && outcome3 == "success" {
		if m3 := bodiesOf(wire3); len(m3) == 2 {
			if p3, ok := parseClientPackages(m3[1]); ok && len(p3) >= 6 && len(p3[2].fields) == 1 && len(p3[5].fields) >= 2 {
				want := append(append([]byte{}, nonce3...), newpw...)
				if got, ok := dec(p3[2].fields[0]); !ok || !bytes.Equal(got, want) {
					return "the password ciphertext decrypts to nonce || password (login repeated with the same configuration after the password was changed)"
				}
				if got, ok := dec(p3[5].fields[1]); !ok || !bytes.Equal(got, want) {
					return "the ciphertext sent for the current server decrypts to nonce || the password of this login (login repeated with the same configuration after the password was changed)"
				}
			}
		}
	}
	return "ok encrypted"
}

// lwcImpl: <n> logins with password encryption at the same time, <rounds> times, each over its own
// connection against the scripted peer: every session key that arrives is 32 bytes behind the nonce and
// shares no 8-byte block with the key of any other login (fresh per login, whatever the interleaving).
func lwcImpl(f []string) string {
	if len(f) != 2 {
		return "bad-op"
	}
	n, e1 := strconv.Atoi(f[0])
	rounds, e2 := strconv.Atoi(f[1])
	if e1 != nil || e2 != nil || n < 1 || n > 64 {
		return "bad-op"
	}
	key, pemKey := testKeyN(n + rounds)
	one := func(id int) ([]byte, string) {
		mc := newMemConn()
		info := testInfo()
		info.Host = "dbhost"
		info.Username = "sa"
		info.Password = fmt.Sprintf("Secret-%d-pw", id)
		conn, err := tds.VerifNewConn(context.Background(), mc, info, true)
		if err != nil {
			return nil, "setup"
		}
		defer conn.VerifCancel()
		ch, _ := conn.NewChannel()
		cfg, _ := tds.NewLoginConfig(info)
		cfg.Encrypt = 35
		nonce := genBytes(16, id)
		m1 := append(wLoginAck(7, "ASE"), wMsg(1, 35)...)
		m1 = append(m1, wParamFmt([]wFmt{{datatype: 0x38}, {datatype: 0xE1, fmtBytes: le32(0x7fffffff)}, {datatype: 0xE1, fmtBytes: le32(0x7fffffff)}})...)
		m1 = append(m1, wParams(0xD7, [][]byte{le32(1), append(le32(len(pemKey)), pemKey...), append(le32(len(nonce)), nonce...)})...)
		m1 = append(m1, wDone(0xFD, 0, 0, 0)...)
		mc.feed(packetize(m1, nil, 4, 0))
		req := make([]byte, 14)
		req[13] = 2
		res := make([]byte, 7)
		res[6] = 2
		m2 := append(wLoginAck(5, "ASE"), wCapability(map[byte][]byte{1: req, 2: res})...)
		m2 = append(m2, wDone(0xFD, 0, 0, 0)...)
		mc.feed(packetize(m2, nil, 4, 0))
		ctx, cancel := context.WithTimeout(context.Background(), 3*time.Second)
		defer cancel()
		if err := ch.Login(ctx, cfg); err != nil {
			return nil, "valid negotiation must succeed: " + clip(err.Error(), 100)
		}
		msgs := bodiesOf(mc.written())
		if len(msgs) != 2 {
			return nil, "the client sends the login record and the password message"
		}
		pkgs, ok := parseClientPackages(msgs[1])
		if !ok || len(pkgs) < 3 || len(pkgs[len(pkgs)-1].fields) != 1 {
			return nil, "the password message consists of MSG/PARAMFMT/PARAMS packages"
		}
		p, err := rsa.DecryptOAEP(sha1.New(), nil, key, pkgs[len(pkgs)-1].fields[0], []byte{})
		if err != nil || len(p) != len(nonce)+32 || !bytes.Equal(p[:len(nonce)], nonce) {
			return nil, "the session key ciphertext decrypts to nonce || 32 key bytes"
		}
		return p[len(nonce):], ""
	}
	for r := 0; r < rounds; r++ {
		keys := make([][]byte, n)
		errs := make([]string, n)
		var wg sync.WaitGroup
		for i := 0; i < n; i++ {
			wg.Add(1)
			go func(i int) {
				defer wg.Done()
				keys[i], errs[i] = one(r*100 + i)
			}(i)
		}
		wg.Wait()
		seen := map[string]int{}
		for i := 0; i < n; i++ {
			if errs[i] != "" {
				return errs[i]
			}
			for b := 0; b+8 <= 32; b += 8 {
				blk := string(keys[i][b : b+8])
				if j, dup := seen[blk]; dup && j != i {
					return fmt.Sprintf("the session key is fresh for every login (round %d: logins %d and %d running at the same time sent the same key bytes %d..%d)", r, j, i, b, b+7)
				}
				seen[blk] = i
			}
		}
	}
	return "ok concurrent"
}

func c09Impl(line string) string {
	f := strings.Fields(line)
	if len(f) < 2 {
		return "bad-op"
	}
	switch f[0] {
	case "lr":
		return lrImpl(f[1:])
	case "lw":
		return lwImpl(f[1:])
	case "lwc":
		return lwcImpl(f[1:])
	}
	return "bad-op"
}

func rndText(rng *mrand.Rand, n int) []byte {
	const al = "abcdefghijklmnopqrstuvwxyzABCDEFGHIJKLMNOPQRSTUVWXYZ0123456789!#$%&*+-./:;<=>?@^_~ "
	b := make([]byte, n)
	for i := range b {
		b[i] = al[rng.Intn(len(al))]
	}
	return b
}

func init() {
	register(&Prop{
		ID: "C09",
		Gen: func(tier string, rng *mrand.Rand, emit func(Case)) {
			encs := []int{0, 1, 14, 30, 35, 2}
			// login record: every field length 0..31 at least once, all encrypt ids
			for _, enc := range encs {
				for l := 0; l <= 32; l++ {
					v := make([]string, 8)
					for i := range v {
						n := rng.Intn(31)
						if i == l%8 {
							n = l
						}
						v[i] = hx(rndText(rng, n))
					}
					emit(Case{Line: fmt.Sprintf("lr %d %s", enc, strings.Join(v, " ")), Kind: "record"})
				}
			}
			n := 300
			if tier == "thorough" {
				n = 5000
			}
			for i := 0; i < n; i++ {
				v := make([]string, 8)
				for k := range v {
					v[k] = hx(rndBytes(rng, rng.Intn(34)))
				}
				emit(Case{Line: fmt.Sprintf("lr %d %s", encs[rng.Intn(len(encs))], strings.Join(v, " ")), Kind: "record-random"})
			}
			// wire: password lengths 0..capacity, colliding with the user name, remote servers, nonce lengths
			nw := 60
			if tier == "thorough" {
				nw = 1200
			}
			for _, pl := range []int{0, 1, 6, 8, 29, 30, 31, 40, 54, 55, 70} {
				pw := rndText(rng, pl)
				emit(Case{Line: fmt.Sprintf("lw 35 %s %d %d %s", hx(pw), pl%3, 16, hx([]byte("sa"))), Kind: "wire-boundary"})
				emit(Case{Line: fmt.Sprintf("lw 0 %s 0 16 %s", hx(pw), hx([]byte("sa"))), Kind: "wire-plain-control"})
			}
			// packet sizes: for some of them a package of the password message ends exactly with a packet
			for ps := 150; ps <= 176; ps++ {
				emit(Case{Line: fmt.Sprintf("lw 35 %s %d 16 %s g %d", hx([]byte("Secret-pw-1")), ps%2, hx([]byte("sa")), ps), Kind: "wire-packet-size"})
			}
			// nonces ending in / starting with NUL bytes
			for _, nk := range []string{"z", "z2", "lz", "ff"} {
				emit(Case{Line: fmt.Sprintf("lw 35 %s 1 16 %s %s", hx([]byte("Secret-pw-1")), hx([]byte("sa")), nk), Kind: "wire-nonce-bytes"})
			}
			// password equal to the user name (a clear-text occurrence that is NOT the password slot)
			emit(Case{Line: fmt.Sprintf("lw 35 %s 1 16 %s", hx([]byte("samename")), hx([]byte("other"))), Kind: "wire-boundary"})
			// several connections logging in at the same time (a pool warming up)
			nc := 4
			if tier == "thorough" {
				nc = 40
			}
			for i := 0; i < nc; i++ {
				emit(Case{Line: fmt.Sprintf("lwc %d %d", []int{16, 8, 32, 2}[i%4], 10+i), Kind: "wire-concurrent"})
			}
			for i := 0; i < nw; i++ {
				pw := rndText(rng, 6+rng.Intn(40))
				emit(Case{Line: fmt.Sprintf("lw 35 %s %d %d %s %s", hx(pw), rng.Intn(4), []int{1, 8, 16, 32, 54, 64}[rng.Intn(6)], hx(rndText(rng, 1+rng.Intn(20))), []string{"g", "z", "z2", "lz", "ff"}[rng.Intn(5)]), Kind: "wire-random"})
			}
		},
		Impl:    c09Impl,
		NoModel: func(line string) bool { return strings.HasPrefix(line, "lw ") || strings.HasPrefix(line, "lwc ") },
		Oracle: func(line, out string) string {
			if strings.HasPrefix(line, "lw ") || strings.HasPrefix(line, "lwc ") {
				if strings.HasPrefix(out, "ok") {
					return ""
				}
				return out
			}
			// record: oversized fields rejected, otherwise 568 bytes; under the encrypted ids the password is absent
			f := strings.Fields(line)
			if len(f) != 10 {
				return ""
			}
			enc, _ := strconv.Atoi(f[1])
			encrypted := enc == 1 || enc == 14 || enc == 30 || enc == 35
			over := false
			for i := 2; i < 10; i++ {
				l := len(unhx(f[i]))
				if l > 30 && !(i == 4 && encrypted) {
					over = true
				}
			}
			if over {
				if out != "err" {
					return "an oversized login field is rejected, not truncated or shifted"
				}
				return ""
			}
			if !strings.HasPrefix(out, "ok ") {
				return "a login configuration whose fields fit is packed"
			}
			rec := unhx(out[3:])
			if len(rec) != 568 {
				return "the login record has its fixed size"
			}
			pw := unhx(f[4])
			if encrypted {
				if !bytes.Equal(rec[62:93], make([]byte, 31)) {
					return "the login record's password slot is empty"
				}
				if len(pw) >= 6 && bytes.Contains(rec, pw) {
					// the password may legitimately equal another field
					coll := false
					for i := 2; i < 10; i++ {
						if i != 4 && bytes.Contains(unhx(f[i]), pw) {
							coll = true
						}
					}
					if !coll {
						return "the password does not appear in the login record"
					}
				}
			} else if !bytes.Equal(rec[62:62+len(pw)], pw) || int(rec[92]) != len(pw) {
				return "control: in the plain flow the password is in its slot"
			}
			return ""
		},
		FindingKey:  func(line, out, clause string) string { return clause },
		Nontrivial:  func(line, out string) bool { return strings.HasPrefix(out, "ok") },
		Rule:        "login records for all encrypt ids with every field length 0..32 plus random binary field values (real pack vs the Lean interpreter of the regenerated layout); full encrypted logins against the scripted peer with password lengths 0..70 (RSA-OAEP capacity 86 bytes incl. nonce), 0..3 remote servers, nonce lengths 1..64, passwords colliding with other fields: byte search for every secret in everything written and in the error text, decryption of every ciphertext with the peer's private key, freshness across ciphertexts and across two logins; plain-flow control. Non-trivial = record packed / login ran",
		Timeout:     30 * time.Second,
		Assumptions: []string{"RSA-OAEP hides its input and crypto/rand is fresh (cryptographic assumptions, outside the theorem)", "1024-bit test key"},
	})
}

// rule addenda (rounds 9-12): what the evidence says about the coverage of a run
func init() {
	if p := registry["C09"]; p != nil {
		p.Rule += " lw lines: nonces of several kinds (incl. ending in NUL), password lengths 0..capacity with the empty password among them, the packet size of the login as a parameter; lwc: two logins with one configuration and a password changed in between."
	}
}
