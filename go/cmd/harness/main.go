package main

import (
	"encoding/json"
	"flag"
	"fmt"
	"io"
	"os"
	"strings"
	"syscall"
)

func main() {
	var cfg runConfig
	var replayFile string
	flag.StringVar(&cfg.prop, "prop", "", "property id")
	flag.StringVar(&cfg.tier, "tier", "quick", "quick|thorough")
	flag.Int64Var(&cfg.seed, "seed", 1, "PRNG seed")
	flag.StringVar(&cfg.driver, "driver", "/verif/lean/.lake/build/bin/driver", "Lean model driver")
	flag.StringVar(&cfg.outFile, "out", "", "evidence file")
	flag.StringVar(&cfg.replayDir, "replays", "/verif/replays", "replay directory")
	flag.StringVar(&cfg.knownFile, "known", "/verif/known_findings.json", "known findings")
	flag.StringVar(&cfg.proofFile, "proof", "", "proof status json written by ./check")
	flag.StringVar(&cfg.corpusDir, "corpus", "/verif/go/corpus", "corpus directory")
	flag.StringVar(&replayFile, "replay", "", "replay file to re-run")
	oneCase := flag.String("case", "", "internal: run Impl on one case line and print the answer")
	isoChildArg := flag.String("isochild", "", "internal: C20 child process")
	memProbe := flag.String("memprobe", "", "internal: C10 allocation probe child process")
	flag.Parse()
	if *memProbe != "" {
		memProbeChild(*memProbe)
		return
	}
	if *isoChildArg != "" {
		isoChild(*isoChildArg)
		return
	}

	if *oneCase != "" {
		os.Setenv("VERIF_CHILD", "1")
		if *oneCase == "-" { // long lines travel on stdin (one argument is limited to 128 KiB)
			b, _ := io.ReadAll(os.Stdin)
			*oneCase = strings.TrimSpace(string(b))
		}
		if os.Getenv("VERIF_RACE") == "" {
			// a case that makes the code under test allocate without end dies here instead of taking the
			// machine with it (the race detector needs its shadow address space: no limit there)
			lim := syscall.Rlimit{Cur: 6 << 30, Max: 6 << 30}
			syscall.Setrlimit(syscall.RLIMIT_AS, &lim)
		}
		p := registry[cfg.prop]
		if p == nil {
			os.Exit(2)
		}
		fmt.Println(safeImpl(p, *oneCase))
		return
	}
	if replayFile != "" {
		os.Exit(doReplay(cfg, replayFile))
	}
	os.Exit(runProp(cfg))
}

func doReplay(cfg runConfig, file string) int {
	b, err := os.ReadFile(file)
	if err != nil {
		fmt.Fprintln(os.Stderr, err)
		return 2
	}
	var r replay
	if err := json.Unmarshal(b, &r); err != nil {
		fmt.Fprintln(os.Stderr, err)
		return 2
	}
	p := registry[r.Property]
	if p == nil {
		fmt.Fprintln(os.Stderr, "unknown property", r.Property)
		return 2
	}
	fmt.Printf("replay of %s (%s)\n", r.Property, r.Kind)
	if r.Theorem != "" {
		fmt.Println("theorem/obligation:", r.Theorem)
	}
	rc := 0
	for _, l := range r.Ops {
		o := safeImpl(p, l)
		m, _ := runDriver(cfg.driver, []string{l})
		fmt.Println("case :", l)
		fmt.Println("impl :", o)
		fmt.Println("model:", m)
		if p.Oracle != nil {
			if cl := p.Oracle(l, o); cl != "" {
				fmt.Println("oracle clause violated:", cl)
				rc = 1
			}
		}
	}
	return rc
}
