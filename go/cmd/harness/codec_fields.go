package main

// Codec group "Fields": field formats and field data of tds/field.go and the packages built from
// them (the kinds reachable from tds.LookupPackage). Lean counterpart:
// lean/Dblib/Model/Codec/Fields.lean (+ FieldsFmt.lean, FieldsRow.lean, FieldsSpec.lean).
//
// Canonical field lists (integers decimal, strings as hex, `-` = empty):
//
//   paramfmt | paramfmt2 | rowfmt | rowfmt2    <entries>
//        entries: `.` = none, else entries joined by `,`
//        entry  = name;status;usertype;datatype;maxlength;precision;scale;blobtype;classid;tablename;locale;
//                 label;catalogue;schema;table          (the last four are ROWFMT2's; 15 parts always)
//   params | row        <fmtkind> <entries> <data>      the format package the data belong to, then
//        data: `.` = none, else one datum per entry joined by `,`; by the family of the entry's data type
//                 status;<value>                        value token of c04.go (valShow / valParse)
//                 status;txtptr;timestamp;data          IMAGE TEXT UNITEXT XML
//                 status;serializationtype;subclassid;locator;data      BLOB
//   orderby | orderby2  <columns>                       `.` = none, else decimal numbers joined by `,`
//
// Gen emits only field lists in normal form (members a data type does not have are 0 / empty,
// fixed-length types carry the maxlength LookupFieldFmt presets, a decimal carries precision and
// scale of its format) and only values that the value codec reproduces exactly (value-level
// deviations are the business of C04/C05, not of the package codecs), so that a correct
// writer/reader pair reproduces exactly the fields.
// Exception: BLOB (data type 0x24) columns — the known finding `blob-not-functional` (format accounting,
// data reader dropping the last chunk, data writer panicking above 1024 bytes; unrepaired, the wire layout
// cannot be established offline). The generators emit BLOB formats and BLOB data (incl. values above 1024
// bytes) although nothing round-trips there; ffIsBlobCase recognises every `pkg` line that involves a BLOB
// column so that the checks can file these failures under that one finding.
// SpecEnc / SpecDec are written from the TDS 5.0 token layouts (ffShape: the format shape of
// every data type of the specification); they share no code with /repo. The value bytes inside
// a ROW / PARAMS come from the reference value encoder of c05.go (refEncode).

import (
	"fmt"
	"math/rand"
	"reflect"
	"strconv"
	"strings"
	"time"
	"unsafe"

	"github.com/SAP/go-dblib/asetypes"
	"github.com/SAP/go-dblib/tds"
)

// ---------------------------------------------------------------- entries

type ffEntry struct {
	name                            string
	status                          uint64
	userType                        int32
	dataType                        byte
	maxLength                       int64
	precision, scale, blobType      uint8
	classID, tableName, locale      string
	label, catalogue, schema, table string
}

func (e ffEntry) String() string {
	h := func(s string) string { return hx([]byte(s)) }
	return fmt.Sprintf("%s;%d;%d;%d;%d;%d;%d;%d;%s;%s;%s;%s;%s;%s;%s", h(e.name), e.status, e.userType, e.dataType,
		e.maxLength, e.precision, e.scale, e.blobType, h(e.classID), h(e.tableName), h(e.locale),
		h(e.label), h(e.catalogue), h(e.schema), h(e.table))
}

func ffShowEntries(es []ffEntry) string {
	if len(es) == 0 {
		return "."
	}
	parts := make([]string, len(es))
	for i, e := range es {
		parts[i] = e.String()
	}
	return strings.Join(parts, ",")
}

func ffParseEntry(s string) (e ffEntry, ok bool) {
	p := strings.Split(s, ";")
	if len(p) != 15 {
		return e, false
	}
	str := func(x string) string {
		b := unhx(x)
		if b == nil {
			ok = false
		}
		return string(b)
	}
	u8 := func(x string) uint8 {
		v, err := strconv.ParseUint(x, 10, 8)
		if err != nil {
			ok = false
		}
		return uint8(v)
	}
	ok = true
	e.name = str(p[0])
	st, err := strconv.ParseUint(p[1], 10, 64)
	ut, err2 := strconv.ParseInt(p[2], 10, 32)
	ml, err3 := strconv.ParseInt(p[4], 10, 64)
	if err != nil || err2 != nil || err3 != nil {
		return e, false
	}
	e.status, e.userType, e.maxLength = st, int32(ut), ml
	e.dataType = u8(p[3])
	e.precision, e.scale, e.blobType = u8(p[5]), u8(p[6]), u8(p[7])
	e.classID, e.tableName, e.locale = str(p[8]), str(p[9]), str(p[10])
	e.label, e.catalogue, e.schema, e.table = str(p[11]), str(p[12]), str(p[13]), str(p[14])
	return e, ok
}

func ffParseEntries(s string) ([]ffEntry, bool) {
	if s == "." {
		return nil, true
	}
	var es []ffEntry
	for _, p := range strings.Split(s, ",") {
		e, ok := ffParseEntry(p)
		if !ok {
			return nil, false
		}
		es = append(es, e)
	}
	return es, true
}

// ---------------------------------------------------------------- access to unexported members

// ffMember returns a settable view of the (possibly promoted, unexported) member `name` of *obj.
func ffMember(obj interface{}, name string) (reflect.Value, bool) {
	v := reflect.ValueOf(obj)
	if v.Kind() != reflect.Ptr || v.IsNil() {
		return reflect.Value{}, false
	}
	f := v.Elem().FieldByName(name)
	if !f.IsValid() || !f.CanAddr() {
		return reflect.Value{}, false
	}
	return reflect.NewAt(f.Type(), unsafe.Pointer(f.UnsafeAddr())).Elem(), true
}

func ffGetUint(obj interface{}, name string) uint64 {
	if m, ok := ffMember(obj, name); ok {
		return m.Uint()
	}
	return 0
}

func ffGetString(obj interface{}, name string) string {
	if m, ok := ffMember(obj, name); ok {
		return m.String()
	}
	return ""
}

func ffGetBytes(obj interface{}, name string) []byte {
	if m, ok := ffMember(obj, name); ok {
		return m.Bytes()
	}
	return nil
}

func ffSetUint(obj interface{}, name string, v uint64) {
	if m, ok := ffMember(obj, name); ok {
		m.SetUint(v)
	}
}

func ffSetString(obj interface{}, name string, v string) {
	if m, ok := ffMember(obj, name); ok {
		m.SetString(v)
	}
}

func ffSetBytes(obj interface{}, name string, v []byte) {
	if m, ok := ffMember(obj, name); ok {
		m.SetBytes(v)
	}
}

func ffWide(pkg interface{}) bool {
	if m, ok := ffMember(pkg, "wide"); ok {
		return m.Bool()
	}
	return false
}

// ---------------------------------------------------------------- real objects <-> entries

func ffEntryOf(f tds.FieldFmt) ffEntry {
	return ffEntry{
		name: f.Name(), status: uint64(f.Status()), userType: f.UserType(), dataType: byte(f.DataType()),
		maxLength: f.MaxLength(), precision: uint8(ffGetUint(f, "precision")), scale: uint8(ffGetUint(f, "scale")),
		blobType: uint8(ffGetUint(f, "blobType")), classID: ffGetString(f, "classID"), tableName: ffGetString(f, "tableName"),
		locale: f.LocaleInfo(), label: f.ColumnLabel(), catalogue: f.Catalogue(), schema: f.Schema(), table: f.Table(),
	}
}

func ffEntriesOf(fs []tds.FieldFmt) []ffEntry {
	es := make([]ffEntry, len(fs))
	for i, f := range fs {
		if f == nil || reflect.ValueOf(f).IsNil() {
			es[i] = ffEntry{name: "<nil>"}
			continue
		}
		es[i] = ffEntryOf(f)
	}
	return es
}

func ffBuildFmt(e ffEntry) (tds.FieldFmt, bool) {
	f, err := tds.LookupFieldFmt(asetypes.DataType(e.dataType))
	if err != nil {
		return nil, false
	}
	f.SetName(e.name)
	f.SetStatus(uint(e.status))
	f.SetUserType(e.userType)
	f.SetLocaleInfo(e.locale)
	f.SetColumnLabel(e.label)
	f.SetCatalogue(e.catalogue)
	f.SetSchema(e.schema)
	f.SetTable(e.table)
	if m, ok := ffMember(f, "maxLength"); ok {
		m.SetInt(e.maxLength)
	}
	ffSetUint(f, "precision", uint64(e.precision))
	ffSetUint(f, "scale", uint64(e.scale))
	ffSetUint(f, "blobType", uint64(e.blobType))
	ffSetString(f, "classID", e.classID)
	ffSetString(f, "tableName", e.tableName)
	return f, true
}

func ffBuildFmts(es []ffEntry) ([]tds.FieldFmt, bool) {
	fs := make([]tds.FieldFmt, len(es))
	for i, e := range es {
		f, ok := ffBuildFmt(e)
		if !ok {
			return nil, false
		}
		fs[i] = f
	}
	return fs, true
}

// kind: paramfmt paramfmt2 rowfmt rowfmt2
func ffFmtKind(kind string) (row, wide, ok bool) {
	switch kind {
	case "paramfmt":
		return false, false, true
	case "paramfmt2":
		return false, true, true
	case "rowfmt":
		return true, false, true
	case "rowfmt2":
		return true, true, true
	}
	return false, false, false
}

func ffFmtKindName(row, wide bool) string {
	k := "paramfmt"
	if row {
		k = "rowfmt"
	}
	if wide {
		k += "2"
	}
	return k
}

func ffFmtToken(row, wide bool) byte {
	switch {
	case !row && !wide:
		return byte(tds.TDS_PARAMFMT)
	case !row && wide:
		return byte(tds.TDS_PARAMFMT2)
	case row && !wide:
		return byte(tds.TDS_ROWFMT)
	}
	return byte(tds.TDS_ROWFMT2)
}

func ffBuildFmtPkg(kind string, es []ffEntry) (tds.Package, bool) {
	row, wide, ok := ffFmtKind(kind)
	if !ok {
		return nil, false
	}
	fs, ok := ffBuildFmts(es)
	if !ok {
		return nil, false
	}
	if !row {
		return tds.NewParamFmtPackage(wide, fs...), true
	}
	p := lookupAs(tds.Token(ffFmtToken(true, wide))).(*tds.RowFmtPackage)
	p.Fmts = fs
	return p, true
}

// ffShowFmtPkg renders a format package (kind from the Go type and its `wide` member).
func ffShowFmtPkg(p tds.Package) string {
	switch x := p.(type) {
	case *tds.ParamFmtPackage:
		return ffFmtKindName(false, ffWide(x)) + " " + ffShowEntries(ffEntriesOf(x.Fmts))
	case *tds.RowFmtPackage:
		return ffFmtKindName(true, ffWide(x)) + " " + ffShowEntries(ffEntriesOf(x.Fmts))
	}
	return fmt.Sprintf("unknown:%T", p)
}

// ---- data

// family of a data type as far as the canonical datum goes: 'v' value, 't' text pointer, 'b' blob
func ffFamily(t byte) byte {
	switch asetypes.DataType(t) {
	case asetypes.IMAGE, asetypes.TEXT, asetypes.UNITEXT, asetypes.XML:
		return 't'
	case asetypes.BLOB:
		return 'b'
	}
	return 'v'
}

func ffShowDatum(d tds.FieldData) string {
	if d == nil || reflect.ValueOf(d).IsNil() {
		return "<nil>"
	}
	st := uint64(d.Status())
	switch ffFamily(byte(d.Format().DataType())) {
	case 't':
		var data []byte
		switch v := d.Value().(type) {
		case []byte:
			data = v
		case string:
			data = []byte(v)
		}
		return fmt.Sprintf("%d;%s;%s;%s", st, hx(ffGetBytes(d, "txtPtr")), hx(ffGetBytes(d, "timeStamp")), hx(data))
	case 'b':
		data, _ := d.Value().([]byte)
		return fmt.Sprintf("%d;%d;%s;%s;%s", st, ffGetUint(d, "serializationType"), hx([]byte(ffGetString(d, "subClassID"))),
			hx([]byte(ffGetString(d, "locator"))), hx(data))
	}
	return fmt.Sprintf("%d;%s", st, ffValShow(d.Value()))
}

// ffValShow renders a value exactly as c04.go's valShow does. valShow asks a decimal for its String()
// to recognise the NULL decimal; Decimal.String panics when Scale > Precision, which a format can
// announce, so precision and scale are taken out while valShow looks at the decimal.
func ffValShow(v interface{}) string {
	d, ok := v.(*asetypes.Decimal)
	if !ok || d == nil {
		return valShow(v)
	}
	p, s := d.Precision, d.Scale
	d.Precision, d.Scale = 0, 0
	tok := valShow(d)
	d.Precision, d.Scale = p, s
	if strings.HasPrefix(tok, "dec:") && strings.HasSuffix(tok, ":0:0") {
		return fmt.Sprintf("%s:%d:%d", strings.TrimSuffix(tok, ":0:0"), p, s)
	}
	return tok
}

func ffShowData(ds []tds.FieldData) string {
	if len(ds) == 0 {
		return "."
	}
	parts := make([]string, len(ds))
	for i, d := range ds {
		parts[i] = ffShowDatum(d)
	}
	return strings.Join(parts, ",")
}

func ffParamsOf(p tds.Package) *tds.ParamsPackage {
	switch x := p.(type) {
	case *tds.ParamsPackage:
		return x
	case *tds.RowPackage:
		return &x.ParamsPackage
	}
	return nil
}

// ffShowRow renders a PARAMS / ROW package: the format it holds, then the data.
func ffShowRow(kind string, p tds.Package) string {
	pp := ffParamsOf(p)
	if pp == nil {
		return fmt.Sprintf("unknown:%T", p)
	}
	fk, entries := "nofmt", "."
	if m, ok := ffMember(pp, "paramFmt"); ok && !m.IsNil() {
		f := m.Interface().(*tds.ParamFmtPackage)
		fk, entries = ffFmtKindName(false, ffWide(f)), ffShowEntries(ffEntriesOf(f.Fmts))
	} else if m, ok := ffMember(pp, "rowFmt"); ok && !m.IsNil() {
		f := m.Interface().(*tds.RowFmtPackage)
		fk, entries = ffFmtKindName(true, ffWide(f)), ffShowEntries(ffEntriesOf(f.Fmts))
	}
	return fmt.Sprintf("%s %s %s %s", kind, fk, entries, ffShowData(pp.DataFields))
}

// ffSetDatum fills a FieldData created by LastPkg from its canonical datum.
func ffSetDatum(d tds.FieldData, s string) bool {
	p := strings.Split(s, ";")
	st, err := strconv.ParseUint(p[0], 10, 8)
	if err != nil {
		return false
	}
	ffSetUint(d, "status", st)
	switch ffFamily(byte(d.Format().DataType())) {
	case 't':
		if len(p) != 4 {
			return false
		}
		tp, ts, data := unhx(p[1]), unhx(p[2]), unhx(p[3])
		if tp == nil || ts == nil || data == nil {
			return false
		}
		ffSetBytes(d, "txtPtr", tp)
		ffSetBytes(d, "timeStamp", ts)
		d.SetValue(data)
		return true
	case 'b':
		if len(p) != 5 {
			return false
		}
		ser, err := strconv.ParseUint(p[1], 10, 8)
		sub, loc, data := unhx(p[2]), unhx(p[3]), unhx(p[4])
		if err != nil || sub == nil || loc == nil || data == nil {
			return false
		}
		ffSetUint(d, "serializationType", ser)
		ffSetString(d, "subClassID", string(sub))
		ffSetString(d, "locator", string(loc))
		d.SetValue(append(make([]byte, 0, len(data)), data...))
		return true
	}
	if len(p) != 2 {
		return false
	}
	v, ok := valParse(p[1])
	if !ok {
		return false
	}
	d.SetValue(v)
	return true
}

func ffSplitData(s string) []string {
	if s == "." {
		return nil
	}
	return strings.Split(s, ",")
}

// ffBuildRow: fields = <fmtkind> <entries> <data>; the package gets its format through LastPkg,
// exactly as a client does it (NewParamsPackage + LastPkg) — kind "row" starts from a RowPackage.
func ffBuildRow(kind string, f []string) (tds.Package, bool) {
	if len(f) != 3 {
		return nil, false
	}
	es, ok := ffParseEntries(f[1])
	if !ok {
		return nil, false
	}
	fp, ok := ffBuildFmtPkg(f[0], es)
	if !ok {
		return nil, false
	}
	tok := tds.TDS_PARAMS
	if kind == "row" {
		tok = tds.TDS_ROW
	}
	p := lookupAs(tok)
	if err := p.(tds.LastPkgAcceptor).LastPkg(fp); err != nil {
		return nil, false
	}
	pp := ffParamsOf(p)
	data := ffSplitData(f[2])
	if len(data) != len(pp.DataFields) {
		return nil, false
	}
	for i, d := range pp.DataFields {
		if !ffSetDatum(d, data[i]) {
			return nil, false
		}
	}
	return p, true
}

func ffShowCols(cols []int) string {
	if len(cols) == 0 {
		return "."
	}
	parts := make([]string, len(cols))
	for i, c := range cols {
		parts[i] = strconv.Itoa(c)
	}
	return strings.Join(parts, ",")
}

func ffParseCols(s string, bits int) ([]uint64, bool) {
	if s == "." {
		return nil, true
	}
	var cols []uint64
	for _, p := range strings.Split(s, ",") {
		v, err := strconv.ParseUint(p, 10, bits)
		if err != nil {
			return nil, false
		}
		cols = append(cols, v)
	}
	return cols, true
}

// ---------------------------------------------------------------- independent layout codec (TDS 5.0)

// ffShape: the shape of a data type's format description in the TDS 5.0 specification.
//
//	'f' fixed length: nothing follows the type           (size = ffFixedSize)
//	'1' Length(1)        '4' Length(4)
//	'p' Length(1) Precision(1) Scale(1)                  DECN NUMN
//	's' Length(1) Scale(1)                               BIGDATETIMEN BIGTIMEN
//	't' Length(4) NameLen(2) Name                        TEXT IMAGE UNITEXT XML
//	'b' BlobType(1) [ClassIdLen(2) ClassId]              BLOB (class id with blob types 1 and 2)
//	0   not a data type of the specification
func ffShape(t byte) byte {
	switch t {
	case 0x30, 0x34, 0x38, 0xBF, 0x41, 0x42, 0x43, 0x3B, 0x3E, 0x32, 0x3A, 0x3D, 0x31, 0x33, 0x3C, 0x7A, 0x2E, 0xB0:
		return 'f'
	case 0x26, 0x44, 0x6D, 0x6F, 0x7B, 0x93, 0x6E, 0x2F, 0x27, 0x2D, 0x25, 0x67, 0x68:
		return '1'
	case 0xAF, 0xE1:
		return '4'
	case 0x6A, 0x6C:
		return 'p'
	case 0xBB, 0xBC:
		return 's'
	case 0x23, 0x22, 0xAE, 0xA3:
		return 't'
	case 0x24:
		return 'b'
	}
	return 0
}

// ffFixedSize: bytes of a value of a fixed-length type (TDS 5.0)
func ffFixedSize(t byte) int {
	switch t {
	case 0x30, 0x32, 0xB0: // INT1 BIT SINT1
		return 1
	case 0x34, 0x41: // INT2 UINT2
		return 2
	case 0x38, 0x42, 0x3B, 0x3A, 0x31, 0x33, 0x7A: // INT4 UINT4 FLT4 SHORTDATE DATE TIME SHORTMONEY
		return 4
	case 0xBF, 0x43, 0x3E, 0x3D, 0x3C, 0x2E: // INT8 UINT8 FLT8 DATETIME MONEY INTERVAL
		return 8
	}
	return 0
}

// normal form of an entry: members its shape does not have are zero, and (for the decoders' view)
// a fixed-length type carries its size as maxlength
func ffNormalEntry(e ffEntry, row, wide bool) bool {
	sh := ffShape(e.dataType)
	if sh == 0 {
		return false
	}
	if sh != 'p' && e.precision != 0 {
		return false
	}
	if sh != 'p' && sh != 's' && e.scale != 0 {
		return false
	}
	if sh != 'b' && (e.blobType != 0 || e.classID != "") {
		return false
	}
	if sh == 'b' && e.blobType != 1 && e.blobType != 2 && e.classID != "" {
		return false
	}
	if sh != 't' && e.tableName != "" {
		return false
	}
	if sh == 'f' && e.maxLength != int64(ffFixedSize(e.dataType)) {
		return false
	}
	if sh == 'b' && e.maxLength != 0 {
		return false
	}
	if !(row && wide) && (e.label != "" || e.catalogue != "" || e.schema != "" || e.table != "") {
		return false
	}
	return true
}

func ffLenWidth(sh byte) int {
	switch sh {
	case '1', 'p', 's':
		return 1
	case '4', 't':
		return 4
	}
	return 0
}

// ffSpecEncFmt: token, Length (2 narrow / 4 wide), NumColumns(2), then per column
//
//	[LabelLen(1) Label CatalogLen(1) Catalog SchemaLen(1) Schema TableLen(1) Table]   ROWFMT2 only
//	NameLen(1) Name Status(1 narrow / 4 wide) UserType(4) DataType(1) <shape> LocaleLen(1) Locale
func ffSpecEncFmt(row, wide bool, es []ffEntry) ([]byte, bool) {
	w := &curW{}
	if len(es) > 65535 {
		return nil, false
	}
	w.u(2, uint64(len(es)))
	sw, lw := 1, 2
	if wide {
		sw, lw = 4, 4
	}
	s8 := func(s string) bool {
		if len(s) > 255 {
			return false
		}
		w.u(1, uint64(len(s)))
		w.s(s)
		return true
	}
	for _, e := range es {
		if !ffNormalEntry(e, row, wide) {
			return nil, false
		}
		if row && wide {
			if !(s8(e.label) && s8(e.catalogue) && s8(e.schema) && s8(e.table)) {
				return nil, false
			}
		}
		if !s8(e.name) || e.status>>(8*uint(sw)) != 0 {
			return nil, false
		}
		w.u(sw, e.status)
		w.u(4, uint64(uint32(e.userType)))
		w.u(1, uint64(e.dataType))
		sh := ffShape(e.dataType)
		if lwid := ffLenWidth(sh); lwid > 0 {
			if e.maxLength < 0 || (lwid < 8 && e.maxLength>>(8*uint(lwid)) != 0) {
				return nil, false
			}
			w.u(lwid, uint64(e.maxLength))
		}
		switch sh {
		case 'p':
			w.u(1, uint64(e.precision))
			w.u(1, uint64(e.scale))
		case 's':
			w.u(1, uint64(e.scale))
		case 't':
			if len(e.tableName) > 65535 {
				return nil, false
			}
			w.u(2, uint64(len(e.tableName)))
			w.s(e.tableName)
		case 'b':
			w.u(1, uint64(e.blobType))
			if e.blobType == 1 || e.blobType == 2 {
				if len(e.classID) > 65535 {
					return nil, false
				}
				w.u(2, uint64(len(e.classID)))
				w.s(e.classID)
			}
		}
		if !s8(e.locale) {
			return nil, false
		}
	}
	if uint64(len(w.b))>>(8*uint(lw)) != 0 {
		return nil, false
	}
	return curFrame(ffFmtToken(row, wide), lw, w.b), true
}

// ffSpecDecFmt: the inverse, length-delimited; the body must be consumed exactly.
func ffSpecDecFmt(row, wide bool, bs []byte) ([]ffEntry, bool) {
	sw, lw := 1, 2
	if wide {
		sw, lw = 4, 4
	}
	r, ok := curUnframe(bs, ffFmtToken(row, wide), lw)
	if !ok {
		return nil, false
	}
	n := r.u(2)
	var es []ffEntry
	for i := uint64(0); i < n && !r.bad; i++ {
		var e ffEntry
		if row && wide {
			e.label = r.s(r.u(1))
			e.catalogue = r.s(r.u(1))
			e.schema = r.s(r.u(1))
			e.table = r.s(r.u(1))
		}
		e.name = r.s(r.u(1))
		e.status = r.u(sw)
		e.userType = r.i32()
		e.dataType = byte(r.u(1))
		sh := ffShape(e.dataType)
		if sh == 0 {
			return nil, false
		}
		if sh == 'f' {
			e.maxLength = int64(ffFixedSize(e.dataType))
		}
		if lwid := ffLenWidth(sh); lwid > 0 {
			e.maxLength = int64(r.u(lwid))
		}
		switch sh {
		case 'p':
			e.precision = uint8(r.u(1))
			e.scale = uint8(r.u(1))
		case 's':
			e.scale = uint8(r.u(1))
		case 't':
			e.tableName = r.s(r.u(2))
		case 'b':
			e.blobType = uint8(r.u(1))
			if e.blobType == 1 || e.blobType == 2 {
				e.classID = r.s(r.u(2))
			}
		}
		e.locale = r.s(r.u(1))
		es = append(es, e)
	}
	if !r.done() {
		return nil, false
	}
	return es, true
}

// ffSpecEncData: the data part of TDS_ROW / TDS_PARAMS for one column:
//
//	[Status(1)] iff the column status has TDS_*_COLUMNSTATUS (0x08)
//	fixed: the value; Length(1|4) types: Length, value (Length 0 = NULL);
//	TEXT/IMAGE/UNITEXT/XML: TxtPtrLen(1) TxtPtr TimeStamp(8) DataLen(4) Data
//
// BLOB data: see the 'b' case below (known finding blob-not-functional; not an independent layout).
// Caveat: other implementations (FreeTDS) send / expect a NULL text value as TxtPtrLen 0 with nothing after
// it; the layout used here (and by /repo) always has timestamp and length.
//
// PARAMS also travels client → server: ffSpecDecRow (registered as SpecDecCtx) is the independent decoder
// of that leg (Lean: Row.decSpec, theorem Row.matches_spec).
func ffSpecEncDatum(w *curW, e ffEntry, datum string) bool {
	p := strings.Split(datum, ";")
	st, err := strconv.ParseUint(p[0], 10, 8)
	if err != nil {
		return false
	}
	if e.status&0x08 != 0 {
		w.u(1, st)
	} else if st != 0 {
		return false
	}
	sh := ffShape(e.dataType)
	switch sh {
	case 0:
		return false
	case 'b':
		// BLOB data (known finding blob-not-functional): the wire layout could not be established
		// offline; laid out the way the WRITER of /repo does it — Serialization(1), [SubClassIdLen(2)
		// SubClassId] (blob types 1, 2) or [LocatorLen(2) Locator] (6, 7, 8), then chunks of at most 1024
		// bytes under a 4-byte length whose high bit marks the last chunk. Not an independent layout.
		if len(p) != 5 {
			return false
		}
		ser, err := strconv.ParseUint(p[1], 10, 8)
		sub, loc, data := unhx(p[2]), unhx(p[3]), unhx(p[4])
		if err != nil || sub == nil || loc == nil || data == nil || len(sub) > 65535 || len(loc) > 65535 {
			return false
		}
		switch ser {
		case 4:
			w.u(1, 1)
		case 5:
			w.u(1, 2)
		default:
			w.u(1, 0)
		}
		switch e.blobType {
		case 1, 2:
			w.u(2, uint64(len(sub)))
			w.b = append(w.b, sub...)
		case 6, 7, 8:
			w.u(2, uint64(len(loc)))
			w.b = append(w.b, loc...)
		}
		for {
			n := len(data)
			if n > 1024 {
				n = 1024
			}
			if n == len(data) {
				w.u(4, uint64(n)|0x80000000)
			} else {
				w.u(4, uint64(n))
			}
			w.b = append(w.b, data[:n]...)
			data = data[n:]
			if len(data) == 0 {
				break
			}
		}
		return true
	case 't':
		if len(p) != 4 {
			return false
		}
		tp, ts, data := unhx(p[1]), unhx(p[2]), unhx(p[3])
		if tp == nil || ts == nil || data == nil || len(tp) > 255 || len(ts) != 8 {
			return false
		}
		w.u(1, uint64(len(tp)))
		w.b = append(w.b, tp...)
		w.b = append(w.b, ts...)
		w.u(4, uint64(len(data)))
		w.b = append(w.b, data...)
		return true
	}
	if len(p) != 2 {
		return false
	}
	v, ok := valParsePure(p[1]) // the reference encoder's input: not built with the type under test
	if !ok {
		return false
	}
	var raw []byte
	if v != nil && p[1] != "decnull" {
		raw, ok = refEncode(asetypes.DataType(e.dataType), e.maxLength, v)
		if !ok {
			return false
		}
	}
	if sh == 'f' {
		if len(raw) != ffFixedSize(e.dataType) {
			return false
		}
		w.b = append(w.b, raw...)
		return true
	}
	lwid := ffLenWidth(sh)
	if uint64(len(raw))>>(8*uint(lwid)) != 0 {
		return false
	}
	w.u(lwid, uint64(len(raw)))
	w.b = append(w.b, raw...)
	return true
}

func ffSpecEncRow(tok byte, f []string) ([]byte, bool) {
	if len(f) != 3 {
		return nil, false
	}
	es, ok := ffParseEntries(f[1])
	if !ok {
		return nil, false
	}
	data := ffSplitData(f[2])
	if len(data) != len(es) {
		return nil, false
	}
	w := &curW{b: []byte{tok}}
	for i, e := range es {
		if !ffSpecEncDatum(w, e, data[i]) {
			return nil, false
		}
	}
	return w.b, true
}

// ffRefValueToken: the value a conforming peer means by the raw bytes of a datum of column e, as canonical
// value token — the reference decoder of c05.go (refDecode), precision and scale of the column for a
// decimal, NULL for an empty datum of a nullable type. ok=false outside the documented domain.
func ffRefValueToken(e ffEntry, raw []byte) (string, bool) {
	t := asetypes.DataType(e.dataType)
	if len(raw) == 0 {
		if ffShape(e.dataType) == 'f' {
			return "", false
		}
		switch t {
		case asetypes.MONEYN, asetypes.DECN, asetypes.NUMN:
			return "decnull", true
		}
		return "null", true
	}
	v, tick, ok := refDecode(t, raw)
	if !ok {
		return "", false
	}
	if tick != 0 {
		base, isTime := v.(time.Time)
		if !isTime {
			return "", false
		}
		v = base.Add(time.Duration(valTickNs(refTickOfBytes(t, raw))))
	}
	if d, isDec := v.(*asetypes.Decimal); isDec && (t == asetypes.DECN || t == asetypes.NUMN) {
		d.Precision, d.Scale = int(e.precision), int(e.scale)
	}
	return ffValShow(v), true
}

// ffSpecDecRow (SpecDecCtx of params): independent decoder of a PARAMS / ROW package given the bytes of
// the preceding format package: the format is read with the layout decoder ffSpecDecFmt, the data are
// cut by ffSpecDecRowRaw, the values come from the reference value decoder.
func ffSpecDecRow(kind string, bs, ctx []byte) (string, bool) {
	if len(ctx) < 1 || len(bs) < 1 {
		return "", false
	}
	var row, wide bool
	switch ctx[0] {
	case byte(tds.TDS_PARAMFMT):
	case byte(tds.TDS_PARAMFMT2):
		wide = true
	case byte(tds.TDS_ROWFMT):
		row = true
	case byte(tds.TDS_ROWFMT2):
		row, wide = true, true
	default:
		return "", false
	}
	if want := byte(tds.TDS_PARAMS); row {
		if bs[0] != byte(tds.TDS_ROW) {
			return "", false
		}
	} else if bs[0] != want {
		return "", false
	}
	es, ok := ffSpecDecFmt(row, wide, ctx)
	if !ok {
		return "", false
	}
	raws, ok := ffSpecDecRowRaw(es, bs)
	if !ok {
		return "", false
	}
	data := make([]string, len(es))
	for i, e := range es {
		if ffFamily(e.dataType) != 'v' {
			data[i] = raws[i]
			continue
		}
		p := strings.Split(raws[i], ";")
		tok, ok := ffRefValueToken(e, unhx(p[1]))
		if !ok {
			return "", false
		}
		data[i] = p[0] + ";" + tok
	}
	d := "."
	if len(data) > 0 {
		d = strings.Join(data, ",")
	}
	return fmt.Sprintf("%s %s %s %s", kind, ffFmtKindName(row, wide), ffShowEntries(es), d), true
}

// ffSpecDecRowRaw cuts a PARAMS / ROW package (token included in bs) into its data given the format
// entries: `status;<hex of the value bytes>` resp. `status;txtptr;timestamp;data`.
func ffSpecDecRowRaw(es []ffEntry, bs []byte) ([]string, bool) {
	if len(bs) < 1 {
		return nil, false
	}
	r := &curR{b: bs[1:]}
	var out []string
	for _, e := range es {
		st := uint64(0)
		if e.status&0x08 != 0 {
			st = r.u(1)
		}
		sh := ffShape(e.dataType)
		switch sh {
		case 0, 'b':
			return nil, false
		case 't':
			tp := r.s(r.u(1))
			ts := r.s(8)
			data := r.s(r.u(4))
			out = append(out, fmt.Sprintf("%d;%s;%s;%s", st, hx([]byte(tp)), hx([]byte(ts)), hx([]byte(data))))
		case 'f':
			out = append(out, fmt.Sprintf("%d;%s", st, hx([]byte(r.s(uint64(ffFixedSize(e.dataType)))))))
		default:
			out = append(out, fmt.Sprintf("%d;%s", st, hx([]byte(r.s(r.u(ffLenWidth(sh)))))))
		}
	}
	if !r.done() {
		return nil, false
	}
	return out, true
}

// ---------------------------------------------------------------- context

// ffCtxBytes: bytes of the format package (token included) that the real reader decodes into
// exactly these entries. The TDS layout is tried first; where the reader of /repo deviates from
// the layout (BLOB: a length byte in front of the blob type, counted as -1 — known finding
// blob-not-functional) the bytes are laid out the way the reader reads them, so that ROW / PARAMS
// can be exercised after such a format at all.
func ffCtxBytes(kind string, es []ffEntry) []byte {
	row, wide, ok := ffFmtKind(kind)
	if !ok {
		return nil
	}
	want := kind + " " + ffShowEntries(es)
	try := func(bs []byte) bool {
		p := lookupAs(tds.Token(bs[0]))
		c, n := decodeInto(p, bs[1:])
		return c == "ok" && n == len(bs)-1 && ffShowFmtPkg(p) == want
	}
	hasBlob := false
	for _, e := range es {
		if e.dataType == byte(asetypes.BLOB) {
			hasBlob = true
		}
	}
	// without a BLOB column the format is ALWAYS the TDS layout, whatever the reader makes of it
	if bs, ok := ffSpecEncFmt(row, wide, es); ok && (!hasBlob || try(bs)) {
		return bs
	}
	bs := ffAsReadFmt(row, wide, es)
	if try(bs) {
		return bs
	}
	return bs
}

// ffAsReadFmt lays a format package out the way the reader of /repo consumes it.
func ffAsReadFmt(row, wide bool, es []ffEntry) []byte {
	w := &curW{}
	w.u(2, uint64(len(es)))
	sw, lw := 1, 2
	if wide {
		sw, lw = 4, 4
	}
	counted := 2
	s8 := func(s string) {
		w.u(1, uint64(len(s)))
		w.s(s)
		counted += 1 + len(s)
	}
	for _, e := range es {
		if row && wide {
			s8(e.label)
			s8(e.catalogue)
			s8(e.schema)
			s8(e.table)
		}
		s8(e.name)
		w.u(sw, e.status)
		w.u(4, uint64(uint32(e.userType)))
		w.u(1, uint64(e.dataType))
		counted += sw + 4 + 1
		sh := ffShape(e.dataType)
		if lwid := ffLenWidth(sh); lwid > 0 {
			w.u(lwid, uint64(e.maxLength))
			counted += lwid
		}
		switch sh {
		case 'p':
			w.u(1, uint64(e.precision))
			w.u(1, uint64(e.scale))
			counted += 2
		case 's':
			w.u(1, uint64(e.scale))
			counted++
		case 't':
			w.u(2, uint64(len(e.tableName)))
			w.s(e.tableName)
			counted += 2 + len(e.tableName)
		case 'b':
			w.u(1, uint64(e.maxLength)) // the byte readLengthBytes(ch, -1) consumes
			counted--                   // … and reports as LengthBytes() = -1
			w.u(1, uint64(e.blobType))
			counted++
			if e.blobType == 1 || e.blobType == 2 {
				w.u(2, uint64(len(e.classID)))
				w.s(e.classID)
				counted += 2 + len(e.classID)
			}
		}
		s8(e.locale)
	}
	total := len(w.b)
	if row {
		total = counted // ROWFMT compares its own count with the announced length
	}
	h := &curW{b: []byte{ffFmtToken(row, wide)}}
	h.u(lw, uint64(total))
	return append(h.b, w.b...)
}

// the ROWFMT2 an ORDERBY is decoded after: no columns
var ffEmptyRowFmt2 = []byte{byte(tds.TDS_ROWFMT2), 2, 0, 0, 0, 0, 0}

// ---------------------------------------------------------------- known finding blob-not-functional

// ffBlobInFmtBytes walks the bytes of a format package (token tok, body after the token: complete,
// truncated or mutated) the way its reader does and reports whether it reaches a column description
// whose data type byte is BLOB (0x24). Bytes before that point are read identically with or without
// BLOB support; from that point on the reader of /repo and the TDS layout differ.
func ffBlobInFmtBytes(tok byte, body []byte) bool {
	var row, wide bool
	switch tok {
	case byte(tds.TDS_PARAMFMT):
	case byte(tds.TDS_PARAMFMT2):
		wide = true
	case byte(tds.TDS_ROWFMT):
		row = true
	case byte(tds.TDS_ROWFMT2):
		row, wide = true, true
	default:
		return false
	}
	sw, lw := 1, 2
	if wide {
		sw, lw = 4, 4
	}
	r := &curR{b: body}
	r.u(lw)
	n := r.u(2)
	for i := uint64(0); i < n && !r.bad && len(r.b) > 0; i++ {
		if row && wide {
			for k := 0; k < 4; k++ {
				r.s(r.u(1))
			}
		}
		r.s(r.u(1))
		r.u(sw)
		r.u(4)
		if r.bad || len(r.b) == 0 {
			return false
		}
		t := byte(r.u(1))
		sh := ffShape(t)
		switch sh {
		case 'b':
			return true
		case 0:
			return false
		}
		if lwid := ffLenWidth(sh); lwid > 0 {
			r.u(lwid)
		}
		switch sh {
		case 'p':
			r.u(2)
		case 's':
			r.u(1)
		case 't':
			r.s(r.u(2))
		}
		r.s(r.u(1))
	}
	return false
}

func ffBlobInEntries(s string) bool {
	es, ok := ffParseEntries(s)
	if !ok {
		return false
	}
	for _, e := range es {
		if e.dataType == byte(asetypes.BLOB) {
			return true
		}
	}
	return false
}

// ffIsBlobCase: does a `pkg …` line involve a BLOB column / format? True for
//
//	pkg enc|rt|spec|specdec <format kind> <entries>            with a BLOB entry,
//	pkg enc|rt|spec|specdec params|row <fmtkind> <entries> …    with a BLOB entry,
//	pkg dec <format token> <ctx> <bytes>     whose bytes reach a BLOB column description (also when they are
//	                                         a prefix or a mutation of an encoding: ffBlobInFmtBytes),
//	pkg dec <PARAMS|ROW|ORDERBY token> <ctx> <bytes>   whose ctx is a format package reaching a BLOB column.
//
// These are the cases of the known finding blob-not-functional.
func ffIsBlobCase(line string) bool {
	f := strings.Fields(line)
	if len(f) < 4 || f[0] != "pkg" {
		return false
	}
	switch f[1] {
	case "enc", "rt", "spec", "specdec":
		switch f[2] {
		case "paramfmt", "paramfmt2", "rowfmt", "rowfmt2":
			return ffBlobInEntries(f[3])
		case "params", "row":
			return len(f) >= 5 && ffBlobInEntries(f[4])
		}
	case "dec":
		if len(f) != 5 {
			return false
		}
		tb := unhx(f[2])
		if len(tb) != 1 {
			return false
		}
		switch tb[0] {
		case byte(tds.TDS_PARAMFMT), byte(tds.TDS_PARAMFMT2), byte(tds.TDS_ROWFMT), byte(tds.TDS_ROWFMT2):
			bs := unhx(f[4])
			return bs != nil && ffBlobInFmtBytes(tb[0], bs)
		case byte(tds.TDS_PARAMS), byte(tds.TDS_ROW), byte(tds.TDS_ORDERBY), byte(tds.TDS_ORDERBY2):
			if f[3] == "-" {
				return false
			}
			ctx := unhx(f[3])
			return len(ctx) > 0 && ffBlobInFmtBytes(ctx[0], ctx[1:])
		}
	}
	return false
}

// ---------------------------------------------------------------- generators

var ffAllTypes = func() []byte {
	var ts []byte
	for t := 0; t < 256; t++ {
		if ffShape(byte(t)) != 0 {
			ts = append(ts, byte(t))
		}
	}
	return ts
}()

func ffN(tier string, quick, thorough int) int {
	if tier == "thorough" {
		return thorough
	}
	return quick
}

func ffText(rng *rand.Rand, n int) string {
	b := make([]byte, n)
	for i := range b {
		b[i] = byte('a' + rng.Intn(26))
	}
	return string(b)
}

func ffRandLen(rng *rand.Rand) int {
	switch rng.Intn(12) {
	case 0:
		return 0
	case 1:
		return 255
	case 2:
		return 254
	case 3:
		return 1
	}
	return rng.Intn(24)
}

// natural maxlength of a type in a format (what a server announces)
func ffNaturalMax(t byte) int64 {
	switch ffShape(t) {
	case 'f':
		return int64(ffFixedSize(t))
	case 'p':
		return 17
	case 's':
		return 8
	case 't':
		return 2147483647
	case '4':
		return 32768
	case 'b':
		return 0
	}
	switch asetypes.DataType(t) {
	case asetypes.INTN, asetypes.UINTN, asetypes.FLTN, asetypes.DATETIMEN, asetypes.MONEYN:
		return 8
	case asetypes.DATEN, asetypes.TIMEN:
		return 4
	}
	return 255
}

// a plain entry of type t
func ffPlain(t byte, name string) ffEntry {
	e := ffEntry{name: name, dataType: t, maxLength: ffNaturalMax(t)}
	switch ffShape(t) {
	case 'p':
		e.precision, e.scale = 18, 4
	case 's':
		e.scale = 6
	case 'b':
		e.blobType = 4
	}
	return e
}

func ffRandEntry(rng *rand.Rand, row, wide bool, types []byte) ffEntry {
	t := types[rng.Intn(len(types))]
	e := ffPlain(t, ffText(rng, ffRandLen(rng)))
	e.locale = ffText(rng, ffRandLen(rng)%40)
	if wide {
		e.status = uint64(rng.Uint32())
		if rng.Intn(2) == 0 {
			e.status &= 0xff
		}
	} else {
		e.status = uint64(rng.Intn(256))
	}
	if rng.Intn(3) == 0 {
		e.status = []uint64{0, 8, 0x20, 0x28}[rng.Intn(4)]
	}
	e.userType = curRandI32(rng)
	switch ffShape(t) {
	case '1':
		e.maxLength = int64(rng.Intn(256))
	case '4':
		e.maxLength = int64(rng.Uint32())
	case 'p':
		e.maxLength = int64(rng.Intn(256))
		e.precision, e.scale = uint8(rng.Intn(256)), uint8(rng.Intn(256))
	case 's':
		e.maxLength = int64(rng.Intn(256))
		e.scale = uint8(rng.Intn(256))
	case 't':
		e.maxLength = int64(rng.Uint32())
		e.tableName = ffText(rng, rng.Intn(40))
	case 'b':
		e.blobType = uint8(rng.Intn(10))
		if e.blobType == 1 || e.blobType == 2 {
			e.classID = ffText(rng, rng.Intn(30))
		}
	}
	if row && wide {
		e.label, e.catalogue = ffText(rng, ffRandLen(rng)%30), ffText(rng, ffRandLen(rng)%30)
		e.schema, e.table = ffText(rng, ffRandLen(rng)%30), ffText(rng, ffRandLen(rng)%30)
	}
	return e
}

func genFieldsFmt(row, wide bool) func(string, *rand.Rand, func(string)) {
	return func(tier string, rng *rand.Rand, emit func(string)) {
		one := func(e ffEntry) { emit(ffShowEntries([]ffEntry{e})) }
		emit(".")
		// every data type of the specification, every shape-specific member at its boundaries
		for _, t := range ffAllTypes {
			e := ffPlain(t, "c")
			switch ffShape(t) {
			case 'f':
				one(e)
			case '1':
				for _, l := range []int64{0, 1, 255} {
					e.maxLength = l
					one(e)
				}
			case '4':
				for _, l := range []int64{0, 1, 65535, 65536, 2147483647, 4294967295} {
					e.maxLength = l
					one(e)
				}
			case 'p':
				for _, ps := range [][3]int{{17, 38, 0}, {33, 77, 77}, {1, 1, 0}, {0, 0, 0}, {255, 255, 255}, {5, 3, 9}} {
					e.maxLength, e.precision, e.scale = int64(ps[0]), uint8(ps[1]), uint8(ps[2])
					one(e)
				}
			case 's':
				for _, ls := range [][2]int{{8, 6}, {8, 0}, {0, 255}, {255, 3}} {
					e.maxLength, e.scale = int64(ls[0]), uint8(ls[1])
					one(e)
				}
			case 't':
				for _, nl := range []int{0, 1, 255, 256, 1000} {
					e.tableName = ffText(rng, nl)
					one(e)
				}
				e.tableName = "t"
				for _, l := range []int64{0, 1, 65536, 4294967295} {
					e.maxLength = l
					one(e)
				}
			case 'b':
				for bt := 0; bt <= 9; bt++ {
					e.blobType, e.classID = uint8(bt), ""
					one(e)
					if bt == 1 || bt == 2 {
						for _, cl := range []int{1, 255, 256} {
							e.classID = ffText(rng, cl)
							one(e)
						}
					}
				}
				e.blobType, e.classID = 255, ""
				one(e)
			}
		}
		// name / locale / ROWFMT2 name lengths
		for _, nl := range []int{0, 1, 254, 255} {
			for _, ll := range []int{0, 1, 254, 255} {
				e := ffPlain(byte(asetypes.INT4), ffText(rng, nl))
				e.locale = ffText(rng, ll)
				one(e)
				e = ffPlain(byte(asetypes.VARCHAR), ffText(rng, nl))
				e.locale = ffText(rng, ll)
				one(e)
			}
		}
		if row && wide {
			for _, l := range []int{1, 254, 255} {
				for k := 0; k < 4; k++ {
					e := ffPlain(byte(asetypes.INTN), "n")
					x := ffText(rng, l)
					switch k {
					case 0:
						e.label = x
					case 1:
						e.catalogue = x
					case 2:
						e.schema = x
					case 3:
						e.table = x
					}
					one(e)
				}
			}
			e := ffPlain(byte(asetypes.CHAR), ffText(rng, 255))
			e.label, e.catalogue, e.schema, e.table = ffText(rng, 255), ffText(rng, 255), ffText(rng, 255), ffText(rng, 255)
			one(e)
		}
		// status and user type
		stati := []uint64{0, 1, 2, 4, 8, 0x10, 0x20, 0x40, 0x80, 0xff}
		if wide {
			stati = append(stati, 0x100, 0x8000, 0x10000, 0x80000000, 0xffffffff)
		}
		for _, st := range stati {
			e := ffPlain(byte(asetypes.INT2), "s")
			e.status = st
			one(e)
		}
		for _, ut := range curIDs {
			e := ffPlain(byte(asetypes.FLTN), "u")
			e.userType = ut
			one(e)
		}
		// several / many columns
		noBlob := []byte{}
		for _, t := range ffAllTypes {
			if ffShape(t) != 'b' {
				noBlob = append(noBlob, t)
			}
		}
		for _, n := range []int{2, 3, len(noBlob), 300} {
			es := make([]ffEntry, n)
			for i := range es {
				es[i] = ffPlain(noBlob[i%len(noBlob)], ffText(rng, i%5))
			}
			emit(ffShowEntries(es))
		}
		{
			// the largest narrow package: total just below 65536
			es := make([]ffEntry, 240)
			for i := range es {
				es[i] = ffPlain(byte(asetypes.VARCHAR), ffText(rng, 255))
			}
			emit(ffShowEntries(es))
		}
		for i := 0; i < ffN(tier, 250, 4000); i++ {
			n := 1 + rng.Intn(4)
			if rng.Intn(10) == 0 {
				n = rng.Intn(40)
			}
			es := make([]ffEntry, n)
			types := noBlob
			if rng.Intn(25) == 0 {
				types = ffAllTypes
			}
			for j := range es {
				es[j] = ffRandEntry(rng, row, wide, types)
			}
			emit(ffShowEntries(es))
		}
	}
}

// ---- rows

// ffRawSamples: (maxlength of the format, raw value bytes) for a data type whose data are read by
// fieldDataBase.readFrom; boundary lengths first. nil = GoValue knows no such type.
func ffRawLens(t byte) []int {
	switch asetypes.DataType(t) {
	case asetypes.INTN, asetypes.UINTN:
		return []int{0, 1, 2, 4, 8}
	case asetypes.FLTN:
		return []int{0, 4, 8}
	case asetypes.DATETIMEN, asetypes.MONEYN:
		return []int{0, 4, 8}
	case asetypes.DATEN, asetypes.TIMEN:
		return []int{0, 4}
	case asetypes.BIGDATETIMEN, asetypes.BIGTIMEN:
		return []int{0, 8}
	case asetypes.CHAR, asetypes.VARCHAR, asetypes.BINARY, asetypes.VARBINARY:
		return []int{0, 1, 254, 255}
	case asetypes.LONGCHAR, asetypes.LONGBINARY:
		return []int{0, 1, 255, 256, 65536}
	case asetypes.DECN, asetypes.NUMN:
		return []int{0, 1, 2, 9, 17, 33}
	case asetypes.INTERVAL, asetypes.SINT1, asetypes.SENSITIVITY, asetypes.BOUNDARY:
		return nil
	}
	if ffShape(t) == 'f' {
		return []int{ffFixedSize(t)}
	}
	return nil
}

func ffRawValue(rng *rand.Rand, t byte, n int, mode int) []byte {
	b := make([]byte, n)
	switch mode {
	case 0:
	case 1:
		for i := range b {
			b[i] = 0xff
		}
	default:
		for i := range b {
			b[i] = byte(rng.Intn(256))
		}
		// keep temporal values in a range every implementation of a calendar handles
		switch asetypes.DataType(t) {
		case asetypes.DATE, asetypes.DATEN:
			if n == 4 && mode == 2 {
				d := uint32(int32(rng.Intn(3000000) - 700000))
				b[0], b[1], b[2], b[3] = byte(d), byte(d>>8), byte(d>>16), byte(d>>24)
			}
		case asetypes.DATETIME, asetypes.DATETIMEN:
			if n == 8 && mode == 2 {
				d := uint32(int32(rng.Intn(3000000) - 700000))
				b[0], b[1], b[2], b[3] = byte(d), byte(d>>8), byte(d>>16), byte(d>>24)
				k := uint32(rng.Intn(25920000))
				b[4], b[5], b[6], b[7] = byte(k), byte(k>>8), byte(k>>16), byte(k>>24)
			}
		case asetypes.TIME, asetypes.TIMEN:
			if n == 4 && mode == 2 {
				k := uint32(rng.Intn(25920000))
				b[0], b[1], b[2], b[3] = byte(k), byte(k>>8), byte(k>>16), byte(k>>24)
			}
		case asetypes.BIGDATETIMEN:
			if n == 8 && mode == 2 {
				u := uint64(rng.Int63n(315537897600000000))
				for i := 0; i < 8; i++ {
					b[i] = byte(u >> (8 * uint(i)))
				}
			}
		case asetypes.BIGTIMEN:
			if n == 8 && mode == 2 {
				u := uint64(rng.Int63n(86400000000))
				for i := 0; i < 8; i++ {
					b[i] = byte(u >> (8 * uint(i)))
				}
			}
		case asetypes.DECN, asetypes.NUMN:
			if n > 0 {
				b[0] = byte(rng.Intn(2))
			}
			if n > 1 && b[1] == 0 {
				b[1] = 1
			}
		}
	}
	return b
}

type ffCol struct {
	e      ffEntry
	status uint8
	raw    []byte // value family
	tp, ts []byte // text pointer family (raw = data)
}

// the wire bytes of one datum as the TDS layout has them
func (c ffCol) wire(w *curW) {
	if c.e.status&8 != 0 {
		w.u(1, uint64(c.status))
	}
	switch sh := ffShape(c.e.dataType); sh {
	case 't':
		w.u(1, uint64(len(c.tp)))
		w.b = append(w.b, c.tp...)
		w.b = append(w.b, c.ts...)
		w.u(4, uint64(len(c.raw)))
		w.b = append(w.b, c.raw...)
	case 'f':
		w.b = append(w.b, c.raw...)
	default:
		w.u(ffLenWidth(sh), uint64(len(c.raw)))
		w.b = append(w.b, c.raw...)
	}
}

func ffValueTypes() []byte {
	var ts []byte
	for _, t := range ffAllTypes {
		if ffShape(t) == 't' || ffRawLens(t) != nil {
			ts = append(ts, t)
		}
	}
	return ts
}

func ffRandCol(rng *rand.Rand, t byte, n int, mode int, colStatus bool) ffCol {
	c := ffCol{e: ffPlain(t, ffText(rng, rng.Intn(6)))}
	// the format status is a bit set: the column-status bit (0x08) alone and combined with the other bits
	// (hidden 0x01, key 0x02, version 0x04, updatable 0x10, null allowed 0x20, identity 0x40, padchar 0x80)
	other := uint64([]int{0, 0, 0x20, 0x01, 0x10, 0x30, 0xF7}[rng.Intn(7)])
	c.e.status = other
	if colStatus {
		c.e.status = 8 | other
		c.status = uint8([]int{0, 1, 2, 255}[rng.Intn(4)])
	}
	if ffShape(t) == 't' {
		c.tp = rndBytes(rng, []int{0, 1, 16, 255}[rng.Intn(4)])
		c.ts = rndBytes(rng, 8)
		c.raw = rndBytes(rng, n)
		return c
	}
	c.raw = ffRawValue(rng, t, n, mode)
	if len(c.raw) > 0 {
		switch asetypes.DataType(t) {
		case asetypes.INTN, asetypes.UINTN, asetypes.FLTN, asetypes.DATETIMEN, asetypes.MONEYN:
			c.e.maxLength = int64(len(c.raw))
		case asetypes.DECN, asetypes.NUMN:
			c.e.maxLength = 33
			c.e.precision, c.e.scale = uint8([]int{38, 1, 18}[rng.Intn(3)]), uint8([]int{0, 38, 4}[rng.Intn(3)])
		}
	}
	return c
}

// ffRowFields turns columns into the canonical field list with the independent decoder; "" if the
// layout is outside the reference codec's domain or not a fixpoint of reference decode / encode
// (a value the value codec does not map back exactly: C04/C05's domain).
func ffRowFields(kind, fmtKind string, cols []ffCol, needEnc bool) string {
	tok := byte(tds.TDS_PARAMS)
	if kind == "row" {
		tok = byte(tds.TDS_ROW)
	}
	es := make([]ffEntry, len(cols))
	w := &curW{}
	for i, c := range cols {
		es[i] = c.e
		c.wire(w)
	}
	// The canonical field list comes from the INDEPENDENT decoder (reference layout + reference value
	// codec), never from the code under test: a case the real reader or writer mishandles must stay in
	// the stream and be judged, not drop out of it.
	ctx := ffCtxBytes(fmtKind, es)
	shown, ok := ffSpecDecRow(kind, append([]byte{tok}, w.b...), ctx)
	if !ok {
		return "" // outside the reference codec's domain
	}
	f := strings.Fields(shown)[1:]
	sp, ok := ffSpecEncRow(tok, f)
	if !ok {
		return ""
	}
	if sd, ok := ffSpecDecRow(kind, sp, ctx); !ok || sd != shown {
		return "" // the reference encoder does not reproduce the reference decoder's reading (value fixpoints only)
	}
	if needEnc {
		// the client leg: values a client can pass. The library's NULL decimal object (`decnull`, what
		// GoValue returns for zero-length MONEYN/DECN/NUMN) is not one: database/sql hands over nil instead
		// (NullDecimal.Value), and Bytes panics on it (recorded with C04 as a quirk outside the property).
		if strings.Contains(shown, "decnull") {
			return ""
		}
		if _, ok := ffBuildRow(kind, f); !ok {
			return ""
		}
	}
	return strings.Join(f, " ")
}

func genFieldsRow(kind string) func(string, *rand.Rand, func(string)) {
	return func(tier string, rng *rand.Rand, emit func(string)) {
		kinds := []string{"rowfmt2", "rowfmt"}
		if kind == "params" {
			kinds = []string{"paramfmt2", "paramfmt"}
		}
		needEnc := kind == "params"
		out := func(fk string, cols []ffCol) {
			if f := ffRowFields(kind, fk, cols, needEnc); f != "" {
				emit(f)
			}
		}
		blob := func(fk string, bt uint8, n int) {
			e := ffPlain(byte(asetypes.BLOB), "b")
			e.blobType = bt
			sub, loc := "-", "-"
			ser := map[uint8]int{1: 0, 3: 1, 4: 2, 5: 3, 6: 0}[bt]
			switch bt {
			case 1:
				e.classID = "cls"
				sub = hx([]byte("sub"))
			case 6:
				loc = hx([]byte("locator"))
			}
			emit(fmt.Sprintf("%s %s 0;%d;%s;%s;%s", fk, e.String(), ser, sub, loc, hx(rndBytes(rng, n))))
		}
		// BLOB columns — known finding blob-not-functional: the format accounting, the reader dropping the
		// last chunk and the writer's slice panic above 1024 bytes. Not filtered through the real reader
		// (nothing is a fixpoint there); the format reaches the reader laid out the way it reads it
		// (CtxFor; a PARAMFMT with a BLOB column cannot be read at all). A few first (the quick tiers of
		// C07 / C10 take the first cases of a kind), the rest below.
		blob(kinds[0], 4, 5)
		blob(kinds[0], 1, 0)
		blob(kinds[0], 4, 1025)
		blob(kinds[1], 6, 5)
		for _, fk := range kinds {
			out(fk, nil) // no columns
			// every type × every boundary length × {zeros, ones, random} × with/without column status
			for _, t := range ffValueTypes() {
				lens := ffRawLens(t)
				if ffShape(t) == 't' {
					lens = []int{0, 1, 255, 256, 70000}
				}
				for _, n := range lens {
					for mode := 0; mode < 4; mode++ {
						out(fk, []ffCol{ffRandCol(rng, t, n, mode, mode == 1)})
					}
				}
			}
			// many columns: one of every type
			var cols []ffCol
			for _, t := range ffValueTypes() {
				lens := ffRawLens(t)
				if ffShape(t) == 't' {
					lens = []int{0, 5}
				}
				cols = append(cols, ffRandCol(rng, t, lens[len(lens)-1]%300, 2, false))
			}
			out(fk, cols)
			cols = nil
			for i := 0; i < 255; i++ {
				cols = append(cols, ffRandCol(rng, byte(asetypes.INTN), []int{0, 1, 2, 4, 8}[i%5], 2, i%2 == 0))
			}
			out(fk, cols)
		}
		for _, fk := range kinds {
			for _, bt := range []uint8{4, 1, 6, 3, 5} {
				for _, n := range []int{0, 5, 1024, 1025, 2048} {
					blob(fk, bt, n)
				}
			}
			e := ffPlain(byte(asetypes.BLOB), "b")
			e.status = 8
			emit(fmt.Sprintf("%s %s,%s 1;2;-;-;%s,0;i32:7", fk, e.String(), ffPlain(byte(asetypes.INT4), "i").String(), hx(rndBytes(rng, 3))))
		}
		vt := ffValueTypes()
		for i := 0; i < ffN(tier, 300, 5000); i++ {
			n := 1 + rng.Intn(5)
			cols := make([]ffCol, n)
			for j := range cols {
				t := vt[rng.Intn(len(vt))]
				lens := ffRawLens(t)
				l := 0
				if ffShape(t) == 't' {
					l = rng.Intn(300)
				} else {
					l = lens[rng.Intn(len(lens))]
					switch asetypes.DataType(t) {
					case asetypes.CHAR, asetypes.VARCHAR, asetypes.BINARY, asetypes.VARBINARY:
						l = rng.Intn(256)
					case asetypes.LONGCHAR, asetypes.LONGBINARY:
						l = rng.Intn(400)
					case asetypes.DECN, asetypes.NUMN:
						l = rng.Intn(34)
					}
				}
				cols[j] = ffRandCol(rng, t, l, 2+rng.Intn(2), rng.Intn(3) == 0)
			}
			out(kinds[rng.Intn(2)], cols)
		}
	}
}

func genFieldsOrderBy(wide bool) func(string, *rand.Rand, func(string)) {
	return func(tier string, rng *rand.Rand, emit func(string)) {
		max := 256
		if wide {
			max = 65536
		}
		emit(".")
		for _, v := range []int{0, 1, 127, 128, 255, 256, 65535} {
			if v < max {
				emit(strconv.Itoa(v))
			}
		}
		for _, n := range []int{2, 255, 256, 1000} {
			parts := make([]string, n)
			for i := range parts {
				parts[i] = strconv.Itoa(rng.Intn(max))
			}
			emit(strings.Join(parts, ","))
		}
		for i := 0; i < ffN(tier, 100, 2000); i++ {
			parts := make([]string, 1+rng.Intn(12))
			for j := range parts {
				parts[j] = strconv.Itoa(rng.Intn(max))
			}
			emit(strings.Join(parts, ","))
		}
	}
}

// ---------------------------------------------------------------- registration

func init() {
	// ---- PARAMFMT / PARAMFMT2 (both directions), ROWFMT / ROWFMT2 (server only: no writer)
	for _, rw := range [][2]bool{{false, false}, {false, true}, {true, false}, {true, true}} {
		row, wide := rw[0], rw[1]
		kind := ffFmtKindName(row, wide)
		c := &pkgCodec{
			Kind: kind, Tokens: []byte{ffFmtToken(row, wide)}, ServerOnly: row,
			Show: ffShowFmtPkg,
			Gen:  genFieldsFmt(row, wide),
			// TDS_PARAMFMT/2, TDS_ROWFMT/2: see ffSpecEncFmt
			SpecEnc: func(f []string) ([]byte, bool) {
				if len(f) != 1 {
					return nil, false
				}
				es, ok := ffParseEntries(f[0])
				if !ok {
					return nil, false
				}
				return ffSpecEncFmt(row, wide, es)
			},
		}
		if !row {
			c.Build = func(f []string) (tds.Package, bool) {
				if len(f) != 1 {
					return nil, false
				}
				es, ok := ffParseEntries(f[0])
				if !ok {
					return nil, false
				}
				return ffBuildFmtPkg(kind, es)
			}
			c.SpecDec = func(bs []byte) (string, bool) {
				es, ok := ffSpecDecFmt(row, wide, bs)
				if !ok {
					return "", false
				}
				return kind + " " + ffShowEntries(es), true
			}
		}
		registerCodec(c)
	}

	// ---- PARAMS (both directions), ROW (server only)
	for _, kind := range []string{"params", "row"} {
		kind := kind
		tok := byte(tds.TDS_PARAMS)
		if kind == "row" {
			tok = byte(tds.TDS_ROW)
		}
		c := &pkgCodec{
			Kind: kind, Tokens: []byte{tok}, ServerOnly: kind == "row", NeedsCtx: true,
			Show: func(p tds.Package) string { return ffShowRow(kind, p) },
			Gen:  genFieldsRow(kind),
			CtxFor: func(f []string) []byte {
				if len(f) != 3 {
					return nil
				}
				es, ok := ffParseEntries(f[1])
				if !ok {
					return nil
				}
				return ffCtxBytes(f[0], es)
			},
			// TDS_ROW / TDS_PARAMS: token, then the data of every column of the preceding format: see ffSpecEncDatum
			SpecEnc: func(f []string) ([]byte, bool) { return ffSpecEncRow(tok, f) },
		}
		if kind == "params" {
			c.Build = func(f []string) (tds.Package, bool) { return ffBuildRow(kind, f) }
			c.SpecDecCtx = func(bs, ctx []byte) (string, bool) { return ffSpecDecRow(kind, bs, ctx) }
		}
		registerCodec(c)
	}

	// ---- ORDERBY / ORDERBY2 (server only: no writer)
	for _, wide := range []bool{false, true} {
		wide := wide
		kind, tok := "orderby", byte(tds.TDS_ORDERBY)
		if wide {
			kind, tok = "orderby2", byte(tds.TDS_ORDERBY2)
		}
		registerCodec(&pkgCodec{
			Kind: kind, Tokens: []byte{tok}, ServerOnly: true, NeedsCtx: true,
			Show: func(p tds.Package) string {
				switch x := p.(type) {
				case *tds.OrderByPackage:
					return kind + " " + ffShowCols(x.ColumnOrder)
				case *tds.OrderBy2Package:
					return kind + " " + ffShowCols(x.ColumnOrder)
				}
				return fmt.Sprintf("unknown:%T", p)
			},
			Gen:    genFieldsOrderBy(wide),
			CtxFor: func(f []string) []byte { return ffEmptyRowFmt2 },
			// TDS_ORDERBY: token, Length(2) = number of columns, one byte per column
			// TDS_ORDERBY2: token, Length(4), NumColumns(2), two bytes per column
			SpecEnc: func(f []string) ([]byte, bool) {
				if len(f) != 1 {
					return nil, false
				}
				bits := 8
				if wide {
					bits = 16
				}
				cols, ok := ffParseCols(f[0], bits)
				if !ok || len(cols) > 65535 {
					return nil, false
				}
				w := &curW{}
				if !wide {
					for _, c := range cols {
						w.u(1, c)
					}
					return curFrame(tok, 2, w.b), true
				}
				w.u(2, uint64(len(cols)))
				for _, c := range cols {
					w.u(2, c)
				}
				return curFrame(tok, 4, w.b), true
			},
		})
	}
}
