package main

import (
	"encoding/hex"
	"fmt"
	"math/rand"
	"strconv"
	"strings"

	"github.com/SAP/go-dblib/tds"
)

func hx(b []byte) string {
	if len(b) == 0 {
		return "-"
	}
	return hex.EncodeToString(b)
}

func unhx(s string) []byte {
	if s == "-" {
		return []byte{}
	}
	b, err := hex.DecodeString(s)
	if err != nil {
		return nil
	}
	return b
}

func pqState(q *tds.PacketQueue) string {
	dl, hl, ip, id, eom := q.VerifState()
	parts := make([]string, len(dl))
	for i := range dl {
		parts[i] = fmt.Sprintf("%d/%d", dl[i], hl[i])
	}
	e := 0
	if eom {
		e = 1
	}
	return fmt.Sprintf("[%d,%d,%d,%s]", ip, id, e, strings.Join(parts, ","))
}

// pqImpl runs an op list on the real tds.PacketQueue.
func pqImpl(line string) string {
	toks := strings.Fields(line)
	if len(toks) < 2 {
		return "bad-op"
	}
	psize := 512
	q := tds.NewPacketQueue(func() int { return psize })
	markP, markD := 0, 0
	var outs []string
	step := func(tok string) (out string, stop bool) {
		defer func() {
			if r := recover(); r != nil {
				out, stop = "panic", true
			}
		}()
		f := strings.Split(tok, ":")
		atoi := func(s string) int { n, _ := strconv.Atoi(s); return n }
		switch {
		case f[0] == "a" && len(f) == 4:
			d := unhx(f[3])
			q.AddPacket(&tds.Packet{Header: tds.PacketHeader{Status: tds.PacketHeaderStatus(atoi(f[1])), Length: uint16(atoi(f[2]))}, Data: d})
			return "ok", false
		case f[0] == "b" && len(f) == 2:
			bs, err := q.Bytes(atoi(f[1]))
			if err != nil {
				return "short", false
			}
			return "ok:" + hx(bs), false
		case f[0] == "rd" && len(f) == 2:
			n := atoi(f[1])
			// the caller's buffer is a slice of a larger scratch buffer: its capacity exceeds its length
			scratch := make([]byte, n+5+n%7)
			for i := range scratch {
				scratch[i] = 0xEE
			}
			p := scratch[:n]
			m, err := q.Read(p)
			if err != nil {
				return fmt.Sprintf("short:%d", m), false
			}
			return fmt.Sprintf("ok:%d:%s", m, hx(p)), false
		case f[0] == "u" && len(f) == 2:
			var v uint64
			var err error
			switch atoi(f[1]) {
			case 1:
				var x uint8
				x, err = q.Uint8()
				v = uint64(x)
			case 2:
				var x uint16
				x, err = q.Uint16()
				v = uint64(x)
			case 4:
				var x uint32
				x, err = q.Uint32()
				v = uint64(x)
			case 8:
				v, err = q.Uint64()
			default:
				return "bad-op", true
			}
			if err != nil {
				return "short", false
			}
			return fmt.Sprintf("ok:%d", v), false
		case (f[0] == "w" || f[0] == "ws" || f[0] == "wy") && len(f) == 3:
			ps := atoi(f[1])
			d := unhx(f[2])
			if len(d) > 0 && (ps < 9 || ps > 65535) {
				return "unsupported", true
			}
			psize = ps
			switch f[0] {
			case "ws": // the string method: the same bytes, whatever they spell
				q.WriteString(string(d))
			case "wy": // the io.Writer method
				if n, err := q.Write(d); err != nil || n != len(d) {
					return "short-write", true
				}
			default:
				q.WriteBytes(d)
			}
			return "ok", false
		case f[0] == "st" && len(f) == 2:
			str, err := q.String(atoi(f[1]))
			if err != nil {
				return "short", false
			}
			return "ok:" + hx([]byte(str)), false
		case f[0] == "i" && len(f) == 2:
			var v uint64
			var err error
			switch atoi(f[1]) {
			case 1:
				var x int8
				x, err = q.Int8()
				v = uint64(uint8(x))
			case 2:
				var x int16
				x, err = q.Int16()
				v = uint64(uint16(x))
			case 4:
				var x int32
				x, err = q.Int32()
				v = uint64(uint32(x))
			case 8:
				var x int64
				x, err = q.Int64()
				v = uint64(x)
			default:
				return "bad-op", true
			}
			if err != nil {
				return "short", false
			}
			return fmt.Sprintf("ok:%d", v), false
		case f[0] == "wi" && len(f) == 4:
			ps := atoi(f[1])
			if ps < 9 || ps > 65535 {
				return "unsupported", true
			}
			psize = ps
			v, _ := strconv.ParseUint(f[3], 10, 64)
			switch atoi(f[2]) {
			case 1:
				q.WriteInt8(int8(v))
			case 2:
				q.WriteInt16(int16(v))
			case 4:
				q.WriteInt32(int32(v))
			case 8:
				q.WriteInt64(int64(v))
			default:
				return "bad-op", true
			}
			return "ok", false
		case f[0] == "wu" && len(f) == 4:
			ps := atoi(f[1])
			if ps < 9 || ps > 65535 {
				return "unsupported", true
			}
			psize = ps
			v, _ := strconv.ParseUint(f[3], 10, 64)
			switch atoi(f[2]) {
			case 1:
				q.WriteUint8(uint8(v))
			case 2:
				q.WriteUint16(uint16(v))
			case 4:
				q.WriteUint32(uint32(v))
			case 8:
				q.WriteUint64(v)
			default:
				return "bad-op", true
			}
			return "ok", false
		case f[0] == "z" && len(f) == 2:
			// the packet size in force changes (the queue asks its callback)
			psize = atoi(f[1])
			return "ok", false
		case f[0] == "p":
			a, b := q.Position()
			return fmt.Sprintf("%d,%d", a, b), false
		case f[0] == "s" && len(f) == 3:
			q.SetPosition(atoi(f[1]), atoi(f[2]))
			return "ok", false
		case f[0] == "m":
			markP, markD = q.Position()
			return "ok", false
		case f[0] == "k":
			q.SetPosition(markP, markD)
			return "ok", false
		case f[0] == "d":
			q.DiscardUntilCurrentPosition()
			return "ok", false
		case f[0] == "r":
			q.Reset()
			return "ok", false
		case f[0] == "e":
			if q.IsEOM() {
				return "1", false
			}
			return "0", false
		case f[0] == "c":
			if q.AllPacketsConsumed() {
				return "1", false
			}
			return "0", false
		case f[0] == "dump":
			var all []byte
			for _, p := range q.VerifPackets() {
				all = append(all, p.Data...)
			}
			return hx(all), false
		}
		return "bad-op", true
	}
	for _, t := range toks[2:] {
		o, stop := step(t)
		if stop {
			outs = append(outs, o)
			break
		}
		outs = append(outs, o+pqState(q))
	}
	return strings.Join(outs, " ")
}

// pqOracle is the flat byte slice specification of the property statement.
// Mode R: reader discipline, mode W: writer discipline, X: no oracle.
func pqOracle(line, out string) string {
	toks := strings.Fields(line)
	if len(toks) < 2 {
		return ""
	}
	mode := toks[1]
	ops := toks[2:]
	outs := strings.Fields(out)
	if mode == "X" {
		return ""
	}
	for _, o := range outs {
		if o == "panic" {
			return "no operation of the discipline panics"
		}
	}
	if len(outs) != len(ops) {
		return "every operation answers"
	}
	res := func(i int) string {
		o := outs[i]
		if j := strings.Index(o, "["); j >= 0 {
			return o[:j]
		}
		return o
	}
	state := func(i int) (ip, id int, dl, hl []int) {
		o := outs[i]
		j := strings.Index(o, "[")
		f := strings.Split(strings.Trim(o[j:], "[]"), ",")
		ip, _ = strconv.Atoi(f[0])
		id, _ = strconv.Atoi(f[1])
		for _, p := range f[3:] {
			if p == "" {
				continue
			}
			ab := strings.Split(p, "/")
			a, _ := strconv.Atoi(ab[0])
			b, _ := strconv.Atoi(ab[1])
			dl = append(dl, a)
			hl = append(hl, b)
		}
		return
	}
	// the method variants are the same operation to the specification
	ops = append([]string{}, ops...)
	for i, op := range ops {
		for _, al := range [][2]string{{"ws:", "w:"}, {"wy:", "w:"}, {"wi:", "wu:"}, {"st:", "b:"}, {"i:", "u:"}} {
			if strings.HasPrefix(op, al[0]) {
				ops[i] = al[1] + strings.TrimPrefix(op, al[0])
			}
		}
	}
	switch mode {
	case "R":
		var buf []byte
		pos, mark := 0, 0
		markValid := true
		undefined := false
		var cands []int
		for i, op := range ops {
			f := strings.Split(op, ":")
			switch f[0] {
			case "a":
				buf = append(buf, unhx(f[3])...)
			case "b", "rd", "u":
				n, _ := strconv.Atoi(f[1])
				r := res(i)
				if undefined {
					// after a failed read that was not followed by a restore the property fixes no position;
					// two are sensible — unchanged, or everything consumed (what the code does) — and the next
					// successful read must continue from one of them: never from inside a later packet, and it
					// must not fail when both have the bytes
					enough := 0
					for _, c := range cands {
						if c+n <= len(buf) {
							enough++
							if readMatches(f[0], r, n, buf[c:c+n]) {
								pos, undefined = c+n, false
							}
						}
					}
					if undefined {
						if strings.HasPrefix(r, "short") {
							if enough == len(cands) {
								return "a read returns exactly the bytes enqueued, in order, across packet boundaries (not-enough-bytes although the bytes are there, after an earlier failed read)"
							}
							cands = append(cands, len(buf))
							continue
						}
						return "a read returns exactly the bytes enqueued, in order, across packet boundaries (bytes enqueued after a failed read are skipped or repeated)"
					}
					continue
				}
				if pos+n <= len(buf) {
					want := buf[pos : pos+n]
					pos += n
					if !readMatches(f[0], r, n, want) {
						switch f[0] {
						case "b":
							return "a read returns exactly the bytes enqueued, in order, across packet boundaries"
						case "rd":
							return "Read fills the caller's buffer with the bytes read"
						default:
							return "a typed read returns the little-endian value of the next bytes"
						}
					}
				} else {
					if !strings.HasPrefix(r, "short") {
						return "a read beyond the available bytes reports not-enough-bytes"
					}
					undefined = true
					cands = []int{pos, len(buf)}
				}
			case "m":
				if undefined {
					return "" // outside the discipline: not judged
				}
				mark, markValid = pos, true
			case "k":
				if !markValid {
					return "" // a position saved before a discard/reset is no longer valid: not judged
				}
				pos = mark
				undefined = false
			case "d":
				// discarding never drops an unread byte: pos unchanged
				if undefined {
					return ""
				}
				markValid = false
			case "r":
				buf, pos, mark, undefined, markValid = nil, 0, 0, false, false
			}
		}
		return ""
	case "W":
		// packets: capacity of each, bytes written
		var caps []int
		var written []byte
		fill := 0
		for i, op := range ops {
			f := strings.Split(op, ":")
			var ps int
			var data []byte
			switch f[0] {
			case "w":
				ps, _ = strconv.Atoi(f[1])
				data = unhx(f[2])
			case "wu":
				ps, _ = strconv.Atoi(f[1])
				w, _ := strconv.Atoi(f[2])
				v, _ := strconv.ParseUint(f[3], 10, 64)
				for k := 0; k < w; k++ {
					data = append(data, byte(v>>(8*uint(k))))
				}
			case "r":
				caps, written, fill = nil, nil, 0
				continue
			case "dump":
				ip, id, dl, _ := state(i)
				_ = ip
				_ = id
				all := unhx(res(i))
				// concatenation of the used parts of the packets
				var used []byte
				off := 0
				for k, l := range dl {
					n := l
					if k == len(dl)-1 {
						n = fill
					}
					if off+n > len(all) {
						return "written data is readable back from the packets"
					}
					used = append(used, all[off:off+n]...)
					off += l
				}
				if hx(used) != hx(written) {
					return "the packets hold exactly the bytes written, in order"
				}
				continue
			default:
				continue
			}
			for _, b := range data {
				if len(caps) == 0 || fill == caps[len(caps)-1] {
					caps = append(caps, ps-8)
					fill = 0
				}
				written = append(written, b)
				fill++
			}
			ip, id, dl, hl := state(i)
			if len(dl) != len(caps) {
				return "each packet is filled completely before the next is opened"
			}
			for k := range caps {
				if dl[k] != caps[k] || hl[k] != caps[k]+8 {
					return "written data is laid out in packets of the packet size in force"
				}
			}
			if len(caps) > 0 && (ip != len(caps)-1 || id != fill) {
				return "the position is the next free byte"
			}
		}
		return ""
	}
	return ""
}

func rndBytes(rng *rand.Rand, n int) []byte {
	b := make([]byte, n)
	for i := range b {
		b[i] = byte(rng.Intn(256))
	}
	return b
}

// genReader emits an op list following the reader discipline, tracking the flat spec.
func genReader(rng *rand.Rand, nops int) string {
	ops := []string{"pq", "R"}
	avail, pos, mark := 0, 0, 0
	markValid := true // position (0,0) of a fresh queue
	undefined := false
	for len(ops) < nops+2 {
		if undefined {
			if rng.Intn(4) == 0 {
				// carry on without restoring the position (the failed read has consumed everything): packets
				// enqueued from here on must still come out from their first byte
				pos, undefined = avail, false
				n := 1 + rng.Intn(8)
				ops = append(ops, fmt.Sprintf("a:0:%d:%s", n+8, hx(rndBytes(rng, n))))
				avail += n
				continue
			}
			if markValid && rng.Intn(4) != 0 {
				ops = append(ops, "k")
				pos = mark
			} else {
				ops = append(ops, "r")
				avail, pos, mark, markValid = 0, 0, 0, false
			}
			undefined = false
			continue
		}
		if rng.Intn(12) == 0 {
			// the negotiated packet size changes while data is queued (smaller and larger than the packets held)
			ops = append(ops, fmt.Sprintf("z:%d", []int{9, 10, 11, 12, 16, 24, 512, 2048}[rng.Intn(8)]))
			continue
		}
		switch x := rng.Intn(20); {
		case x < 6:
			n := []int{0, 1, 1, 2, 3, 5, 8, 13}[rng.Intn(8)]
			st := 0
			if rng.Intn(4) == 0 {
				st = 1
			}
			ops = append(ops, fmt.Sprintf("a:%d:%d:%s", st, n+8, hx(rndBytes(rng, n))))
			avail += n
		case x < 12:
			left := avail - pos
			n := rng.Intn(6)
			switch rng.Intn(6) {
			case 0:
				n = left
			case 1:
				n = left + 1
			case 2:
				if left > 0 {
					n = left - 1
				}
			}
			kind := []string{"b", "b", "rd", "st"}[rng.Intn(4)]
			if n == 0 && kind == "rd" {
				kind = "b"
			}
			ops = append(ops, fmt.Sprintf("%s:%d", kind, n))
			if pos+n <= avail {
				pos += n
			} else {
				undefined = true
			}
		case x < 14:
			w := []int{1, 2, 4, 8}[rng.Intn(4)]
			ops = append(ops, fmt.Sprintf("%s:%d", []string{"u", "u", "i"}[rng.Intn(3)], w))
			if pos+w <= avail {
				pos += w
			} else {
				undefined = true
			}
		case x < 16:
			ops = append(ops, "m")
			mark, markValid = pos, true
		case x < 17:
			if markValid {
				ops = append(ops, "k")
				pos = mark
			}
		case x < 19:
			ops = append(ops, "d")
			markValid = false
		case x < 20:
			if rng.Intn(3) == 0 {
				ops = append(ops, "r")
				avail, pos, mark, markValid = 0, 0, 0, false
			} else {
				ops = append(ops, []string{"e", "c", "p"}[rng.Intn(3)])
			}
		}
	}
	return strings.Join(ops, " ")
}

func genWriter(rng *rand.Rand, nops int, sizes []int) string {
	ops := []string{"pq", "W"}
	ps := sizes[rng.Intn(len(sizes))]
	for len(ops) < nops+2 {
		if rng.Intn(5) == 0 {
			ps = sizes[rng.Intn(len(sizes))]
		}
		body := ps - 8
		switch x := rng.Intn(10); {
		case x < 6:
			n := rng.Intn(2*body + 2)
			switch rng.Intn(5) {
			case 0:
				n = body
			case 1:
				n = body - 1
			case 2:
				n = body + 1
			}
			if n < 0 {
				n = 0
			}
			if n > 1400 {
				n = 1400
			}
			data := rndBytes(rng, n)
			meth := []string{"w", "w", "ws", "wy"}[rng.Intn(4)]
			if meth == "ws" && rng.Intn(2) == 0 {
				// text with multi-byte characters (two, three and four bytes each), cut to the length wanted
				t := []byte(strings.Repeat("aß€日𝄞z", n/12+1))
				data = t[:n]
			}
			ops = append(ops, fmt.Sprintf("%s:%d:%s", meth, ps, hx(data)))
		case x < 8:
			w := []int{1, 2, 4, 8}[rng.Intn(4)]
			v := rng.Uint64()
			if w < 8 {
				v &= (1 << (8 * uint(w))) - 1
			}
			ops = append(ops, fmt.Sprintf("%s:%d:%d:%d", []string{"wu", "wu", "wi"}[rng.Intn(3)], ps, w, v))
		case x < 9:
			ops = append(ops, "dump")
		default:
			if rng.Intn(4) == 0 {
				ops = append(ops, "r")
			} else {
				ops = append(ops, "p")
			}
		}
	}
	ops = append(ops, "dump")
	return strings.Join(ops, " ")
}

func genWild(rng *rand.Rand, nops int) string {
	ops := []string{"pq", "X"}
	for len(ops) < nops+2 {
		switch x := rng.Intn(14); {
		case x < 3:
			n := rng.Intn(6)
			ops = append(ops, fmt.Sprintf("a:%d:%d:%s", rng.Intn(2), rng.Intn(20), hx(rndBytes(rng, n))))
		case x < 6:
			ops = append(ops, fmt.Sprintf("b:%d", rng.Intn(9)))
		case x < 8:
			ops = append(ops, fmt.Sprintf("w:%d:%s", 9+rng.Intn(8), hx(rndBytes(rng, rng.Intn(12)))))
		case x < 10:
			ops = append(ops, fmt.Sprintf("s:%d:%d", rng.Intn(4), rng.Intn(7)))
		case x < 11:
			ops = append(ops, "d")
		case x < 12:
			ops = append(ops, []string{"e", "c", "p", "m", "k"}[rng.Intn(5)])
		case x < 13:
			ops = append(ops, fmt.Sprintf("rd:%d", 1+rng.Intn(6)))
		default:
			if rng.Intn(5) == 0 {
				ops = append(ops, "r")
			} else {
				ops = append(ops, fmt.Sprintf("u:%d", []int{1, 2, 4, 8}[rng.Intn(4)]))
			}
		}
	}
	return strings.Join(ops, " ")
}

// exhaustive short sequences over a tiny alphabet (packet size 10: two-byte bodies)
func genExhaustive(depth int, emit func(Case)) {
	alpha := []string{"a:0:10:0102", "a:1:9:03", "a:0:8:-", "b:1", "b:2", "b:3", "m", "k", "d", "w:10:aabbcc", "w:10:dd", "s:1:0", "e"}
	var rec func(prefix []string, d int)
	rec = func(prefix []string, d int) {
		if d == 0 {
			emit(Case{Line: "pq X " + strings.Join(prefix, " "), Kind: "exhaustive-short"})
			return
		}
		for _, a := range alpha {
			rec(append(prefix, a), d-1)
		}
	}
	for d := 1; d <= depth; d++ {
		rec(nil, d)
	}
}

func init() {
	register(&Prop{
		ID: "C15",
		Gen: func(tier string, rng *rand.Rand, emit func(Case)) {
			nR, nW, nX, depth := 6000, 3000, 6000, 3
			if tier == "thorough" {
				nR, nW, nX, depth = 300000, 100000, 300000, 5
			}
			genExhaustive(depth, emit)
			sizes := []int{9, 10, 11, 16, 17, 64, 255, 256, 512, 600}
			for i := 0; i < nR; i++ {
				emit(Case{Line: genReader(rng, 4+rng.Intn(28)), Kind: "reader"})
			}
			for i := 0; i < nW; i++ {
				emit(Case{Line: genWriter(rng, 2+rng.Intn(12), sizes), Kind: "writer"})
			}
			for i := 0; i < nX; i++ {
				emit(Case{Line: genWild(rng, 2+rng.Intn(20)), Kind: "wild"})
			}
		},
		Impl:       pqImpl,
		Oracle:     pqOracle,
		FindingKey: func(line, out, clause string) string { return clause },
		Nontrivial: func(line, out string) bool {
			// crosses a packet boundary or hits a short read / panic
			return strings.Count(line, " a:")+strings.Count(line, " w:") >= 2 || strings.Contains(out, "short") || strings.Contains(out, "panic")
		},
		Rule:        "op sequences over the real tds.PacketQueue: reader discipline (flat-slice oracle), writer discipline (layout oracle), undisciplined ops (model correspondence only, incl. panics) and all sequences up to a fixed depth over a 13-op alphabet at packet size 10; non-trivial = at least two packets involved, or a short read, or a panic",
		Assumptions: []string{"positions passed to SetPosition are non-negative", "packet sizes 9..65535"},
	})
}

// readMatches: is r the answer of a successful read of kind b / rd / u that returned want?
func readMatches(kind, r string, n int, want []byte) bool {
	switch kind {
	case "b":
		return r == "ok:"+hx(want)
	case "rd":
		return r == fmt.Sprintf("ok:%d:%s", n, hx(want))
	case "u":
		var v uint64
		for k := n - 1; k >= 0; k-- {
			v = v<<8 | uint64(want[k])
		}
		return r == fmt.Sprintf("ok:%d", v)
	}
	return false
}

// rule addenda (rounds 9-12): what the evidence says about the coverage of a run
func init() {
	if p := registry["C15"]; p != nil {
		p.Rule += " Method variants of the byte operations: WriteString (incl. multi-byte text), Write (io.Writer), WriteInt8..64, String(n), Int8..64, Read into a slice of a larger scratch buffer."
	}
}
