package main

import (
	"encoding/binary"
	"encoding/hex"
	"fmt"
	"math"
	"math/big"
	"math/rand"
	"strings"
	"time"
	"unicode/utf16"
	"unicode/utf8"

	"github.com/SAP/go-dblib/asetypes"
)

// C05 - Data type wire encodings match the TDS 5.0 layouts.
//
// Line protocol: the `val …` / `cal …` lines documented in c04.go (same Impl, same Lean entry points).
//
// Oracle: an independently written reference codec (this file: encoding/binary for integers and floats,
// math/big for money and numeric, own civil-date arithmetic `refDays` / `refCivil` — the days_from_civil
// algorithm on a March-based year, not the Julian-day formulas of asetime — with time.Date(...).Unix() as a
// second opinion, exact integer/rational arithmetic for the tick conversions, unicode/utf16 for unitext) and
// fixed documentation vectors (type minima/maxima, epochs).

// ---------------------------------------------------------------------------------------
// reference calendar

// refDays: days since 0001-01-01 of the proleptic Gregorian date y-m-d (any y).
func refDays(y, m, d int64) int64 {
	if m <= 2 {
		y--
	}
	era := floorDiv(y, 400)
	yoe := y - era*400
	mp := (m + 9) % 12
	doy := (153*mp+2)/5 + d - 1
	doe := yoe*365 + yoe/4 - yoe/100 + doy
	return era*146097 + doe - 306
}

func floorDiv(a, b int64) int64 {
	q := a / b
	if a%b != 0 && (a < 0) != (b < 0) {
		q--
	}
	return q
}

// refCivil: inverse of refDays.
func refCivil(z int64) (y, m, d int64) {
	z += 306
	era := floorDiv(z, 146097)
	doe := z - era*146097
	yoe := (doe - doe/1460 + doe/36524 - doe/146096) / 365
	y = yoe + era*400
	doy := doe - (365*yoe + yoe/4 - yoe/100)
	mp := (5*doy + 2) / 153
	d = doy - (153*mp+2)/5 + 1
	if mp < 10 {
		m = mp + 3
	} else {
		m = mp - 9
	}
	if m <= 2 {
		y++
	}
	return
}

// refDaysOf: day number of a time.Time, by own arithmetic, cross-checked against Go's Unix seconds.
func refDaysOf(t time.Time) (int64, bool) {
	n := refDays(int64(t.Year()), int64(t.Month()), int64(t.Day()))
	midnight := time.Date(t.Year(), t.Month(), t.Day(), 0, 0, 0, 0, time.UTC)
	second := floorDiv(midnight.Unix()-time.Date(1, 1, 1, 0, 0, 0, 0, time.UTC).Unix(), 86400)
	return n, n == second
}

func refUsOfDay(t time.Time) int64 {
	return int64(t.Hour())*3600000000 + int64(t.Minute())*60000000 + int64(t.Second())*1000000 + int64(t.Nanosecond()/1000)
}

// refTick: nearest 1/300 s tick of a microsecond count.
func refTick(us int64) int64 { return (us*3 + 5000) / 10000 }

const refDay1900 = 693595 // refDays(1900,1,1)

// ---------------------------------------------------------------------------------------
// reference encoder: the TDS 5.0 layout of a value of the type's domain

func refEncode(t asetypes.DataType, l int64, v interface{}) ([]byte, bool) {
	le := binary.LittleEndian
	switch x := v.(type) {
	case uint8:
		return []byte{x}, true
	case int16:
		b := make([]byte, 2)
		le.PutUint16(b, uint16(x))
		return b, true
	case uint16:
		b := make([]byte, 2)
		le.PutUint16(b, x)
		return b, true
	case int32:
		b := make([]byte, 4)
		le.PutUint32(b, uint32(x))
		return b, true
	case uint32:
		b := make([]byte, 4)
		le.PutUint32(b, x)
		return b, true
	case int64:
		b := make([]byte, 8)
		le.PutUint64(b, uint64(x))
		return b, true
	case uint64:
		b := make([]byte, 8)
		le.PutUint64(b, x)
		return b, true
	case float32:
		b := make([]byte, 4)
		le.PutUint32(b, math.Float32bits(x))
		return b, true
	case float64:
		b := make([]byte, 8)
		le.PutUint64(b, math.Float64bits(x))
		return b, true
	case bool:
		if x {
			return []byte{1}, true
		}
		return []byte{0}, true
	case []byte:
		return x, true
	case string:
		if t == asetypes.UNITEXT {
			var b []byte
			for _, u := range utf16.Encode([]rune(x)) {
				b = append(b, byte(u), byte(u>>8))
			}
			return b, true
		}
		return []byte(x), true
	case *asetypes.Decimal:
		i := decIntPure(x)
		switch t {
		case asetypes.MONEY, asetypes.SHORTMONEY, asetypes.MONEYN:
			// two's complement of the count; high word first
			m := new(big.Int).And(i, new(big.Int).SetUint64(math.MaxUint64)) // i mod 2^64 (big.Int And is two's complement)
			u := m.Uint64()
			if l == 4 {
				b := make([]byte, 4)
				le.PutUint32(b, uint32(u))
				return b, true
			}
			b := make([]byte, 8)
			le.PutUint32(b[0:], uint32(u>>32))
			le.PutUint32(b[4:], uint32(u))
			return b, true
		}
		// numeric: sign byte, big-endian magnitude without leading zeros (via the hex text of |i|)
		h := new(big.Int).Abs(i).Text(16)
		if h == "0" {
			h = ""
		}
		if len(h)%2 == 1 {
			h = "0" + h
		}
		mag, err := hex.DecodeString(h)
		if err != nil {
			return nil, false
		}
		sign := byte(0)
		if i.Sign() < 0 {
			sign = 1
		}
		return append([]byte{sign}, mag...), true
	case time.Time:
		days, ok := refDaysOf(x)
		if !ok {
			return nil, false
		}
		us := refUsOfDay(x)
		switch t {
		case asetypes.DATE, asetypes.DATEN:
			b := make([]byte, 4)
			le.PutUint32(b, uint32(int32(days-refDay1900)))
			return b, true
		case asetypes.TIME, asetypes.TIMEN:
			b := make([]byte, 4)
			le.PutUint32(b, uint32(refTick(us)))
			return b, true
		case asetypes.DATETIME, asetypes.SHORTDATE, asetypes.DATETIMEN:
			if l == 4 {
				b := make([]byte, 4)
				le.PutUint16(b[0:], uint16(days-refDay1900))
				le.PutUint16(b[2:], uint16(us/60000000))
				return b, true
			}
			b := make([]byte, 8)
			le.PutUint32(b[0:], uint32(int32(days-refDay1900)))
			le.PutUint32(b[4:], uint32(refTick(us)))
			return b, true
		case asetypes.BIGDATETIMEN:
			b := make([]byte, 8)
			le.PutUint64(b, uint64((days-refDays(0, 1, 1))*86400000000+us))
			return b, true
		case asetypes.BIGTIMEN:
			b := make([]byte, 8)
			le.PutUint64(b, uint64(us))
			return b, true
		}
	}
	return nil, false
}

func refTime(days int64, ns int64) time.Time {
	days += floorDiv(ns, 86400000000000)
	ns -= floorDiv(ns, 86400000000000) * 86400000000000
	y, m, d := refCivil(days)
	return time.Date(int(y), time.Month(m), int(d), 0, 0, 0, 0, time.UTC).Add(time.Duration(ns))
}

// refDecode: the value a conforming server means by these bytes; ok=false when the bytes are outside the
// documented domain of the type (then the property says nothing). `tick` > 0: the answer is the exact instant of
// a tick count and the implementation may answer any instant whose nearest tick it is.
func refDecode(t asetypes.DataType, bs []byte) (v interface{}, tickNs int64, ok bool) {
	le := binary.LittleEndian
	n := len(bs)
	switch t {
	case asetypes.INT1:
		if n == 1 {
			return bs[0], 0, true
		}
	case asetypes.INT2:
		if n == 2 {
			return int16(le.Uint16(bs)), 0, true
		}
	case asetypes.INT4:
		if n == 4 {
			return int32(le.Uint32(bs)), 0, true
		}
	case asetypes.INT8:
		if n == 8 {
			return int64(le.Uint64(bs)), 0, true
		}
	case asetypes.UINT2:
		if n == 2 {
			return le.Uint16(bs), 0, true
		}
	case asetypes.UINT4:
		if n == 4 {
			return le.Uint32(bs), 0, true
		}
	case asetypes.UINT8:
		if n == 8 {
			return le.Uint64(bs), 0, true
		}
	case asetypes.INTN:
		switch n {
		case 1:
			return bs[0], 0, true
		case 2:
			return int16(le.Uint16(bs)), 0, true
		case 4:
			return int32(le.Uint32(bs)), 0, true
		case 8:
			return int64(le.Uint64(bs)), 0, true
		}
	case asetypes.UINTN:
		switch n {
		case 1:
			return bs[0], 0, true
		case 2:
			return le.Uint16(bs), 0, true
		case 4:
			return le.Uint32(bs), 0, true
		case 8:
			return le.Uint64(bs), 0, true
		}
	case asetypes.FLT4:
		if n == 4 {
			return math.Float32frombits(le.Uint32(bs)), 0, true
		}
	case asetypes.FLT8:
		if n == 8 {
			return math.Float64frombits(le.Uint64(bs)), 0, true
		}
	case asetypes.FLTN:
		if n == 4 {
			return math.Float32frombits(le.Uint32(bs)), 0, true
		}
		if n == 8 {
			return math.Float64frombits(le.Uint64(bs)), 0, true
		}
	case asetypes.BIT:
		if n == 1 && bs[0] <= 1 {
			return bs[0] == 1, 0, true
		}
	case asetypes.BINARY, asetypes.VARBINARY, asetypes.LONGBINARY, asetypes.IMAGE, asetypes.XML:
		if n >= 1 {
			return bs, 0, true
		}
	case asetypes.CHAR, asetypes.VARCHAR, asetypes.LONGCHAR, asetypes.TEXT:
		if n >= 1 {
			return string(bs), 0, true
		}
	case asetypes.UNITEXT:
		if n >= 2 && n%2 == 0 {
			u := make([]uint16, n/2)
			for i := range u {
				u[i] = le.Uint16(bs[2*i:])
			}
			// well-formed UTF-16 without a trailing NUL only
			rs := utf16.Decode(u)
			back := utf16.Encode(rs)
			if len(back) != len(u) || rs[len(rs)-1] == 0 {
				return nil, 0, false
			}
			for i := range u {
				if back[i] != u[i] {
					return nil, 0, false
				}
			}
			return string(rs), 0, true
		}
	case asetypes.MONEY, asetypes.SHORTMONEY, asetypes.MONEYN:
		if n == 8 && t != asetypes.SHORTMONEY {
			c := int64(uint64(le.Uint32(bs[0:]))<<32 | uint64(le.Uint32(bs[4:])))
			d, _ := asetypes.NewDecimal(asetypes.ASEMoneyPrecision, asetypes.ASEMoneyScale)
			decInstallPure(d, big.NewInt(c))
			return d, 0, true
		}
		if n == 4 && t != asetypes.MONEY {
			d, _ := asetypes.NewDecimal(asetypes.ASEShortMoneyPrecision, asetypes.ASEShortMoneyScale)
			decInstallPure(d, big.NewInt(int64(int32(le.Uint32(bs)))))
			return d, 0, true
		}
	case asetypes.DECN, asetypes.NUMN:
		if n >= 1 && bs[0] <= 1 && n <= 34 {
			i, _ := new(big.Int).SetString("0"+hex.EncodeToString(bs[1:]), 16)
			if bs[0] == 1 {
				i.Neg(i)
			}
			d, _ := asetypes.NewDecimal(asetypes.ASEDecimalDefaultPrecision, asetypes.ASEDecimalDefaultScale)
			decInstallPure(d, i)
			return d, 0, true
		}
	case asetypes.DATE, asetypes.DATEN:
		if n == 4 {
			days := int64(int32(le.Uint32(bs))) + refDay1900
			if days >= 0 && days < 3652059 {
				return refTime(days, 0), 0, true
			}
		}
	case asetypes.TIME, asetypes.TIMEN:
		if n == 4 {
			k := int64(int32(le.Uint32(bs)))
			if k >= 0 && k < 25920000 {
				return time.Time{}, 1, true // exact instant k/300 s: checked by tick below
			}
		}
	case asetypes.DATETIME, asetypes.SHORTDATE, asetypes.DATETIMEN:
		if n == 4 && t != asetypes.DATETIME {
			days, mins := int64(le.Uint16(bs[0:])), int64(le.Uint16(bs[2:]))
			if mins < 1440 {
				return refTime(days+refDay1900, mins*60000000000), 0, true
			}
		}
		if n == 8 && t != asetypes.SHORTDATE {
			days := int64(int32(le.Uint32(bs[0:]))) + refDay1900
			k := int64(le.Uint32(bs[4:]))
			if days >= 0 && days < 3652059 && k < 25920000 {
				return refTime(days, 0), 1, true
			}
		}
	case asetypes.BIGDATETIMEN:
		if n == 8 {
			us := le.Uint64(bs)
			days := int64(us/86400000000) + refDays(0, 1, 1)
			if days >= 0 && days < 3652059 {
				return refTime(days, int64(us%86400000000)*1000), 0, true
			}
		}
	case asetypes.BIGTIMEN:
		if n == 8 {
			us := le.Uint64(bs)
			if us < 86400000000 {
				return refTime(0, int64(us)*1000), 0, true
			}
		}
	}
	return nil, 0, false
}

// tick count carried by TIME / DATETIME bytes (for the nearest-tick comparison)
func refTickOfBytes(t asetypes.DataType, bs []byte) int64 {
	if len(bs) == 4 {
		return int64(int32(binary.LittleEndian.Uint32(bs)))
	}
	return int64(binary.LittleEndian.Uint32(bs[4:]))
}

// ---------------------------------------------------------------------------------------
// documentation vectors: line -> expected answer

var c05Vectors = map[string]string{
	// epochs
	"cal epochs": "t:1-1-1-0-0-0-0 t:1900-1-1-0-0-0-0 t:1753-1-1-9-9-9-9",
	// date / datetime: 1900-01-01 -> 0, 1753-01-01 -> -53690, 0001-01-01 -> -693595, 9999-12-31 -> 2958463
	"val enc 31 4 t:1900-1-1-0-0-0-0":              "ok 00000000",
	"val enc 31 4 t:1753-1-1-0-0-0-0":              "ok 462effff",
	"val enc 31 4 t:1-1-1-0-0-0-0":                 "ok a56af5ff",
	"val enc 31 4 t:9999-12-31-0-0-0-0":            "ok 7f242d00",
	"val dec 31 00000000":                          "ok t:1900-1-1-0-0-0-0",
	"val dec 31 462effff":                          "ok t:1753-1-1-0-0-0-0",
	"val dec 31 7f242d00":                          "ok t:9999-12-31-0-0-0-0",
	"val enc 3d 8 t:1900-1-1-0-0-0-0":              "ok 0000000000000000",
	"val enc 3d 8 t:1753-1-1-0-0-0-0":              "ok 462effff00000000",
	"val enc 3d 8 t:1900-1-1-0-0-1-0":              "ok 000000002c010000", // one second = 300 ticks
	"val enc 3d 8 t:9999-12-31-23-59-59-996000000": "ok 7f242d00ff818b01",
	"val enc 3d 8 t:1899-12-31-12-0-0-0":           "ok ffffffff00c1c500", // day -1, tick 12 960 000
	"val dec 3d ffffffff00c1c500":                  "ok t:1899-12-31-12-0-0-0",
	// smalldatetime: 1900-01-01 00:00 -> 0 0; 2079-06-06 23:59 -> 65535 1439
	"val enc 3a 4 t:1900-1-1-0-0-0-0":   "ok 00000000",
	"val enc 3a 4 t:2079-6-6-23-59-0-0": "ok ffff9f05",
	"val dec 3a ffff9f05":               "ok t:2079-6-6-23-59-0-0",
	// time: midnight 0, 12:00 -> 12 960 000, last tick 25 919 999
	"val enc 33 4 t:1-1-1-0-0-0-0":  "ok 00000000",
	"val enc 33 4 t:1-1-1-12-0-0-0": "ok 00c1c500",
	"val dec 33 ff818b01":           "ok t:1-1-1-23-59-59-996000000",
	// bigdatetime: microseconds since 0000-01-01 (0001-01-01 = 366 days); bigtime: microseconds since midnight
	"val enc bb 8 t:1-1-1-0-0-0-0":            "ok 0040eba9c21c0000", // 366*86400000000 = 31622400000000 = 0x1cc2a9eb4000
	"val dec bb 0040eba9c21c0000":             "ok t:1-1-1-0-0-0-0",
	"val enc bc 8 t:1-1-1-0-0-0-1000":         "ok 0100000000000000",
	"val enc bc 8 t:1-1-1-23-59-59-999999000": "ok ff5fd71d14000000", // 86399999999
	"cal dfd 1 1 1 0 0 0 0":                   "31622400000000",
	"cal t2us 1 1 1 0 0 0 0":                  "31622400000000",
	"cal us2t 31622400000000":                 "t:1-1-1-0-0-0-0",
	"cal dfd 1900 1 1 0 0 0 0":                "59958230400000000",
	// integers: type minima / maxima, little-endian two's complement
	"val enc 30 1 u8:255":                   "ok ff",
	"val enc 34 2 i16:-32768":               "ok 0080",
	"val enc 34 2 i16:32767":                "ok ff7f",
	"val enc 38 4 i32:-2147483648":          "ok 00000080",
	"val enc 38 4 i32:2147483647":           "ok ffffff7f",
	"val enc 38 4 i32:1":                    "ok 01000000",
	"val enc bf 8 i64:-9223372036854775808": "ok 0000000000000080",
	"val enc bf 8 i64:9223372036854775807":  "ok ffffffffffffff7f",
	"val enc 43 8 u64:18446744073709551615": "ok ffffffffffffffff",
	"val dec 38 feffffff":                   "ok i32:-2",
	// floats: 1.0
	"val enc 3b 4 f32:1065353216":          "ok 0000803f",
	"val enc 3e 8 f64:4607182418800017408": "ok 000000000000f03f",
	// money: 1.0000 -> high word 0, low word 10000; -0.0001 -> all ones; minima / maxima
	"val enc 3c 8 dec:10000:20:4":                "ok 0000000010270000",
	"val enc 3c 8 dec:-1:20:4":                   "ok ffffffffffffffff",
	"val enc 3c 8 dec:9223372036854775807:20:4":  "ok ffffff7fffffffff",
	"val enc 3c 8 dec:-9223372036854775808:20:4": "ok 0000008000000000",
	"val enc 3c 8 dec:4294967296:20:4":           "ok 0100000000000000",
	"val dec 3c 0100000000000000":                "ok dec:4294967296:20:4",
	"val enc 7a 4 dec:-2147483648:10:4":          "ok 00000080",
	"val enc 7a 4 dec:2147483647:10:4":           "ok ffffff7f",
	// numeric: sign byte + big-endian magnitude
	"val enc 6c 0 dec:1:1:0":      "ok 0001",
	"val enc 6c 0 dec:-1:1:0":     "ok 0101",
	"val enc 6c 0 dec:256:5:0":    "ok 000100",
	"val enc 6c 0 dec:-65535:5:0": "ok 01ffff",
	"val dec 6c 01ffff":           "ok dec:-65535:18:0",
	"val enc 6a 0 dec:99999999999999999999999999999999999999:38:0": "ok 004b3b4ca85a86c47a098a223fffffffff",
	// unitext: UTF-16LE
	"val enc ae 0 str:41":       "ok 4100",
	"val enc ae 0 str:4142":     "ok 41004200",
	"val enc ae 0 str:e697a5":   "ok e565",     // U+65E5
	"val enc ae 0 str:f09f9880": "ok 3dd800de", // U+1F600 = D83D DE00
	"val dec ae 41004200":       "ok str:4142",
	"val dec ae e565":           "ok str:e697a5",
}

// ---------------------------------------------------------------------------------------
// oracle

func c05Oracle(line, out string) string {
	if want, ok := c05Vectors[line]; ok {
		if out != want {
			return "documentation vector: " + line + " must answer " + want
		}
		return ""
	}
	f := strings.Fields(line)
	if out == "bad-op" || len(f) < 2 {
		return ""
	}
	if out == "enc-mutates-value" || out == "enc-not-repeatable" {
		return "the bytes produced for a value are the prescribed ones every time the value is encoded (encoding does not change the value)"
	}
	if strings.HasPrefix(out, "enc-depends-on-location") {
		return valClauseZone
	}
	if out == "enc-result-overwritten" {
		return valClauseOwn
	}
	if f[0] == "cal" {
		return c05CalOracle(f, out)
	}
	if f[0] != "val" || len(f) < 4 {
		return ""
	}
	t, ok := valType(f[2])
	if !ok || !valInProperty(t) {
		return ""
	}
	switch f[1] {
	case "enc":
		if len(f) != 5 {
			return ""
		}
		l, _ := valInt(f[3], 64)
		if f[4] == "null" {
			if out != "ok -" {
				return "NULL is sent as zero length"
			}
			return ""
		}
		_, inDom := valDomain[t][valTokKind(f[4])]
		v, okv := valParsePure(f[4])
		if !inDom || !okv || !valLenOK(t, l, v) || !valValueInDomain(t, l, v) {
			return ""
		}
		want, okr := refEncode(t, l, v)
		if !okr {
			return "reference codec: own calendar and Go's time package disagree on the day number"
		}
		if out != "ok "+hx(want) {
			return "the bytes produced for a value are the ones TDS 5.0 prescribes (" + c05Family(t) + ")"
		}
	case "dec":
		bs := unhx(f[3])
		if bs == nil {
			return ""
		}
		want, tick, okr := refDecode(t, bs)
		if !okr {
			return ""
		}
		clause := "bytes a conforming server produces decode to the value the server meant (" + c05Family(t) + ")"
		if !strings.HasPrefix(out, "ok ") {
			return clause
		}
		got, okg := valParsePure(out[3:])
		if !okg {
			return clause
		}
		switch w := want.(type) {
		case *asetypes.Decimal:
			g, okd := got.(*asetypes.Decimal)
			if !okd || decIntPure(g) == nil || decIntPure(g).Cmp(decIntPure(w)) != 0 {
				return clause
			}
			if t != asetypes.DECN && t != asetypes.NUMN && (g.Precision != w.Precision || g.Scale != w.Scale) {
				return clause
			}
		case time.Time:
			g, okt := got.(time.Time)
			if !okt {
				return clause
			}
			if tick == 0 {
				if !g.Equal(w) {
					return clause
				}
				return ""
			}
			// w = midnight of the day (year-1 epoch for TIME); the instant is k/300 s after it:
			// the implementation may answer any instant whose nearest tick is k
			k := refTickOfBytes(t, bs)
			if t == asetypes.TIME || t == asetypes.TIMEN {
				w = valDay1
			}
			d := nsSince(g, w) // ns after midnight
			if d.Sign() < 0 || !d.IsInt64() || refTick(d.Int64()/1000) != k || d.Int64() >= 86400000000000 {
				return clause
			}
		default:
			if valShow(want) != out[3:] {
				return clause
			}
		}
	}
	return ""
}

func c05Family(t asetypes.DataType) string {
	switch t {
	case asetypes.INT1, asetypes.INT2, asetypes.INT4, asetypes.INT8, asetypes.INTN, asetypes.UINT2, asetypes.UINT4, asetypes.UINT8, asetypes.UINTN:
		return "little-endian two's complement integers"
	case asetypes.FLT4, asetypes.FLT8, asetypes.FLTN:
		return "IEEE floats"
	case asetypes.MONEY, asetypes.SHORTMONEY, asetypes.MONEYN:
		return "money as high word then low word of a 1/10000 count"
	case asetypes.DECN, asetypes.NUMN:
		return "numeric as sign byte plus big-endian magnitude"
	case asetypes.DATE, asetypes.DATEN:
		return "dates as days since 1900-01-01"
	case asetypes.TIME, asetypes.TIMEN:
		return "times as 1/300 s ticks since midnight"
	case asetypes.DATETIME, asetypes.DATETIMEN:
		return "datetime as days since 1900-01-01 and 1/300 s ticks"
	case asetypes.SHORTDATE:
		return "smalldatetime as days and minutes"
	case asetypes.BIGDATETIMEN:
		return "bigdatetime as microseconds since 0000-01-01"
	case asetypes.BIGTIMEN:
		return "bigtime as microseconds since midnight"
	case asetypes.UNITEXT:
		return "unitext as UTF-16LE"
	}
	return "binary / character data as is"
}

func c05CalOracle(f []string, out string) string {
	canon := func(a []int64) bool { // a valid calendar date of the years 1..9999 with a valid time of day
		if a[0] < 1 || a[0] > 9999 || a[1] < 1 || a[1] > 12 || a[2] < 1 || a[3] < 0 || a[3] > 23 ||
			a[4] < 0 || a[4] > 59 || a[5] < 0 || a[5] > 59 || a[6] < 0 || a[6] > 999999999 {
			return false
		}
		return a[2] <= int64(valDaysIn(int(a[0]), int(a[1])))
	}
	switch {
	case (f[1] == "dfd" || f[1] == "t2us") && len(f) == 9:
		a, ok := calInts(f[2:], 1<<62)
		if !ok || !canon(a) {
			return ""
		}
		days, agree := refDaysOf(calDate(a))
		if !agree {
			return "reference calendar and Go's time package disagree on the day number"
		}
		want := (days-refDays(0, 1, 1))*86400000000 + a[3]*3600000000 + a[4]*60000000 + a[5]*1000000 + a[6]/1000
		if out != fmt.Sprint(want) {
			return "the calendar helpers count microseconds since 0000-01-01 of the proleptic Gregorian calendar"
		}
	case f[1] == "dft" && len(f) == 9:
		a, ok := calInts(f[2:], 1<<62)
		if !ok || !canon(a) {
			return ""
		}
		if out != fmt.Sprint(a[3]*3600000000+a[4]*60000000+a[5]*1000000+a[6]/1000) {
			return "DurationFromTime is the microsecond of the day"
		}
	case f[1] == "us2t" && len(f) == 3:
		n, ok := valNat(f[2], 64)
		if !ok {
			return ""
		}
		days := int64(n/86400000000) + refDays(0, 1, 1)
		if days < 0 || days >= 3652059 {
			return ""
		}
		want := refTime(days, int64(n%86400000000)*1000)
		second := time.Date(0, 1, 1, 0, 0, 0, 0, time.UTC).AddDate(0, 0, int(n/86400000000)).Add(time.Duration(n%86400000000) * time.Microsecond)
		if !want.Equal(second) {
			return "reference calendar and Go's time package disagree"
		}
		if out != valShowTime(want) {
			return "MicrosecondsToTime is the inverse of TimeToMicroseconds (proleptic Gregorian calendar)"
		}
	case f[1] == "f2ms" && len(f) == 3:
		a, ok := calInts(f[2:], 1<<40)
		if !ok {
			return ""
		}
		// exact: n*1000/300 truncated toward zero, in milliseconds -> microseconds
		q := new(big.Int).Quo(big.NewInt(a[0]*1000), big.NewInt(300)) // Quo truncates toward zero
		if out != new(big.Int).Mul(q, big.NewInt(1000)).String() {
			return "the float64 tick-to-millisecond conversion equals the exact one"
		}
	case f[1] == "ms2f" && len(f) == 3:
		a, ok := calInts(f[2:], 1<<40)
		if !ok {
			return ""
		}
		if out != fmt.Sprint(c05RoundHalfAway(a[0])) {
			return "the float64 microsecond-to-tick conversion equals the exact rounding"
		}
	case (f[1] == "sumf2ms" || f[1] == "summs2f" || f[1] == "summs2fb") && len(f) == 4:
		lo, ok := valInt(f[2], 64)
		n, ok1 := valNat(f[3], 40)
		if !ok || !ok1 || lo > 1<<40 || lo < -(1<<40) {
			return ""
		}
		sum := new(big.Int)
		for k := int64(0); k < int64(n); k++ {
			x := lo + k
			var v int64
			switch f[1] {
			case "sumf2ms":
				v = new(big.Int).Quo(big.NewInt(x*1000), big.NewInt(300)).Int64() * 1000
			case "summs2f":
				v = c05RoundHalfAway(x)
			default:
				s0 := floorDiv(10000*x+5000, 3)
				v = c05RoundHalfAway(s0-1) + 3*c05RoundHalfAway(s0) + 5*c05RoundHalfAway(s0+1) + 7*c05RoundHalfAway(s0+2)
			}
			sum.Add(sum, big.NewInt(v))
		}
		if out != sum.String() {
			return "the float64 tick conversions equal the exact ones over the whole range"
		}
	}
	return ""
}

// c05RoundHalfAway: round(3s/10000), half away from zero, exactly.
func c05RoundHalfAway(s int64) int64 {
	if s >= 0 {
		return (6*s + 10000) / 20000
	}
	return -((6*(-s) + 10000) / 20000)
}

// ---------------------------------------------------------------------------------------
// generator

func c05Gen(tier string, rng *rand.Rand, emit func(Case)) {
	thorough := tier == "thorough"
	// documentation vectors
	for l := range c05Vectors {
		emit(Case{Line: l, Kind: "doc-vector"})
	}
	// encode direction on the C04 value domains; decode direction on the reference encoding of the same values
	valEachValue(tier, rng, func(t asetypes.DataType, l int64, tok, kind string) {
		emit(Case{Line: fmt.Sprintf("val enc %02x %d %s", byte(t), l, tok), Kind: "enc-" + kind})
		if v, ok := valParsePure(tok); ok && valValueInDomain(t, l, v) {
			if kind == "int16" || kind == "date" { // dense families: decode a part
				if rng.Intn(4) != 0 {
					return
				}
			}
			if bs, ok := refEncode(t, l, v); ok {
				emit(Case{Line: fmt.Sprintf("val dec %02x %s", byte(t), hx(bs)), Kind: "dec-" + kind})
			}
		}
	})
	// decode direction: random bytes of the proper size for the fixed-size layouts
	nRand := 1500
	if thorough {
		nRand = 100000
	}
	sized := []struct {
		t asetypes.DataType
		n int
	}{{asetypes.INT4, 4}, {asetypes.INT8, 8}, {asetypes.INTN, 4}, {asetypes.UINTN, 8}, {asetypes.FLT8, 8}, {asetypes.FLTN, 4},
		{asetypes.MONEY, 8}, {asetypes.MONEYN, 8}, {asetypes.MONEYN, 4}, {asetypes.SHORTMONEY, 4}, {asetypes.DATE, 4}, {asetypes.DATEN, 4},
		{asetypes.TIME, 4}, {asetypes.TIMEN, 4}, {asetypes.DATETIME, 8}, {asetypes.DATETIMEN, 8}, {asetypes.DATETIMEN, 4}, {asetypes.SHORTDATE, 4},
		{asetypes.BIGDATETIMEN, 8}, {asetypes.BIGTIMEN, 8}, {asetypes.DECN, 5}, {asetypes.NUMN, 17}, {asetypes.UNITEXT, 6}}
	for k := 0; k < nRand; k++ {
		for _, s := range sized {
			b := make([]byte, s.n)
			rng.Read(b)
			switch s.t { // steer into the documented ranges
			case asetypes.DATE, asetypes.DATEN:
				binary.LittleEndian.PutUint32(b, uint32(int32(rng.Intn(3652059)-refDay1900)))
			case asetypes.TIME, asetypes.TIMEN:
				binary.LittleEndian.PutUint32(b, uint32(rng.Intn(25920000)))
			case asetypes.DATETIME, asetypes.DATETIMEN, asetypes.SHORTDATE:
				if s.n == 8 {
					binary.LittleEndian.PutUint32(b, uint32(int32(rng.Intn(3652059)-refDay1900)))
					binary.LittleEndian.PutUint32(b[4:], uint32(rng.Intn(25920000)))
				} else {
					binary.LittleEndian.PutUint16(b[2:], uint16(rng.Intn(1440)))
				}
			case asetypes.BIGDATETIMEN:
				binary.LittleEndian.PutUint64(b, uint64(366+rng.Int63n(3652059))*86400000000+uint64(rng.Int63n(86400000000)))
			case asetypes.BIGTIMEN:
				binary.LittleEndian.PutUint64(b, uint64(rng.Int63n(86400000000)))
			case asetypes.DECN, asetypes.NUMN:
				b[0] = byte(rng.Intn(2))
				if b[1] == 0 {
					b[1] = 1
				}
			case asetypes.UNITEXT:
				for i := 0; i+1 < len(b); i += 2 { // BMP, no surrogates, no NUL
					u := uint16(1 + rng.Intn(0xd7ff))
					binary.LittleEndian.PutUint16(b[i:], u)
				}
			}
			emit(Case{Line: fmt.Sprintf("val dec %02x %s", byte(s.t), hx(b)), Kind: "dec-random"})
		}
	}
	// calendar helpers: every month boundary of sampled years, epoch neighbourhoods, random instants
	years := []int{1, 2, 3, 4, 5, 99, 100, 101, 399, 400, 401, 1582, 1752, 1753, 1899, 1900, 1901, 1969, 1970, 1999, 2000, 2001, 2023, 2024, 2038,
		2079, 2080, 2100, 2400, 9995, 9996, 9997, 9998, 9999}
	ny := 40
	if thorough {
		ny = 3000
	}
	for k := 0; k < ny; k++ {
		years = append(years, 1+rng.Intn(9999))
	}
	for _, y := range years {
		for m := 1; m <= 12; m++ {
			for _, d := range []int{1, valDaysIn(y, m)} {
				tods := [][4]int{{0, 0, 0, 0}, {23, 59, 59, 999999999}, {rng.Intn(24), rng.Intn(60), rng.Intn(60), rng.Intn(1000000000)}}
				if d == 1 && (m == 1 || m == 7) {
					// every part of the time of day zero while the others are not (a helper that adds the parts
					// one by one under "if part != 0" has a branch per combination)
					tods = append(tods, [][4]int{{0, 0, 0, 1000}, {0, 0, 0, 500000000}, {0, 0, 0, 999999000}, {0, 0, 1, 0}, {0, 1, 0, 0}, {1, 0, 0, 0},
						{0, 0, 59, 1000}, {0, 59, 0, 1000}, {23, 0, 0, 1000}, {0, 59, 59, 0}, {23, 59, 0, 0}, {23, 0, 59, 999999000}}...)
				}
				for _, tod := range tods {
					args := fmt.Sprintf("%d %d %d %d %d %d %d", y, m, d, tod[0], tod[1], tod[2], tod[3])
					emit(Case{Line: "cal dfd " + args, Kind: "cal-dfd"})
					emit(Case{Line: "cal t2us " + args, Kind: "cal-t2us"})
					if m == 1 {
						emit(Case{Line: "cal dft " + args, Kind: "cal-dft"})
					}
					// inverse direction on the exact microsecond count
					days := refDays(int64(y), int64(m), int64(d)) - refDays(0, 1, 1)
					us := days*86400000000 + int64(tod[0])*3600000000 + int64(tod[1])*60000000 + int64(tod[2])*1000000 + int64(tod[3]/1000)
					emit(Case{Line: fmt.Sprintf("cal us2t %d", us), Kind: "cal-us2t"})
				}
			}
		}
	}
	nCal := 2000
	if thorough {
		nCal = 300000
	}
	for k := 0; k < nCal; k++ {
		days := rng.Int63n(3652059) + 366
		emit(Case{Line: fmt.Sprintf("cal us2t %d", days*86400000000+rng.Int63n(86400000000)), Kind: "cal-us2t"})
		// Go's time.Date normalisation / AddDate / Add against the model's own calendar (trusted-base tie)
		emit(Case{Line: fmt.Sprintf("cal date %d %d %d %d %d %d %d", rng.Intn(30000)-10000, rng.Intn(60)-24, rng.Intn(800)-400,
			rng.Intn(200)-100, rng.Intn(400)-200, rng.Intn(400)-200, rng.Int63n(4000000000)-2000000000), Kind: "cal-date"})
		emit(Case{Line: fmt.Sprintf("cal date %d %d %d %d %d %d %d", rng.Intn(400000)-200000, 1+rng.Intn(12), 1+rng.Intn(31),
			rng.Intn(24), rng.Intn(60), rng.Intn(60), rng.Intn(1000000000)), Kind: "cal-date"})
		emit(Case{Line: fmt.Sprintf("cal adddays %d %d %d 0 0 0 0 %d", 1+rng.Intn(9999), 1+rng.Intn(12), 1+rng.Intn(28), rng.Int63n(8000000)-4000000), Kind: "cal-adddays"})
		emit(Case{Line: fmt.Sprintf("cal add %d %d %d %d %d %d %d %d", 1+rng.Intn(9999), 1+rng.Intn(12), 1+rng.Intn(28), rng.Intn(24), rng.Intn(60), rng.Intn(60),
			rng.Intn(1000000000), rng.Int63n(2000000000000000000)-1000000000000000000), Kind: "cal-add"})
		emit(Case{Line: fmt.Sprintf("cal units %d", rng.Int63n(1<<62)-(1<<61)), Kind: "cal-units"})
		emit(Case{Line: fmt.Sprintf("cal dfd %d %d %d %d %d %d %d", rng.Intn(300000)-100000, 1+rng.Intn(12), 1+rng.Intn(28),
			rng.Intn(24), rng.Intn(60), rng.Intn(60), rng.Intn(1000000000)), Kind: "cal-dfd-wide"})
	}
	for _, n := range []int64{0, 1, -1, 86399999999, 86400000000, 86400000001, -86400000000, -86399999999, -86400000001, 1000, 999, -999, -1000, 59999999, 60000000, -60000000, -60000001} {
		emit(Case{Line: fmt.Sprintf("cal units %d", n), Kind: "cal-units"})
	}
	// the two float64 conversions against the exact arithmetic: boundaries, random, sums over ranges
	for _, n := range []int64{0, 1, 2, 3, 4, 299, 300, 301, -1, -2, -3, -300, 25919999, 25920000, 2147483647, -2147483648, 4294967295, 1 << 40, -(1 << 40)} {
		emit(Case{Line: fmt.Sprintf("cal f2ms %d", n), Kind: "cal-f2ms"})
	}
	for _, n := range []int64{0, 1, 1666, 1667, 3333, 3334, 4999, 5000, 5001, 8333, 8334, -1, -1666, -1667, -5000, -5001, 86399998333, 86399998334, 86399999999,
		-86399999999, 1 << 40, -(1 << 40)} {
		emit(Case{Line: fmt.Sprintf("cal ms2f %d", n), Kind: "cal-ms2f"})
	}
	for k := 0; k < nCal; k++ {
		emit(Case{Line: fmt.Sprintf("cal f2ms %d", rng.Int63n(1<<33)-(1<<32)), Kind: "cal-f2ms"})
		emit(Case{Line: fmt.Sprintf("cal ms2f %d", rng.Int63n(2*86400000000)-86400000000), Kind: "cal-ms2f"})
		// around a rounding boundary 3s/10000 = k + 1/2
		kk := rng.Int63n(2*25920000) - 25920000
		s0 := floorDiv(10000*kk+5000, 3)
		emit(Case{Line: fmt.Sprintf("cal ms2f %d", s0+int64(rng.Intn(4))-1), Kind: "cal-ms2f-boundary"})
	}
	// sweeps: quick = a few windows; thorough = every tick of a day and every rounding boundary of a day
	chunk := int64(20000)
	if thorough {
		chunk = 200000
		for lo := int64(0); lo < 25920000; lo += chunk {
			emit(Case{Line: fmt.Sprintf("cal sumf2ms %d %d", lo, chunk), Kind: "sweep-f2ms"})
			emit(Case{Line: fmt.Sprintf("cal summs2fb %d %d", lo, chunk), Kind: "sweep-ms2f-boundaries"})
		}
		for lo := int64(0); lo < 86400000; lo += chunk { // every millisecond of a day, in microseconds: sampled windows
			emit(Case{Line: fmt.Sprintf("cal summs2f %d %d", lo*1000, chunk), Kind: "sweep-ms2f"})
		}
	} else {
		for _, lo := range []int64{0, 12960000 - 10000, 25920000 - chunk, -chunk / 2} {
			emit(Case{Line: fmt.Sprintf("cal sumf2ms %d %d", lo, chunk), Kind: "sweep-f2ms"})
			emit(Case{Line: fmt.Sprintf("cal summs2fb %d %d", lo, chunk), Kind: "sweep-ms2f-boundaries"})
			emit(Case{Line: fmt.Sprintf("cal summs2f %d %d", lo*3333, chunk), Kind: "sweep-ms2f"})
		}
	}
	_ = utf8.RuneError
}

func init() {
	register(&Prop{
		ID:         "C05",
		Gen:        c05Gen,
		Impl:       valuesImpl,
		Oracle:     c05Oracle,
		FindingKey: valFindingKey,
		Nontrivial: valNontrivial,
		NoShrink:   true,
		Timeout:    300 * time.Second,
		Rule:       "documentation vectors (epochs 1900-01-01 -> 0, 1753-01-01 -> -53690, 0001-01-01; type minima/maxima of integers, money, smalldatetime, datetime, time, bigtime; numeric, unitext samples) with their expected bytes; encode direction: Bytes on the C04 value domains (every uint8/int16/uint16, boundary+random 32/64-bit, float bit patterns, money over int64/int32, 741 (p,s) x boundary decimals, month boundaries of the years, datetime days x boundary ticks and microseconds incl. before 1900, smalldatetime minutes, time ticks, bigtime/bigdatetime microseconds, byte and character strings, unitext over all planes) compared with the reference codec; decode direction: GoValue on the reference encoding of the same values and on random bytes steered into the documented ranges, compared with the reference decoder (ticks: the answered instant must have the sent tick as its nearest tick); calendar helpers DurationFromDateTime / TimeToMicroseconds / MicrosecondsToTime on first and last day of every month of 34 fixed + random years x {midnight, last nanosecond, random time} against own civil arithmetic with Go's time package as second opinion; time.Date normalisation, AddDate, Add, unit accessors against the model's calendar (correspondence only); the two float64 tick conversions on boundary and random arguments, around rounding boundaries, and as sums over windows (thorough: every tick 0..25919999, every rounding boundary of a day, every millisecond of a day) against exact integer arithmetic. Non-trivial = the real code produced a value (not err/panic/bad-op).",
		Assumptions: append(append([]string{}, valAssumptions...),
			"oracle: reference codec in this file; a value outside the documented domain of its type (e.g. smalldatetime after 2079-06-06, a tick count >= 25920000, ill-formed UTF-16) is outside the property and not judged",
			"the two float64 functions are judged only for |argument| <= 2^40 (the codecs call them with |argument| < 2^37); the model computes them exactly over the integers",
			"byte order: tds announces little-endian in the login record and passes binary.LittleEndian; the announced order itself is checked by the login codec machinery, not here"),
	})
}

// rule addenda (rounds 9-12): what the evidence says about the coverage of a run
func init() {
	if p := registry["C05"]; p != nil {
		p.Rule += " Calendar helpers also at times of day with every part zero while the others are not (00:00:00.000001, 00:00:01, 00:59:59 …)."
	}
}
