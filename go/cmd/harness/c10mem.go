package main

// C10, allocation clause: "they do not allocate memory out of proportion to the bytes actually received".
//   mem <inner case line>      inner = a `pkg dec …`, `val dec …` or `rdraw …` line of C10
// The inner case runs in a process of its own (address space limited to 3 GiB) which measures the
// bytes it allocates while decoding (runtime.MemStats.TotalAlloc); the answer is `mem ok` when that is
// within 4 MiB + 300 x (bytes of the case line) — the harness's own hex decoding, queue building and
// rendering included —, `mem excessive:<bytes>` otherwise, `mem crash` when the child dies (out of
// memory). Not run through the Lean model (allocation is not modelled: NoModel).

import (
	"fmt"
	"io"
	"os"
	"os/exec"
	"runtime"
	"strconv"
	"strings"
	"syscall"
	"time"
)

func memProbeChild(inner string) {
	if inner == "-" {
		b, _ := io.ReadAll(os.Stdin)
		inner = strings.TrimSpace(string(b))
	}
	// 3 GiB of address space: a parser that allocates a declared length of 4 GiB dies here
	lim := syscall.Rlimit{Cur: 3 << 30, Max: 3 << 30}
	syscall.Setrlimit(syscall.RLIMIT_AS, &lim)
	var a, b runtime.MemStats
	runtime.GC()
	runtime.ReadMemStats(&a)
	out := c10Impl(inner)
	runtime.ReadMemStats(&b)
	fmt.Printf("alloc=%d class=%s\n", b.TotalAlloc-a.TotalAlloc, strings.SplitN(out, " ", 2)[0])
}

func memImpl(line string) string {
	inner := strings.TrimPrefix(line, "mem ")
	cmd := exec.Command(os.Args[0], "-memprobe", "-") // the case travels on stdin (argv is limited to 128 KiB)
	cmd.Stdin = strings.NewReader(inner)
	cmd.Env = append(os.Environ(), "GOMEMLIMIT=off", "GOGC=100")
	done := make(chan struct{})
	var out []byte
	var err error
	go func() { out, err = cmd.Output(); close(done) }()
	select {
	case <-done:
	case <-time.After(20 * time.Second):
		if cmd.Process != nil {
			cmd.Process.Kill()
		}
		<-done
		return "mem timeout"
	}
	if err != nil {
		return "mem crash"
	}
	s := strings.TrimSpace(string(out))
	if !strings.HasPrefix(s, "alloc=") {
		return "mem crash"
	}
	n, _ := strconv.ParseUint(strings.Fields(s)[0][6:], 10, 64)
	budget := uint64(4<<20) + 300*uint64(len(inner))
	if n > budget {
		return fmt.Sprintf("mem excessive:%d", n)
	}
	return "mem ok"
}
