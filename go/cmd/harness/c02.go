package main

// Channel layer of C02, and C03 / C11: the real Channel.WritePacket / NextPackageUntil against the
// concrete Lean receive model (Model/ChanRx.lean instantiated with Model/Codec/Pkg.lean).
//
//   rx <nEed> <nEnv> <pkt> <pkt> …     pkt = b<eom>:<bodyhex> | h:<msgType>
//     -> D=[<pkg> | …] E=<channel errors> H=[<hook calls>] PS=<packet size> Q=<unread bytes>/<eom>
//   use <script> ; <pkt> …             consumer-side scenarios for C03 / C11 (see useImpl)

import (
	"context"
	"errors"
	"fmt"
	"io"
	"math/rand"
	"strconv"
	"strings"
	"sync"
	"time"

	"github.com/SAP/go-dblib/tds"
)

var goTypeKind = map[string]string{
	"*tds.DonePackage": "done", "*tds.EEDPackage": "eed", "*tds.ErrorPackage": "error", "*tds.LoginAckPackage": "loginack",
	"*tds.MsgPackage": "msg", "*tds.EnvChangePackage": "envchange", "*tds.CapabilityPackage": "capability",
	"*tds.LanguagePackage": "language", "*tds.ReturnStatusPackage": "returnstatus", "*tds.LogoutPackage": "logout",
	"*tds.DynamicPackage": "dynamic", "*tds.CurDeclarePackage": "curdeclare", "*tds.CurInfoPackage": "curinfo",
	"*tds.CurOpenPackage": "curopen", "*tds.CurFetchPackage": "curfetch", "*tds.CurUpdatePackage": "curupdate",
	"*tds.CurDeletePackage": "curdelete", "*tds.ParamFmtPackage": "paramfmt", "*tds.RowFmtPackage": "rowfmt",
	"*tds.ParamsPackage": "params", "*tds.RowPackage": "row", "*tds.OrderByPackage": "orderby", "*tds.OrderBy2Package": "orderby2",
}

// kindBase: the kind as far as the Go type tells it (narrow/wide variants and the DONE aliases
// share one Go type); the Lean rx driver canonicalises the same way
func kindBase(k string) string {
	switch k {
	case "doneproc", "doneinproc":
		return "done"
	case "dynamic2":
		return "dynamic"
	case "curdeclare3":
		return "curdeclare"
	case "curinfo3":
		return "curinfo"
	case "paramfmt2":
		return "paramfmt"
	case "rowfmt2":
		return "rowfmt"
	}
	return k
}

func showDelivered(pkg tds.Package) string {
	if h, ok := pkg.(*tds.HeaderOnlyPackage); ok {
		return fmt.Sprintf("headeronly %d", int(h.Header.MsgType))
	}
	kind, ok := goTypeKind[fmt.Sprintf("%T", pkg)]
	if !ok {
		return fmt.Sprintf("unknown:%T", pkg)
	}
	c := codecRegistry[kind]
	if c == nil {
		return "unregistered:" + kind
	}
	s := c.Show(pkg)
	f := strings.SplitN(s, " ", 2)
	f[0] = kindBase(f[0])
	return strings.Join(f, " ")
}

type rxEnv struct {
	conn  *tds.Conn
	ch    *tds.Channel
	mc    *memConn // non-nil: the packets travel over the transport and through the connection's reader goroutine
	chId  int
	mu    sync.Mutex
	hooks []string
	nEed  int
	nEnv  int
}

func newRxEnv(nEed, nEnv int) *rxEnv { return newRxEnvVia(nEed, nEnv, false) }

// newRxEnvVia: viaReader = the packets are written to an in-memory transport and reach the channel through
// the real reader goroutine (Conn.ReadFrom → Packet.ReadFrom → WritePacket) instead of WritePacket calls
func newRxEnvVia(nEed, nEnv int, viaReader bool) *rxEnv {
	info := testInfo()
	info.ChannelPackageQueueSize = 20000
	var conn *tds.Conn
	var mc *memConn
	if viaReader {
		mc = newMemConn()
		conn, _ = tds.VerifNewConn(context.Background(), mc, info, true)
	} else {
		conn, _ = tds.VerifNewConn(context.Background(), newCapConn(), info, false)
	}
	// the receive path is the same for the main channel and for logical channels: the id varies with the case
	id := (nEed + 2*nEnv) % 3
	e := &rxEnv{conn: conn, ch: conn.VerifNewChannel(id), mc: mc, chId: id}
	// the hooks of a case are registered the way a driver does it: all at once from a list the caller keeps —
	// and goes on using for something else afterwards (the channel must not go on sharing it: nothing written
	// into the caller's list later is a registered hook, and no registered hook is lost)
	if nEed > 0 {
		list := make([]tds.EEDHook, 0, nEed+4)
		for i := 0; i < nEed; i++ {
			list = append(list, e.eedHook())
		}
		e.ch.RegisterEEDHooks(list...)
		for i := range list[:cap(list)] {
			list[:cap(list)][i] = func(tds.EEDPackage) { e.note("UNREGISTERED-EED-HOOK-CALLED") }
		}
	}
	if nEnv > 0 {
		list := make([]tds.EnvChangeHook, 0, nEnv+4)
		for i := 0; i < nEnv; i++ {
			list = append(list, e.envHook())
		}
		e.ch.RegisterEnvChangeHooks(list...)
		for i := range list[:cap(list)] {
			list[:cap(list)][i] = func(tds.EnvChangeType, string, string) { e.note("UNREGISTERED-ENV-HOOK-CALLED") }
		}
	}
	return e
}

// shutdown ends the connection of a case: the context is cancelled and, for a case whose packets travel over
// the in-memory transport, the transport is closed so that the reader goroutine (blocked in Read) ends and
// the connection with its queues can be collected
func (e *rxEnv) shutdown() {
	e.conn.VerifCancel()
	if e.mc != nil {
		e.mc.Close()
	}
}

func (e *rxEnv) note(s string) {
	e.mu.Lock()
	e.hooks = append(e.hooks, s)
	e.mu.Unlock()
}

func (e *rxEnv) feedPacket(tok string) bool {
	if strings.HasPrefix(tok, "W:") {
		return true // the complete response, for the oracle of C14's channel-prefix cases only
	}
	if tok == "snd" {
		// the client sends a message while the response is still arriving (a server may start answering
		// before the last packet of the request has left): sending changes nothing on the receive side
		pkg := tds.NewTokenlessPackage()
		pkg.Data.Write([]byte("select 1--"))
		ctx, cancel := context.WithTimeout(context.Background(), 500*time.Millisecond)
		defer cancel()
		if err := e.ch.SendPackage(ctx, pkg); err != nil {
			e.mu.Lock()
			e.hooks = append(e.hooks, "SNDERR:"+err.Error())
			e.mu.Unlock()
		}
		return true
	}
	f := strings.Split(tok, ":")
	if len(f) != 2 {
		return false
	}
	if f[0] == "h" || f[0] == "H" { // header-only packet; H: with the end-of-message status (as a PROTACK carries it)
		t, _ := strconv.Atoi(f[1])
		st := tds.PacketHeaderStatus(0)
		if f[0] == "H" {
			st = tds.TDS_BUFSTAT_EOM
		}
		if e.mc != nil {
			e.overWire([]byte{byte(t), byte(st), 0, 8, byte(e.chId >> 8), byte(e.chId), 0, 0})
			return true
		}
		e.ch.WritePacket(&tds.Packet{Header: tds.PacketHeader{MsgType: tds.PacketHeaderType(t), Status: st, Length: 8}})
		return true
	}
	body := unhx(f[1])
	stN, isBody := bodyTokStatus(f[0])
	if body == nil || !isBody {
		return false
	}
	// b<status>: the packet header's status byte as a number — b0 / b1 without / with the end-of-message
	// bit alone, b3 = EOM|ATTNACK, b9 = EOM|EVENT, b8 = EVENT without EOM …
	st := tds.PacketHeaderStatus(stN)
	if e.mc != nil {
		if len(body)+8 > 65535 {
			return false
		}
		l := len(body) + 8
		e.overWire(append([]byte{4, byte(st), byte(l >> 8), byte(l), byte(e.chId >> 8), byte(e.chId), 0, 0}, body...))
		return true
	}
	e.ch.WritePacket(&tds.Packet{Header: tds.PacketHeader{MsgType: 4, Status: st, Length: uint16(len(body) + 8)}, Data: append([]byte{}, body...)})
	return true
}

// overWire hands one packet to the transport and waits until the reader goroutine has taken it and is
// waiting for the next one (so that the case stays a sequence: packet, packet, read, …)
func (e *rxEnv) overWire(pkt []byte) {
	e.mc.feed(pkt)
	for i := 0; i < 20000; i++ {
		if e.mc.idleReader() {
			return
		}
		time.Sleep(50 * time.Microsecond)
	}
}

func rxImpl(line string) string {
	f := strings.Fields(line)
	if len(f) < 3 {
		return "bad-op"
	}
	ne, e1 := strconv.Atoi(f[1])
	nv, e2 := strconv.Atoi(f[2])
	if e1 != nil || e2 != nil {
		return "bad-op"
	}
	e := newRxEnvVia(ne, nv, f[0] == "rxr")
	defer e.shutdown()
	send := false
	for _, t := range f[3:] {
		if t == "send" {
			send = true
			continue
		}
		if !e.feedPacket(t) {
			return "bad-op"
		}
	}
	var del []string
	for {
		p, _ := e.ch.VerifQueued()
		if p == 0 {
			break
		}
		pkg, err := e.ch.NextPackage(context.Background(), false)
		if err != nil || pkg == nil {
			break
		}
		del = append(del, showDelivered(pkg))
	}
	_, nerr := e.ch.VerifQueued()
	rx, _ := e.ch.VerifQueues()
	dl, _, ip, id, eom := rx.VerifState()
	unread := -id
	for i := ip; i < len(dl); i++ {
		unread += dl[i]
	}
	if ip >= len(dl) {
		unread = 0
	}
	em := 0
	if eom {
		em = 1
	}
	res := fmt.Sprintf("D=[%s] E=%d H=[%s] PS=%d Q=%d/%d", strings.Join(del, " | "), nerr, strings.Join(e.hooks, " ; "), e.conn.PacketSize(), unread, em)
	if send {
		// whatever the server announced, the next message of the client goes out (no crash, no endless loop)
		done := make(chan string, 1)
		go func() {
			defer func() {
				if r := recover(); r != nil {
					done <- "panic"
				}
			}()
			pkg := tds.NewTokenlessPackage()
			pkg.Data.Write([]byte("select 1--"))
			ctx, cancel := context.WithTimeout(context.Background(), 500*time.Millisecond)
			defer cancel()
			if err := e.ch.SendPackage(ctx, pkg); err != nil {
				done <- "err"
			} else {
				done <- "ok"
			}
		}()
		select {
		case r := <-done:
			res += " S=" + r
		case <-time.After(1500 * time.Millisecond):
			res += " S=blocked"
		}
	}
	return res
}

// ---------------------------------------------------------------------------------------------
// response builders

type respPkg struct {
	bytes []byte
	kind  string // done:<status> | eed | eedinfo | env | other
	show  string // what a delivery of it shows ("" if never delivered)
}

func rDone(status, count int) respPkg {
	// all three DONE tokens (DONE, DONEPROC, DONEINPROC are one Go type) and all transaction states
	tok := []byte{0xFD, 0xFE, 0xFF}[count%3]
	tran := (count / 3) % 4
	return respPkg{wDone(tok, status, tran, count), fmt.Sprintf("done:%d", status), fmt.Sprintf("done %d %d %d", status, tran, count)}
}
func rEED(nr int, info bool, msg string) respPkg {
	// the status is a bit set: TDS_EED_FOLLOWS (0x01) with and without TDS_EED_INFO (0x02)
	st := byte(nr % 2)
	k := "eed"
	if info {
		st, k = 2|byte(nr%2), "eedinfo"
	}
	b := wEED(nr, st, msg)
	return respPkg{b, k, ""}
}
func rEnv(members ...[3]string) respPkg { return respPkg{wEnvChange(members...), "env", ""} }
func rMsg(id int) respPkg               { return respPkg{wMsg(1, id), "other", fmt.Sprintf("msg 1 %d", id)} }
func rRetStat(v int) respPkg {
	return respPkg{append([]byte{0x79}, le32(v)...), "other", fmt.Sprintf("returnstatus %d", v)}
}
func rLoginAck(st int) respPkg { return respPkg{wLoginAck(st, "ASE"), "other", ""} }

func randomResponse(rng *rand.Rand, final bool) []respPkg {
	var r []respPkg
	n := rng.Intn(7)
	for i := 0; i < n; i++ {
		switch rng.Intn(9) {
		case 0, 1:
			r = append(r, rEED(1000+rng.Intn(9000), false, "msg "+strconv.Itoa(rng.Intn(100))+"\n"))
		case 2:
			r = append(r, rEED(5701+rng.Intn(2), true, "Changed database context.\n"))
		case 3:
			r = append(r, rEnv([3]string{"\x01", "db" + strconv.Itoa(rng.Intn(9)), "master"}))
		case 4:
			// valid sizes incl. the boundaries, and (1 in 6) sizes the library must reject: 0, 8, 65536, not a number
			sz := strconv.Itoa(packSizes[rng.Intn(len(packSizes))])
			if rng.Intn(6) == 0 {
				sz = []string{"0", "8", "65536", "-512", "1k", ""}[rng.Intn(6)]
			}
			r = append(r, rEnv([3]string{"\x04", sz, "512"}, genEnvMember(rng)))
		case 5:
			r = append(r, rDone([]int{1, 17, 0x11, 9, 3}[rng.Intn(5)], rng.Intn(50)))
		case 6:
			r = append(r, rMsg(1+rng.Intn(40)))
		case 7:
			r = append(r, rRetStat(rng.Intn(100)-50))
		default:
			r = append(r, rLoginAck(5+rng.Intn(3)))
		}
	}
	if final {
		r = append(r, rDone(0, rng.Intn(100)))
	} else if rng.Intn(2) == 0 {
		r = append(r, rDone([]int{16, 2, 8, 0x18}[rng.Intn(4)], rng.Intn(100)))
	}
	if len(r) == 0 {
		r = append(r, rDone(0, 0))
	}
	return r
}

func respBytes(r []respPkg) []byte {
	var b []byte
	for _, p := range r {
		b = append(b, p.bytes...)
	}
	return b
}

func cutTokens(body []byte, cuts []int) []string {
	var toks []string
	prev := 0
	cuts = append(append([]int{}, cuts...), len(body))
	for i, c := range cuts {
		eom := 0
		if i == len(cuts)-1 {
			eom = 1
		}
		toks = append(toks, fmt.Sprintf("b%d:%s", eom, hx(body[prev:c])))
		prev = c
	}
	return toks
}

func randomCuts(rng *rand.Rand, n, k int) []int {
	if n <= 1 {
		return nil
	}
	set := map[int]bool{}
	for i := 0; i < k; i++ {
		set[1+rng.Intn(n-1)] = true
	}
	var cuts []int
	for c := 1; c < n; c++ {
		if set[c] {
			cuts = append(cuts, c)
		}
	}
	return cuts
}

// whole-run answers, cached per (hooks, body) for the C02 oracle "same as the single-packet run of the real code"
var rxWhole sync.Map

func rxWholeAnswerLine(ne, nv int, pkts string) string {
	key := fmt.Sprintf("%d %d %s", ne, nv, pkts)
	if v, ok := rxWhole.Load(key); ok {
		return v.(string)
	}
	s := rxImpl(fmt.Sprintf("rx %d %d %s", ne, nv, pkts))
	rxWhole.Store(key, s)
	return s
}

func rxWholeAnswer(ne, nv int, body []byte) string {
	key := fmt.Sprintf("%d %d %s", ne, nv, hx(body))
	if v, ok := rxWhole.Load(key); ok {
		return v.(string)
	}
	s := rxImpl(fmt.Sprintf("rx %d %d b1:%s", ne, nv, hx(body)))
	rxWhole.Store(key, s)
	return s
}

func rxOracleC02(line, out string) string {
	f := strings.Fields(line)
	if len(f) < 4 || f[0] != "rx" {
		return ""
	}
	if out == "panic" || out == "timeout" {
		return "a fragmented response neither crashes nor hangs the channel"
	}
	// lines that are one or more messages, each cut into body packets (EOM on its last packet): the
	// reference is the same messages, each in a single packet, through the real code
	var ref []string
	var body []byte
	var toks []string
	for _, t := range f[3:] {
		if t != "snd" { // a send in mid-response changes nothing on the receive side: same reference
			toks = append(toks, t)
		}
	}
	for i, t := range toks {
		p := strings.Split(t, ":")
		if len(p) == 2 && (p[0] == "h" || p[0] == "H") && len(body) == 0 {
			ref = append(ref, t) // a header-only packet between messages stays where it is
			continue
		}
		stN, isBody := bodyTokStatus(p[0])
		if len(p) != 2 || !isBody {
			return ""
		}
		body = append(body, unhx(p[1])...)
		if stN%2 == 1 { // the end-of-message bit, whatever other status bits the packet carries
			ref = append(ref, "b1:"+hx(body))
			body = nil
		} else if i == len(toks)-1 {
			return "" // the last message is incomplete: not judged here (C14)
		}
	}
	ne, _ := strconv.Atoi(f[1])
	nv, _ := strconv.Atoi(f[2])
	if want := rxWholeAnswerLine(ne, nv, strings.Join(ref, " ")); out != want {
		return "the channel delivers the same packages, errors and hook calls as for the single-packet response"
	}
	return ""
}

// withMidSends wraps an emit: one case in four with at least two packets is emitted a second time with
// `snd` tokens between its packets — the client sends a message while the response is still arriving (a
// server may start to answer before the send call has returned). Nothing on the receive side may change.
func withMidSends(rng *rand.Rand, first int, emit func(Case)) func(Case) {
	r := rand.New(rand.NewSource(rng.Int63()))
	return func(c Case) {
		emit(c)
		f := strings.Fields(c.Line)
		if len(f) < first+2 || r.Intn(4) != 0 {
			return
		}
		var pos []int
		for i := first + 1; i < len(f); i++ {
			if strings.Contains(f[i-1], ":") && strings.Contains(f[i], ":") {
				pos = append(pos, i) // between two packets
			}
		}
		if len(pos) == 0 {
			return
		}
		at := map[int]bool{pos[r.Intn(len(pos))]: true}
		if r.Intn(3) == 0 {
			at[pos[r.Intn(len(pos))]] = true
		}
		var out []string
		for i, t := range f {
			if at[i] {
				out = append(out, "snd")
			}
			out = append(out, t)
		}
		emit(Case{Line: strings.Join(out, " "), Kind: c.Kind + "+midsend"})
	}
}

func c02Gen(tier string, rng *rand.Rand, emit func(Case)) {
	emit = withStatusBits(rng, withMidSends(rng, 3, emit))
	nresp, nrand := 25, 40
	if tier == "thorough" {
		nresp, nrand = 150, 300
	}
	for i := 0; i < nresp; i++ {
		resp := randomResponse(rng, rng.Intn(2) == 0)
		body := respBytes(resp)
		ne, nv := rng.Intn(3), rng.Intn(3)
		emit(Case{Line: fmt.Sprintf("rx %d %d b1:%s", ne, nv, hx(body)), Kind: "whole"})
		n := len(body)
		// every single cut
		for c := 1; c < n; c++ {
			emit(Case{Line: fmt.Sprintf("rx %d %d %s", ne, nv, strings.Join(cutTokens(body, []int{c}), " ")), Kind: "cut1"})
		}
		// pairs of cuts (all for short bodies, sampled otherwise)
		if n <= 40 {
			for a := 1; a < n; a++ {
				for b := a + 1; b < n; b++ {
					emit(Case{Line: fmt.Sprintf("rx %d %d %s", ne, nv, strings.Join(cutTokens(body, []int{a, b}), " ")), Kind: "cut2"})
				}
			}
		}
		for k := 0; k < nrand; k++ {
			cuts := randomCuts(rng, n, 1+rng.Intn(8))
			emit(Case{Line: fmt.Sprintf("rx %d %d %s", ne, nv, strings.Join(cutTokens(body, cuts), " ")), Kind: "cuts-random"})
		}
		// one-byte bodies
		if n <= 120 {
			var all []int
			for c := 1; c < n; c++ {
				all = append(all, c)
			}
			emit(Case{Line: fmt.Sprintf("rx %d %d %s", ne, nv, strings.Join(cutTokens(body, all), " ")), Kind: "one-byte-bodies"})
		}
	}
	// a package of the largest size its 16-bit length field admits, followed by the DONE: more than 64 KiB
	// wait in the receive queue when the last packet arrives
	for _, c := range largeResponses(rng) {
		emit(Case{Line: fmt.Sprintf("rx %d 0 %s", rng.Intn(2), strings.Join(c, " ")), Kind: "large-package"})
	}
	// all 2^(n-1) cut sets of short streams
	for _, resp := range [][]respPkg{{rDone(0, 1)}, {rDone(1, 2), rDone(0, 3)}, {rMsg(7), rDone(16, 1)}} {
		body := respBytes(resp)
		n := len(body)
		if n > 14 && tier != "thorough" {
			body = body[:0]
			body = append(body, resp[0].bytes...)
			n = len(body)
		}
		if n > 18 {
			continue
		}
		for mask := 0; mask < 1<<(n-1); mask++ {
			var cuts []int
			for c := 1; c < n; c++ {
				if mask&(1<<(c-1)) != 0 {
					cuts = append(cuts, c)
				}
			}
			emit(Case{Line: fmt.Sprintf("rx 1 0 %s", strings.Join(cutTokens(body, cuts), " ")), Kind: "all-cut-sets"})
		}
	}
	// histories: a later response of the same channel is the fragmented one (state left behind by an earlier
	// response must not change how a later one is parsed)
	nh := 150
	if tier == "thorough" {
		nh = 1500
	}
	for i := 0; i < nh; i++ {
		var toks []string
		for j := 0; j < 2+rng.Intn(2); j++ {
			body := respBytes(randomResponse(rng, rng.Intn(2) == 0))
			var cuts []int
			if j > 0 || rng.Intn(3) == 0 {
				cuts = randomCuts(rng, len(body), 1+rng.Intn(4))
			}
			toks = append(toks, cutTokens(body, cuts)...)
		}
		if rng.Intn(2) == 0 { // a header-only packet (with or without the EOM status) in front of a response
			at := 0
			for k, t := range toks {
				if strings.HasPrefix(t, "b1:") && rng.Intn(2) == 0 {
					at = k + 1
				}
			}
			ho := []string{"H:11", "h:11", "H:15"}[rng.Intn(3)]
			toks = append(append(append([]string{}, toks[:at]...), ho), toks[at:]...)
		}
		emit(Case{Line: fmt.Sprintf("rx %d %d %s", rng.Intn(2), rng.Intn(2), strings.Join(toks, " ")), Kind: "history"})
	}
	brokenThenNextGen(tier, rng, emit)
	// several connections in one process: a header split by A's transport while B receives
	for k := 1; k <= 7; k++ {
		emit(Case{Line: fmt.Sprintf("rxsplit %d %d", k, rng.Intn(1<<20)), Kind: "two-connections"})
	}
	// header-only packets interleaved
	for i := 0; i < 20; i++ {
		resp := randomResponse(rng, true)
		toks := cutTokens(respBytes(resp), randomCuts(rng, len(respBytes(resp)), 3))
		j := rng.Intn(len(toks) + 1)
		toks = append(append(append([]string{}, toks[:j]...), "h:11"), toks[j:]...)
		emit(Case{Line: fmt.Sprintf("rx 1 1 %s", strings.Join(toks, " ")), Kind: "header-only-interleaved"})
	}
	// result sets and parameter sets: a format package, data packages that take their format from the
	// preceding package, messages between format and data, ORDERBY, DONE — over the data types of the
	// fields codec group (registry generators)
	rowFields := collectRowFields(tier, rng)
	nrows := 120
	if tier == "thorough" {
		nrows = 1500
	}
	for i := 0; i < nrows && len(rowFields) > 0; i++ {
		body := resultSetResponse(rng, rowFields)
		if body == nil {
			continue
		}
		ne, nv := rng.Intn(2), rng.Intn(2)
		emit(Case{Line: fmt.Sprintf("rx %d %d b1:%s", ne, nv, hx(body)), Kind: "rows-whole"})
		n := len(body)
		if n <= 160 {
			for cpos := 1; cpos < n; cpos++ {
				emit(Case{Line: fmt.Sprintf("rx %d %d %s", ne, nv, strings.Join(cutTokens(body, []int{cpos}), " ")), Kind: "rows-cut1"})
			}
		}
		for k := 0; k < 12; k++ {
			emit(Case{Line: fmt.Sprintf("rx %d %d %s", ne, nv, strings.Join(cutTokens(body, randomCuts(rng, n, 1+rng.Intn(6))), " ")), Kind: "rows-cuts-random"})
		}
	}
	// the packet layer: read schedules
	if p := registry["C02rd"]; p != nil {
		p.Gen(tier, rng, emit)
	}
}

// collectRowFields: field lists of ROW / PARAMS packages (with their formats) from the registry generators,
// without BLOB columns (known finding)
var c02RowsByFormat = map[string][][]string{}

func collectRowFields(tier string, rng *rand.Rand) [][]string {
	var rowFields [][]string
	c02RowsByFormat = map[string][][]string{}
	for _, kind := range []string{"row", "params"} {
		kind := kind
		if c := codecRegistry[kind]; c != nil && c.Gen != nil && c.SpecEnc != nil && c.CtxFor != nil {
			n := 0
			c.Gen(tier, rand.New(rand.NewSource(rng.Int63())), func(fields string) {
				f := strings.Fields(fields)
				if !ffIsBlobCase("pkg spec " + kind + " " + fields) {
					if n%7 == 0 {
						rowFields = append(rowFields, append([]string{kind}, f...))
					}
					// every row the generators offer, by format: the pool from which the further rows of a result
					// set are drawn (rows of one set share the format and differ in their values)
					if ctx := c.CtxFor(f); len(ctx) > 0 {
						key := kind + string(ctx)
						if len(c02RowsByFormat[key]) < 8 {
							c02RowsByFormat[key] = append(c02RowsByFormat[key], append([]string{kind}, f...))
						}
					}
				}
				n++
			})
		}
	}
	return rowFields
}

// resultSetResponse: format, (message), 1..3 data packages (with messages in between), DONE
func resultSetResponse(rng *rand.Rand, rowFields [][]string) []byte {
	rf := rowFields[rng.Intn(len(rowFields))]
	c := codecRegistry[rf[0]]
	ctx := c.CtxFor(rf[1:])
	row, ok := c.SpecEnc(rf[1:])
	if !ok || len(ctx) == 0 || len(ctx)+3*len(row) > 6000 {
		return nil
	}
	var body []byte
	body = append(body, ctx...)
	if rng.Intn(3) == 0 { // a message between the format and its data must not break the data
		body = append(body, rEED(2000+rng.Intn(100), rng.Intn(2) == 0, "note\n").bytes...)
	}
	if rng.Intn(4) == 0 { // nor must an environment change (it is consumed by the channel, not recorded)
		body = append(body, rEnv([3]string{"\x01", "db" + strconv.Itoa(rng.Intn(9)), "master"}).bytes...)
	}
	// the data packages of one set carry DIFFERENT values where the generators offer several rows for the
	// same format (a later row must not change an earlier one: values are rendered after all have arrived)
	var same [][]byte
	for _, other := range c02RowsByFormat[rf[0]+string(ctx)] {
		if other[0] == rf[0] && len(same) < 6 && string(codecRegistry[other[0]].CtxFor(other[1:])) == string(ctx) {
			if b, ok := codecRegistry[other[0]].SpecEnc(other[1:]); ok && len(b) < 1500 {
				same = append(same, b)
			}
		}
	}
	nrows := 1 + rng.Intn(3)
	if len(same) > 1 && nrows == 1 {
		nrows = 2
	}
	for r := 0; r < nrows; r++ {
		next := row
		if len(same) > 1 {
			next = same[(r+rng.Intn(len(same)-1))%len(same)]
			if r == 0 {
				next = same[0]
			} else if string(next) == string(same[0]) {
				next = same[1]
			}
		}
		body = append(body, next...)
		if rng.Intn(5) == 0 {
			body = append(body, rEED(3000+rng.Intn(100), false, "row message\n").bytes...)
		}
	}
	return append(body, rDone([]int{0, 16, 1}[rng.Intn(3)], rng.Intn(9)).bytes...)
}

func c02Impl(line string) string {
	switch {
	case strings.HasPrefix(line, "rx "), strings.HasPrefix(line, "rxr "):
		return rxImpl(line)
	case strings.HasPrefix(line, "user "):
		return useImpl(line)
	case strings.HasPrefix(line, "rd "):
		return rdImpl(line)
	case strings.HasPrefix(line, "use "):
		return useImpl(line)
	case strings.HasPrefix(line, "rxsplit "):
		return rxSplitImpl(line)
	}
	return "bad-op"
}

// rxsplit <k> <seed> (oracle only): two connections of one process, each with its reader goroutine over its
// own transport. Connection A's transport hands over the first k bytes of a packet header, then connection
// B receives a complete packet with another header, then A gets the rest. What A delivers must be what it
// delivers when its packet arrives in one piece — reader state is per connection.
func rxSplitImpl(line string) string {
	f := strings.Fields(line)
	if len(f) != 3 {
		return "bad-op"
	}
	k, e1 := strconv.Atoi(f[1])
	seed, e2 := strconv.Atoi(f[2])
	if e1 != nil || e2 != nil || k < 1 || k > 7 {
		return "bad-op"
	}
	rng := rand.New(rand.NewSource(int64(seed)))
	bodyA := append(rMsg(1+rng.Intn(40)).bytes, rDone(16, 1+rng.Intn(90)).bytes...)
	pktA := packetize(bodyA, nil, 4, 0)
	// B's packet differs from A's in every header byte the first k can hold: type, status (not EOM), length
	bodyB := append(rMsg(1+rng.Intn(40)).bytes, rDone(1, rng.Intn(90)).bytes...)
	bodyB = append(bodyB, rndBytes(rng, 300+rng.Intn(300))...)
	pktB := append([]byte{15, 0, byte((len(bodyB) + 8) >> 8), byte(len(bodyB) + 8), 0, 0, 7, 3}, bodyB...)
	run := func(split bool) string {
		mk := func() (*memConn, *tds.Conn, *tds.Channel) {
			mc := newMemConn()
			conn, _ := tds.VerifNewConn(context.Background(), mc, testInfo(), true)
			return mc, conn, conn.VerifNewChannel(0)
		}
		mcA, connA, chA := mk()
		defer connA.VerifCancel()
		if split {
			mcB, connB, chB := mk()
			defer connB.VerifCancel()
			mcA.feed(pktA[:k])
			time.Sleep(3 * time.Millisecond)
			mcB.feed(pktB)
			for i := 0; i < 100; i++ {
				if q, _ := chB.VerifQueued(); q >= 2 {
					break
				}
				time.Sleep(time.Millisecond)
			}
			mcA.feed(pktA[k:])
		} else {
			mcA.feed(pktA)
		}
		var del []string
		for {
			ctx, cancel := context.WithTimeout(context.Background(), 150*time.Millisecond)
			pkg, err := chA.NextPackage(ctx, true)
			cancel()
			if err != nil || pkg == nil {
				break
			}
			del = append(del, showDelivered(pkg))
		}
		return strings.Join(del, " | ")
	}
	whole, split := run(false), run(true)
	if whole != split {
		return "what a connection delivers does not depend on how its transport splits a packet header, whatever other connections of the process receive meanwhile (whole: [" + clip(whole, 80) + "], split: [" + clip(split, 80) + "])"
	}
	if !strings.Contains(whole, "done") {
		return "bad-op"
	}
	return "ok rxsplit"
}

// ---------------------------------------------------------------------------------------------
// consumer side (C03, C11), mirrored by lean/Dblib/Model/UseDriver.lean:
//   use <nEed> <nEnv> <spec,spec,…> <tok> …
//     tok  = b<eom>:<bodyhex> | h:<msgType>   a packet arrives
//          | +e | +n                          one more EED / env-change hook is registered
//          | r                                the consumer calls NextPackageUntil once (round i uses spec i mod #specs)
//     spec = nil | final | stop<j> | eof<j> | fail<j> | weof<j> | ueof<j>  (outcome at the j-th callback of the
//            call, otherwise stop at the final DONE; weof = an error wrapping io.EOF, ueof = io.ErrUnexpectedEOF)
// Answer: `<round> ;; … ;; left=<queued> E=<channel errors> PS=<packet size> H=[<hook calls>]`,
// round = `[<seen by the callback> | …] -> <result>`, result = pkg:<shown> | eofpkg:<shown> | nil | eof |
// cberr(<#eeds>:<msg numbers>:<errors.Is(err, the callback's error)>) | blocked | err

var errCb = errors.New("callback failed")
var errCbWrapsEOF = fmt.Errorf("error reading value: %w", io.EOF)

// cbErrOf: the error the callback of a spec returns
// isMethodErr matches errCb through its Is method (as syscall.Errno matches fs.ErrNotExist)
type isMethodErr struct{}

func (isMethodErr) Error() string        { return "an error with an Is method" }
func (isMethodErr) Is(target error) bool { return target == errCb }

func cbErrOf(spec string) error {
	switch {
	case strings.HasPrefix(spec, "weof"):
		return errCbWrapsEOF
	case strings.HasPrefix(spec, "ueof"):
		return io.ErrUnexpectedEOF
	}
	return errCb
}

func (e *rxEnv) eedHook() tds.EEDHook {
	i := e.nEed
	e.nEed++
	return func(eed tds.EEDPackage) {
		k, _ := e.ch.VerifQueued()
		e.mu.Lock()
		e.hooks = append(e.hooks, fmt.Sprintf("e%d@%d:%s", i, k, showDelivered(&eed)))
		e.mu.Unlock()
	}
}

func (e *rxEnv) addEEDHook() { e.ch.RegisterEEDHooks(e.eedHook()) }

// refusedHooks: a registration that is refused (a nil hook after a valid one): nothing of it may stay
// registered — the valid hook of the refused call is never called
func (e *rxEnv) refusedHooks(env bool) {
	var err error
	if env {
		err = e.ch.RegisterEnvChangeHooks(func(typ tds.EnvChangeType, oldValue, newValue string) {
			e.mu.Lock()
			e.hooks = append(e.hooks, "REFUSED-ENV-HOOK-CALLED")
			e.mu.Unlock()
		}, nil)
	} else {
		err = e.ch.RegisterEEDHooks(func(eed tds.EEDPackage) {
			e.mu.Lock()
			e.hooks = append(e.hooks, "REFUSED-EED-HOOK-CALLED")
			e.mu.Unlock()
		}, nil)
	}
	if err == nil {
		e.mu.Lock()
		e.hooks = append(e.hooks, "NIL-HOOK-ACCEPTED")
		e.mu.Unlock()
	}
}

func (e *rxEnv) envHook() tds.EnvChangeHook {
	i := e.nEnv
	e.nEnv++
	return func(typ tds.EnvChangeType, oldValue, newValue string) {
		k, _ := e.ch.VerifQueued()
		e.mu.Lock()
		e.hooks = append(e.hooks, fmt.Sprintf("n%d@%d:%d:%s:%s:%d", i, k, int(typ), hx([]byte(oldValue)), hx([]byte(newValue)), e.conn.PacketSize()))
		e.mu.Unlock()
	}
}

func (e *rxEnv) addEnvHook() { e.ch.RegisterEnvChangeHooks(e.envHook()) }

func (e *rxEnv) round(spec string) string {
	var seen []string
	idx := 0
	// cfail<j>: as fail<j>, but the consumer's context ends before its callback returns the error (a statement
	// timeout): the rest of the response, already received, is consumed all the same
	cancelFirst := strings.HasPrefix(spec, "cfail")
	if cancelFirst {
		spec = spec[1:]
	}
	var cancelRound context.CancelFunc
	var cb func(tds.Package) (bool, error)
	if spec != "nil" {
		cb = func(pkg tds.Package) (bool, error) {
			seen = append(seen, showDelivered(pkg))
			idx++
			d, isDone := pkg.(*tds.DonePackage)
			final := isDone && d.Status == tds.TDS_DONE_FINAL
			var j int
			switch {
			case strings.HasPrefix(spec, "stop"):
				j, _ = strconv.Atoi(spec[4:])
				if idx == j {
					return true, nil
				}
			case strings.HasPrefix(spec, "eof"):
				j, _ = strconv.Atoi(spec[3:])
				if idx == j {
					return false, io.EOF
				}
			case strings.HasPrefix(spec, "fail"):
				j, _ = strconv.Atoi(spec[4:])
				if idx == j && cancelFirst && cancelRound != nil {
					cancelRound()
				}
				if idx == j {
					// the callback's error in the shapes errors come in: the sentinel itself, wrapped with %w, joined
					// with another error, or a type that matches through its own Is method — errors.Is(result,
					// errCb) must hold for each
					switch (j + len(seen) + e.nEed) % 4 {
					case 1:
						return false, fmt.Errorf("callback: %w", errCb)
					case 2:
						return false, errors.Join(errors.New("another error"), errCb)
					case 3:
						return false, isMethodErr{}
					}
					return false, errCb
				}
			case strings.HasPrefix(spec, "weof"): // an error that wraps io.EOF is not the io.EOF signal
				j, _ = strconv.Atoi(spec[4:])
				if idx == j {
					return false, errCbWrapsEOF
				}
			case strings.HasPrefix(spec, "ueof"):
				j, _ = strconv.Atoi(spec[4:])
				if idx == j {
					return false, io.ErrUnexpectedEOF
				}
			}
			return final, nil
		}
	}
	ctx, cancel := context.WithTimeout(context.Background(), 150*time.Millisecond)
	cancelRound = cancel
	pkg, err := e.ch.NextPackageUntil(ctx, true, cb)
	cancel()
	res := ""
	var eedErr *tds.EEDError
	switch {
	case err == nil && pkg != nil:
		res = "pkg:" + showDelivered(pkg)
	case err == nil:
		res = "nil"
	case err == io.EOF && pkg != nil:
		res = "eofpkg:" + showDelivered(pkg)
	case err == io.EOF:
		res = "eof"
	case errors.As(err, &eedErr):
		var nrs []string
		for _, ee := range eedErr.EEDPackages {
			nrs = append(nrs, strconv.Itoa(int(ee.MsgNumber)))
		}
		res = fmt.Sprintf("cberr(%d:%s:%v)", len(eedErr.EEDPackages), strings.Join(nrs, ","), errors.Is(err, cbErrOf(spec)))
	case err != io.EOF && errors.Is(err, cbErrOf(spec)):
		res = "cberr(0::true)"
	case errors.Is(err, context.DeadlineExceeded):
		res = "blocked"
	default:
		res = "err"
	}
	return "[" + strings.Join(seen, " | ") + "] -> " + res
}

func useImpl(line string) string {
	f := strings.Fields(line)
	if len(f) < 4 {
		return "bad-op"
	}
	ne, e1 := strconv.Atoi(f[1])
	nv, e2 := strconv.Atoi(f[2])
	if e1 != nil || e2 != nil {
		return "bad-op"
	}
	specs := strings.Split(f[3], ",")
	e := newRxEnvVia(ne, nv, f[0] == "user")
	defer e.shutdown()
	var outs []string
	r := 0
	for _, t := range f[4:] {
		switch t {
		case "r":
			outs = append(outs, e.round(specs[r%len(specs)]))
			r++
		case "+e":
			e.addEEDHook()
		case "+n":
			e.addEnvHook()
		case "+E":
			e.refusedHooks(false)
		case "+N":
			e.refusedHooks(true)
		default:
			if !e.feedPacket(t) {
				return "bad-op"
			}
		}
	}
	left, nerr := e.ch.VerifQueued()
	outs = append(outs, fmt.Sprintf("left=%d E=%d PS=%d H=[%s]", left, nerr, e.conn.PacketSize(), strings.Join(e.hooks, " ; ")))
	return strings.Join(outs, " ;; ")
}

func init() {
	register(&Prop{
		ID: "C02", Gen: func(tier string, rng *rand.Rand, emit func(Case)) { c02Gen(tier, rng, viaReaderTwins(emit)) }, Impl: c02Impl,
		NoModel: func(line string) bool { return strings.HasPrefix(line, "rxsplit ") },
		Oracle: func(line, out string) string {
			if strings.HasPrefix(line, "rxsplit ") {
				if strings.HasPrefix(out, "ok") {
					return ""
				}
				return out
			}
			if strings.HasPrefix(line, "rd ") {
				return registry["C02rd"].Oracle(line, out)
			}
			return rxOracleC02(directLine(line), out)
		},
		FindingKey: func(line, out, clause string) string { return clause },
		Nontrivial: func(line, out string) bool { return strings.Count(line, " b") >= 2 || strings.HasPrefix(line, "rd ") },
		NoShrink:   true, Timeout: 30 * time.Second, Timed: true,
		Rule:        "channel layer: random responses (DONE variants, EED info/non-info, ENVCHANGE incl. PACKSIZE, MSG, RETURNSTATUS, LOGINACK; 0..2 hooks of each kind) fed to the real Channel.WritePacket whole, with every single cut, all pairs of cuts of short responses, random cut sets, one-byte bodies, all 2^(n-1) cut sets of short streams, interleaved header-only packets, histories of 2..3 responses on one channel where the later ones are the fragmented ones, and result / parameter sets (format, 1..3 data packages over the data types of the fields group, messages between format and data; every single cut of short ones, random cut sets) — compared with the whole-response run of the real code (oracle) and with the Lean receive model; packet layer: the complete stream through the real reader goroutine with read schedules that split headers and bodies. Non-trivial = at least two packets",
		Assumptions: []string{"responses are built from the package kinds of the codec registry (Basic, Cursor, Fields without BLOB columns)", "net.Conn read semantics for the packet layer"},
	})
}

// truncatedTail: bytes that start a package which the end of the message cuts short (a DONE, an EED, a
// length-prefixed package announcing more than follows) or a token the library does not know.
func truncatedTail(rng *rand.Rand) []byte {
	switch rng.Intn(4) {
	case 0:
		d := rDone(0, rng.Intn(50)).bytes
		return d[:1+rng.Intn(len(d)-1)]
	case 1:
		e := rEED(1000+rng.Intn(100), false, "cut short\n").bytes
		return e[:1+rng.Intn(len(e)-1)]
	case 2:
		return append([]byte{0xE3, byte(20 + rng.Intn(200)), 0}, rndBytes(rng, rng.Intn(12))...)
	default:
		return append([]byte{[]byte{0x0B, 0x4F, 0x90, 0xF0}[rng.Intn(4)]}, rndBytes(rng, rng.Intn(20))...)
	}
}

func brokenThenNextGen(tier string, rng *rand.Rand, emit func(Case)) {
	// a response whose last packet (EOM) ends in a package that never completes — cut short, or a token the
	// library does not know — followed by further responses that arrive in small packets: what is left of
	// the broken response (bytes, read position) must not leak into the next one
	nt := 120
	if tier == "thorough" {
		nt = 1500
	}
	for i := 0; i < nt; i++ {
		var toks []string
		body := respBytes(randomResponse(rng, false))
		body = append(body, truncatedTail(rng)...)
		toks = append(toks, cutTokens(body, randomCuts(rng, len(body), rng.Intn(3)))...)
		for j := 0; j < 1+rng.Intn(2); j++ {
			next := respBytes(randomResponse(rng, rng.Intn(2) == 0))
			if len(next) < 3 {
				next = append(next, rDone(0, 1).bytes...)
			}
			// a small first packet, then the rest in one or several packets
			first := 1 + rng.Intn(6)
			if first >= len(next) {
				first = len(next) - 1
			}
			cuts := []int{first}
			if rng.Intn(2) == 0 && len(next)-first > 2 {
				cuts = append(cuts, first+1+rng.Intn(len(next)-first-1))
			}
			toks = append(toks, cutTokens(next, cuts)...)
		}
		emit(Case{Line: fmt.Sprintf("rx %d %d %s", rng.Intn(2), rng.Intn(2), strings.Join(toks, " ")), Kind: "broken-response-then-next"})
	}
}

// bodyTokStatus: the status number of a packet token `b<status>` (b0, b1, b3, b9, …)
func bodyTokStatus(t string) (int, bool) {
	if len(t) < 2 || t[0] != 'b' {
		return 0, false
	}
	n, err := strconv.Atoi(t[1:])
	if err != nil || n < 0 || n > 255 {
		return 0, false
	}
	return n, true
}

// withStatusBits wraps an emit: one case in five is emitted a second time with other status bits added to
// its packets' headers (ATTNACK, EVENT, …: bits a server may set next to or without the end-of-message bit).
// Only the end-of-message bit means anything to the receive path.
func withStatusBits(rng *rand.Rand, emit func(Case)) func(Case) {
	r := rand.New(rand.NewSource(rng.Int63()))
	return func(c Case) {
		emit(c)
		if r.Intn(5) != 0 || !(strings.Contains(c.Line, " b1:") || strings.Contains(c.Line, " b0:")) {
			return
		}
		f := strings.Fields(c.Line)
		changed := false
		for i, t := range f {
			extra := []int{2, 8, 4, 10, 64}[r.Intn(5)]
			switch {
			case strings.HasPrefix(t, "b1:") && r.Intn(2) == 0:
				f[i] = fmt.Sprintf("b%d:%s", 1|extra, t[3:])
				changed = true
			case strings.HasPrefix(t, "b0:") && r.Intn(3) == 0:
				f[i] = fmt.Sprintf("b%d:%s", extra, t[3:])
				changed = true
			}
		}
		if changed {
			emit(Case{Line: strings.Join(f, " "), Kind: c.Kind + "+statusbits"})
		}
	}
}

// largeResponses: [EED of 65538 bytes (the most its length field admits), DONE] and [EED of 40000 bytes, the
// same again, DONE] in packets of 504, 4088 and 65527 body bytes
func largeResponses(rng *rand.Rand) [][]string {
	var out [][]string
	for _, msgLens := range [][]int{{65511}, {40000, 40000}, {65511, 65511}} {
		var r []respPkg
		for i, l := range msgLens {
			r = append(r, rEED(2000+i, false, strings.Repeat("m", l)))
		}
		r = append(r, rDone(0, 7))
		body := respBytes(r)
		for _, sz := range []int{504, 4088, 65527} {
			var cuts []int
			for c := sz; c < len(body); c += sz {
				cuts = append(cuts, c)
			}
			out = append(out, cutTokens(body, cuts))
		}
	}
	return out
}

// viaReaderTwins wraps an emit: every 6th `rx` / `use` case (packets of at most 65527 body bytes) is emitted a
// second time as `rxr` / `user` — the same packets written to an in-memory transport and brought to the channel
// by the connection's real reader goroutine (Conn.ReadFrom, Packet.ReadFrom) instead of by WritePacket calls.
// Same model line, same oracle: how the packets reach the channel changes nothing.
func viaReaderTwins(emit func(Case)) func(Case) {
	n := 0
	return func(c Case) {
		emit(c)
		var twin string
		switch {
		case strings.HasPrefix(c.Line, "rx ") && !strings.Contains(c.Line, " send"):
			twin = "rxr " + c.Line[3:]
		case strings.HasPrefix(c.Line, "use "):
			twin = "user " + c.Line[4:]
		default:
			return
		}
		if len(c.Line) > 100000 {
			return
		}
		n++
		if n%6 == 0 {
			emit(Case{Line: twin, Kind: c.Kind + "-via-reader"})
		}
	}
}

// directLine: the `rx` / `use` line of an `rxr` / `user` line (for the oracles)
func directLine(line string) string {
	switch {
	case strings.HasPrefix(line, "rxr "):
		return "rx " + line[4:]
	case strings.HasPrefix(line, "user "):
		line = "use " + line[5:]
	}
	if strings.HasPrefix(line, "use ") && strings.Contains(line, "cfail") {
		f := strings.Fields(line)
		if len(f) > 3 {
			f[3] = strings.ReplaceAll(f[3], "cfail", "fail") // the same round to the specification
			line = strings.Join(f, " ")
		}
	}
	return line
}

// rule addenda (rounds 9-12): what the evidence says about the coverage of a run
func init() {
	if p := registry["C02"]; p != nil {
		p.Rule += " Every 6th rx case runs a second time as rxr: the same packets written to the in-memory transport and brought to the channel by the connection's reader goroutine (Conn.ReadFrom, Packet.ReadFrom); large-package cases (an EED of 65538 bytes + DONE, two such, in packets of 504 / 4088 / 65527 bytes); the rows of a result set are drawn by format and differ in their values."
	}
}
