package main

// C13 — Cancelled or closed channels never block and never deliver.
//
// Scenario lines (run on the real Conn/Channel over the in-memory transport, each under a watchdog):
//   life cancel-recv <queued> <arriving> <which>   NextPackage / NextPackageUntil (which = n|u) with a cancelled
//                                                  context: <queued> packages already delivered, <arriving> more
//                                                  packets fed while the call runs
//   life conn-cancel-recv <queued>                 same with the connection's context cancelled
//   life cancel-send <len>                         SendPackage with a cancelled context
//   life closed-ops <chan>                         every call after Close
//   life double-close <chan>                       Close twice
//   life close-connerrs <k> <size>                 Close of a logical channel after a rejected packet size announcement, with
//                                                  <k> unread connection errors (the connection's error queue holds 10)
//   life close-waiting <k>                         Close while a receiver waits on the idle channel, then the receiver's context is cancelled
//   life conn-close <nchan> <pending> [<gap>]      Conn.Close with <pending> unread packages per channel; logical channel <gap> closed before
//   life close-pending <chan> <pending> <cap>      Close with <pending> packages of an abandoned response, queue capacity <cap>
//   life refused-hook <0|1>                        a refused registration of a message / environment hook, then a message, then Conn.Close
//   life queued-then-error <n>                     n packages queued, then the peer goes away: packages first, then the error
//   life close-refused <once>                      Close of a logical channel whose teardown packet the transport refuses
//   life unknown-token <tok> <len>                 a message starting with a token without a package type, then a DONE, then Conn.Close
//   life reader-exit <errors>                      peer closes, <errors> read errors unconsumed, then Conn.Close: reader ends
// Answer: a list of `<call>=<class>` with class ∈ pkg | ctx | closed | err | ok | nothing, `blocked` when the
// watchdog (1.5 s) expires, `panic`. The Lean model (`Model/Life.lean`) predicts the set of allowed answers.

import (
	"context"
	"errors"
	"fmt"
	"math/rand"
	"runtime"
	"sort"
	"strconv"
	"strings"
	"time"

	"github.com/SAP/go-dblib/tds"
)

func classify(pkg tds.Package, err error) string {
	switch {
	case err == nil && pkg != nil:
		return "pkg"
	case err == nil:
		return "ok"
	case errors.Is(err, context.Canceled) || errors.Is(err, context.DeadlineExceeded):
		return "ctx"
	case errors.Is(err, tds.ErrChannelClosed):
		return "closed"
	case errors.Is(err, tds.ErrNoPackageReady):
		return "none"
	default:
		return "err"
	}
}

// watchdog runs f and returns its answer, or "blocked" after d.
func watchdog(d time.Duration, f func() string) (out string) {
	ch := make(chan string, 1)
	go func() {
		defer func() {
			if r := recover(); r != nil {
				ch <- "panic"
			}
		}()
		ch <- f()
	}()
	select {
	case s := <-ch:
		return s
	case <-time.After(d):
		return "blocked"
	}
}

type lifeEnv struct {
	mc   *memConn
	conn *tds.Conn
}

func newLifeEnv(queueCap int) *lifeEnv {
	mc := newMemConn()
	info := testInfo()
	info.ChannelPackageQueueSize = queueCap
	conn, _ := tds.VerifNewConn(context.Background(), mc, info, true)
	return &lifeEnv{mc: mc, conn: conn}
}

// newLifeEnvOwnReader: like newLifeEnv, but the reader goroutine is started here so that its end can be
// observed directly (done is closed when Conn.ReadFrom returns)
func newLifeEnvOwnReader(queueCap int) (*lifeEnv, chan struct{}) {
	mc := newMemConn()
	info := testInfo()
	info.ChannelPackageQueueSize = queueCap
	conn, _ := tds.VerifNewConn(context.Background(), mc, info, false)
	done := make(chan struct{})
	go func() { conn.ReadFrom(); close(done) }()
	return &lifeEnv{mc: mc, conn: conn}, done
}

func readerEnded(done chan struct{}) bool {
	select {
	case <-done:
		return true
	case <-time.After(700 * time.Millisecond):
		return false
	}
}

// feedDone feeds n DONE(MORE) packages on channel ch, each in its own packet, the last with EOM
// if eom is set (then the channel appends the synthetic final DONE).
func (e *lifeEnv) feedDone(ch, n int, eom bool) {
	for i := 0; i < n; i++ {
		body := wDone(0xFD, 1, 0, i)
		st := byte(0)
		if eom && i == n-1 {
			st = 1
		}
		hdr := []byte{4, st, 0, byte(len(body) + 8), byte(ch >> 8), byte(ch), 0, 0}
		e.mc.feed(append(hdr, body...))
	}
}

func waitQueued(c *tds.Channel, n int) bool {
	for i := 0; i < 400; i++ {
		p, _ := c.VerifQueued()
		if p >= n {
			return true
		}
		time.Sleep(time.Millisecond)
	}
	return false
}

func lifeImpl(line string) string {
	f := strings.Fields(line)
	if len(f) < 2 {
		return "bad-op"
	}
	arg := func(i int) int {
		if i < len(f) {
			n, _ := strconv.Atoi(f[i])
			return n
		}
		return 0
	}
	const wd = 1500 * time.Millisecond
	switch f[1] {
	case "cancel-recv", "conn-cancel-recv":
		queued, arriving := arg(2), arg(3)
		which := "n"
		if len(f) > 4 {
			which = f[4]
		}
		e := newLifeEnv(100)
		defer e.conn.VerifCancel()
		ch := e.conn.VerifNewChannel(0)
		e.feedDone(0, queued, false)
		if !waitQueued(ch, queued) {
			return "setup-failed"
		}
		ctx, cancel := context.WithCancel(context.Background())
		if f[1] == "cancel-recv" {
			cancel()
		} else {
			defer cancel()
			e.conn.VerifCancel()
		}
		go func() { e.feedDone(0, arriving, false) }()
		start := time.Now()
		out := watchdog(wd, func() string {
			if which == "u" {
				pkg, err := ch.NextPackageUntil(ctx, true, func(tds.Package) (bool, error) { return true, nil })
				return "recv=" + classify(pkg, err)
			}
			pkg, err := ch.NextPackage(ctx, true)
			return "recv=" + classify(pkg, err)
		})
		if time.Since(start) > 500*time.Millisecond && out != "blocked" {
			out += " slow"
		}
		return out
	case "close-waiting":
		// a receiver is waiting on an idle channel when Close is called from another goroutine; later the
		// receiver's context is cancelled. The receiver ends with the context's error (or the closed
		// condition) — never with "no package, no error" —, Close returns, later calls report closed.
		e := newLifeEnv(100)
		defer e.conn.VerifCancel()
		ch := e.conn.VerifNewChannel(1 + arg(2)%3)
		ctx, cancel := context.WithCancel(context.Background())
		defer cancel()
		recv := make(chan string, 1)
		go func() {
			pkg, err := ch.NextPackage(ctx, true)
			recv <- classify(pkg, err)
		}()
		time.Sleep(10 * time.Millisecond)
		closed := make(chan struct{})
		go func() { ch.Close(); close(closed) }()
		time.Sleep(20 * time.Millisecond)
		cancel()
		var parts []string
		select {
		case r := <-recv:
			parts = append(parts, "recv="+r)
		case <-time.After(wd):
			return "blocked"
		}
		select {
		case <-closed:
			parts = append(parts, "close=ok")
		case <-time.After(wd):
			return "blocked"
		}
		parts = append(parts, watchdog(wd, func() string {
			p, err := ch.NextPackage(context.Background(), false)
			return "after=" + classify(p, err)
		}))
		return strings.Join(parts, " ")
	case "cancel-send":
		n := arg(2)
		e := newLifeEnv(100)
		defer e.conn.VerifCancel()
		ch := e.conn.VerifNewChannel(0)
		ctx, cancel := context.WithCancel(context.Background())
		cancel()
		pkg := tds.NewTokenlessPackage()
		pkg.Data.Write(genBytes(n, 3))
		out := watchdog(wd, func() string {
			err := ch.SendPackage(ctx, pkg)
			return "send=" + classify(nil, err)
		})
		out += fmt.Sprintf(" wire=%d", len(e.mc.written()))
		// a later message on a live context must not carry the bytes of the cancelled one
		pkg2 := tds.NewTokenlessPackage()
		pkg2.Data.Write([]byte{0xA5})
		out2 := watchdog(wd, func() string {
			err := ch.SendPackage(context.Background(), pkg2)
			return "send2=" + classify(nil, err)
		})
		w := e.mc.written()
		body := 0
		for len(w) >= 8 {
			l := int(w[2])<<8 | int(w[3])
			if l < 8 || l > len(w) {
				break
			}
			body += l - 8
			w = w[l:]
		}
		return out + " " + out2 + fmt.Sprintf(" body2=%d", body)
	case "cancel-mid-send":
		// the context (which = c: the caller's, n: the connection's) is cancelled while the k-th packet
		// of a message of n bytes is being written
		n, k := arg(2), arg(3)
		which := "c"
		if len(f) > 4 {
			which = f[4]
		}
		e := newLifeEnv(100)
		defer e.conn.VerifCancel()
		ch := e.conn.VerifNewChannel(0)
		ctx, cancel := context.WithCancel(context.Background())
		defer cancel()
		e.mc.onWrite = func(w int) {
			if w == k {
				if which == "n" {
					e.conn.VerifCancel()
				} else {
					cancel()
				}
			}
		}
		pkg := tds.NewTokenlessPackage()
		pkg.Data.Write(genBytes(n, 5))
		out := watchdog(wd, func() string {
			err := ch.SendPackage(ctx, pkg)
			return "send=" + classify(nil, err)
		})
		e.mc.mu.Lock()
		writes := e.mc.writes
		e.mc.mu.Unlock()
		return out + fmt.Sprintf(" packets=%d", writes)
	case "closed-ops", "double-close":
		chid := arg(2)
		e := newLifeEnv(100)
		defer e.conn.VerifCancel()
		ch := e.conn.VerifNewChannel(chid)
		if chid == 0 {
			// the peer answers the logout
			e.mc.feed(packetize(wDone(0xFD, 0, 0, 0), nil, 4, 0))
		}
		out := watchdog(wd, func() string { err := ch.Close(); _ = err; return "close=ok" })
		if out != "close=ok" {
			return out
		}
		if f[1] == "double-close" {
			return out + " " + watchdog(wd, func() string {
				err := ch.Close()
				return "close2=" + classify(nil, err)
			})
		}
		ctx := context.Background()
		pkg := tds.NewTokenlessPackage()
		pkg.Data.Write([]byte{1, 2, 3})
		before := len(e.mc.written())
		parts := []string{out}
		parts = append(parts, watchdog(wd, func() string { p, err := ch.NextPackage(ctx, false); return "next=" + classify(p, err) }))
		parts = append(parts, watchdog(wd, func() string {
			p, err := ch.NextPackageUntil(ctx, false, nil)
			return "until=" + classify(p, err)
		}))
		parts = append(parts, watchdog(wd, func() string { return "queue=" + classify(nil, ch.QueuePackage(ctx, pkg)) }))
		parts = append(parts, watchdog(wd, func() string { return "flush=" + classify(nil, ch.SendRemainingPackets(ctx)) }))
		parts = append(parts, watchdog(wd, func() string { return "send=" + classify(nil, ch.SendPackage(ctx, pkg)) }))
		// packets for the closed channel are not delivered (reported as unknown channel instead)
		e.feedDone(chid, 2, true)
		time.Sleep(20 * time.Millisecond)
		parts = append(parts, watchdog(wd, func() string { p, err := ch.NextPackage(ctx, false); return "late=" + classify(p, err) }))
		// a packet the reader had already looked the channel up for arrives after Close (with a body, and
		// header-only like the acknowledgement of the teardown): it is dropped, the reader is not held up
		parts = append(parts, watchdog(wd, func() string {
			ch.WritePacket(&tds.Packet{Header: tds.PacketHeader{MsgType: 4, Status: tds.TDS_BUFSTAT_EOM, Length: 17}, Data: wDone(0xFD, 0, 0, 0)})
			ch.WritePacket(&tds.Packet{Header: tds.PacketHeader{MsgType: 11, Status: tds.TDS_BUFSTAT_EOM, Length: 8}})
			return "latewrite=ok"
		}))
		parts = append(parts, fmt.Sprintf("written=%d", len(e.mc.written())-before))
		return strings.Join(parts, " ")
	case "conn-close":
		nchan, pending := arg(2), arg(3)
		g0 := runtime.NumGoroutine()
		e := newLifeEnv(100)
		var chans []*tds.Channel
		for i := 0; i < nchan; i++ {
			chans = append(chans, e.conn.VerifNewChannel(i))
			e.feedDone(i, pending, false)
		}
		for _, c := range chans {
			waitQueued(c, pending)
		}
		// an optional fourth argument: that logical channel was closed earlier, so the connection's set of
		// channel ids has a gap when it is closed
		if len(f) > 4 {
			if g := arg(4); g > 0 && g < nchan {
				if r := watchdog(wd, func() string { chans[g].Close(); return "ok" }); r != "ok" {
					return r
				}
			}
		}
		if nchan > 0 {
			e.mc.feed(packetize(wDone(0xFD, 0, 0, 0), nil, 4, 0)) // logout answer for channel 0
		}
		out := watchdog(wd, func() string { e.conn.Close(); return "connclose=ok" })
		if out != "connclose=ok" {
			return out
		}
		parts := []string{out}
		for i, c := range chans {
			p, err := c.NextPackage(context.Background(), false)
			parts = append(parts, fmt.Sprintf("ch%d=%s", i, classify(p, err)))
		}
		if _, err := e.mc.Write([]byte{1}); err != nil {
			parts = append(parts, "transport=closed")
		} else {
			parts = append(parts, "transport=open")
		}
		// reader goroutine gone?
		ended := false
		for i := 0; i < 200; i++ {
			if runtime.NumGoroutine() <= g0 {
				ended = true
				break
			}
			time.Sleep(2 * time.Millisecond)
		}
		if ended {
			parts = append(parts, "reader=ended")
		} else {
			parts = append(parts, "reader=alive")
		}
		return strings.Join(parts, " ")
	case "close-pending":
		chid, pending, qcap := arg(2), arg(3), arg(4)
		e := newLifeEnv(qcap)
		defer e.conn.VerifCancel()
		ch := e.conn.VerifNewChannel(chid)
		// a response of `pending` packages arrives and is abandoned
		e.feedDone(chid, pending, false)
		want := pending
		if want > qcap {
			want = qcap
		}
		waitQueued(ch, want)
		time.Sleep(10 * time.Millisecond)
		if chid == 0 {
			e.mc.feed(packetize(wDone(0xFD, 0, 0, 0), nil, 4, 0))
		}
		return watchdog(wd, func() string { ch.Close(); return "close=ok" })
	case "close-errors":
		// <nerr> packets the channel cannot parse (a ROW without format: one queued error each),
		// abandoned; then Close
		chid, nerr := arg(2), arg(3)
		e := newLifeEnv(100)
		defer e.conn.VerifCancel()
		ch := e.conn.VerifNewChannel(chid)
		for i := 0; i < nerr; i++ {
			body := []byte{0xD1, 1, 2, 3}
			hdr := []byte{4, 1, 0, byte(len(body) + 8), byte(chid >> 8), byte(chid), 0, 0}
			e.mc.feed(append(hdr, body...))
		}
		for i := 0; i < 300; i++ {
			_, ne := ch.VerifQueued()
			if ne >= nerr || ne >= 10 {
				break
			}
			time.Sleep(time.Millisecond)
		}
		time.Sleep(10 * time.Millisecond)
		if chid == 0 {
			e.mc.feed(packetize(wDone(0xFD, 0, 0, 0), nil, 4, 0))
		}
		return watchdog(wd, func() string { ch.Close(); return "close=ok" })
	case "close-connerrs":
		// the connection's error queue is full (<k> packets for a channel that does not exist, nobody reads
		// the errors), then a package the channel rejects while handling it (an ENVCHANGE announcing the packet
		// size <v>) arrives for a logical channel, which is then closed: Close returns
		k := arg(2)
		v := "0"
		if len(f) > 3 {
			v = f[3]
		}
		e := newLifeEnv(100)
		defer e.conn.VerifCancel()
		ch := e.conn.VerifNewChannel(1)
		for i := 0; i < k; i++ {
			body := wDone(0xFD, 1, 0, i)
			e.mc.feed(append([]byte{4, 1, 0, byte(len(body) + 8), 0, 77, 0, 0}, body...))
		}
		time.Sleep(10 * time.Millisecond)
		e.mc.feed(packetize(append(wEnvChange([3]string{"\x04", v, "512"}), wDone(0xFD, 0, 0, 1)...), nil, 4, 1))
		time.Sleep(20 * time.Millisecond)
		return watchdog(wd, func() string { ch.Close(); return "close=ok" })
	case "abandon-close":
		// the consumer's callback fails on a package of an unfinished response and the channel (c) or the
		// connection (n) is closed before the rest arrives: the call that consumes the rest must return
		which := "c"
		if len(f) > 2 {
			which = f[2]
		}
		e := newLifeEnv(100)
		defer e.conn.VerifCancel()
		ch := e.conn.VerifNewChannel(5)
		e.feedDone(5, 3, false) // three packages, no end of message
		if !waitQueued(ch, 3) {
			return "setup"
		}
		cbErr := errors.New("callback failed")
		return watchdog(wd, func() string {
			_, err := ch.NextPackageUntil(context.Background(), true, func(tds.Package) (bool, error) {
				if which == "n" {
					go e.conn.Close()
					time.Sleep(20 * time.Millisecond)
				} else {
					ch.Close()
				}
				return false, cbErr
			})
			return "until=" + classify(nil, err)
		})
	case "reader-exit-unknown":
		// n packets for a channel that does not exist (late answers after the channel was closed, the rest
		// of an abandoned response), nobody reads the connection's errors, then Conn.Close: the reader ends
		n := arg(2)
		e, done := newLifeEnvOwnReader(100)
		ch := e.conn.VerifNewChannel(0)
		// the channel is closed first (the peer answers the logout): no channel is left whose Close would
		// read the connection's error queue
		e.mc.feed(packetize(wDone(0xFD, 0, 0, 0), nil, 4, 0))
		if out := watchdog(wd, func() string { ch.Close(); return "close=ok" }); out != "close=ok" {
			return out
		}
		for i := 0; i < n; i++ {
			e.mc.feed(packetize(wDone(0xFD, 1, 0, i), nil, 4, 0)) // late packets for the channel that is gone
		}
		for i := 0; i < 300 && len(e.conn.VerifErrCh()) < n && len(e.conn.VerifErrCh()) < 10; i++ {
			time.Sleep(time.Millisecond)
		}
		time.Sleep(5 * time.Millisecond)
		out := watchdog(wd, func() string { e.conn.Close(); return "connclose=ok" })
		if readerEnded(done) {
			return out + " reader=ended"
		}
		return out + " reader=alive"
	case "refused-hook":
		// a hook registration is refused (a nil hook among the arguments), then a server message / an environment
		// change arrives and the connection is closed: the refused call leaves nothing behind that could hold
		// up the delivery or Close
		e, done := newLifeEnvOwnReader(100)
		ch := e.conn.VerifNewChannel(0)
		var rerr error
		if arg(2) == 0 {
			rerr = ch.RegisterEEDHooks(func(tds.EEDPackage) {}, nil)
		} else {
			rerr = ch.RegisterEnvChangeHooks(func(tds.EnvChangeType, string, string) {}, nil)
		}
		if rerr == nil {
			return "nil-hook-accepted"
		}
		body := append(append(wEED(2601, 0, "duplicate key\n"), wEnvChange([3]string{"\x01", "db1", "master"})...), wDone(0xFD, 0, 0, 0)...)
		e.mc.feed(packetize(body, nil, 4, 0))
		out := watchdog(wd, func() string {
			ctx, cancel := context.WithTimeout(context.Background(), time.Second)
			defer cancel()
			pkg, err := ch.NextPackage(ctx, true)
			return "next=" + classify(pkg, err)
		})
		e.mc.feed(packetize(wDone(0xFD, 0, 0, 0), nil, 4, 0)) // the answer to the logout
		out += " " + watchdog(wd, func() string { e.conn.Close(); return "connclose=ok" })
		if readerEnded(done) {
			return out + " reader=ended"
		}
		return out + " reader=alive"
	case "queued-then-error":
		// n packages have arrived and the peer has gone (the connection's error queue holds the read error):
		// the consumer gets what was received first, each package in its turn, and only then the error
		n := arg(2)
		e, _ := newLifeEnvOwnReader(100)
		defer e.conn.VerifCancel()
		defer e.mc.Close()
		ch := e.conn.VerifNewChannel(0)
		e.feedDone(0, n, false)
		if !waitQueued(ch, n) {
			return "setup"
		}
		e.mc.end()
		for i := 0; i < 300 && len(e.conn.VerifErrCh()) == 0; i++ {
			time.Sleep(time.Millisecond)
		}
		return watchdog(wd, func() string {
			var got []string
			for i := 0; i <= n; i++ {
				ctx, cancel := context.WithTimeout(context.Background(), time.Second)
				pkg, err := ch.NextPackage(ctx, true)
				cancel()
				got = append(got, classify(pkg, err))
			}
			return "recv=" + strings.Join(got, ",")
		})
	case "close-refused":
		// Close of a logical channel whose teardown packet the transport refuses (scenario shared with C12:
		// `mux closefail`): Close reports it, the channel is closed and no longer routed all the same
		return strings.ReplaceAll(muxImpl("mux closefail "+f[2]), " ", "_")
	case "unknown-token":
		// the peer sends a message that starts with a token the library has no package for (TDS_INFO, TDS_CONTROL,
		// TDS_OFFSET … are part of the protocol), <len> bytes long, then a message with a DONE: the reader is not
		// stuck on it — the consumer gets a package, Conn.Close returns and the reader ends
		tok, n := arg(2), arg(3)
		e, done := newLifeEnvOwnReader(100)
		ch := e.conn.VerifNewChannel(0)
		body := append([]byte{byte(tok)}, genBytes(n, tok)...)
		e.mc.feed(packetize(body, nil, 4, 0))
		e.mc.feed(packetize(wDone(0xFD, 0, 0, 0), nil, 4, 0))
		out := watchdog(wd, func() string {
			ctx, cancel := context.WithTimeout(context.Background(), time.Second)
			defer cancel()
			pkg, err := ch.NextPackage(ctx, true)
			return "next=" + classify(pkg, err)
		})
		e.mc.feed(packetize(wDone(0xFD, 0, 0, 0), nil, 4, 0)) // the answer to the logout
		out += " " + watchdog(wd, func() string { e.conn.Close(); return "connclose=ok" })
		if readerEnded(done) {
			return out + " reader=ended"
		}
		return out + " reader=alive"
	case "reader-exit":
		nerr := arg(2)
		e, done := newLifeEnvOwnReader(100)
		_ = e.conn.VerifNewChannel(0)
		e.mc.end() // peer closes: every header read now fails with EOF
		for i := 0; i < 300 && len(e.conn.VerifErrCh()) < nerr; i++ {
			time.Sleep(time.Millisecond)
		}
		e.mc.feed(packetize(wDone(0xFD, 0, 0, 0), nil, 4, 0))
		out := watchdog(wd, func() string { e.conn.Close(); return "connclose=ok" })
		if readerEnded(done) {
			return out + " reader=ended"
		}
		return out + " reader=alive"
	}
	return "bad-op"
}

func lifeOracle(line, out string) string {
	f := strings.Fields(line)
	if strings.Contains(out, "panic") {
		return "no call panics"
	}
	if strings.Contains(out, "blocked") {
		switch f[1] {
		case "abandon-close":
			return "after a channel is closed every call on it reports the closed condition (it does not block)"
		case "close-pending", "close-errors", "close-connerrs", "closed-ops", "double-close", "conn-close", "reader-exit", "reader-exit-unknown", "close-waiting", "unknown-token", "refused-hook":
			return "Close returns in bounded time whatever the state of the receive queue and the peer"
		}
		return "a call with a cancelled context returns promptly"
	}
	kv := map[string]string{}
	for _, t := range strings.Fields(out) {
		if i := strings.Index(t, "="); i > 0 {
			kv[t[:i]] = t[i+1:]
		}
	}
	if f[1] == "queued-then-error" {
		n, _ := strconv.Atoi(f[2])
		want := "recv=" + strings.Repeat("pkg,", n) + "err"
		if out != want {
			return "what was received is handed out before an error queued behind it (then the error, promptly)"
		}
		return ""
	}
	if f[1] == "close-refused" {
		if out != "ok_closefail" {
			return "closing a channel tears it down on the client side whether or not the transport takes the teardown packet: " + strings.ReplaceAll(out, "_", " ")
		}
		return ""
	}
	switch f[1] {
	case "cancel-recv", "conn-cancel-recv":
		if strings.Contains(out, "slow") {
			return "a call with a cancelled context returns promptly"
		}
		q, _ := strconv.Atoi(f[2])
		r := kv["recv"]
		if q == 0 && r == "pkg" {
			// a package may have arrived and been queued before the select looked: allowed
			return ""
		}
		if r != "pkg" && r != "ctx" && r != "err" {
			return "a receive with a cancelled context returns a queued package or an error wrapping the context error"
		}
	case "cancel-send":
		if kv["send"] != "ctx" {
			return "a send with a cancelled context reports the context error"
		}
		if kv["wire"] != "0" {
			return "a send with a cancelled context writes nothing"
		}
		// Observation (not judged, the property does not speak about it): the bytes queued by the
		// cancelled send stay in the transmit queue and are carried by the next message (body2 > 1).
	case "cancel-mid-send":
		n, _ := strconv.Atoi(f[2])
		k, _ := strconv.Atoi(f[3])
		total := (n + 503) / 504 // packets of the message at packet size 512
		if k >= 1 && k < total {
			if kv["send"] != "ctx" {
				return "a send whose context is cancelled between two packets reports the context error"
			}
			if kv["packets"] != strconv.Itoa(k) {
				return "no packet is written after the context was cancelled"
			}
		} else if kv["send"] != "ok" || kv["packets"] != strconv.Itoa(total) {
			return "a send whose context stays live until the last packet is written succeeds"
		}
	case "closed-ops":
		for _, k := range []string{"next", "until", "queue", "flush", "send", "late"} {
			if kv[k] != "closed" {
				return "after Close every call reports the closed condition and nothing is delivered"
			}
		}
		if kv["latewrite"] != "ok" {
			return "a packet arriving for a channel that was just closed is dropped (it does not hold up the reader)"
		}
		if kv["written"] != "0" {
			return "after Close nothing is sent"
		}
	case "close-waiting":
		if kv["recv"] != "ctx" && kv["recv"] != "closed" {
			return "a receive call that is waiting when the channel is closed ends with the context's error or the closed condition (never without a package and without an error)"
		}
		if kv["after"] != "closed" {
			return "after Close every call reports the closed condition"
		}
	case "double-close":
		if kv["close2"] != "closed" {
			return "a second Close reports the closed condition"
		}
	case "conn-close":
		for k, v := range kv {
			if strings.HasPrefix(k, "ch") && v != "closed" {
				return "closing the connection closes all its channels"
			}
		}
		if kv["transport"] != "closed" {
			return "closing the connection closes the transport"
		}
		if kv["reader"] != "ended" {
			return "closing the connection ends the reader"
		}
	case "reader-exit", "reader-exit-unknown", "unknown-token", "refused-hook":
		if f[1] == "refused-hook" && kv["next"] != "pkg" {
			return "a refused hook registration does not hold up the delivery of what arrives afterwards"
		}
		if f[1] == "unknown-token" && kv["next"] != "pkg" {
			return "a message with a token the library does not know does not stop the delivery of what follows"
		}
		if kv["reader"] != "ended" {
			return "closing the connection ends the reader"
		}
	}
	return ""
}

func init() {
	register(&Prop{
		ID: "C13",
		Gen: func(tier string, rng *rand.Rand, emit func(Case)) {
			for _, q := range []int{0, 1, 2, 5} {
				for _, a := range []int{0, 1, 3} {
					for _, w := range []string{"n", "u"} {
						emit(Case{Line: fmt.Sprintf("life cancel-recv %d %d %s", q, a, w), Kind: "cancel-recv"})
					}
				}
				emit(Case{Line: fmt.Sprintf("life conn-cancel-recv %d", q), Kind: "cancel-recv"})
			}
			for _, n := range []int{1, 100, 504, 505, 2000} {
				emit(Case{Line: fmt.Sprintf("life cancel-send %d", n), Kind: "cancel-send"})
			}
			// cancel (caller's / connection's context) while packet k of a multi-packet message is written
			for _, n := range []int{504, 505, 1008, 1009, 2000, 5000} {
				total := (n + 503) / 504
				for k := 1; k <= total; k++ {
					for _, w := range []string{"c", "n"} {
						emit(Case{Line: fmt.Sprintf("life cancel-mid-send %d %d %s", n, k, w), Kind: "cancel-mid-send"})
					}
				}
			}
			for _, w := range []string{"c", "n"} {
				emit(Case{Line: "life abandon-close " + w, Kind: "closed"})
			}
			for _, c := range []int{0, 1, 2} {
				emit(Case{Line: fmt.Sprintf("life close-waiting %d", c), Kind: "close-while-receiving"})
			}
			for _, k := range []int{0, 9, 10, 11, 14} {
				emit(Case{Line: fmt.Sprintf("life close-connerrs %d %s", k, []string{"0", "8", "70000", "x"}[k%4]), Kind: "close-with-full-connection-errors"})
			}
			for _, c := range []int{0, 1, 7} {
				emit(Case{Line: fmt.Sprintf("life closed-ops %d", c), Kind: "closed"})
				emit(Case{Line: fmt.Sprintf("life double-close %d", c), Kind: "closed"})
			}
			for _, nc := range []int{0, 1, 3} {
				for _, p := range []int{0, 2} {
					emit(Case{Line: fmt.Sprintf("life conn-close %d %d", nc, p), Kind: "conn-close"})
				}
			}
			// a logical channel closed earlier: the ids of the remaining channels have a gap
			for _, c := range [][2]int{{3, 1}, {4, 1}, {4, 2}, {5, 3}, {2, 1}} {
				emit(Case{Line: fmt.Sprintf("life conn-close %d %d %d", c[0], 2*(c[1]%2), c[1]), Kind: "conn-close-gap"})
			}
			caps := []int{2, 5}
			if tier == "thorough" {
				caps = []int{1, 2, 5, 20, 100}
			}
			for _, qc := range caps {
				for _, d := range []int{-2, -1, 0, 1, 2, 8} {
					p := qc + d
					if p < 0 {
						continue
					}
					for _, c := range []int{0, 3} {
						emit(Case{Line: fmt.Sprintf("life close-pending %d %d %d", c, p, qc), Kind: "close-pending"})
					}
				}
			}
			for _, n := range []int{0, 3, 10} {
				emit(Case{Line: fmt.Sprintf("life reader-exit %d", n), Kind: "reader-exit"})
				emit(Case{Line: fmt.Sprintf("life reader-exit-unknown %d", n+3), Kind: "reader-exit"})
				for k := 11; k <= 14; k++ { // just beyond the capacity of the error queue (10)
					emit(Case{Line: fmt.Sprintf("life reader-exit-unknown %d #%d", k, n), Kind: "reader-exit"})
				}
			}
			for _, once := range []int{0, 1} {
				emit(Case{Line: fmt.Sprintf("life close-refused %d", once), Kind: "close-teardown-refused"})
			}
			for _, k := range []int{0, 1} {
				emit(Case{Line: fmt.Sprintf("life refused-hook %d", k), Kind: "refused-hook-then-close"})
			}
			for _, n := range []int{1, 2, 3, 5, 8, 13} {
				for r := 0; r < 3; r++ {
					emit(Case{Line: fmt.Sprintf("life queued-then-error %d #%d", n, r), Kind: "received-before-errors"})
				}
			}
			for _, tok := range []int{0xAB, 0xAE, 0x78, 0x7C, 0xA4, 0x01} { // INFO, CONTROL, OFFSET, PROCID, TABNAME, unassigned
				for _, n := range []int{0, 1, 20, 600} {
					emit(Case{Line: fmt.Sprintf("life unknown-token %d %d", tok, n), Kind: "unknown-token"})
				}
			}
			for _, n := range []int{0, 1, 9, 10, 11, 12, 15, 25} {
				for _, c := range []int{0, 3} {
					emit(Case{Line: fmt.Sprintf("life close-errors %d %d", c, n), Kind: "close-errors"})
				}
			}
		},
		Impl:   lifeImpl,
		Oracle: lifeOracle,
		Agree: func(m, i string) bool {
			// the model answers with the set of allowed answers separated by `|`
			for _, alt := range strings.Split(m, "|") {
				if strings.TrimSpace(alt) == strings.TrimSuffix(i, " slow") {
					return true
				}
			}
			return false
		},
		FindingKey: func(line, out, clause string) string {
			f := strings.Fields(line)
			if f[1] == "close-pending" {
				p, _ := strconv.Atoi(f[3])
				c, _ := strconv.Atoi(f[4])
				if p > c {
					return "close-deadlock-reader-holds-rlock-on-full-queue"
				}
			}
			return f[1] + ":" + clause
		},
		Nontrivial:  func(line, out string) bool { return true },
		Rule:        "scenario scripts on the real Conn/Channel over the in-memory transport, each call under a 1.5 s watchdog: receives with a cancelled call/connection context (0..5 queued, 0..3 arriving packages, NextPackage and NextPackageUntil), sends with a cancelled context (lengths around the packet body size) followed by a live send, sends whose caller's / connection's context is cancelled while packet k of the message is written (every k), every call after Close, double Close, Close of the channel / the connection from a failing callback while the rest of the response is outstanding, Conn.Close with 0..3 channels, Close with an abandoned response of capacity-2..capacity+8 packages, reader exit after 0..10 unconsumed read errors and after 3..15 packets for an unregistered channel",
		Serial:      true,
		Timed:       true, // answers depend on a 1.5 s watchdog: a failing case is re-run alone before it counts
		NoShrink:    true,
		Timeout:     20 * time.Second,
		Assumptions: []string{"wall-clock promptness is observed with a 1.5 s watchdog / 0.5 s slowness bound; the Lean model counts steps", "Go's select picks any ready case"},
	})
	_ = sort.Strings
}

// rule addenda (rounds 9-12): what the evidence says about the coverage of a run
func init() {
	if p := registry["C13"]; p != nil {
		p.Rule += " close-refused (teardown packet refused), unknown-token (a message starting with a token without a package type, then a DONE, then Conn.Close)."
	}
}
