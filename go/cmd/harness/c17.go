package main

// C17 — Connection descriptions round-trip and never crash the parser.
//
// Line protocol (model keyword `dsn`, struct id <sid> = t | ab | tds | info):
//   dsn table <sid>                        -> table <keyhex>=<fieldindex><kind>,...   sorted by key
//   dsn psimple <sid> <texthex>            -> ok k=v;... | err | panic       ParseSimple into a zero struct
//   dsn fsimple <sid> <v1> ... <vn>        -> text <texthex>                 FormatSimple
//   dsn rtsimple <sid> <v1> ... <vn>       -> ParseSimple(FormatSimple(values)) into a zero struct
//   dsn kv <sid> <khex>:<d|s|n>:<vhex> ... -> ParseSimple of the pairs (double quoted / single quoted / bare) joined by one space
// oracle only (NoModel, the URI leg and the dispatcher are not modelled in Lean):
//   dsn puri <sid> <texthex>               -> ParseURI
//   dsn pany <sid> <texthex>               -> Parse (dispatch on "://")
//   dsn rturi <sid> <v1> ... <vn>          -> ParseURI(FormatURI(values)) | ferr (FormatURI failed)
//   dsn uriq <sid> <khex>:<vhex> ...       -> ParseURI("//u:p@h:1/d?" + escaped pairs joined by &)
//   dsn sweep <sid> <n> <prefixhex>        -> swept <count> | panic:<texthex>   ParseSimple and Parse on prefix+s for EVERY s of length n over the alphabet
// values: string fields as hex of the bytes ("-" = empty), bool fields true|false, int fields decimal.

import (
	"encoding/hex"
	"math"
	"math/rand"
	"net/url"
	"reflect"
	"sort"
	"strconv"
	"strings"
	"time"
	"unicode"
	"unicode/utf8"

	"github.com/SAP/go-dblib/dsn"
	"github.com/SAP/go-dblib/tds"
)

// c17Info is mirrored by `specsT` in lean/Dblib/Model/Dsn.lean.
type c17Info struct {
	dsn.Info
	Flag  bool   `json:"flag" multiref:"f"`
	Count int    `json:"count" multiref:"n,cnt"`
	Note  string `json:"note"`
}

// c17AB is mirrored by `specsAB`: one-letter keys so that many strings of the exhaustive
// alphabet parse successfully.
type c17AB struct {
	A string `json:"a"`
	B string `json:"b" multiref:"ab,ba"`
}

func c17New(sid string) interface{} {
	switch sid {
	case "t":
		return new(c17Info)
	case "ab":
		return new(c17AB)
	case "tds":
		return new(tds.Info)
	case "info":
		return new(dsn.Info)
	}
	return nil
}

type c17Field struct {
	json    string
	aliases []string // listed (non-empty) multiref names
	kind    reflect.Kind
	val     reflect.Value
}

// c17Flat reads the struct shape itself (not through dsn.TagToField): tagged fields in order,
// embedded structs flattened in place.
func c17Flat(v reflect.Value) []c17Field {
	if v.Kind() == reflect.Ptr {
		v = v.Elem()
	}
	var out []c17Field
	for i := 0; i < v.NumField(); i++ {
		f := v.Field(i)
		if f.Kind() == reflect.Struct {
			out = append(out, c17Flat(f)...)
			continue
		}
		tag := v.Type().Field(i).Tag
		name := strings.Split(tag.Get("json"), ",")[0]
		if name == "" {
			continue
		}
		var al []string
		for _, a := range strings.Split(tag.Get("multiref"), ",") {
			if a != "" {
				al = append(al, a)
			}
		}
		out = append(out, c17Field{name, al, f.Kind(), f})
	}
	return out
}

func c17hx(s string) string {
	if len(s) == 0 {
		return "-"
	}
	return hex.EncodeToString([]byte(s))
}

func c17unhx(s string) (string, bool) {
	if s == "-" {
		return "", true
	}
	b, err := hex.DecodeString(s)
	if err != nil {
		return "", false
	}
	return string(b), true
}

func c17Show(target interface{}) string {
	fs := c17Flat(reflect.ValueOf(target))
	parts := make([]string, len(fs))
	for i, f := range fs {
		switch f.kind {
		case reflect.String:
			parts[i] = f.json + "=" + c17hx(f.val.String())
		case reflect.Bool:
			parts[i] = f.json + "=" + strconv.FormatBool(f.val.Bool())
		case reflect.Int:
			parts[i] = f.json + "=" + strconv.FormatInt(f.val.Int(), 10)
		default:
			parts[i] = f.json + "=?"
		}
	}
	return "ok " + strings.Join(parts, ";")
}

// c17Set fills a fresh struct from value tokens; nil if malformed.
func c17Set(sid string, toks []string) interface{} {
	target := c17New(sid)
	if target == nil {
		return nil
	}
	fs := c17Flat(reflect.ValueOf(target))
	if len(fs) != len(toks) {
		return nil
	}
	for i, f := range fs {
		switch f.kind {
		case reflect.String:
			s, ok := c17unhx(toks[i])
			if !ok {
				return nil
			}
			f.val.SetString(s)
		case reflect.Bool:
			if toks[i] != "true" && toks[i] != "false" {
				return nil
			}
			f.val.SetBool(toks[i] == "true")
		case reflect.Int:
			n, err := strconv.ParseInt(toks[i], 10, 64)
			if err != nil {
				return nil
			}
			f.val.SetInt(n)
		default:
			return nil
		}
	}
	return target
}

type c17Pair struct{ k, sty, v string }

func c17Pairs(toks []string, withStyle bool) ([]c17Pair, bool) {
	var ps []c17Pair
	for _, t := range toks {
		f := strings.Split(t, ":")
		if withStyle {
			if len(f) != 3 || (f[1] != "d" && f[1] != "s" && f[1] != "n") {
				return nil, false
			}
		} else if len(f) != 2 {
			return nil, false
		}
		k, ok1 := c17unhx(f[0])
		v, ok2 := c17unhx(f[len(f)-1])
		if !ok1 || !ok2 {
			return nil, false
		}
		p := c17Pair{k: k, v: v}
		if withStyle {
			p.sty = f[1]
		}
		ps = append(ps, p)
	}
	return ps, true
}

func c17SimpleText(ps []c17Pair) string {
	parts := make([]string, len(ps))
	for i, p := range ps {
		switch p.sty {
		case "d":
			parts[i] = p.k + `="` + p.v + `"`
		case "s":
			parts[i] = p.k + `='` + p.v + `'`
		default:
			parts[i] = p.k + "=" + p.v
		}
	}
	return strings.Join(parts, " ")
}

const c17BaseURI = "//u:p@h:1/d?"

func c17URIText(ps []c17Pair) string {
	parts := make([]string, len(ps))
	for i, p := range ps {
		parts[i] = url.QueryEscape(p.k) + "=" + url.QueryEscape(p.v)
	}
	return c17BaseURI + strings.Join(parts, "&")
}

func c17Impl(line string) string {
	f := strings.Fields(line)
	if len(f) < 3 || f[0] != "dsn" {
		return "bad-op"
	}
	op, sid, args := f[1], f[2], f[3:]
	target := c17New(sid)
	if target == nil {
		return "bad-op"
	}
	parse := func(fn func(string, interface{}) error, text string) string {
		if err := fn(text, target); err != nil {
			return "err"
		}
		return c17Show(target)
	}
	// dsn.Parse is the entry point most callers use: it picks the form by the presence of "://" and must then
	// answer exactly like the parser of that form
	viaWrapper := func(direct, text string, uri bool) string {
		if strings.Contains(text, "://") != uri {
			return direct
		}
		if w := parse(dsn.Parse, text); w != direct {
			return "wrapper-differs:" + w
		}
		return direct
	}
	switch op {
	case "table":
		if len(args) != 0 {
			return "bad-op"
		}
		fs := c17Flat(reflect.ValueOf(target))
		ttf := dsn.TagToField(target, dsn.Multiref)
		keys := make([]string, 0, len(ttf))
		for k := range ttf {
			keys = append(keys, k)
		}
		sort.Strings(keys)
		parts := []string{}
		for _, k := range keys {
			v := ttf[k]
			idx := "?"
			for i, fl := range fs {
				if v.CanAddr() && fl.val.Addr().Pointer() == v.Addr().Pointer() && fl.kind == v.Kind() {
					idx = strconv.Itoa(i) + map[reflect.Kind]string{reflect.String: "s", reflect.Bool: "b", reflect.Int: "i"}[v.Kind()]
				}
			}
			parts = append(parts, c17hx(k)+"="+idx)
		}
		return "table " + strings.Join(parts, ",")
	case "psimple", "puri", "pany":
		if len(args) != 1 {
			return "bad-op"
		}
		text, ok := c17unhx(args[0])
		if !ok {
			return "bad-op"
		}
		switch op {
		case "psimple":
			return viaWrapper(parse(dsn.ParseSimple, text), text, false)
		case "puri":
			return viaWrapper(parse(dsn.ParseURI, text), text, true)
		}
		return parse(dsn.Parse, text)
	case "fsimple", "rtsimple", "rturi":
		src := c17Set(sid, args)
		if src == nil {
			return "bad-op"
		}
		switch op {
		case "fsimple":
			return "text " + c17hx(dsn.FormatSimple(src))
		case "rtsimple":
			text := dsn.FormatSimple(src)
			return viaWrapper(parse(dsn.ParseSimple, text), text, false)
		}
		u, err := dsn.FormatURI(src)
		if err != nil {
			return "ferr"
		}
		return viaWrapper(parse(dsn.ParseURI, u), u, true)
	case "sweep":
		if len(args) != 2 {
			return "bad-op"
		}
		n, err := strconv.Atoi(args[0])
		pfx, ok := c17unhx(args[1])
		if err != nil || !ok || n < 0 || n > 8 {
			return "bad-op"
		}
		count, bad := 0, ""
		try := func(text string) {
			defer func() {
				if r := recover(); r != nil && bad == "" {
					bad = text
				}
			}()
			dsn.ParseSimple(text, c17New(sid))
			if sid != "ab" { // ParseURI needs a struct with hostname/port/username/password keys
				dsn.Parse(text, c17New(sid))
			}
		}
		c17Exhaustive(n, func(x string) {
			if bad == "" {
				try(pfx + x)
				count++
			}
		})
		if bad != "" {
			return "panic:" + c17hx(bad)
		}
		return "swept " + strconv.Itoa(count)
	case "kv":
		ps, ok := c17Pairs(args, true)
		if !ok {
			return "bad-op"
		}
		return parse(dsn.ParseSimple, c17SimpleText(ps))
	case "uriq":
		ps, ok := c17Pairs(args, false)
		if !ok {
			return "bad-op"
		}
		return parse(dsn.ParseURI, c17URIText(ps))
	}
	return "bad-op"
}

// ---------------------------------------------------------------------------------------------
// oracle, written from the property text

// c17Plain: text of the simple form's documented alphabet — free of quotes, backslashes and
// control characters. Restriction stated in Rule/Assumptions: valid UTF-8 whose runes satisfy
// strconv.IsPrint (FormatSimple writes strings with %q, which escapes every other rune).
func c17Plain(s string) bool {
	if !utf8.ValidString(s) {
		return false
	}
	for _, r := range s {
		if r == '\'' || r == '"' || r == '\\' || unicode.IsControl(r) {
			return false
		}
	}
	return true
}

// c17HasUnprintable: the text contains a rune that is no control character but not
// strconv.IsPrint (U+00A0, U+00AD, U+200B, U+2028, U+3000, private use, unassigned …): FormatSimple
// writes it as \u.... (%q) and ParseSimple does not unescape — known finding, see known_findings.json.
func c17HasUnprintable(s string) bool {
	for _, r := range s {
		if !unicode.IsControl(r) && !strconv.IsPrint(r) {
			return true
		}
	}
	return false
}

func c17KeyOf(fs []c17Field, key string) int {
	idx := -1
	for i, f := range fs {
		if f.json == key {
			idx = i
		}
		for _, a := range f.aliases {
			if a == key {
				idx = i
			}
		}
	}
	return idx
}

// c17Assign applies a textual value to a field of the expectation; false = not a valid
// boolean / integer text.
func c17Assign(f c17Field, v string) bool {
	switch f.kind {
	case reflect.String:
		f.val.SetString(v)
	case reflect.Bool:
		b, err := strconv.ParseBool(v)
		if err != nil {
			return false
		}
		f.val.SetBool(b)
	case reflect.Int:
		n, err := strconv.ParseInt(v, 10, 64)
		if err != nil {
			return false
		}
		f.val.SetInt(n)
	default:
		return false
	}
	return true
}

const (
	c17ClPanic   = "no input string whatsoever makes parsing panic"
	c17ClRtS     = "a description written in simple form and parsed back yields the same field values"
	c17ClRtU     = "a description written as a URI and parsed back yields the same field values"
	c17ClLater   = "a later occurrence of a key or of one of its aliases overrides an earlier one"
	c17ClUnknown = "keys that match no field are rejected with an error"
	c17ClLastURI = "in the URI form the last value of a repeated key wins"
	c17ClTable   = "the keys of a struct are exactly its json names and listed aliases"
)

type c17DocKey struct {
	key   string
	field int
	kind  string
}

// c17Documented: key → (field number in declaration order, kind) of dsn.Info and tds.Info as documented
// (README of dsn, doc tags): host|hostname, port, username|user, password|passwd|pass, database|db, and the
// driver's own members
var c17DocInfo = []c17DocKey{{"host", 0, "s"}, {"hostname", 0, "s"}, {"port", 1, "s"}, {"username", 2, "s"}, {"user", 2, "s"},
	{"password", 3, "s"}, {"passwd", 3, "s"}, {"pass", 3, "s"}, {"database", 4, "s"}, {"db", 4, "s"}}
var c17Documented = map[string][]c17DocKey{
	"info": c17DocInfo,
	"tds": append(append([]c17DocKey{}, c17DocInfo...), c17DocKey{"network", 5, "s"}, c17DocKey{"client-hostname", 6, "s"},
		c17DocKey{"tls-enable", 7, "b"}, c17DocKey{"tls-hostname", 8, "s"}, c17DocKey{"tls-skip-validation", 9, "b"},
		c17DocKey{"tls-ca-file", 10, "s"}, c17DocKey{"packet-read-timeout", 11, "i"}, c17DocKey{"channel-package-queue-size", 12, "i"},
		c17DocKey{"debug-log-packages", 13, "b"}),
}

func c17Oracle(line, out string) string {
	f := strings.Fields(line)
	if len(f) < 3 {
		return ""
	}
	op, sid, args := f[1], f[2], f[3:]
	if strings.HasPrefix(out, "panic") {
		return c17ClPanic
	}
	if out == "bad-op" || out == "timeout" {
		return ""
	}
	switch op {
	case "table":
		fs := c17Flat(reflect.ValueOf(c17New(sid)))
		want := map[string]int{}
		for i, fl := range fs {
			want[fl.json] = i
			for _, a := range fl.aliases {
				want[a] = i
			}
		}
		keys := []string{}
		for k := range want {
			keys = append(keys, k)
		}
		sort.Strings(keys)
		parts := []string{}
		for _, k := range keys {
			fl := fs[want[k]]
			parts = append(parts, c17hx(k)+"="+strconv.Itoa(want[k])+map[reflect.Kind]string{reflect.String: "s", reflect.Bool: "b", reflect.Int: "i"}[fl.kind])
		}
		if out != "table "+strings.Join(parts, ",") {
			return c17ClTable
		}
		// the library's own structs: their documented keys and aliases are written down here (the struct tags
		// are code under test — an expectation read from them follows a slip in them)
		if doc, ok := c17Documented[sid]; ok {
			// every documented key is there and names its member (further aliases may be added: only the
			// absence or the re-targeting of a documented key breaks what users rely on); members are compared
			// by the json name they resolve to, so that added members do not shift anything
			got := map[string]string{}
			for _, e := range strings.Split(strings.TrimPrefix(out, "table "), ",") {
				if kv := strings.SplitN(e, "=", 2); len(kv) == 2 {
					if k, ok := c17unhx(kv[0]); ok {
						got[k] = kv[1]
					}
				}
			}
			canon := map[int]string{}
			for _, e := range doc {
				if _, ok := canon[e.field]; !ok {
					canon[e.field] = e.key // the first key listed for a member is its json name
				}
			}
			for _, e := range doc {
				if got[e.key] == "" || got[e.key] != got[canon[e.field]] || !strings.HasSuffix(got[e.key], e.kind) {
					return c17ClTable + " (documented key " + e.key + " of the library's own struct)"
				}
			}
		}
	case "rtsimple", "rturi":
		src := c17Set(sid, args)
		if src == nil {
			return ""
		}
		fs := c17Flat(reflect.ValueOf(src))
		for _, fl := range fs {
			if fl.kind != reflect.String {
				continue
			}
			s := fl.val.String()
			if op == "rtsimple" && !c17Plain(s) {
				return "" // outside the documented alphabet: only "no panic" is claimed
			}
			if op == "rturi" && (fl.json == "host" || fl.json == "port") && !c17BenignHostPort(fl.json, s) {
				return "" // the URI clause speaks of user, password, database and additional properties
			}
		}
		if out != c17Show(src) {
			if op == "rtsimple" {
				if len(fs) == 0 {
					return ""
				}
				return c17ClRtS
			}
			return c17ClRtU
		}
	case "kv":
		ps, ok := c17Pairs(args, true)
		if !ok || len(ps) == 0 {
			return ""
		}
		exp := c17New(sid)
		fs := c17Flat(reflect.ValueOf(exp))
		wantErr, unknown := false, false
		for _, p := range ps {
			// applicability: values of the documented alphabet; a bare value cannot hold a space;
			// keys are plain words
			if !c17Plain(p.v) || (p.sty == "n" && strings.Contains(p.v, " ")) ||
				!c17Plain(p.k) || strings.ContainsAny(p.k, " =") {
				return ""
			}
			i := c17KeyOf(fs, p.k)
			if i < 0 {
				wantErr, unknown = true, true
				continue
			}
			if !c17Assign(fs[i], p.v) {
				wantErr = true
			}
		}
		if wantErr {
			if out != "err" {
				if unknown {
					return c17ClUnknown
				}
				return "a value that is no boolean / integer text is an error"
			}
			return ""
		}
		if out != c17Show(exp) {
			return c17ClLater
		}
	case "uriq":
		ps, ok := c17Pairs(args, false)
		if !ok {
			return ""
		}
		exp := c17New(sid)
		fs := c17Flat(reflect.ValueOf(exp))
		for _, fl := range fs {
			switch fl.json {
			case "host":
				fl.val.SetString("h")
			case "port":
				fl.val.SetString("1")
			case "username":
				fl.val.SetString("u")
			case "password":
				fl.val.SetString("p")
			case "database":
				fl.val.SetString("d")
			}
		}
		last := map[string]string{}
		order := []string{}
		for _, p := range ps {
			if _, seen := last[p.k]; !seen {
				order = append(order, p.k)
			}
			last[p.k] = p.v
		}
		hit := map[int]int{}
		wantErr, unknown := false, false
		for _, k := range order {
			i := c17KeyOf(fs, k)
			if i < 0 {
				wantErr, unknown = true, true
				continue
			}
			hit[i]++
			if !c17Assign(fs[i], last[k]) {
				wantErr = true
			}
		}
		for _, n := range hit {
			if n > 1 {
				return "" // different keys of one field in one URI: order of a Go map, nothing is claimed
			}
		}
		if wantErr {
			if out != "err" {
				if unknown {
					return c17ClUnknown
				}
				return "a value that is no boolean / integer text is an error"
			}
			return ""
		}
		if out != c17Show(exp) {
			return c17ClLastURI
		}
	}
	return ""
}

func c17BenignHostPort(name, s string) bool {
	if name == "port" {
		for _, c := range s {
			if c < '0' || c > '9' {
				return false
			}
		}
		return true
	}
	for _, c := range s {
		if !(c >= 'a' && c <= 'z' || c >= 'A' && c <= 'Z' || c >= '0' && c <= '9' || c == '.' || c == '-') {
			return false
		}
	}
	return true
}

// ---------------------------------------------------------------------------------------------
// generators

var c17Alphabet = []byte{'\'', '"', ' ', '=', 'a', 'b', ':', '/', '?', '&', '%', '@'}

// c17Exhaustive calls fn for every string over the alphabet of length exactly n.
func c17Exhaustive(n int, fn func(string)) {
	buf := make([]byte, n)
	var rec func(i int)
	rec = func(i int) {
		if i == n {
			fn(string(buf))
			return
		}
		for _, c := range c17Alphabet {
			buf[i] = c
			rec(i + 1)
		}
	}
	rec(0)
}

var c17PlainRunes = []rune("abcxyzABZ0159 =  ==:/?&%@,;-_.!#$()*+<>[]{}|~^`éßЖ中☃😀\uFFFD")
var c17UnicodeRunes = []rune("aZ0 =:/?&%@+#;'\"\\\u00a0\u00ad\u200b\u2028\u3000\ue000éßЖ中☃😀\uFFFD\x00\n\t\x7f\u0080")

func c17RandPlain(rng *rand.Rand, maxLen int) string {
	n := rng.Intn(maxLen + 1)
	var sb strings.Builder
	for i := 0; i < n; i++ {
		sb.WriteRune(c17PlainRunes[rng.Intn(len(c17PlainRunes))])
	}
	s := sb.String()
	switch rng.Intn(8) {
	case 0:
		s = " " + s
	case 1:
		s = s + " "
	case 2:
		s = "  " + s + "  "
	case 3:
		s = "=" + s
	}
	return s
}

func c17RandUnicode(rng *rand.Rand, maxLen int) string {
	n := rng.Intn(maxLen + 1)
	var sb strings.Builder
	for i := 0; i < n; i++ {
		switch rng.Intn(12) {
		case 0:
			sb.WriteRune(rune(rng.Intn(0x11000)))
		case 1:
			sb.WriteByte(byte(0x80 + rng.Intn(0x80))) // invalid UTF-8
		default:
			sb.WriteRune(c17UnicodeRunes[rng.Intn(len(c17UnicodeRunes))])
		}
	}
	return sb.String()
}

func c17RandInt(rng *rand.Rand) int64 {
	switch rng.Intn(8) {
	case 0:
		return 0
	case 1:
		return math.MaxInt64
	case 2:
		return math.MinInt64
	case 3:
		return -1
	case 4:
		return int64(rng.Intn(2000)) - 1000
	}
	return int64(rng.Uint64())
}

// c17RandVals: value tokens for a struct; str yields the string fields.
func c17RandVals(rng *rand.Rand, sid string, str func(name string) string) string {
	fs := c17Flat(reflect.ValueOf(c17New(sid)))
	toks := make([]string, len(fs))
	for i, f := range fs {
		switch f.kind {
		case reflect.String:
			toks[i] = c17hx(str(f.json))
		case reflect.Bool:
			toks[i] = strconv.FormatBool(rng.Intn(2) == 0)
		default:
			toks[i] = strconv.FormatInt(c17RandInt(rng), 10)
		}
	}
	return strings.Join(toks, " ")
}

func c17AllKeys(sid string) (keys []string, kinds map[string]reflect.Kind) {
	kinds = map[string]reflect.Kind{}
	for _, f := range c17Flat(reflect.ValueOf(c17New(sid))) {
		keys = append(keys, f.json)
		kinds[f.json] = f.kind
		for _, a := range f.aliases {
			keys = append(keys, a)
			kinds[a] = f.kind
		}
	}
	return
}

var c17BoolTexts = []string{"true", "false", "1", "0", "t", "f", "T", "F", "TRUE", "FALSE", "True", "False"}
var c17BadBools = []string{"", "yes", "tRUE", "2", " true", "true "}
var c17IntTexts = []string{"0", "-0", "+5", "007", "-9223372036854775808", "9223372036854775807", "42", "-17"}
var c17BadInts = []string{"", "-", "+", "1_0", "0x10", "9223372036854775808", "-9223372036854775809", "1.0", " 1", "1 ", "१"}
var c17UnknownKeys = []string{"", "x", "Host", "hos", "hostt", "host ", "fl", "json", "multiref", "é", "-"}

func c17Gen(tier string, rng *rand.Rand, emit func(Case)) {
	thorough := tier == "thorough"
	for _, sid := range []string{"t", "ab", "tds", "info"} {
		emit(Case{Line: "dsn table " + sid, Kind: "table"})
	}

	// 1. totality, exhaustive: every string over the 12-symbol alphabet
	rawLen, pfxLen, uriLen := 5, 4, 4
	if thorough {
		rawLen, pfxLen, uriLen = 6, 5, 5
	}
	for n := 0; n <= rawLen; n++ {
		c17Exhaustive(n, func(s string) {
			emit(Case{Line: "dsn psimple ab " + c17hx(s), Kind: "exhaustive-simple"})
		})
	}
	for _, pfx := range []string{"host=", "note=\"", "f='", "n=", "a b=\""} {
		sid := "t"
		if strings.HasPrefix(pfx, "a ") {
			sid = "ab"
		}
		for n := 0; n <= pfxLen; n++ {
			c17Exhaustive(n, func(s string) {
				emit(Case{Line: "dsn psimple " + sid + " " + c17hx(pfx+s), Kind: "exhaustive-simple-prefixed"})
			})
		}
	}
	for n := 0; n <= uriLen; n++ {
		c17Exhaustive(n, func(s string) {
			emit(Case{Line: "dsn puri info " + c17hx(s), Kind: "exhaustive-uri"})
			emit(Case{Line: "dsn puri t " + c17hx("a://"+s), Kind: "exhaustive-uri"})
			emit(Case{Line: "dsn pany t " + c17hx(s), Kind: "exhaustive-parse"})
		})
	}

	// the same space one symbol deeper (length rawLen+1, prefixed pfxLen+1), real code only:
	// one case per first symbol, the case enumerates the rest itself
	for _, c := range c17Alphabet {
		emit(Case{Line: "dsn sweep ab " + strconv.Itoa(rawLen) + " " + c17hx(string(c)), Kind: "sweep"})
		emit(Case{Line: "dsn sweep t " + strconv.Itoa(rawLen) + " " + c17hx(string(c)), Kind: "sweep"})
		for _, pfx := range []string{"host=", "note=\"", "f='"} {
			emit(Case{Line: "dsn sweep t " + strconv.Itoa(pfxLen) + " " + c17hx(pfx+string(c)), Kind: "sweep"})
		}
	}

	// 2. totality, random: to length 12 over the alphabet, plus arbitrary bytes / invalid UTF-8
	nRand := 20000
	if thorough {
		nRand = 400000
	}
	for i := 0; i < nRand; i++ {
		n := 6 + rng.Intn(7)
		buf := make([]byte, n)
		for j := range buf {
			buf[j] = c17Alphabet[rng.Intn(len(c17Alphabet))]
		}
		s := string(buf)
		switch i % 4 {
		case 0:
			emit(Case{Line: "dsn psimple ab " + c17hx(s), Kind: "random-simple"})
		case 1:
			emit(Case{Line: "dsn psimple t " + c17hx("host="+s), Kind: "random-simple"})
		case 2:
			emit(Case{Line: "dsn puri info " + c17hx("a://"+s), Kind: "random-uri"})
		default:
			emit(Case{Line: "dsn pany tds " + c17hx(s), Kind: "random-parse"})
		}
	}
	for i := 0; i < nRand/4; i++ {
		keys, _ := c17AllKeys("t")
		s := keys[rng.Intn(len(keys))] + "=" + []string{"", "\"", "'"}[rng.Intn(3)] + c17RandUnicode(rng, 8)
		if rng.Intn(2) == 0 {
			s += []string{"\"", "'", " ", "\" x=\"1", "' note='"}[rng.Intn(5)]
		}
		emit(Case{Line: "dsn psimple t " + c17hx(s), Kind: "random-bytes-simple"})
		emit(Case{Line: "dsn puri t " + c17hx("x://"+c17RandUnicode(rng, 8)+"@h/"+c17RandUnicode(rng, 4)+"?"+c17RandUnicode(rng, 8)), Kind: "random-bytes-uri"})
	}

	// 3. round trips, simple form: the documented alphabet with leading/trailing/multiple spaces, '='
	nRt := 5000
	if thorough {
		nRt = 200000
	}
	edge := []string{"", " ", "  ", "=", "a=", "=a", " a", "a ", " a b  c ", "a=b c=d", "host=x", "x y=z", "=\u00e9 ", "a  b"}
	for _, sid := range []string{"t", "ab", "info"} {
		for _, e := range edge {
			emit(Case{Line: "dsn rtsimple " + sid + " " + c17RandVals(rng, sid, func(string) string { return e }), Kind: "roundtrip-simple-edge"})
			emit(Case{Line: "dsn fsimple " + sid + " " + c17RandVals(rng, sid, func(string) string { return e }), Kind: "format-simple"})
		}
	}
	for i := 0; i < nRt; i++ {
		sid := []string{"t", "t", "ab", "tds", "info"}[rng.Intn(5)]
		vals := c17RandVals(rng, sid, func(string) string {
			if rng.Intn(6) == 0 {
				return edge[rng.Intn(len(edge))]
			}
			return c17RandPlain(rng, 10)
		})
		emit(Case{Line: "dsn rtsimple " + sid + " " + vals, Kind: "roundtrip-simple"})
		if i%5 == 0 {
			emit(Case{Line: "dsn fsimple " + sid + " " + vals, Kind: "format-simple"})
		}
	}
	// values outside the alphabet (quotes, backslashes, control bytes <0x80): model correspondence of
	// %q's ASCII escapes and "no panic" only
	for i := 0; i < nRt/10; i++ {
		ascii := []byte("ab \"'\\=\n\t\x00\x7f\x1b")
		vals := c17RandVals(rng, "t", func(string) string {
			n := rng.Intn(6)
			bs := make([]byte, n)
			for j := range bs {
				bs[j] = ascii[rng.Intn(len(ascii))]
			}
			return string(bs)
		})
		emit(Case{Line: "dsn rtsimple t " + vals, Kind: "roundtrip-simple-escapes"})
		emit(Case{Line: "dsn fsimple t " + vals, Kind: "format-simple-escapes"})
	}

	// 4. later wins / aliases / unknown keys / bool and int syntax (simple form)
	nKv := 5000
	if thorough {
		nKv = 100000
	}
	for _, sid := range []string{"t", "tds"} {
		keys, kinds := c17AllKeys(sid)
		pair := func(k string) string {
			var v, sty string
			switch kinds[k] {
			case reflect.Bool:
				v = c17BoolTexts[rng.Intn(len(c17BoolTexts))]
				if rng.Intn(10) == 0 {
					v = c17BadBools[rng.Intn(len(c17BadBools))]
				}
			case reflect.Int:
				v = c17IntTexts[rng.Intn(len(c17IntTexts))]
				if rng.Intn(10) == 0 {
					v = c17BadInts[rng.Intn(len(c17BadInts))]
				}
			default:
				v = c17RandPlain(rng, 6)
			}
			sty = []string{"d", "s", "n"}[rng.Intn(3)]
			if strings.Contains(v, " ") && sty == "n" {
				sty = "d"
			}
			return c17hx(k) + ":" + sty + ":" + c17hx(v)
		}
		// every key once, every key twice with any alias of the same field
		for _, k := range keys {
			emit(Case{Line: "dsn kv " + sid + " " + pair(k), Kind: "kv-single"})
			for _, k2 := range keys {
				emit(Case{Line: "dsn kv " + sid + " " + pair(k) + " " + pair(k2), Kind: "kv-pairs"})
			}
		}
		for _, u := range c17UnknownKeys {
			emit(Case{Line: "dsn kv " + sid + " " + c17hx(u) + ":d:" + c17hx("v"), Kind: "kv-unknown"})
			emit(Case{Line: "dsn kv " + sid + " " + pair(keys[0]) + " " + c17hx(u) + ":n:" + c17hx("v") + " " + pair(keys[1]), Kind: "kv-unknown"})
		}
		for i := 0; i < nKv/2; i++ {
			n := 1 + rng.Intn(6)
			toks := make([]string, n)
			for j := range toks {
				if rng.Intn(25) == 0 {
					toks[j] = c17hx(c17UnknownKeys[rng.Intn(len(c17UnknownKeys))]) + ":d:" + c17hx(c17RandPlain(rng, 4))
				} else {
					toks[j] = pair(keys[rng.Intn(len(keys))])
				}
			}
			emit(Case{Line: "dsn kv " + sid + " " + strings.Join(toks, " "), Kind: "kv-random"})
		}
	}

	// 5. URI form (oracle only): round trips with full-Unicode user/password/database/properties,
	// last value of a repeated key, unknown keys
	nUri := 5000
	if thorough {
		nUri = 200000
	}
	hosts := []string{"", "h", "db.example.org", "10.0.0.1", "a-b"}
	ports := []string{"", "1", "5000", "65535", "0"}
	for i := 0; i < nUri; i++ {
		sid := []string{"t", "t", "tds", "info"}[rng.Intn(4)]
		vals := c17RandVals(rng, sid, func(name string) string {
			switch name {
			case "host":
				return hosts[rng.Intn(len(hosts))]
			case "port":
				return ports[rng.Intn(len(ports))]
			}
			switch rng.Intn(10) {
			case 0:
				return ""
			case 1:
				return []string{"TURKEY", "KEY", "a KEY b", "://", "a/b?c=d&e#f", "%zz", "+", "%2B", ";", "a;b=c"}[rng.Intn(10)]
			}
			return c17RandUnicode(rng, 10)
		})
		emit(Case{Line: "dsn rturi " + sid + " " + vals, Kind: "roundtrip-uri"})
	}
	for _, sid := range []string{"t", "tds"} {
		keys, kinds := c17AllKeys(sid)
		val := func(k string) string {
			switch kinds[k] {
			case reflect.Bool:
				if rng.Intn(8) == 0 {
					return c17BadBools[rng.Intn(len(c17BadBools))]
				}
				return c17BoolTexts[rng.Intn(len(c17BoolTexts))]
			case reflect.Int:
				if rng.Intn(8) == 0 {
					return c17BadInts[rng.Intn(len(c17BadInts))]
				}
				return c17IntTexts[rng.Intn(len(c17IntTexts))]
			}
			return c17RandUnicode(rng, 6)
		}
		for _, k := range keys {
			emit(Case{Line: "dsn uriq " + sid + " " + c17hx(k) + ":" + c17hx(val(k)) + " " + c17hx(k) + ":" + c17hx(val(k)), Kind: "uri-repeated-key"})
		}
		for _, u := range c17UnknownKeys {
			emit(Case{Line: "dsn uriq " + sid + " " + c17hx(u) + ":" + c17hx("v"), Kind: "uri-unknown-key"})
			emit(Case{Line: "dsn uriq " + sid + " " + c17hx(keys[0]) + ":" + c17hx("x") + " " + c17hx(u) + ":" + c17hx("v"), Kind: "uri-unknown-key"})
		}
		for i := 0; i < nUri/5; i++ {
			n := 1 + rng.Intn(3)
			var toks []string
			for j := 0; j < n; j++ {
				k := keys[rng.Intn(len(keys))]
				if rng.Intn(25) == 0 {
					k = c17UnknownKeys[rng.Intn(len(c17UnknownKeys))]
				}
				for r := 1 + rng.Intn(3); r > 0; r-- {
					toks = append(toks, c17hx(k)+":"+c17hx(val(k)))
				}
			}
			rng.Shuffle(len(toks), func(a, b int) { toks[a], toks[b] = toks[b], toks[a] })
			emit(Case{Line: "dsn uriq " + sid + " " + strings.Join(toks, " "), Kind: "uri-query"})
		}
	}
}

func init() {
	register(&Prop{
		ID:     "C17",
		Gen:    c17Gen,
		Impl:   c17Impl,
		Oracle: c17Oracle,
		NoModel: func(line string) bool {
			f := strings.Fields(line)
			if len(f) < 2 {
				return true
			}
			switch f[1] {
			case "puri", "pany", "rturi", "uriq", "sweep":
				return true
			case "rtsimple", "fsimple":
				// the model's %q is the identity on bytes >= 0x80 (stated assumption); values with
				// runes that %q escapes are judged by the oracle only (known finding)
				if len(f) > 3 {
					if src := c17Set(f[2], f[3:]); src != nil {
						for _, fl := range c17Flat(reflect.ValueOf(src)) {
							if fl.kind == reflect.String && utf8.ValidString(fl.val.String()) && c17HasUnprintable(fl.val.String()) {
								return true
							}
						}
					}
				}
			}
			return false
		},
		FindingKey: func(line, out, clause string) string {
			if f := strings.Fields(line); len(f) > 3 && f[1] == "rtsimple" && clause == c17ClRtS {
				if src := c17Set(f[2], f[3:]); src != nil {
					onlyUnprintable := false
					for _, fl := range c17Flat(reflect.ValueOf(src)) {
						if fl.kind == reflect.String && c17HasUnprintable(fl.val.String()) {
							onlyUnprintable = true
						}
					}
					if onlyUnprintable {
						return "simple-roundtrip-unprintable-rune"
					}
				}
			}
			if strings.HasPrefix(out, "panic:") {
				return "dsn psimple " + strings.Fields(line)[2] + " " + strings.TrimPrefix(out, "panic:")
			}
			return line
		},
		Timeout: 600 * time.Second,
		Nontrivial: func(line, out string) bool {
			f := strings.Fields(line)
			if len(f) < 2 {
				return false
			}
			switch f[1] {
			case "psimple", "puri", "pany":
				return strings.HasPrefix(out, "ok")
			}
			return true
		},
		Rule: "totality: every string over {' \" space = a b : / ? & % @} up to length 5 (thorough 6) through ParseSimple on a struct with keys a, b, ab, ba (model-checked), all strings of length 6 (thorough 7) through ParseSimple and Parse on the real code only (sweep; also behind host= note=\" f=' one symbol deeper than the model-checked ones), " +
			"the same to length 4 (5) behind the prefixes host= note=\" f=' n= 'a b=\"', and to length 4 (5) through ParseURI (bare and behind a://) and Parse; " +
			"random strings of length 6..12 over that alphabet and random byte strings (full Unicode, invalid UTF-8, control bytes) behind real keys; " +
			"round trips: FormatSimple->ParseSimple for c17Info (dsn.Info embedded + bool flag + int count + string note), {a,b}, tds.Info, dsn.Info with string values of the documented alphabet " +
			"(letters, digits, punctuation without quotes and backslash, non-ASCII printable runes; leading/trailing/multiple spaces, '=' anywhere; RESTRICTION: only runes with strconv.IsPrint, " +
			"because FormatSimple writes strings with %q which escapes every other rune), all bools, ints incl. 0, -1, min/max int64; " +
			"kv: every key and alias alone and every ordered pair of keys, random sequences of 1..6 pairs in double-quoted/single-quoted/bare style with valid and invalid bool/int texts and unknown keys; " +
			"URI (oracle only): FormatURI->ParseURI with arbitrary byte strings in user, password, database and properties (host from a hostname list, port numeric or empty), " +
			"queries with repeated keys in random order, unknown keys. non-trivial = a parse that succeeds, every round-trip / kv / query / format case",
		Assumptions: []string{
			"simple-form round trip is claimed (oracle) and proved (c17_simple_roundtrip) for string values that %q leaves unchanged: no quote, no backslash, valid UTF-8 of runes with strconv.IsPrint; " +
				"runes that are no control characters but not IsPrint (U+00A0, U+00AD, U+200B, U+2028, U+3000, private use, unassigned) are written as \\u.... by FormatSimple and do NOT round-trip — excluded from the generator by instruction of the coordinator",
			"the Lean model works on the bytes of the Go string (as ParseSimple does); %q is modelled exactly for bytes < 0x80 and as the identity for bytes >= 0x80",
			"URI form (FormatURI/ParseURI/net/url) and the Parse dispatcher are not modelled in Lean: Go oracle only",
			"URI round trip needs a host without characters that net/url escapes and a numeric or empty port; the target struct must have hostname, port, username, password keys (ParseURI dereferences them unconditionally)",
			"different keys of the same field inside one URI query are applied in Go map order; nothing is claimed for them",
			"struct shapes: json names pairwise different, fields of kind string/bool/int (other kinds make setValue fail, FormatSimple prints them with %v)",
		},
	})
}

// rule addenda (rounds 9-12): what the evidence says about the coverage of a run
func init() {
	if p := registry["C17"]; p != nil {
		p.Rule += " Every text is also parsed through dsn.Parse when the presence of :// selects the same form (same answer required); the documented keys and aliases of dsn.Info and tds.Info are written down in the oracle (every one must be there and name its member)."
	}
}
