package main

// In-memory transport with net.Conn read semantics, and builders for the bytes a TDS server
// sends — written from the TDS 5.0 layouts, independent of the library's own writers.

import (
	"encoding/binary"
	"errors"
	"io"
	"runtime"
	"sync"
	"time"
)

// memConn is the client's end of an in-memory duplex connection. The harness plays the peer:
// it appends to `in` what the client shall read and collects what the client writes in `out`.
// Read: len(p)==0 returns (0,nil) at once; otherwise blocks until data, end or failure; never
// returns more than the read schedule allows (n>0 ⇒ err=nil).
type memConn struct {
	mu     sync.Mutex
	cond   *sync.Cond
	in     []byte
	sched  []int // sizes of the next reads (how the transport segments the stream); empty ⇒ as much as asked
	ended  bool  // peer closed: EOF once `in` is drained
	failed error // read error once `in` is drained
	closed bool  // closed by the client
	out    []byte
	reads  int
	writes int
	// onWrite (optional) is called after the k-th Write (k = 1, 2, …) has been recorded
	onWrite func(k int)
	yield   bool
	// failWriteAt > 0: the k-th Write fails (nothing written) and so does every later one
	failWriteAt int
	// failFull: the failing write records its bytes and reports the full count together with the error
	failFull bool
	waiting int // readers blocked in Read
	// eofWithData: the read that hands out the last bytes reports io.EOF with them (io.Reader allows it;
	// net.Conn implementations report the end on a read of its own)
	eofWithData bool
	// failOnce: only the k-th Write fails; later ones succeed again (a write deadline that passed, a signal)
	failOnce bool
}

func newMemConn() *memConn {
	c := &memConn{}
	c.cond = sync.NewCond(&c.mu)
	return c
}

func (c *memConn) Read(p []byte) (int, error) {
	if len(p) == 0 {
		return 0, nil
	}
	c.mu.Lock()
	defer c.mu.Unlock()
	for len(c.in) == 0 && !c.ended && c.failed == nil && !c.closed {
		c.waiting++
		c.cond.Wait()
		c.waiting--
	}
	c.reads++
	if len(c.in) > 0 {
		n := len(p)
		if len(c.sched) > 0 {
			if c.sched[0] >= 1 && c.sched[0] < n {
				n = c.sched[0]
			}
			c.sched = c.sched[1:]
		}
		if n > len(c.in) {
			n = len(c.in)
		}
		copy(p, c.in[:n])
		c.in = c.in[n:]
		if c.eofWithData && c.ended && len(c.in) == 0 {
			return n, io.EOF // io.Reader allows the last bytes and the end in one result
		}
		return n, nil
	}
	if c.closed {
		return 0, errors.New("use of closed connection")
	}
	if c.failed != nil {
		return 0, c.failed
	}
	// EOF: do not spin the caller at full speed (the packet reader polls on EOF inside a body)
	c.mu.Unlock()
	time.Sleep(200 * time.Microsecond)
	c.mu.Lock()
	return 0, io.EOF
}

// Write records the bytes; with yield set the writer gives up the processor afterwards, as a write to a
// real socket (a system call) may — so that concurrent writers interleave at every write
func (c *memConn) Write(p []byte) (int, error) {
	n, err := c.write(p)
	if c.yield {
		runtime.Gosched()
	}
	return n, err
}

func (c *memConn) write(p []byte) (int, error) {
	c.mu.Lock()
	defer c.mu.Unlock()
	if c.closed {
		return 0, errors.New("use of closed connection")
	}
	if c.failWriteAt > 0 && c.writes+1 >= c.failWriteAt && !(c.failOnce && c.writes+1 > c.failWriteAt) {
		c.writes++
		if c.failFull && c.writes == c.failWriteAt {
			c.out = append(c.out, p...)
			return len(p), errors.New("broken pipe")
		}
		return 0, errors.New("broken pipe")
	}
	c.out = append(c.out, p...)
	c.writes++
	if c.onWrite != nil {
		c.onWrite(c.writes)
	}
	return len(p), nil
}

func (c *memConn) Close() error {
	c.mu.Lock()
	c.closed = true
	c.mu.Unlock()
	c.cond.Broadcast()
	return nil
}

// peer side
func (c *memConn) feed(b []byte) {
	c.mu.Lock()
	c.in = append(c.in, b...)
	c.mu.Unlock()
	c.cond.Broadcast()
}
func (c *memConn) setSched(s []int) { c.mu.Lock(); c.sched = append([]int{}, s...); c.mu.Unlock() }
func (c *memConn) end()             { c.mu.Lock(); c.ended = true; c.mu.Unlock(); c.cond.Broadcast() }
func (c *memConn) fail(err error)   { c.mu.Lock(); c.failed = err; c.mu.Unlock(); c.cond.Broadcast() }
func (c *memConn) written() []byte {
	c.mu.Lock()
	defer c.mu.Unlock()
	return append([]byte{}, c.out...)
}
// idleReader: everything fed has been read and the reader is blocked waiting for more
func (c *memConn) idleReader() bool {
	c.mu.Lock()
	defer c.mu.Unlock()
	return len(c.in) == 0 && c.waiting > 0
}
func (c *memConn) drained() bool { c.mu.Lock(); defer c.mu.Unlock(); return len(c.in) == 0 }

// ---------------------------------------------------------------------------------------------
// wire builders (TDS 5.0 layouts)

func le16(v int) []byte { b := make([]byte, 2); binary.LittleEndian.PutUint16(b, uint16(v)); return b }
func le32(v int) []byte { b := make([]byte, 4); binary.LittleEndian.PutUint32(b, uint32(v)); return b }

// packetize cuts a message body at the given offsets into packets with header type `typ` on
// channel `ch`; EOM on the last.
func packetize(body []byte, cuts []int, typ byte, ch int) []byte {
	var out []byte
	prev := 0
	cuts = append(append([]int{}, cuts...), len(body))
	nr := 0
	for i, c := range cuts {
		if c < prev || c > len(body) {
			continue
		}
		part := body[prev:c]
		status := byte(0)
		if i == len(cuts)-1 {
			status = 1
		}
		hdr := []byte{typ, status, 0, 0, byte(ch >> 8), byte(ch), byte(nr), 0}
		binary.BigEndian.PutUint16(hdr[2:4], uint16(len(part)+8))
		out = append(append(out, hdr...), part...)
		prev = c
		nr++
	}
	return out
}

func wDone(token byte, status, tran, count int) []byte {
	return append(append(append([]byte{token}, le16(status)...), le16(tran)...), le32(count)...)
}

func wLoginAck(status int, name string) []byte {
	body := []byte{byte(status), 5, 0, 0, 0, byte(len(name))}
	body = append(body, name...)
	body = append(body, 16, 0, 0, 0)
	return append(append([]byte{0xAD}, le16(len(body))...), body...)
}

func wMsg(status, id int) []byte { return append([]byte{0x65, 3, byte(status)}, le16(id)...) }

func wEnvChange(members ...[3]string) []byte { // type (one byte as string[0]), new, old
	var body []byte
	for _, m := range members {
		body = append(body, m[0][0], byte(len(m[1])))
		body = append(body, m[1]...)
		body = append(body, byte(len(m[2])))
		body = append(body, m[2]...)
	}
	return append(append([]byte{0xE3}, le16(len(body))...), body...)
}

func wEED(msgNr int, status byte, msg string) []byte {
	body := le32(msgNr)
	body = append(body, 1, 10, 5)
	body = append(body, "ZZZZZ"...)
	body = append(body, status)
	body = append(body, le16(0)...)
	body = append(body, le16(len(msg))...)
	body = append(body, msg...)
	body = append(body, 3)
	body = append(body, "srv"...)
	body = append(body, 0)
	body = append(body, le16(7)...)
	return append(append([]byte{0xE5}, le16(len(body))...), body...)
}

func wCapability(masks map[byte][]byte) []byte {
	var body []byte
	for _, t := range []byte{1, 2, 3} {
		if m, ok := masks[t]; ok {
			body = append(body, t, byte(len(m)))
			body = append(body, m...)
		}
	}
	return append(append([]byte{0xE2}, le16(len(body))...), body...)
}

// field format descriptor for PARAMFMT / ROWFMT built by hand
type wFmt struct {
	name     string
	status   byte
	datatype byte
	// format part after the datatype byte (length prefix bytes, precision/scale …)
	fmtBytes []byte
}

func wParamFmt(fields []wFmt) []byte {
	body := le16(len(fields))
	for _, f := range fields {
		body = append(body, byte(len(f.name)))
		body = append(body, f.name...)
		body = append(body, f.status)
		body = append(body, le32(0)...)
		body = append(body, f.datatype)
		body = append(body, f.fmtBytes...)
		body = append(body, 0)
	}
	return append(append([]byte{0xEC}, le16(len(body))...), body...)
}

func wParams(token byte, fieldData [][]byte) []byte {
	out := []byte{token}
	for _, d := range fieldData {
		out = append(out, d...)
	}
	return out
}
