package main

// C06, C07, C10 over the package codec registry (codecs.go, codec_*.go).
//
// C06  pkg enc / pkg rt (write then read back: same fields up to the documented normalisation,
//      consumed = written), pkg spec (independent encoder → real ReadFrom, server side),
//      pkg specdec (real WriteTo → independent decoder, client side), pkg dec of the spec bytes.
// C07  pkg dec of every proper prefix of every valid encoding: must be `notEnough`.
// C10  pkg dec of mutated encodings and of arbitrary bytes after every token: never `panic`.

import (
	"context"
	"errors"
	"fmt"
	"math/rand"
	"os"
	"strconv"
	"strings"
	"sync"
	"time"

	"github.com/SAP/go-dblib/tds"
)

var normOnce sync.Once

func wireNorms() {
	normOnce.Do(func() {
		for k, f := range basicNorm {
			if c := codecRegistry[k]; c != nil && c.Norm == nil {
				c.Norm = f
			}
		}
	})
}

func normFields(c *pkgCodec, fields []string) []string {
	if c.Norm != nil {
		return c.Norm(fields)
	}
	return fields
}

// validEncodings returns, for every kind, generated field lists with their real encodings
// (token included) and the context needed to decode them.
type validEnc struct {
	kind   string
	fields string
	bytes  []byte
	ctx    string
	spec   bool // produced by the independent encoder
}

func collectEncodings(tier string, rng *rand.Rand, perKind int) []validEnc {
	wireNorms()
	var out []validEnc
	for _, k := range codecKinds() {
		c := codecRegistry[k]
		if c.Gen == nil {
			continue
		}
		// a bounded sample is spread evenly over what the kind's generator emits (generators walk through
		// data types and options in order: the first N would leave whole data types out)
		var all []string
		c.Gen(tier, rng, func(fields string) { all = append(all, fields) })
		if perKind > 0 && len(all) > perKind {
			var pick []string
			for i := 0; i < perKind; i++ {
				pick = append(pick, all[i*len(all)/perKind])
			}
			all = pick
		}
		for _, fields := range all {
			f := strings.Fields(fields)
			ctx := "-"
			if c.NeedsCtx && c.CtxFor != nil {
				ctx = hx(c.CtxFor(f))
			}
			if c.Build != nil {
				if e := pkgEncLine(append([]string{k}, f...)); strings.HasPrefix(e, "ok ") {
					out = append(out, validEnc{k, fields, unhx(e[3:]), ctx, false})
				}
			}
			if c.SpecEnc != nil {
				if bs, ok := c.SpecEnc(f); ok && len(bs) > 0 {
					out = append(out, validEnc{k, fields, bs, ctx, true})
				}
			}
		}
	}
	return out
}

func c06Gen(tier string, rng *rand.Rand, emit func(Case)) {
	wireNorms()
	prevOfKind, nTwo := map[string]string{}, map[string]int{}
	for _, k := range codecKinds() {
		c := codecRegistry[k]
		if c.Gen == nil {
			continue
		}
		c.Gen(tier, rng, func(fields string) {
			if c.Build != nil {
				emit(Case{Line: "pkg enc " + k + " " + fields, Kind: "enc:" + k})
				if !c.ClientOnly && !c.NeedsCtx {
					emit(Case{Line: "pkg rt " + k + " " + fields, Kind: "rt:" + k})
				}
				if c.SpecDec != nil || c.SpecDecCtx != nil {
					emit(Case{Line: "pkg specdec " + k + " " + fields, Kind: "specdec:" + k})
				}
			}
			if c.SpecEnc != nil {
				emit(Case{Line: "pkg spec " + k + " " + fields, Kind: "spec:" + k})
				// two packages of the kind one after the other (every 5th case with its predecessor)
				if !c.NeedsCtx && len(fields) < 4000 && !ffIsBlobCase("pkg spec "+k+" "+fields) { // BLOB columns: known finding, judged in the single-package cases

					if prev, ok := prevOfKind[k]; ok && prev != fields && nTwo[k]%5 == 0 {
						emit(Case{Line: "pkg two " + k + " " + prev + " ;; " + fields, Kind: "two:" + k})
					}
					nTwo[k]++
					prevOfKind[k] = fields
				}
				f := strings.Fields(fields)
				if bs, ok := c.SpecEnc(f); ok && len(bs) > 0 {
					ctx := "-"
					if c.NeedsCtx && c.CtxFor != nil {
						ctx = hx(c.CtxFor(f))
					}
					emit(Case{Line: fmt.Sprintf("pkg dec %s %s %s", hx(bs[:1]), ctx, hx(bs[1:])), Kind: "dec-spec:" + k})
				}
			}
		})
	}
}

func c06Oracle(line, out string) string {
	wireNorms()
	f := strings.Fields(line)
	if len(f) < 3 {
		return ""
	}
	if f[1] == "two" {
		c := codecRegistry[f[2]]
		if c == nil {
			return ""
		}
		if out == "panic" || out == "timeout" {
			return "no codec panics or hangs on a valid package"
		}
		var want []string
		cur := []string{}
		for _, t := range append(append([]string{}, f[3:]...), ";;") {
			if t == ";;" {
				want = append(want, strings.Join(normFields(c, cur), " "))
				cur = []string{}
				continue
			}
			cur = append(cur, t)
		}
		if out != "ok "+strings.Join(want, " ;; ") {
			return "an independently produced encoding decodes to the same field values — also as the second package of its kind, and the first keeps its values"
		}
		return ""
	}
	if out == "panic" || out == "timeout" {
		return "no codec panics or hangs on a valid package"
	}
	c := codecRegistry[f[2]]
	switch f[1] {
	case "enc":
		if c != nil && !strings.HasPrefix(out, "ok ") {
			return "a valid package is written"
		}
	case "rt", "spec":
		if c == nil {
			return ""
		}
		want := normFields(c, f[3:])
		// `ok <kind> <fields…> / <consumed> of <written>`
		i := strings.LastIndex(out, " / ")
		if !strings.HasPrefix(out, "ok ") || i < 0 {
			if f[1] == "rt" {
				return "reading back what was written succeeds"
			}
			return "an independently produced encoding of a server package is decoded"
		}
		shown := strings.Fields(out[3:i])
		var consumed, written int
		fmt.Sscanf(out[i+3:], "%d of %d", &consumed, &written)
		if consumed != written {
			return "reading back consumes exactly the bytes written"
		}
		// doneproc/doneinproc are written with the DONE token (type alias): kind may differ there
		if len(shown) == 0 || strings.Join(shown[1:], " ") != strings.Join(want, " ") {
			if f[1] == "rt" {
				return "reading back what was written reproduces the serialised fields"
			}
			return "an independently produced encoding decodes to the same field values"
		}
		if f[1] == "spec" && shown[0] != f[2] {
			return "an independently produced encoding decodes to the same package kind"
		}
	case "specdec":
		if c == nil {
			return ""
		}
		exact := "ok " + f[2] + " " + strings.Join(f[3:], " ")
		normed := "ok " + f[2] + " " + strings.Join(normFields(c, f[3:]), " ")
		if out != exact && out != normed && !(len(f) == 3 && out == "ok "+f[2]) {
			return "a client package is recovered field by field by an independent decoder"
		}
	}
	return ""
}

func prefixCuts(n int, rng *rand.Rand) []int {
	var cuts []int
	if n <= 400 {
		for k := 0; k < n; k++ {
			cuts = append(cuts, k)
		}
		return cuts
	}
	for k := 0; k < 64; k++ {
		cuts = append(cuts, k)
	}
	for k := n - 64; k < n; k++ {
		cuts = append(cuts, k)
	}
	for i := 0; i < 60; i++ {
		cuts = append(cuts, 64+rng.Intn(n-128))
	}
	return cuts
}

func c07Gen(tier string, rng *rand.Rand, emit func(Case)) {
	per := 60
	if tier == "thorough" {
		per = 0
	}
	for _, e := range collectEncodings(tier, rng, per) {
		body := e.bytes[1:]
		for _, k := range prefixCuts(len(body), rng) {
			emit(Case{Line: fmt.Sprintf("pkg dec %s %s %s", hx(e.bytes[:1]), e.ctx, hx(body[:k])), Kind: "prefix:" + e.kind})
		}
		// the complete bytes: the same result as a fresh parse (parsers are functions of the bytes)
		emit(Case{Line: fmt.Sprintf("pkg dec %s %s %s", hx(e.bytes[:1]), e.ctx, hx(body)), Kind: "full:" + e.kind})
	}
}

// c07 expectations: a prefix line is known by its kind tag; the oracle recomputes from the line:
// a `pkg dec` line whose bytes are a proper prefix of a valid encoding cannot be recognised from the
// line alone, so the generator records the lines it emitted as prefixes.
var c07Prefixes sync.Map

func c07GenTracked(tier string, rng *rand.Rand, emit func(Case)) {
	c07Gen(tier, rng, func(c Case) {
		if strings.HasPrefix(c.Kind, "prefix:") {
			c07Prefixes.Store(c.Line, true)
		} else {
			c07Prefixes.Store(c.Line, false)
		}
		emit(c)
	})
	// every data type byte 0..255 as the type of the only column of a format package (narrow and wide, row
	// and parameter formats): what `LookupFieldFmt` makes of every byte, known type or not (data packages of
	// every known type: the row generators of the fields group)
	for t := 0; t < 256; t++ {
		tail := []byte{0x04, 0x0a, 0x02, 0, 0, 0, 0, 0, 0, 0, 0, 0, 0, 0, 0, 0, 0} // length / precision / scale / locale, enough for every class
		col := func(status []byte) []byte {
			b := append([]byte{1, 'c'}, status...)
			b = append(b, le32(0)...)
			return append(append(b, byte(t)), tail...)
		}
		narrow := append(le16(1), col([]byte{0})...)
		wideP := append(le16(1), col(le32(0))...)
		wideR := le16(1)
		for i := 0; i < 5; i++ {
			wideR = append(wideR, 1, 'c')
		}
		wideR = append(append(append(wideR, le32(0)...), le32(0)...), byte(t))
		wideR = append(wideR, tail...)
		for _, f := range []struct {
			tok  byte
			body []byte
			wide bool
		}{{0xEE, narrow, false}, {0xEC, narrow, false}, {0x61, wideR, true}, {0x20, wideP, true}} {
			var full []byte
			if f.wide {
				full = append(le32(len(f.body)), f.body...)
			} else {
				full = append(le16(len(f.body)), f.body...)
			}
			l := fmt.Sprintf("pkg dec %02x - %s", f.tok, hx(full))
			emit(Case{Line: l, Kind: "datatype-sweep"})
		}
	}
	// a message that ends inside a package (the truncated attempt must leave nothing behind), then complete
	// messages in small packets (c02.go)
	brokenThenNextGen(tier, rng, emit)
	// the channel's side of the condition: how the receive loop classifies the parser's answer. A sample
	// of the encodings of every kind travels through the real Channel.WritePacket, cut inside the package
	// (`rx` lines of C02): the truncated attempt must leave no trace (no channel error, no delivery), and
	// the complete bytes must give what the uncut response gives.
	per := 10
	if tier == "thorough" {
		per = 60
	}
	byKind := map[string]int{}
	for _, e := range collectEncodings(tier, rng, 0) {
		if ffIsBlobCase("pkg spec " + e.kind + " " + e.fields) {
			continue
		}
		byKind[e.kind]++
		if byKind[e.kind] > per*8 || byKind[e.kind]%8 != 1 {
			continue
		}
		var body []byte
		if e.ctx != "-" {
			body = append(body, unhx(e.ctx)...)
		}
		start := len(body)
		body = append(body, e.bytes...)
		end := len(body)
		body = append(body, wDone(0xFD, 0, 0, 1)...)
		if len(body) > 8000 {
			continue
		}
		for _, cut := range []int{start + 1, start + (end-start)/2, end - 1} {
			if cut <= start || cut >= end {
				continue
			}
			emit(Case{Line: fmt.Sprintf("rx 0 0 %s", strings.Join(cutTokens(body, []int{cut}), " ")), Kind: "channel-cut:" + e.kind})
		}
	}
}

func c07Impl(line string) string {
	if strings.HasPrefix(line, "rx ") {
		return rxImpl(line)
	}
	return pkgImpl(line)
}

func c07Oracle(line, out string) string {
	if strings.HasPrefix(line, "rx ") {
		if cl := rxOracleC02(line, out); cl != "" {
			return "cut off inside a package, the channel waits for the rest: no error, no delivery from the truncated attempt, and the complete bytes give the result of the uncut response"
		}
		return ""
	}
	v, ok := c07Prefixes.Load(line)
	if !ok {
		return ""
	}
	if v.(bool) {
		if out != "notEnough" {
			return "a package cut off before its end is reported as not-enough-bytes (never success, another error or a panic)"
		}
		return ""
	}
	if !strings.HasPrefix(out, "ok ") {
		return "the complete bytes parse"
	}
	return ""
}

// hugeLength: mutations that make a 4-byte length field enormous only cost time (the reader asks for
// more than was received and answers not-enough-bytes); they are kept, the allocation is bounded by
// what was received since fix 31957a3.
func c10Gen(tier string, rng *rand.Rand, emit func(Case)) {
	per := 25
	nmut := 60
	if tier == "thorough" {
		per, nmut = 200, 400
	}
	for _, e := range collectEncodings(tier, rng, per) {
		body := e.bytes[1:]
		tok := hx(e.bytes[:1])
		vals := []byte{0x00, 0x01, 0x7f, 0x80, 0xff, 0xfe}
		// boundary values at every position of short encodings, sampled positions of long ones
		pos := []int{}
		if len(body) <= 48 {
			for i := range body {
				pos = append(pos, i)
			}
		} else {
			for i := 0; i < 24; i++ {
				pos = append(pos, i)
			}
			for i := 0; i < 24; i++ {
				pos = append(pos, rng.Intn(len(body)))
			}
		}
		for _, i := range pos {
			for _, v := range vals {
				if body[i] == v {
					continue
				}
				m := append([]byte{}, body...)
				m[i] = v
				emit(Case{Line: fmt.Sprintf("pkg dec %s %s %s", tok, e.ctx, hx(m)), Kind: "boundary:" + e.kind})
			}
		}
		for k := 0; k < nmut/10; k++ {
			m := append([]byte{}, body...)
			for j := 0; j < 1+rng.Intn(3) && len(m) > 0; j++ {
				m[rng.Intn(len(m))] = byte(rng.Intn(256))
			}
			if rng.Intn(3) == 0 && len(m) > 0 {
				m = m[:rng.Intn(len(m))]
			}
			if rng.Intn(3) == 0 {
				m = append(m, rndBytes(rng, rng.Intn(12))...)
			}
			emit(Case{Line: fmt.Sprintf("pkg dec %s %s %s", tok, e.ctx, hx(m)), Kind: "random-mut:" + e.kind})
		}
	}
	// arbitrary bytes after every token value (known and unknown)
	for t := 0; t < 256; t++ {
		if codecForToken(byte(t)) == nil && pendingTokens[byte(t)] {
			continue // tokens of a codec group that is not registered yet
		}
		for k := 0; k < 6; k++ {
			emit(Case{Line: fmt.Sprintf("pkg dec %02x - %s", t, hx(rndBytes(rng, []int{0, 1, 2, 5, 9, 40}[k]))), Kind: "arbitrary"})
		}
	}
	// hostile multi-byte values in place of any length / count field: at every offset of the first bytes of
	// an encoding, the 4- and 2-byte little-endian values around the sign and width boundaries. The
	// encodings are sampled evenly over each kind's generator, so that every data type of the format and
	// data packages occurs (a data length of 0x80000000 only matters for a LONGCHAR / LONGBINARY column).
	hostile := [][]byte{{0xff, 0xff, 0xff, 0x7f}, {0x00, 0x00, 0x00, 0x80}, {0xff, 0xff, 0xff, 0xff}, {0xff, 0x7f}, {0x00, 0x80}, {0xff, 0xff}}
	sample := map[string]int{"row": 160, "params": 160, "rowfmt": 40, "rowfmt2": 40, "paramfmt": 40, "paramfmt2": 40}
	nHostile, memEvery := 0, 60
	if tier == "thorough" {
		memEvery = 12
	}
	byKind := map[string][]validEnc{}
	for _, e := range collectEncodings(tier, rng, 0) {
		byKind[e.kind] = append(byKind[e.kind], e)
	}
	for _, k := range codecKinds() {
		es := byKind[k]
		want := sample[k]
		if want == 0 {
			want = 8
		}
		if tier == "thorough" {
			want *= 5
		}
		step := len(es)/want + 1
		for i := 0; i < len(es); i += step {
			e := es[i]
			body := e.bytes[1:]
			for off := 0; off < len(body) && off < 28; off++ {
				for _, h := range hostile {
					if off+len(h) > len(body) {
						continue
					}
					m := append([]byte{}, body...)
					copy(m[off:], h)
					l := fmt.Sprintf("pkg dec %s %s %s", hx(e.bytes[:1]), e.ctx, hx(m))
					emit(Case{Line: l, Kind: "hostile-length:" + e.kind})
					// allocation probe in a process of its own: a sample in the quick tier
					// (chunked BLOB data is the one place where the reader collects data sets of announced lengths
					// in a loop: every hostile length there is probed)
					nHostile++
					if nHostile%memEvery == 0 || ffIsBlobCase("pkg spec "+e.kind+" "+e.fields) {
						emit(Case{Line: "mem " + l, Kind: "alloc-probe"})
					}
				}
			}
		}
	}
	// hostile packet sizes: an ENVCHANGE announcing a size the client cannot use, then the client sends
	// (`rx … send` lines of c02.go: the size in force stays usable, the send neither panics nor loops)
	for _, v := range []string{"0", "1", "4", "7", "8", "9", "-1", "-512", "65535", "65536", "65543", "70000", "2147483648", "4294967296", "99999999999999999999", "1e3", "", " 512", "512 "} {
		body := append(rEnv([3]string{"\x04", v, "512"}).bytes, rDone(0, 1).bytes...)
		emit(Case{Line: fmt.Sprintf("rx 0 1 b1:%s send", hx(body)), Kind: "hostile-packet-size"})
		body2 := append(rEnv([3]string{"\x03", "utf8", ""}, [3]string{"\x04", v, "512"}, [3]string{"\x04", "2048", "512"}).bytes, rDone(0, 1).bytes...)
		emit(Case{Line: fmt.Sprintf("rx 1 0 b1:%s send", hx(body2)), Kind: "hostile-packet-size"})
	}
	// sequences a server must not send but can: every order of format, data, ORDERBY and other packages
	// (a data package takes its format from the package before it — a format, a data package or an
	// ORDERBY — so what a package hands on depends on the history)
	grammarGen(tier, rng, emit)
	// a response that ends in a package cut short by the end of the message, then further responses in small
	// packets (c02.go): nothing left over from the broken one may reach the next (stale read position)
	brokenThenNextGen(tier, rng, emit)
	// a packet size announcement is server input too, and it may arrive while the client is composing a
	// message (the server sees the first full packets of a long request before the client has queued the
	// rest): smaller and larger sizes with a partly filled packet queued (`tx` lines of c01.go)
	for _, ps := range []int{512, 2048, 256} {
		for _, ps2 := range []int{256, 512, 2048, 4096, 9, 65535} {
			if ps2 == ps {
				continue
			}
			for _, first := range []int{1, ps/2 - 8, ps - 9, ps - 8, ps + 100} {
				if first < 1 {
					continue
				}
				emit(Case{Line: fmt.Sprintf("tx %d 0 0 q:g:%d:1 ps:%d q:g:%d:2 f", ps, first, ps2, 3+rng.Intn(3*ps2)), Kind: "size-change-while-composing"})
				emit(Case{Line: fmt.Sprintf("tx %d 1 5 q:g:%d:1 ps:%d s:g:%d:2", ps, first, ps2, 1+rng.Intn(700)), Kind: "size-change-while-composing"})
			}
		}
	}
	// the login negotiation is server input too: the reply scripts of C08 that carry an unusable key or
	// nonce, or none (c08.go)
	loginGen(tier, rng, func(c Case) {
		for _, v := range []string{",kb,", ",kt,", ",kw,", ",kl,", ",kz,", ",kn,", ",kh,", ",e,", ",n0", ",n60", "pm:i2"} {
			if strings.Contains(c.Line, v) {
				emit(Case{Line: c.Line, Kind: "login-hostile"})
				return
			}
		}
	})
	// packet level: all header values incl. length < 8 (c14.go)
	rdrawGen(tier, rng, emit)
	rdconnGen(tier, rng, emit)
	// a message whose end-of-message packet holds, behind k complete packages, one that cannot be parsed (a
	// data package without a format) and more bytes; then the next message in a tiny first packet and the
	// rest: the unparsable rest of the first message, and the position in it, are not applied to the next
	for _, k := range []int{1, 2, 5, 11, 30} {
		var first []byte
		for j := 0; j < k; j++ {
			first = append(first, wDone(0xFD, 1, 0, j)...)
		}
		for _, bad := range [][]byte{{0xD1, 1, 2, 3}, {0xD7, 0}, {0xE5, 2, 0, 1, 1, 9}} {
			var next []byte // longer than the first message, so that bytes are "unread" whatever position is in force
			for j := 0; j < k+2; j++ {
				next = append(next, wDone(0xFD, 1, 0, 100+j)...)
			}
			next = append(next, wDone(0xFD, 0, 0, 7)...)
			for _, cut := range []int{1, 2, 5} {
				emit(Case{Line: fmt.Sprintf("rx 0 0 b1:%s b0:%s b1:%s", hx(append(append([]byte{}, first...), bad...)), hx(next[:cut]), hx(next[cut:])), Kind: "unparsable-end-then-next"})
			}
		}
	}
	// a message that ends inside a format package (or whose format names a data type that does not exist),
	// then a message that starts with the data package such a format would describe: the half-read format
	// is not what the data package is read against
	if rows := collectRowFields(tier, rng); len(rows) > 0 {
		nb := 60
		if tier == "thorough" {
			nb = 600
		}
		for i := 0; i < nb; i++ {
			rf := rows[rng.Intn(len(rows))]
			c := codecRegistry[rf[0]]
			ctx := c.CtxFor(rf[1:])
			row, ok := c.SpecEnc(rf[1:])
			if !ok || len(ctx) < 8 || len(row) > 2000 {
				continue
			}
			next := append(append([]byte{}, row...), wDone(0xFD, 0, 0, 1)...)
			for _, cut := range []int{len(ctx) - 1, len(ctx) - 2, 4 + rng.Intn(len(ctx)-4), 3 + rng.Intn(len(ctx)-3)} {
				emit(Case{Line: fmt.Sprintf("rx 0 0 b1:%s b1:%s", hx(ctx[:cut]), hx(next)), Kind: "broken-format-then-data"})
			}
			bad := append([]byte{}, ctx...)
			bad[len(bad)-1-rng.Intn(3)] = 0xFA // towards the end: the data type / status bytes of the last column
			emit(Case{Line: fmt.Sprintf("rx 0 0 b1:%s b1:%s", hx(bad), hx(next)), Kind: "broken-format-then-data"})
		}
	}
	// value level: every data type with every data length 0..255 (c10values.go)
	c10ValueGen(tier, rng, emit)
}

func c10Impl(line string) string {
	if strings.HasPrefix(line, "rdraw ") {
		return rdrawImpl(line)
	}
	if strings.HasPrefix(line, "rdconn ") {
		// the connection's reader goroutine cannot be put under recover: every case runs in a process of its own
		if os.Getenv("VERIF_CHILD") == "" {
			return isolatedImpl(registry["C10"], line)
		}
		return rdconnImpl(line)
	}
	if strings.HasPrefix(line, "val ") {
		return valuesImpl(line)
	}
	if strings.HasPrefix(line, "mem ") {
		return memImpl(line)
	}
	if strings.HasPrefix(line, "rx ") {
		return rxImpl(line)
	}
	if strings.HasPrefix(line, "login ") {
		return loginImpl(line)
	}
	if strings.HasPrefix(line, "tx ") {
		return txImpl(line)
	}
	return pkgImpl(line)
}

// tokens LookupPackage knows but whose codec group (fields/formats/rows) is registered separately
var pendingTokens = map[byte]bool{}

func c10Oracle(line, out string) string {
	if strings.HasPrefix(line, "mem ") {
		if out != "mem ok" {
			return "no server input makes a parser allocate memory out of proportion to the bytes received"
		}
		return ""
	}
	if strings.HasPrefix(line, "rx ") {
		if strings.Contains(out, "S=panic") || strings.Contains(out, "S=blocked") || out == "panic" || out == "timeout" {
			return "no server input makes the client crash or hang on its next send (an unusable packet size is never put in force)"
		}
		if i := strings.Index(out, " PS="); i >= 0 {
			ps, _ := strconv.Atoi(strings.Fields(out[i+4:])[0])
			if ps < 9 || ps > 65535 {
				return "no server input makes the client crash or hang on its next send (an unusable packet size is never put in force)"
			}
		}
		return ""
	}
	if strings.HasPrefix(line, "rdconn ") {
		if !strings.HasPrefix(out, "ok") {
			return "no bytes on the wire crash or hang the connection's reader (every header value, known and unknown channels)"
		}
		return ""
	}
	if strings.HasPrefix(line, "tx ") {
		if strings.Contains(out, "panic") || out == "crash" || out == "timeout" {
			return "no server input makes the client crash on its next send (a packet size announced while a message is being composed)"
		}
		return ""
	}
	if strings.HasPrefix(line, "login ") {
		if strings.Contains(out, "panic") || out == "crash" || out == "timeout" {
			return "no server input makes the client crash or hang during login (unusable keys, nonces and reply sequences are errors)"
		}
		return ""
	}
	if out == "panic" {
		return "no server input makes a parser panic"
	}
	if out == "timeout" {
		return "no server input makes a parser hang"
	}
	return ""
}

func init() {
	pkgNontrivial := func(line, out string) bool { return !strings.HasPrefix(out, "bad-op") }
	register(&Prop{
		ID: "C06", Gen: c06Gen, Impl: pkgImpl, Oracle: c06Oracle,
		NoModel: func(line string) bool {
			return strings.HasPrefix(line, "pkg spec ") || strings.HasPrefix(line, "pkg specdec ") || strings.HasPrefix(line, "pkg two ")
		},
		FindingKey: func(line, out, clause string) string {
			if ffIsBlobCase(line) {
				return "blob:" + clause // known finding blob-not-functional: cases with a BLOB (0x24) column
			}
			f := strings.Fields(line)
			if len(f) > 2 {
				return f[1] + ":" + f[2] + ":" + clause
			}
			return clause
		},
		Nontrivial: pkgNontrivial, NoShrink: true, Timeout: 30 * time.Second,
		Rule:        "for every package kind of the codec registry (LookupPackage's tokens) the kind's generator (all optional parts on/off, string lengths at the prefix boundaries, status bits, random values): real WriteTo vs the Lean encoder; write-then-read on the real code and on the model (fields up to the documented normalisation, consumed = written); independent TDS-layout encoder → real ReadFrom for packages a server sends; real WriteTo → independent decoder for packages a client sends. Non-trivial = the line is a well-formed case",
		Assumptions: []string{"the PacketQueue is a byte FIFO (C15)", "a package is compared by its serialised fields (canonical rendering), not by Go struct identity"},
	})
	register(&Prop{
		ID: "C07", Gen: c07GenTracked, Impl: c07Impl, Oracle: c07Oracle,
		FindingKey: func(line, out, clause string) string {
			if ffIsBlobCase(line) {
				return "blob:" + clause // known finding blob-not-functional: cases with a BLOB (0x24) column
			}
			f := strings.Fields(line)
			if len(f) > 2 {
				return "token:" + f[2] + ":" + clause
			}
			return clause
		},
		Nontrivial: pkgNontrivial, NoShrink: true, Timeout: 30 * time.Second,
		Rule:        "every valid encoding produced by the registry generators (real WriteTo and the independent encoders) × every proper prefix of it (all prefixes up to 400 bytes, first/last 64 and 60 random cuts beyond), decoded by the real ReadFrom on a bounded queue and by the Lean decoder: must be not-enough-bytes; then the complete bytes; channel leg: a sample of the encodings of every kind (after their format where needed, followed by a DONE) through the real Channel.WritePacket cut inside the package at three positions, compared with the uncut response. value level: GoValue on every data type byte 0..255 with every data length 0..255 (zero, 0xff and random data) vs the Lean value model. Non-trivial = well-formed case",
		Assumptions: []string{"a fresh package object per attempt, as tryParsePackage does (LookupPackage inside the retry loop)"},
	})
	register(&Prop{
		ID: "C10", Gen: c10Gen, Impl: c10Impl, Oracle: c10Oracle,
		Agree: func(m, i string) bool { return m == i || m == txStrip(i) },
		FindingKey: func(line, out, clause string) string {
			f := strings.Fields(line)
			if len(f) > 2 {
				return "token:" + f[2] + ":" + clause
			}
			return clause
		},
		Nontrivial: pkgNontrivial, NoShrink: true, Timeout: 30 * time.Second,
		Rule: "valid encodings of every package kind with every byte (sampled on long ones) replaced by 00/01/7f/80/fe/ff, random multi-byte mutations with truncation and trailing garbage, hostile 2- and 4-byte little-endian values (0x7fffffff, 0x80000000, 0xffffffff, 0x7fff, 0x8000, 0xffff) at every offset of the first 28 bytes of encodings sampled evenly over every kind's generator (every data type of the format and data packages), and arbitrary bytes after each of the 256 token values; real ReadFrom under recover vs the Lean decoder (outcome class and fields must agree); packet level: the reader loop (Packet.ReadFrom per iteration) on streams of 1..3 packets with every announced length 0..16, every header type/status value, random header fields, truncations and read schedules vs the Lean reader model. value level: GoValue on every data type byte 0..255 with every data length 0..255 (zero, 0xff and random data) vs the Lean value model; allocation probe: every 60th (thorough: 12th) hostile-length case again in a process of its own that measures what it allocates. Non-trivial = well-formed case",
		NoModel: func(line string) bool {
			if strings.HasPrefix(line, "login ") && (strings.Contains(line, ",kx,") || strings.Contains(line, ",ky,") || strings.Contains(line, ",kq,")) {
				return true // a length field that announces more than arrives: outside the login model (see C08)
			}
			return strings.HasPrefix(line, "mem ") || strings.HasPrefix(line, "rdconn ")
		},
		Assumptions: []string{"allocation: PacketQueue.Bytes checks availability before allocating (fix 31957a3); measured for a sample of the hostile-length cases in a process of its own (TotalAlloc while decoding <= 4 MiB + 300 x case length, address space limited to 3 GiB)"},
	})
}

// grammarGen: all sequences of up to four packages (thorough: five) over formats (narrow / wide, row /
// param), data packages of both tokens, both ORDERBY tokens and a DONE(MORE), one INT4 column each,
// followed by a final DONE, as one response through the real channel (`rx` lines).
func grammarGen(tier string, rng *rand.Rand, emit func(Case)) {
	col := func(name string, status []byte) []byte {
		b := append([]byte{byte(len(name))}, name...)
		b = append(b, status...)
		b = append(b, le32(0)...)
		return append(b, 0x38, 0) // INT4, no locale
	}
	narrow := append(le16(1), col("c", []byte{0})...)
	wideRow := le16(1)
	for i := 0; i < 5; i++ { // label, catalog, schema, table, column
		wideRow = append(wideRow, 1, 'c')
	}
	wideRow = append(wideRow, le32(0)...)
	wideRow = append(wideRow, le32(0)...)
	wideRow = append(wideRow, 0x38, 0)
	wideParam := append(le16(1), col("c", le32(0))...)
	alphabet := map[string][]byte{
		"rf":  append(append([]byte{0xEE}, le16(len(narrow))...), narrow...),
		"pf":  append(append([]byte{0xEC}, le16(len(narrow))...), narrow...),
		"rf2": append(append([]byte{0x61}, le32(len(wideRow))...), wideRow...),
		"pf2": append(append([]byte{0x20}, le32(len(wideParam))...), wideParam...),
		"r":   append([]byte{0xD1}, le32(7)...),
		"p":   append([]byte{0xD7}, le32(9)...),
		"ob":  {0xA9, 1, 0, 1},
		"ob2": {0x22, 4, 0, 0, 0, 1, 0, 1, 0},
		"dm":  wDone(0xFD, 1, 0, 3),
	}
	names := []string{"rf", "pf", "rf2", "pf2", "r", "p", "ob", "ob2", "dm"}
	maxLen := 4
	if tier == "thorough" {
		maxLen = 5
	}
	var rec func(prefix []string)
	rec = func(prefix []string) {
		if len(prefix) > 0 {
			var body []byte
			for _, n := range prefix {
				body = append(body, alphabet[n]...)
			}
			body = append(body, wDone(0xFD, 0, 0, 1)...)
			emit(Case{Line: fmt.Sprintf("rx 1 0 b1:%s", hx(body)), Kind: "package-order"})
		}
		if len(prefix) == maxLen {
			return
		}
		for _, n := range names {
			rec(append(append([]string{}, prefix...), n))
		}
	}
	rec(nil)
}

// rdconn <hex> (oracle only): the bytes arrive on a connection with channels 0 and 1 and the real reader
// goroutine (Conn.ReadFrom: read a packet, look its channel up, hand it over); then the peer resets the
// connection. Answer: `ok pk=<packages delivered>`; a crash of the reader takes the (child) process down.
func rdconnImpl(line string) string {
	f := strings.Fields(line)
	if len(f) != 2 {
		return "bad-op"
	}
	stream := unhx(f[1])
	if stream == nil {
		return "bad-op"
	}
	mc := newMemConn()
	info := testInfo()
	conn, _ := tds.VerifNewConn(context.Background(), mc, info, true)
	chans := []*tds.Channel{conn.VerifNewChannel(0), conn.VerifNewChannel(1)}
	mc.feed(stream)
	for i := 0; i < 6000 && !mc.idleReader(); i++ {
		time.Sleep(50 * time.Microsecond)
	}
	n := 0
	for _, ch := range chans {
		for {
			p, _ := ch.VerifQueued()
			if p == 0 {
				break
			}
			if _, err := ch.NextPackage(context.Background(), false); err != nil {
				break
			}
			n++
		}
	}
	mc.fail(errors.New("connection reset by peer"))
	time.Sleep(time.Millisecond)
	conn.VerifCancel()
	return fmt.Sprintf("ok pk=%d", n)
}

func rdconnGen(tier string, rng *rand.Rand, emit func(Case)) {
	mk := func(typ, st, ch int, body []byte) []byte {
		l := len(body) + 8
		return append([]byte{byte(typ), byte(st), byte(l >> 8), byte(l), byte(ch >> 8), byte(ch), 0, 0}, body...)
	}
	done := wDone(0xFD, 0, 0, 1)
	// every message type, on a channel that exists and on one that does not (a late answer for a channel that
	// was closed), header-only and with a body, alone and followed by an ordinary packet
	for typ := 0; typ < 256; typ++ {
		for _, ch := range []int{0, 1, 7, 258} {
			if tier != "thorough" && ch == 1 && typ%8 != 1 {
				continue
			}
			emit(Case{Line: "rdconn " + hx(mk(typ, 1, ch, nil)), Kind: "reader-header-only"})
			emit(Case{Line: "rdconn " + hx(append(mk(typ, typ%2, ch, done), mk(4, 1, 0, done)...)), Kind: "reader-with-body"})
		}
	}
	n := 150
	if tier == "thorough" {
		n = 2000
	}
	for i := 0; i < n; i++ {
		var s []byte
		for k := 0; k < 1+rng.Intn(4); k++ {
			s = append(s, mk(rng.Intn(256), rng.Intn(256), []int{0, 1, 2, 257, 65535}[rng.Intn(5)], rndBytes(rng, rng.Intn(30)))...)
		}
		emit(Case{Line: "rdconn " + hx(s), Kind: "reader-random"})
	}
}

// rule addenda (rounds 9-12): what the evidence says about the coverage of a run
func init() {
	if p := registry["C06"]; p != nil {
		p.Rule += " EED messages ending in one or two line feeds / CR LF."
	}
	if p := registry["C10"]; p != nil {
		p.Rule += " rdconn: arbitrary packets on a connection with channels 0 and 1 and the real reader goroutine — every message type 0..255 on a known and on an unknown channel, header-only and with a body, random streams — each case in a process of its own (a crash of the reader goroutine cannot be recovered); login-hostile lines; tx lines with a packet size announced while a message is being composed."
	}
}
