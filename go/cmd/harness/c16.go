package main

import (
	"encoding/binary"
	"fmt"
	"math/big"
	"math/rand"
	"reflect"
	"regexp"
	"strconv"
	"strings"
	"unicode"
	"unicode/utf8"
	"unsafe"

	"github.com/SAP/go-dblib/asetypes"
)

// C16 - Decimal text conversion preserves the numeric value.
//
// Line protocol (identical to lean/Dblib/Model/Decimal.lean `run`):
//   dec new p s          -> ok | err
//   dec fmt p s i        -> err-new | ok <hex of String()> | panic
//   dec fmtraw p s i     -> (p,s >= 0; exported fields set directly, no sanity) ok <hex> | panic
//   dec parse p s <hex>  -> err-new | ok <unscaled int> | err
//   dec rt p s i         -> err-new | ok <int> (parse(String()) ok, Cmp true) | ne <int> | err

var (
	decIntRe     = regexp.MustCompile(`^-?[0-9]+$`)
	decTextRe    = regexp.MustCompile(`^-?(0|[1-9][0-9]*)\.([0-9]*[1-9]|0)$`)
	decStrictRe  = regexp.MustCompile(`^-?[0-9]+(\.[0-9]+)?$`)
	decLenientRe = regexp.MustCompile(`^[+-]?[0-9]*(\.[0-9]*)?$`)
)

func decInt(s string) (int, bool) {
	if !decIntRe.MatchString(s) || len(s) > 9 {
		return 0, false
	}
	n, err := strconv.Atoi(s)
	return n, err == nil
}

func decBig(s string) (*big.Int, bool) {
	if !decIntRe.MatchString(s) {
		return nil, false
	}
	return new(big.Int).SetString(s, 10)
}

// install sets the unscaled value of d to i without going through SetString.
func decInstall(d *asetypes.Decimal, i *big.Int) {
	d.SetBytes(new(big.Int).Abs(i).Bytes())
	if i.Sign() < 0 {
		d.Negate()
	}
}

// decInstallPure / decIntPure: the same for the ORACLES' expected values — straight into / out of the field,
// without any method of the type under test (an expectation built with SetBytes or read with Int() follows
// whatever those methods do)
func decInstallPure(d *asetypes.Decimal, i *big.Int) {
	f := reflect.ValueOf(d).Elem().FieldByName("i")
	*(**big.Int)(unsafe.Pointer(f.UnsafeAddr())) = new(big.Int).Set(i)
}

func decIntPure(d *asetypes.Decimal) *big.Int {
	if d == nil {
		return nil
	}
	f := reflect.ValueOf(d).Elem().FieldByName("i")
	i := *(**big.Int)(unsafe.Pointer(f.UnsafeAddr()))
	if i == nil {
		return nil
	}
	return new(big.Int).Set(i)
}

func decString(d *asetypes.Decimal) (out string, panicked bool) {
	defer func() {
		if r := recover(); r != nil {
			out, panicked = "", true
		}
	}()
	return d.String(), false
}

func decImpl(line string) string {
	f := strings.Fields(line)
	if len(f) < 2 || f[0] != "dec" {
		return "bad-op"
	}
	switch {
	case f[1] == "wire" && len(f) == 4:
		// the decimals the library itself builds from money values on the wire: `dec wire <type> <hex>`
		t, ok := decInt(f[2])
		bs := unhx(f[3])
		if !ok || bs == nil {
			return "bad-op"
		}
		v, err := asetypes.DataType(t).GoValue(binary.LittleEndian, bs)
		if err != nil {
			return "err"
		}
		d, isDec := v.(*asetypes.Decimal)
		if !isDec {
			return "bad-op"
		}
		str, panicked := decString(d)
		if panicked {
			return "panic"
		}
		// formatted and parsed back: an equal decimal (Cmp), whatever history the object's big.Int has
		cmp := 0
		if d2, err := asetypes.NewDecimalString(d.Precision, d.Scale, str); err == nil && d.Cmp(*d2) && d2.Cmp(*d) {
			cmp = 1
		}
		return fmt.Sprintf("ok %d %d %s %s cmp=%d", d.Precision, d.Scale, d.Int().String(), hx([]byte(str)), cmp)
	case f[1] == "new" && len(f) == 4:
		p, ok1 := decInt(f[2])
		s, ok2 := decInt(f[3])
		if !ok1 || !ok2 {
			return "bad-op"
		}
		d, err := asetypes.NewDecimal(p, s)
		if err != nil {
			if d != nil {
				return "err-with-value"
			}
			return "err"
		}
		if d.Precision != p || d.Scale != s || d.Int().Sign() != 0 {
			return "ok-wrong-fields"
		}
		return "ok"
	case (f[1] == "fmt" || f[1] == "fmtraw" || f[1] == "rt") && len(f) == 5:
		p, ok1 := decInt(f[2])
		s, ok2 := decInt(f[3])
		i, ok3 := decBig(f[4])
		if !ok1 || !ok2 || !ok3 {
			return "bad-op"
		}
		var d *asetypes.Decimal
		var err error
		if f[1] == "fmtraw" {
			if p < 0 || s < 0 {
				return "bad-op"
			}
			d, _ = asetypes.NewDecimal(0, 0)
			d.Precision, d.Scale = p, s
		} else if d, err = asetypes.NewDecimal(p, s); err != nil {
			return "err-new"
		}
		decInstall(d, i)
		if d.Int().Cmp(i) != 0 {
			return "install-failed"
		}
		text, panicked := decString(d)
		if panicked {
			return "panic"
		}
		if f[1] != "rt" {
			return "ok " + hx([]byte(text))
		}
		// the decimal has a life after it was printed: what Int() hands out is a copy (working on it in
		// place must not reach the decimal), and encoding the decimal for the wire leaves it as it was —
		// the text parsed back below is compared with the decimal AFTER these uses
		cp := d.Int()
		cp.Rsh(cp, 9)
		cp.SetInt64(0)
		asetypes.MONEY.Bytes(binary.LittleEndian, d, 8)
		asetypes.DECN.Bytes(binary.LittleEndian, d, 33)
		if again, panicked2 := decString(d); panicked2 || again != text {
			return "changed-by-use"
		}
		// … and the text follows the value: negated, the same object prints the negated number (the text of
		// the number with the sign flipped), negated back it prints the first text again; given another value
		// through SetInt64 and its own value back through SetBytes it prints the first text as well
		if i.Sign() != 0 {
			d.Negate()
			neg, _ := decString(d)
			want := "-" + text
			if i.Sign() < 0 {
				want = strings.TrimPrefix(text, "-")
			}
			d.Negate()
			back, _ := decString(d)
			if neg != want || back != text {
				return "text-does-not-follow-the-value"
			}
			d.SetInt64(7)
			decString(d)
			decInstall(d, i)
			if again, _ := decString(d); again != text {
				return "text-does-not-follow-the-value"
			}
		}
		d2, err := asetypes.NewDecimalString(p, s, text)
		if err != nil {
			return "err"
		}
		if d.Cmp(*d2) {
			return "ok " + d2.Int().String()
		}
		return "ne " + d2.Int().String()
	case f[1] == "parse" && len(f) == 5:
		p, ok1 := decInt(f[2])
		s, ok2 := decInt(f[3])
		b := unhx(f[4])
		if !ok1 || !ok2 || b == nil || !utf8.Valid(b) {
			return "bad-op"
		}
		d, err := asetypes.NewDecimal(p, s)
		if err != nil {
			return "err-new"
		}
		d.SetInt64(7) // sentinel: "if an error is returned dec is untouched"
		if err := d.SetString(string(b)); err != nil {
			if d.Int().Cmp(big.NewInt(7)) != 0 || d.Precision != p || d.Scale != s {
				return "err-touched"
			}
			if _, err2 := asetypes.NewDecimalString(p, s, string(b)); err2 == nil {
				return "mismatch-newdecimalstring"
			}
			return "err"
		}
		d2, err2 := asetypes.NewDecimalString(p, s, string(b))
		if err2 != nil || !d.Cmp(*d2) {
			return "mismatch-newdecimalstring"
		}
		return "ok " + d.Int().String()
	}
	return "bad-op"
}

func decPow10(k int) *big.Int {
	return new(big.Int).Exp(big.NewInt(10), big.NewInt(int64(k)), nil)
}

// decOracle is written from the property text only.
func decOracle(line, out string) string {
	f := strings.Fields(line)
	if out == "bad-op" || len(f) < 4 {
		return ""
	}
	if f[1] == "wire" {
		// a decimal built by the library is one the property speaks about: precision 1..38, scale within it,
		// no more digits than the precision; its text is the exact expansion
		g := strings.Fields(out)
		if len(g) != 6 || g[0] != "ok" {
			return "a money value on the wire becomes a decimal that can be formatted"
		}

		p, _ := decInt(g[1])
		s, _ := decInt(g[2])
		i, _ := decBig(g[3])
		if !(1 <= p && p <= 38 && 0 <= s && s <= p) || new(big.Int).Abs(i).Cmp(decPow10(p)) >= 0 {
			return "a decimal the library builds holds no more digits than its precision"
		}
		text := string(unhx(g[4]))
		r, ok := new(big.Rat).SetString(text)
		if !decTextRe.MatchString(text) || !ok || r.Cmp(new(big.Rat).SetFrac(i, decPow10(s))) != 0 {
			return "the text is the exact decimal expansion of the unscaled integer divided by ten to the scale"
		}
		if g[5] != "cmp=1" {
			return "formatting a decimal and parsing the text back yields an equal decimal (a decimal as it comes off the wire)"
		}
		return ""
	}
	p, _ := decInt(f[2])
	s, _ := decInt(f[3])
	inDomain := 1 <= p && p <= 38 && 0 <= s && s <= p
	switch f[1] {
	case "new":
		switch {
		case inDomain && out != "ok":
			return "every precision 1..38 with a scale 0..precision is a valid combination"
		case (p > 38 || p < 0 || s < 0 || s > p) && out != "err":
			return "invalid precision/scale combinations are rejected at construction"
		case out != "ok" && out != "err":
			return "construction answers with a decimal or an error"
		}
		return ""
	case "fmt", "rt":
		i, _ := decBig(f[4])
		if !inDomain || new(big.Int).Abs(i).Cmp(decPow10(p)) >= 0 {
			return "" // outside the quantifier of the property
		}
		if f[1] == "rt" {
			if out != "ok "+i.String() {
				return "formatting a decimal and parsing the text back yields an equal decimal"
			}
			return ""
		}
		if !strings.HasPrefix(out, "ok ") {
			return "a decimal within its precision can be formatted"
		}
		text := string(unhx(out[3:]))
		if !decTextRe.MatchString(text) {
			return "text is [-]int.frac: integer part without leading zeros, fraction without trailing zeros, at least one digit on each side"
		}
		if strings.HasPrefix(text, "-") != (i.Sign() < 0) {
			return "the minus sign is present exactly for negative values"
		}
		r, ok := new(big.Rat).SetString(text)
		if !ok || r.Cmp(new(big.Rat).SetFrac(i, decPow10(s))) != 0 {
			return "the text is the exact decimal expansion of the unscaled integer divided by ten to the scale"
		}
		return ""
	case "parse":
		if !inDomain {
			return ""
		}
		text := string(unhx(f[4]))
		scale := new(big.Rat).SetInt(decPow10(s))
		max := decPow10(p)
		// value*10^s of a lenient numeral `[+-]?digits?(.digits?)?` with at least one digit
		value := func(t string) (*big.Rat, bool) {
			if !decLenientRe.MatchString(t) || !strings.ContainsAny(t, "0123456789") {
				return nil, false
			}
			t = strings.TrimPrefix(t, "+")
			parts := strings.SplitN(t, ".", 2)
			neg := strings.HasPrefix(parts[0], "-")
			digits := strings.TrimPrefix(parts[0], "-")
			frac := ""
			if len(parts) == 2 {
				frac = parts[1]
			}
			n, ok := new(big.Int).SetString(digits+frac, 10)
			if !ok {
				return nil, false
			}
			if neg {
				n.Neg(n)
			}
			r := new(big.Rat).SetFrac(n, decPow10(len(frac)))
			return r.Mul(r, scale), true
		}
		if strings.HasPrefix(out, "ok ") {
			v, ok := decBig(out[3:])
			if !ok {
				return "parse answers with an integer"
			}
			r, isNum := value(strings.TrimFunc(text, unicode.IsSpace))
			if !isNum {
				return "input that is not a numeral is rejected with an error"
			}
			if r.Cmp(new(big.Rat).SetInt(v)) != 0 {
				return "parsing never silently changes the value: input that cannot be represented is rejected with an error"
			}
			if new(big.Int).Abs(v).Cmp(max) >= 0 {
				return "a number with more digits than the precision is rejected with an error"
			}
			return ""
		}
		if out != "err" {
			return "parsing answers with the number or with an error and leaves the decimal untouched on error"
		}
		// rejected: must not be a plain numeral that is representable at this scale and fits the precision.
		// A fraction longer than the scale may be rejected only if a non-zero digit lies beyond the
		// scale (value*10^s is not an integer); if only zeros lie beyond it the number is representable.
		t := strings.Trim(text, " ")
		if decStrictRe.MatchString(t) {
			r, _ := value(t)
			if r.IsInt() && new(big.Int).Abs(r.Num()).Cmp(max) < 0 {
				return "a numeral that is representable at the scale (no non-zero digit beyond it) and fits the precision parses to exactly that number"
			}
		}
		return ""
	}
	return ""
}

var decSpaces = []string{" ", "\t", "\n", "\v", "\f", "\r", "\u0085", "\u00a0", "\u1680", "\u2000", "\u2001", "\u2002", "\u2003", "\u2004", "\u2005", "\u2006", "\u2007", "\u2008", "\u2009", "\u200a",
	"\u2028", "\u2029", "\u202f", "\u205f", "\u3000"}
var decNearSpaces = []string{"\u200b", "\ufeff", "\u180e", "\u001f", "\u0008", "\u000e", "\u0084", "\u0086", "\u009f",
	"\u00a1", "\u1fff", "\u200c", "\u2027", "\u202a", "\u2030", "\u2060", "\u3001", "\x00"}
var decGarbage = []string{"a", "e", "E", "x", "_", "/", ",", "+", "-", ".", " ", "\u0661", "\uff11", "\u00b2", "'", "\u2212",
	"e5", "0x", "Inf", "NaN", "\u00a0", "\u200b", "\x00", "\U0001d7cf"}

func decDigits(rng *rand.Rand, n int) string {
	var b strings.Builder
	for k := 0; k < n; k++ {
		switch rng.Intn(6) {
		case 0:
			b.WriteByte('0')
		case 1:
			b.WriteByte('9')
		default:
			b.WriteByte(byte('0' + rng.Intn(10)))
		}
	}
	return b.String()
}

func decWS(rng *rand.Rand) string {
	switch rng.Intn(4) {
	case 0, 1:
		return ""
	case 2:
		return strings.Repeat(" ", 1+rng.Intn(2))
	}
	var b strings.Builder
	for k := rng.Intn(3) + 1; k > 0; k-- {
		b.WriteString(decSpaces[rng.Intn(len(decSpaces))])
	}
	return b.String()
}

// decNumeral builds a mostly-valid numeral for (p,s).
func decNumeral(rng *rand.Rand, p, s int) string {
	sign := ""
	switch rng.Intn(8) {
	case 0, 1, 2:
		sign = "-"
	case 3:
		sign = "+"
	}
	// fraction length: mostly <= s, sometimes beyond
	fl := 0
	switch r := rng.Intn(10); {
	case r < 6:
		fl = rng.Intn(s + 1)
	case r < 7:
		fl = s
	case r < 9:
		fl = s + 1 + rng.Intn(3)
	}
	frac := decDigits(rng, fl)
	if fl > 0 && rng.Intn(3) == 0 { // trailing zeros
		z := 1 + rng.Intn(fl)
		frac = frac[:fl-z] + strings.Repeat("0", z)
	}
	// integer digits: mostly fitting p-s, sometimes one more, sometimes many
	il := 0
	switch r := rng.Intn(10); {
	case r < 5:
		il = rng.Intn(p - s + 1)
	case r < 7:
		il = p - s
	case r < 9:
		il = p - s + 1
	default:
		il = p - s + 2 + rng.Intn(4)
	}
	in := decDigits(rng, il)
	if il > 0 && rng.Intn(2) == 0 && in[0] == '0' {
		in = string(byte('1'+rng.Intn(9))) + in[1:]
	}
	if rng.Intn(4) == 0 { // leading zeros
		in = strings.Repeat("0", 1+rng.Intn(3)) + in
	}
	t := sign + in
	if fl > 0 || rng.Intn(5) == 0 {
		t += "." + frac
	}
	return t
}

func decMutate(rng *rand.Rand, t string) string {
	rs := []rune(t)
	pos := rng.Intn(len(rs) + 1)
	ins := decGarbage[rng.Intn(len(decGarbage))]
	switch rng.Intn(5) {
	case 0, 1, 2: // insert
		return string(rs[:pos]) + ins + string(rs[pos:])
	case 3: // replace
		if pos < len(rs) {
			return string(rs[:pos]) + ins + string(rs[pos+1:])
		}
		return t + ins
	default: // near-space around
		n := decNearSpaces[rng.Intn(len(decNearSpaces))]
		if rng.Intn(2) == 0 {
			return n + t
		}
		return t + n
	}
}

func decGen(tier string, rng *rand.Rand, emit func(Case)) {
	// money values as they come off the wire (SHORTMONEY 4 bytes, MONEY 8 bytes high word first, MONEYN
	// either): boundaries of every digit count and random ones
	// numeric values as they come off the wire (DECN / NUMN: sign byte, magnitude big-endian): zero with one
	// to four magnitude bytes, small and large magnitudes, both signs
	for _, t := range []int{0x6A, 0x6C} {
		for _, mag := range [][]byte{{0}, {0, 0}, {0, 0, 0, 0}, {1}, {0, 1}, {0xff}, {1, 0}, {0x0d, 0xe0, 0xb6, 0xb3, 0xa7, 0x63, 0xff, 0xff}, {0x7f, 0xff, 0xff}} {
			for _, sign := range []byte{0, 1} {
				emit(Case{Line: fmt.Sprintf("dec wire %d %s", t, hx(append([]byte{sign}, mag...))), Kind: "wire-numeric"})
			}
		}
	}
	for _, t := range []int{0x7A, 0x3C, 0x6E} {
		for _, n := range []int{4, 8} {
			if (t == 0x7A && n == 8) || (t == 0x3C && n == 4) {
				continue
			}
			var vals []int64
			for k, pw := 0, int64(1); k <= 18; k, pw = k+1, pw*10 {
				vals = append(vals, pw, pw-1, -pw, -(pw - 1))
			}
			vals = append(vals, 0, 1<<31-1, -(1 << 31), 1<<63-1, -(1 << 63))
			for i := 0; i < 40; i++ {
				vals = append(vals, rng.Int63()>>uint(rng.Intn(63))*int64(1-2*rng.Intn(2)))
			}
			for _, v := range vals {
				if n == 4 {
					if v > 1<<31-1 || v < -(1<<31) {
						continue
					}
					emit(Case{Line: fmt.Sprintf("dec wire %d %s", t, hx(le32(int(uint32(int32(v)))))), Kind: "wire-money"})
				} else {
					u := uint64(v)
					emit(Case{Line: fmt.Sprintf("dec wire %d %s", t, hx(append(le32(int(uint32(u>>32))), le32(int(uint32(u)))...))), Kind: "wire-money"})
				}
			}
		}
	}
	// 1. sanity: p, s in -3..42 (+ a few far values)
	for p := -3; p <= 42; p++ {
		for s := -3; s <= 42; s++ {
			emit(Case{Line: fmt.Sprintf("dec new %d %d", p, s), Kind: "new"})
		}
	}
	for _, v := range [][2]int{{-1000000, 0}, {1000000, 0}, {10, -1000000}, {10, 1000000}, {38, 38}, {38, 39}, {39, 39}, {0, 0}, {0, 1}} {
		emit(Case{Line: fmt.Sprintf("dec new %d %d", v[0], v[1]), Kind: "new"})
	}
	// 2. all 741 valid pairs with p >= 1 (and the accepted pair 0,0) x boundary values
	one := big.NewInt(1)
	for p := 0; p <= 38; p++ {
		for s := 0; s <= p; s++ {
			vals := []*big.Int{big.NewInt(0)}
			for k := 0; k <= p; k++ {
				t := decPow10(k)
				vals = append(vals, t, new(big.Int).Sub(t, one))
			}
			if tier == "thorough" {
				for k := 0; k < 6; k++ {
					vals = append(vals, new(big.Int).Rand(rng, decPow10(p)))
				}
			} else {
				vals = append(vals, new(big.Int).Rand(rng, decPow10(p)))
			}
			for _, v := range vals {
				for _, sg := range []int{1, -1} {
					w := new(big.Int).Set(v)
					if sg < 0 {
						if v.Sign() == 0 {
							continue
						}
						w.Neg(w)
					}
					emit(Case{Line: fmt.Sprintf("dec fmt %d %d %s", p, s, w), Kind: "fmt-boundary"})
					emit(Case{Line: fmt.Sprintf("dec rt %d %d %s", p, s, w), Kind: "rt-boundary"})
				}
			}
		}
	}
	// 3. values with more digits than the precision (String() misbehaves but must not diverge from the model),
	//    and Scale > Precision through the exported fields (Go panics)
	nOver := 300
	if tier == "thorough" {
		nOver = 20000
	}
	for k := 0; k < nOver; k++ {
		p := rng.Intn(39)
		s := rng.Intn(p + 1)
		v := new(big.Int).Rand(rng, decPow10(p+1+rng.Intn(6)))
		if rng.Intn(2) == 0 {
			v.Neg(v)
		}
		emit(Case{Line: fmt.Sprintf("dec fmt %d %d %s", p, s, v), Kind: "fmt-overflow"})
		p2, s2 := rng.Intn(45), rng.Intn(45)
		emit(Case{Line: fmt.Sprintf("dec fmtraw %d %d %s", p2, s2, v), Kind: "fmtraw"})
	}
	// 4. parse: structured numerals, with mutations
	nParse := 20000
	if tier == "thorough" {
		nParse = 1500000
	}
	for k := 0; k < nParse; k++ {
		p := 1 + rng.Intn(38)
		if rng.Intn(3) == 0 {
			p = 1 + rng.Intn(6)
		}
		s := rng.Intn(p + 1)
		t := decNumeral(rng, p, s)
		kind := "parse-numeral"
		if rng.Intn(4) == 0 {
			t = decMutate(rng, t)
			kind = "parse-mutated"
			if rng.Intn(4) == 0 {
				t = decMutate(rng, t)
			}
		}
		t = decWS(rng) + t + decWS(rng)
		emit(Case{Line: fmt.Sprintf("dec parse %d %d %s", p, s, hx([]byte(t))), Kind: kind})
	}
	// 5. malformed stream
	mal := []string{"", ".", "..", "+", "-", "+.", "-.", " ", "  ", "\u00a0", "1.2.3", "1..2", ".1.", "1.2.", "--1", "+-1", "-+1", "1-", "1+",
		"1.-2", "1.+2", "-1.-2", "1. 2", "1 .2", "1 2", "- 1", "1_0", "1_0.0", "1e5", "1E5", "1.0e1", "0x10", "0b1", "0o7", "1/2", "Inf", "NaN", "nil",
		"<nil>", "\u0967", "\uff11", "1,5", "1.5f", "\u0660", "\u22121", "1\x00", "\x001", "1\u200b", "\u200b1", "\ufeff1", "0", "-0", "+0", "0.0", "-0.0", "00", "00.00",
		"0.", ".0", "-.0", "+0.", "5.", ".5", "+5", "+.5", "-.5", "-5.", "0.5", "0.50", "0.500", "0.05", ".00", "-.0", "+.0", "0.000", "5.000", "1.2300", "1.2301", "1.230", "1.231", "0.0000000000000000000000000000000000000000", "5.0", "123.0", "000.5", "1.0", "10", "9", "99999", "100000",
		"99999.9", "999.99", "999.999", "999.990", "1000.0", "1000", "0999.99", "-999.99", "-1000"}
	for _, m := range mal {
		for _, ps := range [][2]int{{5, 2}, {1, 0}, {1, 1}, {3, 0}, {38, 38}, {38, 0}, {0, 0}} {
			emit(Case{Line: fmt.Sprintf("dec parse %d %d %s", ps[0], ps[1], hx([]byte(m))), Kind: "parse-malformed"})
		}
	}
	for _, sp := range append(append([]string{}, decSpaces...), decNearSpaces...) {
		for _, t := range []string{sp + "1.5", "1.5" + sp, sp + "1.5" + sp, "1" + sp + ".5", sp, sp + sp} {
			emit(Case{Line: fmt.Sprintf("dec parse 5 2 %s", hx([]byte(t))), Kind: "parse-space"})
		}
	}
	for _, n := range []int{37, 38, 39, 40, 100, 1000, 5000} {
		for _, d := range []string{"0", "1", "9"} {
			long := strings.Repeat(d, n)
			emit(Case{Line: fmt.Sprintf("dec parse 38 0 %s", hx([]byte(long))), Kind: "parse-long"})
			emit(Case{Line: fmt.Sprintf("dec parse 38 38 %s", hx([]byte("0."+long))), Kind: "parse-long"})
			emit(Case{Line: fmt.Sprintf("dec parse 38 19 %s", hx([]byte("-"+long+"."+long))), Kind: "parse-long"})
			emit(Case{Line: fmt.Sprintf("dec parse 5 2 %s", hx([]byte(strings.Repeat(" ", n)+"1.5"+strings.Repeat("\t", n)))), Kind: "parse-long"})
		}
	}
	// 6. all strings over a small alphabet
	alpha := []string{"0", "1", "5", ".", "-", "+", " "}
	maxLen := 4
	if tier == "thorough" {
		maxLen = 6
	}
	var rec func(prefix string, n int)
	rec = func(prefix string, n int) {
		for _, ps := range [][2]int{{3, 1}, {2, 0}} {
			if ps[1] == 0 && len(prefix) > maxLen-1 {
				continue
			}
			emit(Case{Line: fmt.Sprintf("dec parse %d %d %s", ps[0], ps[1], hx([]byte(prefix))), Kind: "parse-exhaustive"})
		}
		if n == 0 {
			return
		}
		for _, a := range alpha {
			rec(prefix+a, n-1)
		}
	}
	rec("", maxLen)
}

func init() {
	register(&Prop{
		ID:      "C16",
		Gen:     decGen,
		Impl:    decImpl,
		NoModel: func(line string) bool { return strings.HasPrefix(line, "dec wire ") },
		Oracle:  decOracle,
		FindingKey: func(line, out, clause string) string {
			f := strings.Fields(line)
			if len(f) >= 2 {
				return f[1] + ":" + clause
			}
			return line
		},
		Nontrivial: func(line, out string) bool {
			return out != "bad-op" && out != "err-new" && !strings.HasPrefix(line, "dec new")
		},
		NoShrink: true,
		Rule:     "sanity: all (p,s) in -3..42 squared plus far values; format and round trip: every accepted pair 0<=s<=p<=38 x {0, +-1, +-10^k, +-(10^k-1) for k=0..p (10^p is the first value outside the precision)} plus random values below 10^p; String() on values with more digits than the precision and with Scale > Precision set through the exported fields (panic expected); parse: random numerals built for a random pair (sign -,+ or none; integer part fitting p-s, one digit too long or much too long, with leading zeros; fraction mostly <= s digits, sometimes longer, with trailing zeros (also beyond the scale, which must still parse); optional point; leading/trailing ASCII and Unicode white space), a quarter of them mutated by inserting/replacing garbage (letters, second point, signs, inner spaces, non-ASCII digits, near-space runes); a fixed malformed list x 7 pairs; every Unicode space and 18 near-space runes around and inside 1.5; digit strings of 37..5000 characters; all strings over {0,1,5,.,-,+,space} up to length 4 (quick) / 6 (thorough). Non-trivial = every case that reaches String or SetString on a constructed decimal (everything except the sanity-only and rejected-construction lines).",
		Assumptions: []string{
			"text arguments are valid UTF-8 (Go runes = Lean Char); invalid UTF-8 is answered bad-op on both sides and is not generated",
			"Go standard library behaviour restated in the model (strings.TrimSpace/Split/Trim/TrimLeft/TrimRight, big.Int.SetString base 10, big.Int %0Ns formatting, string slicing) is tied to the real functions by this correspondence run only",
			"the unscaled value is installed through SetBytes+Negate, so String() is exercised for every integer, not only for those SetString can produce",
			"oracle: a plain numeral -?digits(.digits)? surrounded by ASCII spaces must parse to the exact value whenever value*10^scale is an integer below 10^precision (zeros beyond the scale are representable), and any accepted input must be a numeral with exactly the answered value; where the property text is silent (a leading +, no digit on one side of the point, Unicode white space other than the ASCII space, precision 0) either the exact value or an error is accepted, never a different value",
		},
	})
}

// rule addenda (rounds 9-12): what the evidence says about the coverage of a run
func init() {
	if p := registry["C16"]; p != nil {
		p.Rule += " Every rt case goes on with the object after printing: Int() copies, wire encodings, Negate / Negate back, SetInt64 and the value back — the text must follow the value each time; numerics off the wire (DECN / NUMN / money) are printed, parsed back and compared both ways."
	}
}
