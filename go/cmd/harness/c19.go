package main

// C19 — A version has a capability exactly inside the capability's ranges.
//
// Line protocol (model keyword `cap`); every string item is a plain token over
// [0-9A-Za-z.+~-] (never containing space , | ; :), the empty string is written `_`:
//
//	cap int <version> [<caps>]          custom comparer on decimal integers (mirrored by the Lean model)
//	cap tbl <table> <version> [<caps>]  default comparer (nil => VersionCompareSemantic); <table> carries the
//	                                    results of the real VersionCompareSemantic for the Lean side:
//	                                    a,b:-1;a,c:e;...  (`-` = empty table)
//	cap new <cap>                       the ranges NewCapability builds
//	cap cmp <a> <b>                     VersionCompareSemantic itself (oracle only, no model)
//
// <caps> = cap1|cap2|...   cap = `-` (no strings) or the comma separated variadic strings of NewCapability.
// Answers: `ok 1,0,1` (Has per capability, `ok -` for no capability) | `err` | `bad-op` | `bad-table`;
// `ranges lo,hi|lo,_` ; `-1|0|1|e`.

import (
	"fmt"
	"math/big"
	"math/rand"
	"regexp"
	"strconv"
	"strings"

	"github.com/SAP/go-dblib/capability"
)

// ---------------------------------------------------------------- protocol helpers (mirror of the Lean `run`)

func c19UnItem(s string) string {
	if s == "_" {
		return ""
	}
	return s
}

func c19Item(s string) string {
	if s == "" {
		return "_"
	}
	return s
}

func c19ParseCap(s string) []string {
	if s == "-" {
		return []string{}
	}
	parts := strings.Split(s, ",")
	for i := range parts {
		parts[i] = c19UnItem(parts[i])
	}
	return parts
}

func c19ParseCaps(s string) [][]string {
	var out [][]string
	for _, c := range strings.Split(s, "|") {
		out = append(out, c19ParseCap(c))
	}
	return out
}

func c19CapTok(ss []string) string {
	if len(ss) == 0 {
		return "-"
	}
	it := make([]string, len(ss))
	for i, s := range ss {
		it[i] = c19Item(s)
	}
	return strings.Join(it, ",")
}

func c19CapsTok(caps [][]string) string {
	t := make([]string, len(caps))
	for i, c := range caps {
		t[i] = c19CapTok(c)
	}
	return strings.Join(t, "|")
}

var c19DecRe = regexp.MustCompile(`^-?[0-9]+$`)

type c19Pair struct{ a, b string }

// table entry value: nil = the comparer reported an error
func c19ParseTable(s string) (map[c19Pair]*int, bool) {
	t := map[c19Pair]*int{}
	if s == "-" {
		return t, true
	}
	for _, e := range strings.Split(s, ";") {
		kv := strings.Split(e, ":")
		if len(kv) != 2 {
			return nil, false
		}
		ab := strings.Split(kv[0], ",")
		if len(ab) != 2 {
			return nil, false
		}
		k := c19Pair{c19UnItem(ab[0]), c19UnItem(ab[1])}
		var val *int
		if kv[1] != "e" {
			if !c19DecRe.MatchString(kv[1]) {
				return nil, false
			}
			n, ok := new(big.Int).SetString(kv[1], 10)
			if !ok {
				return nil, false
			}
			i := n.Sign() * (1 << 40) // beyond int64: only the sign matters to the code
			if n.IsInt64() {
				i = int(n.Int64())
			}
			val = &i
		}
		if _, dup := t[k]; !dup { // the model's lookup finds the first entry
			t[k] = val
		}
	}
	return t, true
}

type c19Line struct {
	mode  string // int | tbl | new | cmp
	tbl   string
	v     string
	caps  [][]string
	a, b  string
	table map[c19Pair]*int
}

func c19Parse(line string) (c19Line, bool) {
	f := strings.Fields(line)
	var l c19Line
	if len(f) < 2 || f[0] != "cap" {
		return l, false
	}
	l.mode = f[1]
	switch f[1] {
	case "int":
		if len(f) != 3 && len(f) != 4 {
			return l, false
		}
		l.v = c19UnItem(f[2])
		if len(f) == 4 {
			l.caps = c19ParseCaps(f[3])
		}
	case "tbl":
		if len(f) != 4 && len(f) != 5 {
			return l, false
		}
		t, ok := c19ParseTable(f[2])
		if !ok {
			return l, false
		}
		l.tbl, l.table = f[2], t
		l.v = c19UnItem(f[3])
		if len(f) == 5 {
			l.caps = c19ParseCaps(f[4])
		}
	case "new":
		if len(f) != 3 {
			return l, false
		}
		l.caps = [][]string{c19ParseCap(f[2])}
	case "cmp":
		if len(f) != 4 {
			return l, false
		}
		l.a, l.b = c19UnItem(f[2]), c19UnItem(f[3])
	default:
		return l, false
	}
	return l, true
}

// ---------------------------------------------------------------- the custom comparer handed to the real code

// c19IntCmp is the Go twin of the Lean `intCmp`: optional '-', one or more ASCII digits.
func c19IntCmp(a, b string) (int, error) {
	if !c19DecRe.MatchString(a) || !c19DecRe.MatchString(b) {
		return 0, fmt.Errorf("not a number")
	}
	x, _ := new(big.Int).SetString(a, 10)
	y, _ := new(big.Int).SetString(b, 10)
	return x.Cmp(y), nil
}

// ---------------------------------------------------------------- Impl

// c19Desc: the description a capability is created with. The description is documented as optional and not
// used by the package, so capabilities of one target may share one or have none: by the shape of the case,
// all distinct / all the same / all empty.
func c19Desc(i int, v string, n int) string {
	switch (len(v) + n) % 3 {
	case 0:
		return "cap" + strconv.Itoa(i)
	case 1:
		return "capability"
	}
	return ""
}

func c19Has(cmp capability.VersionComparer, v string, capStrs [][]string) string {
	caps := make([]*capability.Capability, len(capStrs))
	for i, ss := range capStrs {
		caps[i] = capability.NewCapability(c19Desc(i, v, len(capStrs)), ss...)
	}
	t := capability.Target{VersionComparer: cmp, Capabilities: caps}
	ver, err := t.Version(v)
	if err != nil {
		if ver != nil {
			return "err-with-version"
		}
		return "err"
	}
	if ver.VersionString() != v {
		return "version-string-changed"
	}
	if len(caps) == 0 {
		return "ok -"
	}
	out := make([]string, len(caps))
	for i, c := range caps {
		if ver.Has(c) {
			out[i] = "1"
		} else {
			out[i] = "0"
		}
	}
	return "ok " + strings.Join(out, ",")
}

// c19HasAgain: the same question asked of a version object with a history — the object was first evaluated
// against the same Capability objects while their ranges contained the version (so every capability was
// recorded as present), then the ranges are set to the real ones and the version is evaluated again. What it
// has must be what the ranges say now. "" = no history possible (the comparer rejects the version).
func c19HasAgain(cmp capability.VersionComparer, v string, capStrs [][]string) string {
	caps := make([]*capability.Capability, len(capStrs))
	for i := range capStrs {
		caps[i] = capability.NewCapability(c19Desc(i, v, len(capStrs)), v, "")
	}
	t := capability.Target{VersionComparer: cmp, Capabilities: caps}
	ver, err := t.Version(v)
	if err != nil || ver == nil || len(caps) == 0 {
		return ""
	}
	for i, ss := range capStrs {
		caps[i].VersionRanges = capability.NewCapability("x", ss...).VersionRanges
		if len(caps[i].VersionRanges) == 0 {
			// a capability whose ranges were all taken away is not re-evaluated at all by SetCapabilities
			// (nothing to iterate over): re-use of a version object is only judged for capabilities that
			// still have ranges
			return ""
		}
	}
	if err := t.SetCapabilities(ver); err != nil {
		return "err"
	}
	out := make([]string, len(caps))
	for i, c := range caps {
		if ver.Has(c) {
			out[i] = "1"
		} else {
			out[i] = "0"
		}
	}
	return "ok " + strings.Join(out, ",")
}

func c19Impl(line string) string {
	l, ok := c19Parse(line)
	if !ok {
		return "bad-op"
	}
	switch l.mode {
	case "int":
		ans := c19Has(c19IntCmp, l.v, l.caps)
		if strings.HasPrefix(ans, "ok ") {
			if again := c19HasAgain(c19IntCmp, l.v, l.caps); again != "" && again != ans {
				return "re-evaluated-version-differs:" + strings.ReplaceAll(again, " ", "_")
			}
		}
		return ans
	case "tbl":
		// the answer comes from the default path (VersionComparer == nil)
		ans := c19Has(nil, l.v, l.caps)
		// second run through a recording wrapper: every comparison the code makes must be in the
		// shipped table (else the model cannot answer: bad-table) and agree with it
		missing, stale := false, false
		rec := func(a, b string) (int, error) {
			i, err := capability.VersionCompareSemantic(a, b)
			e, ok := l.table[c19Pair{a, b}]
			if !ok {
				missing = true
				return 0, fmt.Errorf("missing")
			}
			if (e == nil) != (err != nil) || (e != nil && *e != i) {
				stale = true
			}
			return i, err
		}
		ans2 := c19Has(rec, l.v, l.caps)
		if missing {
			return "bad-table"
		}
		if stale {
			return "stale-table"
		}
		if ans2 != ans {
			return "default-comparer-path-differs"
		}
		return ans
	case "new":
		c := capability.NewCapability("d", l.caps[0]...)
		if c.VersionRanges == nil {
			return "ranges nil"
		}
		if len(c.VersionRanges) == 0 {
			return "ranges -"
		}
		rs := make([]string, len(c.VersionRanges))
		for i, r := range c.VersionRanges {
			rs[i] = c19Item(r.Introduced) + "," + c19Item(r.Removed)
		}
		return "ranges " + strings.Join(rs, "|")
	case "cmp":
		i, err := capability.VersionCompareSemantic(l.a, l.b)
		if err != nil {
			return "e"
		}
		return strconv.Itoa(i)
	}
	return "bad-op"
}

// ---------------------------------------------------------------- oracle: independent parsing and ordering

const (
	c19Good = iota
	c19Bad
	c19Unknown
)

type c19Ver struct {
	num *big.Int // integer comparer
	seg [3]int64 // semantic: MAJOR MINOR PATCH
	pre []string // pre-release identifiers (nil = release); build metadata is ignored
}

func c19ParseInt(s string) (c19Ver, int) {
	// written from the harness contract: a decimal integer, everything else is unparsable
	if s == "" {
		return c19Ver{}, c19Bad
	}
	body := s
	if body[0] == '-' {
		body = body[1:]
	}
	if body == "" {
		return c19Ver{}, c19Bad
	}
	for _, c := range []byte(body) {
		if c < '0' || c > '9' {
			return c19Ver{}, c19Bad
		}
	}
	n, ok := new(big.Int).SetString(s, 10)
	if !ok {
		return c19Ver{}, c19Unknown
	}
	return c19Ver{num: n}, c19Good
}

// strings that are certainly no version for any semantic-version comparer
var c19SemBad = map[string]bool{"": true, "x.y": true, "1..2": true, "abc": true, "1.0.0+": true,
	".1": true, "1.": true, "1.x.0": true, "1.0.0-beta_1": true, "scrambled": true}

func c19IsNum(s string) bool {
	if s == "" {
		return false
	}
	for _, c := range []byte(s) {
		if c < '0' || c > '9' {
			return false
		}
	}
	return true
}

func c19IsIdent(s string) bool {
	if s == "" {
		return false
	}
	for _, c := range []byte(s) {
		if !(c >= '0' && c <= '9' || c >= 'a' && c <= 'z' || c >= 'A' && c <= 'Z' || c == '-') {
			return false
		}
	}
	return true
}

// c19ParseSem parses MAJOR.MINOR[.PATCH][-pre][+build] by hand (semver.org 2.0.0 §2, §9, §10; a missing
// PATCH is read as 0). Anything that is neither of this form nor in the certainly-bad list is `unknown`
// and the oracle abstains.
func c19ParseSem(s string) (c19Ver, int) {
	if c19SemBad[s] {
		return c19Ver{}, c19Bad
	}
	rest := s
	if i := strings.IndexByte(rest, '+'); i >= 0 {
		for _, id := range strings.Split(rest[i+1:], ".") {
			if !c19IsIdent(id) {
				return c19Ver{}, c19Unknown
			}
		}
		rest = rest[:i]
	}
	var v c19Ver
	if i := strings.IndexByte(rest, '-'); i >= 0 {
		v.pre = strings.Split(rest[i+1:], ".")
		for _, id := range v.pre {
			if !c19IsIdent(id) || (c19IsNum(id) && len(id) > 1 && id[0] == '0') || (c19IsNum(id) && len(id) > 9) {
				return c19Ver{}, c19Unknown
			}
		}
		rest = rest[:i]
	}
	segs := strings.Split(rest, ".")
	if len(segs) < 2 || len(segs) > 3 {
		return c19Ver{}, c19Unknown
	}
	for i, sg := range segs {
		if !c19IsNum(sg) || len(sg) > 9 || (len(sg) > 1 && sg[0] == '0') {
			return c19Ver{}, c19Unknown
		}
		n, _ := strconv.ParseInt(sg, 10, 64)
		v.seg[i] = n
	}
	return v, c19Good
}

// c19Cmp: precedence of semver.org 2.0.0 §11 (or integer order)
func c19Cmp(a, b c19Ver) int {
	if a.num != nil {
		return a.num.Cmp(b.num)
	}
	for i := 0; i < 3; i++ {
		if a.seg[i] != b.seg[i] {
			if a.seg[i] < b.seg[i] {
				return -1
			}
			return 1
		}
	}
	switch {
	case a.pre == nil && b.pre == nil:
		return 0
	case a.pre == nil:
		return 1 // a release is higher than its pre-releases
	case b.pre == nil:
		return -1
	}
	for i := 0; i < len(a.pre) && i < len(b.pre); i++ {
		x, y := a.pre[i], b.pre[i]
		if x == y {
			continue
		}
		xn, yn := c19IsNum(x), c19IsNum(y)
		switch {
		case xn && yn:
			xi, _ := strconv.ParseInt(x, 10, 64)
			yi, _ := strconv.ParseInt(y, 10, 64)
			if xi < yi {
				return -1
			}
			return 1
		case xn:
			return -1 // numeric identifiers have lower precedence than alphanumeric ones
		case yn:
			return 1
		case x < y:
			return -1
		default:
			return 1
		}
	}
	switch {
	case len(a.pre) < len(b.pre):
		return -1 // a larger set of fields has higher precedence
	case len(a.pre) > len(b.pre):
		return 1
	}
	return 0
}

type c19Range struct{ lo, hi string }

// c19Pairs: the pairing described in the documentation of NewCapability: strings are read in pairs
// (lower, upper); an unpaired last string is a lower bound without upper bound; an unpaired empty
// string stands for nothing.
func c19Pairs(ss []string) []c19Range {
	var rs []c19Range
	for len(ss) >= 2 {
		rs = append(rs, c19Range{ss[0], ss[1]})
		ss = ss[2:]
	}
	if len(ss) == 1 && ss[0] != "" {
		rs = append(rs, c19Range{ss[0], ""})
	}
	return rs
}

type c19Eval struct {
	parse func(string) (c19Ver, int)
}

// wellFormed: the version and all bounds are parsable and every two-sided range has lower < upper
// (third result false = the oracle cannot tell)
func (e c19Eval) wellFormed(v string, caps [][]c19Range) (wf bool, known bool) {
	_, st := e.parse(v)
	if st == c19Unknown {
		return false, false
	}
	wf = st == c19Good
	for _, c := range caps {
		for _, r := range c {
			var lo, hi c19Ver
			var sl, sh int = c19Good, c19Good
			if r.lo != "" {
				lo, sl = e.parse(r.lo)
			}
			if r.hi != "" {
				hi, sh = e.parse(r.hi)
			}
			if sl == c19Unknown || sh == c19Unknown {
				return false, false
			}
			if sl == c19Bad || sh == c19Bad {
				wf = false
				continue
			}
			if r.lo != "" && r.hi != "" && c19Cmp(lo, hi) >= 0 {
				wf = false
			}
		}
	}
	return wf, true
}

// member: interval membership, lower inclusive, upper exclusive, missing bound unbounded; the range
// without any bound counts as no range (DESIGN §7 C19)
func (e c19Eval) member(v c19Ver, r c19Range) bool {
	if r.lo == "" && r.hi == "" {
		return false
	}
	if r.lo != "" {
		lo, _ := e.parse(r.lo)
		if c19Cmp(lo, v) > 0 {
			return false
		}
	}
	if r.hi != "" {
		hi, _ := e.parse(r.hi)
		if c19Cmp(v, hi) >= 0 {
			return false
		}
	}
	return true
}

// expectSeq: expectation for input that is not well-formed. Errors are demanded only for ranges that
// are evaluated: capabilities in order, ranges in order up to and including the first containing one.
func (e c19Eval) expectSeq(v string, caps [][]c19Range) (string, bool) {
	pv, sv := e.parse(v)
	has := make([]string, len(caps))
	for i, c := range caps {
		has[i] = "0"
		for _, r := range c {
			if r.lo == "" && r.hi == "" {
				continue // nothing to evaluate
			}
			if sv == c19Unknown {
				return "", false
			}
			var lo, hi c19Ver
			sl, sh := c19Good, c19Good
			if r.lo != "" {
				lo, sl = e.parse(r.lo)
			}
			if r.hi != "" {
				hi, sh = e.parse(r.hi)
			}
			if sl == c19Unknown || sh == c19Unknown {
				return "", false
			}
			if sv == c19Bad || sl == c19Bad || sh == c19Bad {
				return "err", true
			}
			if r.lo != "" && r.hi != "" && c19Cmp(lo, hi) >= 0 {
				return "err", true
			}
			if e.member(pv, r) {
				has[i] = "1"
				break
			}
		}
	}
	if len(has) == 0 {
		return "ok -", true
	}
	return "ok " + strings.Join(has, ","), true
}

const (
	c19ClNoRange  = "a capability with no range is never reported"
	c19ClMember   = "for well-formed input a capability is reported exactly when the version lies in at least one of its ranges (lower inclusive, upper exclusive, missing bound unbounded)"
	c19ClWfOk     = "well-formed input is answered, not rejected"
	c19ClErr      = "an evaluated range that is inverted, zero-width or unparsable (or an unparsable version that is compared) is reported as an error, never as a silent answer"
	c19ClSilent   = "input that is not well-formed is answered only from well-formed ranges evaluated before the first containing one"
	c19ClOrder    = "for well-formed input the outcome does not depend on the order of ranges or capabilities"
	c19ClPairs    = "NewCapability reads its strings in pairs (lower, upper); an unpaired last string has no upper bound"
	c19ClCmp      = "the default comparer orders semantic versions by semantic-version precedence and rejects what is no version"
	c19ClProtocol = "the harness line is answered"
)

func c19RangesToStrs(rs []c19Range) []string {
	out := []string{}
	for _, r := range rs {
		out = append(out, r.lo, r.hi)
	}
	return out
}

func c19Oracle(line, out string) string {
	l, ok := c19Parse(line)
	if !ok {
		if out != "bad-op" {
			return c19ClProtocol
		}
		return ""
	}
	switch l.mode {
	case "new":
		rs := c19Pairs(l.caps[0])
		want := "ranges -"
		if len(rs) > 0 {
			p := make([]string, len(rs))
			for i, r := range rs {
				p[i] = c19Item(r.lo) + "," + c19Item(r.hi)
			}
			want = "ranges " + strings.Join(p, "|")
		}
		if out != want {
			return c19ClPairs
		}
		return ""
	case "cmp":
		a, sa := c19ParseSem(l.a)
		b, sb := c19ParseSem(l.b)
		if sa == c19Bad || sb == c19Bad {
			if out != "e" {
				return c19ClCmp
			}
			return ""
		}
		if sa == c19Unknown || sb == c19Unknown {
			return ""
		}
		if out != strconv.Itoa(c19Cmp(a, b)) {
			return c19ClCmp
		}
		return ""
	}
	if out == "bad-table" {
		return "" // hand-written line with an incomplete table: nothing to judge
	}
	e := c19Eval{parse: c19ParseInt}
	if l.mode == "tbl" {
		e.parse = c19ParseSem
	}
	caps := make([][]c19Range, len(l.caps))
	for i, ss := range l.caps {
		caps[i] = c19Pairs(ss)
	}
	if out != "err" && !strings.HasPrefix(out, "ok ") {
		return c19ClProtocol
	}
	var has []string
	if strings.HasPrefix(out, "ok ") && out != "ok -" {
		has = strings.Split(out[3:], ",")
	}
	if out != "err" && len(has) != len(caps) {
		return c19ClProtocol
	}
	// capabilities with no range are never reported — whatever else the line contains
	if out != "err" {
		for i, c := range caps {
			if len(c) == 0 && has[i] != "0" {
				return c19ClNoRange
			}
		}
	}
	wf, known := e.wellFormed(l.v, caps)
	if !known {
		return ""
	}
	if wf {
		if out == "err" {
			return c19ClWfOk
		}
		pv, _ := e.parse(l.v)
		for i, c := range caps {
			in := false
			for _, r := range c {
				if e.member(pv, r) {
					in = true
				}
			}
			if in != (has[i] == "1") {
				return c19ClMember
			}
		}
		// order independence, checked on the real code directly: reverse the ranges of every
		// capability, rotate them, reverse the capabilities (Gen also emits every permutation as
		// its own line, each judged by the order-free clause above)
		variant := func(perm func([]c19Range) []c19Range, revCaps bool) string {
			cs := make([][]string, len(caps))
			for i, c := range caps {
				cs[i] = c19RangesToStrs(perm(c))
			}
			if revCaps {
				for i, j := 0, len(cs)-1; i < j; i, j = i+1, j-1 {
					cs[i], cs[j] = cs[j], cs[i]
				}
			}
			f := strings.Fields(line)
			f = f[:len(f)-1]
			if len(l.caps) == 0 {
				return ""
			}
			o := c19Impl(strings.Join(append(f, c19CapsTok(cs)), " "))
			if revCaps && strings.HasPrefix(o, "ok ") && o != "ok -" {
				h := strings.Split(o[3:], ",")
				for i, j := 0, len(h)-1; i < j; i, j = i+1, j-1 {
					h[i], h[j] = h[j], h[i]
				}
				o = "ok " + strings.Join(h, ",")
			}
			return o
		}
		rev := func(c []c19Range) []c19Range {
			r := make([]c19Range, len(c))
			for i := range c {
				r[len(c)-1-i] = c[i]
			}
			return r
		}
		rot := func(c []c19Range) []c19Range {
			if len(c) < 2 {
				return c
			}
			return append(append([]c19Range{}, c[1:]...), c[0])
		}
		id := func(c []c19Range) []c19Range { return c }
		if len(l.caps) > 0 {
			for _, o := range []string{variant(rev, false), variant(rot, false), variant(id, true), variant(rev, true)} {
				if o != out {
					return c19ClOrder
				}
			}
		}
		return ""
	}
	want, known := e.expectSeq(l.v, caps)
	if !known {
		return ""
	}
	if want == "err" && out != "err" {
		return c19ClErr
	}
	if want != out {
		return c19ClSilent
	}
	return ""
}

// c19ComparerDeviates: the failure is explained by the default comparer alone: the line ships a
// result of VersionCompareSemantic that differs from semantic-version precedence on two well-formed
// versions, AND the implementation's answer is exactly what the property demands when "lies in" is
// read with the shipped comparison results instead of semantic-version precedence (so the range
// logic did what it should with what the comparer told it). Only used to key the finding; never to
// pass a case.
func c19ComparerDeviates(l c19Line, out string) bool {
	if l.mode == "cmp" {
		_, sa := c19ParseSem(l.a)
		_, sb := c19ParseSem(l.b)
		return sa == c19Good && sb == c19Good
	}
	dev := false
	for k, val := range l.table {
		a, sa := c19ParseSem(k.a)
		b, sb := c19ParseSem(k.b)
		if sa == c19Good && sb == c19Good && (val == nil || *val != c19Cmp(a, b)) {
			dev = true
		}
	}
	if !dev {
		return false
	}
	want, known := c19ExpectByTable(l)
	return known && want == out
}

// c19ExpectByTable: the sequential reading of the property with the shipped comparison results
func c19ExpectByTable(l c19Line) (string, bool) {
	look := func(a, b string) (int, int) {
		e, ok := l.table[c19Pair{a, b}]
		if !ok {
			return 0, c19Unknown
		}
		if e == nil {
			return 0, c19Bad
		}
		return *e, c19Good
	}
	has := make([]string, len(l.caps))
	for i, ss := range l.caps {
		has[i] = "0"
		for _, r := range c19Pairs(ss) {
			if r.lo == "" && r.hi == "" {
				continue
			}
			var lh, lv, vh int
			sts := []int{}
			if r.lo != "" && r.hi != "" {
				c, s := look(r.lo, r.hi)
				lh = c
				sts = append(sts, s)
			}
			if r.lo != "" {
				c, s := look(r.lo, l.v)
				lv = c
				sts = append(sts, s)
			}
			if r.hi != "" {
				c, s := look(l.v, r.hi)
				vh = c
				sts = append(sts, s)
			}
			bad := false
			for _, s := range sts {
				if s == c19Unknown {
					return "", false
				}
				if s == c19Bad {
					bad = true
				}
			}
			if bad || (r.lo != "" && r.hi != "" && lh >= 0) {
				return "err", true
			}
			if (r.lo == "" || lv <= 0) && (r.hi == "" || vh < 0) {
				has[i] = "1"
				break
			}
		}
	}
	if len(has) == 0 {
		return "ok -", true
	}
	return "ok " + strings.Join(has, ","), true
}

// ---------------------------------------------------------------- generators

func c19TblLine(v string, caps [][]string) string {
	// the comparisons SetCapabilities can make: (lo,hi), (lo,v), (v,hi) for every range
	var keys []c19Pair
	seen := map[c19Pair]bool{}
	add := func(a, b string) {
		k := c19Pair{a, b}
		if !seen[k] {
			seen[k] = true
			keys = append(keys, k)
		}
	}
	for _, ss := range caps {
		for _, r := range capability.NewCapability("d", ss...).VersionRanges {
			if r.Introduced != "" && r.Removed != "" {
				add(r.Introduced, r.Removed)
			}
			if r.Introduced != "" {
				add(r.Introduced, v)
			}
			if r.Removed != "" {
				add(v, r.Removed)
			}
		}
	}
	ents := make([]string, len(keys))
	for i, k := range keys {
		val := "e"
		if n, err := capability.VersionCompareSemantic(k.a, k.b); err == nil {
			val = strconv.Itoa(n)
		}
		ents[i] = c19Item(k.a) + "," + c19Item(k.b) + ":" + val
	}
	t := "-"
	if len(ents) > 0 {
		t = strings.Join(ents, ";")
	}
	l := "cap tbl " + t + " " + c19Item(v)
	if len(caps) > 0 {
		l += " " + c19CapsTok(caps)
	}
	return l
}

func c19IntLine(v string, caps [][]string) string {
	l := "cap int " + c19Item(v)
	if len(caps) > 0 {
		l += " " + c19CapsTok(caps)
	}
	return l
}

func c19Perms(n int) [][]int {
	if n == 0 {
		return [][]int{{}}
	}
	var out [][]int
	for _, p := range c19Perms(n - 1) {
		for i := 0; i <= len(p); i++ {
			q := append(append(append([]int{}, p[:i]...), n-1), p[i:]...)
			out = append(out, q)
		}
	}
	return out
}

var c19GridQuick = []string{"1.0.0-alpha", "1.0.0-alpha.beta", "1.0.0", "1.2.0", "1.10.0", "2.0.0-beta",
	"2.0.0-rc1", "2.0.0", "2.0.0+build5", "3.0", "", "x.y",
	// identifiers are case sensitive (ASCII order: capitals first): a version is compared as it was given
	"1.0.0-RC1", "2.0.0-Beta"}

var c19GridThorough = append(append([]string{}, c19GridQuick...),
	"0.9.9", "1.0.0-alpha.1", "1.0.0-beta", "1.0.0-beta.2", "1.0.0-beta.11", "1.0.0-rc.1", "1.0.1", "1.2",
	"2.0.0-1", "2.0.0-2", "2.0.0-beta+b7", "2.0.0-rc2", "2.0.0-rc10", "2.0.1", "2.10.0", "10.0.0",
	"abc", "1..2")

func c19Gen(tier string, rng *rand.Rand, emit func(Case)) {
	thorough := tier == "thorough"
	grid := c19GridQuick
	maxRanges, nRandom := 3, 1400
	if thorough {
		grid, maxRanges, nRandom = c19GridThorough, 4, 12000
	}
	line := func(mode, v string, caps [][]string) string {
		if mode == "int" {
			return c19IntLine(v, caps)
		}
		return c19TblLine(v, caps)
	}

	// 1. documentation and unit-test examples
	for _, ss := range [][]string{{"0.1.0", "0.2.0", "0.5.0", "1.0.0"}, {"1.0.0"}, {"1.0.0", ""},
		{"", "5.1.0", "1.0.0", "2.0.0", "3.5.0"}, {"", ""}, {}, {""}, {"", "2.0"}} {
		emit(Case{Line: "cap new " + c19CapTok(ss), Kind: "new-doc"})
		for _, v := range []string{"0.1.0", "0.3.0", "0.7", "1.0.0", "4.0.0", "5.1.0", "6.0.0", "scrambled"} {
			emit(Case{Line: c19TblLine(v, [][]string{ss}), Kind: "tbl-doc"})
		}
	}
	emit(Case{Line: c19TblLine("1.0.1", [][]string{{"1.0.0"}, {"0.9.5", "1.5.0"}}), Kind: "tbl-doc"})
	emit(Case{Line: c19TblLine("0.9.5", [][]string{{"1.0.0"}, {"0.9.5", "1.5.0"}}), Kind: "tbl-doc"})

	// 2. NewCapability: every string list up to length 4 (5 in thorough) over {"", 1, 2}, plus random longer ones
	var lists func(n int) [][]string
	lists = func(n int) [][]string {
		if n == 0 {
			return [][]string{{}}
		}
		var out [][]string
		for _, p := range lists(n - 1) {
			for _, s := range []string{"", "1", "2"} {
				out = append(out, append(append([]string{}, p...), s))
			}
		}
		return out
	}
	maxLen := 4
	if thorough {
		maxLen = 6
	}
	for n := 0; n <= maxLen; n++ {
		for _, ss := range lists(n) {
			emit(Case{Line: "cap new " + c19CapTok(ss), Kind: "new-exhaustive"})
		}
	}
	for i := 0; i < 200; i++ {
		n := 5 + rng.Intn(8)
		ss := make([]string, n)
		for j := range ss {
			ss[j] = []string{"", "", "1", "2", "3.0", "x"}[rng.Intn(6)]
		}
		emit(Case{Line: "cap new " + c19CapTok(ss), Kind: "new-random"})
	}

	// 3. the default comparer itself against semantic-version precedence (oracle only)
	for _, a := range grid {
		for _, b := range grid {
			emit(Case{Line: "cap cmp " + c19Item(a) + " " + c19Item(b), Kind: "cmp-grid"})
		}
	}

	// 4. integer comparer: every capability with one or two ranges over a small bound set, every version
	ib := []string{"", "1", "3", "5", "x"}
	iv := []string{"0", "1", "2", "3", "4", "5", "x", ""}
	var iranges [][2]string
	for _, lo := range ib {
		for _, hi := range ib {
			iranges = append(iranges, [2]string{lo, hi})
		}
	}
	for _, v := range iv {
		emit(Case{Line: c19IntLine(v, nil), Kind: "int-nocap"})
		emit(Case{Line: c19IntLine(v, [][]string{{}}), Kind: "int-norange"})
		for _, r := range iranges {
			emit(Case{Line: c19IntLine(v, [][]string{{r[0], r[1]}}), Kind: "int-1range-exhaustive"})
			for _, r2 := range iranges {
				emit(Case{Line: c19IntLine(v, [][]string{{r[0], r[1], r2[0], r2[1]}}), Kind: "int-2ranges-exhaustive"})
			}
		}
	}

	// 5. default comparer: every single range over the grid x every version of the grid
	for _, v := range grid {
		emit(Case{Line: c19TblLine(v, nil), Kind: "tbl-nocap"})
		emit(Case{Line: c19TblLine(v, [][]string{{}}), Kind: "tbl-norange"})
		for _, lo := range grid {
			for _, hi := range grid {
				ss := []string{lo, hi}
				if hi == "" && lo != "" && rng.Intn(2) == 0 {
					ss = []string{lo} // the unpaired form of the same range
				}
				emit(Case{Line: c19TblLine(v, [][]string{ss}), Kind: "tbl-1range-exhaustive"})
			}
		}
	}

	// 6. random targets: 1..3 capabilities with 0..maxRanges ranges, mostly well-formed; every
	//    permutation of the ranges of each capability and every permutation of the capabilities
	intVal := func() string {
		switch rng.Intn(12) {
		case 0:
			return []string{"x", "1.5", "--1", "+3", "1e3", "0x10", "-"}[rng.Intn(6)] // never the bare "-"
		case 1:
			return strconv.FormatInt(rng.Int63(), 10) + strconv.FormatInt(rng.Int63(), 10) // beyond int64
		case 2:
			return "-" + strconv.Itoa(rng.Intn(6))
		case 3:
			return "00" + strconv.Itoa(rng.Intn(9))
		}
		return strconv.Itoa(rng.Intn(16))
	}
	semGood := []string{}
	for _, g := range grid {
		if _, st := c19ParseSem(g); st == c19Good {
			semGood = append(semGood, g)
		}
	}
	semVal := func() string {
		if rng.Intn(10) == 0 {
			return grid[rng.Intn(len(grid))]
		}
		return semGood[rng.Intn(len(semGood))]
	}
	for n := 0; n < nRandom; n++ {
		mode := "int"
		val := intVal
		parse := c19ParseInt
		if n%2 == 1 {
			mode, val, parse = "tbl", semVal, c19ParseSem
		}
		ncaps := 1 + rng.Intn(3)
		caps := make([][]c19Range, ncaps)
		sloppy := rng.Intn(4) == 0 // one in four targets may contain inverted / zero-width ranges
		for i := range caps {
			k := rng.Intn(maxRanges + 1)
			for j := 0; j < k; j++ {
				var r c19Range
				switch rng.Intn(8) {
				case 0:
					r = c19Range{"", val()}
				case 1:
					r = c19Range{val(), ""}
				case 2:
					if sloppy {
						r = c19Range{"", ""}
					} else {
						r = c19Range{val(), ""}
					}
				default:
					r = c19Range{val(), val()}
					a, sa := parse(r.lo)
					b, sb := parse(r.hi)
					if !sloppy && sa == c19Good && sb == c19Good {
						switch c := c19Cmp(a, b); {
						case c > 0:
							r.lo, r.hi = r.hi, r.lo
						case c == 0:
							r.hi = ""
						}
					}
					if r.lo == "" && r.hi == "" && !sloppy {
						r.lo = val()
					}
				}
				caps[i] = append(caps[i], r)
			}
		}
		v := val()
		toStrs := func(cs [][]c19Range, tail int) [][]string {
			out := make([][]string, len(cs))
			for i, c := range cs {
				out[i] = c19RangesToStrs(c)
				// the same ranges written with an unpaired last string / a dropped trailing ""
				if l := len(out[i]); l > 0 && out[i][l-1] == "" && out[i][l-2] != "" && tail%2 == 1 {
					out[i] = out[i][:l-1]
				} else if tail%3 == 2 {
					out[i] = append(out[i], "")
				}
			}
			return out
		}
		tail := rng.Intn(6)
		emit(Case{Line: line(mode, v, toStrs(caps, tail)), Kind: mode + "-random"})
		for i := range caps {
			for _, p := range c19Perms(len(caps[i])) {
				cs := append([][]c19Range{}, caps...)
				pc := make([]c19Range, len(p))
				for a, b := range p {
					pc[a] = caps[i][b]
				}
				cs[i] = pc
				emit(Case{Line: line(mode, v, toStrs(cs, 0)), Kind: mode + "-random-range-perm"})
			}
		}
		for _, p := range c19Perms(ncaps) {
			cs := make([][]c19Range, ncaps)
			for a, b := range p {
				cs[a] = caps[b]
			}
			emit(Case{Line: line(mode, v, toStrs(cs, 0)), Kind: mode + "-random-cap-perm"})
		}
	}

	// 7. malformed protocol lines
	for _, l := range []string{"cap", "cap foo 1", "cap int", "cap int 1 2,3 4 5", "cap tbl", "cap tbl - ",
		"cap tbl zz 1.0 1.0,2.0", "cap tbl 1.0:1 1.0 1.0", "cap tbl 1.0,2.0:x 1.0 1.0,2.0", "cap tbl a,b,c:1 1.0 1.0",
		"cap tbl 1.0,2.0:-1;; 1.5 1.0,2.0", "cap new", "cap new 1 2",
		"cap tbl 1.0,2.0:-1 1.5 1.0,2.0", "cap tbl - 1.5 1.0,2.0", "cap tbl 1.0,2.0:-1;1.0,1.5:-1 1.5 1.0,2.0"} {
		emit(Case{Line: l, Kind: "malformed"})
	}
}

func init() {
	register(&Prop{
		ID:     "C19",
		Gen:    c19Gen,
		Impl:   c19Impl,
		Oracle: c19Oracle,
		NoModel: func(line string) bool {
			return strings.HasPrefix(line, "cap cmp ")
		},
		FindingKey: func(line, out, clause string) string {
			l, ok := c19Parse(line)
			if ok && (l.mode == "tbl" || l.mode == "cmp") && c19ComparerDeviates(l, out) {
				return "default-comparer-deviates-from-semver-precedence"
			}
			short := map[string]string{c19ClNoRange: "no-range", c19ClMember: "membership", c19ClWfOk: "wellformed-rejected",
				c19ClErr: "silent-answer", c19ClSilent: "ill-formed-answer", c19ClOrder: "order", c19ClPairs: "pairing",
				c19ClCmp: "comparer", c19ClProtocol: "protocol"}
			m := "?"
			if ok {
				m = l.mode
			}
			return short[clause] + "/" + m
		},
		Nontrivial: func(line, out string) bool {
			l, ok := c19Parse(line)
			if !ok || (l.mode != "int" && l.mode != "tbl") {
				return false
			}
			for _, ss := range l.caps {
				for _, r := range c19Pairs(ss) {
					if r.lo != "" || r.hi != "" {
						return true
					}
				}
			}
			return false
		},
		Rule: "targets = 1..3 capabilities with 0..3 (thorough 0..4) ranges given as NewCapability string lists, evaluated by Target.Version + Has: " +
			"(a) custom integer comparer (mirrored in Lean): every one- and two-range capability over bounds {'',1,3,5,x} x versions {0..5,x,''}; " +
			"(b) default comparer (results of the real VersionCompareSemantic shipped as a table to the model): every single range over the version grid " +
			"(12 quick / 30 thorough strings incl. pre-release, build metadata, two-segment, empty and unparsable) x every grid version; " +
			"(c) random mostly-well-formed targets (1 in 4 with inverted/zero-width/both-empty ranges, 1 in 10 unparsable strings, integers beyond int64) " +
			"with EVERY permutation of the ranges of each capability and of the capabilities as separate lines; NewCapability on every string list up to length 4 (6); " +
			"VersionCompareSemantic on every grid pair against semver.org precedence; malformed protocol lines. " +
			"non-trivial = a distinct int/tbl line in which at least one range with a bound is present (a comparison is made)",
		Assumptions: []string{
			"the default comparer hashicorp/go-version (NewVersion + Compare) is a parameter of the model: its results travel in the case line and the Lean model looks them up; the theorems assume the laws TotalPreorderOn of it",
			"oracle order for the default comparer: semver.org 2.0.0 precedence on MAJOR.MINOR[.PATCH][-pre][+build], hand-written; strings outside this form and outside the certainly-unparsable list are not judged",
			"a range without any bound counts as no range (DESIGN §7 C19, fixed by the package's own unit test)",
			"capabilities of a target are distinct pointers",
		},
	})
}

// rule addenda (rounds 9-12): what the evidence says about the coverage of a run
func init() {
	if p := registry["C19"]; p != nil {
		p.Rule += " The grid contains identifiers with capital letters (1.0.0-RC1, 2.0.0-Beta): a version is compared as it was given."
	}
}
