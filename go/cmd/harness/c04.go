package main

import (
	"encoding/binary"
	"fmt"
	"math"
	"math/big"
	"math/rand"
	"strconv"
	"strings"
	"sync"
	"time"
	_ "time/tzdata"
	"unicode/utf8"

	"github.com/SAP/go-dblib/asetime"
	"github.com/SAP/go-dblib/asetypes"
)

// C04 - Field values survive encoding and decoding unchanged (value leg: DataType.Bytes / DataType.GoValue).
//
// Line protocol (identical to lean/Dblib/Model/Value.lean `run` / `runCal`; shared with C05):
//
//   val dec <typehex> <hex>            -> ok <val> | err | panic            DataType.GoValue(LittleEndian, bytes)
//   val enc <typehex> <maxlen> <val>   -> ok <hex> | err | panic            DataType.Bytes(LittleEndian, value, maxlen)
//   val rt  <typehex> <maxlen> <val>   -> ok <val> | err | panic | enc-err | enc-panic      GoValue(Bytes(value))
//   val rtsweep <typehex> <lo> <n>     -> sweep <count> <sum>   dense sweep over n consecutive values from index lo
//                                         (DATE/DATEN: days since 0001-01-01; TIME/TIMEN: ticks of 1/300 s;
//                                         DATETIME/DATETIMEN: day*25920000 + tick): number of exact round trips
//                                         and the sum of the little-endian values of the encodings
//   cal date y mo d h mi s ns          -> <time>     time.Date(y, Month(mo), d, h, mi, s, ns, UTC)
//   cal dfd|dft|t2us <7 ints>          -> <int>      DurationFromDateTime / DurationFromTime / TimeToMicroseconds
//   cal us2t <us>                      -> <time>     MicrosecondsToTime
//   cal f2ms n | ms2f n                -> <int>      FractionalSecondToMillisecond / MillisecondToFractionalSecond
//   cal units n                        -> d h mi s ms us
//   cal adddays <7 ints> n | add <7 ints> n  -> <time>   AddDate(0,0,n) / Add(n ns)
//   cal sumf2ms lo n | summs2f lo n | summs2fb k n -> <int>  sums of the two tick conversions over a range
//   cal epochs                         -> <time> <time> <time>   EpochRataDie Epoch1900 Epoch1753
//
// <typehex>: two hex digits (asetypes.DataType).  <maxlen>: integer <= 65536 (larger: bad-op on both sides).
// Canonical value tokens <val>:
//   null | u8:N | i16:N | i32:N | i64:N | u16:N | u32:N | u64:N | f32:<IEEE bits, decimal> | f64:<bits> |
//   b:0 | b:1 | bytes:<hex> | str:<hex of the string's bytes> ('-' = empty) |
//   dec:<unscaled integer>:<Precision>:<Scale> | decr:… (the same decimal after a rejected SetString) | decnull (= &Decimal{i:nil}, the decoded NULL decimal) |
//   t:<year>-<month>-<day>-<hour>-<min>-<sec>-<nsec>   (UTC; a negative year has a leading '-')

var vle = binary.LittleEndian

const valClauseOwn = "the bytes produced for a value stay what they are when other values are encoded afterwards"

// valOthers: a few other values of the same Go type (different content, same and different length)
func valOthers(v interface{}) []interface{} {
	switch x := v.(type) {
	case uint8:
		return []interface{}{x ^ 0xff}
	case int16:
		return []interface{}{^x}
	case uint16:
		return []interface{}{^x}
	case int32:
		return []interface{}{^x}
	case uint32:
		return []interface{}{^x}
	case int64:
		return []interface{}{^x}
	case uint64:
		return []interface{}{^x}
	case float32:
		return []interface{}{-x - 1}
	case float64:
		return []interface{}{-x - 1}
	case bool:
		return []interface{}{!x}
	case string:
		return []interface{}{strings.Repeat("\xff", len(x)), strings.Repeat("z", len(x)+3)}
	case []byte:
		o := make([]byte, len(x))
		for i := range o {
			o[i] = ^x[i]
		}
		return []interface{}{o, append(append([]byte{}, o...), 1, 2, 3)}
	}
	return nil
}

const valClauseZone = "a date/time value is encoded by its clock reading (the types carry no zone): the same reading in another location gives the same bytes"

var (
	valZonesOnce sync.Once
	valZoneList  []*time.Location
)

// valZones: fixed offsets and zones with daylight saving rules (from the embedded time/tzdata)
func valZones() []*time.Location {
	valZonesOnce.Do(func() {
		valZoneList = []*time.Location{time.FixedZone("plus0530", 5*3600+1800), time.FixedZone("minus11", -11*3600)}
		for _, n := range []string{"Europe/Berlin", "America/New_York", "Australia/Lord_Howe", "America/Santiago"} {
			if l, err := time.LoadLocation(n); err == nil {
				valZoneList = append(valZoneList, l)
			}
		}
	})
	return valZoneList
}

// valDecNull: the library's NULL decimal object (a Decimal without a magnitude) — built here, not obtained
// from the code under test
func valDecNull() *asetypes.Decimal {
	return &asetypes.Decimal{}
}

func valShowTime(x time.Time) string {
	return fmt.Sprintf("t:%d-%d-%d-%d-%d-%d-%d", x.Year(), int(x.Month()), x.Day(), x.Hour(), x.Minute(), x.Second(), x.Nanosecond())
}

func valShow(v interface{}) string {
	switch x := v.(type) {
	case nil:
		return "null"
	case uint8:
		return fmt.Sprintf("u8:%d", x)
	case int16:
		return fmt.Sprintf("i16:%d", x)
	case int32:
		return fmt.Sprintf("i32:%d", x)
	case int64:
		return fmt.Sprintf("i64:%d", x)
	case uint16:
		return fmt.Sprintf("u16:%d", x)
	case uint32:
		return fmt.Sprintf("u32:%d", x)
	case uint64:
		return fmt.Sprintf("u64:%d", x)
	case float32:
		return fmt.Sprintf("f32:%d", math.Float32bits(x))
	case float64:
		return fmt.Sprintf("f64:%d", math.Float64bits(x))
	case bool:
		if x {
			return "b:1"
		}
		return "b:0"
	case []byte:
		return "bytes:" + hx(x)
	case string:
		return "str:" + hx([]byte(x))
	case *asetypes.Decimal:
		if x == nil {
			return "nil-decimal-pointer"
		}
		if x.String() == "<nil>" {
			return "decnull"
		}
		return fmt.Sprintf("dec:%s:%d:%d", x.Int().String(), x.Precision, x.Scale)
	case time.Time:
		return valShowTime(x)
	}
	return fmt.Sprintf("unknown:%T", v)
}

func valNat(s string, bits int) (uint64, bool) {
	if s == "" || s[0] == '+' || s[0] == '-' {
		return 0, false
	}
	n, err := strconv.ParseUint(s, 10, bits)
	return n, err == nil
}

func valInt(s string, bits int) (int64, bool) {
	if s == "" || s[0] == '+' {
		return 0, false
	}
	n, err := strconv.ParseInt(s, 10, bits)
	return n, err == nil
}

func valParseTime(s string) (time.Time, bool) {
	neg := false
	if strings.HasPrefix(s, "-") {
		neg = true
		s = s[1:]
	}
	p := strings.Split(s, "-")
	if len(p) != 7 {
		return time.Time{}, false
	}
	var f [7]int
	for i := range p {
		n, ok := valNat(p[i], 40)
		if !ok {
			return time.Time{}, false
		}
		f[i] = int(n)
	}
	if neg {
		f[0] = -f[0]
	}
	return time.Date(f[0], time.Month(f[1]), f[2], f[3], f[4], f[5], f[6], time.UTC), true
}

// valParsePure: the value a token denotes, for the oracles — a `decr:` token denotes the same decimal as
// `dec:`; only the implementation under test builds it through the rejected SetString
func valParsePure(s string) (interface{}, bool) {
	if strings.HasPrefix(s, "decr:") {
		s = "dec:" + s[5:]
	}
	return valParseWith(s, true)
}

// valParse: the value of a token as the implementation leg builds it (decimals through the type's own methods)
func valParse(s string) (interface{}, bool) { return valParseWith(s, false) }

func valParseWith(s string, pure bool) (interface{}, bool) {
	if s == "null" {
		return nil, true
	}
	if s == "decnull" {
		return valDecNull(), true
	}
	p := strings.Split(s, ":")
	switch {
	case len(p) == 2 && p[0] == "u8":
		n, ok := valNat(p[1], 8)
		return uint8(n), ok
	case len(p) == 2 && p[0] == "i16":
		n, ok := valInt(p[1], 16)
		return int16(n), ok
	case len(p) == 2 && p[0] == "i32":
		n, ok := valInt(p[1], 32)
		return int32(n), ok
	case len(p) == 2 && p[0] == "i64":
		n, ok := valInt(p[1], 64)
		return int64(n), ok
	case len(p) == 2 && p[0] == "u16":
		n, ok := valNat(p[1], 16)
		return uint16(n), ok
	case len(p) == 2 && p[0] == "u32":
		n, ok := valNat(p[1], 32)
		return uint32(n), ok
	case len(p) == 2 && p[0] == "u64":
		n, ok := valNat(p[1], 64)
		return uint64(n), ok
	case len(p) == 2 && p[0] == "f32":
		n, ok := valNat(p[1], 32)
		return math.Float32frombits(uint32(n)), ok
	case len(p) == 2 && p[0] == "f64":
		n, ok := valNat(p[1], 64)
		return math.Float64frombits(n), ok
	case len(p) == 2 && p[0] == "b" && (p[1] == "0" || p[1] == "1"):
		return p[1] == "1", true
	case len(p) == 2 && p[0] == "bytes":
		b := unhx(p[1])
		return b, b != nil
	case len(p) == 2 && p[0] == "str":
		b := unhx(p[1])
		return string(b), b != nil
	case len(p) == 4 && (p[0] == "dec" || p[0] == "decr"):
		i, ok := decBig(p[1])
		pr, ok1 := valNat(p[2], 31)
		sc, ok2 := valNat(p[3], 31)
		if !ok || !ok1 || !ok2 {
			return nil, false
		}
		d, _ := asetypes.NewDecimal(0, 0)
		d.Precision, d.Scale = int(pr), int(sc)
		if pure {
			decInstallPure(d, i)
			return d, true
		}
		decInstall(d, i)
		if p[0] == "decr" && pr >= 1 && pr <= 38 {
			// the decimal object has been through a REJECTED SetString since it got its value (a number
			// with more digits than the precision): "if an error is returned dec is untouched"
			if err := d.SetString("-" + strings.Repeat("9", int(pr)+1)); err == nil {
				return nil, false
			}
		}
		return d, true
	case len(p) == 2 && p[0] == "t":
		return valParseTime(p[1])
	}
	return nil, false
}

func valType(s string) (asetypes.DataType, bool) {
	if len(s) != 2 {
		return 0, false
	}
	b := unhx(s)
	if len(b) != 1 {
		return 0, false
	}
	return asetypes.DataType(b[0]), true
}

func valGoValue(t asetypes.DataType, bs []byte) (out string) {
	defer func() {
		if r := recover(); r != nil {
			out = "panic"
		}
	}()
	v, err := t.GoValue(vle, bs)
	if err != nil {
		return "err"
	}
	return "ok " + valShow(v)
}

func valBytes(t asetypes.DataType, v interface{}, l int64) (bs []byte, out string) {
	defer func() {
		if r := recover(); r != nil {
			bs, out = nil, "panic"
		}
	}()
	bs, err := t.Bytes(vle, v, l)
	if err != nil {
		return nil, "err"
	}
	return bs, "ok"
}

const valMaxLen = 65536

// valSweepVal: the i-th value of a dense sweep (mirrors `sweepVal` of the model).
func valSweepVal(t asetypes.DataType, i uint64) (time.Time, int64, bool) {
	switch t {
	case asetypes.DATE, asetypes.DATEN:
		return valDay1.AddDate(0, 0, int(i)), 4, true
	case asetypes.TIME, asetypes.TIMEN:
		return valDay1.Add(time.Duration(valTickNs(int64(i)))), 4, true
	case asetypes.DATETIME, asetypes.DATETIMEN:
		return valDay1.AddDate(0, 0, int(i/25920000)).Add(time.Duration(valTickNs(int64(i % 25920000)))), 8, true
	}
	return time.Time{}, 0, false
}

// valShowSafe renders a value, mapping a panic of the rendering (a corrupted decimal) to a marker
func valShowSafe(v interface{}) (out string) {
	defer func() {
		if recover() != nil {
			out = "unprintable"
		}
	}()
	return valShow(v)
}

func valImpl(f []string) string {
	switch {
	case len(f) == 4 && f[1] == "dec":
		t, ok := valType(f[2])
		bs := unhx(f[3])
		if !ok || bs == nil {
			return "bad-op"
		}
		return valGoValue(t, bs)
	case len(f) == 5 && f[1] == "rtsweep":
		t, ok := valType(f[2])
		lo, ok1 := valNat(f[3], 62)
		n, ok2 := valNat(f[4], 40)
		if !ok || !ok1 || !ok2 {
			return "bad-op"
		}
		cnt, sum := 0, new(big.Int)
		for i := lo; i < lo+n; i++ {
			v, l, ok := valSweepVal(t, i)
			if !ok {
				return "bad-op"
			}
			bs, st := valBytes(t, v, l)
			if st != "ok" {
				continue
			}
			// little-endian value of the encoding
			be := make([]byte, len(bs))
			for k := range bs {
				be[len(bs)-1-k] = bs[k]
			}
			sum.Add(sum, new(big.Int).SetBytes(be))
			if valGoValue(t, bs) == "ok "+valShow(v) {
				cnt++
			}
		}
		return fmt.Sprintf("sweep %d %s", cnt, sum)
	case len(f) == 5 && (f[1] == "enc" || f[1] == "rt"):
		t, ok := valType(f[2])
		l, ok1 := valInt(f[3], 64)
		v, ok2 := valParse(f[4])
		if !ok || !ok1 || !ok2 || l > valMaxLen {
			return "bad-op"
		}
		shownBefore := valShowSafe(v)
		bs, st := valBytes(t, v, l)
		// object reuse: encoding must not change the value it encodes (the same Go value is bound to several
		// parameters, a statement is executed twice with the same argument) and must be repeatable
		if st == "ok" {
			if after := valShowSafe(v); after != shownBefore {
				return "enc-mutates-value"
			}
			keep := hx(bs)
			if bs2, st2 := valBytes(t, v, l); st2 != "ok" || hx(bs2) != keep {
				return "enc-not-repeatable"
			}
			// the bytes handed out belong to the caller: encoding OTHER values afterwards (the next field of
			// the row, another goroutine's value) does not change them
			for _, o := range valOthers(v) {
				valBytes(t, o, l)
			}
			if hx(bs) != keep {
				return "enc-result-overwritten"
			}
			// date/time types carry no zone: what is encoded is the clock reading. The same reading in
			// other locations (fixed offsets, zones with daylight saving: on a transition day the time
			// elapsed since local midnight is not the clock reading) must give the same bytes.
			if tv, isTime := v.(time.Time); isTime {
				for _, loc := range valZones() {
					z := time.Date(tv.Year(), tv.Month(), tv.Day(), tv.Hour(), tv.Minute(), tv.Second(), tv.Nanosecond(), loc)
					if z.Hour() != tv.Hour() || z.Minute() != tv.Minute() || z.Day() != tv.Day() {
						continue // this reading does not exist there (skipped hour)
					}
					if bs2, st2 := valBytes(t, z, l); st2 != "ok" || hx(bs2) != hx(bs) {
						return "enc-depends-on-location:" + strings.ReplaceAll(loc.String(), " ", "_")
					}
				}
			}
		}
		if f[1] == "enc" {
			if st != "ok" {
				return st
			}
			return "ok " + hx(bs)
		}
		if st != "ok" {
			return "enc-" + st
		}
		return valGoValue(t, bs)
	}
	return "bad-op"
}

func calInts(f []string, bound int64) ([]int64, bool) {
	out := make([]int64, len(f))
	for i, s := range f {
		n, ok := valInt(s, 64)
		if !ok || n > bound || n < -bound {
			return nil, false
		}
		out[i] = n
	}
	return out, true
}

func calDate(a []int64) time.Time {
	return time.Date(int(a[0]), time.Month(a[1]), int(a[2]), int(a[3]), int(a[4]), int(a[5]), int(a[6]), time.UTC)
}

// calProbe mirrors `boundaryProbe` of the model.
func calProbe(k int64) int64 {
	num := 10000*k + 5000
	s0 := num / 3
	if num%3 != 0 && num < 0 {
		s0-- // floor
	}
	m := func(s int64) int64 { return int64(asetime.MillisecondToFractionalSecond(int(s))) }
	return m(s0-1) + 3*m(s0) + 5*m(s0+1) + 7*m(s0+2)
}

func calImpl(f []string) string {
	if len(f) < 2 {
		return "bad-op"
	}
	switch {
	case f[1] == "epochs" && len(f) == 2:
		return valShowTime(asetime.EpochRataDie()) + " " + valShowTime(asetime.Epoch1900()) + " " + valShowTime(asetime.Epoch1753())
	case f[1] == "us2t" && len(f) == 3:
		n, ok := valNat(f[2], 64)
		if !ok {
			return "bad-op"
		}
		return valShowTime(asetime.MicrosecondsToTime(n))
	case (f[1] == "f2ms" || f[1] == "ms2f" || f[1] == "units") && len(f) == 3:
		a, ok := calInts(f[2:], 1<<62)
		if !ok {
			return "bad-op"
		}
		switch f[1] {
		case "f2ms":
			return strconv.Itoa(int(asetime.FractionalSecondToMillisecond(int(a[0]))))
		case "ms2f":
			return strconv.Itoa(asetime.MillisecondToFractionalSecond(int(a[0])))
		}
		d := asetime.ASEDuration(a[0])
		return fmt.Sprintf("%d %d %d %d %d %d", d.Days(), d.Hours(), d.Minutes(), d.Seconds(), d.Milliseconds(), d.Microseconds())
	case (f[1] == "sumf2ms" || f[1] == "summs2f" || f[1] == "summs2fb") && len(f) == 4:
		lo, ok := valInt(f[2], 64)
		n, ok1 := valNat(f[3], 40)
		if !ok || !ok1 {
			return "bad-op"
		}
		sum := new(big.Int)
		for k := int64(0); k < int64(n); k++ {
			var v int64
			switch f[1] {
			case "sumf2ms":
				v = int64(asetime.FractionalSecondToMillisecond(int(lo + k)))
			case "summs2f":
				v = int64(asetime.MillisecondToFractionalSecond(int(lo + k)))
			default:
				v = calProbe(lo + k)
			}
			sum.Add(sum, big.NewInt(v))
		}
		return sum.String()
	case len(f) == 9:
		a, ok := calInts(f[2:], 1<<62)
		if !ok {
			return "bad-op"
		}
		t := calDate(a)
		switch f[1] {
		case "date":
			return valShowTime(t)
		case "dfd":
			return strconv.Itoa(int(asetime.DurationFromDateTime(t)))
		case "dft":
			return strconv.Itoa(int(asetime.DurationFromTime(t)))
		case "t2us":
			return strconv.FormatUint(asetime.TimeToMicroseconds(t), 10)
		}
	case len(f) == 10:
		a, ok := calInts(f[2:], 1<<62)
		if !ok {
			return "bad-op"
		}
		t := calDate(a)
		switch f[1] {
		case "adddays":
			return valShowTime(t.AddDate(0, 0, int(a[7])))
		case "add":
			return valShowTime(t.Add(time.Duration(a[7])))
		}
	}
	return "bad-op"
}

// valuesImpl is the Impl of C04 and C05.
func valuesImpl(line string) string {
	f := strings.Fields(line)
	if len(f) == 0 {
		return "bad-op"
	}
	switch f[0] {
	case "val":
		return valImpl(f)
	case "cal":
		return calImpl(f)
	}
	return "bad-op"
}

// ---------------------------------------------------------------------------------------
// domain of the property

type valCombo struct {
	t    asetypes.DataType
	l    int64  // the length a format of this type carries
	kind string // token prefix of the Go value
}

// mode of comparison per type (property text): exact, or to the tick for the classic temporal types
const (
	cmpExact    = iota
	cmpDecimal  // unscaled integer (precision/scale travel in the format, not in the value bytes)
	cmpDate     // day
	cmpTick     // 1/300 s, absolute
	cmpTimeTick // 1/300 s, time of day (the date is not transmitted)
	cmpMinute   // 1 min
	cmpMicro    // exact to the microsecond
	cmpTimeMicro
)

var valDomain = map[asetypes.DataType]map[string]int{
	asetypes.INT1: {"u8": cmpExact}, asetypes.INT2: {"i16": cmpExact}, asetypes.INT4: {"i32": cmpExact}, asetypes.INT8: {"i64": cmpExact},
	asetypes.INTN:  {"u8": cmpExact, "i16": cmpExact, "i32": cmpExact, "i64": cmpExact},
	asetypes.UINT2: {"u16": cmpExact}, asetypes.UINT4: {"u32": cmpExact}, asetypes.UINT8: {"u64": cmpExact},
	asetypes.UINTN: {"u8": cmpExact, "u16": cmpExact, "u32": cmpExact, "u64": cmpExact},
	asetypes.FLT4:  {"f32": cmpExact}, asetypes.FLT8: {"f64": cmpExact}, asetypes.FLTN: {"f32": cmpExact, "f64": cmpExact},
	asetypes.BIT:   {"b": cmpExact},
	asetypes.MONEY: {"dec": cmpDecimal}, asetypes.SHORTMONEY: {"dec": cmpDecimal}, asetypes.MONEYN: {"dec": cmpDecimal},
	asetypes.DECN: {"dec": cmpDecimal}, asetypes.NUMN: {"dec": cmpDecimal},
	asetypes.DATE: {"t": cmpDate}, asetypes.DATEN: {"t": cmpDate},
	asetypes.TIME: {"t": cmpTimeTick}, asetypes.TIMEN: {"t": cmpTimeTick},
	asetypes.DATETIME: {"t": cmpTick}, asetypes.SHORTDATE: {"t": cmpMinute}, asetypes.DATETIMEN: {"t": cmpTick},
	asetypes.BIGDATETIMEN: {"t": cmpMicro}, asetypes.BIGTIMEN: {"t": cmpTimeMicro},
	asetypes.BINARY: {"bytes": cmpExact}, asetypes.VARBINARY: {"bytes": cmpExact}, asetypes.LONGBINARY: {"bytes": cmpExact},
	asetypes.IMAGE: {"bytes": cmpExact}, asetypes.XML: {"bytes": cmpExact},
	asetypes.CHAR: {"str": cmpExact}, asetypes.VARCHAR: {"str": cmpExact}, asetypes.LONGCHAR: {"str": cmpExact},
	asetypes.TEXT: {"str": cmpExact}, asetypes.UNITEXT: {"str": cmpExact},
}

// valInProperty: data types with a Go mapping except BLOB (computed from the running tables).
func valInProperty(t asetypes.DataType) bool {
	return t.GoReflectType() != nil && t != asetypes.BLOB
}

var (
	valDay1     = time.Date(1, 1, 1, 0, 0, 0, 0, time.UTC)
	valDayEnd   = time.Date(10000, 1, 1, 0, 0, 0, 0, time.UTC)
	valDay1900  = time.Date(1900, 1, 1, 0, 0, 0, 0, time.UTC)
	valSmallEnd = time.Date(1900, 1, 1, 0, 0, 0, 0, time.UTC).AddDate(0, 0, 65536)
)

// nsSince returns t - base in nanoseconds as a big.Int (time.Sub saturates).
func nsSince(t, base time.Time) *big.Int {
	s := big.NewInt(t.Unix() - base.Unix())
	s.Mul(s, big.NewInt(1000000000))
	return s.Add(s, big.NewInt(int64(t.Nanosecond()-base.Nanosecond())))
}

func absLess(d *big.Int, bound int64) bool {
	return new(big.Int).Abs(d).Cmp(big.NewInt(bound)) < 0
}

// valLenOK: the lengths a server format of this type can carry (DataType.ByteSize for the fixed
// types, the documented sizes for the nullable fixed-size families, anything for the rest).
func valLenOK(t asetypes.DataType, l int64, v interface{}) bool {
	switch t {
	case asetypes.MONEYN, asetypes.DATETIMEN:
		return l == 4 || l == 8
	case asetypes.DATEN, asetypes.TIMEN:
		return l == 4
	case asetypes.BIGDATETIMEN, asetypes.BIGTIMEN:
		return l == 8
	}
	if bs := t.ByteSize(); bs != -1 {
		return l == int64(bs)
	}
	return l >= 0
}

// valValueInDomain: is v a value of the type's domain (property quantifier)?
func valValueInDomain(t asetypes.DataType, l int64, v interface{}) bool {
	switch x := v.(type) {
	case []byte:
		return len(x) >= 1
	case string:
		if len(x) < 1 {
			return false
		}
		if t == asetypes.UNITEXT {
			// GoValue deliberately trims trailing NULs (the server pads unitext with them)
			return utf8.ValidString(x) && x[len(x)-1] != 0
		}
		return true
	case *asetypes.Decimal:
		i := decIntPure(x)
		if i == nil {
			return false
		}
		switch t {
		case asetypes.MONEY, asetypes.SHORTMONEY, asetypes.MONEYN:
			if l == 4 {
				return i.IsInt64() && i.Int64() >= math.MinInt32 && i.Int64() <= math.MaxInt32
			}
			return i.IsInt64()
		}
		// decimals of every precision 1..38 and scale 0..precision, value within the precision
		return x.Precision >= 1 && x.Precision <= 38 && x.Scale >= 0 && x.Scale <= x.Precision &&
			new(big.Int).Abs(i).Cmp(decPow10(x.Precision)) < 0
	case time.Time:
		switch t {
		case asetypes.SHORTDATE:
			return !x.Before(valDay1900) && x.Before(valSmallEnd)
		case asetypes.DATETIMEN:
			if l == 4 {
				return !x.Before(valDay1900) && x.Before(valSmallEnd)
			}
		}
		if !x.Before(valDay1) && x.Before(valDayEnd) {
			if t == asetypes.BIGDATETIMEN || t == asetypes.BIGTIMEN {
				return x.Nanosecond()%1000 == 0 // microsecond types: microsecond values
			}
			return true
		}
		return false
	}
	return true
}

func valTokKind(tok string) string {
	if i := strings.IndexByte(tok, ':'); i >= 0 {
		if tok[:i] == "decr" {
			return "dec"
		}
		return tok[:i]
	}
	return tok
}

// valOracle is written from the property text.
func valOracle(line, out string) string {
	f := strings.Fields(line)
	if out == "bad-op" || len(f) < 4 || f[0] != "val" {
		return ""
	}
	t, ok := valType(f[2])
	if !ok || !valInProperty(t) {
		return ""
	}
	switch f[1] {
	case "rtsweep":
		lo, _ := valNat(f[3], 62)
		n, _ := valNat(f[4], 40)
		inDomain := false
		switch t {
		case asetypes.DATE, asetypes.DATEN:
			inDomain = lo+n <= 3652059
		case asetypes.TIME, asetypes.TIMEN:
			inDomain = lo+n <= 25920000
		case asetypes.DATETIME, asetypes.DATETIMEN:
			inDomain = lo+n <= 3652059*25920000
		}
		if inDomain && !strings.HasPrefix(out, fmt.Sprintf("sweep %d ", n)) {
			return "every value of the dense range comes back unchanged (day / tick sweep)"
		}
		return ""
	case "enc":
		if out == "enc-mutates-value" || out == "enc-not-repeatable" {
			return "encoding a value leaves the value as it was and gives the same bytes every time"
		}
		if out == "enc-result-overwritten" {
			return valClauseOwn
		}
		if strings.HasPrefix(out, "enc-depends-on-location") {
			return valClauseZone
		}
		if f[4] == "null" && out != "ok -" {
			return "NULL encodes to zero length"
		}
		return ""
	case "dec":
		// zero length decodes to NULL for every type that can be NULL (no fixed size)
		if f[3] == "-" && t.ByteSize() == -1 && out != "ok null" && out != "ok decnull" {
			return "zero length decodes to NULL"
		}
		return ""
	case "rt":
		if out == "enc-mutates-value" || out == "enc-not-repeatable" {
			return "encoding a value leaves the value as it was and gives the same bytes every time"
		}
		if out == "enc-result-overwritten" {
			return valClauseOwn
		}
		if strings.HasPrefix(out, "enc-depends-on-location") {
			return valClauseZone
		}
		l, _ := valInt(f[3], 64)
		if f[4] == "null" {
			if t.ByteSize() == -1 && out != "ok null" && out != "ok decnull" {
				return "NULL encodes to zero length and decodes to NULL"
			}
			return ""
		}
		mode, ok := valDomain[t][valTokKind(f[4])]
		v, okv := valParsePure(f[4])
		if !ok || !okv || !valLenOK(t, l, v) || !valValueInDomain(t, l, v) {
			return "" // outside the quantifier
		}
		if t == asetypes.DATETIMEN && l == 4 {
			mode = cmpMinute // the 4-byte form is smalldatetime
		}
		if !strings.HasPrefix(out, "ok ") {
			return "encoding a value of the type's domain and decoding the produced bytes yields a value"
		}
		w, okw := valParsePure(out[3:])
		if !okw {
			return "decoding yields a value of the Go type"
		}
		switch mode {
		case cmpExact:
			if out[3:] != f[4] {
				return "encoding the value and decoding the produced bytes yields the same value (exact types)"
			}
		case cmpDecimal:
			d, okd := w.(*asetypes.Decimal)
			if !okd || decIntPure(d) == nil || decIntPure(d).Cmp(decIntPure(v.(*asetypes.Decimal))) != 0 {
				return "encoding the value and decoding the produced bytes yields the same value (money, decimal/numeric)"
			}
		default:
			x := v.(time.Time)
			y, okt := w.(time.Time)
			if !okt {
				return "decoding a temporal type yields a time"
			}
			tod := func(a time.Time) time.Time {
				return time.Date(1, 1, 1, a.Hour(), a.Minute(), a.Second(), a.Nanosecond(), time.UTC)
			}
			switch mode {
			case cmpDate:
				if y.Year() != x.Year() || y.Month() != x.Month() || y.Day() != x.Day() || !tod(y).Equal(valDay1) {
					return "a date comes back as the same day"
				}
			case cmpTick:
				d := nsSince(y, x)
				if !absLess(d.Mul(d, big.NewInt(300)), 1000000000) {
					return "a datetime comes back to the tick of 1/300 s"
				}
			case cmpTimeTick:
				d := nsSince(y, tod(x))
				if !absLess(d.Mul(d, big.NewInt(300)), 1000000000) {
					return "a time comes back to the tick of 1/300 s"
				}
			case cmpMinute:
				if !absLess(nsSince(y, x), 60*1000000000) {
					return "a smalldatetime comes back to the tick of 1 min"
				}
			case cmpMicro:
				if !y.Equal(x) {
					return "a bigdatetime comes back exactly (microsecond type)"
				}
			case cmpTimeMicro:
				if !y.Equal(tod(x)) {
					return "a bigtime comes back exactly (microsecond type)"
				}
			}
		}
	}
	return ""
}

// ---------------------------------------------------------------------------------------
// generators (shared with C05)

var valAllTypes = func() []asetypes.DataType {
	var ts []asetypes.DataType
	for t := 0; t < 256; t++ {
		ts = append(ts, asetypes.DataType(t))
	}
	return ts
}()

func valFmtTime(y, m, d, h, mi, s, ns int) string {
	return fmt.Sprintf("t:%d-%d-%d-%d-%d-%d-%d", y, m, d, h, mi, s, ns)
}

func valTimeTok(t time.Time) string { return valShowTime(t) }

func valDaysIn(y, m int) int {
	return time.Date(y, time.Month(m)+1, 0, 0, 0, 0, 0, time.UTC).Day()
}

// tickTime: the time of day GoValue produces for tick k (k/300 s truncated to the millisecond)
func valTickNs(k int64) int64 { return (k * 10 / 3) * 1000000 }

func valTod(ns int64) (h, mi, s, n int) {
	return int(ns / 3600000000000), int(ns / 60000000000 % 60), int(ns / 1000000000 % 60), int(ns % 1000000000)
}

var valBoundaryTicks = []int64{0, 1, 2, 3, 4, 5, 149, 150, 151, 299, 300, 301, 17999, 18000, 18001, 1079999, 1080000, 1080001,
	12959999, 12960000, 12960001, 25919997, 25919998, 25919999}

// microseconds of day around rounding boundaries and unit boundaries
var valBoundaryUs = []int64{0, 1, 999, 1000, 1666, 1667, 3333, 3334, 4999, 5000, 5001, 9999, 10000, 59999999, 60000000, 60000001,
	3599999999, 3600000000, 43199999999, 43200000000, 43200001667, 86399996666, 86399998333, 86399998334, 86399999000, 86399999999}

func valRandInt(rng *rand.Rand, bits uint) *big.Int {
	// boundary-biased signed integer of up to `bits` bits (two's complement range)
	max := new(big.Int).Lsh(big.NewInt(1), bits-1)
	var v *big.Int
	switch rng.Intn(6) {
	case 0:
		k := uint(rng.Intn(int(bits)))
		v = new(big.Int).Lsh(big.NewInt(1), k)
		v.Add(v, big.NewInt(int64(rng.Intn(3)-1)))
	case 1:
		v = big.NewInt(int64(rng.Intn(513) - 256))
	case 2:
		v = new(big.Int).Sub(max, big.NewInt(int64(1+rng.Intn(3))))
	default:
		v = new(big.Int).Rand(rng, max)
	}
	if rng.Intn(2) == 0 {
		v.Neg(v)
		v.Sub(v, big.NewInt(int64(rng.Intn(2))))
	}
	min := new(big.Int).Neg(max)
	if v.Cmp(max) >= 0 {
		v.Sub(max, big.NewInt(1))
	}
	if v.Cmp(min) < 0 {
		v.Set(min)
	}
	return v
}

func valRandUint(rng *rand.Rand, bits uint) *big.Int {
	max := new(big.Int).Lsh(big.NewInt(1), bits)
	switch rng.Intn(5) {
	case 0:
		k := uint(rng.Intn(int(bits)))
		v := new(big.Int).Lsh(big.NewInt(1), k)
		v.Add(v, big.NewInt(int64(rng.Intn(3)-1)))
		if v.Sign() < 0 {
			v.SetInt64(0)
		}
		return v
	case 1:
		return new(big.Int).Sub(max, big.NewInt(int64(1+rng.Intn(3))))
	case 2:
		return big.NewInt(int64(rng.Intn(300)))
	}
	return new(big.Int).Rand(rng, max)
}

var valF32Special = []uint32{0, 0x80000000, 0x7f800000, 0xff800000, 0x7fc00000, 0xffc00000, 0x7f800001, 0x7fbfffff, 0xffffffff, 0x7fffffff,
	1, 0x007fffff, 0x00800000, 0x3f800000, 0xbf800000, 0x7f7fffff, 0xff7fffff, 0x80000001, 0x01020304}
var valF64Special = []uint64{0, 0x8000000000000000, 0x7ff0000000000000, 0xfff0000000000000, 0x7ff8000000000000, 0xfff8000000000000,
	0x7ff0000000000001, 0x7ff7ffffffffffff, 0xffffffffffffffff, 0x7fffffffffffffff, 1, 0x000fffffffffffff, 0x0010000000000000,
	0x3ff0000000000000, 0xbff0000000000000, 0x7fefffffffffffff, 0xffefffffffffffff, 0x0102030405060708}

// valRandString builds a valid UTF-8 string over all planes with boundary code points.
func valRandString(rng *rand.Rand, n int) string {
	edge := []rune{0, 1, 0x7f, 0x80, 0xff, 0x100, 0x7ff, 0x800, 0xd7ff, 0xe000, 0xfffd, 0xffff, 0x10000, 0x10ffff, 0x1f600, 0x65e5, 0x672c, 'A', 'B', ' '}
	rs := make([]rune, n)
	for i := range rs {
		switch rng.Intn(8) {
		case 0, 1:
			rs[i] = edge[rng.Intn(len(edge))]
		case 2, 3:
			rs[i] = rune(0x20 + rng.Intn(0x5f))
		case 4:
			rs[i] = rune(rng.Intn(0x100))
		case 5:
			rs[i] = rune(rng.Intn(0x800))
		case 6:
			r := rune(rng.Intn(0x10000))
			if r >= 0xd800 && r < 0xe000 {
				r = 0xfffd
			}
			rs[i] = r
		default:
			rs[i] = rune(0x10000 + rng.Intn(0x100000))
		}
	}
	return string(rs)
}

func valRandBytes(rng *rand.Rand, n int) []byte {
	b := make([]byte, n)
	for i := range b {
		switch rng.Intn(6) {
		case 0:
			b[i] = 0
		case 1:
			b[i] = 0xff
		case 2:
			b[i] = 1
		default:
			b[i] = byte(rng.Intn(256))
		}
	}
	return b
}

// valEachValue emits, per (type, length, value token), the values of the C04 domains; `ops` are the
// operations to emit for every value ("rt", "enc").
func valEachValue(tier string, rng *rand.Rand, emit func(t asetypes.DataType, l int64, tok, kind string)) {
	thorough := tier == "thorough"
	nRand := 1500
	if thorough {
		nRand = 100000
	}
	// ---- integers: every 8- and 16-bit value, boundary + random 32/64-bit
	for v := 0; v < 256; v++ {
		tok := fmt.Sprintf("u8:%d", v)
		emit(asetypes.INT1, 1, tok, "int8")
		emit(asetypes.INTN, 1, tok, "int8")
		emit(asetypes.UINTN, 1, tok, "int8")
	}
	for v := -32768; v <= 32767; v++ {
		tok := fmt.Sprintf("i16:%d", v)
		emit(asetypes.INT2, 2, tok, "int16")
		if thorough || v%16 == 0 || v > 32700 || v < -32700 || (v > -70 && v < 70) {
			emit(asetypes.INTN, 2, tok, "int16")
		}
	}
	for v := 0; v < 65536; v++ {
		tok := fmt.Sprintf("u16:%d", v)
		emit(asetypes.UINT2, 2, tok, "int16")
		if thorough || v%16 == 0 || v > 65400 || v < 70 {
			emit(asetypes.UINTN, 2, tok, "int16")
		}
	}
	for k := 0; k < nRand; k++ {
		i32 := "i32:" + valRandInt(rng, 32).String()
		i64 := "i64:" + valRandInt(rng, 64).String()
		u32 := "u32:" + valRandUint(rng, 32).String()
		u64 := "u64:" + valRandUint(rng, 64).String()
		emit(asetypes.INT4, 4, i32, "int32")
		emit(asetypes.INTN, 4, i32, "int32")
		emit(asetypes.INT8, 8, i64, "int64")
		emit(asetypes.INTN, 8, i64, "int64")
		emit(asetypes.UINT4, 4, u32, "int32")
		emit(asetypes.UINTN, 4, u32, "int32")
		emit(asetypes.UINT8, 8, u64, "int64")
		emit(asetypes.UINTN, 8, u64, "int64")
	}
	for _, s := range []string{"i32:-2147483648", "i32:2147483647", "i32:0", "i32:-1"} {
		emit(asetypes.INT4, 4, s, "int32")
		emit(asetypes.INTN, 4, s, "int32")
	}
	for _, s := range []string{"i64:-9223372036854775808", "i64:9223372036854775807", "i64:0", "i64:-1"} {
		emit(asetypes.INT8, 8, s, "int64")
		emit(asetypes.INTN, 8, s, "int64")
	}
	for _, s := range []string{"u32:4294967295", "u32:0", "u32:2147483648"} {
		emit(asetypes.UINT4, 4, s, "int32")
		emit(asetypes.UINTN, 4, s, "int32")
	}
	for _, s := range []string{"u64:18446744073709551615", "u64:0", "u64:9223372036854775808"} {
		emit(asetypes.UINT8, 8, s, "int64")
		emit(asetypes.UINTN, 8, s, "int64")
	}
	// ---- floats: bit patterns
	for _, b := range valF32Special {
		emit(asetypes.FLT4, 4, fmt.Sprintf("f32:%d", b), "float")
		emit(asetypes.FLTN, 4, fmt.Sprintf("f32:%d", b), "float")
	}
	for _, b := range valF64Special {
		emit(asetypes.FLT8, 8, fmt.Sprintf("f64:%d", b), "float")
		emit(asetypes.FLTN, 8, fmt.Sprintf("f64:%d", b), "float")
	}
	for k := 0; k < nRand; k++ {
		b32 := rng.Uint32()
		b64 := rng.Uint64()
		if k%4 == 0 { // NaN / Inf neighbourhood
			b32 = 0x7f800000 | b32&0x807fffff
			b64 = 0x7ff0000000000000 | b64&0x800fffffffffffff
		}
		emit(asetypes.FLT4, 4, fmt.Sprintf("f32:%d", b32), "float")
		emit(asetypes.FLT8, 8, fmt.Sprintf("f64:%d", b64), "float")
		if k%3 == 0 {
			emit(asetypes.FLTN, 4, fmt.Sprintf("f32:%d", b32), "float")
			emit(asetypes.FLTN, 8, fmt.Sprintf("f64:%d", b64), "float")
		}
	}
	emit(asetypes.BIT, 1, "b:0", "bit")
	emit(asetypes.BIT, 1, "b:1", "bit")
	// ---- money: full int64 / int32 range
	for k := 0; k < nRand+40; k++ {
		var m8, m4 *big.Int
		if k < 40 {
			edges8 := []string{"0", "1", "-1", "9223372036854775807", "-9223372036854775808", "4294967295", "4294967296", "4294967297", "-4294967295", "-4294967296", "-4294967297", "2147483647", "2147483648", "-2147483648", "-2147483649", "10000", "-10000", "9223372032559808512", "-9223372032559808513", "255"}
			edges4 := []string{"0", "1", "-1", "2147483647", "-2147483648", "65535", "65536", "-65536", "10000", "-10000", "255", "256", "-256", "-255", "32767", "32768", "-32768", "-32769", "16777216", "-16777216"}
			m8, _ = new(big.Int).SetString(edges8[k%20], 10)
			m4, _ = new(big.Int).SetString(edges4[k%20], 10)
		} else {
			m8, m4 = valRandInt(rng, 64), valRandInt(rng, 32)
		}
		emit(asetypes.MONEY, 8, fmt.Sprintf("dec:%s:20:4", m8), "money")
		emit(asetypes.SHORTMONEY, 4, fmt.Sprintf("dec:%s:10:4", m4), "money")
		if k%2 == 0 {
			emit(asetypes.MONEYN, 8, fmt.Sprintf("dec:%s:20:4", m8), "money")
			emit(asetypes.MONEYN, 4, fmt.Sprintf("dec:%s:10:4", m4), "money")
		}
	}
	// ---- decimals: all 741 (p,s) x boundary values
	one := big.NewInt(1)
	for p := 1; p <= 38; p++ {
		for s := 0; s <= p; s++ {
			vals := []*big.Int{big.NewInt(0), big.NewInt(1), new(big.Int).Sub(decPow10(p), one), decPow10(p - 1)}
			if s == 0 || s == p || thorough {
				for _, c := range []int64{255, 256, 257, 65535, 65536, 127, 128} {
					vals = append(vals, big.NewInt(c))
				}
				for k := 8; k < 128; k += 8 {
					t := new(big.Int).Lsh(one, uint(k))
					vals = append(vals, t, new(big.Int).Sub(t, one))
				}
			}
			nr := 1
			if thorough {
				nr = 8
			}
			for k := 0; k < nr; k++ {
				vals = append(vals, new(big.Int).Rand(rng, decPow10(p)))
			}
			for _, v := range vals {
				if v.Cmp(decPow10(p)) >= 0 {
					continue
				}
				for _, sg := range []int{1, -1} {
					w := new(big.Int).Set(v)
					if sg < 0 {
						if v.Sign() == 0 {
							continue
						}
						w.Neg(w)
					}
					t := asetypes.DECN
					if (p+s)%2 == 1 {
						t = asetypes.NUMN
					}
					emit(t, int64(1+(p+1)/2), fmt.Sprintf("dec:%s:%d:%d", w, p, s), "decimal")
					if (p+s+len(w.String()))%5 == 0 {
						emit(t, int64(1+(p+1)/2), fmt.Sprintf("decr:%s:%d:%d", w, p, s), "decimal-after-rejected-set")
					}
				}
			}
		}
	}
	// ---- dates: month boundaries of every year
	for y := 1; y <= 9999; y++ {
		for m := 1; m <= 12; m++ {
			for _, d := range []int{1, valDaysIn(y, m)} {
				tok := valFmtTime(y, m, d, 0, 0, 0, 0)
				emit(asetypes.DATE, 4, tok, "date")
				if (m <= 3 && y%4 == 0) || (thorough && y%4 == 1) {
					emit(asetypes.DATEN, 4, tok, "date")
					emit(asetypes.BIGDATETIMEN, 8, tok, "bigdatetime-day")
					emit(asetypes.DATETIME, 8, tok, "datetime-day")
				}
			}
		}
	}
	// ---- datetime: sample days x boundary ticks, random microseconds
	days := []time.Time{valDay1, time.Date(1, 1, 2, 0, 0, 0, 0, time.UTC), time.Date(1752, 12, 31, 0, 0, 0, 0, time.UTC),
		time.Date(1753, 1, 1, 0, 0, 0, 0, time.UTC), time.Date(1899, 12, 30, 0, 0, 0, 0, time.UTC), time.Date(1899, 12, 31, 0, 0, 0, 0, time.UTC),
		valDay1900, time.Date(1900, 1, 2, 0, 0, 0, 0, time.UTC), time.Date(1900, 2, 28, 0, 0, 0, 0, time.UTC), time.Date(1900, 3, 1, 0, 0, 0, 0, time.UTC),
		time.Date(1970, 1, 1, 0, 0, 0, 0, time.UTC), time.Date(2000, 2, 29, 0, 0, 0, 0, time.UTC), time.Date(2024, 2, 29, 0, 0, 0, 0, time.UTC),
		time.Date(2079, 6, 5, 0, 0, 0, 0, time.UTC), time.Date(2079, 6, 6, 0, 0, 0, 0, time.UTC), time.Date(2079, 6, 7, 0, 0, 0, 0, time.UTC),
		time.Date(9999, 12, 31, 0, 0, 0, 0, time.UTC)}
	// days on which zones with daylight saving change their offset (Europe, North America, Lord Howe, Chile)
	for _, d := range [][3]int{{2021, 3, 28}, {2021, 10, 31}, {2021, 3, 14}, {2021, 11, 7}, {2021, 4, 4}, {2021, 10, 3}, {2021, 9, 5}, {1999, 3, 28}, {2040, 10, 28}} {
		days = append(days, time.Date(d[0], time.Month(d[1]), d[2], 0, 0, 0, 0, time.UTC))
	}
	nDays := 60
	if thorough {
		nDays = 3000
	}
	for k := 0; k < nDays; k++ {
		days = append(days, valDay1.AddDate(0, 0, rng.Intn(3652059)))
		if k%2 == 0 { // smalldatetime range
			days = append(days, valDay1900.AddDate(0, 0, rng.Intn(65536)))
		}
		if k%3 == 0 { // before 1900
			days = append(days, valDay1900.AddDate(0, 0, -1-rng.Intn(693595)))
		}
	}
	for _, d := range days {
		for _, k := range valBoundaryTicks {
			tok := valTimeTok(d.Add(time.Duration(valTickNs(k))))
			emit(asetypes.DATETIME, 8, tok, "datetime-tick")
			emit(asetypes.DATETIMEN, 8, tok, "datetime-tick")
		}
		for _, us := range valBoundaryUs {
			tok := valTimeTok(d.Add(time.Duration(us) * time.Microsecond))
			emit(asetypes.DATETIME, 8, tok, "datetime-us")
			emit(asetypes.BIGDATETIMEN, 8, tok, "bigdatetime")
		}
		for k := 0; k < 6; k++ {
			us := rng.Int63n(86400000000)
			tok := valTimeTok(d.Add(time.Duration(us) * time.Microsecond))
			emit(asetypes.DATETIME, 8, tok, "datetime-us")
			emit(asetypes.DATETIMEN, 8, tok, "datetime-us")
			emit(asetypes.BIGDATETIMEN, 8, tok, "bigdatetime")
			// every minute/day pair sampled for smalldatetime
			mtok := valTimeTok(d.Add(time.Duration(rng.Intn(1440)) * time.Minute))
			emit(asetypes.SHORTDATE, 4, mtok, "smalldatetime")
			emit(asetypes.DATETIMEN, 4, mtok, "smalldatetime")
			if k == 0 {
				emit(asetypes.SHORTDATE, 4, tok, "smalldatetime-us")
				emit(asetypes.DATETIMEN, 4, tok, "smalldatetime-us")
				emit(asetypes.DATE, 4, tok, "date-with-time")
			}
		}
		for _, mn := range []int{0, 1, 59, 60, 719, 720, 1438, 1439} {
			mtok := valTimeTok(d.Add(time.Duration(mn) * time.Minute))
			emit(asetypes.SHORTDATE, 4, mtok, "smalldatetime")
			emit(asetypes.DATETIMEN, 4, mtok, "smalldatetime")
		}
	}
	// ---- time of day: boundary ticks (every tick of a day in the thorough tier), random microseconds
	tickTok := func(k int64) string {
		h, mi, s, n := valTod(valTickNs(k))
		return valFmtTime(1, 1, 1, h, mi, s, n)
	}
	for _, k := range valBoundaryTicks {
		emit(asetypes.TIME, 4, tickTok(k), "time-tick")
		emit(asetypes.TIMEN, 4, tickTok(k), "time-tick")
	}
	nTicks := 3000
	if thorough {
		nTicks = 200000
	}
	for k := 0; k < nTicks; k++ {
		emit(asetypes.TIME, 4, tickTok(rng.Int63n(25920000)), "time-tick")
		us := rng.Int63n(86400000000)
		if k%4 == 0 {
			us = valBoundaryUs[rng.Intn(len(valBoundaryUs))]
		}
		h, mi, s, n := valTod(us * 1000)
		y, m, d := 1, 1, 1
		if k%3 == 0 { // the date part is not transmitted by TIME / BIGTIME
			y, m, d = 1+rng.Intn(9999), 1+rng.Intn(12), 1+rng.Intn(28)
		}
		tok := valFmtTime(y, m, d, h, mi, s, n)
		emit(asetypes.TIME, 4, tok, "time-us")
		emit(asetypes.TIMEN, 4, tok, "time-us")
		emit(asetypes.BIGTIMEN, 8, tok, "bigtime")
	}
	for _, us := range valBoundaryUs {
		h, mi, s, n := valTod(us * 1000)
		emit(asetypes.BIGTIMEN, 8, valFmtTime(1, 1, 1, h, mi, s, n), "bigtime")
		emit(asetypes.TIME, 4, valFmtTime(1, 1, 1, h, mi, s, n), "time-us")
	}
	// ---- byte strings and character strings
	nStr := 400
	if thorough {
		nStr = 20000
	}
	binTypes := []asetypes.DataType{asetypes.BINARY, asetypes.VARBINARY, asetypes.LONGBINARY, asetypes.IMAGE, asetypes.XML}
	chrTypes := []asetypes.DataType{asetypes.CHAR, asetypes.VARCHAR, asetypes.LONGCHAR, asetypes.TEXT}
	lens := []int{1, 2, 3, 4, 7, 8, 9, 16, 31, 32, 33, 127, 128, 254, 255}
	for k := 0; k < nStr; k++ {
		n := lens[rng.Intn(len(lens))]
		if k%10 == 0 {
			n = 256 + rng.Intn(1000)
		}
		bt := binTypes[k%len(binTypes)]
		emit(bt, 255, "bytes:"+hx(valRandBytes(rng, n)), "binary")
		ct := chrTypes[k%len(chrTypes)]
		s := valRandString(rng, 1+n/4)
		emit(ct, 255, "str:"+hx([]byte(s)), "char")
		if k%5 == 0 { // a Go string need not be UTF-8
			emit(ct, 255, "str:"+hx(valRandBytes(rng, n)), "char-raw")
		}
	}
	// ---- unitext: all planes, surrogate-pair boundaries
	fixed := []string{"A", "AB", "ABC", "abc def", "\u00e9", "\u00ff", "\u0100", "\u65e5\u672c", "\u65e5", "\U00010000", "\U0010ffff", "\U0001f600", "a\U0001f600b",
		"\ud7ff", "\ue000", "\uffff", "\ufffd", "x\x00", "\x00", "\x00x", "x\x00\x00", "\u0100\u0101", "A\u0100", "\u00ffA", "\u07ff\u0800"}
	for _, s := range fixed {
		emit(asetypes.UNITEXT, 16384, "str:"+hx([]byte(s)), "unitext")
	}
	nUni := 1600
	if thorough {
		nUni = 50000
	}
	for k := 0; k < nUni; k++ {
		n := 1 + rng.Intn(12)
		if k%20 == 0 {
			n = 100 + rng.Intn(300)
		}
		var s string
		switch k % 4 {
		case 0: // ASCII
			b := make([]byte, n)
			for i := range b {
				b[i] = byte(0x20 + rng.Intn(0x5f))
			}
			s = string(b)
		case 1: // Latin-1
			rs := make([]rune, n)
			for i := range rs {
				rs[i] = rune(1 + rng.Intn(255))
			}
			s = string(rs)
		default:
			s = valRandString(rng, n)
		}
		emit(asetypes.UNITEXT, 16384, "str:"+hx([]byte(s)), "unitext")
		if k%4 == 3 { // a Go string need not be UTF-8: []rune(s) replaces every invalid byte by U+FFFD
			b := []byte(s)
			switch rng.Intn(4) {
			case 0:
				b = b[:rng.Intn(len(b))+1-rng.Intn(2)] // cut inside a sequence
			case 1:
				b[rng.Intn(len(b))] = byte(rng.Intn(256))
			case 2:
				b = append(b[:rng.Intn(len(b)+1)], valRandBytes(rng, 1+rng.Intn(4))...)
			default:
				b = valRandBytes(rng, 1+rng.Intn(8))
				for i := range b {
					b[i] |= 0x80
				}
			}
			emit(asetypes.UNITEXT, 16384, "str:"+hx(b), "unitext-raw")
		}
	}
	// invalid UTF-8: overlong forms, surrogates, beyond U+10FFFF, truncated and stray continuation bytes, boundaries of the accept ranges
	for _, h := range []string{"c080", "c1bf", "c280", "dfbf", "e08080", "e09fbf", "e0a080", "ed9fbf", "eda080", "edbfbf", "ee8080", "efbfbf",
		"f0808080", "f08fbfbf", "f0908080", "f48fbfbf", "f4908080", "f5808080", "f8888080", "ff", "fe", "80", "bf", "c2", "e0a0", "e1", "f09080", "f0",
		"41c2", "41e0a0", "c241", "e0a041", "f090808041", "e0a0c0", "f0908041", "c2c280", "e1e18080", "f4bf8080", "f1808080", "f3bfbfbf", "e1807f", "efbfbd"} {
		emit(asetypes.UNITEXT, 16384, "str:"+h, "unitext-raw")
	}
}

// valMalformed: wrong Go types, odd lengths, NULL, arbitrary bytes for every data type.
func valMalformed(tier string, rng *rand.Rand, emit func(Case)) {
	toks := []string{"null", "u8:7", "i16:-2", "i32:3", "i64:-4", "u16:5", "u32:6", "u64:7", "f32:1065353216", "f64:4607182418800017408",
		"b:1", "bytes:0102", "bytes:-", "str:6162", "str:-", "dec:-5:18:0", "dec:0:18:0", "dec:123456789012345678901234567890:38:0", "decnull",
		"t:2000-1-1-0-0-0-0", "t:1899-12-31-12-0-0-0", "t:-5-3-1-1-2-3-4", "t:12000-1-1-0-0-0-0"}
	lens := []int64{-1, 0, 1, 2, 3, 4, 5, 7, 8, 9, 16, 255}
	for _, t := range valAllTypes {
		interesting := t.GoReflectType() != nil || t.ByteSize() != -1 || t.LengthBytes() != -1
		for _, tok := range toks {
			for _, l := range lens {
				if !interesting && !(l == 4 && (tok == "u8:7" || tok == "str:6162" || tok == "null")) {
					continue
				}
				emit(Case{Line: fmt.Sprintf("val enc %02x %d %s", byte(t), l, tok), Kind: "enc-anytype"})
				if l == 4 || l == 8 {
					emit(Case{Line: fmt.Sprintf("val rt %02x %d %s", byte(t), l, tok), Kind: "rt-anytype"})
				}
			}
		}
		// decoding: every length 0..20 plus some longer, zero / ones / random content
		maxN := 20
		if !interesting {
			maxN = 2
		}
		for n := 0; n <= maxN+3; n++ {
			ln := n
			if n > maxN {
				ln = []int{33, 64, 255}[n-maxN-1]
			}
			emit(Case{Line: fmt.Sprintf("val dec %02x %s", byte(t), hx(make([]byte, ln))), Kind: "dec-anytype"})
			reps := 2
			if tier == "thorough" {
				reps = 40
			}
			if !interesting {
				reps = 1
			}
			for r := 0; r < reps; r++ {
				emit(Case{Line: fmt.Sprintf("val dec %02x %s", byte(t), hx(valRandBytes(rng, ln))), Kind: "dec-anytype"})
			}
		}
	}
	// UTF-16LE data for unitext: pairs, lone / reversed surrogates, odd lengths, trailing NULs
	for _, h := range []string{"4100", "41004200", "e565", "3dd800de", "3dd8", "00de", "00de3dd8", "3dd83dd800de", "3dd84100", "410000de",
		"41", "410042", "0000", "41000000", "00004100", "ffff", "fdff", "ffdb00dc", "ffdbffdf", "00d800dc", "ffdfffdb", "410000"} {
		emit(Case{Line: "val dec ae " + h, Kind: "dec-unitext"})
	}
	nu := 300
	if tier == "thorough" {
		nu = 20000
	}
	for k := 0; k < nu; k++ {
		n := 1 + rng.Intn(6)
		b := make([]byte, 0, 2*n+1)
		for i := 0; i < n; i++ {
			var u int
			switch rng.Intn(5) {
			case 0:
				u = 0xd800 + rng.Intn(0x400)
			case 1:
				u = 0xdc00 + rng.Intn(0x400)
			case 2:
				u = rng.Intn(0x80)
			default:
				u = rng.Intn(0x10000)
			}
			b = append(b, byte(u), byte(u>>8))
		}
		if k%10 == 0 {
			b = append(b, byte(rng.Intn(256)))
		}
		emit(Case{Line: "val dec ae " + hx(b), Kind: "dec-unitext"})
	}
	// NULL through every type in the property's domain at its own lengths
	for _, t := range valAllTypes {
		if valInProperty(t) {
			emit(Case{Line: fmt.Sprintf("val rt %02x 8 null", byte(t)), Kind: "null"})
			emit(Case{Line: fmt.Sprintf("val dec %02x -", byte(t)), Kind: "null"})
		}
	}
}

// valSweeps: dense ranges as single cases (both sides loop): every day 0001-01-01..9999-12-31, every tick of a day.
func valSweeps(tier string, rng *rand.Rand, emit func(Case)) {
	if tier == "thorough" {
		for lo := 0; lo < 3652059; lo += 100000 {
			n := 100000
			if lo+n > 3652059 {
				n = 3652059 - lo
			}
			emit(Case{Line: fmt.Sprintf("val rtsweep 31 %d %d", lo, n), Kind: "sweep-every-day"})
		}
		for lo := 0; lo < 25920000; lo += 160000 {
			emit(Case{Line: fmt.Sprintf("val rtsweep 33 %d %d", lo, 160000), Kind: "sweep-every-tick"})
		}
		// every tick of 1900-01-01, of a random later day and of 1899-12-31 (negative day count)
		for _, day := range []int64{693595, 693595 + int64(rng.Intn(2958463)), 693594} {
			for lo := int64(0); lo < 25920000; lo += 160000 {
				emit(Case{Line: fmt.Sprintf("val rtsweep 3d %d %d", day*25920000+lo, 160000), Kind: "sweep-datetime-day"})
			}
		}
		return
	}
	// quick: windows around the epochs and boundaries
	for _, lo := range []int{0, 693595 - 5000, 3652059 - 10000, rng.Intn(3600000)} {
		emit(Case{Line: fmt.Sprintf("val rtsweep 31 %d 10000", lo), Kind: "sweep-days"})
		emit(Case{Line: fmt.Sprintf("val rtsweep 7b %d 2000", lo), Kind: "sweep-days"})
	}
	for _, lo := range []int{0, 12960000 - 5000, 25920000 - 10000, rng.Intn(25900000)} {
		emit(Case{Line: fmt.Sprintf("val rtsweep 33 %d 10000", lo), Kind: "sweep-ticks"})
		emit(Case{Line: fmt.Sprintf("val rtsweep 93 %d 2000", lo), Kind: "sweep-ticks"})
		emit(Case{Line: fmt.Sprintf("val rtsweep 3d %d 10000", int64(693595+rng.Intn(2958463))*25920000+int64(lo)), Kind: "sweep-datetime"})
		emit(Case{Line: fmt.Sprintf("val rtsweep 6f %d 2000", int64(693595+rng.Intn(2958463))*25920000+int64(lo)), Kind: "sweep-datetime"})
	}
	emit(Case{Line: fmt.Sprintf("val rtsweep 3d %d 3000", int64(693594)*25920000), Kind: "sweep-datetime-pre1900"})
}

func valGenC04(tier string, rng *rand.Rand, emit func(Case)) {
	valSweeps(tier, rng, emit)
	valEachValue(tier, rng, func(t asetypes.DataType, l int64, tok, kind string) {
		emit(Case{Line: fmt.Sprintf("val rt %02x %d %s", byte(t), l, tok), Kind: kind})
	})
	valMalformed(tier, rng, emit)
}

// valFindingKey: "<op>:<DATATYPE>" for val lines (one key per data type and direction), "<cal op>" for cal lines.
func valFindingKey(line, out, clause string) string {
	f := strings.Fields(line)
	if len(f) >= 3 && f[0] == "val" {
		if t, ok := valType(f[2]); ok {
			op := f[1]
			if op == "rtsweep" {
				op = "rt"
			}
			return op + ":" + t.String()
		}
	}
	if len(f) >= 2 {
		return f[0] + ":" + f[1]
	}
	return clause
}

func valNontrivial(line, out string) bool {
	return out != "bad-op" && out != "err" && out != "enc-err" && out != "panic" && out != "enc-panic"
}

var valAssumptions = []string{
	"byte order: the harness passes binary.LittleEndian (tds/binary.go: endian); the model is little-endian only",
	"time values are UTC; a time.Time in another zone is encoded by its local wall clock fields (not modelled)",
	"time.Time is modelled as (days since 0001-01-01, ns of day) with own proleptic Gregorian civil arithmetic; time.Date normalisation, AddDate(0,0,n), Add and the accessors are tied to Go's time package by this correspondence run (cal date/adddays/add lines, every temporal val line)",
	"float32/float64 are compared by IEEE bit pattern (math.Float32bits), so NaN payloads and the sign of zero count",
	"Go standard library behaviour restated in the model: encoding/binary Write/Read/PutUintNN, big.Int Bytes/SetBytes/Int64/BitLen, []rune(string) UTF-8 decoding with U+FFFD replacement, utf16.Encode, string([]rune), strings.TrimRight, make with a negative length, unchecked type assertions",
	"decimals: GoValue cannot know precision and scale (they travel in the format); the value-level round trip is on the unscaled integer; `decnull` = &Decimal{i:nil} is accepted as the decoded NULL of the decimal types (NullDecimal.Scan treats it so)",
	"make([]byte, length) is only exercised for length <= 65536 (larger lengths are answered bad-op on both sides); the model puts no upper bound",
	"years are kept within -200000..200000 so that the int64 intermediates of DurationFromDateTime do not overflow; Props/C05 c05_no_overflow proves the bound on the property's domain (years 1..9999)",
	"unitext strings ending in U+0000 are outside the judged domain: GoValue deliberately trims trailing NULs because the server pads unitext with them (strings.TrimRight in goValue.go)",
	"the package leg of C04 (a value inside PARAMFMT+PARAMS) is covered by the field/package codec machinery, not here",
}

func init() {
	register(&Prop{
		ID:          "C04",
		Gen:         valGenC04,
		Impl:        valuesImpl,
		Oracle:      valOracle,
		FindingKey:  valFindingKey,
		Nontrivial:  valNontrivial,
		NoShrink:    true,
		Timeout:     120 * time.Second,
		Rule:        "round trip GoValue(Bytes(v)) per data type of the property's domain (ReflectTypes non-nil, not BLOB; fixed and nullable variants at the lengths their formats carry): every uint8 and every int16/uint16 value; boundary (0, +-1, min, max, 2^k, 2^k+-1) and random 32/64-bit integers; float bit patterns (+-0, +-Inf, quiet/signalling NaN with payloads, denormals, max) and random patterns, a quarter of them forced into the NaN/Inf exponent; bit; money over the int64/int32 range with word-boundary values; decimals for all 741 (precision, scale) pairs x {0, +-1, +-(10^p-1), +-10^(p-1), byte-length boundaries 2^8k, 2^8k-1, random}; dates: first and last day of every month of every year 1..9999 plus dense sweeps (`val rtsweep`, both sides loop over consecutive days / ticks: quick = windows of 10000 around the epochs and range ends; thorough = every single day 0001-01-01..9999-12-31, every tick 0..25919999 of TIME, every tick of three DATETIME days); datetime: fixed epoch days (0001-01-01, 1753-01-01, 1899-12-30/31, 1900-01-01/02, leap days, 2079-06-06, 9999-12-31) and random days (whole range, smalldatetime range, before 1900) x boundary ticks (as decoded: k/300 s truncated to ms), boundary microseconds (rounding boundaries 1666/1667, 4999/5000, end of day) and random microseconds; smalldatetime: minute/day pairs sampled over 1900-01-01..2079-06-06 plus times with seconds; time: boundary ticks, random ticks, random microseconds on arbitrary dates; bigtime/bigdatetime: boundary and random microseconds; binary and character strings of length 1..1255 (arbitrary bytes, valid UTF-8 over all planes, and non-UTF-8 Go strings); unitext: fixed witnesses (AB, Latin-1, CJK, astral, NUL placement) and random ASCII / Latin-1 / all-plane strings. Malformed stream: every data type 0..255 x 23 value tokens of every Go type x lengths {-1,0,1,2,3,4,5,7,8,9,16,255} through Bytes (wrong dynamic types, negative and short lengths, nil decimal), and GoValue on zero / random bytes of every length 0..20, 33, 64, 255 for every type; NULL through every type. Non-trivial = the real code produced a value or bytes (not err/panic/bad-op).",
		Assumptions: valAssumptions,
	})
}

// rule addenda (rounds 9-12): what the evidence says about the coverage of a run
func init() {
	if p := registry["C04"]; p != nil {
		p.Rule += " Expected decimals are installed into and read from the Decimal's field directly (no method of the type under test on the oracle side). Package leg: pkg rows — a format and 2..3 rows of that format with different values, each prepared with LastPkg(the package before) as the channel does, all rows shown after the last one was read."
	}
}
