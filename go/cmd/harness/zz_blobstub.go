package main

import "strings"

// temporary: replaced by the fields group's own predicate (delete this file when codec_fields.go defines it)
func ffIsBlobCase(line string) bool { return strings.Contains(line, ";36;") }
