package main

// Packet layer of C02 and C14: the real reader goroutine (Conn.ReadFrom → Packet.ReadFrom →
// PacketHeader.ReadFrom) over the in-memory transport with a read schedule and a scripted end.
//
//   rd <fin> <k> <sched> <pkt>,<pkt>,…
//     <fin>   e = peer closes (EOF), E = peer closes and the transport reports the end together with the last bytes,
//             r = read error (reset), h = nothing more arrives (hang)
//     <k>     the stream ends after k bytes (k = -1: after the whole stream)
//     <sched> sizes of the successive reads, `.`-separated (`-` = as much as asked)
//     <pkt>   d<n>: a packet whose body is n DONE packages (count = running number), on channel 0, EOM set
//             on the last packet of the list; h: a header-only packet (PROTACK); f: a packet whose body is one
//             ROWFMT package (its last read has length zero)
// Answer: `pk:<i>,<i>…` (running numbers of the DONE packages delivered, `H` for a header-only package, `R` for the ROWFMT,
// `F` for the synthetic final DONE) then ` end=<connErr|hangs>`.

import (
	"context"
	"errors"
	"fmt"
	"io"
	"math/rand"
	"strconv"
	"strings"
	"time"

	"github.com/SAP/go-dblib/tds"
)

func rdStream(spec string) ([]byte, []int) {
	var stream []byte
	var bounds []int // end offset of every packet
	pk := strings.Split(spec, ",")
	n := 0
	for i, p := range pk {
		last := i == len(pk)-1
		st := byte(0)
		if last {
			st = 1
		}
		if p == "h" {
			stream = append(stream, 11, st, 0, 8, 0, 0, 0, 0)
			bounds = append(bounds, len(stream))
			continue
		}
		var body []byte
		if p == "f" {
			body = rdRowFmt()
		} else {
			cnt, _ := strconv.Atoi(strings.TrimPrefix(p, "d"))
			for j := 0; j < cnt; j++ {
				body = append(body, wDone(0xFD, 1, 0, n)...)
				n++
			}
		}
		l := len(body) + 8
		stream = append(stream, 4, st, byte(l>>8), byte(l), 0, 0, 0, 0)
		stream = append(stream, body...)
		bounds = append(bounds, len(stream))
	}
	return stream, bounds
}

// rdRowFmt: a ROWFMT with one INT4 column — a package whose last read has length zero (the column's empty
// locale): it is complete with the last byte of its packet, no byte of the next packet is needed for it
func rdRowFmt() []byte {
	col := append([]byte{1, 'c', 0}, le32(0)...)
	col = append(col, 0x38, 0)
	body := append(le16(1), col...)
	return append(append([]byte{0xEE}, le16(len(body))...), body...)
}

func rdImpl(line string) string {
	f := strings.Fields(line)
	if len(f) != 5 {
		return "bad-op"
	}
	k, err := strconv.Atoi(f[2])
	if err != nil {
		return "bad-op"
	}
	stream, _ := rdStream(f[4])
	if k >= 0 && k < len(stream) {
		stream = stream[:k]
	}
	var sched []int
	if f[3] != "-" {
		for _, s := range strings.Split(f[3], ".") {
			n, _ := strconv.Atoi(s)
			sched = append(sched, n)
		}
	}
	mc := newMemConn()
	mc.setSched(sched)
	info := testInfo() // PacketReadTimeout 1 s
	conn, _ := tds.VerifNewConn(context.Background(), mc, info, false)
	ch := conn.VerifNewChannel(0)
	mc.feed(stream)
	switch f[1] {
	case "e":
		mc.end()
	case "E":
		mc.eofWithData = true
		mc.end()
	case "r":
		mc.fail(errors.New("connection reset by peer"))
	}
	go conn.ReadFrom()
	defer mc.Close() // wakes a reader blocked in Read: it ends with the cancelled context
	defer conn.VerifCancel()
	var got []string
	end := "hangs"
	deadline := time.After(2500 * time.Millisecond)
	quiet := 300 * time.Millisecond
	if f[1] != "h" {
		quiet = 2200 * time.Millisecond // an EOF inside a packet surfaces after the read timeout (1 s)
	}
loop:
	for {
		ctx, cancel := context.WithTimeout(context.Background(), quiet)
		pkg, err := ch.NextPackage(ctx, true)
		cancel()
		switch {
		case err == nil:
			switch p := pkg.(type) {
			case *tds.DonePackage:
				if p.Status == tds.TDS_DONE_FINAL {
					got = append(got, "F")
				} else {
					got = append(got, strconv.Itoa(int(p.Count)))
				}
			case *tds.HeaderOnlyPackage:
				got = append(got, "H")
			case *tds.RowFmtPackage:
				got = append(got, "R")
			default:
				got = append(got, "?")
			}
		case errors.Is(err, context.DeadlineExceeded):
			break loop
		default:
			end = "connErr"
			// the failure is not a one-off: whoever asks again (another channel, the same consumer, Close's
			// logout) gets an error again, in time — the transport stays dead
			for again := 0; again < 2; again++ {
				ctx2, cancel2 := context.WithTimeout(context.Background(), 1500*time.Millisecond)
				_, err2 := ch.NextPackage(ctx2, true)
				cancel2()
				if err2 == nil || errors.Is(err2, context.DeadlineExceeded) {
					end = "connErr-then-blocked"
					break
				}
			}
			break loop
		}
		select {
		case <-deadline:
			break loop
		default:
		}
	}
	pk := "-"
	if len(got) > 0 {
		pk = strings.Join(got, ",")
	}
	return fmt.Sprintf("pk:%s end=%s", pk, end)
}

// rdExpect: the oracle of C14 / C02 (packet layer), from the property text: exactly the packages of
// the completely received packets, in order, then an error (or nothing for a hanging transport);
// the synthetic final DONE only if the EOM packet was complete.
func rdExpect(line string) string {
	f := strings.Fields(line)
	k, _ := strconv.Atoi(f[2])
	stream, bounds := rdStream(f[4])
	if k < 0 || k > len(stream) {
		k = len(stream)
	}
	var got []string
	n := 0
	for i, p := range strings.Split(f[4], ",") {
		complete := bounds[i] <= k
		if p == "h" {
			if complete {
				got = append(got, "H")
			}
			continue
		}
		if p == "f" {
			if complete {
				got = append(got, "R")
			}
		} else {
			cnt, _ := strconv.Atoi(strings.TrimPrefix(p, "d"))
			for j := 0; j < cnt; j++ {
				if complete {
					got = append(got, strconv.Itoa(n))
				}
				n++
			}
		}
		if complete && i == len(bounds)-1 {
			got = append(got, "F")
		}
	}
	end := "connErr"
	if f[1] == "h" {
		end = "hangs"
	}
	pk := "-"
	if len(got) > 0 {
		pk = strings.Join(got, ",")
	}
	return fmt.Sprintf("pk:%s end=%s", pk, end)
}

func init() {
	gen := func(prop string) func(tier string, rng *rand.Rand, emit func(Case)) {
		return func(tier string, rng *rand.Rand, emit func(Case)) {
			specs := []string{"d1", "d1,d1", "d2,h,d1", "h,d3", "d1,d2,d1", "d5", "h", "f,d1", "d1,f,d2", "f"}
			scheds := []string{"-", "1.1.1.1.1.1.1.1.1.1.1.1.1.1.1.1.1.1.1.1.1.1.1.1.1.1.1.1.1.1.1.1.1.1.1.1.1.1.1.1", "3.5.2.7.1.9.4", "7.1.8.8.2", "8.9.8.9", "20.3"}
			if prop == "C02" {
				// read partitions of the complete stream, incl. cuts inside the 8-byte header
				for _, sp := range specs {
					for _, sc := range scheds {
						emit(Case{Line: fmt.Sprintf("rd h -1 %s %s", sc, sp), Kind: "schedule"})
						emit(Case{Line: fmt.Sprintf("rd E -1 %s %s", sc, sp), Kind: "schedule-eof-with-data"})
					}
					n := 30
					if tier == "thorough" {
						n = 400
					}
					for i := 0; i < n; i++ {
						var s []string
						for j := 0; j < 3+rng.Intn(30); j++ {
							s = append(s, strconv.Itoa(1+rng.Intn(12)))
						}
						emit(Case{Line: fmt.Sprintf("rd h -1 %s %s", strings.Join(s, "."), sp), Kind: "schedule-random"})
					}
				}
				return
			}
			// failures during a request write: the k-th write of an n-byte request fails
			for _, n := range []int{1, 504, 505, 1008, 1500, 4000} {
				total := (n + 503) / 504
				for k := 1; k <= total+1; k++ {
					emit(Case{Line: fmt.Sprintf("wf %d %d", n, k), Kind: "write-failure"})
					emit(Case{Line: fmt.Sprintf("wf %d %d full", n, k), Kind: "write-failure-full-count"})
					emit(Case{Line: fmt.Sprintf("wf %d %d once", n, k), Kind: "write-failure-once"})
				}
			}
			// channel level: result sets over the data types of the fields group, cut at every offset (quick: a
			// sample of the offsets); the rest never arrives. The complete response rides along (`W:`) for the
			// oracle only.
			rowFields := collectRowFields(tier, rng)
			nrs := 40
			if tier == "thorough" {
				nrs = 400
			}
			for i := 0; i < nrs && len(rowFields) > 0; i++ {
				body := resultSetResponse(rng, rowFields)
				if len(body) == 0 || len(body) > 600 {
					continue
				}
				for k := 1; k < len(body); k++ {
					if tier != "thorough" && len(body) > 80 && k%3 != i%3 {
						continue
					}
					emit(Case{Line: fmt.Sprintf("rx 0 0 b0:%s W:%s", hx(body[:k]), hx(body)), Kind: "channel-prefix"})
				}
				if i%3 == 0 {
					// the same on a channel that has a complete response behind it, closed by a packet whose status
					// carries the end-of-message bit alone or together with others (ATTNACK, EVENT)
					first := respBytes(randomResponse(rng, true))
					st := []int{1, 3, 9, 1}[i/3%4]
					for k := 1; k < len(body); k++ {
						if tier != "thorough" && len(body) > 80 && k%3 != i%3 {
							continue
						}
						emit(Case{Line: fmt.Sprintf("rx 0 0 b%d:%s b0:%s W:%s", st, hx(first), hx(body[:k]), hx(body)), Kind: "channel-prefix-after-a-response"})
					}
				}
			}
			// C14: every byte offset × failure kinds. EOF inside a packet costs the 1 s read timeout:
			// in the quick tier every offset is tried with reset and hang, EOF at the packet boundaries
			// and at a sample of inner offsets.
			for _, sp := range specs {
				stream, bounds := rdStream(sp)
				isBound := map[int]bool{0: true}
				for _, b := range bounds {
					isBound[b] = true
				}
				for k := 0; k <= len(stream); k++ {
					sc := scheds[k%len(scheds)]
					emit(Case{Line: fmt.Sprintf("rd r %d %s %s", k, sc, sp), Kind: "reset"})
					emit(Case{Line: fmt.Sprintf("rd h %d %s %s", k, sc, sp), Kind: "hang"})
					if k > 17 && (isBound[k] || k%7 == 2) {
						// the consumer reads with NextPackageUntil and its callback fails on the first package: the rest
						// of the response is consumed by that call — which must end when the transport does
						emit(Case{Line: fmt.Sprintf("rdu r %d %s %s", k, sc, sp), Kind: "callback-failed-then-transport-ends"})
						if isBound[k] {
							emit(Case{Line: fmt.Sprintf("rdu e %d %s %s", k, sc, sp), Kind: "callback-failed-then-transport-ends"})
						}
					}
					if isBound[k] || tier == "thorough" || k%11 == 3 {
						emit(Case{Line: fmt.Sprintf("rd e %d %s %s", k, sc, sp), Kind: "eof"})
						if k > 0 {
							// the end reported together with the last bytes (io.Reader allows it)
							emit(Case{Line: fmt.Sprintf("rd E %d %s %s", k, sc, sp), Kind: "eof-with-data"})
						}
					}
				}
			}
		}
	}
	oracle := func(line, out string) string {
		if strings.HasPrefix(line, "rx ") {
			// channel level: the first bytes of a response (the rest never arrives). What is delivered is a
			// prefix of what the complete response delivers, without any error and without a supplied DONE.
			f := strings.Fields(line)
			earlier := ""
			if len(f) == 6 { // a complete earlier response in front: `b<status with EOM>:<hex>`
				if stN, isBody := bodyTokStatus(strings.SplitN(f[3], ":", 2)[0]); !isBody || stN%2 != 1 {
					return ""
				}
				earlier = "b1:" + strings.SplitN(f[3], ":", 2)[1] + " "
				f = append(append([]string{}, f[:3]...), f[4:]...)
			}
			if len(f) != 5 || !strings.HasPrefix(f[3], "b0:") || !strings.HasPrefix(f[4], "W:") {
				return ""
			}
			if out == "panic" || out == "timeout" {
				return "an incomplete response neither crashes nor hangs the channel"
			}
			whole := rxWholeAnswerLine(0, 0, earlier+"b1:"+f[4][2:])
			dOf := func(s string) (string, bool) {
				i, j := strings.Index(s, "D=["), strings.Index(s, "] E=")
				if i < 0 || j < i {
					return "", false
				}
				return s[i+3 : j], true
			}
			dw, ok1 := dOf(whole)
			dp, ok2 := dOf(out)
			if !ok1 || !ok2 {
				return ""
			}
			wantE := "] E=0 "
			if earlier != "" { // the earlier response may have queued errors of its own (a rejected packet size)
				alone := rxWholeAnswerLine(0, 0, strings.TrimSpace(earlier))
				if i, j := strings.Index(alone, "] E="), strings.Index(alone, " H=["); i >= 0 && j > i {
					wantE = alone[i:j] + " "
				}
			}
			if !strings.Contains(out, wantE) {
				return "never a package assembled from incomplete data: an incomplete response queues no error"
			}
			if dp != "" && !(dw == dp || strings.HasPrefix(dw, dp+" | ")) {
				return "the consumer receives exactly the packages that arrived completely — never a package assembled from incomplete data"
			}
			return ""
		}
		if strings.HasPrefix(line, "wf ") {
			f := strings.Fields(line)
			n, _ := strconv.Atoi(f[1])
			k, _ := strconv.Atoi(f[2])
			total := (n + 503) / 504
			if len(f) == 4 && f[3] == "full" { // the failing write reports the full count together with the error
				switch {
				case strings.Contains(out, "panic") || strings.Contains(out, "blocked"):
					return "a failing request write neither crashes nor blocks the caller"
				case k <= total && out != fmt.Sprintf("send=err packets=%d", k):
					return "a failing request write is reported as an error (also when the transport reports the full count with it) and nothing is written after it"
				case k > total && out != fmt.Sprintf("send=ok packets=%d", total):
					return "a request whose writes all succeed is sent completely"
				}
				return ""
			}
			switch {
			case strings.Contains(out, "panic") || strings.Contains(out, "blocked"):
				return "a failing request write neither crashes nor blocks the caller"
			case k <= total && out != fmt.Sprintf("send=err packets=%d", k-1):
				return "a failing request write is reported as an error and nothing is written after it"
			case k > total && out != fmt.Sprintf("send=ok packets=%d", total):
				return "a request whose writes all succeed is sent completely"
			}
			return ""
		}
		if strings.HasPrefix(line, "rdu ") {
			if out != "until=err" {
				return "a consumer whose callback failed gets an error back when the transport ends while the rest of the response is consumed — no later than the read timeout, its context live"
			}
			return ""
		}
		want := rdExpect(line)
		if out == want {
			return ""
		}
		f := strings.Fields(line)
		if out == "panic" || out == "timeout" {
			return "the reader neither crashes nor hangs the harness"
		}
		wp, op := strings.Fields(want), strings.Fields(out)
		if len(op) != 2 {
			return "the reader answers"
		}
		if wp[0] != op[0] {
			if f[1] == "h" && f[2] == "-1" {
				return "the delivered packages do not depend on how the transport hands out the bytes"
			}
			return "the consumer receives exactly the packages of the completely received packets, in order, and no spurious final DONE"
		}
		return "after a transport failure the consumer receives an error no later than the read timeout"
	}
	for _, id := range []string{"C02rd", "C14"} {
		id := id
		p := &Prop{
			ID: id, Gen: gen(strings.TrimSuffix(id, "rd")), Oracle: oracle,
			Impl: func(line string) string {
				if strings.HasPrefix(line, "wf ") {
					return wfImpl(line)
				}
				if strings.HasPrefix(line, "rx ") {
					return rxImpl(line)
				}
				if strings.HasPrefix(line, "rdu ") {
					return rduImpl(line)
				}
				return rdImpl(line)
			},
			NoModel: func(line string) bool { return strings.HasPrefix(line, "rdu ") },
			FindingKey: func(line, out, clause string) string { return clause },
			Nontrivial: func(line, out string) bool {
				return strings.Contains(line, ",") || strings.HasPrefix(line, "wf ") || strings.HasPrefix(line, "rx ")
			},
			NoShrink: true, Timeout: 20 * time.Second, Timed: true,
			Rule:        "the real reader goroutine over the in-memory transport: streams of 1..3 packets (bodies of 1..5 DONE packages, header-only packets) cut at every byte offset and ended by reset / hang (every offset) or EOF (packet boundaries and sampled inner offsets in the quick tier, every offset in the thorough tier; an EOF inside a packet surfaces after the 1 s read timeout), with read schedules that split headers and bodies; failures during a request write: requests of 1..8 packets whose k-th transport write fails, for every k. Non-trivial = more than one packet",
			Assumptions: []string{"net.Conn read semantics: n > 0 ⇒ err = nil; a zero-length read returns (0, nil)", "PacketReadTimeout = 1 s in the harness"},
		}
		register(p)
	}
}

// rdrawImpl: `rdraw <fin> <sched> <hex>` — the loop of Conn.ReadFrom (Packet.ReadFrom per iteration, an
// error is recorded and the loop goes on) on an arbitrary byte stream; C10, packet level.
func rdrawImpl(line string) (out string) {
	defer func() {
		if r := recover(); r != nil {
			out = "panic"
		}
	}()
	f := strings.Fields(line)
	if len(f) != 4 || (f[1] != "e" && f[1] != "r") {
		return "bad-op"
	}
	stream := unhx(f[3])
	if stream == nil {
		return "bad-op"
	}
	var sched []int
	if f[2] != "-" {
		for _, s := range strings.Split(f[2], ".") {
			n, _ := strconv.Atoi(s)
			sched = append(sched, n)
		}
	}
	mc := newMemConn()
	mc.setSched(sched)
	mc.feed(stream)
	if f[1] == "e" {
		mc.end()
	} else {
		mc.fail(errors.New("connection reset by peer"))
	}
	var items []string
	for i := 0; i < len(stream)+2; i++ {
		pkt := &tds.Packet{}
		_, err := pkt.ReadFrom(context.Background(), mc, 60*time.Millisecond)
		if err != nil && !errors.Is(err, io.EOF) {
			items = append(items, "e")
			if strings.Contains(err.Error(), "invalid packet length") {
				continue // the header was consumed, the loop goes on with the next bytes
			}
			break // the transport has ended: the reader would report this error again and again
		}
		h := pkt.Header
		items = append(items, fmt.Sprintf("P%d.%d.%d.%d.%d.%d:%s", int(h.MsgType), int(h.Status), int(h.Length), int(h.Channel), int(h.PacketNr), int(h.Window), hx(pkt.Data)))
		if err != nil {
			items = append(items, "stop")
			break
		}
	}
	return strings.Join(items, " ")
}

// rdrawGen: all header values incl. length < 8, streams of 1..3 packets, truncations, read schedules
func rdrawGen(tier string, rng *rand.Rand, emit func(Case)) {
	n := 300
	if tier == "thorough" {
		n = 3000
	}
	scheds := []string{"-", "1.1.1.1.1.1.1.1.1.1.1.1.1.1.1.1", "3.5.2.7.1.9.4", "7.1.8.8.2", "8.9.8.9"}
	mk := func(typ, st, l, ch, nr, w int, body []byte) []byte {
		return append([]byte{byte(typ), byte(st), byte(l >> 8), byte(l), byte(ch >> 8), byte(ch), byte(nr), byte(w)}, body...)
	}
	// every announced length 0..16 with bodies shorter, equal and longer than announced
	for l := 0; l <= 16; l++ {
		for _, bl := range []int{0, 1, 8, 12} {
			body := rndBytes(rng, bl)
			emit(Case{Line: fmt.Sprintf("rdraw r - %s", hx(mk(4, 1, l, 0, 0, 0, body))), Kind: "packet-length"})
			emit(Case{Line: fmt.Sprintf("rdraw r 1.1.1.1.1.1.1.1.1.1 %s", hx(append(mk(4, 0, l, 0, 0, 0, body), mk(4, 1, 9, 0, 1, 0, []byte{0xfd})...))), Kind: "packet-length"})
		}
	}
	// every header type and status value
	for v := 0; v < 256; v++ {
		emit(Case{Line: fmt.Sprintf("rdraw r - %s", hx(mk(v, 255-v, 10, v*257%65536, v, v, []byte{1, 2}))), Kind: "packet-header-values"})
	}
	for i := 0; i < n; i++ {
		var s []byte
		for k := 0; k < 1+rng.Intn(3); k++ {
			bl := rng.Intn(24)
			l := bl + 8
			switch rng.Intn(6) {
			case 0:
				l = rng.Intn(8)
			case 1:
				l = rng.Intn(65536)
			}
			s = append(s, mk(rng.Intn(256), rng.Intn(256), l, rng.Intn(3), rng.Intn(256), rng.Intn(256), rndBytes(rng, bl))...)
		}
		if rng.Intn(3) == 0 {
			s = s[:rng.Intn(len(s)+1)]
		}
		fin := "r"
		if i%10 == 0 {
			fin = "e" // an EOF inside a body costs the read timeout
		}
		emit(Case{Line: fmt.Sprintf("rdraw %s %s %s", fin, scheds[rng.Intn(len(scheds))], hx(s)), Kind: "packet-random"})
	}
}

// wfImpl: `wf <n> <k>` — a request of n bytes (⌈n/504⌉ packets at packet size 512) whose k-th transport
// write fails: SendPackage must report an error (never block, never panic) and nothing is written after
// the failure. Answer: `send=<ok|err|blocked|panic> packets=<complete packets on the wire>`.
func wfImpl(line string) (out string) {
	defer func() {
		if r := recover(); r != nil {
			out = "panic"
		}
	}()
	f := strings.Fields(line)
	if len(f) != 3 && !(len(f) == 4 && (f[3] == "full" || f[3] == "once")) {
		return "bad-op"
	}
	n, _ := strconv.Atoi(f[1])
	k, _ := strconv.Atoi(f[2])
	mc := newMemConn()
	mc.failWriteAt = k
	mc.failFull = len(f) == 4 && f[3] == "full"
	mc.failOnce = len(f) == 4 && f[3] == "once" // only this write fails (a write deadline, a signal): later ones would succeed
	conn, _ := tds.VerifNewConn(context.Background(), mc, testInfo(), false)
	defer conn.VerifCancel()
	ch := conn.VerifNewChannel(0)
	pkg := tds.NewTokenlessPackage()
	pkg.Data.Write(genBytes(n, 9))
	res := make(chan string, 1)
	go func() {
		defer func() {
			if r := recover(); r != nil {
				res <- "panic"
			}
		}()
		if err := ch.SendPackage(context.Background(), pkg); err != nil {
			res <- "err"
		} else {
			res <- "ok"
		}
	}()
	r := "blocked"
	select {
	case r = <-res:
	case <-time.After(1500 * time.Millisecond):
	}
	w := mc.written()
	pk := 0
	for len(w) >= 8 {
		l := int(w[2])<<8 | int(w[3])
		if l < 8 || l > len(w) {
			break
		}
		pk++
		w = w[l:]
	}
	return fmt.Sprintf("send=%s packets=%d", r, pk)
}

// rule addenda (rounds 9-12): what the evidence says about the coverage of a run
func init() {
	if p := registry["C14"]; p != nil {
		p.Rule += " rd E: the transport reports its end together with the last bytes (io.Reader allows n > 0 with io.EOF); wf … full: the failing write reports the full count with its error; wf … once: only that write fails, later ones would succeed."
	}
}

// rduImpl: `rdu <fin> <k> <sched> <pkts>` (oracle only): as `rd`, but the consumer reads with NextPackageUntil,
// its callback fails on the first package it is shown, and its context stays live. Answer: `until=err`
// (the callback's error or the transport's), `until=ok`, `until=blocked` after 3 s.
func rduImpl(line string) string {
	f := strings.Fields(line)
	if len(f) != 5 {
		return "bad-op"
	}
	k, err := strconv.Atoi(f[2])
	if err != nil {
		return "bad-op"
	}
	stream, _ := rdStream(f[4])
	if k >= 0 && k < len(stream) {
		stream = stream[:k]
	}
	var sched []int
	if f[3] != "-" {
		for _, s := range strings.Split(f[3], ".") {
			n, _ := strconv.Atoi(s)
			sched = append(sched, n)
		}
	}
	mc := newMemConn()
	mc.setSched(sched)
	conn, _ := tds.VerifNewConn(context.Background(), mc, testInfo(), false)
	ch := conn.VerifNewChannel(0)
	mc.feed(stream)
	if f[1] == "e" {
		mc.end()
	} else {
		mc.fail(errors.New("connection reset by peer"))
	}
	go conn.ReadFrom()
	defer mc.Close()
	defer conn.VerifCancel()
	res := make(chan string, 1)
	go func() {
		defer func() {
			if r := recover(); r != nil {
				res <- "until=panic"
			}
		}()
		_, err := ch.NextPackageUntil(context.Background(), true, func(tds.Package) (bool, error) {
			return false, errors.New("callback failed")
		})
		if err != nil {
			res <- "until=err"
		} else {
			res <- "until=ok"
		}
	}()
	select {
	case r := <-res:
		return r
	case <-time.After(3 * time.Second):
		return "until=blocked"
	}
}
