package main

// C12 — Logical channels are isolated and correctly routed under concurrency.
//
//   mux ids <goroutines> <n>            n concurrent NewChannel calls against a peer that acknowledges every
//                                       setup packet: `ok distinct <n>` or the violated clause
//   mux route <nchan> <npkg> <seed>     the peer sends npkg packages per channel, interleaved at random, plus
//                                       packets for unknown channels; one consumer goroutine per channel
//   mux routepoll <nchan> <npkg> <seed> the same with consumers that poll (NextPackage without waiting) and are the only readers of the connection's errors
//   mux tx <nchan> <nmsg> <seed>        one sender goroutine per channel, messages of random length: on the
//                                       peer side every packet carries its channel's id and consecutive numbers
//   mux setupsync <n>                  n logical channels set up against a peer whose acknowledgement is routed before
//                                       the client's Write of the setup packet returns
//   mux closeiso <cap> <extra>          a logical channel is closed while another one holds cap+extra unread packages
//   mux duplex <nchan> <rounds> <seed>  on every channel concurrently: part of a package arrives, the owner sends, the rest arrives
//   mux fmtsplit <nchan> <rounds>       on every channel: a packet ending exactly with a ROWFMT, packets of the other channels, then ROW + DONE
//   mux closefail <once>                a logical channel is closed while the transport refuses the teardown packet
//   mux setup <acktype>                 NewChannel for a logical channel succeeds iff the reply is a header-only
//                                       PROTACK packet
// (route, tx and setup are judged by the oracle only; the Lean theorems c12_routing / c12_unknown_channel /
// c12_ids_distinct are about the model of the reader loop and of the id allocation.)

import (
	"context"
	"encoding/binary"
	"fmt"
	"math/rand"
	"sort"
	"strconv"
	"strings"
	"sync"
	"time"

	"github.com/SAP/go-dblib/tds"
)

// setupResponder acknowledges every SETUP header-only packet the client writes with ackType.
func setupResponder(mc *memConn, ackType byte, stop chan struct{}) {
	off := 0
	for {
		select {
		case <-stop:
			return
		case <-time.After(200 * time.Microsecond):
		}
		w := mc.written()
		for off+8 <= len(w) {
			l := int(binary.BigEndian.Uint16(w[off+2 : off+4]))
			if l < 8 || off+l > len(w) {
				break
			}
			if w[off] == 8 && l == 8 { // TDS_BUF_SETUP, header only
				mc.feed([]byte{ackType, 1, 0, 8, w[off+4], w[off+5], 0, 0})
			}
			off += l
		}
	}
}

// syncAckConn acknowledges a SETUP header-only packet inside the Write that carries it and returns from
// that Write only after the reader goroutine has taken the acknowledgement off the transport and had time
// to route it.
type syncAckConn struct {
	*memConn
}

func (c *syncAckConn) Write(p []byte) (int, error) {
	n, err := c.memConn.Write(p)
	if err == nil && len(p) == 8 && p[0] == 8 {
		c.memConn.feed([]byte{11, 1, 0, 8, p[4], p[5], 0, 0})
		for i := 0; i < 200 && !c.memConn.drained(); i++ {
			time.Sleep(100 * time.Microsecond)
		}
		time.Sleep(3 * time.Millisecond)
	}
	return n, err
}

func muxImpl(line string) string {
	f := strings.Fields(line)
	if len(f) < 2 {
		return "bad-op"
	}
	arg := func(i int) int {
		if i < len(f) {
			n, _ := strconv.Atoi(f[i])
			return n
		}
		return 0
	}
	switch f[1] {
	case "idalloc":
		// the id allocation alone (what NewChannel calls first), hammered from g goroutines: n ids per
		// connection (a connection has 65536 ids), 8 connections
		g, n := arg(2), arg(3)
		total := 0
		for round := 0; round < 8; round++ {
			conn, _ := tds.VerifNewConn(context.Background(), newMemConn(), testInfo(), false)
			per := n / g
			ids := make([][]int, g)
			var wg sync.WaitGroup
			start := make(chan struct{})
			for i := 0; i < g; i++ {
				wg.Add(1)
				go func(i int) {
					defer wg.Done()
					<-start
					for k := 0; k < per; k++ {
						id, err := conn.VerifAllocChannelId()
						if err != nil {
							return
						}
						ids[i] = append(ids[i], id)
					}
				}(i)
			}
			close(start)
			wg.Wait()
			conn.VerifCancel()
			seen := map[int]bool{}
			for _, l := range ids {
				for _, id := range l {
					if seen[id] {
						return fmt.Sprintf("every channel obtains a distinct id (id %d handed out twice)", id)
					}
					seen[id] = true
					total++
				}
			}
		}
		return fmt.Sprintf("ok distinct %d", total)
	case "ids":
		g, n := arg(2), arg(3)
		mc := newMemConn()
		conn, _ := tds.VerifNewConn(context.Background(), mc, testInfo(), true)
		defer conn.VerifCancel()
		stop := make(chan struct{})
		defer close(stop)
		go setupResponder(mc, 11, stop)
		var mu sync.Mutex
		var got []int
		fails := 0
		var wg sync.WaitGroup
		start := make(chan struct{})
		for i := 0; i < g; i++ {
			cnt := n / g
			if i < n%g {
				cnt++
			}
			wg.Add(1)
			go func(cnt int) {
				defer wg.Done()
				<-start
				for k := 0; k < cnt; k++ {
					ch, err := conn.NewChannel()
					mu.Lock()
					if err != nil {
						fails++
					} else {
						got = append(got, ch.VerifChannelId())
					}
					mu.Unlock()
				}
			}(cnt)
		}
		close(start)
		done := make(chan struct{})
		go func() { wg.Wait(); close(done) }()
		select {
		case <-done:
		case <-time.After(5 * time.Second):
			return "blocked"
		}
		if fails > 0 {
			return fmt.Sprintf("setting up a logical channel succeeds when the server acknowledges it (%d failed)", fails)
		}
		sort.Ints(got)
		for i := 1; i < len(got); i++ {
			if got[i] == got[i-1] {
				return fmt.Sprintf("every channel obtains a distinct id (id %d twice)", got[i])
			}
		}
		reg := conn.VerifChannelIds()
		if len(reg) != len(got) {
			return "every created channel is registered"
		}
		return fmt.Sprintf("ok distinct %d", len(got))
	case "setup":
		ack := byte(arg(2))
		mc := newMemConn()
		conn, _ := tds.VerifNewConn(context.Background(), mc, testInfo(), true)
		defer conn.VerifCancel()
		conn.NewChannel() // channel 0
		stop := make(chan struct{})
		defer close(stop)
		go setupResponder(mc, ack, stop)
		res := make(chan error, 1)
		go func() { _, err := conn.NewChannel(); res <- err }()
		select {
		case err := <-res:
			if err == nil {
				return "setup=ok"
			}
			return "setup=err"
		case <-time.After(2 * time.Second):
			return "setup=blocked"
		}
	case "setupsync":
		// the peer acknowledges the setup packet at once: the acknowledgement has been read and routed by the
		// reader goroutine before the client's Write of the setup packet returns. The channel must already
		// be known to the connection then.
		n := arg(2)
		mc := newMemConn()
		sc := &syncAckConn{memConn: mc}
		conn, _ := tds.VerifNewConn(context.Background(), sc, testInfo(), true)
		defer conn.VerifCancel()
		conn.NewChannel() // channel 0
		for i := 0; i < n; i++ {
			res := make(chan error, 1)
			go func() { _, err := conn.NewChannel(); res <- err }()
			select {
			case err := <-res:
				if err != nil {
					return "setting up a logical channel succeeds when the server acknowledges it (acknowledgement arriving at once: " + clip(err.Error(), 80) + ")"
				}
			case <-time.After(1500 * time.Millisecond):
				return "setting up a logical channel succeeds when the server acknowledges it (acknowledgement arriving at once: NewChannel does not return)"
			}
		}
		return "ok setupsync"
	case "route", "routepoll":
		// routepoll: the consumers poll (NextPackage without waiting) and nobody else reads the connection's
		// errors: every packet for a channel that does not exist reaches one of the polling consumers
		poll := f[1] == "routepoll"
		nchan, npkg, seed := arg(2), arg(3), arg(4)
		rng := rand.New(rand.NewSource(int64(seed)))
		mc := newMemConn()
		conn, _ := tds.VerifNewConn(context.Background(), mc, testInfo(), true)
		defer conn.VerifCancel()
		var chans []*tds.Channel
		for i := 0; i < nchan; i++ {
			chans = append(chans, conn.VerifNewChannel(i))
		}
		// the peer's interleaving: packet = one DONE(MORE) package with count = sequence number
		next := make([]int, nchan)
		unknown := 0
		var stream []byte
		remaining := nchan * npkg
		for remaining > 0 {
			if rng.Intn(10) == 0 {
				// a packet for a channel that does not exist
				body := wDone(0xFD, 1, 0, 424242)
				id := nchan + 1 + rng.Intn(50)
				if rng.Intn(3) == 0 {
					// an id above 255 whose low byte is the id of a channel that exists
					id = 256*(1+rng.Intn(255)) + rng.Intn(nchan)
				}
				stream = append(stream, append([]byte{4, 0, 0, byte(len(body) + 8), byte(id >> 8), byte(id), 0, 0}, body...)...)
				unknown++
				continue
			}
			c := rng.Intn(nchan)
			if next[c] >= npkg {
				continue
			}
			body := wDone(0xFD, 1, 0, c*1000000+next[c])
			stream = append(stream, append([]byte{4, 0, 0, byte(len(body) + 8), byte(c >> 8), byte(c), 0, 0}, body...)...)
			next[c]++
			remaining--
		}
		// consumers and the errors of the connection
		var wg sync.WaitGroup
		bad := make([]string, nchan)
		ctx, cancel := context.WithTimeout(context.Background(), 5*time.Second)
		defer cancel()
		connErrs := 0
		var emu sync.Mutex
		errDone := make(chan struct{})
		go func() {
			for {
				if poll {
					<-errDone
					return
				}
				select {
				case <-conn.VerifErrCh():
					emu.Lock()
					connErrs++
					emu.Unlock()
				case <-errDone:
					return
				}
			}
		}()
		for c := 0; c < nchan; c++ {
			wg.Add(1)
			go func(c int) {
				defer wg.Done()
				for k := 0; k < npkg; k++ {
					pkg, err := chans[c].NextPackage(ctx, !poll)
					if poll && err != nil && strings.Contains(err.Error(), tds.ErrNoPackageReady.Error()) {
						if ctx.Err() != nil {
							bad[c] = "nothing more arrives"
							return
						}
						time.Sleep(50 * time.Microsecond)
						k--
						continue
					}
					if err != nil {
						// connection errors (unknown channel) may surface here: they are consumed by whoever reads first
						if strings.Contains(err.Error(), "invalid channel") {
							emu.Lock()
							connErrs++
							emu.Unlock()
							k--
							continue
						}
						bad[c] = "err:" + err.Error()
						return
					}
					d, ok := pkg.(*tds.DonePackage)
					if !ok || int(d.Count) != c*1000000+k {
						bad[c] = fmt.Sprintf("channel %d package %d: got %v", c, k, pkg)
						return
					}
				}
			}(c)
		}
		// (one case in three: the transport hands out one to four bytes per read, so that packet bodies arrive
		// in three and more reads)
		if seed%3 == 0 {
			var sched []int
			for i := 0; i < 4000; i++ {
				sched = append(sched, 1+rng.Intn(4))
			}
			mc.setSched(sched)
		}
		// feed in random chunks
		for len(stream) > 0 {
			n := 1 + rng.Intn(60)
			if n > len(stream) {
				n = len(stream)
			}
			mc.feed(stream[:n])
			stream = stream[n:]
		}
		wg.Wait()
		for i := 0; i < 100 && !mc.drained(); i++ {
			time.Sleep(time.Millisecond)
		}
		time.Sleep(5 * time.Millisecond)
		if poll {
			// the errors not yet seen: keep polling on the first channel until all are there
			for i := 0; i < 20000; i++ {
				emu.Lock()
				done := connErrs >= unknown
				emu.Unlock()
				if done {
					break
				}
				if _, err := chans[0].NextPackage(ctx, false); err != nil && strings.Contains(err.Error(), "invalid channel") {
					emu.Lock()
					connErrs++
					emu.Unlock()
				} else {
					time.Sleep(50 * time.Microsecond)
				}
			}
		}
		close(errDone)
		for _, b := range bad {
			if b != "" {
				return "each package is delivered to exactly the channel named in its packet header, in order (" + clip(b, 80) + ")"
			}
		}
		for c := 0; c < nchan; c++ {
			if p, _ := chans[c].VerifQueued(); p != 0 {
				return "nothing else is delivered to a channel"
			}
		}
		emu.Lock()
		defer emu.Unlock()
		if connErrs != unknown {
			return fmt.Sprintf("packets for a channel that does not exist are reported as connection errors (%d of %d)", connErrs, unknown)
		}
		return "ok routed"
	case "closeiso":
		// channel 1 holds a backlog of <cap>+<extra> unread packages in a queue of capacity <cap> (with
		// extra > 0 the reader is parked on the full queue); channel 2 is closed meanwhile, then channel 1
		// is consumed: the close completes on its own and channel 1 still gets its packages in order
		qcap, extra := arg(2), arg(3)
		info := testInfo()
		info.ChannelPackageQueueSize = qcap
		mc := newMemConn()
		conn, _ := tds.VerifNewConn(context.Background(), mc, info, true)
		defer conn.VerifCancel()
		conn.VerifNewChannel(0)
		a, b := conn.VerifNewChannel(1), conn.VerifNewChannel(2)
		total := qcap + extra
		for k := 0; k < total; k++ {
			body := wDone(0xFD, 1, 0, k)
			mc.feed(append([]byte{4, 0, 0, byte(len(body) + 8), 0, 1, 0, 0}, body...))
		}
		for i := 0; i < 200; i++ {
			if q, _ := a.VerifQueued(); q >= qcap || q >= total {
				break
			}
			time.Sleep(time.Millisecond)
		}
		time.Sleep(3 * time.Millisecond)
		closed := make(chan struct{})
		go func() { b.Close(); close(closed) }()
		select {
		case <-closed:
		case <-time.After(1500 * time.Millisecond):
			// unblock everything before reporting
			go func() {
				for {
					if _, err := a.NextPackage(context.Background(), true); err != nil {
						return
					}
				}
			}()
			return "closing a channel is not held up by the unread packages of another channel"
		}
		ctx, cancel := context.WithTimeout(context.Background(), 3*time.Second)
		defer cancel()
		for k := 0; k < total; k++ {
			pkg, err := a.NextPackage(ctx, true)
			d, ok := pkg.(*tds.DonePackage)
			if err != nil || !ok || int(d.Count) != k {
				return fmt.Sprintf("each package is delivered to exactly the channel named in its packet header, in order (package %d after another channel was closed: %v %v)", k, pkg, err)
			}
		}
		return "ok closeiso"
	case "duplex":
		// every channel, concurrently with the others over the one transport: the first part of a package
		// arrives, the channel's owner sends a message, the rest of the package arrives — the package is
		// delivered whole to its own channel, every time (sending and receiving share a channel, not state)
		nchan, rounds, seed := arg(2), arg(3), arg(4)
		mc := newMemConn()
		conn, _ := tds.VerifNewConn(context.Background(), mc, testInfo(), true)
		defer conn.VerifCancel()
		var wg sync.WaitGroup
		bad := make([]string, nchan)
		for c := 0; c < nchan; c++ {
			ch := conn.VerifNewChannel(c)
			wg.Add(1)
			go func(c int, ch *tds.Channel) {
				defer wg.Done()
				rng := rand.New(rand.NewSource(int64(seed*131 + c)))
				for m := 0; m < rounds; m++ {
					body := wDone(0xFD, 1, 0, c*1000+m)
					cut := 1 + rng.Intn(len(body)-1)
					mc.feed(append([]byte{4, 0, 0, byte(cut + 8), byte(c >> 8), byte(c), 0, 0}, body[:cut]...))
					// until the reader has taken what was fed (this channel's part among it) off the transport and
					// had time to hand it over — looking into the queue itself from here would race with the reader
					for i := 0; i < 4000 && !mc.drained(); i++ {
						time.Sleep(50 * time.Microsecond)
					}
					time.Sleep(300 * time.Microsecond)
					pkg := tds.NewTokenlessPackage()
					pkg.Data.Write(genBytes(1+rng.Intn(700), c+m))
					if err := ch.SendPackage(context.Background(), pkg); err != nil {
						bad[c] = "send:" + err.Error()
						return
					}
					mc.feed(append([]byte{4, 1, 0, byte(len(body) - cut + 8), byte(c >> 8), byte(c), 0, 0}, body[cut:]...))
					ctx, cancel := context.WithTimeout(context.Background(), 2*time.Second)
					got, err := ch.NextPackage(ctx, true)
					if d, ok := got.(*tds.DonePackage); err != nil || !ok || int(d.Count) != c*1000+m {
						cancel()
						bad[c] = fmt.Sprintf("round %d: got %v %v", m, got, err)
						return
					}
					fin, err := ch.NextPackage(ctx, true) // the final DONE the channel supplies at the end of the message
					cancel()
					if d, ok := fin.(*tds.DonePackage); err != nil || !ok || d.Status != tds.TDS_DONE_FINAL {
						bad[c] = fmt.Sprintf("round %d: end of message: got %v %v", m, fin, err)
						return
					}
				}
			}(c, ch)
		}
		wg.Wait()
		for c, b := range bad {
			if b != "" {
				return fmt.Sprintf("each package is delivered to exactly the channel named in its packet header, whole, also when its owner sends between its parts (channel %d: %s)", c, b)
			}
		}
		return "ok duplex"
	case "fmtsplit":
		// on every channel, interleaved with the others: a packet that ends exactly with a format package, then
		// (after packets of other channels) the packet with its data package and the DONE — the data package
		// is read against its format whatever arrived in between and however the packets were cut
		nchan, rounds := arg(2), arg(3)
		mc := newMemConn()
		conn, _ := tds.VerifNewConn(context.Background(), mc, testInfo(), true)
		defer conn.VerifCancel()
		defer mc.Close()
		var chans []*tds.Channel
		for c := 0; c < nchan; c++ {
			chans = append(chans, conn.VerifNewChannel(c))
		}
		pkt := func(c int, eom byte, body []byte) []byte {
			return append([]byte{4, eom, 0, byte(len(body) + 8), byte(c >> 8), byte(c), 0, 0}, body...)
		}
		for m := 0; m < rounds; m++ {
			for c := 0; c < nchan; c++ {
				mc.feed(pkt(c, 0, rdRowFmt()))
			}
			for c := nchan - 1; c >= 0; c-- {
				row := append([]byte{0xD1}, le32(c*100+m)...)
				mc.feed(pkt(c, 1, append(row, wDone(0xFD, 0, 0, m)...)))
			}
		}
		ctx, cancel := context.WithTimeout(context.Background(), 3*time.Second)
		defer cancel()
		for m := 0; m < rounds; m++ {
			for c := 0; c < nchan; c++ {
				var kinds []string
				for k := 0; k < 3; k++ {
					p, err := chans[c].NextPackage(ctx, true)
					if err != nil {
						return fmt.Sprintf("each package is delivered to exactly the channel named in its packet header, in the order the server sent it (channel %d round %d: %v after %v)", c, m, err, kinds)
					}
					kinds = append(kinds, fmt.Sprintf("%T", p))
				}
				if strings.Join(kinds, ",") != "*tds.RowFmtPackage,*tds.RowPackage,*tds.DonePackage" {
					return fmt.Sprintf("each package is delivered to exactly the channel named in its packet header, in the order the server sent it (channel %d round %d: %v)", c, m, kinds)
				}
			}
		}
		return "ok fmtsplit"
	case "closefail":
		// a logical channel is closed while the transport refuses the write of the teardown packet (once, or
		// from then on): the client-side teardown happens all the same — the id is no longer routed (a later
		// packet for it is a connection error), the closed channel answers ErrChannelClosed, and the other
		// channel still gets its packages
		once := arg(2) == 1
		mc := newMemConn()
		conn, _ := tds.VerifNewConn(context.Background(), mc, testInfo(), true)
		defer conn.VerifCancel()
		conn.VerifNewChannel(0)
		a, b := conn.VerifNewChannel(1), conn.VerifNewChannel(2)
		mc.mu.Lock()
		mc.failWriteAt = mc.writes + 1
		mc.failOnce = once
		mc.mu.Unlock()
		closed := make(chan error, 1)
		go func() { closed <- a.Close() }()
		select {
		case err := <-closed:
			if err == nil {
				return "a failed write of the teardown packet is reported by Close"
			}
		case <-time.After(1500 * time.Millisecond):
			return "closing a channel returns in bounded time when the transport refuses the teardown packet"
		}
		for _, id := range []int{1, 2} {
			body := wDone(0xFD, 1, 0, id)
			mc.feed(append([]byte{4, 1, 0, byte(len(body) + 8), 0, byte(id), 0, 0}, body...))
		}
		ctx, cancel := context.WithTimeout(context.Background(), 1500*time.Millisecond)
		defer cancel()
		if _, err := a.NextPackage(ctx, true); err == nil || !strings.Contains(err.Error(), tds.ErrChannelClosed.Error()) {
			return fmt.Sprintf("a closed channel delivers nothing and answers that it is closed (got %v)", err)
		}
		select {
		case err := <-conn.VerifErrCh():
			if err == nil || !strings.Contains(err.Error(), "invalid channel") {
				return fmt.Sprintf("a packet for a closed channel is reported as a connection error (got %v)", err)
			}
		case <-ctx.Done():
			return "a packet for a closed channel is reported as a connection error (nothing reported)"
		}
		pkg, err := b.NextPackage(ctx, true)
		if d, ok := pkg.(*tds.DonePackage); err != nil || !ok || d.Count != 2 {
			return fmt.Sprintf("the other channel still gets its packages (got %v %v)", pkg, err)
		}
		return "ok closefail"
	case "tx":
		nchan, nmsg, seed := arg(2), arg(3), arg(4)
		mc := newMemConn()
		mc.yield = seed%2 == 0
		conn, _ := tds.VerifNewConn(context.Background(), mc, testInfo(), false)
		defer conn.VerifCancel()
		var wg sync.WaitGroup
		sent := make([][]byte, nchan)
		for c := 0; c < nchan; c++ {
			ch := conn.VerifNewChannel(c + 1)
			wg.Add(1)
			go func(c int, ch *tds.Channel) {
				defer wg.Done()
				rng := rand.New(rand.NewSource(int64(seed*100 + c)))
				for m := 0; m < nmsg; m++ {
					pl := genBytes(1+rng.Intn(1500), c*31+m)
					sent[c] = append(sent[c], pl...)
					pkg := tds.NewTokenlessPackage()
					pkg.Data.Write(pl)
					if err := ch.SendPackage(context.Background(), pkg); err != nil {
						return
					}
				}
			}(c, ch)
		}
		wg.Wait()
		w := mc.written()
		got := make([][]byte, nchan)
		nextNr := make([]int, nchan)
		for len(w) >= 8 {
			l := int(binary.BigEndian.Uint16(w[2:4]))
			if l < 8 || l > len(w) {
				return "the bytes on the transport parse as packets (writes of different channels do not tear)"
			}
			c := int(binary.BigEndian.Uint16(w[4:6])) - 1
			if c < 0 || c >= nchan {
				return "outgoing packets carry their channel's id"
			}
			if int(w[6]) != nextNr[c]%256 {
				return "outgoing packets of a channel carry consecutive packet numbers"
			}
			nextNr[c]++
			got[c] = append(got[c], w[8:l]...)
			w = w[l:]
		}
		if len(w) != 0 {
			return "the bytes on the transport parse as packets (writes of different channels do not tear)"
		}
		for c := range got {
			if string(got[c]) != string(sent[c]) {
				return "each channel's packets carry exactly that channel's data, in order"
			}
		}
		return "ok tx"
	}
	return "bad-op"
}

func init() {
	register(&Prop{
		ID: "C12",
		Gen: func(tier string, rng *rand.Rand, emit func(Case)) {
			reps := 6
			if tier == "thorough" {
				reps = 60
			}
			for r := 0; r < reps; r++ {
				for _, gn := range [][2]int{{1, 4}, {2, 8}, {4, 16}, {16, 16}, {16, 48}} {
					emit(Case{Line: fmt.Sprintf("mux ids %d %d #%d", gn[0], gn[1], r), Kind: "ids"})
				}
			}
			// the allocation alone, without the handshake that spaces the calls out
			for _, g := range []int{2, 4, 8, 16} {
				for r := 0; r < 3; r++ {
					emit(Case{Line: fmt.Sprintf("mux idalloc %d %d #%d", g, 60000, r), Kind: "idalloc"})
				}
			}
			for _, a := range []int{11, 15, 4, 9, 27} { // PROTACK, NORMAL, RESPONSE, CLOSE, PROTACK|…
				emit(Case{Line: fmt.Sprintf("mux setup %d", a), Kind: "setup"})
			}
			n := 40
			if tier == "thorough" {
				n = 600
			}
			// long-lived channels: more than 256 packets per channel, so that the one-byte packet number wraps
			for i := 0; i < 3; i++ {
				emit(Case{Line: fmt.Sprintf("mux tx %d %d %d", 1+i, 300+rng.Intn(100), rng.Intn(1<<30)), Kind: "tx-wrap"})
			}
			for i := 0; i < n; i++ {
				emit(Case{Line: fmt.Sprintf("mux route %d %d %d", 1+rng.Intn(8), 1+rng.Intn(12), rng.Intn(1<<30)), Kind: "route"})
				if i%3 == 1 {
					emit(Case{Line: fmt.Sprintf("mux routepoll %d %d %d", 1+rng.Intn(6), 1+rng.Intn(12), rng.Intn(1<<30)), Kind: "route-polling-consumers"})
				}
				emit(Case{Line: fmt.Sprintf("mux tx %d %d %d", 1+rng.Intn(8), 1+rng.Intn(6), rng.Intn(1<<30)), Kind: "tx"})
				if i%4 == 0 {
					emit(Case{Line: fmt.Sprintf("mux closeiso %d %d", 1+rng.Intn(5), rng.Intn(4)), Kind: "close-isolated"})
					emit(Case{Line: fmt.Sprintf("mux closefail %d #%d", i/4%2, i), Kind: "close-write-fails"})
					emit(Case{Line: fmt.Sprintf("mux duplex %d %d %d", 1+rng.Intn(5), 1+rng.Intn(6), rng.Intn(1<<20)), Kind: "send-between-the-parts-of-a-package"})
					emit(Case{Line: fmt.Sprintf("mux fmtsplit %d %d", 1+rng.Intn(4), 1+rng.Intn(3)), Kind: "packet-ends-with-a-format"})
					emit(Case{Line: fmt.Sprintf("mux setupsync %d", 1+rng.Intn(4)), Kind: "setup-ack-at-once"})
				}
			}
		},
		Impl:    muxImpl,
		NoModel: func(line string) bool { return !strings.HasPrefix(line, "mux ids") },
		Agree:   func(m, i string) bool { return m == i },
		Oracle: func(line, out string) string {
			f := strings.Fields(line)
			switch f[1] {
			case "setup":
				a, _ := strconv.Atoi(f[2])
				want := "setup=err"
				if a&11 == 11 {
					want = "setup=ok"
				}
				if out != want {
					return "setting up a logical channel succeeds exactly when the server acknowledges it with PROTACK"
				}
				return ""
			}
			if strings.HasPrefix(out, "ok") {
				return ""
			}
			if out == "panic" || out == "timeout" || out == "blocked" || out == "crash" {
				return "concurrent use of channels neither crashes nor hangs"
			}
			return out
		},
		FindingKey:  func(line, out, clause string) string { return strings.Fields(line)[1] + ":" + clause },
		Nontrivial:  func(line, out string) bool { return true },
		Rule:        "real Conn over the in-memory transport: the id allocation alone hammered from 2..16 goroutines (60000 ids each case: the counter stays below 65536); 4..48 concurrent NewChannel calls from 1..16 goroutines against a peer acknowledging every setup (ids distinct, all registered); setup with other acknowledgement types; 1..8 channels with 1..12 packages each interleaved at random by the peer incl. packets for unknown channels, one consumer goroutine per channel (exact per-channel sequences, connection error count); 1..8 concurrent senders (per-channel ids, consecutive packet numbers, data intact), incl. channels that send more than 256 packets (packet number wrap). The thorough tier repeats more often; run the harness binary built with -race for the race detector evidence",
		Serial:      false,
		Isolate:     true,
		NoShrink:    true,
		Timeout:     30 * time.Second,
		Assumptions: []string{"schedules are whatever the Go scheduler produces on 16 cores (not enumerated); the Lean theorem covers every schedule of the modelled accesses", "data-race freedom itself is not a theorem (partial)"},
	})
}

// rule addenda (rounds 9-12): what the evidence says about the coverage of a run
func init() {
	if p := registry["C12"]; p != nil {
		p.Rule += " closefail: Close of a logical channel while the transport refuses the teardown packet (once / for good): the id is no longer routed, the channel answers closed, the other channel still gets its packages. duplex: on 1..5 channels concurrently over one transport, 1..6 rounds of [first part of a package arrives, the owner sends a message, the rest arrives, the package and the final DONE are delivered]."
	}
}
