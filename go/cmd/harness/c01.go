package main

import (
	"bytes"
	"context"
	"encoding/binary"
	"fmt"
	"io"
	"math/rand"
	"strconv"
	"strings"
	"sync"

	"github.com/SAP/go-dblib/tds"
)

// capConn is a capturing transport: writes are recorded, reads block until closed.
type capConn struct {
	mu     sync.Mutex
	buf    bytes.Buffer
	closed chan struct{}
	once   sync.Once
}

func newCapConn() *capConn { return &capConn{closed: make(chan struct{})} }
func (c *capConn) Read(p []byte) (int, error) {
	if len(p) == 0 {
		return 0, nil
	}
	<-c.closed
	return 0, io.EOF
}
func (c *capConn) Write(p []byte) (int, error) {
	c.mu.Lock()
	defer c.mu.Unlock()
	return c.buf.Write(p)
}
func (c *capConn) Close() error { c.once.Do(func() { close(c.closed) }); return nil }
func (c *capConn) take() []byte {
	c.mu.Lock()
	defer c.mu.Unlock()
	b := append([]byte{}, c.buf.Bytes()...)
	c.buf.Reset()
	return b
}

func testInfo() *tds.Info {
	info := &tds.Info{}
	info.PacketReadTimeout = 1
	info.ChannelPackageQueueSize = 100
	return info
}

// genBytes: deterministic content b_i = (seed + 31*i) mod 256 (mirrored in the Lean driver)
func genBytes(n, seed int) []byte {
	b := make([]byte, n)
	for i := range b {
		b[i] = byte((seed + 31*i) % 256)
	}
	return b
}

// digest of a body, mirrored in Lean: sum (b_i * (i mod 251 + 1)) mod 1000000007
func digest(b []byte) int {
	d := 0
	for i, x := range b {
		d = (d + int(x)*(i%251+1)) % 1000000007
	}
	return d
}

func payloadOf(tok string) ([]byte, bool) {
	f := strings.Split(tok, ":")
	if len(f) == 4 && f[1] == "g" {
		n, e1 := strconv.Atoi(f[2])
		s, e2 := strconv.Atoi(f[3])
		if e1 != nil || e2 != nil {
			return nil, false
		}
		return genBytes(n, s), true
	}
	if len(f) == 2 {
		b := unhx(f[1])
		return b, b != nil
	}
	return nil, false
}

func summarize(wire []byte) (string, bool) {
	// split into packets by header length; canonical: hdrhex/bodylen/digest
	var parts []string
	for len(wire) > 0 {
		if len(wire) < 8 {
			return strings.Join(append(parts, "trailing:"+hx(wire)), ","), false
		}
		l := int(binary.BigEndian.Uint16(wire[2:4]))
		if l < 8 || l > len(wire) {
			return strings.Join(append(parts, "badlen:"+hx(wire[:8])), ","), false
		}
		parts = append(parts, fmt.Sprintf("%s/%d/%d", hx(wire[:8]), l-8, digest(wire[8:l])))
		wire = wire[l:]
	}
	if len(parts) == 0 {
		return "-", true
	}
	return strings.Join(parts, ","), true
}

// txImpl: `tx <psize> <chan> <pktnr0> <op>…`; ops: q:<payload> QueuePackage, f SendRemainingPackets,
// s:<payload> SendPackage, ps:<n> packet size (between messages), ht:<n> CurrentHeaderType, rs Channel.Reset
// (the message queued so far is abandoned), fc SendRemainingPackets with a cancelled context (fails, abandons).
// Answer: per op the packets written to the transport during that op, then the tx queue state,
// then ` # <oracle verdict>`.
func txImpl(line string) string {
	toks := strings.Fields(line)
	if len(toks) < 4 {
		return "bad-op"
	}
	psize, _ := strconv.Atoi(toks[1])
	chanId, _ := strconv.Atoi(toks[2])
	nr0, _ := strconv.Atoi(toks[3])
	cc := newCapConn()
	conn, err := tds.VerifNewConn(context.Background(), cc, testInfo(), false)
	if err != nil {
		return "err-conn"
	}
	conn.VerifSetPacketSize(psize)
	ch := conn.VerifNewChannel(chanId)
	ch.VerifSetPacketNr(nr0)
	ctx := context.Background()

	var outs []string
	var sharedPkg *tds.TokenlessPackage
	// oracle state: messages = list of (payload bytes, wire bytes, psize, hdrtype, chan, first nr)
	verdict := ""
	var msgPayload, msgWire []byte
	curNr := nr0
	msgStartNr := nr0
	hdrType := int(tds.TDS_BUF_NORMAL)
	endMessage := func() {
		if verdict == "" {
			verdict = checkMessage(msgPayload, msgWire, psize, hdrType, chanId, msgStartNr, &curNr)
		}
		// after a flush the header type is back to NORMAL (Reset)
		hdrType = int(tds.TDS_BUF_NORMAL)
		if int(ch.CurrentHeaderType) != hdrType && verdict == "" {
			verdict = "after a message the header type is back to normal"
		}
		msgPayload, msgWire = nil, nil
		msgStartNr = curNr
		_, txq := ch.VerifQueues()
		dl, _, _, _, _ := txq.VerifState()
		if len(dl) != 0 && verdict == "" {
			verdict = "nothing is left behind for the next message"
		}
	}
	for _, t := range toks[4:] {
		f := strings.Split(t, ":")
		var e error
		switch f[0] {
		case "q", "s":
			pl, ok := payloadOf(t)
			if !ok {
				return "bad-op"
			}
			// one package object for the whole line, its buffer reset and refilled for every package (an
			// application building its packages in one buffer): what was queued must not change when the
			// caller reuses its memory
			if sharedPkg == nil {
				sharedPkg = tds.NewTokenlessPackage()
			}
			var pkg tds.Package = sharedPkg
			sharedPkg.Data.Reset()
			sharedPkg.Data.Write(pl)
			if len(pl)%3 == 1 || len(pl) == psize-8 || len(pl) == 2*(psize-8) {
				// the same bytes written the way the real package types write theirs: field by field through the
				// typed writers (one-byte fields incl. the LAST byte of the package, two-, four- and eight-byte
				// little-endian fields, strings) — what reaches the wire depends on the bytes only
				pkg = &typedWritesPackage{data: append([]byte{}, pl...), mode: len(pl) + len(msgPayload)}
			}
			msgPayload = append(msgPayload, pl...)
			if f[0] == "q" {
				e = ch.QueuePackage(ctx, pkg)
			} else {
				e = ch.SendPackage(ctx, pkg)
			}
		case "f":
			e = ch.SendRemainingPackets(ctx)
		case "fc":
			// SendRemainingPackets with a cancelled context: nothing is written, the call fails (when there is
			// anything to send) and — like every flush — ends in Reset: the message is abandoned, the next one
			// starts from scratch
			if chanId > 0 {
				for w := msgWire; len(w) >= 8; {
					l := int(binary.BigEndian.Uint16(w[2:4]))
					if l < 8 || l > len(w) {
						break
					}
					curNr = (curNr + 1) % 256
					w = w[l:]
				}
			}
			cctx, cancel := context.WithCancel(context.Background())
			cancel()
			e = ch.SendRemainingPackets(cctx)
			w := cc.take()
			sum, _ := summarize(w)
			if e != nil {
				sum = "err:" + sum
			}
			if len(w) != 0 && verdict == "" {
				verdict = "a send with a cancelled context writes nothing"
			}
			outs = append(outs, sum)
			msgPayload, msgWire = nil, nil
			msgStartNr = curNr
			hdrType = int(tds.TDS_BUF_NORMAL)
			continue
		case "rs":
			// Channel.Reset: the message queued so far is abandoned (packets already on the wire stay there);
			// the next message starts from scratch — nothing of the abandoned one is left behind
			if chanId > 0 {
				for w := msgWire; len(w) >= 8; {
					l := int(binary.BigEndian.Uint16(w[2:4]))
					if l < 8 || l > len(w) {
						break
					}
					curNr = (curNr + 1) % 256
					w = w[l:]
				}
			}
			ch.Reset()
			msgPayload, msgWire = nil, nil
			msgStartNr = curNr
			hdrType = int(tds.TDS_BUF_NORMAL)
			outs = append(outs, "ok")
			continue
		case "ps":
			n, _ := strconv.Atoi(f[1])
			conn.VerifSetPacketSize(n)
			psize = n
			outs = append(outs, "ok")
			continue
		case "ht":
			n, _ := strconv.Atoi(f[1])
			ch.CurrentHeaderType = tds.PacketHeaderType(n)
			hdrType = n
			outs = append(outs, "ok")
			continue
		default:
			return "bad-op"
		}
		w := cc.take()
		msgWire = append(msgWire, w...)
		sum, _ := summarize(w)
		if e != nil {
			sum = "err:" + sum
		}
		outs = append(outs, sum)
		if f[0] == "f" || f[0] == "s" {
			endMessage()
		}
	}
	_, txq := ch.VerifQueues()
	if verdict == "" {
		verdict = "ok"
	}
	return strings.Join(outs, " ") + " " + pqState(txq) + fmt.Sprintf(" nr=%d ht=%d", ch.VerifPacketNr(), int(ch.CurrentHeaderType)) + " # " + verdict
}

// checkMessage is the oracle of C01, written from the property text: an independent packet parser
// plus the clause list.
func checkMessage(payload, wire []byte, psize, hdrType, chanId, firstNr int, curNr *int) string {
	if len(payload) == 0 {
		if len(wire) != 0 {
			return "with nothing queued a flush writes nothing"
		}
		return ""
	}
	type pk struct {
		typ, status, length, channel, nr, window int
		body                                     []byte
	}
	var pks []pk
	rest := wire
	for len(rest) > 0 {
		if len(rest) < 8 {
			return "the bytes parse as consecutive TDS packets"
		}
		l := int(binary.BigEndian.Uint16(rest[2:4]))
		if l < 8 || l > len(rest) {
			return "each packet's header length equals its real size"
		}
		pks = append(pks, pk{int(rest[0]), int(rest[1]), l, int(binary.BigEndian.Uint16(rest[4:6])), int(rest[6]), int(rest[7]), rest[8:l]})
		rest = rest[l:]
	}
	if len(pks) == 0 {
		return "the message reaches the transport (nothing lost)"
	}
	var bodies []byte
	for i, p := range pks {
		last := i == len(pks)-1
		bodies = append(bodies, p.body...)
		if p.length > psize {
			return "no packet exceeds the packet size in force"
		}
		if !last && len(p.body) != psize-8 {
			return "every packet but the last is full"
		}
		if len(p.body) < 1 {
			return "no empty packet inside a message"
		}
		if p.typ != hdrType {
			return "all packets carry the channel's current message type"
		}
		if chanId > 0 {
			if p.channel != chanId {
				return "all packets carry the channel id"
			}
			if p.nr != *curNr%256 {
				return "packet numbers are consecutive"
			}
		} else if p.channel != 0 {
			return "all packets carry the channel id"
		}
		*curNr = (*curNr + 1) % 256
		eom := p.status&1 == 1
		if last && !eom {
			return "the end-of-message flag is set on the last packet"
		}
		if !last && eom {
			return "the end-of-message flag is set on no other packet"
		}
	}
	if !bytes.Equal(bodies, payload) {
		return "the packet bodies concatenate to exactly the packages' encodings"
	}
	return ""
}

func txOracle(line, out string) string {
	i := strings.LastIndex(out, " # ")
	if i < 0 {
		if out == "panic" || out == "timeout" || out == "crash" {
			return "no call crashes or hangs the process (panic in the caller's or in the reader's goroutine, endless loop)"
		}
		return ""
	}
	v := out[i+3:]
	if v == "ok" {
		return ""
	}
	return v
}

func txStrip(s string) string {
	if i := strings.LastIndex(s, " # "); i >= 0 {
		return s[:i]
	}
	return s
}

// splitTotal splits total into k positive parts (random composition) or boundary aligned parts.
func compositions(rng *rand.Rand, total, k int) []int {
	if k <= 1 || total < k {
		return []int{total}
	}
	cuts := map[int]bool{}
	for len(cuts) < k-1 {
		cuts[1+rng.Intn(total-1)] = true
	}
	var parts []int
	prev := 0
	for c := 1; c <= total; c++ {
		if cuts[c] || c == total {
			parts = append(parts, c-prev)
			prev = c
		}
	}
	return parts
}

func genMessage(rng *rand.Rand, psize, total int) []string {
	// a message of `total` payload bytes split over 1..4 packages and QueuePackage/flush/SendPackage
	var ops []string
	if total == 0 {
		return []string{"f"}
	}
	k := 1 + rng.Intn(4)
	parts := compositions(rng, total, k)
	if rng.Intn(3) == 0 {
		// align a split to a body boundary
		body := psize - 8
		if total > body {
			parts = []int{body, total - body}
		}
	}
	for i, n := range parts {
		op := "q"
		if i == len(parts)-1 && rng.Intn(2) == 0 {
			op = "s"
		}
		ops = append(ops, fmt.Sprintf("%s:g:%d:%d", op, n, rng.Intn(256)))
		if op == "s" {
			return ops
		}
	}
	return append(ops, "f")
}

func init() {
	register(&Prop{
		ID: "C01",
		Gen: func(tier string, rng *rand.Rand, emit func(Case)) {
			sizes := []int{256, 257, 511, 512, 513, 2048, 65535}
			emitMsgs := func(kind string, psize, chanId, nr0 int, totals []int, ht int, ps2 int) {
				toks := []string{"tx", strconv.Itoa(psize), strconv.Itoa(chanId), strconv.Itoa(nr0)}
				cur := psize
				for i, t := range totals {
					if ht != 0 && rng.Intn(2) == 0 {
						toks = append(toks, fmt.Sprintf("ht:%d", ht))
					}
					toks = append(toks, genMessage(rng, cur, t)...)
					if ps2 != 0 && i == 0 {
						toks = append(toks, fmt.Sprintf("ps:%d", ps2))
						cur = ps2
					}
				}
				emit(Case{Line: strings.Join(toks, " "), Kind: kind})
			}
			// boundary lengths k*body+d for every size of the list, k 0..4, d -1,0,1
			for _, ps := range sizes {
				body := ps - 8
				for k := 0; k <= 4; k++ {
					if ps == 65535 && k > 2 {
						continue
					}
					for d := -1; d <= 1; d++ {
						t := k*body + d
						if t < 0 {
							continue
						}
						for rep := 0; rep < 3; rep++ {
							emitMsgs("boundary", ps, []int{0, 5}[rep%2], rng.Intn(256), []int{t}, []int{0, 1, 15, 3}[rng.Intn(4)], 0)
						}
					}
				}
			}
			// histories: two or three messages, size change between the first two
			nh := 300
			nr := 600
			if tier == "thorough" {
				nh, nr = 5000, 20000
			}
			for i := 0; i < nh; i++ {
				ps := sizes[rng.Intn(len(sizes)-1)]
				ps2 := 0
				if rng.Intn(2) == 0 {
					ps2 = 256 + rng.Intn(1800)
				}
				body := ps - 8
				var totals []int
				for m := 0; m < 2+rng.Intn(2); m++ {
					b := body
					if m > 0 && ps2 != 0 {
						b = ps2 - 8
					}
					totals = append(totals, rng.Intn(3)*b+[]int{-1, 0, 1, 7, b / 2}[rng.Intn(5)]+1)
				}
				emitMsgs("history", ps, []int{0, 1, 2, 255, 256, 300, 4097, 65535}[rng.Intn(8)], rng.Intn(256), totals, 15, ps2)
			}
			for i := 0; i < nr; i++ {
				ps := 256 + rng.Intn(3000)
				emitMsgs("random", ps, rng.Intn(2)*7, 250+rng.Intn(6), []int{1 + rng.Intn(4*ps)}, 2, 0)
			}
			// a message abandoned half-way (Channel.Reset with a partly filled packet queued, with and without
			// full packets already sent), then ordinary messages: nothing of the abandoned one may be left behind
			nab := 60
			if tier == "thorough" {
				nab = 1500
			}
			for i := 0; i < nab; i++ {
				ps := sizes[rng.Intn(len(sizes)-1)]
				body := ps - 8
				toks := []string{"tx", strconv.Itoa(ps), strconv.Itoa(rng.Intn(2) * 3), strconv.Itoa(rng.Intn(256))}
				if rng.Intn(3) == 0 {
					toks = append(toks, genMessage(rng, ps, 1+rng.Intn(2*body))...)
				}
				part := 1 + rng.Intn(body-1)
				if rng.Intn(3) == 0 {
					part += body * (1 + rng.Intn(2)) // full packets of the abandoned message are already on the wire
				}
				toks = append(toks, fmt.Sprintf("q:g:%d:%d", part, rng.Intn(256)), []string{"rs", "fc", "fc"}[rng.Intn(3)])
				for m := 0; m < 1+rng.Intn(2); m++ {
					toks = append(toks, genMessage(rng, ps, []int{1, 7, body - 1, body, body + 1, 2*body + 3}[rng.Intn(6)])...)
				}
				emit(Case{Line: strings.Join(toks, " "), Kind: "abandoned-message"})
			}
			// several channels of one connection sending at the same time (C12's scenario, judged by its oracle):
			// what reaches the shared transport must still parse as consecutive packets, each channel's
			// packets with its id, consecutive numbers and its data intact — no packet is torn by another's
			nconc := 25
			if tier == "thorough" {
				nconc = 400
			}
			for i := 0; i < nconc; i++ {
				emit(Case{Line: fmt.Sprintf("mux tx %d %d %d", 2+rng.Intn(7), 2+rng.Intn(8), rng.Intn(1<<30)), Kind: "concurrent-channels"})
			}
			if tier == "thorough" {
				// every packet size 256..65535 (step 1 up to 4096, then sampled) x 3 boundary lengths x k in {1,2}
				for ps := 256; ps <= 65535; ps++ {
					if ps > 4096 && ps%37 != 0 && ps != 65535 {
						continue
					}
					for k := 1; k <= 2; k++ {
						for d := -1; d <= 1; d++ {
							emitMsgs("sweep", ps, 0, 0, []int{k*(ps-8) + d}, 0, 0)
						}
					}
				}
			}
		},
		Impl: func(line string) string {
			if strings.HasPrefix(line, "mux ") {
				return muxImpl(line)
			}
			return txImpl(line)
		},
		NoModel: func(line string) bool { return strings.HasPrefix(line, "mux ") },
		Oracle: func(line, out string) string {
			if strings.HasPrefix(line, "mux ") {
				if strings.HasPrefix(out, "ok") {
					return ""
				}
				return "with several channels sending at once the bytes reaching the transport still parse as consecutive packets (" + clip(out, 100) + ")"
			}
			return txOracle(line, out)
		},
		Agree:      func(m, i string) bool { return m == txStrip(i) },
		FindingKey: func(line, out, clause string) string { return clause },
		Nontrivial: func(line, out string) bool {
			return strings.HasPrefix(line, "mux ") || strings.Count(out, "/") >= 4
		},
		Rule:        "messages through the real Channel (QueuePackage/SendRemainingPackets/SendPackage of TokenlessPackages) over a capturing transport: packet sizes {256,257,511,512,513,2048,65535} x boundary lengths k*(psize-8)+{-1,0,1}, k=0..4, x random splits into 1..4 packages and call splits, channel ids 0 and >0 with random start packet numbers, header types; 2-3 message histories with a packet size change; random sizes; thorough adds a sweep over packet sizes 256..65535. Non-trivial = at least two packets on the wire",
		Assumptions: []string{"packages are modelled by their encoding (TokenlessPackage with the given bytes); codecs are C06's business", "the transport accepts every write completely"},
	})
}

// typedWritesPackage writes its bytes through the typed writers of the BytesChannel, cycling through them;
// the last byte always goes through a one-byte writer.
type typedWritesPackage struct {
	data []byte
	mode int
}

func (p *typedWritesPackage) ReadFrom(tds.BytesChannel) error { return nil }
func (p *typedWritesPackage) String() string                  { return "typedWritesPackage" }
func (p *typedWritesPackage) WriteTo(ch tds.BytesChannel) error {
	d := p.data
	k := p.mode
	for len(d) > 0 {
		var err error
		n := 1
		switch {
		case len(d) == 1:
			switch k % 3 {
			case 0:
				err = ch.WriteByte(d[0])
			case 1:
				err = ch.WriteUint8(d[0])
			default:
				err = ch.WriteInt8(int8(d[0]))
			}
		case k%7 == 0:
			err = ch.WriteByte(d[0])
		case k%7 == 1 && len(d) > 2:
			n = 2
			err = ch.WriteUint16(binary.LittleEndian.Uint16(d))
		case k%7 == 2 && len(d) > 4:
			n = 4
			err = ch.WriteInt32(int32(binary.LittleEndian.Uint32(d)))
		case k%7 == 3 && len(d) > 8:
			n = 8
			err = ch.WriteUint64(binary.LittleEndian.Uint64(d))
		case k%7 == 4 && len(d) > 5:
			n = 5
			err = ch.WriteString(string(d[:5]))
		case k%7 == 5 && len(d) > 3:
			n = 3
			err = ch.WriteBytes(d[:3])
		default:
			err = ch.WriteUint8(d[0])
		}
		if err != nil {
			return err
		}
		d = d[n:]
		k++
	}
	return nil
}

// rule addenda (rounds 9-12): what the evidence says about the coverage of a run
func init() {
	if p := registry["C01"]; p != nil {
		p.Rule += " Since round 12 a third of the packages is written through a package type of the harness that uses the typed writers of the BytesChannel field by field (WriteByte / WriteUint8 / WriteInt8 for one-byte fields incl. the last byte, WriteUint16 / WriteInt32 / WriteUint64, WriteString, WriteBytes); one package buffer is reused for all packages of a line."
	}
}
