package main

// Codec group "Basic" (C06 / C07 / C10 parts): the fixed-layout packages of /repo/tds.
// Lean counterpart: lean/Dblib/Model/Codec/Basic.lean (`Dblib.Codec.Basic`).
//
// Canonical field lists (after the kind), identical to the Lean `show`:
//
//   done | doneproc | doneinproc   <status u16> <transtate u16> <count i32>
//       three registry kinds for the ONE Go type (DoneProcPackage and DoneInProcPackage are type
//       aliases of DonePackage); `pkg dec` answers with the kind of the token; `pkg enc` of all
//       three writes the token TDS_DONE (0xFD) because there is only one WriteTo.
//   eed          <msgnumber u32> <state u8> <class u8> <sqlstate hex> <status u8> <transtate u16>
//                <msg hex> <server hex> <proc hex> <linenr u16>
//   error        <errornumber i32> <state u8> <class u8> <msg hex> <server hex> <proc hex> <linenr u16>
//   loginack     <length u16> <status u8> <version hex(4 bytes)> <namelength u8> <programname hex>
//                <programversion hex(4 bytes)>
//   msg          <status u8> <msgid u16>
//   envchange    <members>     members = `-` or comma separated `<type u8>:<newvalue hex>:<oldvalue hex>`
//   capability   <entries>     entries = `-` or comma separated `<type u8>:<bits>`, ascending type;
//                              <bits> = the []bool of the value mask as a 0/1 string, index 0 first
//                              (`-` = no entries). The Go map is rendered sorted by type.
//   language     <status 0..2^31-1> <cmd hex>
//   returnstatus <value i32>
//   logout       <options u8>
//
// `pkg enc capability …`: CapabilityPackage.WriteTo ranges over a Go map, the order of the entries on
// the wire is random. The package built for `pkg enc` is wrapped (cbCanonCap): the real WriteTo runs
// into a private queue and its (type,len,mask) entries are re-emitted in ascending type order. The
// Lean `enc` emits ascending type order.
//
// EnvChangePackage.members and valueMask.capabilities are unexported and have no constructor: Build
// and Show reach them with reflect (+unsafe for the store).
//
// basicNorm[kind] maps a field list to the field list that `pkg dec` of its encoding shows (the
// documented normalisations of C06: EED message loses one trailing "\n"; a parsed value mask has
// 8·⌈n/8⌉+1 entries; a CAPABILITY reader starts from the three default masks; LOGINACK length fields).

import (
	"encoding/binary"
	"fmt"
	"math/rand"
	"reflect"
	"sort"
	"strconv"
	"strings"
	"unsafe"

	"github.com/SAP/go-dblib/tds"
)

// ---------------------------------------------------------------- field helpers

func cbUint(s string, bits int) (uint64, bool) {
	if len(s) == 0 || len(s) > 20 {
		return 0, false
	}
	for i := 0; i < len(s); i++ {
		if s[i] < '0' || s[i] > '9' {
			return 0, false
		}
	}
	n, err := strconv.ParseUint(s, 10, bits)
	return n, err == nil
}

func cbInt(s string, bits int) (int64, bool) {
	t := s
	if strings.HasPrefix(t, "-") {
		t = t[1:]
	}
	if len(t) == 0 || len(t) > 20 {
		return 0, false
	}
	for i := 0; i < len(t); i++ {
		if t[i] < '0' || t[i] > '9' {
			return 0, false
		}
	}
	n, err := strconv.ParseInt(s, 10, bits)
	return n, err == nil
}

func cbHex(s string) ([]byte, bool) {
	b := unhx(s)
	return b, b != nil
}

func cbList(s string) []string {
	if s == "-" {
		return nil
	}
	return strings.Split(s, ",")
}

func cbShowList(xs []string) string {
	if len(xs) == 0 {
		return "-"
	}
	return strings.Join(xs, ",")
}

func cbBits(bs []bool) string {
	if len(bs) == 0 {
		return "-"
	}
	b := make([]byte, len(bs))
	for i, v := range bs {
		if v {
			b[i] = '1'
		} else {
			b[i] = '0'
		}
	}
	return string(b)
}

func cbParseBits(s string) ([]bool, bool) {
	if s == "-" {
		return []bool{}, true
	}
	out := make([]bool, len(s))
	for i := 0; i < len(s); i++ {
		switch s[i] {
		case '1':
			out[i] = true
		case '0':
		default:
			return nil, false
		}
	}
	return out, true
}

func cbRandBytes(rng *rand.Rand, n int) []byte {
	b := make([]byte, n)
	for i := range b {
		b[i] = byte(rng.Intn(256))
	}
	return b
}

// cbText: printable text of n bytes; one in six ends in a line feed (servers send messages with and without;
// a reader that strips it must be the one the documented normalisation names, and strip exactly one)
func cbText(rng *rand.Rand, n int) []byte {
	b := make([]byte, n)
	for i := range b {
		b[i] = byte(32 + rng.Intn(95))
	}
	if n > 0 && rng.Intn(6) == 0 {
		b[n-1] = '\n'
		if n > 1 && rng.Intn(3) == 0 {
			b[n-2] = '\n'
		}
	}
	return b
}

var cbLen8 = []int{0, 1, 254, 255}

func cbSmallLen(rng *rand.Rand) int {
	switch rng.Intn(10) {
	case 0:
		return 0
	case 1:
		return 1
	case 2:
		return 200 + rng.Intn(56)
	default:
		return rng.Intn(24)
	}
}

func cbN(tier string, quick, thorough int) int {
	if tier == "thorough" {
		return thorough
	}
	return quick
}

func cbLE16(n int) []byte {
	b := make([]byte, 2)
	binary.LittleEndian.PutUint16(b, uint16(n))
	return b
}
func cbLE32(n uint32) []byte {
	b := make([]byte, 4)
	binary.LittleEndian.PutUint32(b, n)
	return b
}

// ---------------------------------------------------------------- done / doneproc / doneinproc

func cbDoneCodec(kind string, tok byte) *pkgCodec {
	return &pkgCodec{
		Kind: kind, Tokens: []byte{tok}, ServerOnly: true,
		Show: func(p tds.Package) string {
			d := p.(*tds.DonePackage)
			return fmt.Sprintf("%s %d %d %d", kind, uint16(d.Status), uint16(d.TranState), d.Count)
		},
		Build: func(f []string) (tds.Package, bool) {
			if len(f) != 3 {
				return nil, false
			}
			s, ok1 := cbUint(f[0], 16)
			t, ok2 := cbUint(f[1], 16)
			c, ok3 := cbInt(f[2], 32)
			if !ok1 || !ok2 || !ok3 {
				return nil, false
			}
			return &tds.DonePackage{Status: tds.DoneState(s), TranState: tds.TransState(t), Count: int32(c)}, true
		},
		Gen: func(tier string, rng *rand.Rand, emit func(string)) {
			u16 := []int{0, 1, 2, 0x10, 0x11, 0x20, 0x80, 0xff, 0x100, 0x7fff, 0x8000, 0xffff}
			i32 := []int64{0, 1, -1, 255, 256, 65535, 65536, 2147483647, -2147483648, -2147483647}
			for _, s := range u16 {
				for _, t := range []int{0, 1, 2, 3, 4, 0xffff} {
					emit(fmt.Sprintf("%d %d %d", s, t, i32[(s+t)%len(i32)]))
				}
			}
			for _, c := range i32 {
				emit(fmt.Sprintf("16 0 %d", c))
			}
			for i := 0; i < cbN(tier, 150, 3000); i++ {
				emit(fmt.Sprintf("%d %d %d", rng.Intn(65536), rng.Intn(65536), int32(rng.Uint32())))
			}
		},
		SpecEnc: func(f []string) ([]byte, bool) {
			if len(f) != 3 {
				return nil, false
			}
			s, ok1 := cbUint(f[0], 16)
			t, ok2 := cbUint(f[1], 16)
			c, ok3 := cbInt(f[2], 32)
			if !ok1 || !ok2 || !ok3 {
				return nil, false
			}
			out := []byte{tok}
			out = append(out, cbLE16(int(s))...)
			out = append(out, cbLE16(int(t))...)
			out = append(out, cbLE32(uint32(int32(c)))...)
			return out, true
		},
	}
}

// ---------------------------------------------------------------- eed

type cbEED struct {
	num               uint32
	state, class      uint8
	sql               []byte
	status            uint8
	tran              uint16
	msg, server, proc []byte
	line              uint16
}

func cbParseEED(f []string) (e cbEED, ok bool) {
	if len(f) != 10 {
		return e, false
	}
	n, ok0 := cbUint(f[0], 32)
	st, ok1 := cbUint(f[1], 8)
	cl, ok2 := cbUint(f[2], 8)
	sql, ok3 := cbHex(f[3])
	stat, ok4 := cbUint(f[4], 8)
	tr, ok5 := cbUint(f[5], 16)
	msg, ok6 := cbHex(f[6])
	srv, ok7 := cbHex(f[7])
	proc, ok8 := cbHex(f[8])
	ln, ok9 := cbUint(f[9], 16)
	if !(ok0 && ok1 && ok2 && ok3 && ok4 && ok5 && ok6 && ok7 && ok8 && ok9) {
		return e, false
	}
	return cbEED{uint32(n), uint8(st), uint8(cl), sql, uint8(stat), uint16(tr), msg, srv, proc, uint16(ln)}, true
}

func (e cbEED) fields() string {
	return fmt.Sprintf("%d %d %d %s %d %d %s %s %s %d", e.num, e.state, e.class, hx(e.sql), e.status, e.tran,
		hx(e.msg), hx(e.server), hx(e.proc), e.line)
}

func cbEEDCodec() *pkgCodec {
	return &pkgCodec{
		Kind: "eed", Tokens: []byte{byte(tds.TDS_EED)}, ServerOnly: true,
		Show: func(p tds.Package) string {
			e := p.(*tds.EEDPackage)
			return "eed " + cbEED{e.MsgNumber, e.State, e.Class, e.SQLState, uint8(e.Status), e.TranState,
				[]byte(e.Msg), []byte(e.ServerName), []byte(e.ProcName), e.LineNr}.fields()
		},
		Build: func(f []string) (tds.Package, bool) {
			e, ok := cbParseEED(f)
			if !ok {
				return nil, false
			}
			return &tds.EEDPackage{MsgNumber: e.num, State: e.state, Class: e.class, SQLState: e.sql,
				Status: tds.EEDStatus(e.status), TranState: e.tran, Msg: string(e.msg),
				ServerName: string(e.server), ProcName: string(e.proc), LineNr: e.line}, true
		},
		Gen: func(tier string, rng *rand.Rand, emit func(string)) {
			mk := func(a, b, c, d int) cbEED {
				return cbEED{uint32(rng.Uint32()), uint8(rng.Intn(256)), uint8(rng.Intn(256)), cbRandBytes(rng, a),
					uint8(rng.Intn(4)), uint16(rng.Intn(5)), cbText(rng, b), cbText(rng, c), cbText(rng, d), uint16(rng.Intn(65536))}
			}
			emit(cbEED{0, 0, 0, nil, 0, 0, nil, nil, nil, 0}.fields())
			emit(cbEED{4294967295, 255, 255, []byte("ZZZZZ"), 255, 65535, []byte("m"), []byte("s"), []byte("p"), 65535}.fields())
			// every optional part on/off
			for m := 0; m < 16; m++ {
				emit(mk(5*(m&1), 7*(m>>1&1), 3*(m>>2&1), 4*(m>>3&1)).fields())
			}
			// boundary lengths per prefix
			for _, l := range cbLen8 {
				emit(mk(l, 0, 0, 0).fields())
				emit(mk(0, 0, l, 0).fields())
				emit(mk(0, 0, 0, l).fields())
				emit(mk(l, 1, l, l).fields())
			}
			for _, l := range []int{0, 1, 254, 255, 256, 257, 65535 - 16} {
				emit(mk(0, l, 0, 0).fields())
			}
			emit(mk(255, 65535-16-3*255, 255, 255).fields())
			for i := 0; i < cbN(tier, 150, 3000); i++ {
				emit(mk(cbSmallLen(rng), cbSmallLen(rng)*(1+rng.Intn(3)), cbSmallLen(rng), cbSmallLen(rng)).fields())
			}
			// messages ending in line feeds (the server sends some with one; the reader strips exactly one)
			for _, tail := range []string{"\n", "\n\n", "\r\n", "x\n", "\nx"} {
				for _, l := range []int{0, 1, 7, 254} {
					e := mk(5, l, 3, 4)
					e.msg = append(e.msg, tail...)
					emit(e.fields())
				}
			}
		},
		SpecEnc: func(f []string) ([]byte, bool) {
			e, ok := cbParseEED(f)
			if !ok || len(e.sql) > 255 || len(e.msg) > 65535 || len(e.server) > 255 || len(e.proc) > 255 {
				return nil, false
			}
			// TDS 5.0 TDS_EED: Length = number of bytes after the Length field
			var body []byte
			body = append(body, cbLE32(e.num)...)
			body = append(body, e.state, e.class, byte(len(e.sql)))
			body = append(body, e.sql...)
			body = append(body, e.status)
			body = append(body, cbLE16(int(e.tran))...)
			body = append(body, cbLE16(len(e.msg))...)
			body = append(body, e.msg...)
			body = append(body, byte(len(e.server)))
			body = append(body, e.server...)
			body = append(body, byte(len(e.proc)))
			body = append(body, e.proc...)
			body = append(body, cbLE16(int(e.line))...)
			if len(body) > 65535 {
				return nil, false
			}
			out := []byte{0xE5}
			out = append(out, cbLE16(len(body))...)
			return append(out, body...), true
		},
	}
}

// ---------------------------------------------------------------- error

type cbErr struct {
	num               int32
	state, class      uint8
	msg, server, proc []byte
	line              uint16
}

func cbParseErr(f []string) (e cbErr, ok bool) {
	if len(f) != 7 {
		return e, false
	}
	n, ok0 := cbInt(f[0], 32)
	st, ok1 := cbUint(f[1], 8)
	cl, ok2 := cbUint(f[2], 8)
	msg, ok3 := cbHex(f[3])
	srv, ok4 := cbHex(f[4])
	proc, ok5 := cbHex(f[5])
	ln, ok6 := cbUint(f[6], 16)
	if !(ok0 && ok1 && ok2 && ok3 && ok4 && ok5 && ok6) {
		return e, false
	}
	return cbErr{int32(n), uint8(st), uint8(cl), msg, srv, proc, uint16(ln)}, true
}

func (e cbErr) fields() string {
	return fmt.Sprintf("%d %d %d %s %s %s %d", e.num, e.state, e.class, hx(e.msg), hx(e.server), hx(e.proc), e.line)
}

func cbErrorCodec() *pkgCodec {
	return &pkgCodec{
		Kind: "error", Tokens: []byte{byte(tds.TDS_ERROR)}, ServerOnly: true,
		Show: func(p tds.Package) string {
			e := p.(*tds.ErrorPackage)
			return "error " + cbErr{e.ErrorNumber, e.State, e.Class, []byte(e.ErrorMsg), []byte(e.ServerName),
				[]byte(e.ProcName), e.LineNr}.fields()
		},
		Build: func(f []string) (tds.Package, bool) {
			e, ok := cbParseErr(f)
			if !ok {
				return nil, false
			}
			return &tds.ErrorPackage{ErrorNumber: e.num, State: e.state, Class: e.class, ErrorMsg: string(e.msg),
				ServerName: string(e.server), ProcName: string(e.proc), LineNr: e.line}, true
		},
		Gen: func(tier string, rng *rand.Rand, emit func(string)) {
			mk := func(b, c, d int) cbErr {
				return cbErr{int32(rng.Uint32()), uint8(rng.Intn(256)), uint8(rng.Intn(256)), cbText(rng, b), cbText(rng, c),
					cbText(rng, d), uint16(rng.Intn(65536))}
			}
			emit(cbErr{0, 0, 0, nil, nil, nil, 0}.fields())
			emit(cbErr{1, 0, 0, nil, nil, nil, 0}.fields())
			emit(cbErr{-1, 255, 255, []byte("m"), []byte("s"), []byte("p"), 65535}.fields())
			emit(cbErr{-2147483648, 1, 2, []byte("m"), nil, nil, 1}.fields())
			for m := 0; m < 8; m++ {
				emit(mk(7*(m&1), 3*(m>>1&1), 4*(m>>2&1)).fields())
			}
			for _, l := range cbLen8 {
				emit(mk(0, l, 0).fields())
				emit(mk(0, 0, l).fields())
				emit(mk(1, l, l).fields())
			}
			for _, l := range []int{0, 1, 254, 255, 256, 257, 65535 - 12} {
				emit(mk(l, 0, 0).fields())
			}
			emit(mk(65535-12-2*255, 255, 255).fields())
			for i := 0; i < cbN(tier, 150, 3000); i++ {
				emit(mk(cbSmallLen(rng)*(1+rng.Intn(3)), cbSmallLen(rng), cbSmallLen(rng)).fields())
			}
		},
		SpecEnc: func(f []string) ([]byte, bool) {
			e, ok := cbParseErr(f)
			if !ok || len(e.msg) > 65535 || len(e.server) > 255 || len(e.proc) > 255 {
				return nil, false
			}
			// TDS 5.0 TDS_ERROR: Length, MsgNumber, State, Class, MsgLen(2), Msg, ServerLen, Server,
			// ProcLen, Proc, LineNum
			var body []byte
			body = append(body, cbLE32(uint32(e.num))...)
			body = append(body, e.state, e.class)
			body = append(body, cbLE16(len(e.msg))...)
			body = append(body, e.msg...)
			body = append(body, byte(len(e.server)))
			body = append(body, e.server...)
			body = append(body, byte(len(e.proc)))
			body = append(body, e.proc...)
			body = append(body, cbLE16(int(e.line))...)
			if len(body) > 65535 {
				return nil, false
			}
			out := []byte{0xAA}
			out = append(out, cbLE16(len(body))...)
			return append(out, body...), true
		},
	}
}

// ---------------------------------------------------------------- loginack

type cbAck struct {
	length  uint16
	status  uint8
	vers    []byte
	nameLen uint8
	name    []byte
	pvers   []byte
}

func cbParseAck(f []string) (a cbAck, ok bool) {
	if len(f) != 6 {
		return a, false
	}
	l, ok0 := cbUint(f[0], 16)
	st, ok1 := cbUint(f[1], 8)
	v, ok2 := cbHex(f[2])
	nl, ok3 := cbUint(f[3], 8)
	name, ok4 := cbHex(f[4])
	pv, ok5 := cbHex(f[5])
	if !(ok0 && ok1 && ok2 && ok3 && ok4 && ok5) || len(v) != 4 || len(pv) != 4 {
		return a, false
	}
	return cbAck{uint16(l), uint8(st), v, uint8(nl), name, pv}, true
}

func (a cbAck) fields() string {
	return fmt.Sprintf("%d %d %s %d %s %s", a.length, a.status, hx(a.vers), a.nameLen, hx(a.name), hx(a.pvers))
}

func cbLoginAckCodec() *pkgCodec {
	return &pkgCodec{
		Kind: "loginack", Tokens: []byte{byte(tds.TDS_LOGINACK)}, ServerOnly: true,
		Show: func(p tds.Package) string {
			a := p.(*tds.LoginAckPackage)
			return "loginack " + cbAck{a.Length, uint8(a.Status), a.Version.Bytes(), a.NameLength,
				[]byte(a.ProgramName), a.ProgramVersion.Bytes()}.fields()
		},
		Build: func(f []string) (tds.Package, bool) {
			a, ok := cbParseAck(f)
			if !ok {
				return nil, false
			}
			v, err1 := tds.NewVersion(a.vers)
			pv, err2 := tds.NewVersion(a.pvers)
			if err1 != nil || err2 != nil {
				return nil, false
			}
			return &tds.LoginAckPackage{Length: a.length, Status: tds.LoginAckStatus(a.status), Version: v,
				NameLength: a.nameLen, ProgramName: string(a.name), ProgramVersion: pv}, true
		},
		Gen: func(tier string, rng *rand.Rand, emit func(string)) {
			mk := func(st uint8, n int) cbAck {
				return cbAck{uint16(10 + n), st, cbRandBytes(rng, 4), uint8(n), cbText(rng, n), cbRandBytes(rng, 4)}
			}
			for _, st := range []uint8{0, 5, 6, 7, 255} {
				for _, n := range cbLen8 {
					emit(mk(st, n).fields())
				}
			}
			emit(cbAck{10, 5, []byte{5, 0, 0, 0}, 0, nil, []byte{0, 0, 0, 0}}.fields())
			emit(cbAck{13, 5, []byte{5, 0, 0, 0}, 3, []byte("ASE"), []byte{16, 0, 3, 7}}.fields())
			emit(cbAck{265, 7, []byte{255, 255, 255, 255}, 255, cbText(rng, 255), []byte{255, 255, 255, 255}}.fields())
			for i := 0; i < cbN(tier, 150, 3000); i++ {
				emit(mk(uint8(5+rng.Intn(3)), cbSmallLen(rng)).fields())
			}
		},
		SpecEnc: func(f []string) ([]byte, bool) {
			a, ok := cbParseAck(f)
			if !ok || len(a.name) > 255 {
				return nil, false
			}
			// TDS 5.0 TDS_LOGINACK: Length(2) = 10+namelen, Status, TDSVersion(4), NameLen, ProgName, ProgVersion(4)
			out := []byte{0xAD}
			out = append(out, cbLE16(10+len(a.name))...)
			out = append(out, a.status)
			out = append(out, a.vers...)
			out = append(out, byte(len(a.name)))
			out = append(out, a.name...)
			return append(out, a.pvers...), true
		},
	}
}

// ---------------------------------------------------------------- msg

func cbMsgCodec() *pkgCodec {
	parse := func(f []string) (uint8, uint16, bool) {
		if len(f) != 2 {
			return 0, 0, false
		}
		s, ok1 := cbUint(f[0], 8)
		m, ok2 := cbUint(f[1], 16)
		return uint8(s), uint16(m), ok1 && ok2
	}
	return &pkgCodec{
		Kind: "msg", Tokens: []byte{byte(tds.TDS_MSG)},
		Show: func(p tds.Package) string {
			m := p.(*tds.MsgPackage)
			return fmt.Sprintf("msg %d %d", uint8(m.Status), uint16(m.MsgId))
		},
		Build: func(f []string) (tds.Package, bool) {
			s, m, ok := parse(f)
			if !ok {
				return nil, false
			}
			return &tds.MsgPackage{Status: tds.TDSMsgStatus(s), MsgId: tds.TDSMsgId(m)}, true
		},
		Gen: func(tier string, rng *rand.Rand, emit func(string)) {
			for _, s := range []int{0, 1, 2, 255} {
				for _, m := range []int{0, 1, 2, 14, 31, 35, 36, 255, 256, 65535} {
					emit(fmt.Sprintf("%d %d", s, m))
				}
			}
			for i := 0; i < cbN(tier, 100, 2000); i++ {
				emit(fmt.Sprintf("%d %d", rng.Intn(256), rng.Intn(65536)))
			}
		},
		SpecEnc: func(f []string) ([]byte, bool) {
			s, m, ok := parse(f)
			if !ok {
				return nil, false
			}
			// TDS 5.0 TDS_MSG: Length(1)=3, Status(1), MsgId(2)
			return append([]byte{0x65, 3, s}, cbLE16(int(m))...), true
		},
		SpecDec: func(bs []byte) (string, bool) {
			if len(bs) != 5 || bs[0] != 0x65 || bs[1] != 3 {
				return "", false
			}
			return fmt.Sprintf("msg %d %d", bs[2], binary.LittleEndian.Uint16(bs[3:])), true
		},
	}
}

// ---------------------------------------------------------------- envchange

type cbMember struct {
	typ      uint8
	new, old []byte
}

func cbParseMembers(f []string) ([]cbMember, bool) {
	if len(f) != 1 {
		return nil, false
	}
	var ms []cbMember
	for _, e := range cbList(f[0]) {
		p := strings.Split(e, ":")
		if len(p) != 3 {
			return nil, false
		}
		t, ok1 := cbUint(p[0], 8)
		n, ok2 := cbHex(p[1])
		o, ok3 := cbHex(p[2])
		if !ok1 || !ok2 || !ok3 {
			return nil, false
		}
		ms = append(ms, cbMember{uint8(t), n, o})
	}
	return ms, true
}

func cbMembersField(ms []cbMember) string {
	var xs []string
	for _, m := range ms {
		xs = append(xs, fmt.Sprintf("%d:%s:%s", m.typ, hx(m.new), hx(m.old)))
	}
	return cbShowList(xs)
}

func cbEnvMembers(p *tds.EnvChangePackage) []cbMember {
	v := reflect.ValueOf(p).Elem().FieldByName("members")
	var ms []cbMember
	for i := 0; i < v.Len(); i++ {
		m := v.Index(i)
		ms = append(ms, cbMember{uint8(m.FieldByName("Type").Uint()), []byte(m.FieldByName("NewValue").String()),
			[]byte(m.FieldByName("OldValue").String())})
	}
	return ms
}

func cbEnvSetMembers(p *tds.EnvChangePackage, ms []cbMember) {
	fs := make([]tds.EnvChangePackageField, 0, len(ms))
	for _, m := range ms {
		fs = append(fs, tds.EnvChangePackageField{Type: tds.EnvChangeType(m.typ), NewValue: string(m.new), OldValue: string(m.old)})
	}
	v := reflect.ValueOf(p).Elem().FieldByName("members")
	reflect.NewAt(v.Type(), unsafe.Pointer(v.UnsafeAddr())).Elem().Set(reflect.ValueOf(fs))
}

func cbEnvChangeCodec() *pkgCodec {
	return &pkgCodec{
		Kind: "envchange", Tokens: []byte{byte(tds.TDS_ENVCHANGE)}, ServerOnly: true,
		Show: func(p tds.Package) string {
			return "envchange " + cbMembersField(cbEnvMembers(p.(*tds.EnvChangePackage)))
		},
		Build: func(f []string) (tds.Package, bool) {
			ms, ok := cbParseMembers(f)
			if !ok {
				return nil, false
			}
			p := &tds.EnvChangePackage{}
			if len(ms) > 0 {
				cbEnvSetMembers(p, ms)
			}
			return p, true
		},
		Gen: func(tier string, rng *rand.Rand, emit func(string)) {
			mk := func(a, b int) cbMember { return cbMember{uint8(1 + rng.Intn(4)), cbText(rng, a), cbText(rng, b)} }
			emit("-")
			for _, a := range cbLen8 {
				for _, b := range cbLen8 {
					emit(cbMembersField([]cbMember{mk(a, b)}))
					emit(cbMembersField([]cbMember{mk(1, 1), mk(a, b)}))
				}
			}
			emit(cbMembersField([]cbMember{{1, []byte("master"), []byte("tempdb")}, {2, []byte("us_english"), nil},
				{3, []byte("utf8"), []byte("iso_1")}, {4, []byte("2048"), []byte("512")}}))
			emit(cbMembersField([]cbMember{{0, nil, nil}, {255, nil, nil}}))
			// close to the 16 bit limit: 127 members of 513 bytes = 65151, + one of 384 = 65535
			var big []cbMember
			for i := 0; i < 127; i++ {
				big = append(big, mk(255, 255))
			}
			emit(cbMembersField(append(append([]cbMember{}, big...), mk(255, 126))))
			emit(cbMembersField(append(append([]cbMember{}, big...), mk(0, 0))))
			for i := 0; i < cbN(tier, 150, 3000); i++ {
				var ms []cbMember
				for k := rng.Intn(6); k > 0; k-- {
					ms = append(ms, mk(cbSmallLen(rng), cbSmallLen(rng)))
				}
				emit(cbMembersField(ms))
			}
		},
		SpecEnc: func(f []string) ([]byte, bool) {
			ms, ok := cbParseMembers(f)
			if !ok {
				return nil, false
			}
			// TDS 5.0 TDS_ENVCHANGE: Length(2), then per change: Type, NewLen, New, OldLen, Old
			var body []byte
			for _, m := range ms {
				if len(m.new) > 255 || len(m.old) > 255 {
					return nil, false
				}
				body = append(body, m.typ, byte(len(m.new)))
				body = append(body, m.new...)
				body = append(body, byte(len(m.old)))
				body = append(body, m.old...)
			}
			if len(body) > 65535 {
				return nil, false
			}
			out := []byte{0xE3}
			out = append(out, cbLE16(len(body))...)
			return append(out, body...), true
		},
	}
}

// ---------------------------------------------------------------- capability

type cbCapEntry struct {
	typ  uint8
	bits []bool
}

func cbParseCap(f []string) ([]cbCapEntry, bool) {
	if len(f) != 1 {
		return nil, false
	}
	var es []cbCapEntry
	for _, e := range cbList(f[0]) {
		p := strings.Split(e, ":")
		if len(p) != 2 {
			return nil, false
		}
		t, ok1 := cbUint(p[0], 8)
		b, ok2 := cbParseBits(p[1])
		if !ok1 || !ok2 {
			return nil, false
		}
		es = append(es, cbCapEntry{uint8(t), b})
	}
	return es, true
}

// cbCapCanon: later entries of the same type win (Go map store), ascending type
func cbCapCanon(es []cbCapEntry) []cbCapEntry {
	m := map[uint8][]bool{}
	for _, e := range es {
		m[e.typ] = e.bits
	}
	var out []cbCapEntry
	for t, b := range m {
		out = append(out, cbCapEntry{t, b})
	}
	sort.Slice(out, func(i, j int) bool { return out[i].typ < out[j].typ })
	return out
}

func cbCapField(es []cbCapEntry) string {
	var xs []string
	for _, e := range es {
		xs = append(xs, fmt.Sprintf("%d:%s", e.typ, cbBits(e.bits)))
	}
	return cbShowList(xs)
}

func cbCapEntries(p *tds.CapabilityPackage) []cbCapEntry {
	var es []cbCapEntry
	it := reflect.ValueOf(p.Capabilities).MapRange()
	for it.Next() {
		v := it.Value().Elem().Field(0)
		bits := make([]bool, v.Len())
		for i := range bits {
			bits[i] = v.Index(i).Bool()
		}
		es = append(es, cbCapEntry{uint8(it.Key().Uint()), bits})
	}
	sort.Slice(es, func(i, j int) bool { return es[i].typ < es[j].typ })
	return es
}

func cbCapBuild(es []cbCapEntry) *tds.CapabilityPackage {
	p := &tds.CapabilityPackage{}
	mt := reflect.TypeOf(p.Capabilities)
	mv := reflect.MakeMap(mt)
	for _, e := range es {
		nv := reflect.New(mt.Elem().Elem())
		fv := nv.Elem().Field(0)
		reflect.NewAt(fv.Type(), unsafe.Pointer(fv.UnsafeAddr())).Elem().Set(reflect.ValueOf(append([]bool{}, e.bits...)))
		mv.SetMapIndex(reflect.ValueOf(tds.CapabilityType(e.typ)), nv)
	}
	reflect.ValueOf(p).Elem().FieldByName("Capabilities").Set(mv)
	return p
}

// cbMaskBytes: the TDS value mask of a bool list: capability n is bit n%8 of byte len-1-n/8
func cbMaskBytes(bits []bool) []byte {
	l := (len(bits) + 7) / 8
	out := make([]byte, l)
	for n, b := range bits {
		if b {
			out[l-1-n/8] |= 1 << uint(n%8)
		}
	}
	return out
}

func cbMaskEmpty(bits []bool) bool {
	if len(bits) == 1 {
		return true
	}
	for _, b := range bits {
		if b {
			return false
		}
	}
	return true
}

// cbCanonCap runs the real WriteTo and re-emits the entries in ascending type order.
type cbCanonCap struct {
	*tds.CapabilityPackage
	sizes map[uint8]int // type -> number of mask bytes the real writer emits for it
}

func (c cbCanonCap) WriteTo(ch tds.BytesChannel) error {
	q := newQueue()
	if err := c.CapabilityPackage.WriteTo(q); err != nil {
		return err
	}
	bs := queueBytes(q)
	if len(bs) < 3 {
		return ch.WriteBytes(bs)
	}
	type ent struct {
		typ uint8
		raw []byte
	}
	var ents []ent
	rest := bs[3:]
	for len(rest) > 0 {
		n, ok := c.sizes[rest[0]]
		if !ok || len(rest) < 2+n {
			return fmt.Errorf("cbCanonCap: cannot split the written entries")
		}
		ents = append(ents, ent{rest[0], rest[:2+n]})
		rest = rest[2+n:]
	}
	sort.SliceStable(ents, func(i, j int) bool { return ents[i].typ < ents[j].typ })
	out := append([]byte{}, bs[:3]...)
	for _, e := range ents {
		out = append(out, e.raw...)
	}
	return ch.WriteBytes(out)
}

var cbDefaultCaps = []cbCapEntry{{1, make([]bool, 107)}, {2, make([]bool, 74)}, {3, make([]bool, 1)}}

func cbCapabilityCodec() *pkgCodec {
	return &pkgCodec{
		Kind: "capability", Tokens: []byte{byte(tds.TDS_CAPABILITY)},
		Show: func(p tds.Package) string {
			if c, ok := p.(cbCanonCap); ok {
				p = c.CapabilityPackage
			}
			return "capability " + cbCapField(cbCapEntries(p.(*tds.CapabilityPackage)))
		},
		Build: func(f []string) (tds.Package, bool) {
			es, ok := cbParseCap(f)
			if !ok {
				return nil, false
			}
			es = cbCapCanon(es)
			sizes := map[uint8]int{}
			for _, e := range es {
				sizes[e.typ] = (len(e.bits) + 7) / 8
			}
			return cbCanonCap{cbCapBuild(es), sizes}, true
		},
		Gen: func(tier string, rng *rand.Rand, emit func(string)) {
			mask := func(n int, set ...int) []bool {
				b := make([]bool, n)
				for _, s := range set {
					b[s] = true
				}
				return b
			}
			rnd := func(n int) []bool {
				b := make([]bool, n)
				for i := range b {
					b[i] = rng.Intn(2) == 1
				}
				return b
			}
			emit("-")
			emit(cbCapField(cbDefaultCaps))
			// every single capability bit of the request and response masks of NewCapabilityPackage
			for c := 0; c < 107; c++ {
				emit(cbCapField([]cbCapEntry{{1, mask(107, c)}, {2, mask(74)}, {3, mask(1)}}))
			}
			for c := 0; c < 74; c++ {
				emit(cbCapField([]cbCapEntry{{1, mask(107)}, {2, mask(74, c)}, {3, mask(1)}}))
			}
			// mask lengths around the byte boundaries, first / last bit, all bits
			for _, n := range []int{0, 1, 2, 7, 8, 9, 15, 16, 17, 24, 25, 64, 65, 2039, 2040} {
				emit(cbCapField([]cbCapEntry{{1, mask(n)}}))
				if n > 0 {
					emit(cbCapField([]cbCapEntry{{1, mask(n, 0)}}))
					emit(cbCapField([]cbCapEntry{{2, mask(n, n-1)}}))
					all := mask(n)
					for i := range all {
						all[i] = true
					}
					emit(cbCapField([]cbCapEntry{{3, all}}))
				}
			}
			emit(cbCapField([]cbCapEntry{{0, mask(9, 3)}, {255, mask(17, 16)}}))
			for i := 0; i < cbN(tier, 200, 10000); i++ {
				var es []cbCapEntry
				for _, t := range []uint8{1, 2, 3, uint8(rng.Intn(256))} {
					if rng.Intn(4) > 0 {
						es = append(es, cbCapEntry{t, rnd(rng.Intn(130))})
					}
				}
				emit(cbCapField(cbCapCanon(es)))
			}
		},
		SpecEnc: func(f []string) ([]byte, bool) {
			es, ok := cbParseCap(f)
			if !ok {
				return nil, false
			}
			// TDS 5.0 TDS_CAPABILITY: Length(2), then per type: Type, MaskLen, ValueMask; a type
			// without any capability set is left out
			var body []byte
			for _, e := range cbCapCanon(es) {
				if cbMaskEmpty(e.bits) {
					continue
				}
				m := cbMaskBytes(e.bits)
				if len(m) > 255 {
					return nil, false
				}
				body = append(body, e.typ, byte(len(m)))
				body = append(body, m...)
			}
			if len(body) > 65535 {
				return nil, false
			}
			out := []byte{0xE2}
			out = append(out, cbLE16(len(body))...)
			return append(out, body...), true
		},
		SpecDec: func(bs []byte) (string, bool) {
			// independent reader: the set capabilities per type, rendered over the default masks
			if len(bs) < 3 || bs[0] != 0xE2 || int(binary.LittleEndian.Uint16(bs[1:])) != len(bs)-3 {
				return "", false
			}
			m := map[uint8][]bool{1: make([]bool, 107), 2: make([]bool, 74), 3: make([]bool, 1)}
			rest := bs[3:]
			for len(rest) > 0 {
				if len(rest) < 2 || len(rest) < 2+int(rest[1]) {
					return "", false
				}
				l := int(rest[1])
				bits := make([]bool, 8*l+1)
				for n := 0; n < 8*l; n++ {
					bits[n] = rest[2+l-1-n/8]>>uint(n%8)&1 == 1
				}
				m[rest[0]] = bits
				rest = rest[2+l:]
			}
			var es []cbCapEntry
			for t, b := range m {
				es = append(es, cbCapEntry{t, b})
			}
			return "capability " + cbCapField(cbCapCanon(es)), true
		},
	}
}

// ---------------------------------------------------------------- language

func cbLanguageCodec() *pkgCodec {
	parse := func(f []string) (int, []byte, bool) {
		if len(f) != 2 {
			return 0, nil, false
		}
		s, ok1 := cbUint(f[0], 31)
		c, ok2 := cbHex(f[1])
		return int(s), c, ok1 && ok2
	}
	return &pkgCodec{
		Kind: "language", Tokens: []byte{byte(tds.TDS_LANGUAGE)}, ClientOnly: true,
		Show: func(p tds.Package) string {
			l := p.(*tds.LanguagePackage)
			return fmt.Sprintf("language %d %s", int(l.Status), hx([]byte(l.Cmd)))
		},
		Build: func(f []string) (tds.Package, bool) {
			s, c, ok := parse(f)
			if !ok {
				return nil, false
			}
			return &tds.LanguagePackage{Status: tds.LanguageStatus(s), Cmd: string(c)}, true
		},
		Gen: func(tier string, rng *rand.Rand, emit func(string)) {
			for _, s := range []int{0, 1, 4, 5, 255} {
				for _, n := range []int{0, 1, 254, 255, 256, 257, 65535, 65536, 70000} {
					emit(fmt.Sprintf("%d %s", s, hx(cbText(rng, n))))
				}
			}
			emit(fmt.Sprintf("0 %s", hx([]byte("select 1"))))
			for i := 0; i < cbN(tier, 150, 3000); i++ {
				emit(fmt.Sprintf("%d %s", []int{0, 1, 4, 5}[rng.Intn(4)], hx(cbText(rng, cbSmallLen(rng)*(1+rng.Intn(4))))))
			}
		},
		SpecDec: func(bs []byte) (string, bool) {
			// TDS 5.0 TDS_LANGUAGE: Length(4) = 1 + len(text), Status(1), Text
			if len(bs) < 6 || bs[0] != 0x21 {
				return "", false
			}
			l := int(binary.LittleEndian.Uint32(bs[1:]))
			if l < 1 || l != len(bs)-5 {
				return "", false
			}
			return fmt.Sprintf("language %d %s", bs[5], hx(bs[6:])), true
		},
	}
}

// ---------------------------------------------------------------- returnstatus

func cbReturnStatusCodec() *pkgCodec {
	return &pkgCodec{
		Kind: "returnstatus", Tokens: []byte{byte(tds.TDS_RETURNSTATUS)}, ServerOnly: true,
		Show: func(p tds.Package) string {
			return fmt.Sprintf("returnstatus %d", p.(*tds.ReturnStatusPackage).ReturnValue)
		},
		Build: func(f []string) (tds.Package, bool) {
			if len(f) != 1 {
				return nil, false
			}
			v, ok := cbInt(f[0], 32)
			if !ok {
				return nil, false
			}
			return &tds.ReturnStatusPackage{ReturnValue: int32(v)}, true
		},
		Gen: func(tier string, rng *rand.Rand, emit func(string)) {
			for _, v := range []int64{0, 1, -1, 2, -2, 127, 128, 255, 256, -256, 65535, 65536, 2147483647, -2147483648, -2147483647} {
				emit(fmt.Sprintf("%d", v))
			}
			for i := 0; i < cbN(tier, 100, 2000); i++ {
				emit(fmt.Sprintf("%d", int32(rng.Uint32())))
			}
		},
		SpecEnc: func(f []string) ([]byte, bool) {
			if len(f) != 1 {
				return nil, false
			}
			v, ok := cbInt(f[0], 32)
			if !ok {
				return nil, false
			}
			// TDS 5.0 TDS_RETURNSTATUS: token, Value(4)
			return append([]byte{0x79}, cbLE32(uint32(int32(v)))...), true
		},
	}
}

// ---------------------------------------------------------------- logout

func cbLogoutCodec() *pkgCodec {
	return &pkgCodec{
		Kind: "logout", Tokens: []byte{byte(tds.TDS_LOGOUT)}, ClientOnly: true,
		Show: func(p tds.Package) string {
			return fmt.Sprintf("logout %d", p.(*tds.LogoutPackage).Options)
		},
		Build: func(f []string) (tds.Package, bool) {
			if len(f) != 1 {
				return nil, false
			}
			v, ok := cbUint(f[0], 8)
			if !ok {
				return nil, false
			}
			return &tds.LogoutPackage{Options: uint8(v)}, true
		},
		Gen: func(tier string, rng *rand.Rand, emit func(string)) {
			// the only option value the library knows is 0
			emit("0")
		},
		SpecDec: func(bs []byte) (string, bool) {
			// TDS 5.0 TDS_LOGOUT: token, Options(1)
			if len(bs) != 2 || bs[0] != 0x71 {
				return "", false
			}
			return fmt.Sprintf("logout %d", bs[1]), true
		},
	}
}

// ---------------------------------------------------------------- normalisations

// basicNorm[kind](fields) = the fields `pkg dec` shows for the encoding of `fields` (nil = identity)
var basicNorm = map[string]func(f []string) []string{
	"eed": func(f []string) []string {
		e, ok := cbParseEED(f)
		if !ok {
			return f
		}
		if n := len(e.msg); n > 0 && e.msg[n-1] == '\n' {
			e.msg = e.msg[:n-1]
		}
		return strings.Fields(e.fields())
	},
	"loginack": func(f []string) []string {
		a, ok := cbParseAck(f)
		if !ok {
			return f
		}
		a.length, a.nameLen = uint16(10+len(a.name)), uint8(len(a.name))
		return strings.Fields(a.fields())
	},
	"capability": func(f []string) []string {
		es, ok := cbParseCap(f)
		if !ok {
			return f
		}
		m := map[uint8][]bool{}
		for _, d := range cbDefaultCaps {
			m[d.typ] = d.bits
		}
		for _, e := range cbCapCanon(es) {
			if cbMaskEmpty(e.bits) {
				continue
			}
			padded := make([]bool, 8*((len(e.bits)+7)/8)+1)
			copy(padded, e.bits)
			m[e.typ] = padded
		}
		var out []cbCapEntry
		for t, b := range m {
			out = append(out, cbCapEntry{t, b})
		}
		return []string{cbCapField(cbCapCanon(out))}
	},
}

func init() {
	registerCodec(cbDoneCodec("done", byte(tds.TDS_DONE)))
	registerCodec(cbDoneCodec("doneproc", byte(tds.TDS_DONEPROC)))
	registerCodec(cbDoneCodec("doneinproc", byte(tds.TDS_DONEINPROC)))
	registerCodec(cbEEDCodec())
	registerCodec(cbErrorCodec())
	registerCodec(cbLoginAckCodec())
	registerCodec(cbMsgCodec())
	registerCodec(cbEnvChangeCodec())
	registerCodec(cbCapabilityCodec())
	registerCodec(cbLanguageCodec())
	registerCodec(cbReturnStatusCodec())
	registerCodec(cbLogoutCodec())
}
