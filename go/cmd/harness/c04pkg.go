package main

// The package leg of C04: "the same holds when the value travels inside a parameter or row package
// together with its format". The value-level check (c04.go) is extended with the PARAMS / ROW cases of the
// fields codec registry: `pkg rt params …` (real WriteTo of the PARAMS package after its PARAMFMT, then the
// real ReadFrom), `pkg spec row …` / `pkg spec params …` (reference-encoded rows through the real ReadFrom);
// judged by the oracle of the package codecs (fields must come back unchanged). BLOB columns are left out
// (the property excludes BLOB).

import (
	"math/rand"
	"strings"
)

func init() {
	p := registry["C04"]
	if p == nil {
		return
	}
	gen, impl, oracle, key := p.Gen, p.Impl, p.Oracle, p.FindingKey
	p.Gen = func(tier string, rng *rand.Rand, emit func(Case)) {
		gen(tier, rng, emit)
		lastOfFormat := map[string]string{}
		nSets := 0
		for _, kind := range []string{"params", "row"} {
			kind := kind
			c := codecRegistry[kind]
			if c == nil || c.Gen == nil {
				continue
			}
			c.Gen(tier, rand.New(rand.NewSource(rng.Int63())), func(fields string) {
				if ffIsBlobCase("pkg spec " + kind + " " + fields) {
					return
				}
				if c.Build != nil {
					emit(Case{Line: "pkg enc " + kind + " " + fields, Kind: "package-leg:enc:" + kind})
					emit(Case{Line: "pkg specdec " + kind + " " + fields, Kind: "package-leg:specdec:" + kind})
				}
				if c.SpecEnc != nil {
					emit(Case{Line: "pkg spec " + kind + " " + fields, Kind: "package-leg:spec:" + kind})
					// result sets: rows of one format with different values, read one after the other
					if c.CtxFor != nil {
						if ctx := string(c.CtxFor(strings.Fields(fields))); ctx != "" {
							if prev, ok := lastOfFormat[kind+ctx]; ok && prev != fields && nSets < 4000 {
								nSets++
								emit(Case{Line: "pkg rows " + kind + " " + prev + " ;; " + fields, Kind: "package-leg:rows:" + kind})
								if nSets%3 == 0 {
									emit(Case{Line: "pkg rows " + kind + " " + fields + " ;; " + prev + " ;; " + fields, Kind: "package-leg:rows:" + kind})
								}
							}
							lastOfFormat[kind+ctx] = fields
						}
					}
				}
			})
		}
	}
	p.Impl = func(line string) string {
		if strings.HasPrefix(line, "pkg ") {
			return pkgImpl(line)
		}
		return impl(line)
	}
	p.Oracle = func(line, out string) string {
		if strings.HasPrefix(line, "pkg rows ") {
			f := strings.Fields(line)
			c := codecRegistry[f[2]]
			if c == nil {
				return ""
			}
			if out == "panic" || out == "timeout" {
				return "no codec panics or hangs on a valid package"
			}
			wireNorms()
			var want []string
			cur := []string{}
			for _, t := range append(f[3:], ";;") {
				if t == ";;" {
					want = append(want, strings.Join(normFields(c, cur), " "))
					cur = []string{}
					continue
				}
				cur = append(cur, t)
			}
			if out != "ok "+strings.Join(want, " ;; ") {
				return "every row of a result set keeps the values it was sent with (read one after the other, looked at afterwards)"
			}
			return ""
		}
		if strings.HasPrefix(line, "pkg ") {
			return c06Oracle(line, out)
		}
		return oracle(line, out)
	}
	p.FindingKey = func(line, out, clause string) string {
		if strings.HasPrefix(line, "pkg ") {
			f := strings.Fields(line)
			return "package-leg:" + f[1] + ":" + f[2] + ":" + clause
		}
		return key(line, out, clause)
	}
	noModel := p.NoModel
	p.NoModel = func(line string) bool {
		if strings.HasPrefix(line, "pkg spec ") || strings.HasPrefix(line, "pkg specdec ") || strings.HasPrefix(line, "pkg rows ") {
			return true
		}
		return noModel != nil && noModel(line)
	}
	p.Rule += " Package leg: the PARAMS / ROW cases of the fields codec registry (every data type of the domain as a column, NULL and non-NULL, with its format): real WriteTo vs the Lean encoder, reference-encoded PARAMS/ROW through the real ReadFrom after the real ReadFrom of the format, real WriteTo through the independent decoder; the values must come back unchanged."
	for i, a := range p.Assumptions {
		if strings.HasPrefix(a, "the package leg of C04") {
			p.Assumptions[i] = "the package leg of C04 uses the cases and the oracle of the package codec machinery (c06.go, codec_fields.go)"
		}
	}
}
