package main

// C18 — pooled names are unique among concurrent holders (namepool.Pool / Name).
//
// Line kinds (model keyword `pool`):
//
//   pool hist <formathex> <ev>…   a history RECORDED from the real pool under real goroutines
//   pool neg  <formathex> <ev>…   a deliberately corrupted history (negative control): both
//                                 validators must answer `violation …`
//   pool syn  <formathex> <ev>…   a synthetic / malformed history: correspondence only, no expectation
//   pool api  <formathex> <op>…   a sequential script that Impl executes on the real pool
//   pool racecheck …, pool nilrecv-race …   results of the race-detector child (thorough tier, no model)
//
// Events: a:<h>:<id>:<texthex> (logged AFTER Acquire returned: handle, ID(), Name()),
//         r:<h> (logged BEFORE Release is called), c:<h>:<texthex> (logged after Release returned:
//         Name() of the released object, must be empty), rn (pool.Release(nil) returned), g (runtime.GC()),
//         x (a pool call panicked in the recording goroutine, which then stopped).
//
// Why the log order is sound although the pool calls are not serialised: only the append to the log
// is under a mutex, never the pool call. A handle is owned by one goroutine at a time (hand-over
// through a channel). The `a` event is appended after Acquire has returned and the `r` event before
// Release is called, so the interval [a-log, r-log] in which the log shows the id as live is contained
// in the interval in which the Name really is held. Two overlapping log intervals with the same id
// therefore prove two simultaneous holders; and if the pool is correct (real hold intervals of one id
// never overlap) the log intervals never overlap either, whatever order the fresh ids are logged in.
// The validators therefore do not require fresh ids to appear in increasing order.
//
// The model is nondeterministic (which id Acquire returns), so a case line is not an input from which
// the answer is computed: Gen runs the REAL pool and the line is what it did; Impl re-validates the
// line with the Go oracle below (set of live ids, fmt.Sprintf for the text) and the Lean driver
// validates it against the model. Gen + Impl together exercise the real code; Impl on a corpus line
// only validates it. `api` lines are executed by Impl on the real pool.

import (
	"bytes"
	"fmt"
	"math/rand"
	"os"
	"os/exec"
	"path/filepath"
	"runtime"
	"strconv"
	"strings"
	"sync"
	"sync/atomic"
	"time"

	"github.com/SAP/go-dblib/namepool"
)

// ---------------------------------------------------------------- token helpers (mirror Dblib.NamePool)

func c18Tokens(line string) []string {
	var out []string
	for _, t := range strings.Split(line, " ") {
		if t != "" {
			out = append(out, t)
		}
	}
	return out
}

func c18ParseU64(s string) (uint64, bool) {
	if len(s) == 0 || len(s) > 20 {
		return 0, false
	}
	for i := 0; i < len(s); i++ {
		if s[i] < '0' || s[i] > '9' {
			return 0, false
		}
	}
	n, err := strconv.ParseUint(s, 10, 64)
	return n, err == nil
}

func c18HexVal(c byte) (byte, bool) {
	switch {
	case c >= '0' && c <= '9':
		return c - '0', true
	case c >= 'a' && c <= 'f':
		return c - 'a' + 10, true
	case c >= 'A' && c <= 'F':
		return c - 'A' + 10, true
	}
	return 0, false
}

func c18FromHex(s string) ([]byte, bool) {
	if s == "-" {
		return []byte{}, true
	}
	if len(s)%2 != 0 {
		return nil, false
	}
	out := make([]byte, 0, len(s)/2)
	for i := 0; i < len(s); i += 2 {
		a, ok1 := c18HexVal(s[i])
		b, ok2 := c18HexVal(s[i+1])
		if !ok1 || !ok2 {
			return nil, false
		}
		out = append(out, a*16+b)
	}
	return out, true
}

func c18ToHex(b []byte) string {
	if len(b) == 0 {
		return "-"
	}
	return fmt.Sprintf("%x", b)
}

// formats inside the model: literal bytes, %% and %d only
func c18FormatSupported(f []byte) bool {
	for i := 0; i < len(f); i++ {
		if f[i] == '%' {
			if i+1 >= len(f) || (f[i+1] != '%' && f[i+1] != 'd') {
				return false
			}
			i++
		}
	}
	return true
}

// ---------------------------------------------------------------- the Go oracle for histories

type c18Event struct {
	kind byte // a r c n g
	h    uint64
	id   uint64
	text []byte
}

func c18ParseEvent(tok string) (c18Event, bool) {
	p := strings.Split(tok, ":")
	switch {
	case len(p) == 4 && p[0] == "a":
		h, ok1 := c18ParseU64(p[1])
		id, ok2 := c18ParseU64(p[2])
		t, ok3 := c18FromHex(p[3])
		return c18Event{kind: 'a', h: h, id: id, text: t}, ok1 && ok2 && ok3
	case len(p) == 2 && p[0] == "r":
		h, ok := c18ParseU64(p[1])
		return c18Event{kind: 'r', h: h}, ok
	case len(p) == 3 && p[0] == "c":
		h, ok1 := c18ParseU64(p[1])
		t, ok2 := c18FromHex(p[2])
		return c18Event{kind: 'c', h: h, text: t}, ok1 && ok2
	case len(p) == 1 && p[0] == "rn":
		return c18Event{kind: 'n'}, true
	case len(p) == 1 && p[0] == "g":
		return c18Event{kind: 'g'}, true
	case len(p) == 1 && p[0] == "x":
		return c18Event{kind: 'x'}, true
	}
	return c18Event{}, false
}

// c18Validate is the property oracle on a history: the set of live ids.
func c18Validate(format string, evs []c18Event) string {
	liveByID := map[uint64]uint64{} // id -> handle
	liveByH := map[uint64]uint64{}  // handle -> id
	seen := map[uint64]bool{}
	maxLive, reused := 0, 0
	for i, e := range evs {
		switch e.kind {
		case 'a':
			if e.id == 0 {
				return fmt.Sprintf("violation %d zero-id", i)
			}
			if _, ok := liveByH[e.h]; ok {
				return fmt.Sprintf("violation %d handle-in-use", i)
			}
			if _, ok := liveByID[e.id]; ok {
				return fmt.Sprintf("violation %d dup-id", i)
			}
			if string(e.text) != fmt.Sprintf(format, e.id) {
				return fmt.Sprintf("violation %d bad-text", i)
			}
			liveByID[e.id] = e.h
			liveByH[e.h] = e.id
			if seen[e.id] {
				reused++
			}
			seen[e.id] = true
			if len(liveByH) > maxLive {
				maxLive = len(liveByH)
			}
		case 'r':
			if id, ok := liveByH[e.h]; ok {
				delete(liveByH, e.h)
				delete(liveByID, id)
			}
		case 'c':
			if _, ok := liveByH[e.h]; ok {
				return fmt.Sprintf("violation %d not-released", i)
			}
			if len(e.text) != 0 {
				return fmt.Sprintf("violation %d not-cleared", i)
			}
		case 'x':
			return fmt.Sprintf("violation %d panic", i)
		}
	}
	return fmt.Sprintf("ok %d %d %d", maxLive, len(seen), reused)
}

// ---------------------------------------------------------------- api scripts on the real pool

func c18Panics(f func()) (p bool) {
	defer func() {
		if recover() != nil {
			p = true
		}
	}()
	f()
	return false
}

// c18Text: the text of a name as its holder may read it — through Name(), through String(), or by printing the
// name (fmt uses String()); the three must be one text, otherwise the differing one is appended (and no
// expectation matches)
func c18Text(n *namepool.Name) string {
	a := n.Name()
	if b := n.String(); b != a {
		return a + "|String()=" + b
	}
	if c := fmt.Sprintf("%v", n); c != a {
		return a + "|printed=" + c
	}
	return a
}

func c18Obs(n *namepool.Name, format string) string {
	if n == nil {
		return "nil"
	}
	name := c18Text(n)
	var id uint64
	idPanics := c18Panics(func() { id = n.ID() })
	switch {
	case name == "" && idPanics:
		return "cleared"
	case name != "" && !idPanics:
		if name != fmt.Sprintf(format, id) {
			return "live!text"
		}
		return "live"
	}
	return "weird!"
}

type c18ScriptOp struct {
	c byte
	h uint64
}

func c18ParseScriptOp(tok string) (c18ScriptOp, bool) {
	if tok == "N" || tok == "G" {
		return c18ScriptOp{c: tok[0]}, true
	}
	if len(tok) < 2 || !strings.ContainsRune("AZQPMIS", rune(tok[0])) {
		return c18ScriptOp{}, false
	}
	h, ok := c18ParseU64(tok[1:])
	return c18ScriptOp{c: tok[0], h: h}, ok
}

func c18RunScript(format string, ops []c18ScriptOp) string {
	p := namepool.Pool(format)
	vars := map[uint64]*namepool.Name{}
	live := func(n *namepool.Name) bool {
		return n != nil && !c18Panics(func() { _ = n.ID() })
	}
	out := []string{"ok"}
	for _, op := range ops {
		n := vars[op.h]
		switch op.c {
		case 'A', 'Z', 'Q':
			if live(n) {
				return "bad-op"
			}
			switch op.c {
			case 'A':
				m := p.Acquire()
				tok := "a"
				id := m.ID()
				if id == 0 {
					tok = "a!zero"
				} else if c18Text(m) != fmt.Sprintf(format, id) {
					tok = "a!text"
				} else {
					for _, o := range vars {
						if live(o) && o.ID() == id {
							tok = "a!dup"
						}
					}
				}
				vars[op.h] = m
				out = append(out, tok)
			case 'Z':
				vars[op.h] = &namepool.Name{}
				out = append(out, "z")
			case 'Q':
				delete(vars, op.h)
				out = append(out, "q")
			}
		case 'P':
			if c18Panics(func() { p.Release(n) }) {
				return strings.Join(append(out, "panic"), " ")
			}
			out = append(out, "p:"+c18Obs(n, format))
		case 'M':
			if n == nil {
				// Go specification: evaluating name.pool on a nil *Name panics. gc 1.21–1.24 without
				// -race / -N -l elides that nil check (the loaded value is dead), so both outcomes are reported.
				if c18Panics(func() { n.Release() }) {
					return strings.Join(append(out, "panic-nilrecv"), " ")
				}
				return strings.Join(append(out, "ok-nilrecv"), " ")
			}
			if c18Panics(func() { n.Release() }) {
				return strings.Join(append(out, "panic"), " ")
			}
			out = append(out, "m:"+c18Obs(n, format))
		case 'N':
			if c18Panics(func() { p.Release(nil) }) {
				return strings.Join(append(out, "panic"), " ")
			}
			out = append(out, "n")
		case 'I':
			if c18Panics(func() { _ = n.ID() }) {
				return strings.Join(append(out, "panic"), " ")
			}
			out = append(out, "i")
		case 'S':
			var s string
			if c18Panics(func() { s = n.Name() }) {
				return strings.Join(append(out, "panic"), " ")
			}
			switch {
			case s == "":
				out = append(out, "s:empty")
			case live(n) && s == fmt.Sprintf(format, n.ID()):
				out = append(out, "s:text")
			default:
				out = append(out, "s:text!bad")
			}
		case 'G':
			runtime.GC()
			runtime.GC()
			out = append(out, "g")
		}
	}
	return strings.Join(out, " ")
}

// ---------------------------------------------------------------- Impl

func c18Impl(line string) string {
	t := c18Tokens(line)
	if len(t) < 2 || t[0] != "pool" {
		return "bad-op"
	}
	switch t[1] {
	case "racecheck":
		if len(t) > 2 {
			return "race-" + t[2]
		}
		return "bad-op"
	case "nilrecv-race":
		if len(t) > 2 {
			return "nilrecv-race-" + t[2]
		}
		return "bad-op"
	}
	if len(t) < 3 {
		return "bad-op"
	}
	format, okf := c18FromHex(t[2])
	switch t[1] {
	case "hist", "neg", "syn":
		evs := make([]c18Event, 0, len(t)-3)
		okAll := okf
		for _, tok := range t[3:] {
			e, ok := c18ParseEvent(tok)
			okAll = okAll && ok
			evs = append(evs, e)
		}
		if !okAll {
			return "bad-op"
		}
		if !c18FormatSupported(format) {
			return "unsupported-format"
		}
		return c18Validate(string(format), evs)
	case "api":
		ops := make([]c18ScriptOp, 0, len(t)-3)
		okAll := okf
		for _, tok := range t[3:] {
			o, ok := c18ParseScriptOp(tok)
			okAll = okAll && ok
			ops = append(ops, o)
		}
		if !okAll {
			return "bad-op"
		}
		if !c18FormatSupported(format) {
			return "unsupported-format"
		}
		return c18RunScript(string(format), ops)
	}
	return "bad-op"
}

// ---------------------------------------------------------------- recording a history from the real pool

type c18Item struct {
	n *namepool.Name
	h uint64
}

type c18Recorder struct {
	mu    sync.Mutex
	evs   []string
	nextH uint64
}

func (r *c18Recorder) acq(n *namepool.Name) uint64 {
	id, text := n.ID(), c18Text(n) // read by the owner, after Acquire returned
	r.mu.Lock()
	h := r.nextH
	r.nextH++
	r.evs = append(r.evs, fmt.Sprintf("a:%d:%d:%s", h, id, c18ToHex([]byte(text))))
	r.mu.Unlock()
	return h
}

func (r *c18Recorder) log(ev string) {
	r.mu.Lock()
	r.evs = append(r.evs, ev)
	r.mu.Unlock()
}

// c18Record runs g goroutines with nops operations each on one real pool and returns the log.
// churn: the goroutines mostly acquire and hand back the name they acquired last (the newest ids), few other
// operations and no yields: many releases of the newest id race with Acquires that find the pool empty.
func c18Record(format string, g, nops, gcBudget int, churn bool, rng *rand.Rand) []string {
	p := namepool.Pool(format)
	rec := &c18Recorder{}
	xfer := make(chan c18Item, 8)
	var gcLeft int32 = int32(gcBudget)
	var wg sync.WaitGroup
	seeds := make([]int64, g)
	for i := range seeds {
		seeds[i] = rng.Int63()
	}
	releaseAll := rng.Intn(2) == 0
	start := make(chan struct{})
	release := func(lr *rand.Rand, it c18Item) {
		rec.log(fmt.Sprintf("r:%d", it.h)) // BEFORE the call
		if lr.Intn(2) == 0 {
			p.Release(it.n)
		} else {
			it.n.Release()
		}
		rec.log(fmt.Sprintf("c:%d:%s", it.h, c18ToHex([]byte(c18Text(it.n)))))
	}
	for w := 0; w < g; w++ {
		wg.Add(1)
		go func(seed int64) {
			defer wg.Done()
			defer func() { // a panicking pool call is part of the record, it must not kill the harness
				if recover() != nil {
					rec.log("x")
				}
			}()
			lr := rand.New(rand.NewSource(seed))
			var live, dead []c18Item
			<-start
			for i := 0; i < nops; i++ {
				r := lr.Intn(100)
				if churn {
					// 0..37 acquire, 38..61 release (the newest), 78..80 GC; the rest is remapped
					switch {
					case r < 50:
						r = 0
					case r < 94:
						r = 50
						if len(live) > 0 {
							live[lr.Intn(len(live))], live[len(live)-1] = live[len(live)-1], live[lr.Intn(len(live))]
							if lr.Intn(4) != 0 { // mostly the most recently acquired one
								newest := 0
								for j := range live {
									if live[j].h > live[newest].h {
										newest = j
									}
								}
								live[newest], live[len(live)-1] = live[len(live)-1], live[newest]
							}
						}
					default:
						r = 79
					}
				}
				switch {
				case r < 38 || (len(live) == 0 && r < 62):
					n := p.Acquire()
					live = append(live, c18Item{n, rec.acq(n)})
				case r < 62:
					k := lr.Intn(len(live))
					if churn {
						k = len(live) - 1
					}
					it := live[k]
					live = append(live[:k], live[k+1:]...)
					release(lr, it)
					dead = append(dead, it)
				case r < 74:
					if len(dead) > 0 { // double (triple, …) release of a cleared Name
						release(lr, dead[lr.Intn(len(dead))])
					}
				case r < 78:
					p.Release(nil)
					rec.log("rn")
				case r < 81:
					if atomic.AddInt32(&gcLeft, -1) >= 0 {
						runtime.GC()
						rec.log("g")
						if lr.Intn(2) == 0 { // twice in a row empties the victim cache of sync.Pool
							runtime.GC()
							rec.log("g")
						}
					}
				case r < 91:
					if len(live) > 0 {
						k := lr.Intn(len(live))
						select {
						case xfer <- live[k]:
							live = append(live[:k], live[k+1:]...)
						default:
						}
					}
				default:
					select {
					case it := <-xfer:
						live = append(live, it)
					default:
					}
				}
				if !churn && lr.Intn(3) == 0 {
					runtime.Gosched()
				}
			}
			if releaseAll {
				for _, it := range live {
					release(lr, it)
				}
			}
		}(seeds[w])
	}
	close(start)
	wg.Wait()
	close(xfer)
	lr := rand.New(rand.NewSource(rng.Int63()))
	func() {
		defer func() {
			if recover() != nil {
				rec.log("x")
			}
		}()
		for it := range xfer {
			release(lr, it)
		}
	}()
	return rec.evs
}

var c18Formats = []string{"%d", "name_%d", "a%db", "%d%%", "100%%_%d_x", "no verb", "", "%d-%d", "stmt %d ☃"}

func c18RandomFormat(rng *rand.Rand) string {
	if rng.Intn(3) > 0 {
		return c18Formats[rng.Intn(3)]
	}
	if rng.Intn(6) == 0 {
		// long formats: the text is the format applied to the id at every length (limits of one-byte
		// and two-byte length fields are where a cap would sit)
		n := []int{250, 253, 254, 255, 256, 257, 300, 1000}[rng.Intn(8)]
		return strings.Repeat("n", n) + "%d"
	}
	if rng.Intn(2) == 0 {
		return c18Formats[rng.Intn(len(c18Formats))]
	}
	lit := func() string {
		n := rng.Intn(5)
		b := make([]byte, 0, n)
		for i := 0; i < n; i++ {
			c := byte(rng.Intn(256))
			if c == '%' {
				b = append(b, '%') // escaped percent
			}
			b = append(b, c)
		}
		return string(b)
	}
	return lit() + "%d" + lit()
}

func c18HistLine(kind, format string, evs []string) string {
	return "pool " + kind + " " + c18ToHex([]byte(format)) + " " + strings.Join(evs, " ")
}

// negative controls: corruptions of a recorded history that a correct checker must reject
func c18Corrupt(format string, evs []string, rng *rand.Rand, emit func(Case)) {
	var acqs, clrs []int
	var maxH uint64
	for i, e := range evs {
		if ev, ok := c18ParseEvent(e); ok {
			if ev.kind == 'a' {
				acqs = append(acqs, i)
			}
			if ev.kind == 'c' {
				clrs = append(clrs, i)
			}
			if ev.h > maxH {
				maxH = ev.h
			}
		}
	}
	if len(acqs) == 0 {
		return
	}
	ins := func(at int, ev string) []string {
		out := append([]string{}, evs[:at]...)
		out = append(out, ev)
		return append(out, evs[at:]...)
	}
	i := acqs[rng.Intn(len(acqs))]
	a, _ := c18ParseEvent(evs[i])
	// the same id handed to a second holder while the first still holds it
	emit(Case{Line: c18HistLine("neg", format, ins(i+1, fmt.Sprintf("a:%d:%d:%s", maxH+1, a.id, c18ToHex(a.text)))), Kind: "neg-dup-id"})
	// id zero
	at := rng.Intn(len(evs) + 1)
	emit(Case{Line: c18HistLine("neg", format, ins(at, fmt.Sprintf("a:%d:0:%s", maxH+1, c18ToHex([]byte(fmt.Sprintf(format, uint64(0))))))), Kind: "neg-zero-id"})
	// text of another id
	bad := append([]string{}, evs...)
	bad[i] = fmt.Sprintf("a:%d:%d:%s", a.h, a.id, c18ToHex([]byte(fmt.Sprintf(format, a.id+1))))
	emit(Case{Line: c18HistLine("neg", format, bad), Kind: "neg-bad-text"})
	// a second Name object number reused while live
	emit(Case{Line: c18HistLine("neg", format, ins(i+1, fmt.Sprintf("a:%d:%d:%s", a.h, a.id+1000000, c18ToHex([]byte(fmt.Sprintf(format, a.id+1000000)))))), Kind: "neg-handle-in-use"})
	if len(clrs) > 0 {
		j := clrs[rng.Intn(len(clrs))]
		c, _ := c18ParseEvent(evs[j])
		bad := append([]string{}, evs...)
		bad[j] = fmt.Sprintf("c:%d:%s", c.h, c18ToHex([]byte(fmt.Sprintf(format, uint64(7)))))
		emit(Case{Line: c18HistLine("neg", format, bad), Kind: "neg-not-cleared"})
	}
	// "cleared" reported for a Name that was never released
	emit(Case{Line: c18HistLine("neg", format, ins(i+1, fmt.Sprintf("c:%d:-", a.h))), Kind: "neg-not-released"})
}

func c18RandomScript(rng *rand.Rand) []string {
	n := 1 + rng.Intn(24)
	ops := make([]string, 0, n)
	state := map[int]int{} // 0 nil, 1 cleared/zero object, 2 live
	for i := 0; i < n; i++ {
		h := rng.Intn(4)
		r := rng.Intn(100)
		switch {
		case r < 30:
			if state[h] == 2 {
				ops = append(ops, fmt.Sprintf("P%d", h))
				state[h] = 1
			} else {
				ops = append(ops, fmt.Sprintf("A%d", h))
				state[h] = 2
			}
		case r < 48:
			ops = append(ops, fmt.Sprintf("P%d", h))
			if state[h] == 2 {
				state[h] = 1
			}
		case r < 64:
			if state[h] == 0 && rng.Intn(4) > 0 {
				h = rng.Intn(4) // the nil-receiver call ends a script: keep it rarer
			}
			ops = append(ops, fmt.Sprintf("M%d", h))
			if state[h] == 2 {
				state[h] = 1
			}
		case r < 70:
			ops = append(ops, "N")
		case r < 76:
			if state[h] != 2 {
				ops = append(ops, fmt.Sprintf("Z%d", h))
				state[h] = 1
			}
		case r < 80:
			if state[h] != 2 {
				ops = append(ops, fmt.Sprintf("Q%d", h))
				state[h] = 0
			}
		case r < 88:
			if state[h] == 2 || rng.Intn(6) == 0 {
				ops = append(ops, fmt.Sprintf("I%d", h))
			}
		case r < 96:
			if state[h] != 0 || rng.Intn(6) == 0 {
				ops = append(ops, fmt.Sprintf("S%d", h))
			}
		default:
			ops = append(ops, "G")
		}
	}
	return ops
}

// c18GenHistories records n histories and emits them (plus corrupted copies of every `negEvery`-th).
func c18GenHistories(n, maxG, maxEvents, negEvery int, rng *rand.Rand, emit func(Case)) {
	for k := 0; k < n; k++ {
		g := 1 + rng.Intn(maxG)
		if k < maxG { // every goroutine count once
			g = k + 1
		}
		budget := 20 + rng.Intn(maxEvents-19)
		nops := budget * 2 / (3 * g) // ≈ 1.5 events per op
		if nops < 1 {
			nops = 1
		}
		format := c18RandomFormat(rng)
		churn := k%3 == 2 && g >= 2
		gcb := rng.Intn(4)
		if churn {
			gcb = 2 + rng.Intn(6)
			nops *= 3
		}
		evs := c18Record(format, g, nops, gcb, churn, rng)
		if lim := maxEvents + 200; len(evs) > lim && !churn {
			evs = evs[:lim] // a prefix of a history is a history
		} else if len(evs) > 3*lim {
			evs = evs[:3*lim]
		}
		kind := "hist-g" + strconv.Itoa(g)
		if g > 16 {
			kind = "hist-g17+"
		}
		if churn {
			kind = "hist-churn"
		}
		emit(Case{Line: c18HistLine("hist", format, evs), Kind: kind})
		if negEvery > 0 && k%negEvery == 0 {
			c18Corrupt(format, evs, rng, emit)
		}
	}
}

func c18Gen(tier string, rng *rand.Rand, emit func(Case)) {
	// boundary enumeration: the api scenarios named by the property
	for _, f := range []string{"%d", "name_%d", "no verb"} {
		fh := c18ToHex([]byte(f))
		for _, s := range []string{
			"N", "A0 P0", "A0 P0 P0", "A0 M0 M0", "A0 P0 M0 P0 S0", "Z0 P0 M0", "Q0 P0", "M0", "Q1 M1",
			"A0 P0 I0", "A0 I0 S0", "S0", "I0", "A0 P0 A1 P0 A2 I1 I2 S1 S2", "A0 A1 A2 P1 G A3 A1 P0 P2 P3 P1",
			"A0 P0 G G A0 A1", "A0 A0",
		} {
			emit(Case{Line: "pool api " + fh + " " + s, Kind: "api-boundary"})
		}
	}
	nScripts, nHist, maxG, maxEv, negEvery := 300, 400, 16, 400, 10
	if tier == "thorough" {
		nScripts, nHist, maxG, maxEv, negEvery = 1500, 5000, 64, 2500, 50
	}
	for i := 0; i < nScripts; i++ {
		emit(Case{Line: "pool api " + c18ToHex([]byte(c18RandomFormat(rng))) + " " + strings.Join(c18RandomScript(rng), " "), Kind: "api-random"})
	}
	// hand-made negative control: what would be logged if a double release put the id back twice
	t1 := c18ToHex([]byte("1"))
	emit(Case{Line: "pool neg 2564 a:0:1:" + t1 + " r:0 c:0:- a:1:1:" + t1 + " r:0 c:0:- a:2:1:" + t1, Kind: "neg-double-release"})
	emit(Case{Line: "pool syn 2564 a:0:1:" + t1 + " r:0 c:0:- a:1:1:" + t1 + " r:0 c:0:- r:1 a:2:1:" + t1, Kind: "syn-handmade"})
	emit(Case{Line: "pool syn 2564 a:0:18446744073709551615:" + c18ToHex([]byte("18446744073709551615")) + " a:1:10:" + c18ToHex([]byte("10")), Kind: "syn-handmade"})
	emit(Case{Line: "pool syn 2564", Kind: "syn-handmade"})
	c18GenHistories(nHist, maxG, maxEv, negEvery, rng, emit)
	// malformed stream
	for _, l := range []string{
		"pool", "pool hist", "pool syn", "pool syn zz a:0:1:31", "pool syn 2564 a:0:1", "pool syn 2564 a:0:1:3", "pool syn 2564 x",
		"pool syn 2564 a:0:18446744073709551616:31", "pool syn 2564 a:-1:1:31", "pool syn 2564 a:0:+1:31", "pool syn 2564 r:", "pool syn 2564 r:1:2",
		"pool syn 2573 a:0:1:31", "pool syn 25 a:0:1:31", "pool syn 253264 a:0:1:31", "pool api 2564 X1", "pool api 2564 A", "pool api 2564 Ax",
		"pool api 2573 A0", "pool frob 2564", "pool syn 2564 a:0:1_0:3130", "pool syn 2564 a:0:1: rn", "pool syn 2564 a:0:0001:31 g rn",
		"pool syn 2564 a:0:1:3G", "pool syn 2564 c:0", "pool syn 2564 rn:1", "pool syn - g",
	} {
		emit(Case{Line: l, Kind: "malformed"})
	}
	for i := 0; i < 40; i++ {
		toks := []string{"pool", []string{"syn", "syn", "api", "syn"}[rng.Intn(4)], []string{"2564", "-", "6e5f2564", "25", "2", "2578"}[rng.Intn(6)]}
		alphabet := "acrgn:019AZQPMISNG-fx"
		for j := rng.Intn(6); j > 0; j-- {
			b := make([]byte, 1+rng.Intn(7))
			for k := range b {
				b[k] = alphabet[rng.Intn(len(alphabet))]
			}
			toks = append(toks, string(b))
		}
		emit(Case{Line: strings.Join(toks, " "), Kind: "malformed"})
	}
	if tier == "thorough" {
		c18RaceChild(rng, emit)
	}
}

// ---------------------------------------------------------------- race-detector child (thorough tier)

const c18ChildEnv = "C18_RACE_CHILD"

// the child: record histories under the race detector and print them as case lines
func c18ChildMain(arg string) {
	f := strings.Split(arg, ":")
	seed, _ := strconv.ParseInt(f[0], 10, 64)
	n, _ := strconv.Atoi(f[1])
	rng := rand.New(rand.NewSource(seed))
	w := os.Stdout
	c18GenHistories(n, 64, 2500, 0, rng, func(c Case) { fmt.Fprintln(w, c.Line) })
	var nn *namepool.Name
	if c18Panics(func() { nn.Release() }) {
		fmt.Fprintln(w, "pool nilrecv-race panic")
	} else {
		fmt.Fprintln(w, "pool nilrecv-race ok")
	}
}

func c18RaceChild(rng *rand.Rand, emit func(Case)) {
	unavailable := func(why string) {
		emit(Case{Line: "pool racecheck unavailable " + strings.ReplaceAll(why, " ", "_"), Kind: "race"})
	}
	exe, err := os.Executable()
	if err != nil {
		unavailable("no-executable-path")
		return
	}
	goDir := filepath.Dir(filepath.Dir(exe))
	if _, err := os.Stat(filepath.Join(goDir, "go.mod")); err != nil {
		unavailable("module-dir-not-found")
		return
	}
	tmp, err := os.MkdirTemp("", "c18race")
	if err != nil {
		unavailable("no-temp-dir")
		return
	}
	defer os.RemoveAll(tmp)
	bin := filepath.Join(tmp, "harness_race")
	build := exec.Command("go", "build", "-race", "-tags", "verif", "-o", bin, "./cmd/harness")
	build.Dir = goDir
	build.Env = append(os.Environ(), "CGO_ENABLED=1")
	if out, err := build.CombinedOutput(); err != nil {
		unavailable("race-build-failed")
		fmt.Fprintf(os.Stderr, "C18: race build failed: %v\n%s\n", err, clip(string(out), 600))
		return
	}
	const n = 1000
	child := exec.Command(bin)
	child.Env = append(os.Environ(), fmt.Sprintf("%s=%d:%d", c18ChildEnv, rng.Int63(), n), "GORACE=halt_on_error=0")
	var stdout, stderr bytes.Buffer
	child.Stdout, child.Stderr = &stdout, &stderr
	done := make(chan error, 1)
	if err := child.Start(); err != nil {
		unavailable("race-child-start-failed")
		return
	}
	go func() { done <- child.Wait() }()
	select {
	case err = <-done:
	case <-time.After(15 * time.Minute):
		child.Process.Kill()
		unavailable("race-child-timeout")
		return
	}
	lines := 0
	for _, l := range strings.Split(stdout.String(), "\n") {
		if strings.HasPrefix(l, "pool hist ") {
			emit(Case{Line: l, Kind: "hist-race"})
			lines++
		} else if strings.HasPrefix(l, "pool nilrecv-race ") {
			emit(Case{Line: l, Kind: "race"})
		}
	}
	switch {
	case strings.Contains(stderr.String(), "DATA RACE"):
		fmt.Fprintf(os.Stderr, "C18: race detector report:\n%s\n", clip(stderr.String(), 3000))
		emit(Case{Line: "pool racecheck detected", Kind: "race"})
	case err != nil || lines == 0:
		unavailable("race-child-failed")
		fmt.Fprintf(os.Stderr, "C18: race child: %v\n%s\n", err, clip(stderr.String(), 1000))
	default:
		emit(Case{Line: fmt.Sprintf("pool racecheck clean %d", lines), Kind: "race"})
	}
}

// ---------------------------------------------------------------- oracle

// c18NilReceiverIsViolation: `var n *namepool.Name; n.Release()` panics by the Go specification
// (the receiver is dereferenced for n.pool before pool.Release's nil guard is reached). The property's
// "releasing nil is harmless" is read as pool.Release(nil) — the call that takes the name as an
// argument and guards it; a method call on a nil receiver panicking is ordinary Go behaviour. The
// scenario is modelled (`panic-nilrecv`), executed and reported in the outcome classes; set this to
// true to make the oracle count it as a violation (finding key nil-receiver-method-release).
const c18NilReceiverIsViolation = true

const (
	c18ClUnique   = "no two names held at the same time have the same id or the same text"
	c18ClText     = "every name's text is the pool's format applied to its id"
	c18ClZero     = "ids are never zero"
	c18ClClears   = "releasing a name clears it"
	c18ClHarmless = "releasing twice, or releasing nil, is harmless (a pool call panicked)"
	c18ClNilRecv  = "releasing nil is harmless (method call on a nil *Name)"
	c18ClRace     = "safe for use by multiple goroutines (race detector report)"
	c18ClNeg      = "negative control not rejected: the checker is blind"
	c18ClRecord   = "recorded history is malformed (harness defect)"
)

func c18Oracle(line, out string) string {
	t := c18Tokens(line)
	if len(t) < 2 {
		return ""
	}
	switch t[1] {
	case "racecheck":
		if out == "race-detected" {
			return c18ClRace
		}
		return ""
	case "nilrecv-race":
		if out == "nilrecv-race-panic" && c18NilReceiverIsViolation {
			return c18ClNilRecv
		}
		return ""
	case "neg":
		if out == "bad-op" || out == "unsupported-format" {
			return ""
		}
		if !strings.HasPrefix(out, "violation ") {
			return c18ClNeg
		}
		return ""
	case "hist":
		if !strings.HasPrefix(out, "violation ") {
			return ""
		}
		o := strings.Fields(out)
		switch o[len(o)-1] {
		case "dup-id":
			return c18ClUnique
		case "zero-id":
			return c18ClZero
		case "bad-text":
			return c18ClText
		case "not-cleared":
			return c18ClClears
		case "panic":
			return c18ClHarmless
		}
		return c18ClRecord
	case "api":
		if !strings.HasPrefix(out, "ok") {
			return ""
		}
		o := strings.Fields(out)[1:]
		// the oracle's own bookkeeping, from the script alone: which variables hold a live Name
		live := map[string]bool{}
		for i, tok := range o {
			if i+3 >= len(t) {
				return c18ClRecord
			}
			op := t[i+3]
			v := op[1:]
			if strings.Contains(tok, "!dup") {
				return c18ClUnique
			}
			if strings.Contains(tok, "!zero") {
				return c18ClZero
			}
			if strings.Contains(tok, "!") {
				return c18ClText
			}
			switch op[0] {
			case 'A':
				live[v] = true
			case 'P', 'M':
				if tok == "panic-nilrecv" || tok == "ok-nilrecv" {
					if tok == "panic-nilrecv" && c18NilReceiverIsViolation {
						return c18ClNilRecv
					}
					return ""
				}
				if tok == "panic" {
					return c18ClHarmless
				}
				if live[v] && !strings.HasSuffix(tok, ":cleared") {
					return c18ClClears
				}
				if strings.HasSuffix(tok, ":live") { // a release never leaves (or makes) a Name live
					return c18ClHarmless
				}
				live[v] = false
			case 'N':
				if tok != "n" {
					return c18ClHarmless
				}
			case 'I':
				if live[v] && tok != "i" {
					return c18ClZero
				}
			case 'S':
				if live[v] && tok != "s:text" {
					return c18ClText
				}
				if !live[v] && tok == "s:text" {
					return c18ClClears
				}
			}
		}
	}
	return ""
}

func c18Agree(m, i string) bool {
	if m == i {
		return true
	}
	// The model follows the Go specification: `(*Name)(nil).Release()` dereferences the nil receiver
	// and panics. Binaries built by gc 1.21–1.24 without -race/-N -l skip that nil check (compiler bug
	// fixed in Go 1.25), so the real binary may also finish the call. Both correspond to the model's
	// final token; the property oracle judges what the binary really did.
	return false
}

func init() {
	if arg := os.Getenv(c18ChildEnv); arg != "" {
		c18ChildMain(arg)
		os.Exit(0)
	}
	register(&Prop{
		ID:     "C18",
		Gen:    c18Gen,
		Impl:   c18Impl,
		Oracle: c18Oracle,
		Agree:  c18Agree,
		NoModel: func(line string) bool {
			return strings.HasPrefix(line, "pool racecheck") || strings.HasPrefix(line, "pool nilrecv-race")
		},
		FindingKey: func(line, out, clause string) string {
			switch clause {
			case c18ClNilRecv:
				return "nil-receiver-method-release"
			case c18ClRace:
				return "data-race"
			case c18ClNeg:
				return "negative-control-accepted"
			}
			return clause
		},
		Nontrivial: func(line, out string) bool {
			t := c18Tokens(line)
			if len(t) < 2 {
				return false
			}
			switch t[1] {
			case "hist":
				// at least two names live at once and at least one id handed out a second time
				var maxLive, minted, reused int
				if n, _ := fmt.Sscanf(out, "ok %d %d %d", &maxLive, &minted, &reused); n == 3 {
					return maxLive >= 2 && reused >= 1
				}
				return false
			case "neg":
				return strings.HasPrefix(out, "violation")
			case "api":
				return strings.Contains(out, ":cleared")
			}
			return false
		},
		Rule:     "hist: g goroutines (quick 1..16, 400 histories of ≤ ~600 events, every count once; thorough 1..64, 5000 histories of ≤ ~2700 events, plus 1000 recorded by a child process built with -race) run random Acquire / Release (every third history in churn mode: mostly Acquire and Release of the most recently acquired name, no yields, three times as long) (pool.Release or Name.Release) / repeated Release of a cleared Name / Release(nil) / runtime.GC() once or twice / hand-over of a live Name to another goroutine on one real namepool.Pool; formats %d, name_%d, a%db two times out of three, else %%-escapes, no verb, two verbs, empty, random bytes around %d; the log (≤ ~2700 events) is the case line, re-validated by the Go oracle (set of live ids, fmt.Sprintf) and by the Lean validator. neg: recorded histories corrupted in six ways (second holder of a live id, id 0, text of another id, Name object reused while live, non-empty Name() after Release, clear without release) that both validators must reject. api: sequential scripts over 4 *Name variables executed on the real pool (Acquire, pool.Release, Name.Release, Release(nil), zero Name, nil pointer, ID(), Name(), double GC). malformed: truncated / non-numeric / overflowing tokens, unsupported verbs. non-trivial = a history with ≥ 2 simultaneously live names and ≥ 1 recycled id, a rejected negative control, or a script in which a release cleared a Name.",
		NoShrink: true,
		Serial:   false,
		Assumptions: []string{
			"sync.Pool (Get/Put/GC clearing) and atomic.AddUint64 are linearizable: a concurrent execution is equivalent to some sequence of the model's ops",
			"a Name is not copied by value (a copy shares the id pointer; releasing original and copy puts the id twice — outside the property's 'releasing it twice')",
			"the log order is not the linearisation order: the a-event is appended after Acquire returned and the r-event before Release is called, so a logged live interval is contained in the real one; only overlapping logged intervals are detected",
			"formats are literal bytes, %% and %d (the package's documented use); other verbs/flags are answered unsupported-format by both sides",
			"the Go specification makes (*Name)(nil).Release() panic; gc 1.21–1.24 optimised non-race builds skip that nil check, so the model's `panic-nilrecv` corresponds to either outcome of the binary",
		},
	})
}

// rule addenda (rounds 9-12): what the evidence says about the coverage of a run
func init() {
	if p := registry["C18"]; p != nil {
		p.Rule += " Formats of 250..257, 300 and 1000 literal bytes; the text of a name is read through Name(), String() and %v, which must agree."
	}
}
