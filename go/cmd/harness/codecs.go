package main

// Shared infrastructure for the package codec correspondence (C06, C07, C10, and the concrete
// instantiation of C02/C03/C11/C14). Each codec group (one Go file per group, written by its
// builder) registers its package kinds here; the property harnesses c06.go / c07.go / c10.go
// iterate over the registry.
//
// Line protocol (mirrored by the Lean driver keyword `pkg`, lean/Dblib/Model/Codec/All.lean):
//
//   pkg enc <kind> <field> <field> …        -> `ok <hex>` | `err` | `panic`      (real WriteTo)
//   pkg dec <tokhex> <ctx> <hex>            -> `ok <kind> <field> … / <consumed>` | `notEnough` | `err` | `panic`
//
// <kind> is the registry name (e.g. `done`, `eed`, `paramfmt2`). Fields are canonical tokens
// (no spaces): integers in decimal, strings/bytes as lowercase hex of their bytes (`-` = empty),
// lists as comma-separated tokens, nested records with `;` … — each codec documents its own
// field list in its Go file and renders it identically in Lean (`show`).
// <ctx> is `-` or, for packages that need the preceding package (ROW, PARAMS, ORDERBY), the hex
// of that preceding package's bytes (token included).
// `dec` parses the bytes AFTER the token byte (the channel consumes the token first); <consumed>
// counts the bytes consumed after the token.

import (
	"errors"
	"fmt"
	"math/rand"
	"sort"
	"strings"

	"github.com/SAP/go-dblib/tds"
)

type pkgCodec struct {
	Kind   string // registry name
	Tokens []byte // wire tokens that LookupPackage maps to this kind
	// Show renders a parsed/constructed package canonically ("<kind> <field> …"); must equal the
	// Lean `show` of the same package.
	Show func(p tds.Package) string
	// Build constructs the package from canonical fields (the inverse of Show); used by `pkg enc`.
	// Return nil, false if the fields are malformed.
	Build func(fields []string) (tds.Package, bool)
	// Gen emits canonical field lists ("<field> <field> …") of valid packages of this kind,
	// boundary values first, then random ones (quick: a few hundred, thorough: more).
	Gen func(tier string, rng *rand.Rand, emit func(fields string))
	// SpecEnc (optional): an independent encoder written from the TDS 5.0 layout, not from the
	// Go code: canonical fields -> wire bytes including the token. Used by C06 for server-only
	// packages (ReadFrom must decode it to the same fields).
	SpecEnc func(fields []string) ([]byte, bool)
	// SpecDec (optional): an independent decoder written from the TDS layout: wire bytes
	// (token included) -> canonical "<kind> <field> …". Used by C06 for client-only packages.
	SpecDec func(bs []byte) (string, bool)
	// SpecDecCtx (optional, instead of SpecDec for kinds that need the preceding package): wire
	// bytes (token included) and the bytes of the preceding package -> canonical "<kind> <field> …".
	SpecDecCtx func(bs, ctx []byte) (string, bool)
	// ClientOnly / ServerOnly: which direction the library is expected to support.
	ClientOnly, ServerOnly bool
	// NeedsCtx: decoding needs the preceding package (its bytes travel in <ctx>).
	NeedsCtx bool
	// Norm (optional): the field list `pkg dec` shows for the encoding of a field list (documented
	// normalisations, e.g. an EED message loses one trailing newline); nil = identity.
	Norm func(fields []string) []string
	// CtxFor (optional, with NeedsCtx): the bytes of the preceding package (token included) that
	// a package with these fields has to be decoded after.
	CtxFor func(fields []string) []byte
}

var codecRegistry = map[string]*pkgCodec{}

func registerCodec(c *pkgCodec) { codecRegistry[c.Kind] = c }

func codecKinds() []string {
	ks := make([]string, 0, len(codecRegistry))
	for k := range codecRegistry {
		ks = append(ks, k)
	}
	sort.Strings(ks)
	return ks
}

func codecForToken(tok byte) *pkgCodec {
	for _, k := range codecKinds() {
		for _, t := range codecRegistry[k].Tokens {
			if t == tok {
				return codecRegistry[k]
			}
		}
	}
	return nil
}

// newQueue returns a PacketQueue usable as BytesChannel with the largest packet size, so that
// encodings up to 65527 bytes sit in one packet.
func newQueue() *tds.PacketQueue { return tds.NewPacketQueue(func() int { return 65535 }) }

// queueBytes returns what has been written to a queue in write mode.
func queueBytes(q *tds.PacketQueue) []byte {
	dl, _, ip, id, _ := q.VerifState()
	var out []byte
	for i, p := range q.VerifPackets() {
		if i < ip {
			out = append(out, p.Data[:dl[i]]...)
		} else if i == ip {
			out = append(out, p.Data[:id]...)
		}
	}
	return out
}

// queueOf returns a queue in read mode holding bs (split over packets of at most 60000 bytes).
func queueOf(bs []byte) *tds.PacketQueue {
	q := newQueue()
	for len(bs) > 0 {
		n := len(bs)
		if n > 60000 {
			n = 60000
		}
		d := append([]byte{}, bs[:n]...)
		q.AddPacket(&tds.Packet{Header: tds.PacketHeader{Length: uint16(n + 8)}, Data: d})
		bs = bs[n:]
	}
	return q
}

func queueConsumed(q *tds.PacketQueue) int {
	dl, _, ip, id, _ := q.VerifState()
	n := 0
	for i := 0; i < ip && i < len(dl); i++ {
		n += dl[i]
	}
	return n + id
}

// encodePkg runs the real WriteTo.
func encodePkg(p tds.Package) (out string) {
	defer func() {
		if r := recover(); r != nil {
			out = "panic"
		}
	}()
	q := newQueue()
	if err := p.WriteTo(q); err != nil {
		return "err"
	}
	return "ok " + hx(queueBytes(q))
}

// decodeInto runs the real ReadFrom of pkg on bs; class ok | notEnough | err | panic.
func decodeInto(p tds.Package, bs []byte) (class string, consumed int) {
	defer func() {
		if r := recover(); r != nil {
			class, consumed = "panic", 0
		}
	}()
	q := queueOf(bs)
	err := p.ReadFrom(q)
	if err != nil {
		if errors.Is(err, tds.ErrNotEnoughBytes) {
			return "notEnough", queueConsumed(q)
		}
		return "err", queueConsumed(q)
	}
	return "ok", queueConsumed(q)
}

// lookupWithCtx mirrors what the channel does before ReadFrom: LookupPackage(token) and, for
// LastPkgAcceptors, LastPkg(previous package); ctx is the previous package's bytes.
func lookupWithCtx(tok byte, ctx []byte) (tds.Package, string) {
	pkg, err := tds.LookupPackage(tds.Token(tok))
	if err != nil {
		return nil, "err"
	}
	if acc, ok := pkg.(tds.LastPkgAcceptor); ok {
		var last tds.Package
		if len(ctx) > 0 {
			lp, err := tds.LookupPackage(tds.Token(ctx[0]))
			if err != nil {
				return nil, "err"
			}
			if c, _ := decodeInto(lp, ctx[1:]); c != "ok" {
				return nil, "ctx-" + c
			}
			last = lp
		}
		if err := acc.LastPkg(last); err != nil {
			return nil, "lasterr"
		}
	}
	return pkg, ""
}

// pkgDecLine implements `pkg dec <tokhex> <ctx> <hex>` on the real code.
func pkgDecLine(f []string) (out string) {
	defer func() {
		if r := recover(); r != nil {
			out = "panic"
		}
	}()
	if len(f) != 3 {
		return "bad-op"
	}
	tb := unhx(f[0])
	bs := unhx(f[2])
	if len(tb) != 1 || bs == nil {
		return "bad-op"
	}
	var ctx []byte
	if f[1] != "-" {
		ctx = unhx(f[1])
		if ctx == nil {
			return "bad-op"
		}
	}
	pkg, e := lookupWithCtx(tb[0], ctx)
	if e != "" {
		return e
	}
	if tl, ok := pkg.(*tds.TokenlessPackage); ok {
		tl.Data.WriteByte(tb[0])
	}
	class, n := decodeInto(pkg, bs)
	if class != "ok" {
		return class
	}
	c := codecForToken(tb[0])
	if c == nil {
		return fmt.Sprintf("ok unknown / %d", n)
	}
	return fmt.Sprintf("ok %s / %d", c.Show(pkg), n)
}

// pkgEncLine implements `pkg enc <kind> <field>…` on the real code.
func pkgEncLine(f []string) string {
	if len(f) < 1 {
		return "bad-op"
	}
	c := codecRegistry[f[0]]
	if c == nil || c.Build == nil {
		return "bad-op"
	}
	p, ok := c.Build(f[1:])
	if !ok {
		return "bad-op"
	}
	return encodePkg(p)
}

// pkgRtLine implements `pkg rt <kind> <field>…`: real WriteTo, then real ReadFrom of what was written.
func pkgRtLine(f []string) string {
	e := pkgEncLine(f)
	if !strings.HasPrefix(e, "ok ") {
		return e
	}
	bs := unhx(e[3:])
	if len(bs) < 1 {
		return "bad-op"
	}
	d := pkgDecLine([]string{hx(bs[:1]), "-", hx(bs[1:])})
	return fmt.Sprintf("%s of %d", d, len(bs)-1)
}

// pkgSpecLine implements `pkg spec <kind> <field>…` (oracle only): the independent encoder's bytes
// through the real ReadFrom.
func pkgSpecLine(f []string) string {
	if len(f) < 1 {
		return "bad-op"
	}
	c := codecRegistry[f[0]]
	if c == nil || c.SpecEnc == nil {
		return "bad-op"
	}
	bs, ok := c.SpecEnc(f[1:])
	if !ok || len(bs) < 1 {
		return "bad-op"
	}
	ctx := "-"
	if c.NeedsCtx && c.CtxFor != nil {
		ctx = hx(c.CtxFor(f[1:]))
	}
	d := pkgDecLine([]string{hx(bs[:1]), ctx, hx(bs[1:])})
	return fmt.Sprintf("%s of %d", d, len(bs)-1)
}

// pkgSpecDecLine implements `pkg specdec <kind> <field>…` (oracle only): the real WriteTo's bytes
// through the independent decoder.
func pkgSpecDecLine(f []string) (out string) {
	defer func() {
		if r := recover(); r != nil {
			out = "panic"
		}
	}()
	if len(f) < 1 {
		return "bad-op"
	}
	c := codecRegistry[f[0]]
	if c == nil || (c.SpecDec == nil && c.SpecDecCtx == nil) {
		return "bad-op"
	}
	e := pkgEncLine(f)
	if !strings.HasPrefix(e, "ok ") {
		return e
	}
	var shown string
	var ok bool
	if c.SpecDec != nil {
		shown, ok = c.SpecDec(unhx(e[3:]))
	} else {
		var ctx []byte
		if c.CtxFor != nil {
			ctx = c.CtxFor(f[1:])
		}
		shown, ok = c.SpecDecCtx(unhx(e[3:]), ctx)
	}
	if !ok {
		return "specdec-rejects"
	}
	return "ok " + shown
}

func pkgImpl(line string) string {
	f := strings.Fields(line)
	if len(f) < 2 || f[0] != "pkg" {
		return "bad-op"
	}
	switch f[1] {
	case "enc":
		return pkgEncLine(f[2:])
	case "dec":
		return pkgDecLine(f[2:])
	case "rt":
		return pkgRtLine(f[2:])
	case "spec":
		return pkgSpecLine(f[2:])
	case "specdec":
		return pkgSpecDecLine(f[2:])
	case "rows":
		return pkgRowsLine(f[2:])
	case "two":
		return pkgTwoLine(f[2:])
	}
	return "bad-op"
}

// pkgRowsLine implements `pkg rows <kind> <fields> ;; <fields> …` (oracle only): a result set — the format,
// then the data packages one after the other, each prepared with LastPkg(the package before it) as the
// channel does — through the real readers; ALL rows are shown after the last one has been read (a consumer
// may keep the packages it was given). Answer: `ok <fields of row 1> ;; <fields of row 2> …`.
func pkgRowsLine(f []string) (out string) {
	defer func() {
		if r := recover(); r != nil {
			out = "panic"
		}
	}()
	if len(f) < 2 {
		return "bad-op"
	}
	c := codecRegistry[f[0]]
	if c == nil || c.SpecEnc == nil || c.CtxFor == nil {
		return "bad-op"
	}
	var rows [][]string
	cur := []string{}
	for _, t := range f[1:] {
		if t == ";;" {
			rows = append(rows, cur)
			cur = []string{}
			continue
		}
		cur = append(cur, t)
	}
	rows = append(rows, cur)
	ctx := c.CtxFor(rows[0])
	if len(ctx) == 0 {
		return "bad-op"
	}
	last, err := tds.LookupPackage(tds.Token(ctx[0]))
	if err != nil {
		return "err"
	}
	if cl, _ := decodeInto(last, ctx[1:]); cl != "ok" {
		return "ctx-" + cl
	}
	var pkgs []tds.Package
	for _, r := range rows {
		bs, ok := c.SpecEnc(r)
		if !ok || len(bs) < 1 {
			return "bad-op"
		}
		pkg, err := tds.LookupPackage(tds.Token(bs[0]))
		if err != nil {
			return "err"
		}
		if acc, ok := pkg.(tds.LastPkgAcceptor); ok {
			if err := acc.LastPkg(last); err != nil {
				return "lasterr"
			}
		}
		if cl, n := decodeInto(pkg, bs[1:]); cl != "ok" || n != len(bs)-1 {
			return cl
		}
		pkgs = append(pkgs, pkg)
		last = pkg
	}
	var shown []string
	for _, pkg := range pkgs {
		sh := strings.Fields(c.Show(pkg))
		shown = append(shown, strings.Join(sh[1:], " "))
	}
	return "ok " + strings.Join(shown, " ;; ")
}

// pkgTwoLine implements `pkg two <kind> <fieldsA> ;; <fieldsB>` (oracle only): two packages of one kind decoded
// one after the other (each from a fresh LookupPackage, as the channel does), BOTH shown after the second has
// been read: what one decode produced does not change with the next, and the next starts from nothing.
// Answer: `ok <fields of A> ;; <fields of B>`.
func pkgTwoLine(f []string) (out string) {
	defer func() {
		if r := recover(); r != nil {
			out = "panic"
		}
	}()
	if len(f) < 2 {
		return "bad-op"
	}
	c := codecRegistry[f[0]]
	if c == nil || c.SpecEnc == nil || c.NeedsCtx {
		return "bad-op"
	}
	var sets [][]string
	cur := []string{}
	for _, t := range f[1:] {
		if t == ";;" {
			sets = append(sets, cur)
			cur = []string{}
			continue
		}
		cur = append(cur, t)
	}
	sets = append(sets, cur)
	var pkgs []tds.Package
	for _, fs := range sets {
		bs, ok := c.SpecEnc(fs)
		if !ok || len(bs) < 1 {
			return "bad-op"
		}
		pkg, e := lookupWithCtx(bs[0], nil)
		if e != "" {
			return e
		}
		if cl, n := decodeInto(pkg, bs[1:]); cl != "ok" || n != len(bs)-1 {
			return cl
		}
		pkgs = append(pkgs, pkg)
	}
	var shown []string
	for _, pkg := range pkgs {
		sh := strings.Fields(c.Show(pkg))
		shown = append(shown, strings.Join(sh[1:], " "))
	}
	return "ok " + strings.Join(shown, " ;; ")
}
