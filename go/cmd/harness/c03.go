package main

// C03 (each response is delimited by exactly one final DONE and fully drained) and C11 (server
// messages and environment changes are surfaced exactly once): consumer-side scenarios `use …`
// (see c02.go useImpl, lean/Dblib/Model/UseDriver.lean) with oracles written from the property text.
//
// The oracles need the ground truth of a line (which packages each response consists of). It is
// recovered from the packet bodies by an independent scanner of the token framing (token, length
// prefix) — not by the library's parsers.

import (
	"encoding/binary"
	"fmt"
	"math/rand"
	"regexp"
	"strconv"
	"strings"
	"sync"
	"time"
)

type scanPkg struct {
	kind    string // done | eed | eedinfo | env | other
	status  int    // done
	nr      int    // eed
	shown   string // prefix of the canonical rendering of the delivered package
	members [][3]string
}

// scanPrefix splits as many complete packages as possible off b; rest = the unparsed tail.
func scanPrefix(b []byte) (pk []scanPkg, used int) {
	for used < len(b) {
		r := b[used:]
		switch r[0] {
		case 0xFD, 0xFE, 0xFF:
			if len(r) < 9 {
				return
			}
			st := int(binary.LittleEndian.Uint16(r[1:]))
			pk = append(pk, scanPkg{kind: "done", status: st, shown: fmt.Sprintf("done %d %d %d", st,
				binary.LittleEndian.Uint16(r[3:]), int32(binary.LittleEndian.Uint32(r[5:])))})
			used += 9
		case 0xE5, 0xE3, 0xAD:
			if len(r) < 3 {
				return
			}
			l := int(binary.LittleEndian.Uint16(r[1:]))
			if len(r) < 3+l {
				return
			}
			body := r[3 : 3+l]
			switch r[0] {
			case 0xE5:
				nr := int(binary.LittleEndian.Uint32(body))
				st := body[7+int(body[6])]
				k := "eed"
				if st&2 == 2 {
					k = "eedinfo"
				}
				pk = append(pk, scanPkg{kind: k, nr: nr, shown: fmt.Sprintf("eed %d ", nr)})
			case 0xE3:
				var ms [][3]string
				for i := 0; i < len(body); {
					t := body[i]
					l1 := int(body[i+1])
					nw := body[i+2 : i+2+l1]
					l2 := int(body[i+2+l1])
					old := body[i+3+l1 : i+3+l1+l2]
					ms = append(ms, [3]string{strconv.Itoa(int(t)), hx(old), hx(nw)})
					i += 3 + l1 + l2
				}
				pk = append(pk, scanPkg{kind: "env", shown: "envchange", members: ms})
			default:
				pk = append(pk, scanPkg{kind: "other", shown: "loginack "})
			}
			used += 3 + l
		case 0x65:
			if len(r) < 5 {
				return
			}
			pk = append(pk, scanPkg{kind: "other", shown: fmt.Sprintf("msg %d %d", r[2], binary.LittleEndian.Uint16(r[3:]))})
			used += 5
		case 0x79:
			if len(r) < 5 {
				return
			}
			pk = append(pk, scanPkg{kind: "other", shown: fmt.Sprintf("returnstatus %d", int32(binary.LittleEndian.Uint32(r[1:])))})
			used += 5
		default:
			return
		}
	}
	return
}

// useTruth: what a `use` line is, recovered from its tokens.
type useTruth struct {
	specs []string
	// per response, in arrival order: its packages, and the index of the token that completes it
	resp   [][]scanPkg
	respAt []int
	// token indexes of the `r` tokens
	rounds []int
	// expected hook calls in order: "e<i>:<nr>" / "n<i>:<typ>:<old>:<new>", and for each the number of
	// packages delivered before it (valid while nothing has been consumed)
	hooks      []string
	hookBefore []int
	hookAfterR []bool // a round ran before this hook call
	psize      int
	ok         bool
}

func parseUse(line string) useTruth {
	f := strings.Fields(line)
	t := useTruth{psize: 512}
	if len(f) < 4 || f[0] != "use" {
		return t
	}
	ne, _ := strconv.Atoi(f[1])
	nv, _ := strconv.Atoi(f[2])
	t.specs = strings.Split(f[3], ",")
	var acc []byte    // bytes of the current response
	var cur []scanPkg // its packages so far
	var pendingHO []scanPkg
	fired := 0
	delivered := 0
	ranRound := false
	for i, tok := range f[4:] {
		switch {
		case tok == "r":
			t.rounds = append(t.rounds, i)
			ranRound = true
		case tok == "+e":
			ne++
		case tok == "+n":
			nv++
		case tok == "+E" || tok == "+N": // a refused registration (nil hook): nothing is registered
		case tok == "snd": // a send in mid-response: nothing changes on the receive side
		case strings.HasPrefix(tok, "h:") || strings.HasPrefix(tok, "H:"):
			// a header-only packet (H: with the EOM status) is delivered as a package of its own; judged
			// only between responses, where it counts to the response that follows
			if len(acc) != 0 {
				return t
			}
			pendingHO = append(pendingHO, scanPkg{kind: "other", shown: "headeronly " + tok[2:]})
			delivered++
		default:
			p := strings.SplitN(tok, ":", 2)
			if len(p) != 2 {
				return t
			}
			acc = append(acc, unhx(p[1])...)
			pk, used := scanPrefix(acc)
			cur = pk
			for ; fired < len(pk); fired++ {
				q := pk[fired]
				switch q.kind {
				case "eed":
					for h := 0; h < ne; h++ {
						t.hooks = append(t.hooks, fmt.Sprintf("e%d:%d", h, q.nr))
						t.hookBefore = append(t.hookBefore, delivered)
						t.hookAfterR = append(t.hookAfterR, ranRound)
					}
					delivered++
				case "env":
					for _, m := range q.members {
						if m[0] == "4" {
							t.psize, _ = strconv.Atoi(string(unhx(m[2])))
						}
						for h := 0; h < nv; h++ {
							t.hooks = append(t.hooks, fmt.Sprintf("n%d:%s:%s:%s", h, m[0], m[1], m[2]))
							t.hookBefore = append(t.hookBefore, delivered)
							t.hookAfterR = append(t.hookAfterR, ranRound)
						}
					}
				case "eedinfo":
				default:
					delivered++
				}
			}
			if st, _ := bodyTokStatus(p[0]); st%2 == 1 {
				if used != len(acc) {
					return t // a truncated response: not generated
				}
				cur = append(append([]scanPkg{}, pendingHO...), cur...)
				pendingHO = nil
				t.resp = append(t.resp, cur)
				t.respAt = append(t.respAt, i)
				if len(expectStream(cur)) > len(passThrough(cur)) {
					delivered++ // the synthetic final DONE
				}
				acc, cur, fired = nil, nil, 0
			}
		}
	}
	t.ok = len(acc) == 0
	return t
}

func passThrough(r []scanPkg) []scanPkg {
	var out []scanPkg
	for _, p := range r {
		if p.kind != "env" && p.kind != "eedinfo" {
			out = append(out, p)
		}
	}
	return out
}

// expectStream: what the consumer's queue receives for a response, from the property text: the
// pass-through packages in order, then one final DONE supplied by the library unless the server's
// last package is a DONE with final status.
func expectStream(r []scanPkg) []scanPkg {
	out := passThrough(r)
	last := scanPkg{}
	for _, p := range r {
		if p.kind == "done" || p.kind == "other" {
			last = p
		}
	}
	if !(last.kind == "done" && last.status == 0) {
		out = append(out, scanPkg{kind: "done", status: 0, shown: "done 0 0 0"})
	}
	return out
}

func nonEED(s []scanPkg) []scanPkg {
	var out []scanPkg
	for _, p := range s {
		if p.kind != "eed" {
			out = append(out, p)
		}
	}
	return out
}

type useRound struct {
	seen []string
	res  string
}

type useOut struct {
	rounds []useRound
	left   int
	errs   int
	psize  int
	hooks  []string
	ok     bool
}

var useTrailer = regexp.MustCompile(`^left=(\d+) E=(\d+) PS=(-?\d+) H=\[(.*)\]$`)

func parseUseOut(out string) useOut {
	parts := strings.Split(out, " ;; ")
	var o useOut
	m := useTrailer.FindStringSubmatch(parts[len(parts)-1])
	if m == nil {
		return o
	}
	o.left, _ = strconv.Atoi(m[1])
	o.errs, _ = strconv.Atoi(m[2])
	o.psize, _ = strconv.Atoi(m[3])
	if m[4] != "" {
		o.hooks = strings.Split(m[4], " ; ")
	}
	for _, p := range parts[:len(parts)-1] {
		i := strings.LastIndex(p, "] -> ")
		if !strings.HasPrefix(p, "[") || i < 0 {
			return o
		}
		r := useRound{res: p[i+5:]}
		if in := p[1:i]; in != "" {
			r.seen = strings.Split(in, " | ")
		}
		o.rounds = append(o.rounds, r)
	}
	o.ok = true
	return o
}

func specFails(s string) bool {
	return strings.HasPrefix(s, "fail") || strings.HasPrefix(s, "weof") || strings.HasPrefix(s, "ueof")
}

func specFull(s string) bool {
	return s == "nil" || s == "final" || specFails(s)
}

func matchesSeen(seen []string, want []scanPkg) bool {
	if len(seen) != len(want) {
		return false
	}
	for i := range seen {
		if !strings.HasPrefix(seen[i], want[i].shown) {
			return false
		}
	}
	return true
}

const (
	c03ClauseOne   = "reading up to the final DONE consumes exactly one response: its packages in order followed by exactly one final DONE, and the next read starts with the next response"
	c03ClauseAbort = "when the callback aborts with an error the rest of the response is consumed as well"
	c03ClauseCons  = "nothing is duplicated, lost or carried over between responses"
	c03ClauseLive  = "the read of a completely received response does not block, crash or fail"
)

// alignedRounds: every round reads with a spec that consumes a whole response (nil, final, fail<j>)
// and starts after its response has arrived completely.
func alignedRounds(t useTruth) bool {
	for i, at := range t.rounds {
		if !specFull(t.specs[i%len(t.specs)]) {
			return false
		}
		if i >= len(t.resp) || t.respAt[i] > at {
			return false
		}
	}
	return true
}

func c03Oracle(line, out string) string {
	if !strings.HasPrefix(line, "use ") {
		return ""
	}
	t := parseUse(line)
	if !t.ok {
		return ""
	}
	if out == "panic" || out == "timeout" || out == "crash" {
		return c03ClauseLive
	}
	o := parseUseOut(out)
	if !o.ok || len(o.rounds) != len(t.rounds) {
		return c03ClauseLive
	}
	// conservation, for every history: what the callbacks saw, in order, is a subsequence of the
	// expected stream; a prefix of it when no round skips packages (no nil spec, no failure)
	var all []scanPkg
	total := 0
	for _, r := range t.resp {
		all = append(all, nonEED(expectStream(r))...)
		total += len(expectStream(r))
	}
	skipping := false
	for i := range t.rounds {
		s := t.specs[i%len(t.specs)]
		if s == "nil" || specFails(s) {
			skipping = true
		}
	}
	pos := 0
	for _, r := range o.rounds {
		for _, s := range r.seen {
			if strings.HasPrefix(s, "eed ") || strings.HasPrefix(s, "envchange") {
				return c03ClauseCons
			}
			found := false
			for pos < len(all) {
				hit := strings.HasPrefix(s, all[pos].shown)
				pos++
				if hit {
					found = true
					break
				}
				if !skipping {
					return c03ClauseCons
				}
			}
			if !found {
				return c03ClauseCons
			}
		}
	}
	if !alignedRounds(t) {
		return ""
	}
	for i := range t.rounds {
		spec := t.specs[i%len(t.specs)]
		want := nonEED(expectStream(t.resp[i]))
		got := o.rounds[i]
		if got.res == "blocked" || got.res == "err" {
			return c03ClauseLive
		}
		fail := 0
		if specFails(spec) {
			fail, _ = strconv.Atoi(spec[4:])
			if fail > len(want) {
				fail = 0
			}
		}
		switch {
		case spec == "nil":
			wres := "nil"
			if len(want) == 1 {
				wres = "eof"
			}
			if len(got.seen) != 0 || got.res != wres {
				return c03ClauseOne
			}
		case fail > 0:
			if !matchesSeen(got.seen, want[:fail]) {
				return c03ClauseOne
			}
			if !strings.HasPrefix(got.res, "cberr(") {
				return c03ClauseAbort
			}
		default:
			if !matchesSeen(got.seen, want) {
				return c03ClauseOne
			}
			if !strings.HasPrefix(got.res, "pkg:done 0 ") {
				return c03ClauseOne
			}
		}
	}
	// everything that arrived completely and was read is gone; what was not read is all there
	read := 0
	for i := range t.rounds {
		read += len(expectStream(t.resp[i]))
	}
	if o.left != total-read {
		for _, sp := range t.specs {
			if specFails(sp) {
				return c03ClauseAbort
			}
		}
		return c03ClauseCons
	}
	return ""
}

// ---------------------------------------------------------------------------------------------

const (
	c11ClauseHook  = "every non-informational server message is handed to every registered message hook exactly once, in arrival order"
	c11ClauseOrder = "a message reaches the hooks before any later package of that response reaches the consumer"
	c11ClauseErr   = "if the consumer's callback fails, the returned error carries all messages received so far, in order, and still matches the callback's error"
	c11ClauseEnv   = "every environment change is applied (packet size) and reported to every registered hook exactly once with its type, old and new value"
	c11ClauseNoPkg = "neither environment changes nor informational messages are ever delivered as packages"
)

var (
	hookEED = regexp.MustCompile(`^e(\d+)@(\d+):eed (\d+) `)
	hookEnv = regexp.MustCompile(`^n(\d+)@(\d+):(\d+):([0-9a-f-]*):([0-9a-f-]*):(-?\d+)$`)
)

func c11Oracle(line, out string) string {
	if !strings.HasPrefix(line, "use ") {
		return ""
	}
	t := parseUse(line)
	if !t.ok {
		return ""
	}
	if out == "panic" || out == "timeout" || out == "crash" {
		return c11ClauseHook
	}
	o := parseUseOut(out)
	if !o.ok || len(o.rounds) != len(t.rounds) {
		return c11ClauseHook
	}
	// hook calls: exactly the expected sequence
	envBad, eedBad := false, false
	if len(o.hooks) != len(t.hooks) {
		for _, h := range append(append([]string{}, o.hooks...), t.hooks...) {
			if strings.HasPrefix(h, "n") {
				envBad = true
			} else {
				eedBad = true
			}
		}
	}
	for i := 0; i < len(o.hooks) && i < len(t.hooks); i++ {
		got, k := "", -1
		if m := hookEED.FindStringSubmatch(o.hooks[i]); m != nil {
			got = fmt.Sprintf("e%s:%s", m[1], m[3])
			k, _ = strconv.Atoi(m[2])
		} else if m := hookEnv.FindStringSubmatch(o.hooks[i]); m != nil {
			got = fmt.Sprintf("n%s:%s:%s:%s", m[1], m[3], m[4], m[5])
			k, _ = strconv.Atoi(m[2])
		}
		if got != t.hooks[i] {
			if strings.HasPrefix(t.hooks[i], "n") {
				envBad = true
			} else {
				eedBad = true
			}
			continue
		}
		if !t.hookAfterR[i] && k != t.hookBefore[i] {
			return c11ClauseOrder
		}
	}
	if eedBad {
		return c11ClauseHook
	}
	if envBad {
		return c11ClauseEnv
	}
	if o.psize != t.psize || o.errs != 0 {
		return c11ClauseEnv
	}
	// nothing special is delivered
	total := 0
	for _, r := range t.resp {
		total += len(expectStream(r))
	}
	for _, r := range o.rounds {
		for _, s := range append(append([]string{}, r.seen...), strings.TrimPrefix(strings.TrimPrefix(r.res, "pkg:"), "eofpkg:")) {
			if strings.HasPrefix(s, "envchange") || strings.HasPrefix(s, "eed ") {
				return c11ClauseNoPkg
			}
		}
	}
	if len(t.rounds) == 0 && o.left != total {
		return c11ClauseNoPkg
	}
	// callback failures
	if !alignedRounds(t) {
		return ""
	}
	for i := range t.rounds {
		spec := t.specs[i%len(t.specs)]
		if !specFails(spec) {
			continue
		}
		fail, _ := strconv.Atoi(spec[4:])
		stream := expectStream(t.resp[i])
		// all messages of the response received by the failing call: those before the failing package
		// and those in the rest of the response, which the call consumes up to the final DONE
		var nrs []string
		n := 0
		hit := false
		for _, p := range stream {
			if p.kind == "eed" {
				nrs = append(nrs, strconv.Itoa(p.nr))
				continue
			}
			n++
			if n == fail {
				hit = true
			}
		}
		if !hit {
			continue
		}
		want := fmt.Sprintf("cberr(%d:%s:true)", len(nrs), strings.Join(nrs, ","))
		if o.rounds[i].res != want {
			return c11ClauseErr
		}
	}
	return ""
}

// ---------------------------------------------------------------------------------------------
// generators

// c03Response: a well-formed response: DONE with final status only as the last package.
func c03Response(rng *rand.Rand) []respPkg {
	var r []respPkg
	n := rng.Intn(6)
	for i := 0; i < n; i++ {
		switch rng.Intn(8) {
		case 0, 1:
			r = append(r, rEED(1000+rng.Intn(9000), false, "msg "+strconv.Itoa(rng.Intn(100))+"\n"))
		case 2:
			r = append(r, rEED(5701, true, "Changed database context.\n"))
		case 3:
			r = append(r, rEnv([3]string{"\x01", "db" + strconv.Itoa(rng.Intn(9)), "master"}))
		case 4:
			r = append(r, rDone([]int{1, 17, 0x11, 9, 3}[rng.Intn(5)], rng.Intn(50)))
		case 5:
			r = append(r, rMsg(1+rng.Intn(40)))
		case 6:
			r = append(r, rRetStat(rng.Intn(100)-50))
		default:
			r = append(r, rLoginAck(5+rng.Intn(3)))
		}
	}
	switch rng.Intn(4) {
	case 0: // the server's last DONE carries other status bits
		r = append(r, rDone([]int{16, 2, 8, 0x18, 0x12}[rng.Intn(5)], rng.Intn(100)))
	case 1: // no trailing DONE at all
		if len(r) == 0 {
			r = append(r, rMsg(3))
		}
	default:
		r = append(r, rDone(0, rng.Intn(100)))
	}
	return r
}

func respTokens(rng *rand.Rand, r []respPkg) []string {
	body := respBytes(r)
	return cutTokens(body, randomCuts(rng, len(body), rng.Intn(5)))
}

func c03Gen(tier string, rng *rand.Rand, emit func(Case)) {
	emit = withStatusBits(rng, withMidSends(rng, 4, emit))
	n := 400
	if tier == "thorough" {
		n = 4000
	}
	// directed: a response without any DONE after a response ending in DONE(FINAL) (repo fix
	// "forget the last received package at the end of a response"), in both orders of reading
	emit(Case{Line: "use 1 0 final b1:fd0000000000000000 r b1:650301000700 r", Kind: "directed"})
	emit(Case{Line: "use 0 0 nil b1:fd0000000000000000 b1:650301000700 r r", Kind: "directed"})
	emit(Case{Line: "use 0 0 final b1:fd0000000000000000 b1:" + hx(rEED(2000, false, "x\n").bytes) + " r r", Kind: "directed"})
	for _, c := range largeResponses(rng) {
		emit(Case{Line: fmt.Sprintf("use %d 0 final %s r", rng.Intn(2), strings.Join(c, " ")), Kind: "large-package"})
	}
	// a response whose end-of-message packet ends in a package that never completes (cut short, or a token
	// the library does not know), read, then further responses in small packets: nothing of the broken
	// response — bytes, read position, end-of-message state — leaks into the next ones
	for i := 0; i < n/4; i++ {
		var toks []string
		body := append(respBytes(c03Response(rng)), truncatedTail(rng)...)
		toks = append(toks, cutTokens(body, randomCuts(rng, len(body), rng.Intn(3)))...)
		toks = append(toks, "r")
		for j := 0; j < 1+rng.Intn(2); j++ {
			next := respBytes(c03Response(rng))
			if len(next) < 3 {
				next = append(next, rDone(0, 1).bytes...)
			}
			first := 1 + rng.Intn(6)
			if first >= len(next) {
				first = len(next) - 1
			}
			toks = append(append(toks, cutTokens(next, []int{first})...), "r")
		}
		emit(Case{Line: fmt.Sprintf("use %d 0 %s %s", rng.Intn(2), []string{"final", "nil", "final,nil"}[rng.Intn(3)], strings.Join(toks, " ")), Kind: "broken-response-then-next"})
	}
	fullSpecs := []string{"nil", "final", "final", "fail1", "fail2", "fail3", "fail5", "fail9", "cfail1", "cfail2", "cfail3", "weof1", "weof2", "ueof1", "ueof3"}
	for i := 0; i < n; i++ {
		k := 1 + rng.Intn(4)
		var toks []string
		mode := rng.Intn(3) // 0 aligned, 1 batched, 2 mixed
		pending := 0
		for j := 0; j < k; j++ {
			if rng.Intn(4) == 0 { // e.g. the acknowledgement of a logical channel: header-only, EOM status set
				toks = append(toks, []string{"H:11", "h:11"}[rng.Intn(2)])
			}
			toks = append(toks, respTokens(rng, c03Response(rng))...)
			pending++
			if mode == 0 || (mode == 2 && rng.Intn(2) == 0) {
				for ; pending > 0; pending-- {
					toks = append(toks, "r")
				}
			}
		}
		if rng.Intn(5) > 0 { // sometimes the last responses stay unread
			for ; pending > 0; pending-- {
				toks = append(toks, "r")
			}
		}
		var specs []string
		for j := 0; j < 1+rng.Intn(k); j++ {
			specs = append(specs, fullSpecs[rng.Intn(len(fullSpecs))])
		}
		emit(Case{Line: fmt.Sprintf("use %d 0 %s %s", rng.Intn(2), strings.Join(specs, ","), strings.Join(toks, " ")),
			Kind: []string{"aligned", "batched", "mixed"}[mode]})
	}
	// result sets and parameter sets in the history (model correspondence only: the oracle's scanner knows
	// the framing of the self-delimiting packages, a ROW needs its format)
	if rowFields := collectRowFields(tier, rng); len(rowFields) > 0 {
		for i := 0; i < n/5; i++ {
			var toks []string
			k := 1 + rng.Intn(3)
			for j := 0; j < k; j++ {
				var body []byte
				if rng.Intn(3) == 0 {
					body = respBytes(c03Response(rng))
				} else if body = resultSetResponse(rng, rowFields); body == nil {
					body = respBytes(c03Response(rng))
				}
				toks = append(toks, cutTokens(body, randomCuts(rng, len(body), rng.Intn(4)))...)
				toks = append(toks, "r")
			}
			spec := []string{"final", "nil", "fail2", "stop2,final", "eof2,final"}[rng.Intn(5)]
			emit(Case{Line: fmt.Sprintf("use %d 0 %s %s", rng.Intn(2), spec, strings.Join(toks, " ")), Kind: "result-sets"})
		}
	}
	// early stops: the callback returns true / io.EOF inside a response and the consumer goes on reading
	stopSpecs := []string{"final", "stop1", "stop2", "stop3", "eof1", "eof2", "eof4"}
	for i := 0; i < n/8; i++ {
		k := 1 + rng.Intn(3)
		var toks []string
		for j := 0; j < k; j++ {
			toks = append(toks, respTokens(rng, c03Response(rng))...)
		}
		for j := 0; j < k+rng.Intn(k+1); j++ {
			toks = append(toks, "r")
		}
		var specs []string
		for j := 0; j < 1+rng.Intn(3); j++ {
			specs = append(specs, stopSpecs[rng.Intn(len(stopSpecs))])
		}
		emit(Case{Line: fmt.Sprintf("use 0 0 %s %s", strings.Join(specs, ","), strings.Join(toks, " ")), Kind: "early-stop"})
	}
}

// packet sizes a server may announce: usual ones and the boundaries of what the 16-bit header field admits
var packSizes = []int{512, 1024, 2048, 4096, 8192, 16384, 9, 10, 511, 513, 32767, 32768, 40000, 65534, 65535}

func c11Response(rng *rand.Rand) []respPkg {
	var r []respPkg
	n := 1 + rng.Intn(6)
	for i := 0; i < n; i++ {
		switch rng.Intn(9) {
		case 0, 1, 2:
			r = append(r, rEED(1000+rng.Intn(9000), false, "msg "+strconv.Itoa(rng.Intn(100))+"\n"))
		case 3:
			r = append(r, rEED(5701+rng.Intn(3), true, "Changed database context.\n"))
		case 4:
			var ms [][3]string
			for j := 0; j < rng.Intn(4); j++ {
				ms = append(ms, genEnvMember(rng))
			}
			r = append(r, rEnv(ms...))
		case 5:
			r = append(r, rDone([]int{1, 17, 3}[rng.Intn(3)], rng.Intn(50)))
		case 6:
			r = append(r, rMsg(1+rng.Intn(40)))
		default:
			r = append(r, rRetStat(rng.Intn(100)-50))
		}
	}
	if rng.Intn(3) > 0 {
		r = append(r, rDone(0, rng.Intn(100)))
		// packages the consumer never sees may still follow the final DONE
		switch rng.Intn(6) {
		case 0:
			r = append(r, rEnv([3]string{"\x01", "db" + strconv.Itoa(rng.Intn(9)), "master"}))
		case 1:
			r = append(r, rEED(5701+rng.Intn(2), true, "Changed database context.\n"))
		}
	} else {
		r = append(r, rDone(2, rng.Intn(100)))
	}
	return r
}

func c11Gen(tier string, rng *rand.Rand, emit func(Case)) {
	emit = withStatusBits(rng, withMidSends(rng, 4, emit))
	n := 400
	if tier == "thorough" {
		n = 4000
	}
	specsPool := []string{"final", "final", "nil", "fail1", "fail2", "fail3", "fail4", "fail6", "cfail1", "cfail2", "cfail3", "weof1", "weof3", "ueof2"}
	for i := 0; i < n; i++ {
		k := 1 + rng.Intn(3)
		var toks []string
		batched := rng.Intn(3) == 0
		for j := 0; j < k; j++ {
			rt := respTokens(rng, c11Response(rng))
			// hooks registered between responses, or between the packets of one
			for h := 0; h < rng.Intn(3); h++ {
				hook := []string{"+e", "+n", "+e", "+n", "+E", "+N"}[rng.Intn(6)]
				at := 0
				if rng.Intn(3) == 0 {
					at = rng.Intn(len(rt))
				}
				rt = append(append(append([]string{}, rt[:at]...), hook), rt[at:]...)
			}
			toks = append(toks, rt...)
			if !batched {
				toks = append(toks, "r")
			}
		}
		if batched && rng.Intn(2) == 0 {
			for j := 0; j < k; j++ {
				toks = append(toks, "r")
			}
		}
		var specs []string
		for j := 0; j < 1+rng.Intn(k); j++ {
			specs = append(specs, specsPool[rng.Intn(len(specsPool))])
		}
		kind := "interleaved-reads"
		if batched {
			kind = "batched"
		}
		ne, nv := rng.Intn(3), rng.Intn(3)
		if i%8 == 3 {
			// many hooks (an application with a hook per subsystem): every one of them is called
			ne, nv = []int{3, 4, 5, 7, 9, 17}[rng.Intn(6)], []int{0, 3, 4, 5, 8}[rng.Intn(5)]
			kind += "-many-hooks"
		}
		emit(Case{Line: fmt.Sprintf("use %d %d %s %s", ne, nv, strings.Join(specs, ","), strings.Join(toks, " ")), Kind: kind})
	}
}

func init() {
	register(&Prop{
		ID: "C03", Gen: func(tier string, rng *rand.Rand, emit func(Case)) { c03Gen(tier, rng, viaReaderTwins(emit)) }, Impl: useImpl,
		Oracle:     func(line, out string) string { return withUseReference(c03Oracle)(directLine(line), out) },
		FindingKey: func(line, out, clause string) string { return clause },
		Nontrivial: func(line, out string) bool { return strings.Count(line, " b1:") >= 2 },
		NoShrink:   true, Timeout: 30 * time.Second,
		Rule:        "histories of 1..4 well-formed responses (EED interleaved, ENVCHANGE, DONE(MORE) result-set ends, trailing DONE with COUNT/PROC/ERROR bits, no DONE at all), each cut randomly into packets, fed to the real Channel.WritePacket and read with the real NextPackageUntil round by round (right after each response, after all of them, or mixed) with callbacks that read to the final DONE, are nil, fail at the j-th package, or stop / return io.EOF early and continue reading. Non-trivial = at least two responses",
		Assumptions: []string{"a DONE with final status is the last package of its response (TDS: it ends the response)", "a round is started only after its response has arrived completely (reads that wait for packets are covered by the Lean model `blocked` and by C14)"},
	})
	register(&Prop{
		ID: "C11", Gen: func(tier string, rng *rand.Rand, emit func(Case)) { c11Gen(tier, rng, viaReaderTwins(emit)) }, Impl: useImpl,
		Oracle:     func(line, out string) string { return withUseReference(c11Oracle)(directLine(line), out) },
		FindingKey: func(line, out, clause string) string { return clause },
		Nontrivial: func(line, out string) bool { return !strings.HasSuffix(out, "H=[]") },
		NoShrink:   true, Timeout: 30 * time.Second,
		Rule:        "histories of 1..3 responses rich in EED (info / non-info) and ENVCHANGE packages (0..3 members of types database, language, charset, packet size), randomly cut into packets, 0..2 hooks of each kind registered up front and further ones between responses or between the packets of one, read with callbacks that succeed, are nil or fail at the j-th package. Non-trivial = at least one hook call",
		Assumptions: []string{"PACKSIZE values are valid sizes (malformed ones: C10)", "a hook is due for the messages parsed after its registration"},
	})
}

// genEnvMember draws one ENVCHANGE member: every type the protocol names (and one it does not), the new
// and the old value independently empty or not — a member whose new value is empty and whose old value
// is not is as legal as the reverse.
func genEnvMember(rng *rand.Rand) [3]string {
	vals := []string{"", "", "master", "db" + strconv.Itoa(rng.Intn(9)), "us_english", "utf8", "iso_1", "x"}
	switch rng.Intn(6) {
	case 0:
		return [3]string{"\x01", "db" + strconv.Itoa(rng.Intn(9)), "master"}
	case 1:
		olds := []string{"512", "", "2048", "x"}
		return [3]string{"\x04", strconv.Itoa(packSizes[rng.Intn(len(packSizes))]), olds[rng.Intn(len(olds))]}
	default:
		ty := []string{"\x01", "\x02", "\x03", "\x05", "\x07"}[rng.Intn(5)]
		return [3]string{ty, vals[rng.Intn(len(vals))], vals[rng.Intn(len(vals))]}
	}
}

// ---------------------------------------------------------------------------------------------
// reference for the lines the scanner above cannot take apart (result sets: the length of a row depends
// on its format): the same responses, each delivered in ONE packet and without any send in between. When
// every round starts at a message boundary and no hook is registered inside a message, what the consumer
// and the hooks see is a function of the responses alone, so the two answers must be the same.

const useClauseRef = "a response that arrives in several packets, or while the client is sending, is consumed exactly like the same response arriving in one packet (same packages per round, same result, same hook calls, nothing left behind)"

var useRefCache sync.Map

func useReferenceLine(line string) (string, bool) {
	f := strings.Fields(line)
	if len(f) < 5 || f[0] != "use" {
		return "", false
	}
	out := append([]string{}, f[:4]...)
	var body []byte
	changed := false
	for _, t := range f[4:] {
		switch {
		case t == "snd":
			changed = true
		case t == "r" || t == "+e" || t == "+n" || t == "+E" || t == "+N" || strings.HasPrefix(t, "h:") || strings.HasPrefix(t, "H:"):
			if len(body) != 0 {
				return "", false // inside a message: the answer depends on the packetisation
			}
			out = append(out, t)
		case strings.HasPrefix(t, "b") && strings.Contains(t, ":"):
			i := strings.Index(t, ":")
			st, ok := bodyTokStatus(t[:i])
			if !ok {
				return "", false
			}
			body = append(body, unhx(t[i+1:])...)
			if st%2 == 0 {
				changed = true
				continue
			}
			if st != 1 {
				changed = true // other status bits are dropped in the reference
			}
			out = append(out, "b1:"+hx(body))
			body = nil
		default:
			return "", false
		}
	}
	if len(body) != 0 || !changed {
		return "", false
	}
	return strings.Join(out, " "), true
}

func withUseReference(oracle func(line, out string) string) func(line, out string) string {
	return func(line, out string) string {
		if c := oracle(line, out); c != "" {
			return c
		}
		ref, ok := useReferenceLine(line)
		if !ok || out == "bad-op" {
			return ""
		}
		var want string
		if v, ok := useRefCache.Load(ref); ok {
			want = v.(string)
		} else {
			want = useImpl(ref)
			useRefCache.Store(ref, want)
		}
		if want != out {
			return useClauseRef
		}
		return ""
	}
}

// rule addenda (rounds 9-12): what the evidence says about the coverage of a run
func init() {
	if p := registry["C03"]; p != nil {
		p.Rule += " Every 6th use case runs a second time as user (packets through the connection's reader goroutine); large-package histories."
	}
	if p := registry["C11"]; p != nil {
		p.Rule += " One case in eight with 3..17 hooks of each kind; hooks are registered in one call from a list the harness overwrites afterwards; every 6th case a second time through the connection's reader goroutine."
	}
}
