package main

// C08 — Login succeeds exactly when the server accepted it. C09 shares the scripted peer.
//
// Line: `login <encrypt> <hostlen> <pwlen> <tok> <tok> …`
//   <encrypt>  LoginConfig.Encrypt as a number (0 = plain, 35 = TDS_MSG_SEC_ENCRYPT4, 1/14/30 = unsupported)
//   <hostlen>  length of the client host name (> 30 makes the login record builder fail)
//   <pwlen>    length of the password
// reply tokens, in the order the server sends them (`|` ends a server message = EOM packet):
//   la:<status> LOGINACK   dn:<status> DONE   msg:<id> MSG   pf:<types> PARAMFMT (types i=INT4 l=LONGBINARY v=VARCHAR b=VARBINARY)
//   pm:<vals>   PARAMS matching the preceding pf (i<v> int, k valid PEM key, kb garbage key, kt PEM key with
//               trailing bytes, n<len> nonce of len bytes, e empty longbinary, v varchar "x")
//   cap:ok | cap:zero | cap:noreq | cap:nores | cap:empty CAPABILITY (all-zero masks; a type left out)   eed  EED (non-info)   ot  RETURNSTATUS   env:<size> ENVCHANGE(PACKSIZE)
// Answer: `success|error|blocked <messages sent by the client>` (+ ` # <oracle verdict>` on the Go side).

import (
	"bytes"
	"context"
	"crypto/rand"
	"crypto/rsa"
	"crypto/x509"
	"encoding/binary"
	"encoding/pem"
	"errors"
	"fmt"
	mrand "math/rand"
	"strconv"
	"strings"
	"sync"
	"time"

	"github.com/SAP/go-dblib/tds"
)

var (
	rsaOnce sync.Once
	rsaKey  *rsa.PrivateKey
	rsaPEM  []byte
)

func testKey() (*rsa.PrivateKey, []byte) {
	rsaOnce.Do(func() {
		k, err := rsa.GenerateKey(rand.Reader, 1024)
		if err != nil {
			panic(err)
		}
		rsaKey = k
		rsaPEM = pem.EncodeToMemory(&pem.Block{Type: "RSA PUBLIC KEY", Bytes: x509.MarshalPKCS1PublicKey(&k.PublicKey)})
	})
	return rsaKey, rsaPEM
}

// testKeyN: one of three server key pairs (a server may change its key pair; a client may talk to
// several servers in one process)
var (
	rsaNOnce sync.Once
	rsaKeys  []*rsa.PrivateKey
	rsaPEMs  [][]byte
)

func testKeyN(i int) (*rsa.PrivateKey, []byte) {
	rsaNOnce.Do(func() {
		k0, p0 := testKey()
		rsaKeys, rsaPEMs = append(rsaKeys, k0), append(rsaPEMs, p0)
		for j := 0; j < 2; j++ {
			k, err := rsa.GenerateKey(rand.Reader, 1024)
			if err != nil {
				panic(err)
			}
			rsaKeys = append(rsaKeys, k)
			rsaPEMs = append(rsaPEMs, pem.EncodeToMemory(&pem.Block{Type: "RSA PUBLIC KEY", Bytes: x509.MarshalPKCS1PublicKey(&k.PublicKey)}))
		}
	})
	if i < 0 {
		i = -i
	}
	return rsaKeys[i%len(rsaKeys)], rsaPEMs[i%len(rsaPEMs)]
}

type loginRun struct {
	outcome  string
	sent     int
	wire     []byte // everything the client wrote
	errText  string
	conn     *tds.Conn
	password string
	nonces   [][]byte
	capMask  []byte
	packSize int
}

// buildReplies turns the reply tokens into server messages (bytes per message).
func buildReplies(toks []string) (msgs [][]byte, nonces [][]byte, capMask []byte, packSize int, ok bool) {
	_, pemKey := testKey()
	var cur []byte
	var lastTypes string
	packSize = 0
	for _, t := range toks {
		f := strings.SplitN(t, ":", 2)
		arg := ""
		if len(f) == 2 {
			arg = f[1]
		}
		switch f[0] {
		case "|":
			msgs = append(msgs, cur)
			cur = nil
		case "la":
			n, _ := strconv.Atoi(arg)
			capMask = nil // the capability package Login reads is the first one after the acknowledgement
			cur = append(cur, wLoginAck(n, "ASE")...)
		case "dn":
			n, _ := strconv.Atoi(arg)
			cur = append(cur, wDone(0xFD, n, 0, 0)...)
		case "msg":
			n, _ := strconv.Atoi(arg)
			cur = append(cur, wMsg(1, n)...)
		case "pf":
			lastTypes = arg
			var fs []wFmt
			for _, c := range arg {
				switch c {
				case 'i':
					fs = append(fs, wFmt{datatype: 0x38})
				case 'l':
					fs = append(fs, wFmt{datatype: 0xE1, fmtBytes: le32(0x7fffffff)})
				case 'v':
					fs = append(fs, wFmt{datatype: 0x27, fmtBytes: []byte{255}})
				case 'b': // VARBINARY: the same bytes as LONGBINARY could carry, under a one-byte length
					fs = append(fs, wFmt{datatype: 0x25, fmtBytes: []byte{255}})
				default:
					return nil, nil, nil, 0, false
				}
			}
			cur = append(cur, wParamFmt(fs)...)
		case "pm":
			vals := strings.Split(arg, ",")
			if arg == "" {
				vals = nil
			}
			if len(vals) != len(lastTypes) {
				return nil, nil, nil, 0, false
			}
			var data [][]byte
			for i, v := range vals {
				switch lastTypes[i] {
				case 'i':
					if !strings.HasPrefix(v, "i") {
						return nil, nil, nil, 0, false
					}
					n, _ := strconv.Atoi(v[1:])
					data = append(data, le32(n))
				case 'l':
					var b []byte
					switch {
					case v == "k":
						b = pemKey
					case v == "kb":
						b = []byte("not a key")
					case v == "kt":
						b = append(append([]byte{}, pemKey...), "trailing"...)
					case v == "kw": // nothing but white space
						b = []byte(" \n\t\r\n")
					case v == "kl": // a line break, nothing else
						b = []byte("\n")
					case v == "kz": // line break and a NUL byte
						b = []byte("\r\n\x00")
					case v == "kn": // a key followed by blank lines
						b = append(append([]byte{}, pemKey...), "\n\n"...)
					case v == "kh": // the first half of a key
						b = append([]byte{}, pemKey[:len(pemKey)/2]...)
					case v == "kx" || v == "ky" || v == "kq":
						// a length field that announces far more than ever arrives (high bit set or not): the
						// package never completes — Login ends with an error when its context expires
						hostile := map[string]uint32{"kx": 0xFFFFFFFF, "ky": 0x80000000, "kq": 0x7FFFFFFF}[v]
						lb := make([]byte, 4)
						binary.LittleEndian.PutUint32(lb, hostile)
						data = append(data, append(lb, 1, 2, 3, 4))
						continue
					case v == "e":
						b = nil
					case strings.HasPrefix(v, "n"):
						n, _ := strconv.Atoi(v[1:])
						b = make([]byte, n)
						rand.Read(b)
						nonces = append(nonces, b)
					default:
						return nil, nil, nil, 0, false
					}
					data = append(data, append(le32(len(b)), b...))
				case 'v':
					data = append(data, []byte{1, 'x'})
				case 'b':
					var b []byte
					switch {
					case v == "bk":
						b = pemKey
					case strings.HasPrefix(v, "bn"):
						n, _ := strconv.Atoi(v[2:])
						b = make([]byte, n)
						rand.Read(b)
					default:
						return nil, nil, nil, 0, false
					}
					if len(b) > 255 {
						return nil, nil, nil, 0, false
					}
					data = append(data, append([]byte{byte(len(b))}, b...))
				}
			}
			cur = append(cur, wParams(0xD7, data)...)
		case "cap":
			req := make([]byte, 14)
			res := make([]byte, 7)
			if arg == "ok" {
				req[13] = 0x02 // TDS_REQ_LANG
				req[5] = 0x40
				res[6] = 0x02
			}
			if capMask == nil {
				capMask = req
			}
			// replies that leave a capability type out: the client keeps its empty default mask for that
			// type, which counts as "not understood" like an explicit all-zero mask
			types := map[byte][]byte{1: req, 2: res}
			if arg == "okz" {
				// a valid reply that also lists the security type with a mask of length zero
				req[13], req[5], res[6] = 0x02, 0x40, 0x02
				types[3] = []byte{}
			}
			switch arg {
			case "noreq", "nores", "empty":
				req[13], req[5], res[6] = 0x02, 0x40, 0x02
				if arg != "nores" {
					delete(types, 1)
				}
				if arg != "noreq" {
					delete(types, 2)
				}
			}
			cur = append(cur, wCapability(types)...)
		case "eed":
			cur = append(cur, wEED(4002, 0, "Login failed.\n")...)
		case "ot":
			cur = append(cur, append([]byte{0x79}, le32(7)...)...)
		case "env":
			packSize, _ = strconv.Atoi(arg)
			cur = append(cur, wEnvChange([3]string{"\x04", arg, "512"})...)
		default:
			return nil, nil, nil, 0, false
		}
	}
	if cur != nil {
		msgs = append(msgs, cur)
	}
	return msgs, nonces, capMask, packSize, true
}

// loginFields splits a login line; a token `cut:<k>` (the replies are packetised every k bytes) is taken
// out of the reply tokens
func loginFields(line string) (f []string, cut int) {
	for _, t := range strings.Fields(line) {
		if strings.HasPrefix(t, "cut:") {
			cut, _ = strconv.Atoi(t[4:])
			continue
		}
		if t == "eof" { // the peer closes the connection right behind its last reply (see runLogin)
			continue
		}
		f = append(f, t)
	}
	return
}

func cutsEvery(n, k int) []int {
	var cuts []int
	if k <= 0 {
		return nil
	}
	for c := k; c < n; c += k {
		cuts = append(cuts, c)
	}
	return cuts
}

func runLogin(line string, timeout time.Duration) (*loginRun, bool) {
	f, cutK := loginFields(line)
	if len(f) < 4 {
		return nil, false
	}
	enc, e1 := strconv.Atoi(f[1])
	hostlen, e2 := strconv.Atoi(f[2])
	pwlen, e3 := strconv.Atoi(f[3])
	if e1 != nil || e2 != nil || e3 != nil {
		return nil, false
	}
	msgs, nonces, capMask, packSize, ok := buildReplies(f[4:])
	if !ok {
		return nil, false
	}
	mc := newMemConn()
	info := testInfo()
	info.Host = "dbhost"
	info.Username = "sa"
	pw := strings.Repeat("Pw1!", pwlen/4+1)[:pwlen]
	info.Password = pw
	info.ClientHostname = strings.Repeat("h", hostlen)
	conn, err := tds.VerifNewConn(context.Background(), mc, info, true)
	if err != nil {
		return nil, false
	}
	ch, err := conn.NewChannel()
	if err != nil {
		return nil, false
	}
	cfg, err := tds.NewLoginConfig(info)
	if err != nil {
		return nil, false
	}
	// NewLoginConfig truncates the host name to 30 bytes; a longer one set afterwards makes pack() fail
	cfg.Hostname = strings.Repeat("h", hostlen)
	cfg.Encrypt = tds.TDSMsgId(enc)
	ctx, cancel := context.WithTimeout(context.Background(), timeout)
	defer cancel()
	if strings.Contains(line, " env:") {
		// a server announces its packet size in reply to a complete client message: feed server
		// message i only after the client has sent i messages (a packet size change while the
		// client is in the middle of a message is outside C08)
		go func() {
			for i, m := range msgs {
				for countEOM(mc.written()) < i+1 {
					select {
					case <-ctx.Done():
						return
					case <-time.After(time.Millisecond):
					}
				}
				mc.feed(packetize(m, cutsEvery(len(m), cutK), 4, 0))
			}
		}()
	} else {
		for _, m := range msgs {
			mc.feed(packetize(m, cutsEvery(len(m), cutK), 4, 0))
		}
	}
	if strings.HasSuffix(line, " eof") && !strings.Contains(line, " env:") {
		// the replies are all there and the peer has gone: what was received counts — a login the server
		// accepted succeeds although the transport's end is reported while the replies are being consumed
		mc.end()
		for i := 0; i < 200 && len(conn.VerifErrCh()) == 0; i++ {
			time.Sleep(100 * time.Microsecond)
		}
	}
	lerr := ch.Login(ctx, cfg)
	r := &loginRun{conn: conn, password: pw, nonces: nonces, capMask: capMask, packSize: packSize}
	switch {
	case lerr == nil:
		r.outcome = "success"
	case errors.Is(lerr, context.DeadlineExceeded):
		r.outcome = "blocked"
		r.errText = lerr.Error()
	default:
		r.outcome = "error"
		r.errText = lerr.Error()
	}
	// an announcement that stands behind the accepting DONE in the same packet is applied by the reader
	// goroutine while Login is already returning: give it a moment before the connection is taken down
	for i := 0; i < 300 && r.outcome == "success" && packSize != 0 && conn.PacketSize() != packSize; i++ {
		time.Sleep(time.Millisecond)
	}
	r.wire = mc.written()
	r.sent = countEOM(r.wire)
	mc.end()
	conn.VerifCancel()
	return r, true
}

// countEOM counts the client messages on the wire: packets with the EOM status
func countEOM(w []byte) int {
	n := 0
	for len(w) >= 8 {
		l := int(w[2])<<8 | int(w[3])
		if l < 8 || l > len(w) {
			break
		}
		if w[1]&1 == 1 {
			n++
		}
		w = w[l:]
	}
	return n
}

// acceptsScript: the acceptance grammar of the property statement applied to the reply tokens
// (independent of the Lean model): returns whether Login must succeed.
func acceptsScript(enc, hostlen, pwlen int, toks []string) bool {
	if enc == 1 || enc == 14 || enc == 30 || hostlen > 30 {
		return false
	}
	if enc != 35 && pwlen > 30 {
		return false // the clear text password does not fit its slot in the login record: rejected
	}
	// delivered packages: per message the packages (ENVCHANGE filtered) and a synthetic final DONE
	// unless the message's last recorded package is a DONE with status 0
	var del []string
	last := ""
	flush := func() {
		if !(strings.HasPrefix(last, "dn:") && last == "dn:0") {
			del = append(del, "dn:0")
		}
	}
	pending := false
	for _, t := range toks {
		if t == "|" {
			flush()
			pending = false
			continue
		}
		pending = true
		if strings.HasPrefix(t, "env:") {
			continue
		}
		del = append(del, t)
		if t != "eed" {
			last = t
		}
	}
	if pending {
		flush()
	}
	i := 0
	next := func() string {
		if i < len(del) {
			i++
			return del[i-1]
		}
		return ""
	}
	if enc != 35 {
		return next() == "la:5" && next() == "dn:0"
	}
	if next() != "la:7" || next() != "msg:35" {
		return false
	}
	pf := next()
	if !strings.HasPrefix(pf, "pf:") || len(pf) != 6 {
		return false
	}
	pm := next()
	if !strings.HasPrefix(pm, "pm:") {
		return false
	}
	if !strings.HasPrefix(next(), "dn:") {
		return false
	}
	vals := strings.Split(pm[3:], ",")
	if len(vals) != 3 || pf != "pf:ill" || vals[0] != "i1" || vals[1] != "k" || !strings.HasPrefix(vals[2], "n") {
		return false
	}
	nl, _ := strconv.Atoi(vals[2][1:])
	if nl == 0 {
		return false // an empty nonce parameter has no value
	}
	// RSA-OAEP/SHA-1 with a 1024 bit key carries at most 128-42 = 86 bytes
	if nl+pwlen > 86 || nl+32 > 86 {
		return false
	}
	// skip packages that are no login acknowledgement
	for {
		t := next()
		if t == "" {
			return false
		}
		if strings.HasPrefix(t, "la:") {
			if t != "la:5" {
				return false
			}
			break
		}
	}
	if c := next(); c != "cap:ok" && c != "cap:okz" {
		return false
	}
	return next() == "dn:0"
}

func loginImpl(line string) string {
	f, _ := loginFields(line)
	r, ok := runLogin(line, 250*time.Millisecond)
	if !ok {
		return "bad-op"
	}
	enc, _ := strconv.Atoi(f[1])
	hostlen, _ := strconv.Atoi(f[2])
	pwlen, _ := strconv.Atoi(f[3])
	verdict := "ok"
	want := acceptsScript(enc, hostlen, pwlen, f[4:])
	if want && r.outcome != "success" {
		verdict = "a valid acceptance must be reported as success (" + r.outcome + ": " + clip(r.errText, 80) + ")"
	}
	if !want && r.outcome == "success" {
		verdict = "success must be reported exactly when the server accepted the login"
	}
	if r.outcome == "success" && verdict == "ok" {
		// post state: capabilities are the server's, packet size the announced one
		if r.capMask != nil && enc == 35 {
			q := newQueue()
			r.conn.Caps.WriteTo(q)
			if !bytes.Contains(queueBytes(q), r.capMask) {
				verdict = "after success the capability set is the one the server returned"
			}
		}
		// an announcement that stands behind the accepting DONE in the same packet is applied by the reader
		// goroutine while Login is already returning: give it a moment
		for i := 0; i < 300 && r.packSize != 0 && r.conn.PacketSize() != r.packSize; i++ {
			time.Sleep(time.Millisecond)
		}
		if r.packSize != 0 && r.conn.PacketSize() != r.packSize {
			verdict = "after success the packet size is the one the server announced"
		}
	}
	return fmt.Sprintf("%s %d # %s", r.outcome, r.sent, verdict)
}

var loginEdits = []string{"la:5", "la:6", "la:7", "dn:0", "dn:2", "dn:1", "dn:16", "dn:256", "dn:32768", "dn:258", "msg:35", "msg:31", "msg:1", "pf:ill", "pf:il", "pf:illl", "pf:lli", "pf:ivl", "pf:ibl", "pf:ilb", "pf:ibb",
	"pm:i1,k,n16", "pm:i2,k,n16", "pm:i1,kb,n16", "pm:i1,kt,n16", "pm:i1,kw,n16", "pm:i1,kl,n16", "pm:i1,kz,n16", "pm:i1,kn,n16", "pm:i1,kh,n16", "pm:i1,kx,n16", "pm:i1,ky,n16", "pm:i1,kq,n16", "pm:i1,k,n0", "pm:i1,e,n16", "pm:i1,k,n60", "env:2048", "env:512", "cap:ok", "cap:okz", "cap:zero", "cap:noreq", "cap:nores", "cap:empty", "eed", "ot", "|"}

func pmFor(pf string, rng *mrand.Rand) string {
	var vals []string
	for _, c := range pf[3:] {
		switch c {
		case 'i':
			vals = append(vals, "i1")
		case 'l':
			if len(vals) == 1 {
				vals = append(vals, "k")
			} else {
				vals = append(vals, "n16")
			}
		case 'v':
			vals = append(vals, "v")
		case 'b':
			if len(vals) == 1 {
				vals = append(vals, "bk")
			} else {
				vals = append(vals, "bn16")
			}
		}
	}
	return "pm:" + strings.Join(vals, ",")
}

// fixScript makes pf/pm consistent (a pm must match the types of the preceding pf; otherwise the
// byte stream would be garbage rather than a different package sequence)
func fixScript(toks []string, rng *mrand.Rand) []string {
	var out []string
	lastPf := ""
	prev := ""
	for _, t := range toks {
		if strings.HasPrefix(t, "pf:") {
			lastPf = t
		}
		if strings.HasPrefix(t, "pm:") {
			// a PARAMS package is only parseable right after its PARAMFMT (or another PARAMS);
			// EED and ENVCHANGE in between do not matter
			if lastPf == "" || !(strings.HasPrefix(prev, "pf:") || strings.HasPrefix(prev, "pm:")) {
				continue
			}
			vals := strings.Split(t[3:], ",")
			okv := len(vals) == len(lastPf)-3
			if okv {
				for i, c := range lastPf[3:] {
					v := vals[i]
					switch c {
					case 'i':
						okv = okv && strings.HasPrefix(v, "i")
					case 'l':
						okv = okv && (v == "k" || v == "kb" || v == "kt" || v == "kw" || v == "kl" || v == "kz" || v == "kn" || v == "kh" || v == "kx" || v == "ky" || v == "kq" || v == "e" || strings.HasPrefix(v, "n"))
					case 'v':
						okv = okv && v == "v"
					case 'b':
						okv = okv && (v == "bk" || strings.HasPrefix(v, "bn"))
					}
				}
			}
			if !okv {
				t = pmFor(lastPf, rng)
			}
		}
		out = append(out, t)
		if t != "eed" && !strings.HasPrefix(t, "env:") {
			prev = t
		}
	}
	return out
}

func loginGen(tier string, rng *mrand.Rand, emit func(Case)) {
	plain := []string{"la:5", "dn:0", "|"}
	encd := []string{"la:7", "msg:35", "pf:ill", "pm:i1,k,n16", "dn:0", "|", "la:5", "cap:ok", "dn:0", "|"}
	emitS := func(kind string, enc, hostlen, pwlen int, toks []string) {
		toks = fixScript(toks, rng)
		emit(Case{Line: fmt.Sprintf("login %d %d %d %s", enc, hostlen, pwlen, strings.Join(toks, " ")), Kind: kind})
	}
	for _, base := range []struct {
		enc  int
		toks []string
	}{{0, plain}, {35, encd}} {
		emitS("valid", base.enc, 8, 12, base.toks)
		// the packet size is announced with the final acknowledgement
		// (every size the header's 16-bit length field and the library's own check admit: boundaries)
		for _, sz := range []int{2048, 9, 512, 4096, 16384, 32767, 32768, 40000, 65535} {
			withEnv := append([]string{}, base.toks...)
			withEnv = append(append(withEnv[:len(withEnv)-2:len(withEnv)-2], fmt.Sprintf("env:%d", sz)), base.toks[len(base.toks)-2:]...)
			emitS("valid-env", base.enc, 8, 12, withEnv)
			if sz == 2048 || sz == 512 {
				// the server first confirms the size in force (old value = new value), then announces another one
				two := append([]string{}, base.toks...)
				two = append(append(two[:len(two)-2:len(two)-2], "env:512", fmt.Sprintf("env:%d", sz)), base.toks[len(base.toks)-2:]...)
				emitS("valid-env-confirmed-then-changed", base.enc, 8, 12, two)
			}
		}
		// every packetisation of the replies: the valid scripts (with and without the packet size
		// announcement) cut every k bytes, k = 1..16 and some larger ones
		for _, k := range []int{1, 2, 3, 4, 5, 6, 7, 8, 9, 10, 11, 12, 13, 14, 15, 16, 23, 64, 200} {
			emitS("valid-cut", base.enc, 8, 12, append([]string{fmt.Sprintf("cut:%d", k)}, base.toks...))
			emitS("valid-then-peer-closes", base.enc, 8, 12, append(append([]string{fmt.Sprintf("cut:%d", k)}, base.toks...), "eof"))
			withEnv := append([]string{fmt.Sprintf("cut:%d", k)}, base.toks...)
			withEnv = append(append(withEnv[:len(withEnv)-2:len(withEnv)-2], "env:2048"), base.toks[len(base.toks)-2:]...)
			emitS("valid-cut-env", base.enc, 8, 12, withEnv)
		}
		// single-edit mutants: delete, duplicate, swap, replace, insert
		for i := range base.toks {
			del := append(append([]string{}, base.toks[:i]...), base.toks[i+1:]...)
			emitS("delete", base.enc, 8, 12, del)
			dup := append(append(append([]string{}, base.toks[:i+1]...), base.toks[i]), base.toks[i+1:]...)
			emitS("duplicate", base.enc, 8, 12, dup)
			if i+1 < len(base.toks) {
				sw := append([]string{}, base.toks...)
				sw[i], sw[i+1] = sw[i+1], sw[i]
				emitS("swap", base.enc, 8, 12, sw)
			}
			for _, e := range loginEdits {
				rep := append([]string{}, base.toks...)
				rep[i] = e
				emitS("replace", base.enc, 8, 12, rep)
				ins := append(append(append([]string{}, base.toks[:i]...), e), base.toks[i:]...)
				emitS("insert", base.enc, 8, 12, ins)
			}
		}
		// configurations: unsupported encryption ids, host name too long, password lengths
		for _, enc := range []int{1, 14, 30, 31, 2, 35, 0} {
			emitS("config", enc, 8, 12, base.toks)
		}
		for _, hl := range []int{0, 30, 31, 60} {
			emitS("config", base.enc, hl, 12, base.toks)
		}
		for _, pl := range []int{0, 1, 30, 31, 54, 70, 71, 90} {
			emitS("pwlen", base.enc, 8, pl, base.toks)
		}
	}
	n := 150
	if tier == "thorough" {
		n = 3000
	}
	for i := 0; i < n; i++ {
		base := encd
		enc := 35
		if rng.Intn(3) == 0 {
			base, enc = plain, 0
		}
		toks := append([]string{}, base...)
		for e := 0; e < 1+rng.Intn(3); e++ {
			j := rng.Intn(len(toks))
			switch rng.Intn(3) {
			case 0:
				toks = append(toks[:j], toks[j+1:]...)
			case 1:
				toks[j] = loginEdits[rng.Intn(len(loginEdits))]
			default:
				toks = append(append(append([]string{}, toks[:j]...), loginEdits[rng.Intn(len(loginEdits))]), toks[j:]...)
			}
			if len(toks) == 0 {
				toks = []string{"dn:0"}
			}
		}
		emitS("multi-edit", enc, 8, rng.Intn(40), toks)
	}
}

func init() {
	register(&Prop{
		ID:     "C08",
		Gen:    loginGen,
		Impl:   loginImpl,
		Oracle: txOracle,
		// a reply whose length field announces more than ever arrives: outside the login model (it works on
		// delivered packages); judged by the oracle (no success, no crash, an answer when the context expires)
		NoModel: func(line string) bool {
			return strings.Contains(line, ",kx,") || strings.Contains(line, ",ky,") || strings.Contains(line, ",kq,")
		},
		Agree:      func(m, i string) bool { return m == txStrip(i) },
		FindingKey: func(line, out, clause string) string { return clause },
		Nontrivial: func(line, out string) bool { return !strings.HasPrefix(out, "error 0") },
		Rule:       "scripted peer over an in-memory transport (net.Conn read semantics): the valid reply scripts of both flows, all single-edit mutants (delete / duplicate / swap / replace by or insert one of 28 packages), unsupported encryption ids, host names 0..60, password lengths 0..90 (RSA-OAEP capacity), random multi-edit scripts; real RSA key (1024 bit). Outcome = success | error | blocked (returns when the 250 ms context expires) and the number of messages the client sent. Non-trivial = the client got past building the login record",
		Timeout:    20 * time.Second,
		Assumptions: []string{"replies are pre-queued by the peer; the order in which Login consumes them is what matters, not the timing",
			"byte-level malformation of replies is C10's business; here scripts are sequences of well-formed packages"},
	})
}

// rule addenda (rounds 9-12): what the evidence says about the coverage of a run
func init() {
	if p := registry["C08"]; p != nil {
		p.Rule += " Edits include DONE status words with bits above 0x80, ENVCHANGE in front of any reply package, CAPABILITY replies that leave a type out, keys that are white space / a half key / followed by blank lines, and PARAMS whose LONGBINARY length field is 0xFFFFFFFF / 0x80000000 / 0x7FFFFFFF (outside the login model: judged by the oracle only)."
	}
}
