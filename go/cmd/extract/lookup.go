package main

import (
	"fmt"
	"go/ast"
	"strings"
)

// genLookup translates the switch of LookupPackage (tds/package.go): token → package type, wide flag.
func genLookup(repo string) (*leanFile, error) {
	p, err := loadPkg(repo, "tds")
	if err != nil {
		return nil, err
	}
	fd := p.funcDecl("", "LookupPackage")
	if fd == nil {
		return nil, fmt.Errorf("LookupPackage not found")
	}
	var sw *ast.SwitchStmt
	for _, st := range fd.Body.List {
		if s, ok := st.(*ast.SwitchStmt); ok {
			sw = s
		}
	}
	if sw == nil {
		return nil, fmt.Errorf("LookupPackage: no switch")
	}
	lf := &leanFile{name: "Lookup.lean"}
	lf.pf("namespace Dblib.Gen.Lookup\n\n")
	var rows []string
	dflt := ""
	for _, c := range sw.Body.List {
		cc := c.(*ast.CaseClause)
		if len(cc.Body) != 1 {
			return nil, fmt.Errorf("LookupPackage: case with %d statements", len(cc.Body))
		}
		ret, ok := cc.Body[0].(*ast.ReturnStmt)
		if !ok || len(ret.Results) < 1 || len(ret.Results) > 2 {
			return nil, fmt.Errorf("LookupPackage: unrecognised case body")
		}
		if _, isCall := ret.Results[0].(*ast.CallExpr); len(ret.Results) == 1 && !isCall {
			return nil, fmt.Errorf("LookupPackage: unrecognised case body")
		}
		typ, wide := "", false
		switch r := ret.Results[0].(type) {
		case *ast.UnaryExpr: // &T{…}
			cl, ok := r.X.(*ast.CompositeLit)
			if !ok {
				return nil, fmt.Errorf("LookupPackage: unrecognised constructor %s", exprStr(r))
			}
			typ = exprStr(cl.Type)
			for _, el := range cl.Elts {
				if kv, ok := el.(*ast.KeyValueExpr); ok && exprStr(kv.Key) == "wide" && exprStr(kv.Value) == "true" {
					wide = true
				}
			}
		case *ast.CallExpr:
			typ = strings.TrimPrefix(exprStr(r.Fun), "New")
		default:
			return nil, fmt.Errorf("LookupPackage: unrecognised result %s", exprStr(ret.Results[0]))
		}
		if cc.List == nil {
			dflt = typ
			continue
		}
		for _, e := range cc.List {
			v, ok := p.constInt(e)
			if !ok {
				return nil, fmt.Errorf("LookupPackage: non-constant case %s", exprStr(e))
			}
			rows = append(rows, fmt.Sprintf("(%d, %q, %v)", v, typ, wide))
		}
	}
	lf.pf("/-- the switch of `LookupPackage`: (token, package type, wide) -/\n")
	lf.pf("def table : List (Nat × String × Bool) := [\n  %s\n]\n\n", strings.Join(rows, ",\n  "))
	lf.pf("/-- the package type of every other token -/\ndef defaultType : String := %q\n", dflt)
	lf.pf("\nend Dblib.Gen.Lookup\n")
	return lf, nil
}

func init() { extraGens = append(extraGens, namedGen{"Lookup.lean", genLookup}) }
