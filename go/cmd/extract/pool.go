package main

import (
	"fmt"
	"go/ast"
	"sort"
	"strings"
)

// genPool extracts from namepool/*.go every access to the id counter and to the sync.Pool of the name
// pool: which function touches it and how. The C18 model rests on: ids are minted by ONE atomic add on
// the counter and nothing else ever reads or writes it; ids travel through the sync.Pool by Get in
// Acquire and Put in Release.
func genPool(repo string) (*leanFile, error) {
	p, err := loadPkg(repo, "namepool")
	if err != nil {
		return nil, err
	}
	type access struct{ fn, how string }
	var counter, idpool []access
	for _, f := range p.files {
		for _, d := range f.Decls {
			fd, ok := d.(*ast.FuncDecl)
			if !ok || fd.Body == nil {
				continue
			}
			name := fd.Name.Name
			if fd.Recv != nil && len(fd.Recv.List) == 1 {
				name = strings.TrimPrefix(exprStr(fd.Recv.List[0].Type), "*") + "." + name
			}
			// parents for classification
			var stack []ast.Node
			ast.Inspect(fd.Body, func(n ast.Node) bool {
				if n == nil {
					stack = stack[:len(stack)-1]
					return true
				}
				stack = append(stack, n)
				field := ""
				switch x := n.(type) {
				case *ast.SelectorExpr:
					field = x.Sel.Name
				case *ast.KeyValueExpr:
					if id, ok := x.Key.(*ast.Ident); ok && (id.Name == "idCounter" || id.Name == "idPool") {
						acc := access{name, "init:" + exprStr(x.Value)}
						if id.Name == "idPool" {
							acc.how = "init"
							idpool = append(idpool, acc)
						} else {
							counter = append(counter, acc)
						}
					}
					return true
				default:
					return true
				}
				if field != "idCounter" && field != "idPool" {
					return true
				}
				// classify by the innermost enclosing call / assignment
				how := "other:" + exprStr(n.(ast.Expr))
				for i := len(stack) - 2; i >= 0; i-- {
					switch e := stack[i].(type) {
					case *ast.CallExpr:
						fun := exprStr(e.Fun)
						if field == "idCounter" {
							var args []string
							for _, a := range e.Args {
								args = append(args, exprStr(a))
							}
							how = fun + "(" + strings.Join(args, ", ") + ")"
							// the one access the model knows: an atomic add of the constant 1 to the counter itself
							// (whatever the receiver is called, in whatever function it stands)
							if fun == "atomic.AddUint64" && len(e.Args) == 2 && strings.HasPrefix(args[0], "&") &&
								strings.HasSuffix(args[0], ".idCounter") && args[1] == "1" {
								how = "atomic-add-1"
							}
						} else {
							how = "call:" + fun[strings.LastIndex(fun, ".")+1:]
						}
						i = -1
					case *ast.AssignStmt:
						if len(e.Lhs) == 1 && exprStr(e.Lhs[0]) == exprStr(n.(ast.Expr)) {
							how = "assign"
						} else {
							how = "read-in-assign:" + exprStr(e.Lhs[0])
						}
						i = -1
					case *ast.UnaryExpr, *ast.ParenExpr, *ast.SelectorExpr:
						continue
					default:
						i = -1
					}
				}
				if field == "idCounter" {
					counter = append(counter, access{name, how})
				} else {
					idpool = append(idpool, access{name, how})
				}
				return true
			})
		}
	}
	render := func(as []access) string {
		var rows []string
		for _, a := range as {
			rows = append(rows, fmt.Sprintf("(%q, %q)", a.fn, a.how))
		}
		sort.Strings(rows)
		return "[" + strings.Join(rows, ",\n   ") + "]"
	}
	lf := &leanFile{name: "Pool.lean"}
	lf.pf("namespace Dblib.Gen.Pool\n\n")
	lf.pf("/-- every access to `pool.idCounter` in package namepool: (function, how) -/\n")
	lf.pf("def counterAccesses : List (String × String) :=\n  %s\n\n", render(counter))
	lf.pf("/-- every access to `pool.idPool`: (function, how) -/\n")
	lf.pf("def idPoolAccesses : List (String × String) :=\n  %s\n", render(idpool))
	lf.pf("\nend Dblib.Gen.Pool\n")
	return lf, nil
}

func init() { extraGens = append(extraGens, namedGen{"Pool.lean", genPool}) }
