package main

import (
	"fmt"
	"go/ast"
	"go/token"
	"go/types"
	"sort"
	"strings"
)

// genShape extracts structural facts about locking and blocking in tds/channel.go and tds/conn.go
// that the lifecycle / multiplexing models (C12, C13) are parameterised by.
func genShape(repo string) (*leanFile, error) {
	p, err := loadPkg(repo, "tds")
	if err != nil {
		return nil, err
	}
	lf := &leanFile{name: "Shape.lean"}
	lf.pf("namespace Dblib.Gen.Shape\n\n")

	// the functions of the package reachable from an entry point through calls inside the package (helpers
	// a maintainer may extract belong to the function they were extracted from)
	declOf := map[types.Object]*ast.FuncDecl{}
	for _, f := range p.files {
		for _, d := range f.Decls {
			if fd, ok := d.(*ast.FuncDecl); ok && fd.Body != nil {
				if obj := p.info.Defs[fd.Name]; obj != nil {
					declOf[obj] = fd
				}
			}
		}
	}
	reachable := func(entries ...*ast.FuncDecl) []*ast.FuncDecl {
		seen := map[*ast.FuncDecl]bool{}
		var order []*ast.FuncDecl
		todo := append([]*ast.FuncDecl{}, entries...)
		for len(todo) > 0 {
			fd := todo[0]
			todo = todo[1:]
			if fd == nil || seen[fd] {
				continue
			}
			seen[fd] = true
			order = append(order, fd)
			ast.Inspect(fd.Body, func(n ast.Node) bool {
				var id *ast.Ident
				switch x := n.(type) {
				case *ast.CallExpr:
					switch f := x.Fun.(type) {
					case *ast.Ident:
						id = f
					case *ast.SelectorExpr:
						id = f.Sel
					}
				case *ast.SelectorExpr: // method values (p.mint passed as a function)
					id = x.Sel
				}
				if id != nil {
					if callee, ok := declOf[p.info.Uses[id]]; ok {
						todo = append(todo, callee)
					}
				}
				return true
			})
		}
		return order
	}

	holdsRLock := func(fd *ast.FuncDecl) bool {
		// first statements: recv.RLock(); defer recv.RUnlock()
		if fd == nil || fd.Body == nil || len(fd.Body.List) < 2 {
			return false
		}
		s0, ok0 := fd.Body.List[0].(*ast.ExprStmt)
		s1, ok1 := fd.Body.List[1].(*ast.DeferStmt)
		if !ok0 || !ok1 {
			return false
		}
		return strings.HasSuffix(exprStr(s0.X), ".RLock()") && strings.HasSuffix(exprStr(s1.Call), ".RUnlock()")
	}
	sendsOnPackageCh := func(fd *ast.FuncDecl) bool {
		found := false
		if fd == nil {
			return false
		}
		ast.Inspect(fd.Body, func(n ast.Node) bool {
			if s, ok := n.(*ast.SendStmt); ok && strings.HasSuffix(exprStr(s.Chan), ".packageCh") {
				found = true
			}
			return true
		})
		return found
	}
	wp := p.funcDecl("Channel", "WritePacket")
	tp := p.funcDecl("Channel", "tryParsePackage")
	if wp == nil || tp == nil {
		return nil, fmt.Errorf("WritePacket / tryParsePackage not found")
	}
	lf.pf("/-- `WritePacket` runs (and blocks on a full package queue) while holding the channel's read lock -/\n")
	lf.pf("def writePacketHoldsRLock : Bool := %v\n", holdsRLock(wp) && (sendsOnPackageCh(wp) || sendsOnPackageCh(tp)))

	// Close: a goroutine receiving from packageCh and errCh is started before the write lock is taken
	cl := p.funcDecl("Channel", "Close")
	if cl == nil {
		return nil, fmt.Errorf("Channel.Close not found")
	}
	lockPos, drainPos := token.NoPos, token.NoPos
	drainsPkg, drainsErr := false, false
	for _, st := range cl.Body.List {
		if es, ok := st.(*ast.ExprStmt); ok && exprStr(es.X) == "tdsChan.Lock()" && lockPos == token.NoPos {
			lockPos = es.Pos()
		}
		if gs, ok := st.(*ast.GoStmt); ok && drainPos == token.NoPos {
			ast.Inspect(gs.Call, func(n ast.Node) bool {
				if u, ok := n.(*ast.UnaryExpr); ok && u.Op == token.ARROW {
					if exprStr(u.X) == "tdsChan.packageCh" {
						drainsPkg = true
					}
					if exprStr(u.X) == "tdsChan.errCh" {
						drainsErr = true
					}
				}
				return true
			})
			if drainsPkg && drainsErr {
				drainPos = gs.Pos()
			}
		}
	}
	lf.pf("/-- `Close` consumes the package and error queues (in a goroutine started before) while it waits for the write lock -/\n")
	lf.pf("def closeDrainsWhileLocking : Bool := %v\n", drainPos != token.NoPos && lockPos != token.NoPos && drainPos < lockPos)

	// Close: early return when already closed (before anything is sent)
	earlyClosed := false
	for i, st := range cl.Body.List {
		if ifs, ok := st.(*ast.IfStmt); ok && exprStr(ifs.Cond) == "closed" && i < 6 {
			if len(ifs.Body.List) == 1 {
				if r, ok := ifs.Body.List[0].(*ast.ReturnStmt); ok && len(r.Results) == 1 && exprStr(r.Results[0]) == "ErrChannelClosed" {
					earlyClosed = true
				}
			}
		}
	}
	lf.pf("/-- a second `Close` returns ErrChannelClosed before sending or closing anything -/\n")
	lf.pf("def closeChecksClosedFirst : Bool := %v\n", earlyClosed)

	// sendPackets: the context is checked before every packet write — inside the loop over the packets a
	// non-blocking select (it has a default clause) whose `<-ctx.Done()` case returns stands before the
	// call of sendPacket, which is in the default clause or after the select
	sp := p.funcDecl("Channel", "sendPackets")
	ctxChecked := false
	// a helper that is the non-blocking context check: a select with a `<-ctx.Done()` case that returns
	// something other than nil and a default clause
	ctxSelectHelper := func(fd *ast.FuncDecl) bool {
		found := false
		ast.Inspect(fd.Body, func(n ast.Node) bool {
			sel, ok := n.(*ast.SelectStmt)
			if !ok {
				return true
			}
			hasCtx, hasDefault := false, false
			for _, c := range sel.Body.List {
				cc := c.(*ast.CommClause)
				if cc.Comm == nil {
					hasDefault = true
					continue
				}
				if es, ok := cc.Comm.(*ast.ExprStmt); ok && exprStr(es.X) == "<-ctx.Done()" && len(cc.Body) > 0 {
					if r, ok := cc.Body[len(cc.Body)-1].(*ast.ReturnStmt); ok && len(r.Results) > 0 && exprStr(r.Results[len(r.Results)-1]) != "nil" {
						hasCtx = true
					}
				}
			}
			if hasCtx && hasDefault {
				found = true
			}
			return true
		})
		return found
	}
	if sp != nil {
		loopBody := func(n ast.Node) *ast.BlockStmt {
			switch l := n.(type) {
			case *ast.RangeStmt:
				return l.Body
			case *ast.ForStmt:
				return l.Body
			}
			return nil
		}
		ast.Inspect(sp.Body, func(n ast.Node) bool {
			body := loopBody(n)
			if body == nil {
				return true
			}
			selPos, sendPos := token.NoPos, token.NoPos
			for _, st := range body.List {
				// the check extracted into a helper: `if err := recv.helper(ctx); err != nil { return … }` where
				// the helper's body is that non-blocking select
				if ifs, ok := st.(*ast.IfStmt); ok && selPos == token.NoPos && ifs.Init != nil && exprStr(ifs.Cond) == "err != nil" && len(ifs.Body.List) > 0 {
					if _, isRet := ifs.Body.List[len(ifs.Body.List)-1].(*ast.ReturnStmt); isRet {
						ast.Inspect(ifs.Init, func(m ast.Node) bool {
							ce, ok := m.(*ast.CallExpr)
							if !ok {
								return true
							}
							var id *ast.Ident
							switch f := ce.Fun.(type) {
							case *ast.Ident:
								id = f
							case *ast.SelectorExpr:
								id = f.Sel
							}
							if id == nil {
								return true
							}
							if callee, ok := declOf[p.info.Uses[id]]; ok && ctxSelectHelper(callee) {
								selPos = ifs.Pos()
							}
							return true
						})
					}
				}
				if sel, ok := st.(*ast.SelectStmt); ok && selPos == token.NoPos {
					hasCtx, hasDefault := false, false
					for _, c := range sel.Body.List {
						cc := c.(*ast.CommClause)
						if cc.Comm == nil {
							hasDefault = true
							continue
						}
						if es, ok := cc.Comm.(*ast.ExprStmt); ok && exprStr(es.X) == "<-ctx.Done()" && len(cc.Body) > 0 {
							if _, ok := cc.Body[len(cc.Body)-1].(*ast.ReturnStmt); ok {
								hasCtx = true
							}
						}
					}
					if hasCtx && hasDefault {
						selPos = sel.Pos()
					}
				}
				ast.Inspect(st, func(m ast.Node) bool {
					if ce, ok := m.(*ast.CallExpr); ok && strings.HasSuffix(exprStr(ce.Fun), ".sendPacket") && sendPos == token.NoPos {
						sendPos = ce.Pos()
					}
					return true
				})
			}
			if selPos != token.NoPos && sendPos != token.NoPos && selPos < sendPos {
				ctxChecked = true
			}
			return true
		})
	}
	lf.pf("/-- `sendPackets` checks the caller's context before every packet write and returns without writing -/\n")
	lf.pf("def sendChecksCtxPerPacket : Bool := %v\n", ctxChecked)

	// NextPackage: select cases
	np := p.funcDecl("Channel", "NextPackage")
	var cases []string
	closedFirst := false
	if np != nil {
		for i, st := range np.Body.List {
			if ifs, ok := st.(*ast.IfStmt); ok && exprStr(ifs.Cond) == "tdsChan.closed" && i < 4 {
				closedFirst = true
			}
		}
		// the blocking select of the call: the select statement with the most cases in NextPackage or in a
		// Channel method it calls (a maintainer may split the function); local names are resolved to what
		// they were assigned (`connCtx := tdsChan.tdsConn.ctx`), a channel made locally is called `ch`
		var lastSel *ast.SelectStmt
		locals := map[string]string{}
		for _, fd := range reachable(np) {
			if fd.Recv == nil || len(fd.Recv.List) != 1 || strings.TrimPrefix(exprStr(fd.Recv.List[0].Type), "*") != "Channel" {
				continue
			}
			if fd != np && fd.Name.IsExported() {
				continue
			}
			ast.Inspect(fd.Body, func(n ast.Node) bool {
				switch x := n.(type) {
				case *ast.SelectStmt:
					if lastSel == nil || len(x.Body.List) > len(lastSel.Body.List) || (len(x.Body.List) == len(lastSel.Body.List) && fd == np) {
						lastSel = x
					}
				case *ast.AssignStmt:
					if x.Tok == token.DEFINE && len(x.Lhs) == 1 && len(x.Rhs) == 1 {
						if id, ok := x.Lhs[0].(*ast.Ident); ok {
							rhs := exprStr(x.Rhs[0])
							if strings.HasPrefix(rhs, "make(chan ") {
								rhs = "ch"
							}
							locals[id.Name] = rhs
						}
					}
				}
				return true
			})
		}
		madeByHelper := func(e ast.Expr) bool {
			// `<-helper(…)` where the helper makes the channel it returns
			u, ok := e.(*ast.UnaryExpr)
			if !ok || u.Op != token.ARROW {
				return false
			}
			ce, ok := u.X.(*ast.CallExpr)
			if !ok {
				return false
			}
			var id *ast.Ident
			switch f := ce.Fun.(type) {
			case *ast.Ident:
				id = f
			case *ast.SelectorExpr:
				id = f.Sel
			}
			if id == nil {
				return false
			}
			callee, ok := declOf[p.info.Uses[id]]
			if !ok {
				return false
			}
			made := false
			ast.Inspect(callee.Body, func(m ast.Node) bool {
				if c, ok := m.(*ast.CallExpr); ok && exprStr(c.Fun) == "make" && len(c.Args) > 0 && strings.HasPrefix(exprStr(c.Args[0]), "chan ") {
					made = true
				}
				return true
			})
			return made
		}
		_ = madeByHelper
		canon := func(e string) string {
			// `<-name` or `<-name.Done()` with a local name
			rest := strings.TrimPrefix(e, "<-")
			base, suffix := rest, ""
			if strings.HasSuffix(rest, ".Done()") {
				base, suffix = strings.TrimSuffix(rest, ".Done()"), ".Done()"
			}
			if v, ok := locals[base]; ok && base != "ctx" {
				return "<-" + v + suffix
			}
			return e
		}
		if lastSel != nil {
			for _, c := range lastSel.Body.List {
				cc := c.(*ast.CommClause)
				if cc.Comm == nil {
					cases = append(cases, "default")
					continue
				}
				var rhs string
				var rhsExpr ast.Expr
				switch s := cc.Comm.(type) {
				case *ast.ExprStmt:
					rhs, rhsExpr = exprStr(s.X), s.X
				case *ast.AssignStmt:
					rhs, rhsExpr = exprStr(s.Rhs[0]), s.Rhs[0]
				}
				if madeByHelper(rhsExpr) {
					rhs = "<-ch"
				}
				cases = append(cases, canon(rhs))
			}
		}
	}
	q := []string{}
	for _, c := range cases {
		q = append(q, fmt.Sprintf("%q", c))
	}
	// NextPackage looks at the package queue once, without blocking, before anything else can be selected: a
	// top-level select of the function with a receive from the package queue and a default clause
	looksFirst := false
	// the two-clause select: a receive from the package queue that returns, and a default clause
	isFirstLook := func(sel *ast.SelectStmt) bool {
		hasPkg, hasDefault := false, false
		for _, c := range sel.Body.List {
			cc := c.(*ast.CommClause)
			if cc.Comm == nil {
				hasDefault = true
				continue
			}
			var rhs string
			switch x := cc.Comm.(type) {
			case *ast.ExprStmt:
				rhs = exprStr(x.X)
			case *ast.AssignStmt:
				rhs = exprStr(x.Rhs[0])
			}
			if rhs == "<-tdsChan.packageCh" && len(cc.Body) > 0 {
				if _, isRet := cc.Body[len(cc.Body)-1].(*ast.ReturnStmt); isRet {
					hasPkg = true
				}
			}
		}
		return hasPkg && hasDefault && len(sel.Body.List) == 2
	}
	if np != nil {
		for _, st := range np.Body.List {
			// … extracted into a helper: `if pkg, ok := tdsChan.helper(); ok { return pkg, nil }`
			if ifs, ok := st.(*ast.IfStmt); ok && ifs.Init != nil && len(ifs.Body.List) > 0 {
				if _, isRet := ifs.Body.List[len(ifs.Body.List)-1].(*ast.ReturnStmt); isRet {
					ast.Inspect(ifs.Init, func(m ast.Node) bool {
						ce, ok := m.(*ast.CallExpr)
						if !ok {
							return true
						}
						if sel, ok := ce.Fun.(*ast.SelectorExpr); ok {
							if callee, ok := declOf[p.info.Uses[sel.Sel]]; ok && len(callee.Body.List) > 0 {
								if s0, ok := callee.Body.List[0].(*ast.SelectStmt); ok && isFirstLook(s0) {
									looksFirst = true
								}
							}
						}
						return true
					})
				}
			}
			sel, ok := st.(*ast.SelectStmt)
			if !ok {
				continue
			}
			hasPkg, hasDefault := false, false
			for _, c := range sel.Body.List {
				cc := c.(*ast.CommClause)
				if cc.Comm == nil {
					hasDefault = true
					continue
				}
				var rhs string
				switch x := cc.Comm.(type) {
				case *ast.ExprStmt:
					rhs = exprStr(x.X)
				case *ast.AssignStmt:
					rhs = exprStr(x.Rhs[0])
				}
				if rhs == "<-tdsChan.packageCh" && len(cc.Body) > 0 {
					if _, isRet := cc.Body[len(cc.Body)-1].(*ast.ReturnStmt); isRet {
						hasPkg = true
					}
				}
			}
			if hasPkg && hasDefault && len(sel.Body.List) == 2 {
				looksFirst = true
			}
		}
	}
	lf.pf("/-- `NextPackage` hands out a package that is already queued before it selects among errors and contexts -/\n")
	lf.pf("def nextPackageLooksAtQueueFirst : Bool := %v\n", looksFirst)
	lf.pf("/-- the cases of the final `select` of `NextPackage` -/\n")
	lf.pf("def nextPackageSelect : List String := [%s]\n", strings.Join(q, ", "))
	lf.pf("def nextPackageChecksClosedFirst : Bool := %v\n", closedFirst)
	lf.pf("/-- `NextPackage` holds the channel's read lock for the whole call (RLock, deferred RUnlock): `Close`, which needs the write lock, cannot close the queues under a waiting receiver -/\n")
	lf.pf("def nextPackageHoldsRLock : Bool := %v\n", holdsRLock(np))

	// Conn.ReadFrom: sends on errCh are selects with ctx.Done()
	rf := p.funcDecl("Conn", "ReadFrom")
	bare := 0
	guarded := 0
	for _, rfd := range reachable(rf) {
		if rfd.Recv == nil || len(rfd.Recv.List) != 1 || strings.TrimPrefix(exprStr(rfd.Recv.List[0].Type), "*") != "Conn" {
			continue // the connection's error queue is only reachable through the connection
		}
		ast.Inspect(rfd.Body, func(n ast.Node) bool {
			switch s := n.(type) {
			case *ast.SelectStmt:
				hasSend, hasCtx := false, false
				for _, c := range s.Body.List {
					cc := c.(*ast.CommClause)
					if ss, ok := cc.Comm.(*ast.SendStmt); ok && strings.HasSuffix(exprStr(ss.Chan), ".errCh") {
						hasSend = true
					}
					if es, ok := cc.Comm.(*ast.ExprStmt); ok && strings.HasSuffix(exprStr(es.X), ".ctx.Done()") {
						hasCtx = true
					}
				}
				if hasSend && hasCtx {
					guarded++
				}
				if hasSend && !hasCtx {
					bare++
				}
				return false
			case *ast.SendStmt:
				if strings.HasSuffix(exprStr(s.Chan), ".errCh") {
					bare++
				}
			}
			return true
		})
	}
	lf.pf("/-- every send of the reader loop into the connection's error queue also watches the connection context -/\n")
	lf.pf("def readerErrSendsGuarded : Bool := %v\n", rf != nil && bare == 0 && guarded > 0)

	// the id counter: every mention of it in the package is the operand of `&` in an atomic add whose result
	// is used (one atomic read-modify-write hands out the id; nothing loads or stores it separately)
	occ, atomicOcc, usedResult := 0, 0, false
	for _, fd := range declOf {
		var stack []ast.Node
		ast.Inspect(fd.Body, func(n ast.Node) bool {
			if n == nil {
				stack = stack[:len(stack)-1]
				return true
			}
			stack = append(stack, n)
			if se, ok := n.(*ast.SelectorExpr); ok && se.Sel.Name == "tdsChannelCurFreeId" {
				occ++
			}
			// the constructor sets the counter to a constant before the connection is shared
			if as, ok := n.(*ast.AssignStmt); ok && fd.Name.Name == "NewConn" && len(as.Lhs) == 1 && len(as.Rhs) == 1 {
				if se, ok := as.Lhs[0].(*ast.SelectorExpr); ok && se.Sel.Name == "tdsChannelCurFreeId" {
					if _, isConst := p.constInt(as.Rhs[0]); isConst {
						occ--
					}
				}
			}
			if ce, ok := n.(*ast.CallExpr); ok && strings.HasPrefix(exprStr(ce.Fun), "atomic.Add") {
				for _, a := range ce.Args {
					if u, ok := a.(*ast.UnaryExpr); ok && u.Op == token.AND {
						if se, ok := u.X.(*ast.SelectorExpr); ok && se.Sel.Name == "tdsChannelCurFreeId" {
							atomicOcc++
							// the call is an operand of something (not an expression statement of its own)
							for i := len(stack) - 2; i >= 0; i-- {
								if _, isStmt := stack[i].(*ast.ExprStmt); isStmt {
									break
								}
								if _, isAssign := stack[i].(*ast.AssignStmt); isAssign {
									usedResult = true
									break
								}
								if _, isRet := stack[i].(*ast.ReturnStmt); isRet {
									usedResult = true
									break
								}
							}
						}
					}
				}
			}
			return true
		})
	}
	lf.pf("/-- a channel id is obtained by ONE atomic fetch-and-add of the id counter (no separate load) -/\n")
	lf.pf("def idFetchIsAtomicRMW : Bool := %v\n", atomicOcc > 0 && occ == atomicOcc && usedResult)

	// every access to the channel map happens between Lock/RLock and Unlock/RUnlock of tdsChannelsLock
	unlocked := []string{}
	for _, f := range p.files {
		for _, d := range f.Decls {
			fd, ok := d.(*ast.FuncDecl)
			if !ok || fd.Body == nil {
				continue
			}
			var locks, unlocks, accesses []token.Pos
			ast.Inspect(fd.Body, func(n ast.Node) bool {
				switch x := n.(type) {
				case *ast.DeferStmt:
					// a deferred unlock releases at the end of the function
					fn := exprStr(x.Call.Fun)
					if strings.HasSuffix(fn, "tdsChannelsLock.Unlock") || strings.HasSuffix(fn, "tdsChannelsLock.RUnlock") {
						unlocks = append(unlocks, fd.End())
						return false
					}
				case *ast.CallExpr:
					fn := exprStr(x.Fun)
					if strings.HasSuffix(fn, "tdsChannelsLock.Lock") || strings.HasSuffix(fn, "tdsChannelsLock.RLock") {
						locks = append(locks, x.Pos())
					}
					if strings.HasSuffix(fn, "tdsChannelsLock.Unlock") || strings.HasSuffix(fn, "tdsChannelsLock.RUnlock") {
						unlocks = append(unlocks, x.Pos())
					}
				case *ast.SelectorExpr:
					if x.Sel.Name == "tdsChannels" {
						accesses = append(accesses, x.Pos())
					}
				}
				return true
			})
			for _, a := range accesses {
				ok := false
				for i := range locks {
					if locks[i] < a && i < len(unlocks) && a < unlocks[i] {
						ok = true
					}
				}
				// the constructor initialises the map before the connection is shared
				if fd.Name.Name == "NewConn" {
					ok = true
				}
				if !ok {
					unlocked = append(unlocked, fd.Name.Name)
				}
			}
		}
	}
	lf.pf("/-- every access to the id → channel map happens while its lock is held -/\n")
	lf.pf("def channelMapLocked : Bool := %v\n", len(unlocked) == 0)
	// header-only packets are delivered as *HeaderOnlyPackage, the type NewChannel asserts
	hoPtr := false
	if wp != nil {
		ast.Inspect(wp.Body, func(n ast.Node) bool {
			if s, ok := n.(*ast.SendStmt); ok && strings.HasPrefix(exprStr(s.Value), "&HeaderOnlyPackage{") {
				hoPtr = true
			}
			return true
		})
	}
	nc := p.funcDecl("Conn", "NewChannel")
	asserts := false
	for _, fd := range reachable(nc) {
		ast.Inspect(fd.Body, func(n ast.Node) bool {
			if ta, ok := n.(*ast.TypeAssertExpr); ok && exprStr(ta.Type) == "*HeaderOnlyPackage" {
				asserts = true
			}
			return true
		})
	}
	lf.pf("/-- the setup acknowledgement is delivered with the dynamic type NewChannel asserts -/\n")
	lf.pf("def headerOnlyTypeMatches : Bool := %v\n", hoPtr && asserts)

	// which functions of the package mention the receive-side / transmit-side state of a Channel
	// (fields of the struct type Channel, resolved through the type checker): the duplex model
	// (Model/Chan.lean) runs the two sides as independent components
	var allDecls []*ast.FuncDecl
	for _, f := range p.files {
		for _, d := range f.Decls {
			if fd, ok := d.(*ast.FuncDecl); ok && fd.Body != nil {
				allDecls = append(allDecls, fd)
			}
		}
	}
	touchedByIn := func(decls []*ast.FuncDecl, fields ...string) []string {
		want := map[string]bool{}
		for _, f := range fields {
			want[f] = true
		}
		seen := map[string]bool{}
		{
			for _, fd := range decls {
				name := fd.Name.Name
				if fd.Recv != nil && len(fd.Recv.List) == 1 {
					name = strings.TrimPrefix(exprStr(fd.Recv.List[0].Type), "*") + "." + name
				}
				ast.Inspect(fd.Body, func(n ast.Node) bool {
					switch x := n.(type) {
					case *ast.SelectorExpr:
						if obj, ok := p.info.Uses[x.Sel].(*types.Var); ok && obj.IsField() && want[obj.Name()] {
							if tv, ok := p.info.Types[x.X]; ok && strings.HasSuffix(strings.TrimPrefix(tv.Type.String(), "*"), "tds.Channel") {
								seen[name] = true
							}
						}
					case *ast.KeyValueExpr: // composite literal &Channel{queueRx: …}
						if id, ok := x.Key.(*ast.Ident); ok {
							if obj, ok := p.info.Uses[id].(*types.Var); ok && obj.IsField() && want[obj.Name()] {
								seen[name] = true
							}
						}
					}
					return true
				})
			}
		}
		var out []string
		for n := range seen {
			out = append(out, n)
		}
		sort.Strings(out)
		return out
	}
	leanStrs := func(l []string) string {
		q := make([]string, len(l))
		for i, x := range l {
			q[i] = fmt.Sprintf("%q", x)
		}
		return "[" + strings.Join(q, ", ") + "]"
	}
	rxFields := []string{"queueRx", "lastPkgRx"}
	txFields := []string{"queueTx", "lastPkgTx", "curPacketNr", "CurrentHeaderType"}
	lf.pf("/-- the functions that mention the receive-side state of a channel (`queueRx`, `lastPkgRx`) — for the reader -/\n")
	lf.pf("def rxStateTouchedBy : List String := %s\n", leanStrs(touchedByIn(allDecls, rxFields...)))
	lf.pf("/-- the functions that mention the transmit-side state of a channel (`queueTx`, `lastPkgTx`, `curPacketNr`, `CurrentHeaderType`) — for the reader -/\n")
	lf.pf("def txStateTouchedBy : List String := %s\n", leanStrs(touchedByIn(allDecls, txFields...)))
	// what the duplex theorem rests on, robust against helpers being extracted or inlined: nothing reachable
	// from the calls of the sending side mentions receive-side state, nothing reachable from the reader's
	// entry point mentions transmit-side state
	txEntries := reachable(p.funcDecl("Channel", "QueuePackage"), p.funcDecl("Channel", "SendRemainingPackets"),
		p.funcDecl("Channel", "SendPackage"), p.funcDecl("Channel", "Reset"))
	rxEntries := reachable(p.funcDecl("Channel", "WritePacket"))
	lf.pf("/-- functions reachable from QueuePackage / SendRemainingPackets / SendPackage / Reset that mention receive-side state -/\n")
	lf.pf("def sendSideTouchesRxState : List String := %s\n", leanStrs(touchedByIn(txEntries, rxFields...)))
	lf.pf("/-- functions reachable from WritePacket that mention transmit-side state -/\n")
	lf.pf("def receiveSideTouchesTxState : List String := %s\n", leanStrs(touchedByIn(rxEntries, txFields...)))
	lf.pf("/-- the entry points exist (an empty list above means \"none\", not \"not found\") -/\n")
	lf.pf("def duplexEntriesFound : Bool := %v\n", len(txEntries) >= 4 && len(rxEntries) >= 1)
	// callers of the exported setter of lastPkgRx inside the library
	var setters []string
	for _, f := range p.files {
		for _, d := range f.Decls {
			fd, ok := d.(*ast.FuncDecl)
			if !ok || fd.Body == nil {
				continue
			}
			ast.Inspect(fd.Body, func(n ast.Node) bool {
				if c, ok := n.(*ast.CallExpr); ok {
					if se, ok := c.Fun.(*ast.SelectorExpr); ok && se.Sel.Name == "SetLastPkgRx" {
						setters = append(setters, fd.Name.Name)
					}
				}
				return true
			})
		}
	}
	sort.Strings(setters)
	lf.pf("/-- callers of `SetLastPkgRx` inside package tds -/\n")
	lf.pf("def setLastPkgRxCallers : List String := %s\n", leanStrs(setters))

	// how a packet reaches the transport: the calls in Packet.WriteTo that hand something to its writer
	// (a method of the writer, or the writer passed on), and the uses of the connection's transport in
	// sendPacket — one each: a packet is one Write, which the transport does not tear
	writerCalls := 0
	for _, f := range p.files {
		for _, d := range f.Decls {
			fd, ok := d.(*ast.FuncDecl)
			if !ok || fd.Body == nil || fd.Name.Name != "WriteTo" || fd.Recv == nil || len(fd.Recv.List) != 1 {
				continue
			}
			if strings.TrimPrefix(exprStr(fd.Recv.List[0].Type), "*") != "Packet" {
				continue
			}
			w := paramName(fd, 0)
			ast.Inspect(fd.Body, func(n ast.Node) bool {
				c, ok := n.(*ast.CallExpr)
				if !ok {
					return true
				}
				uses := false
				if se, ok := c.Fun.(*ast.SelectorExpr); ok && exprStr(se.X) == w {
					uses = true
				}
				for _, a := range c.Args {
					if exprStr(a) == w {
						uses = true
					}
				}
				if uses {
					writerCalls++
				}
				return true
			})
		}
	}
	transportUses := 0
	if sp := p.funcDecl("Channel", "sendPacket"); sp != nil {
		ast.Inspect(sp.Body, func(n ast.Node) bool {
			if se, ok := n.(*ast.SelectorExpr); ok && exprStr(se) == "tdsChan.tdsConn.conn" {
				transportUses++
			}
			return true
		})
	}
	lf.pf("/-- calls in `Packet.WriteTo` that hand bytes to its writer -/\n")
	lf.pf("def packetWriteCalls : Nat := %d\n", writerCalls)
	lf.pf("/-- uses of the connection's transport in `Channel.sendPacket` -/\n")
	lf.pf("def sendPacketTransportWrites : Nat := %d\n", transportUses)

	// Conn.Close: how the channels to close are found. The model closes every channel of the map: the
	// code must collect them by ranging over the map itself (ids may have gaps: logical channels come
	// and go), close each collected channel, cancel the connection context, close the transport.
	cc := p.funcDecl("Conn", "Close")
	byRange, closesEach, cancels, closesTransport, otherMapUse := false, false, false, false, false
	collected := ""
	// the collecting loop extracted into a helper: `chans := tds.helper()` where the helper ranges over the
	// map, appends every value to a slice and returns that slice
	collectsAll := func(fd *ast.FuncDecl) bool {
		ok1, slice, other := false, "", false
		ast.Inspect(fd.Body, func(n ast.Node) bool {
			switch x := n.(type) {
			case *ast.RangeStmt:
				if exprStr(x.X) == "tds.tdsChannels" {
					if v, ok := x.Value.(*ast.Ident); ok && len(x.Body.List) == 1 {
						if as, ok := x.Body.List[0].(*ast.AssignStmt); ok && len(as.Rhs) == 1 {
							if c, ok := as.Rhs[0].(*ast.CallExpr); ok && exprStr(c.Fun) == "append" && len(c.Args) == 2 && exprStr(c.Args[1]) == v.Name && exprStr(c.Args[0]) == exprStr(as.Lhs[0]) {
								ok1, slice = true, exprStr(as.Lhs[0])
							}
						}
					}
					return false
				}
			case *ast.SelectorExpr:
				if exprStr(x) == "tds.tdsChannels" {
					other = true
				}
			}
			return true
		})
		returnsIt := false
		ast.Inspect(fd.Body, func(n ast.Node) bool {
			if r, ok := n.(*ast.ReturnStmt); ok {
				if (len(r.Results) == 1 && exprStr(r.Results[0]) == slice) || (len(r.Results) == 0 && fd.Type.Results != nil && len(fd.Type.Results.List) == 1 && len(fd.Type.Results.List[0].Names) == 1 && fd.Type.Results.List[0].Names[0].Name == slice) {
					returnsIt = true
				}
			}
			return true
		})
		return ok1 && !other && returnsIt
	}
	if cc != nil {
		for _, st := range cc.Body.List {
			if as, ok := st.(*ast.AssignStmt); ok && len(as.Lhs) == 1 && len(as.Rhs) == 1 {
				if ce, ok := as.Rhs[0].(*ast.CallExpr); ok {
					if sel, ok := ce.Fun.(*ast.SelectorExpr); ok && exprStr(sel.X) == "tds" {
						if callee, ok := declOf[p.info.Uses[sel.Sel]]; ok && collectsAll(callee) {
							byRange = true
							collected = exprStr(as.Lhs[0])
						}
					}
				}
			}
		}
		ast.Inspect(cc.Body, func(n ast.Node) bool {
			switch x := n.(type) {
			case *ast.RangeStmt:
				if exprStr(x.X) == "tds.tdsChannels" {
					// for _, ch := range tds.tdsChannels { slice = append(slice, ch) }
					if v, ok := x.Value.(*ast.Ident); ok && len(x.Body.List) == 1 {
						if as, ok := x.Body.List[0].(*ast.AssignStmt); ok && len(as.Rhs) == 1 {
							if c, ok := as.Rhs[0].(*ast.CallExpr); ok && exprStr(c.Fun) == "append" && len(c.Args) == 2 && exprStr(c.Args[1]) == v.Name && exprStr(c.Args[0]) == exprStr(as.Lhs[0]) {
								byRange = true
								collected = exprStr(as.Lhs[0])
							}
						}
					}
					return false
				}
				if ce, ok := x.X.(*ast.CallExpr); ok { // `for _, ch := range tds.helper()`
					if sel, ok := ce.Fun.(*ast.SelectorExpr); ok && exprStr(sel.X) == "tds" {
						if callee, ok := declOf[p.info.Uses[sel.Sel]]; ok && collectsAll(callee) {
							byRange = true
							collected = exprStr(x.X)
						}
					}
				}
				if collected != "" && exprStr(x.X) == collected {
					if v, ok := x.Value.(*ast.Ident); ok {
						ast.Inspect(x.Body, func(m ast.Node) bool {
							if c, ok := m.(*ast.CallExpr); ok && exprStr(c.Fun) == v.Name+".Close" {
								closesEach = true
							}
							return true
						})
					}
				}
			case *ast.CallExpr:
				switch exprStr(x.Fun) {
				case "tds.ctxCancel":
					cancels = true
				case "tds.conn.Close":
					closesTransport = true
				}
			case *ast.SelectorExpr:
				if exprStr(x) == "tds.tdsChannels" {
					otherMapUse = true // any use of the map outside the collecting range statement
				}
			}
			return true
		})
	}
	lf.pf("/-- `Conn.Close` collects the channels by ranging over the id → channel map (and uses the map in no other way), closes each of them, cancels the context and closes the transport -/\n")
	lf.pf("def connCloseCollectsAll : Bool := %v\n", byRange && !otherMapUse)
	lf.pf("def connCloseClosesEach : Bool := %v\n", closesEach)
	lf.pf("def connCloseCancelsAndClosesTransport : Bool := %v\n", cancels && closesTransport)
	// error branches of the packet writes: `if err := ….sendPacket(…); err != nil { … }` (or the assignment in
	// the statement before the if)
	sendErrBranches := func(fn *ast.FuncDecl) []*ast.IfStmt {
		var out []*ast.IfStmt
		if fn == nil {
			return out
		}
		callsSend := func(n ast.Node) bool {
			found := false
			if n == nil {
				return false
			}
			ast.Inspect(n, func(m ast.Node) bool {
				if ce, ok := m.(*ast.CallExpr); ok && strings.HasSuffix(exprStr(ce.Fun), ".sendPacket") {
					found = true
				}
				return true
			})
			return found
		}
		var walk func(list []ast.Stmt)
		walk = func(list []ast.Stmt) {
			for i, st := range list {
				if ifs, ok := st.(*ast.IfStmt); ok && exprStr(ifs.Cond) == "err != nil" {
					if (ifs.Init != nil && callsSend(ifs.Init)) || (i > 0 && callsSend(list[i-1])) {
						out = append(out, ifs)
					}
				}
			}
		}
		ast.Inspect(fn.Body, func(n ast.Node) bool {
			switch b := n.(type) {
			case *ast.BlockStmt:
				walk(b.List)
			case *ast.CommClause:
				walk(b.Body)
			case *ast.CaseClause:
				walk(b.Body)
			}
			return true
		})
		return out
	}
	hasReturn := func(n ast.Node) bool {
		found := false
		ast.Inspect(n, func(m ast.Node) bool {
			if _, ok := m.(*ast.FuncLit); ok {
				return false
			}
			if _, ok := m.(*ast.ReturnStmt); ok {
				found = true
			}
			return true
		})
		return found
	}
	// sendPackets: every failed packet write ends the call with an error (the last statement of the error
	// branch is a return of something other than nil)
	spBranches := sendErrBranches(sp)
	returnsFirst := len(spBranches) > 0
	for _, ifs := range spBranches {
		n := len(ifs.Body.List)
		if n == 0 {
			returnsFirst = false
			continue
		}
		r, ok := ifs.Body.List[n-1].(*ast.ReturnStmt)
		if !ok || len(r.Results) == 0 || exprStr(r.Results[len(r.Results)-1]) == "nil" {
			returnsFirst = false
		}
	}
	lf.pf("/-- `sendPackets` returns an error at the first packet write that fails (nothing is written after it) -/\n")
	lf.pf("def sendPacketsReturnsFirstError : Bool := %v\n", returnsFirst)
	// Close: a failed write of the teardown packet does not end Close — the client-side teardown follows
	// (whether the write sits in Close itself or in a helper it calls): between its first statement and the
	// statement that takes the write lock, Close returns only for the channel that is closed already
	_ = hasReturn
	tearsDown := false
	{
		lockAt := token.NoPos
		for _, st := range cl.Body.List {
			if es, ok := st.(*ast.ExprStmt); ok && exprStr(es.X) == "tdsChan.Lock()" && lockAt == token.NoPos {
				lockAt = es.Pos()
			}
		}
		sendsTeardown := false
		for _, fd := range reachable(cl) {
			if fd.Name.Name == "sendPacket" {
				sendsTeardown = true
			}
		}
		if lockAt != token.NoPos && sendsTeardown {
			tearsDown = true
			ast.Inspect(cl.Body, func(m ast.Node) bool {
				if _, ok := m.(*ast.FuncLit); ok {
					return false
				}
				if r, ok := m.(*ast.ReturnStmt); ok && r.Pos() < lockAt {
					if !(len(r.Results) == 1 && exprStr(r.Results[0]) == "ErrChannelClosed") {
						tearsDown = false
					}
				}
				return true
			})
		}
	}
	lf.pf("/-- `Channel.Close` goes on with the client-side teardown when the write of the teardown packet fails -/\n")
	lf.pf("def closeTearsDownAfterWriteError : Bool := %v\n", tearsDown)
	// NextPackageUntil: the loop that consumes the rest of a response after the callback failed ends at the
	// first error NextPackage returns (whatever error: the transport's included) — in NextPackageUntil or in a
	// Channel method it reaches: a for loop that calls NextPackage and whose `err != nil` branch is a lone
	// break or a return
	npu := p.funcDecl("Channel", "NextPackageUntil")
	cleanupEnds, cleanupSeen := true, false
	for _, fd := range reachable(npu) {
		if fd.Recv == nil || len(fd.Recv.List) != 1 || strings.TrimPrefix(exprStr(fd.Recv.List[0].Type), "*") != "Channel" {
			continue
		}
		if fd != npu && fd.Name.IsExported() {
			continue
		}
		ast.Inspect(fd.Body, func(n ast.Node) bool {
			loop, ok := n.(*ast.ForStmt)
			if !ok || loop.Cond != nil {
				return true
			}
			for i, st := range loop.Body.List {
				as, ok := st.(*ast.AssignStmt)
				if !ok || len(as.Rhs) != 1 {
					continue
				}
				ce, ok := as.Rhs[0].(*ast.CallExpr)
				if !ok || !strings.HasSuffix(exprStr(ce.Fun), ".NextPackage") || i+1 >= len(loop.Body.List) {
					continue
				}
				ifs, ok := loop.Body.List[i+1].(*ast.IfStmt)
				if !ok || exprStr(ifs.Cond) != "err != nil" {
					cleanupEnds = false
					continue
				}
				cleanupSeen = true
				if len(ifs.Body.List) != 1 {
					cleanupEnds = false
					continue
				}
				switch b := ifs.Body.List[0].(type) {
				case *ast.BranchStmt:
					if b.Tok != token.BREAK {
						cleanupEnds = false
					}
				case *ast.ReturnStmt:
				default:
					cleanupEnds = false
				}
			}
			return true
		})
	}
	lf.pf("/-- the loop of `NextPackageUntil` that consumes the rest of a response after a failed callback ends at the first error of `NextPackage` -/\n")
	lf.pf("def untilCleanupEndsAtFirstError : Bool := %v\n", cleanupSeen && cleanupEnds)
	lf.pf("\nend Dblib.Gen.Shape\n")
	return lf, nil
}

func init() { extraGens = append(extraGens, namedGen{"Shape.lean", genShape}) }
