package main

// Generator of lean/Dblib/Gen/Types.lean (value codecs, C04/C05): the `asetypes.DataType`
// constants, the maps `ByteSizes`, `LengthBytes`, `ReflectTypes` (key -> Go type of the mapping,
// "nil" for the placeholders), the decimal precision/scale constants and the `asetime` unit
// constants. Everything is evaluated by go/types from the working tree; a construct that is not
// a constant / a map literal keyed by constants makes the generator fail (broken tie).

import (
	"fmt"
	"go/ast"
	"go/constant"
	"go/types"
	"sort"
	"strings"
)

func init() { extraGens = append(extraGens, namedGen{"Types.lean", genTypes}) }

// typedConsts returns name -> value of all package-level integer constants whose type is named tname.
func typedConsts(p *pkgInfo, tname string) map[string]int64 {
	out := map[string]int64{}
	if p.pkg == nil {
		return out
	}
	sc := p.pkg.Scope()
	for _, n := range sc.Names() {
		c, ok := sc.Lookup(n).(*types.Const)
		if !ok {
			continue
		}
		nt, ok := c.Type().(*types.Named)
		if !ok || nt.Obj().Name() != tname {
			continue
		}
		if v, ok := constant.Int64Val(c.Val()); ok {
			out[n] = v
		}
	}
	return out
}

func untypedConst(p *pkgInfo, name string) (int64, bool) {
	if p.pkg == nil {
		return 0, false
	}
	c, ok := p.pkg.Scope().Lookup(name).(*types.Const)
	if !ok {
		return 0, false
	}
	return constant.Int64Val(c.Val())
}

// reflectTypeOf describes the right-hand side of a ReflectTypes entry: "nil" or the Go type.
func reflectTypeOf(p *pkgInfo, e ast.Expr) (string, bool) {
	if id, ok := e.(*ast.Ident); ok && id.Name == "nil" {
		return "nil", true
	}
	call, ok := e.(*ast.CallExpr)
	if !ok || len(call.Args) != 1 {
		return "", false
	}
	switch exprStr(call.Fun) {
	case "reflect.TypeOf":
		tv, ok := p.info.Types[call.Args[0]]
		if !ok || tv.Type == nil {
			return "", false
		}
		s := types.TypeString(tv.Type, func(pk *types.Package) string { return pk.Name() })
		if s == "byte" {
			s = "uint8"
		}
		return s, true
	case "reflect.SliceOf":
		inner, ok := reflectTypeOf(p, call.Args[0])
		if !ok || inner == "nil" {
			return "", false
		}
		return "[]" + inner, true
	}
	return "", false
}

func genTypes(repo string) (*leanFile, error) {
	p, err := loadPkg(repo, "asetypes")
	if err != nil {
		return nil, err
	}
	lf := &leanFile{name: "Types.lean"}
	lf.pf("namespace Dblib.Gen.Types\n\n")

	// DataType constants
	dts := typedConsts(p, "DataType")
	if len(dts) == 0 {
		return nil, fmt.Errorf("asetypes: no DataType constants found")
	}
	lf.pf("/-! `asetypes/datatype.go`: the `DataType` constants -/\n")
	for _, n := range sortedKeys(dts) {
		lf.pf("def %s : Nat := %d\n", n, dts[n])
	}
	pairs := []string{}
	for _, n := range sortedKeys(dts) {
		pairs = append(pairs, fmt.Sprintf("(%q, %d)", n, dts[n]))
	}
	lf.pf("\ndef dataTypes : List (String × Nat) := [%s]\n\n", strings.Join(pairs, ", "))

	// ByteSizes / LengthBytes
	for _, m := range [][2]string{{"ByteSizes", "byteSizes"}, {"LengthBytes", "lengthBytes"}} {
		tab, ok := p.intMapLiteral(m[0])
		if !ok {
			return nil, fmt.Errorf("asetypes: %s is not a map literal with constant keys and values", m[0])
		}
		sort.Slice(tab, func(i, j int) bool { return tab[i][0] < tab[j][0] })
		for i := 1; i < len(tab); i++ {
			if tab[i][0] == tab[i-1][0] {
				return nil, fmt.Errorf("asetypes: duplicate key in %s", m[0])
			}
		}
		s := []string{}
		for _, kv := range tab {
			s = append(s, fmt.Sprintf("(%d, %s)", kv[0], leanInt(kv[1])))
		}
		lf.pf("/-- `asetypes.%s` (key = DataType value), sorted by key -/\n", m[0])
		lf.pf("def %s : List (Nat × Int) := [%s]\n\n", m[1], strings.Join(s, ", "))
	}

	// ReflectTypes
	vs := p.varDecl("ReflectTypes")
	if vs == nil || len(vs.Values) != 1 {
		return nil, fmt.Errorf("asetypes: ReflectTypes not found")
	}
	cl, ok := vs.Values[0].(*ast.CompositeLit)
	if !ok {
		return nil, fmt.Errorf("asetypes: ReflectTypes is not a composite literal")
	}
	type rt struct {
		k int64
		t string
	}
	var rts []rt
	for _, el := range cl.Elts {
		kv, ok := el.(*ast.KeyValueExpr)
		if !ok {
			return nil, fmt.Errorf("asetypes: ReflectTypes element is not key: value")
		}
		k, ok := p.constInt(kv.Key)
		if !ok {
			return nil, fmt.Errorf("asetypes: ReflectTypes key %s is not constant", exprStr(kv.Key))
		}
		t, ok := reflectTypeOf(p, kv.Value)
		if !ok {
			return nil, fmt.Errorf("asetypes: ReflectTypes value %s not understood", exprStr(kv.Value))
		}
		rts = append(rts, rt{k, t})
	}
	sort.Slice(rts, func(i, j int) bool { return rts[i].k < rts[j].k })
	s, nn := []string{}, []string{}
	for _, r := range rts {
		s = append(s, fmt.Sprintf("(%d, %q)", r.k, r.t))
		if r.t != "nil" {
			nn = append(nn, fmt.Sprintf("%d", r.k))
		}
	}
	lf.pf("/-- `asetypes.ReflectTypes`: DataType value -> Go type of the mapping (\"nil\" = placeholder) -/\n")
	lf.pf("def reflectTypes : List (Nat × String) := [%s]\n\n", strings.Join(s, ", "))
	lf.pf("/-- the data types with a non-nil `ReflectTypes` entry -/\n")
	lf.pf("def reflectNonNil : List Nat := [%s]\n\n", strings.Join(nn, ", "))

	// decimal constants
	lf.pf("/-! `asetypes/decimal.go` -/\n")
	for _, c := range []string{"ASEDecimalDefaultPrecision", "ASEDecimalDefaultScale", "ASEMoneyPrecision", "ASEMoneyScale",
		"ASEShortMoneyPrecision", "ASEShortMoneyScale", "aseMaxDecimalDigits"} {
		v, ok := untypedConst(p, c)
		if !ok || v < 0 {
			return nil, fmt.Errorf("asetypes: constant %s not found", c)
		}
		lf.pf("def %s : Nat := %d\n", lowerFirst(c), v)
	}

	// asetime units
	q, err := loadPkg(repo, "asetime")
	if err != nil {
		return nil, err
	}
	units := typedConsts(q, "ASEDuration")
	lf.pf("\n/-! `asetime/duration.go`: units in microseconds -/\n")
	for _, c := range []string{"Microsecond", "Millisecond", "Second", "Minute", "Hour", "Day"} {
		v, ok := units[c]
		if !ok {
			return nil, fmt.Errorf("asetime: constant %s (ASEDuration) not found", c)
		}
		lf.pf("def %s : Int := %s\n", strings.ToLower(c), leanInt(v))
	}
	lf.pf("\nend Dblib.Gen.Types\n")
	return lf, nil
}
