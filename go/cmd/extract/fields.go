package main

// Generator of lean/Dblib/Gen/FieldTypes.lean (codec group Fields): the switches of
// tds.LookupFieldFmt and tds.LookupFieldData (tds/field.go) — per data type the struct it
// constructs, the struct family that struct embeds (which decides its ReadFrom / WriteTo /
// FormatByteLength) and the maximum length LookupFieldFmt presets. Anything that is not of the shape
//
//	case asetypes.X:  f = &XFieldFmt{}  [f.setMaxLength(N)]  [f.setDisplayMaxLength(M)]
//	default:          return nil, fmt.Errorf(…)
//
// makes the generator fail (broken tie).

import (
	"fmt"
	"go/ast"
	"strings"
)

func init() { extraGens = append(extraGens, namedGen{"FieldTypes.lean", genFieldTypes}) }

// embeddedFamily returns the name of the single embedded struct of `type name struct{ family }`.
func embeddedFamily(p *pkgInfo, name string) (string, bool) {
	for _, f := range p.files {
		for _, d := range f.Decls {
			gd, ok := d.(*ast.GenDecl)
			if !ok {
				continue
			}
			for _, s := range gd.Specs {
				ts, ok := s.(*ast.TypeSpec)
				if !ok || ts.Name.Name != name {
					continue
				}
				st, ok := ts.Type.(*ast.StructType)
				if !ok || len(st.Fields.List) != 1 || len(st.Fields.List[0].Names) != 0 {
					return "", false
				}
				return exprStr(st.Fields.List[0].Type), true
			}
		}
	}
	return "", false
}

type fieldCase struct {
	t      int64
	strct  string
	family string
	preset int64
}

func fieldSwitch(p *pkgInfo, fn, recv string) ([]fieldCase, error) {
	fd := p.funcDecl("", fn)
	if fd == nil {
		return nil, fmt.Errorf("%s not found", fn)
	}
	var sw *ast.SwitchStmt
	for _, st := range fd.Body.List {
		if s, ok := st.(*ast.SwitchStmt); ok {
			sw = s
		}
	}
	if sw == nil {
		return nil, fmt.Errorf("%s: no switch", fn)
	}
	var out []fieldCase
	seenDefault := false
	for _, c := range sw.Body.List {
		cc := c.(*ast.CaseClause)
		if cc.List == nil {
			// default: return nil, fmt.Errorf(...)
			if len(cc.Body) != 1 {
				return nil, fmt.Errorf("%s: default with %d statements", fn, len(cc.Body))
			}
			ret, ok := cc.Body[0].(*ast.ReturnStmt)
			if !ok || len(ret.Results) != 2 || exprStr(ret.Results[0]) != "nil" || !strings.HasPrefix(exprStr(ret.Results[1]), "fmt.Errorf(") {
				return nil, fmt.Errorf("%s: default is not `return nil, fmt.Errorf(…)`", fn)
			}
			seenDefault = true
			continue
		}
		fc := fieldCase{}
		for i, st := range cc.Body {
			switch s := st.(type) {
			case *ast.AssignStmt:
				if i != 0 || len(s.Lhs) != 1 || exprStr(s.Lhs[0]) != recv || len(s.Rhs) != 1 {
					return nil, fmt.Errorf("%s: unrecognised assignment %s", fn, exprStr(s.Lhs[0]))
				}
				ue, ok := s.Rhs[0].(*ast.UnaryExpr)
				if !ok {
					return nil, fmt.Errorf("%s: unrecognised constructor", fn)
				}
				cl, ok := ue.X.(*ast.CompositeLit)
				if !ok || len(cl.Elts) != 0 {
					return nil, fmt.Errorf("%s: unrecognised constructor", fn)
				}
				fc.strct = exprStr(cl.Type)
			case *ast.ExprStmt:
				call, ok := s.X.(*ast.CallExpr)
				if !ok || len(call.Args) != 1 {
					return nil, fmt.Errorf("%s: unrecognised statement", fn)
				}
				switch exprStr(call.Fun) {
				case recv + ".setMaxLength":
					v, ok := p.constInt(call.Args[0])
					if !ok {
						return nil, fmt.Errorf("%s: setMaxLength of a non-constant", fn)
					}
					fc.preset = v
				case recv + ".setDisplayMaxLength":
					// presentation only
				default:
					return nil, fmt.Errorf("%s: unrecognised call %s", fn, exprStr(call.Fun))
				}
			default:
				return nil, fmt.Errorf("%s: unrecognised statement in a case", fn)
			}
		}
		if fc.strct == "" {
			return nil, fmt.Errorf("%s: case without constructor", fn)
		}
		fam, ok := embeddedFamily(p, fc.strct)
		if !ok {
			return nil, fmt.Errorf("%s: %s does not embed exactly one struct", fn, fc.strct)
		}
		fc.family = fam
		for _, e := range cc.List {
			v, ok := p.constInt(e)
			if !ok {
				return nil, fmt.Errorf("%s: non-constant case %s", fn, exprStr(e))
			}
			x := fc
			x.t = v
			out = append(out, x)
		}
	}
	if !seenDefault {
		return nil, fmt.Errorf("%s: no default case", fn)
	}
	return out, nil
}

func genFieldTypes(repo string) (*leanFile, error) {
	p, err := loadPkg(repo, "tds")
	if err != nil {
		return nil, err
	}
	fm, err := fieldSwitch(p, "LookupFieldFmt", "f")
	if err != nil {
		return nil, err
	}
	dt, err := fieldSwitch(p, "LookupFieldData", "d")
	if err != nil {
		return nil, err
	}
	lf := &leanFile{name: "FieldTypes.lean"}
	lf.pf("namespace Dblib.Gen.FieldTypes\n\n")
	var rows []string
	for _, c := range fm {
		rows = append(rows, fmt.Sprintf("(%d, %q, %q, %s)", c.t, c.strct, c.family, leanInt(c.preset)))
	}
	lf.pf("/-- the switch of `LookupFieldFmt` in source order: (data type, struct, embedded struct family,\n`setMaxLength` preset or 0); every other data type is an error -/\n")
	lf.pf("def fmtSwitch : List (Nat × String × String × Int) := [\n  %s\n]\n\n", strings.Join(rows, ",\n  "))
	rows = nil
	for _, c := range dt {
		rows = append(rows, fmt.Sprintf("(%d, %q, %q)", c.t, c.strct, c.family))
	}
	lf.pf("/-- the switch of `LookupFieldData` in source order: (data type, struct, embedded struct family);\nevery other data type is an error -/\n")
	lf.pf("def dataSwitch : List (Nat × String × String) := [\n  %s\n]\n\n", strings.Join(rows, ",\n  "))
	lf.pf("end Dblib.Gen.FieldTypes\n")
	return lf, nil
}
