package main

import (
	"fmt"
	"go/constant"
	"go/types"
	"sort"
)

// genTdsConsts emits every exported integer constant of package tds as `def <Name> : Int`.
func genTdsConsts(repo string) (*leanFile, error) {
	p, err := loadPkg(repo, "tds")
	if err != nil {
		return nil, err
	}
	if p.pkg == nil {
		return nil, fmt.Errorf("package tds did not type-check")
	}
	lf := &leanFile{name: "TdsConsts.lean"}
	lf.pf("namespace Dblib.Gen.Tds\n\n")
	scope := p.pkg.Scope()
	names := scope.Names()
	sort.Strings(names)
	n := 0
	for _, name := range names {
		c, ok := scope.Lookup(name).(*types.Const)
		if !ok || !c.Exported() {
			continue
		}
		if c.Val().Kind() != constant.Int {
			continue
		}
		v, ok := constant.Int64Val(c.Val())
		if !ok {
			continue
		}
		lf.pf("def %s : Int := %s\n", name, leanInt(v))
		n++
	}
	if n < 100 {
		return nil, fmt.Errorf("only %d constants found in package tds", n)
	}
	lf.pf("\nend Dblib.Gen.Tds\n")
	return lf, nil
}

func init() { extraGens = append(extraGens, namedGen{"TdsConsts.lean", genTdsConsts}) }
