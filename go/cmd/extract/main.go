// Command extract regenerates lean/Dblib/Gen/*.lean from the working tree of the
// repository (go/parser + go/types with the source importer, offline).
//
// It is deliberately small and declarative: it translates only the constructs it
// recognises and records everything else as `unknown`, which makes the dependent Lean
// obligations fail (reported by ./check as a broken tie, followed by the failing-input search).
package main

import (
	"bytes"
	"flag"
	"fmt"
	"go/ast"
	"go/constant"
	"go/importer"
	"go/parser"
	"go/token"
	"go/types"
	"os"
	"path/filepath"
	"sort"
	"strings"
)

type pkgInfo struct {
	fset  *token.FileSet
	files []*ast.File
	info  *types.Info
	pkg   *types.Package
	dir   string
}

var sharedFset = token.NewFileSet()
var sharedImporter types.Importer

func loadPkg(repo, rel string) (*pkgInfo, error) {
	dir := filepath.Join(repo, rel)
	ents, err := os.ReadDir(dir)
	if err != nil {
		return nil, err
	}
	var files []*ast.File
	for _, e := range ents {
		n := e.Name()
		if !strings.HasSuffix(n, ".go") || strings.HasSuffix(n, "_test.go") {
			continue
		}
		src, err := os.ReadFile(filepath.Join(dir, n))
		if err != nil {
			return nil, err
		}
		// honour the verif build tag: hook files are part of the build the harness uses,
		// but the facts extracted here are about the regular sources only.
		if bytes.Contains(src, []byte("//go:build verif")) {
			continue
		}
		f, err := parser.ParseFile(sharedFset, filepath.Join(dir, n), src, parser.ParseComments)
		if err != nil {
			return nil, err
		}
		files = append(files, f)
	}
	info := &types.Info{
		Types: map[ast.Expr]types.TypeAndValue{},
		Defs:  map[*ast.Ident]types.Object{},
		Uses:  map[*ast.Ident]types.Object{},
	}
	conf := types.Config{Importer: sharedImporter, Error: func(err error) {}}
	name := "github.com/SAP/go-dblib"
	if rel != "." && rel != "" {
		name += "/" + rel
	}
	pkg, _ := conf.Check(name, sharedFset, files, info)
	return &pkgInfo{fset: sharedFset, files: files, info: info, pkg: pkg, dir: dir}, nil
}

func (p *pkgInfo) constInt(e ast.Expr) (int64, bool) {
	tv, ok := p.info.Types[e]
	if !ok || tv.Value == nil {
		return 0, false
	}
	if tv.Value.Kind() != constant.Int {
		return 0, false
	}
	v, ok := constant.Int64Val(tv.Value)
	return v, ok
}

func (p *pkgInfo) funcDecl(recv, name string) *ast.FuncDecl {
	for _, f := range p.files {
		for _, d := range f.Decls {
			fd, ok := d.(*ast.FuncDecl)
			if !ok || fd.Name.Name != name {
				continue
			}
			if recv == "" && fd.Recv == nil {
				return fd
			}
			if recv != "" && fd.Recv != nil && len(fd.Recv.List) == 1 {
				t := fd.Recv.List[0].Type
				if s, ok := t.(*ast.StarExpr); ok {
					t = s.X
				}
				if id, ok := t.(*ast.Ident); ok && id.Name == recv {
					return fd
				}
			}
		}
	}
	return nil
}

func (p *pkgInfo) varDecl(name string) *ast.ValueSpec {
	for _, f := range p.files {
		for _, d := range f.Decls {
			gd, ok := d.(*ast.GenDecl)
			if !ok || gd.Tok != token.VAR {
				continue
			}
			for _, s := range gd.Specs {
				vs := s.(*ast.ValueSpec)
				for _, n := range vs.Names {
					if n.Name == name {
						return vs
					}
				}
			}
		}
	}
	return nil
}

// intMapLiteral evaluates a `map[K]V{ k: v, ... }` literal with constant integer keys and values.
func (p *pkgInfo) intMapLiteral(name string) ([][2]int64, bool) {
	vs := p.varDecl(name)
	if vs == nil || len(vs.Values) != 1 {
		return nil, false
	}
	cl, ok := vs.Values[0].(*ast.CompositeLit)
	if !ok {
		return nil, false
	}
	var out [][2]int64
	for _, el := range cl.Elts {
		kv, ok := el.(*ast.KeyValueExpr)
		if !ok {
			return nil, false
		}
		k, ok1 := p.constInt(kv.Key)
		v, ok2 := p.constInt(kv.Value)
		if !ok1 || !ok2 {
			return nil, false
		}
		out = append(out, [2]int64{k, v})
	}
	return out, true
}

type leanFile struct {
	name string
	buf  bytes.Buffer
}

func (l *leanFile) pf(format string, a ...interface{}) { fmt.Fprintf(&l.buf, format, a...) }

func leanInt(v int64) string {
	if v < 0 {
		return fmt.Sprintf("(%d)", v)
	}
	return fmt.Sprintf("%d", v)
}

func leanPairs(ps [][2]int64) string {
	s := []string{}
	for _, p := range ps {
		s = append(s, fmt.Sprintf("(%s, %s)", leanInt(p[0]), leanInt(p[1])))
	}
	return "[" + strings.Join(s, ", ") + "]"
}

func writeIfChanged(path string, content []byte) (bool, error) {
	old, err := os.ReadFile(path)
	if err == nil && bytes.Equal(old, content) {
		return false, nil
	}
	tmp := path + ".tmp"
	if err := os.WriteFile(tmp, content, 0o644); err != nil {
		return false, err
	}
	return true, os.Rename(tmp, path)
}

func sortedKeys(m map[string]int64) []string {
	ks := make([]string, 0, len(m))
	for k := range m {
		ks = append(ks, k)
	}
	sort.Strings(ks)
	return ks
}

func main() {
	repo := flag.String("repo", "/repo", "repository root")
	out := flag.String("out", "/verif/lean/Dblib/Gen", "output directory")
	flag.Parse()
	sharedImporter = importer.ForCompiler(sharedFset, "source", nil)
	os.MkdirAll(*out, 0o755)
	// the source importer resolves github.com/SAP/go-dblib/... through the module in cwd
	if err := os.Chdir(*repo); err != nil {
		fmt.Fprintln(os.Stderr, err)
		os.Exit(1)
	}

	gens := []namedGen{{"Isolation.lean", genIsolation}}
	gens = append(gens, extraGens...)
	failed := false
	for _, g := range gens {
		// a generator that does not recognise the code it translates leaves the previous file in place and a
		// marker `<file>.failed` with the reason next to it: the check decides per property what that means
		marker := filepath.Join(*out, g.name+".failed")
		lf, err := g.f(*repo)
		if err != nil {
			fmt.Println("FAILED", g.name+":", err)
			os.WriteFile(marker, []byte(err.Error()+"\n"), 0o644)
			continue
		}
		os.Remove(marker)
		hdr := "/- GENERATED by /verif/go/cmd/extract from /repo on every run. Do not edit. -/\n"
		changed, err := writeIfChanged(filepath.Join(*out, lf.name), append([]byte(hdr), lf.buf.Bytes()...))
		if err != nil {
			fmt.Fprintln(os.Stderr, "extract:", err)
			failed = true
		}
		if changed {
			fmt.Println("regenerated", lf.name)
		}
	}
	if failed {
		os.Exit(1)
	}
}

type namedGen struct {
	name string
	f    func(repo string) (*leanFile, error)
}

var extraGens []namedGen

// ---------------------------------------------------------------------------------------
// isolationlevels.go

func genIsolation(repo string) (*leanFile, error) {
	p, err := loadPkg(repo, ".")
	if err != nil {
		return nil, err
	}
	lf := &leanFile{name: "Isolation.lean"}
	lf.pf("namespace Dblib.Gen.Isolation\n\n")
	fwd, ok := p.intMapLiteral("sql2ase")
	if !ok {
		return nil, fmt.Errorf("isolationlevels.go: sql2ase is not a map literal with constant keys and values")
	}
	lf.pf("/-- the `sql2ase` literal: (sql.IsolationLevel, ASEIsolationLevel) -/\n")
	lf.pf("def sql2ase : List (Int × Int) := %s\n\n", leanPairs(fwd))
	// constants
	for _, c := range []string{"ASELevelInvalid", "ASELevelReadUncommitted", "ASELevelReadCommitted", "ASELevelRepeatableRead", "ASELevelSerializableRead"} {
		obj := p.pkg.Scope().Lookup(c)
		cst, ok := obj.(*types.Const)
		if !ok {
			return nil, fmt.Errorf("constant %s not found", c)
		}
		v, _ := constant.Int64Val(cst.Val())
		lf.pf("def %s : Int := %s\n", lowerFirst(c), leanInt(v))
	}
	// ASEIsolationLevelFromGo: shape check — lookup in sql2ase, !ok => error, == ASELevelInvalid => error
	fromShape := "unknown"
	if fd := p.funcDecl("", "ASEIsolationLevelFromGo"); fd != nil && fd.Body != nil && len(fd.Body.List) == 4 {
		as, ok1 := fd.Body.List[0].(*ast.AssignStmt)
		if1, ok2 := fd.Body.List[1].(*ast.IfStmt)
		if2, ok3 := fd.Body.List[2].(*ast.IfStmt)
		ret, ok4 := fd.Body.List[3].(*ast.ReturnStmt)
		if ok1 && ok2 && ok3 && ok4 && len(as.Rhs) == 1 {
			if ix, ok := as.Rhs[0].(*ast.IndexExpr); ok && exprStr(ix.X) == "sql2ase" && exprStr(ix.Index) == paramName(fd, 0) &&
				exprStr(if1.Cond) == "!ok" && returnsNonNilErr(if1.Body) &&
				exprStr(if2.Cond) == exprStr(as.Lhs[0])+" == ASELevelInvalid" && returnsNonNilErr(if2.Body) &&
				len(ret.Results) == 2 && exprStr(ret.Results[0]) == exprStr(as.Lhs[0]) && exprStr(ret.Results[1]) == "nil" {
				fromShape = "lookupRejectInvalid"
			}
		}
	}
	lf.pf("\ninductive FromGoShape | lookupRejectInvalid | unknown\nderiving DecidableEq, Repr\n")
	lf.pf("def fromGoShape : FromGoShape := .%s\n", fromShape)

	// ToGo: either `for k, v := range M { if v == lvl { return k } } return D`  (map iteration: unordered)
	//       or     `if v, ok := M[lvl]; ok { return v }; return D`             (lookup: a function)
	kind, table, dflt := "unknown", [][2]int64{}, int64(0)
	if fd := p.funcDecl("ASEIsolationLevel", "ToGo"); fd != nil && fd.Body != nil && len(fd.Body.List) == 2 {
		recv := fd.Recv.List[0].Names[0].Name
		ret, okr := fd.Body.List[1].(*ast.ReturnStmt)
		if okr && len(ret.Results) == 1 {
			if d, ok := p.constInt(ret.Results[0]); ok {
				dflt = d
				switch st := fd.Body.List[0].(type) {
				case *ast.RangeStmt:
					if id, ok := st.X.(*ast.Ident); ok {
						if _, isMap := p.info.Types[st.X].Type.Underlying().(*types.Map); isMap && len(st.Body.List) == 1 {
							if ifs, ok := st.Body.List[0].(*ast.IfStmt); ok &&
								exprStr(ifs.Cond) == exprStr(st.Value)+" == "+recv && len(ifs.Body.List) == 1 {
								if r, ok := ifs.Body.List[0].(*ast.ReturnStmt); ok && len(r.Results) == 1 && exprStr(r.Results[0]) == exprStr(st.Key) {
									if t, ok := p.intMapLiteral(id.Name); ok {
										kind, table = "rangeOverMap", t
									}
								}
							}
						}
					}
				case *ast.IfStmt:
					if as, ok := st.Init.(*ast.AssignStmt); ok && len(as.Lhs) == 2 && len(as.Rhs) == 1 {
						if ix, ok := as.Rhs[0].(*ast.IndexExpr); ok && exprStr(ix.Index) == recv && exprStr(st.Cond) == exprStr(as.Lhs[1]) && len(st.Body.List) == 1 && st.Else == nil {
							if r, ok := st.Body.List[0].(*ast.ReturnStmt); ok && len(r.Results) == 1 && exprStr(r.Results[0]) == exprStr(as.Lhs[0]) {
								if id, ok := ix.X.(*ast.Ident); ok {
									if _, isMap := p.info.Types[ix.X].Type.Underlying().(*types.Map); isMap {
										if t, ok := p.intMapLiteral(id.Name); ok {
											kind, table = "lookupMap", t
										}
									}
								}
							}
						}
					}
				}
			}
		}
	}
	lf.pf("\n/-- how `ToGo` finds its answer: ranging over a Go map is unordered, indexing a map is a function -/\n")
	lf.pf("inductive ToGoKind | rangeOverMap | lookupMap | unknown\nderiving DecidableEq, Repr\n")
	lf.pf("def toGoKind : ToGoKind := .%s\n", kind)
	lf.pf("/-- the table `ToGo` consults, as (key, value) pairs of the literal -/\n")
	lf.pf("def toGoTable : List (Int × Int) := %s\n", leanPairs(table))
	lf.pf("def toGoDefault : Int := %s\n", leanInt(dflt))
	// String(): must be ToGo().String()
	strShape := "unknown"
	if fd := p.funcDecl("ASEIsolationLevel", "String"); fd != nil && fd.Body != nil && len(fd.Body.List) == 1 {
		if r, ok := fd.Body.List[0].(*ast.ReturnStmt); ok && len(r.Results) == 1 && exprStr(r.Results[0]) == fd.Recv.List[0].Names[0].Name+".ToGo().String()" {
			strShape = "viaToGo"
		}
	}
	lf.pf("\ninductive StringShape | viaToGo | unknown\nderiving DecidableEq, Repr\n")
	lf.pf("def stringShape : StringShape := .%s\n", strShape)
	lf.pf("\nend Dblib.Gen.Isolation\n")
	if fromShape == "unknown" || kind == "unknown" || strShape == "unknown" {
		return nil, fmt.Errorf("isolationlevels.go: shape not recognised (ASEIsolationLevelFromGo: %s, ToGo: %s, String: %s)", fromShape, kind, strShape)
	}
	return lf, nil
}

func lowerFirst(s string) string {
	// ASELevelInvalid -> aseLevelInvalid
	if strings.HasPrefix(s, "ASE") {
		return "ase" + s[3:]
	}
	return strings.ToLower(s[:1]) + s[1:]
}

func exprStr(e ast.Expr) string {
	if e == nil {
		return ""
	}
	return types.ExprString(e)
}

func paramName(fd *ast.FuncDecl, i int) string {
	k := 0
	for _, f := range fd.Type.Params.List {
		for _, n := range f.Names {
			if k == i {
				return n.Name
			}
			k++
		}
	}
	return ""
}

func returnsNonNilErr(b *ast.BlockStmt) bool {
	if len(b.List) != 1 {
		return false
	}
	r, ok := b.List[0].(*ast.ReturnStmt)
	if !ok || len(r.Results) != 2 {
		return false
	}
	return exprStr(r.Results[1]) != "nil"
}
