package main

import (
	"fmt"
	"go/ast"
	"go/token"
	"go/types"
	"sort"
	"strings"
)

// genCrypto extracts where the secrets of the encrypted login come from (tds/crypto.go): the session key
// is read from crypto/rand into a buffer allocated by that very call, RSA-OAEP draws from crypto/rand, and
// the package keeps no package-level byte buffer that calls could share. Freshness itself is a property
// of the random source (not provable); that nothing is shared between logins is structure.
func genCrypto(repo string) (*leanFile, error) {
	p, err := loadPkg(repo, "tds")
	if err != nil {
		return nil, err
	}
	// package-level variables of a byte slice / byte array type
	var buffers []string
	for _, f := range p.files {
		if !strings.HasSuffix(p.fset.Position(f.Pos()).Filename, "crypto.go") {
			continue
		}
		for _, d := range f.Decls {
			gd, ok := d.(*ast.GenDecl)
			if !ok || gd.Tok != token.VAR {
				continue
			}
			for _, s := range gd.Specs {
				vs := s.(*ast.ValueSpec)
				for _, n := range vs.Names {
					obj := p.info.Defs[n]
					if obj == nil {
						continue
					}
					switch t := obj.Type().Underlying().(type) {
					case *types.Slice:
						if b, ok := t.Elem().Underlying().(*types.Basic); ok && b.Kind() == types.Uint8 {
							buffers = append(buffers, n.Name)
						}
					case *types.Array:
						if b, ok := t.Elem().Underlying().(*types.Basic); ok && b.Kind() == types.Uint8 {
							buffers = append(buffers, n.Name)
						}
					}
				}
			}
		}
	}
	sort.Strings(buffers)
	randPath := func(e ast.Expr) string { // "crypto/rand.Read" for rand.Read
		se, ok := e.(*ast.SelectorExpr)
		if !ok {
			return exprStr(e)
		}
		if id, ok := se.X.(*ast.Ident); ok {
			if pn, ok := p.info.Uses[id].(*types.PkgName); ok {
				return pn.Imported().Path() + "." + se.Sel.Name
			}
		}
		return exprStr(e)
	}
	keySource, keyFill := "", ""
	if fd := p.funcDecl("", "generateSymmetricKey"); fd != nil {
		// the buffer handed to the random source, and what it was assigned
		var buf string
		ast.Inspect(fd.Body, func(n ast.Node) bool {
			if c, ok := n.(*ast.CallExpr); ok && len(c.Args) == 1 && strings.HasSuffix(randPath(c.Fun), "rand.Read") {
				keyFill = randPath(c.Fun)
				buf = exprStr(c.Args[0])
			}
			return true
		})
		ast.Inspect(fd.Body, func(n ast.Node) bool {
			if as, ok := n.(*ast.AssignStmt); ok && len(as.Lhs) == 1 && len(as.Rhs) == 1 && exprStr(as.Lhs[0]) == buf {
				keySource = exprStr(as.Rhs[0])
			}
			return true
		})
	}
	oaepRandom := ""
	if fd := p.funcDecl("", "rsaEncrypt"); fd != nil {
		ast.Inspect(fd.Body, func(n ast.Node) bool {
			if c, ok := n.(*ast.CallExpr); ok && strings.HasSuffix(exprStr(c.Fun), ".EncryptOAEP") && len(c.Args) >= 2 {
				oaepRandom = randPath(c.Args[1])
			}
			return true
		})
	}
	q := make([]string, len(buffers))
	for i, b := range buffers {
		q[i] = fmt.Sprintf("%q", b)
	}
	lf := &leanFile{name: "Crypto.lean"}
	lf.pf("namespace Dblib.Gen.Crypto\n\n")
	lf.pf("/-- package-level variables of tds/crypto.go whose type is a byte slice or byte array -/\n")
	lf.pf("def packageLevelByteBuffers : List String := [%s]\n", strings.Join(q, ", "))
	lf.pf("/-- `generateSymmetricKey`: what the buffer handed to the random source was assigned, and the source -/\n")
	lf.pf("def symKeyBuffer : String := %q\n", keySource)
	lf.pf("def symKeyFill : String := %q\n", keyFill)
	lf.pf("/-- `rsaEncrypt`: the random source of RSA-OAEP -/\n")
	lf.pf("def oaepRandom : String := %q\n", oaepRandom)
	lf.pf("\nend Dblib.Gen.Crypto\n")
	return lf, nil
}

func init() { extraGens = append(extraGens, namedGen{"Crypto.lean", genCrypto}) }
