package main

import (
	"go/ast"
	"go/types"
	"sort"
	"strings"
)

// genTimeUse extracts how the date/time codecs (packages asetime and asetypes) look at time.Time values:
// the methods they call on them and the locations they construct times in. The value model represents a
// time by its clock reading (date and time-of-day fields); that is what the code encodes as long as it
// only asks a value for its fields and never for anything that depends on the value's location or on the
// instant it denotes (Sub, Unix, In, Location, Truncate, …).
func genTimeUse(repo string) (*leanFile, error) {
	methods := map[string]bool{}
	locs := map[string]bool{}
	funcs := map[string]bool{}
	for _, rel := range []string{"asetime", "asetypes"} {
		p, err := loadPkg(repo, rel)
		if err != nil {
			return nil, err
		}
		for _, f := range p.files {
			ast.Inspect(f, func(n ast.Node) bool {
				c, ok := n.(*ast.CallExpr)
				if !ok {
					return true
				}
				se, ok := c.Fun.(*ast.SelectorExpr)
				if !ok {
					return true
				}
				// package-level functions of package time
				if id, ok := se.X.(*ast.Ident); ok {
					if pn, ok := p.info.Uses[id].(*types.PkgName); ok && pn.Imported().Path() == "time" {
						funcs["time."+se.Sel.Name] = true
						if se.Sel.Name == "Date" && len(c.Args) == 8 {
							locs[exprStr(c.Args[7])] = true
						}
						return true
					}
				}
				// methods on values of type time.Time
				if tv, ok := p.info.Types[se.X]; ok && tv.Type != nil {
					if t := strings.TrimPrefix(tv.Type.String(), "*"); t == "time.Time" {
						methods[se.Sel.Name] = true
					}
				}
				return true
			})
		}
	}
	list := func(m map[string]bool) string {
		var l []string
		for k := range m {
			l = append(l, k)
		}
		sort.Strings(l)
		q := make([]string, len(l))
		for i, x := range l {
			q[i] = "\"" + x + "\""
		}
		return "[" + strings.Join(q, ", ") + "]"
	}
	lf := &leanFile{name: "TimeUse.lean"}
	lf.pf("namespace Dblib.Gen.TimeUse\n\n")
	lf.pf("/-- methods called on `time.Time` values in packages asetime and asetypes -/\n")
	lf.pf("def timeMethods : List String := %s\n", list(methods))
	lf.pf("/-- functions of package `time` called there -/\n")
	lf.pf("def timeFuncs : List String := %s\n", list(funcs))
	lf.pf("/-- the location argument of every `time.Date` call there -/\n")
	lf.pf("def dateLocations : List String := %s\n", list(locs))
	lf.pf("\nend Dblib.Gen.TimeUse\n")
	return lf, nil
}

func init() { extraGens = append(extraGens, namedGen{"TimeUse.lean", genTimeUse}) }
