package main

import (
	"fmt"
	"go/ast"
	"go/constant"
	"go/token"
	"strings"
)

// genLoginLayout translates the straight-line body of LoginConfig.pack (tds/loginConfig.go) into a
// list of layout items. Anything it does not recognise is an error (broken tie).
func genLoginLayout(repo string) (*leanFile, error) {
	p, err := loadPkg(repo, "tds")
	if err != nil {
		return nil, err
	}
	fd := p.funcDecl("LoginConfig", "pack")
	if fd == nil {
		return nil, fmt.Errorf("LoginConfig.pack not found")
	}
	lf := &leanFile{name: "LoginLayout.lean"}
	lf.pf("namespace Dblib.Gen.LoginLayout\n\n")
	lf.pf("/-- what a `writeString` step writes: a configuration field or a string constant (its bytes) -/\ninductive Ref where\n")
	lf.pf("  | hostname | username | password | hostproc | appname | servname | language | charset\n")
	lf.pf("  | const (bs : List Nat)\nderiving Repr, DecidableEq\n\n")
	lf.pf("/-- one step of `LoginConfig.pack` -/\ninductive Item where\n")
	lf.pf("  | str (field : Ref) (width : Nat)                          -- writeString(buf, field, width)\n")
	lf.pf("  | strEnc (encIds : List Int) (fieldEnc fieldElse : Ref) (width : Nat)  -- switch config.Encrypt { case encIds: writeString(fieldEnc) default: writeString(fieldElse) }\n")
	lf.pf("  | endian (little big : Nat)                                -- writeBasedOnEndian(buf, little, big)\n")
	lf.pf("  | byte (c : Nat)                                           -- buf.WriteByte(c)\n")
	lf.pf("  | zeros (n : Nat)                                          -- buf.Write(make([]byte, n))\n")
	lf.pf("  | lit (bs : List Nat)                                      -- buf.Write([]byte{…})\n")
	lf.pf("  | byteEnc (cases : List (List Int × Nat)) (dflt : Nat)     -- switch config.Encrypt { case ids: buf.WriteByte(c) … default: buf.WriteByte(dflt) }\n")
	lf.pf("deriving Repr, DecidableEq\n\n")

	var items []string
	refs := map[string]string{"config.Hostname": ".hostname", "config.DSN.Username": ".username",
		"config.DSN.Password": ".password", "config.HostProc": ".hostproc", "config.AppName": ".appname",
		"config.ServName": ".servname", "config.Language": ".language", "config.CharSet": ".charset"}
	fieldName := func(e ast.Expr) (string, bool) {
		if tv, ok := p.info.Types[e]; ok && tv.Value != nil && tv.Value.Kind() == constant.String {
			var bs []string
			for _, b := range []byte(constant.StringVal(tv.Value)) {
				bs = append(bs, fmt.Sprintf("%d", b))
			}
			return "(.const [" + strings.Join(bs, ", ") + "])", true
		}
		if r, ok := refs[exprStr(e)]; ok {
			return r, true
		}
		return "", false
	}
	// writeString(buf, X, N)
	parseWriteString := func(call *ast.CallExpr) (string, int64, bool) {
		if id, ok := call.Fun.(*ast.Ident); !ok || id.Name != "writeString" || len(call.Args) != 3 {
			return "", 0, false
		}
		f, ok1 := fieldName(call.Args[1])
		n, ok2 := p.constInt(call.Args[2])
		return f, n, ok1 && ok2 && exprStr(call.Args[0]) == "buf"
	}
	callOf := func(st ast.Stmt) *ast.CallExpr {
		switch s := st.(type) {
		case *ast.IfStmt:
			if as, ok := s.Init.(*ast.AssignStmt); ok && len(as.Rhs) == 1 {
				if c, ok := as.Rhs[0].(*ast.CallExpr); ok {
					return c
				}
			}
		case *ast.AssignStmt:
			if len(s.Rhs) == 1 {
				if c, ok := s.Rhs[0].(*ast.CallExpr); ok {
					return c
				}
			}
		}
		return nil
	}
	encIds := func(cc *ast.CaseClause) ([]string, bool) {
		var ids []string
		for _, e := range cc.List {
			v, ok := p.constInt(e)
			if !ok {
				return nil, false
			}
			ids = append(ids, leanInt(v))
		}
		return ids, true
	}
	simpleItem := func(call *ast.CallExpr) (string, bool) {
		if f, n, ok := parseWriteString(call); ok {
			return fmt.Sprintf(".str %s %d", f, n), true
		}
		if id, ok := call.Fun.(*ast.Ident); ok && id.Name == "writeBasedOnEndian" && len(call.Args) == 3 {
			l, ok1 := p.constInt(call.Args[1])
			b, ok2 := p.constInt(call.Args[2])
			if ok1 && ok2 {
				return fmt.Sprintf(".endian %d %d", l, b), true
			}
		}
		if sel, ok := call.Fun.(*ast.SelectorExpr); ok && exprStr(sel.X) == "buf" {
			switch sel.Sel.Name {
			case "WriteByte":
				if v, ok := p.constInt(call.Args[0]); ok {
					return fmt.Sprintf(".byte %d", v), true
				}
			case "Write":
				arg := call.Args[0]
				if mk, ok := arg.(*ast.CallExpr); ok {
					if id, ok := mk.Fun.(*ast.Ident); ok && id.Name == "make" && len(mk.Args) == 2 {
						if n, ok := p.constInt(mk.Args[1]); ok {
							return fmt.Sprintf(".zeros %d", n), true
						}
					}
					if exprStr(mk) == "libraryVersion.Bytes()" {
						// the four version bytes of the library version literal
						vs := p.varDecl("libraryVersion")
						if vs != nil && len(vs.Values) == 1 {
							if cl, ok := vs.Values[0].(*ast.CompositeLit); ok {
								m := map[string]int64{}
								for _, el := range cl.Elts {
									kv := el.(*ast.KeyValueExpr)
									v, _ := p.constInt(kv.Value)
									m[exprStr(kv.Key)] = v
								}
								return fmt.Sprintf(".lit [%d, %d, %d, %d]", m["major"], m["minor"], m["sp"], m["patch"]), true
							}
						}
					}
				}
				if cl, ok := arg.(*ast.CompositeLit); ok {
					var bs []string
					for _, el := range cl.Elts {
						v, ok := p.constInt(el)
						if !ok {
							return "", false
						}
						bs = append(bs, fmt.Sprintf("%d", v))
					}
					return ".lit [" + strings.Join(bs, ", ") + "]", true
				}
			}
		}
		return "", false
	}

	stmts := fd.Body.List
	for i := 0; i < len(stmts); i++ {
		st := stmts[i]
		switch s := st.(type) {
		case *ast.AssignStmt:
			// buf := &bytes.Buffer{}
			if exprStr(s.Lhs[0]) == "buf" {
				continue
			}
			return nil, fmt.Errorf("pack: unrecognised assignment at %s", p.fset.Position(s.Pos()))
		case *ast.DeclStmt:
			continue // var err error
		case *ast.IfStmt:
			if s.Init == nil {
				// `if err != nil { return … }` after a switch
				if exprStr(s.Cond) == "err != nil" {
					continue
				}
				return nil, fmt.Errorf("pack: unrecognised if at %s", p.fset.Position(s.Pos()))
			}
			call := callOf(s)
			if call == nil {
				return nil, fmt.Errorf("pack: unrecognised statement at %s", p.fset.Position(s.Pos()))
			}
			it, ok := simpleItem(call)
			if !ok {
				return nil, fmt.Errorf("pack: unrecognised call %s at %s", exprStr(call), p.fset.Position(s.Pos()))
			}
			items = append(items, it)
		case *ast.SwitchStmt:
			if exprStr(s.Tag) != "config.Encrypt" {
				return nil, fmt.Errorf("pack: switch on %s", exprStr(s.Tag))
			}
			// either writeString in every arm or WriteByte in every arm
			var strIds []string
			strEnc, strElse := "", ""
			var width int64 = -1
			var byteCases []string
			byteDflt := int64(-1)
			kind := ""
			for _, c := range s.Body.List {
				cc := c.(*ast.CaseClause)
				if len(cc.Body) != 1 {
					return nil, fmt.Errorf("pack: switch arm with %d statements", len(cc.Body))
				}
				call := callOf(cc.Body[0])
				if call == nil {
					return nil, fmt.Errorf("pack: unrecognised switch arm")
				}
				if f, n, ok := parseWriteString(call); ok {
					if kind == "byte" || (width != -1 && width != n) {
						return nil, fmt.Errorf("pack: mixed switch")
					}
					kind, width = "str", n
					if cc.List == nil {
						strElse = f
					} else {
						ids, ok := encIds(cc)
						if !ok || (strEnc != "" && strEnc != f) {
							return nil, fmt.Errorf("pack: unrecognised encrypt case list")
						}
						strIds = append(strIds, ids...)
						strEnc = f
					}
					continue
				}
				if sel, ok := call.Fun.(*ast.SelectorExpr); ok && exprStr(sel.X) == "buf" && sel.Sel.Name == "WriteByte" {
					v, okv := p.constInt(call.Args[0])
					if !okv || kind == "str" {
						return nil, fmt.Errorf("pack: unrecognised byte switch arm")
					}
					kind = "byte"
					if cc.List == nil {
						byteDflt = v
					} else {
						ids, ok := encIds(cc)
						if !ok {
							return nil, fmt.Errorf("pack: unrecognised encrypt case list")
						}
						byteCases = append(byteCases, fmt.Sprintf("([%s], %d)", strings.Join(ids, ", "), v))
					}
					continue
				}
				return nil, fmt.Errorf("pack: unrecognised switch arm %s", exprStr(call))
			}
			switch kind {
			case "str":
				items = append(items, fmt.Sprintf(".strEnc [%s] %s %s %d", strings.Join(strIds, ", "), strEnc, strElse, width))
			case "byte":
				if byteDflt < 0 {
					return nil, fmt.Errorf("pack: byte switch without default")
				}
				items = append(items, fmt.Sprintf(".byteEnc [%s] %d", strings.Join(byteCases, ", "), byteDflt))
			default:
				return nil, fmt.Errorf("pack: empty switch")
			}
		case *ast.ReturnStmt:
			continue
		default:
			return nil, fmt.Errorf("pack: unrecognised statement %T at %s", st, p.fset.Position(st.Pos()))
		}
	}
	lf.pf("/-- the steps of `LoginConfig.pack`, in order -/\ndef layout : List Item := [\n  %s\n]\n\n", strings.Join(items, ",\n  "))

	// byte order: initial value of `endian` in tds/binary.go
	little := "false"
	if vs := p.varDecl("endian"); vs != nil && len(vs.Values) == 1 && exprStr(vs.Values[0]) == "binary.LittleEndian" {
		little = "true"
	} else if vs == nil || len(vs.Values) != 1 || exprStr(vs.Values[0]) != "binary.BigEndian" {
		return nil, fmt.Errorf("binary.go: endian is neither binary.LittleEndian nor binary.BigEndian")
	}
	lf.pf("/-- `tds/binary.go`: the byte order the value codecs use -/\ndef littleEndian : Bool := %s\n\n", little)
	_ = token.NoPos
	lf.pf("end Dblib.Gen.LoginLayout\n")
	return lf, nil
}

func init() { extraGens = append(extraGens, namedGen{"LoginLayout.lean", genLoginLayout}) }
