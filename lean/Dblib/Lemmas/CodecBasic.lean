/-
Lemmas for the codec group Basic (`Model/Codec/Basic.lean`):
* primitive round trips (`leDecode (leEncode w n) = n`, …) and the predicate `Parses p enc a`
  ("`p` consumes exactly `enc`, whatever follows, and yields `a`") with its bind rule;
* `NoPanic p` (C10) and its closure lemmas;
* the fuel loop `loop`: `Incr`, `NoPanic`, fuel irrelevance and monotonicity, and the rule that turns
  a fuel-indexed family of `Incr` decoders into an `Incr` decoder that takes the input length as fuel.
-/
import Dblib.Model.Codec.Basic
import Dblib.Lemmas.Parser

namespace Dblib.Codec.Basic
open Dblib

/-! ### little-endian primitives -/

theorem leEncode_length (w n : Nat) : (leEncode w n).length = w := by
  induction w generalizing n with
  | zero => rfl
  | succ w ih => simp [leEncode, ih]

theorem leDecode_leEncode (w n : Nat) (h : n < 256 ^ w) : leDecode (leEncode w n) = n := by
  induction w generalizing n with
  | zero => simp [leEncode, leDecode]; simp at h; omega
  | succ w ih =>
    have h' : n / 256 < 256 ^ w := by
      rw [Nat.pow_succ] at h
      exact Nat.div_lt_of_lt_mul (by rw [Nat.mul_comm]; exact h)
    simp only [leEncode, leDecode, ih _ h']
    have : (UInt8.ofNat (n % 256)).toNat = n % 256 := by
      simp [UInt8.toNat_ofNat']
    rw [this]; omega

theorem leDecode_leEncode_mod (w n : Nat) : leDecode (leEncode w n) = n % 256 ^ w := by
  induction w generalizing n with
  | zero => simp [leEncode, leDecode, Nat.mod_one]
  | succ w ih =>
    simp only [leEncode, leDecode, ih]
    have : (UInt8.ofNat (n % 256)).toNat = n % 256 := by
      simp [UInt8.toNat_ofNat']
    rw [this, Nat.pow_succ, Nat.mul_comm (256 ^ w) 256, Nat.mod_mul]

theorem leEncodeInt_length (w : Nat) (i : Int) : (leEncodeInt w i).length = w := by
  simp [leEncodeInt, leEncode_length]

theorem byte_length (n : Nat) : (byte n).length = 1 := rfl

/-! ### `Parses` -/

/-- `p` consumes exactly `enc` and yields `a`, whatever follows -/
def Parses {α : Type} (p : P α) (enc : Bytes) (a : α) : Prop :=
  ∀ rest, p (enc ++ rest) = .ok a enc.length

theorem parses_pure {α : Type} (a : α) : Parses (Pure.pure a : P α) [] a := by
  intro rest; rfl

theorem parses_bind {α β : Type} {p : P α} {f : α → P β} {e1 e2 : Bytes} {a : α} {b : β}
    (hp : Parses p e1 a) (hf : Parses (f a) e2 b) : Parses (p >>= f) (e1 ++ e2) b := by
  intro rest
  simp only [Bind.bind, P.bind]
  rw [List.append_assoc, hp (e2 ++ rest)]
  simp only [List.drop_left, hf rest, List.length_append]

theorem parses_bind_pure {α β : Type} {p : P α} {f : α → P β} {e : Bytes} {a : α} {b : β}
    (hp : Parses p e a) (hf : f a = Pure.pure b) : Parses (p >>= f) e b := by
  have := parses_bind (f := f) hp (by rw [hf]; exact parses_pure b)
  simpa using this

theorem parses_take (bs : Bytes) : Parses (P.take bs.length) bs bs := by
  intro rest
  simp [P.take]

theorem parses_take_of_eq {n : Nat} {bs : Bytes} (h : n = bs.length) : Parses (P.take n) bs bs := by
  subst h; exact parses_take bs

theorem parses_u8 (n : Nat) (h : n < 256) : Parses P.u8 (byte n) n := by
  intro rest
  simp only [byte, List.cons_append, List.nil_append, P.u8, List.length_cons, List.length_nil]
  have : (UInt8.ofNat n).toNat = n := by simp [UInt8.toNat_ofNat']; omega
  rw [this]

theorem parses_uintLE (w n : Nat) (h : n < 256 ^ w) : Parses (P.uintLE w) (leEncode w n) n := by
  unfold P.uintLE
  refine parses_bind_pure (parses_take_of_eq (leEncode_length w n).symm) ?_
  simp [leDecode_leEncode w n h]

theorem parses_u16 (n : Nat) (h : n < 65536) : Parses P.u16 (leEncode 2 n) n :=
  parses_uintLE 2 n (by simpa using h)

theorem parses_u32 (n : Nat) (h : n < 4294967296) : Parses P.u32 (leEncode 4 n) n :=
  parses_uintLE 4 n (by simpa using h)

theorem toSigned_wrap (w : Nat) (i : Int) (hlo : -((256 ^ w / 2 : Nat) : Int) ≤ i)
    (hhi : i < ((256 ^ w / 2 : Nat) : Int)) (hw : 256 ^ w % 2 = 0) :
    P.toSigned w (i % ((256 ^ w : Nat) : Int)).toNat = i := by
  unfold P.toSigned
  have hpos : (0 : Int) < ((256 ^ w : Nat) : Int) := by
    have : 0 < 256 ^ w := Nat.pow_pos (by decide)
    exact_mod_cast this
  by_cases hi : 0 ≤ i
  · have : i % ((256 ^ w : Nat) : Int) = i := Int.emod_eq_of_lt hi (by omega)
    rw [this]
    have h1 : i.toNat < 256 ^ w / 2 := by omega
    rw [if_pos h1]; omega
  · have : i % ((256 ^ w : Nat) : Int) = i + ((256 ^ w : Nat) : Int) := by
      rw [← Int.add_emod_right]
      exact Int.emod_eq_of_lt (by omega) (by omega)
    rw [this]
    have h1 : ¬ (i + ((256 ^ w : Nat) : Int)).toNat < 256 ^ w / 2 := by omega
    rw [if_neg h1]; omega

theorem parses_int32 (i : Int) (hlo : -2147483648 ≤ i) (hhi : i < 2147483648) :
    Parses (P.intLE 4) (leEncodeInt 4 i) i := by
  unfold P.intLE leEncodeInt
  have hlt : (i % ((256 ^ 4 : Nat) : Int)).toNat < 256 ^ 4 := by
    have : i % ((256 ^ 4 : Nat) : Int) < ((256 ^ 4 : Nat) : Int) := Int.emod_lt_of_pos _ (by decide)
    have : 0 ≤ i % ((256 ^ 4 : Nat) : Int) := Int.emod_nonneg _ (by decide)
    omega
  refine parses_bind_pure (parses_uintLE 4 _ hlt) ?_
  rw [toSigned_wrap 4 i (by simpa using hlo) (by simpa using hhi) (by decide)]

/-! ### `NoPanic` (C10) -/

/-- the decoder never panics, whatever the input -/
def NoPanic {α : Type} (p : P α) : Prop := ∀ s, p s ≠ .panic

theorem np_pure {α : Type} (a : α) : NoPanic (Pure.pure a : P α) := by
  intro s h; simp [Pure.pure, P.pure] at h

theorem np_fail {α : Type} : NoPanic (P.fail : P α) := by
  intro s h; simp [P.fail] at h

theorem np_short {α : Type} : NoPanic (short : P α) := by
  intro s h; simp [short] at h

theorem np_take (k : Nat) : NoPanic (P.take k) := by
  intro s h; unfold P.take at h; split at h <;> simp at h

theorem np_u8 : NoPanic P.u8 := by
  intro s h; unfold P.u8 at h; split at h <;> simp at h

theorem np_bind {α β : Type} {p : P α} {f : α → P β} (hp : NoPanic p) (hf : ∀ a, NoPanic (f a)) :
    NoPanic (p >>= f) := by
  intro s h
  simp only [Bind.bind, P.bind] at h
  cases hps : p s with
  | notEnough => simp [hps] at h
  | err e => simp [hps] at h
  | panic => exact hp s hps
  | ok a n =>
    simp only [hps] at h
    cases hfs : f a (s.drop n) with
    | notEnough => simp [hfs] at h
    | err e => simp [hfs] at h
    | panic => exact hf a _ hfs
    | ok b m => simp [hfs] at h

theorem np_uintLE (w : Nat) : NoPanic (P.uintLE w) :=
  np_bind (np_take w) (fun _ => np_pure _)

theorem np_u16 : NoPanic P.u16 := np_uintLE 2
theorem np_u32 : NoPanic P.u32 := np_uintLE 4

theorem np_intLE (w : Nat) : NoPanic (P.intLE w) :=
  np_bind (np_uintLE w) (fun _ => np_pure _)

theorem np_ite {α : Type} {c : Prop} [Decidable c] {p q : P α} (hp : NoPanic p) (hq : NoPanic q) :
    NoPanic (if c then p else q) := by split <;> assumption

theorem np_guard (c : Bool) : NoPanic (P.guard c) := by
  unfold P.guard; split
  · exact np_pure ()
  · exact np_fail

/-! ### the fuel loop -/

theorem incr_short {α : Type} : Incr (short : P α) := by
  intro s a n h; simp [short] at h

theorem loop_zero_pos {σ : Type} {cond : σ → Bool} {body : σ → P σ} {st : σ} (hc : cond st = true) :
    loop cond body 0 st = short := by
  unfold loop; rw [if_pos hc]

theorem loop_zero_neg {σ : Type} {cond : σ → Bool} {body : σ → P σ} {st : σ} (hc : ¬ cond st = true) :
    loop cond body 0 st = Pure.pure st := by
  unfold loop; rw [if_neg hc]

theorem loop_succ_pos {σ : Type} {cond : σ → Bool} {body : σ → P σ} {st : σ} (f : Nat)
    (hc : cond st = true) : loop cond body (f + 1) st = (body st >>= loop cond body f) := by
  rw [loop, if_pos hc]

theorem loop_succ_neg {σ : Type} {cond : σ → Bool} {body : σ → P σ} {st : σ} (f : Nat)
    (hc : ¬ cond st = true) : loop cond body (f + 1) st = Pure.pure st := by
  rw [loop, if_neg hc]

theorem incr_loop {σ : Type} (cond : σ → Bool) (body : σ → P σ) (hb : ∀ st, Incr (body st))
    (f : Nat) (st : σ) : Incr (loop cond body f st) := by
  induction f generalizing st with
  | zero =>
    by_cases hc : cond st = true
    · rw [loop_zero_pos hc]; exact incr_short
    · rw [loop_zero_neg hc]; exact incr_pure _
  | succ f ih =>
    by_cases hc : cond st = true
    · rw [loop_succ_pos f hc]; exact incr_bind (hb st) (fun a => ih a)
    · rw [loop_succ_neg f hc]; exact incr_pure _

theorem np_loop {σ : Type} (cond : σ → Bool) (body : σ → P σ) (hb : ∀ st, NoPanic (body st))
    (f : Nat) (st : σ) : NoPanic (loop cond body f st) := by
  induction f generalizing st with
  | zero =>
    by_cases hc : cond st = true
    · rw [loop_zero_pos hc]; exact np_short
    · rw [loop_zero_neg hc]; exact np_pure _
  | succ f ih =>
    by_cases hc : cond st = true
    · rw [loop_succ_pos f hc]; exact np_bind (hb st) (fun a => ih a)
    · rw [loop_succ_neg f hc]; exact np_pure _

/-- a fuel-indexed decoder whose answer does not depend on the fuel once the fuel covers the input,
and whose successes persist when fuel is added -/
structure FuelOK {α : Type} (D : Nat → P α) : Prop where
  irrel : ∀ f1 f2 s, s.length ≤ f1 → s.length ≤ f2 → D f1 s = D f2 s
  mono : ∀ f f' s a n, D f s = .ok a n → f ≤ f' → D f' s = .ok a n

/-- a body that reads first and consumes at least one byte per successful round -/
structure Progress {σ : Type} (body : σ → P σ) : Prop where
  empty : ∀ st, body st [] = .notEnough
  step : ∀ st s st' k, body st s = .ok st' k → 1 ≤ k

theorem loop_nil {σ : Type} (cond : σ → Bool) (body : σ → P σ) (hp : Progress body) (f : Nat) (st : σ) :
    loop cond body f st [] = loop cond body 0 st [] := by
  cases f with
  | zero => rfl
  | succ f =>
    by_cases hc : cond st = true
    · rw [loop_succ_pos f hc, loop_zero_pos hc]
      simp [Bind.bind, P.bind, hp.empty, short]
    · rw [loop_succ_neg f hc, loop_zero_neg hc]

theorem loop_fuel_irrel {σ : Type} (cond : σ → Bool) (body : σ → P σ) (hp : Progress body)
    (f1 f2 : Nat) (st : σ) (s : Bytes) (h1 : s.length ≤ f1) (h2 : s.length ≤ f2) :
    loop cond body f1 st s = loop cond body f2 st s := by
  induction f1 generalizing f2 st s with
  | zero =>
    have hs : s = [] := List.eq_nil_of_length_eq_zero (by omega)
    subst hs
    exact (loop_nil cond body hp f2 st).symm
  | succ f1 ih =>
    cases f2 with
    | zero =>
      have hs : s = [] := List.eq_nil_of_length_eq_zero (by omega)
      subst hs
      exact loop_nil cond body hp (f1 + 1) st
    | succ f2 =>
      by_cases hc : cond st = true
      · rw [loop_succ_pos f1 hc, loop_succ_pos f2 hc]
        simp only [Bind.bind, P.bind]
        cases hb : body st s with
        | notEnough => rfl
        | err e => rfl
        | panic => rfl
        | ok st' k =>
          have hk := hp.step st s st' k hb
          have hne : s ≠ [] := by
            intro hs; subst hs; rw [hp.empty] at hb; cases hb
          have hlen : 0 < s.length := List.length_pos_iff.mpr hne
          have hd : (s.drop k).length ≤ s.length - 1 := by simp [List.length_drop]; omega
          simp only []
          rw [ih f2 st' (s.drop k) (by omega) (by omega)]
      · rw [loop_succ_neg f1 hc, loop_succ_neg f2 hc]

theorem loop_fuel_mono {σ : Type} (cond : σ → Bool) (body : σ → P σ)
    (f f' : Nat) (st : σ) (s : Bytes) (a : σ) (n : Nat)
    (h : loop cond body f st s = .ok a n) (hf : f ≤ f') : loop cond body f' st s = .ok a n := by
  induction f generalizing f' st s n with
  | zero =>
    by_cases hc : cond st = true
    · rw [loop_zero_pos hc] at h; cases h
    · rw [loop_zero_neg hc] at h
      cases f' with
      | zero => rw [loop_zero_neg hc]; exact h
      | succ f' => rw [loop_succ_neg f' hc]; exact h
  | succ f ih =>
    cases f' with
    | zero => omega
    | succ f' =>
      by_cases hc : cond st = true
      · rw [loop_succ_pos f hc] at h
        rw [loop_succ_pos f' hc]
        simp only [Bind.bind, P.bind] at h ⊢
        cases hb : body st s with
        | notEnough => simp [hb] at h
        | err e => simp [hb] at h
        | panic => simp [hb] at h
        | ok st' k =>
          simp only [hb] at h ⊢
          cases hl : loop cond body f st' (s.drop k) with
          | notEnough => simp [hl] at h
          | err e => simp [hl] at h
          | panic => simp [hl] at h
          | ok b m =>
            simp only [hl, Res.ok.injEq] at h
            obtain ⟨hba, hkm⟩ := h
            subst hba
            rw [ih f' st' (s.drop k) m hl (by omega)]
            simp [hkm]
      · rw [loop_succ_neg f hc] at h
        rw [loop_succ_neg f' hc]; exact h

theorem fuelOK_loop {σ : Type} (cond : σ → Bool) (body : σ → P σ) (hp : Progress body) (st : σ) :
    FuelOK (fun f => loop cond body f st) :=
  ⟨fun f1 f2 s h1 h2 => loop_fuel_irrel cond body hp f1 f2 st s h1 h2,
   fun f f' s a n h hf => loop_fuel_mono cond body f f' st s a n h hf⟩

/-- a fuel-independent prefix before a `FuelOK` family -/
theorem fuelOK_bind_left {α β : Type} (p : P α) (E : Nat → α → P β)
    (hE : ∀ x, FuelOK (fun f => E f x)) : FuelOK (fun f => p >>= E f) := by
  constructor
  · intro f1 f2 s h1 h2
    simp only [Bind.bind, P.bind]
    cases hps : p s with
    | notEnough => rfl
    | err e => rfl
    | panic => rfl
    | ok a n =>
      have hd : (s.drop n).length ≤ s.length := by simp [List.length_drop]
      simp only []
      rw [(hE a).irrel f1 f2 (s.drop n) (by omega) (by omega)]
  · intro f f' s b nm h hf
    simp only [Bind.bind, P.bind] at h ⊢
    cases hps : p s with
    | notEnough => simp [hps] at h
    | err e => simp [hps] at h
    | panic => simp [hps] at h
    | ok a n =>
      simp only [hps] at h ⊢
      cases hl : E f a (s.drop n) with
      | notEnough => simp [hl] at h
      | err e => simp [hl] at h
      | panic => simp [hl] at h
      | ok b' m =>
        rw [(hE a).mono f f' (s.drop n) b' m hl hf]
        simpa [hl] using h

/-- a fuel-independent continuation after a `FuelOK` family -/
theorem fuelOK_bind_right {α β : Type} (D : Nat → P α) (g : α → P β) (hD : FuelOK D) :
    FuelOK (fun f => D f >>= g) := by
  constructor
  · intro f1 f2 s h1 h2
    simp only [Bind.bind, P.bind]
    rw [hD.irrel f1 f2 s h1 h2]
  · intro f f' s b nm h hf
    simp only [Bind.bind, P.bind] at h ⊢
    cases hps : D f s with
    | notEnough => simp [hps] at h
    | err e => simp [hps] at h
    | panic => simp [hps] at h
    | ok a n =>
      rw [hD.mono f f' s a n hps hf]
      simpa [hps] using h

/-- taking the length of the input as fuel preserves `Incr` -/
theorem incr_of_fuel {α : Type} (D : Nat → P α) (hI : ∀ f, Incr (D f)) (hF : FuelOK D) :
    Incr (fun s => D s.length s) := by
  intro s a n h
  obtain ⟨hn, stab, short⟩ := hI s.length s a n h
  refine ⟨hn, ?_, ?_⟩
  · intro t
    -- shrink the fuel to `n` on the exact prefix, then grow it again
    have h0 : D s.length (s.take n) = .ok a n := by simpa using stab []
    have hlen : (s.take n).length = n := by simp [List.length_take]; omega
    have h1 : D n (s.take n) = .ok a n := by
      rw [← h0]; exact hF.irrel n s.length (s.take n) (by omega) (by omega)
    obtain ⟨_, stab1, _⟩ := hI n (s.take n) a n h1
    have h2 : D n (s.take n ++ t) = .ok a n := by
      have := stab1 t
      rwa [List.take_take, Nat.min_self] at this
    have : (s.take n ++ t).length = n + t.length := by simp [hlen]
    show D (s.take n ++ t).length (s.take n ++ t) = .ok a n
    rw [this]
    exact hF.mono n (n + t.length) _ a n h2 (by omega)
  · intro k hk
    have hlen : (s.take k).length = k := by simp [List.length_take]; omega
    show D (s.take k).length (s.take k) = .notEnough
    rw [hF.irrel (s.take k).length s.length (s.take k) (by omega) (by omega)]
    exact short k hk

theorem np_of_fuel {α : Type} (D : Nat → P α) (hN : ∀ f, NoPanic (D f)) :
    NoPanic (fun s => D s.length s) := fun s => hN s.length s

/-! ### inversion of `bind`, progress of the loop bodies -/

theorem bind_ok_inv {α β : Type} {p : P α} {f : α → P β} {s : Bytes} {b : β} {k : Nat}
    (h : (p >>= f) s = .ok b k) :
    ∃ a n m, p s = .ok a n ∧ f a (s.drop n) = .ok b m ∧ k = n + m := by
  simp only [Bind.bind, P.bind] at h
  cases hps : p s with
  | notEnough => simp [hps] at h
  | err e => simp [hps] at h
  | panic => simp [hps] at h
  | ok a n =>
    simp only [hps] at h
    cases hfs : f a (s.drop n) with
    | notEnough => simp [hfs] at h
    | err e => simp [hfs] at h
    | panic => simp [hfs] at h
    | ok b' m =>
      simp only [hfs, Res.ok.injEq] at h
      exact ⟨a, n, m, rfl, by rw [hfs, h.1], h.2.symm⟩

theorem u8_ok_inv {s : Bytes} {a n : Nat} (h : P.u8 s = .ok a n) : n = 1 := by
  unfold P.u8 at h
  split at h
  · injection h with _ h2; exact h2.symm
  · cases h

theorem bind_nil_short {α β : Type} {p : P α} {f : α → P β} (h : p [] = .notEnough) :
    (p >>= f) [] = .notEnough := by
  simp [Bind.bind, P.bind, h]

theorem take_ok_inv {k : Nat} {s a : Bytes} {n : Nat} (h : P.take k s = .ok a n) :
    n = k ∧ k ≤ s.length := by
  unfold P.take at h
  split at h
  · rename_i hle; injection h with _ h2; exact ⟨h2.symm, hle⟩
  · cases h

theorem uintLE_ok_inv {w : Nat} {s : Bytes} {a n : Nat} (h : P.uintLE w s = .ok a n) :
    n = w ∧ w ≤ s.length := by
  unfold P.uintLE at h
  obtain ⟨bs, n1, m, h1, h2, hk⟩ := bind_ok_inv h
  obtain ⟨hn, hle⟩ := take_ok_inv h1
  simp only [Pure.pure, P.pure] at h2
  injection h2 with _ hm
  exact ⟨by omega, hle⟩

theorem u8_ok_len {s : Bytes} {a n : Nat} (h : P.u8 s = .ok a n) : 1 ≤ s.length := by
  unfold P.u8 at h
  split at h
  · simp
  · cases h

theorem bind_panic_inv {α β : Type} {p : P α} {f : α → P β} {s : Bytes}
    (h : (p >>= f) s = .panic) :
    p s = .panic ∨ ∃ a n, p s = .ok a n ∧ f a (s.drop n) = .panic := by
  simp only [Bind.bind, P.bind] at h
  cases hps : p s with
  | notEnough => simp [hps] at h
  | err e => simp [hps] at h
  | panic => exact Or.inl rfl
  | ok a n =>
    simp only [hps] at h
    cases hfs : f a (s.drop n) with
    | notEnough => simp [hfs] at h
    | err e => simp [hfs] at h
    | panic => exact Or.inr ⟨a, n, rfl, hfs⟩
    | ok b m => simp [hfs] at h

theorem np_takeInt_nonneg {n : Int} (h : 0 ≤ n) : NoPanic (P.takeInt n) := by
  unfold P.takeInt
  rw [if_neg (by omega)]
  exact np_take _

end Dblib.Codec.Basic
