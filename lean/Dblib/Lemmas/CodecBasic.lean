/-
Lemmas for the codec group Basic (`Model/Codec/Basic.lean`):
* primitive round trips (`leDecode (leEncode w n) = n`, …) and the predicate `Parses p enc a`
  ("`p` consumes exactly `enc`, whatever follows, and yields `a`") with its bind rule;
* `NoPanic p` (C10) and its closure lemmas;
* the fuel loop `loop`: `Incr`, `NoPanic`, and `loop_fuel_enough` (the fuel is never exhausted when a
  measure decreases in every round).
-/
import Dblib.Model.Codec.Basic
import Dblib.Lemmas.Parser

namespace Dblib.Codec.Basic
open Dblib

/-! ### little-endian primitives -/

theorem leEncode_length (w n : Nat) : (leEncode w n).length = w := by
  induction w generalizing n with
  | zero => rfl
  | succ w ih => simp [leEncode, ih]

theorem leDecode_leEncode (w n : Nat) (h : n < 256 ^ w) : leDecode (leEncode w n) = n := by
  induction w generalizing n with
  | zero => simp [leEncode, leDecode]; simp at h; omega
  | succ w ih =>
    have h' : n / 256 < 256 ^ w := by
      rw [Nat.pow_succ] at h
      exact Nat.div_lt_of_lt_mul (by rw [Nat.mul_comm]; exact h)
    simp only [leEncode, leDecode, ih _ h']
    have : (UInt8.ofNat (n % 256)).toNat = n % 256 := by
      simp [UInt8.toNat_ofNat']
    rw [this]; omega

theorem leDecode_leEncode_mod (w n : Nat) : leDecode (leEncode w n) = n % 256 ^ w := by
  induction w generalizing n with
  | zero => simp [leEncode, leDecode, Nat.mod_one]
  | succ w ih =>
    simp only [leEncode, leDecode, ih]
    have : (UInt8.ofNat (n % 256)).toNat = n % 256 := by
      simp [UInt8.toNat_ofNat']
    rw [this, Nat.pow_succ, Nat.mul_comm (256 ^ w) 256, Nat.mod_mul]

theorem leEncodeInt_length (w : Nat) (i : Int) : (leEncodeInt w i).length = w := by
  simp [leEncodeInt, leEncode_length]

theorem byte_length (n : Nat) : (byte n).length = 1 := rfl

/-! ### `Parses` -/

/-- `p` consumes exactly `enc` and yields `a`, whatever follows -/
def Parses {α : Type} (p : P α) (enc : Bytes) (a : α) : Prop :=
  ∀ rest, p (enc ++ rest) = .ok a enc.length

theorem parses_pure {α : Type} (a : α) : Parses (Pure.pure a : P α) [] a := by
  intro rest; rfl

theorem parses_bind {α β : Type} {p : P α} {f : α → P β} {e1 e2 : Bytes} {a : α} {b : β}
    (hp : Parses p e1 a) (hf : Parses (f a) e2 b) : Parses (p >>= f) (e1 ++ e2) b := by
  intro rest
  simp only [Bind.bind, P.bind]
  rw [List.append_assoc, hp (e2 ++ rest)]
  simp only [List.drop_left, hf rest, List.length_append]

theorem parses_bind_pure {α β : Type} {p : P α} {f : α → P β} {e : Bytes} {a : α} {b : β}
    (hp : Parses p e a) (hf : f a = Pure.pure b) : Parses (p >>= f) e b := by
  have := parses_bind (f := f) hp (by rw [hf]; exact parses_pure b)
  simpa using this

theorem parses_take (bs : Bytes) : Parses (P.take bs.length) bs bs := by
  intro rest
  simp [P.take]

theorem parses_take_of_eq {n : Nat} {bs : Bytes} (h : n = bs.length) : Parses (P.take n) bs bs := by
  subst h; exact parses_take bs

theorem parses_u8 (n : Nat) (h : n < 256) : Parses P.u8 (byte n) n := by
  intro rest
  simp only [byte, List.cons_append, List.nil_append, P.u8, List.length_cons, List.length_nil]
  have : (UInt8.ofNat n).toNat = n := by simp [UInt8.toNat_ofNat']; omega
  rw [this]

theorem parses_uintLE (w n : Nat) (h : n < 256 ^ w) : Parses (P.uintLE w) (leEncode w n) n := by
  unfold P.uintLE
  refine parses_bind_pure (parses_take_of_eq (leEncode_length w n).symm) ?_
  simp [leDecode_leEncode w n h]

theorem parses_u16 (n : Nat) (h : n < 65536) : Parses P.u16 (leEncode 2 n) n :=
  parses_uintLE 2 n (by simpa using h)

theorem parses_u32 (n : Nat) (h : n < 4294967296) : Parses P.u32 (leEncode 4 n) n :=
  parses_uintLE 4 n (by simpa using h)

theorem toSigned_wrap (w : Nat) (i : Int) (hlo : -((256 ^ w / 2 : Nat) : Int) ≤ i)
    (hhi : i < ((256 ^ w / 2 : Nat) : Int)) (hw : 256 ^ w % 2 = 0) :
    P.toSigned w (i % ((256 ^ w : Nat) : Int)).toNat = i := by
  unfold P.toSigned
  have hpos : (0 : Int) < ((256 ^ w : Nat) : Int) := by
    have : 0 < 256 ^ w := Nat.pow_pos (by decide)
    exact_mod_cast this
  by_cases hi : 0 ≤ i
  · have : i % ((256 ^ w : Nat) : Int) = i := Int.emod_eq_of_lt hi (by omega)
    rw [this]
    have h1 : i.toNat < 256 ^ w / 2 := by omega
    rw [if_pos h1]; omega
  · have : i % ((256 ^ w : Nat) : Int) = i + ((256 ^ w : Nat) : Int) := by
      rw [← Int.add_emod_right]
      exact Int.emod_eq_of_lt (by omega) (by omega)
    rw [this]
    have h1 : ¬ (i + ((256 ^ w : Nat) : Int)).toNat < 256 ^ w / 2 := by omega
    rw [if_neg h1]; omega

theorem parses_int32 (i : Int) (hlo : -2147483648 ≤ i) (hhi : i < 2147483648) :
    Parses (P.intLE 4) (leEncodeInt 4 i) i := by
  unfold P.intLE leEncodeInt
  have hlt : (i % ((256 ^ 4 : Nat) : Int)).toNat < 256 ^ 4 := by
    have : i % ((256 ^ 4 : Nat) : Int) < ((256 ^ 4 : Nat) : Int) := Int.emod_lt_of_pos _ (by decide)
    have : 0 ≤ i % ((256 ^ 4 : Nat) : Int) := Int.emod_nonneg _ (by decide)
    omega
  refine parses_bind_pure (parses_uintLE 4 _ hlt) ?_
  rw [toSigned_wrap 4 i (by simpa using hlo) (by simpa using hhi) (by decide)]

/-! ### `NoPanic` (C10) -/

/-- the decoder never panics, whatever the input -/
def NoPanic {α : Type} (p : P α) : Prop := ∀ s, p s ≠ .panic

theorem np_pure {α : Type} (a : α) : NoPanic (Pure.pure a : P α) := by
  intro s h; simp [Pure.pure, P.pure] at h

theorem np_fail {α : Type} : NoPanic (P.fail : P α) := by
  intro s h; simp [P.fail] at h

theorem np_short {α : Type} : NoPanic (short : P α) := by
  intro s h; simp [short] at h

theorem np_take (k : Nat) : NoPanic (P.take k) := by
  intro s h; unfold P.take at h; split at h <;> simp at h

theorem np_u8 : NoPanic P.u8 := by
  intro s h; unfold P.u8 at h; split at h <;> simp at h

theorem np_bind {α β : Type} {p : P α} {f : α → P β} (hp : NoPanic p) (hf : ∀ a, NoPanic (f a)) :
    NoPanic (p >>= f) := by
  intro s h
  simp only [Bind.bind, P.bind] at h
  cases hps : p s with
  | notEnough => simp [hps] at h
  | err e => simp [hps] at h
  | panic => exact hp s hps
  | ok a n =>
    simp only [hps] at h
    cases hfs : f a (s.drop n) with
    | notEnough => simp [hfs] at h
    | err e => simp [hfs] at h
    | panic => exact hf a _ hfs
    | ok b m => simp [hfs] at h

theorem np_uintLE (w : Nat) : NoPanic (P.uintLE w) :=
  np_bind (np_take w) (fun _ => np_pure _)

theorem np_u16 : NoPanic P.u16 := np_uintLE 2
theorem np_u32 : NoPanic P.u32 := np_uintLE 4

theorem np_intLE (w : Nat) : NoPanic (P.intLE w) :=
  np_bind (np_uintLE w) (fun _ => np_pure _)

theorem np_ite {α : Type} {c : Prop} [Decidable c] {p q : P α} (hp : NoPanic p) (hq : NoPanic q) :
    NoPanic (if c then p else q) := by split <;> assumption

theorem np_guard (c : Bool) : NoPanic (P.guard c) := by
  unfold P.guard; split
  · exact np_pure ()
  · exact np_fail

/-! ### the fuel loop -/

theorem incr_short {α : Type} : Incr (short : P α) := by
  intro s a n h; simp [short] at h

theorem loop_zero_pos {σ : Type} {cond : σ → Bool} {body : σ → P σ} {st : σ} (hc : cond st = true) :
    loop cond body 0 st = short := by
  unfold loop; rw [if_pos hc]

theorem loop_zero_neg {σ : Type} {cond : σ → Bool} {body : σ → P σ} {st : σ} (hc : ¬ cond st = true) :
    loop cond body 0 st = Pure.pure st := by
  unfold loop; rw [if_neg hc]

theorem loop_succ_pos {σ : Type} {cond : σ → Bool} {body : σ → P σ} {st : σ} (f : Nat)
    (hc : cond st = true) : loop cond body (f + 1) st = (body st >>= loop cond body f) := by
  rw [loop, if_pos hc]

theorem loop_succ_neg {σ : Type} {cond : σ → Bool} {body : σ → P σ} {st : σ} (f : Nat)
    (hc : ¬ cond st = true) : loop cond body (f + 1) st = Pure.pure st := by
  rw [loop, if_neg hc]

theorem incr_loop {σ : Type} (cond : σ → Bool) (body : σ → P σ) (hb : ∀ st, Incr (body st))
    (f : Nat) (st : σ) : Incr (loop cond body f st) := by
  induction f generalizing st with
  | zero =>
    by_cases hc : cond st = true
    · rw [loop_zero_pos hc]; exact incr_short
    · rw [loop_zero_neg hc]; exact incr_pure _
  | succ f ih =>
    by_cases hc : cond st = true
    · rw [loop_succ_pos f hc]; exact incr_bind (hb st) (fun a => ih a)
    · rw [loop_succ_neg f hc]; exact incr_pure _

theorem np_loop {σ : Type} (cond : σ → Bool) (body : σ → P σ) (hb : ∀ st, NoPanic (body st))
    (f : Nat) (st : σ) : NoPanic (loop cond body f st) := by
  induction f generalizing st with
  | zero =>
    by_cases hc : cond st = true
    · rw [loop_zero_pos hc]; exact np_short
    · rw [loop_zero_neg hc]; exact np_pure _
  | succ f ih =>
    by_cases hc : cond st = true
    · rw [loop_succ_pos f hc]; exact np_bind (hb st) (fun a => ih a)
    · rw [loop_succ_neg f hc]; exact np_pure _

/-- **The fuel is never exhausted** when a measure `μ` that is positive while the loop condition
holds decreases in every successful round: from `μ st ≤ f` on, more fuel gives the same answer. -/
theorem loop_fuel_enough {σ : Type} (cond : σ → Bool) (body : σ → P σ) (μ : σ → Nat)
    (hpos : ∀ st, cond st = true → 0 < μ st)
    (hdec : ∀ st s st' k, cond st = true → body st s = .ok st' k → μ st' < μ st)
    (f : Nat) (st : σ) (s : Bytes) (hf : μ st ≤ f) :
    loop cond body (f + 1) st s = loop cond body f st s := by
  induction f generalizing st s with
  | zero =>
    by_cases hc : cond st = true
    · have := hpos st hc; omega
    · rw [loop_succ_neg 0 hc, loop_zero_neg hc]
  | succ f ih =>
    by_cases hc : cond st = true
    · rw [loop_succ_pos (f + 1) hc, loop_succ_pos f hc]
      simp only [Bind.bind, P.bind]
      cases hb : body st s with
      | notEnough => rfl
      | err e => rfl
      | panic => rfl
      | ok st' k =>
        have := hdec st s st' k hc hb
        simp only []
        rw [ih st' (s.drop k) (by omega)]
    · rw [loop_succ_neg (f + 1) hc, loop_succ_neg f hc]

/-! ### inversion of `bind` -/

theorem bind_ok_inv {α β : Type} {p : P α} {f : α → P β} {s : Bytes} {b : β} {k : Nat}
    (h : (p >>= f) s = .ok b k) :
    ∃ a n m, p s = .ok a n ∧ f a (s.drop n) = .ok b m ∧ k = n + m := by
  simp only [Bind.bind, P.bind] at h
  cases hps : p s with
  | notEnough => simp [hps] at h
  | err e => simp [hps] at h
  | panic => simp [hps] at h
  | ok a n =>
    simp only [hps] at h
    cases hfs : f a (s.drop n) with
    | notEnough => simp [hfs] at h
    | err e => simp [hfs] at h
    | panic => simp [hfs] at h
    | ok b' m =>
      simp only [hfs, Res.ok.injEq] at h
      exact ⟨a, n, m, rfl, by rw [hfs, h.1], h.2.symm⟩

theorem u8_ok_inv {s : Bytes} {a n : Nat} (h : P.u8 s = .ok a n) : n = 1 := by
  unfold P.u8 at h
  split at h
  · injection h with _ h2; exact h2.symm
  · cases h

theorem bind_nil_short {α β : Type} {p : P α} {f : α → P β} (h : p [] = .notEnough) :
    (p >>= f) [] = .notEnough := by
  simp [Bind.bind, P.bind, h]

theorem take_ok_inv {k : Nat} {s a : Bytes} {n : Nat} (h : P.take k s = .ok a n) :
    n = k ∧ k ≤ s.length := by
  unfold P.take at h
  split at h
  · rename_i hle; injection h with _ h2; exact ⟨h2.symm, hle⟩
  · cases h

theorem uintLE_ok_inv {w : Nat} {s : Bytes} {a n : Nat} (h : P.uintLE w s = .ok a n) :
    n = w ∧ w ≤ s.length := by
  unfold P.uintLE at h
  obtain ⟨bs, n1, m, h1, h2, hk⟩ := bind_ok_inv h
  obtain ⟨hn, hle⟩ := take_ok_inv h1
  simp only [Pure.pure, P.pure] at h2
  injection h2 with _ hm
  exact ⟨by omega, hle⟩

theorem u8_ok_len {s : Bytes} {a n : Nat} (h : P.u8 s = .ok a n) : 1 ≤ s.length := by
  unfold P.u8 at h
  split at h
  · simp
  · cases h

theorem bind_panic_inv {α β : Type} {p : P α} {f : α → P β} {s : Bytes}
    (h : (p >>= f) s = .panic) :
    p s = .panic ∨ ∃ a n, p s = .ok a n ∧ f a (s.drop n) = .panic := by
  simp only [Bind.bind, P.bind] at h
  cases hps : p s with
  | notEnough => simp [hps] at h
  | err e => simp [hps] at h
  | panic => exact Or.inl rfl
  | ok a n =>
    simp only [hps] at h
    cases hfs : f a (s.drop n) with
    | notEnough => simp [hfs] at h
    | err e => simp [hfs] at h
    | panic => exact Or.inr ⟨a, n, rfl, hfs⟩
    | ok b m => simp [hfs] at h

theorem np_takeInt_nonneg {n : Int} (h : 0 ≤ n) : NoPanic (P.takeInt n) := by
  unfold P.takeInt
  rw [if_neg (by omega)]
  exact np_take _

end Dblib.Codec.Basic
