/-
The packet reader does not depend on how the transport segments the byte stream.
-/
import Dblib.Model.PacketReader
import Dblib.Lemmas.Wire

namespace Dblib.Reader

/-- reading exactly `want` bytes: whatever the schedule, the next `want` bytes if they are there -/
theorem readExact_all : ∀ (fuel : Nat) (stream : Bytes) (sched : List Nat) (fin : Fin) (want : Nat) (acc : Bytes),
    want < fuel → want ≤ stream.length →
    ∃ sched', readExact fuel ⟨stream, sched, fin⟩ want acc
      = (.all (acc ++ stream.take want), ⟨stream.drop want, sched', fin⟩) := by
  intro fuel
  induction fuel with
  | zero => intro _ _ _ _ _ h; omega
  | succ fuel ih =>
    intro stream sched fin want acc hf hw
    unfold readExact
    by_cases h0 : want = 0
    · subst h0; exact ⟨sched, by simp⟩
    · simp only [h0, if_false]
      cases hs : stream with
      | nil => subst hs; simp at hw; omega
      | cons b rest =>
        simp only
        rw [← hs]
        generalize hk : max 1 (min (min (match sched with | [] => want | s :: _ => s) want) stream.length) = k
        have hk1 : 1 ≤ k := by omega
        have hk2 : k ≤ want := by omega
        have hk3 : k ≤ stream.length := by
          have : 1 ≤ stream.length := by rw [hs]; simp
          omega
        obtain ⟨sched', h⟩ := ih (stream.drop k) (sched.drop 1) fin (want - k) (acc ++ stream.take k)
          (by omega) (by simp; omega)
        refine ⟨sched', ?_⟩
        rw [h]
        congr 2
        · rw [List.append_assoc]
          congr 1
          have : want = k + (want - k) := by omega
          conv => rhs; rw [this, List.take_add]
        · rw [List.drop_drop]; congr 1; omega

/-- … and if fewer bytes are left, the stream is consumed entirely and the read ends -/
theorem readExact_ended : ∀ (fuel : Nat) (stream : Bytes) (sched : List Nat) (fin : Fin) (want : Nat) (acc : Bytes),
    want < fuel → stream.length < want →
    ∃ sched', readExact fuel ⟨stream, sched, fin⟩ want acc = (.ended (acc ++ stream), ⟨[], sched', fin⟩) := by
  intro fuel
  induction fuel with
  | zero => intro _ _ _ _ _ h; omega
  | succ fuel ih =>
    intro stream sched fin want acc hf hw
    unfold readExact
    have h0 : want ≠ 0 := by omega
    simp only [h0, if_false]
    cases hs : stream with
    | nil => exact ⟨sched, by simp⟩
    | cons b rest =>
      simp only
      rw [← hs]
      generalize hk : max 1 (min (min (match sched with | [] => want | s :: _ => s) want) stream.length) = k
      have hl : 1 ≤ stream.length := by rw [hs]; simp
      have hk1 : 1 ≤ k := by omega
      have hk3 : k ≤ stream.length := by omega
      obtain ⟨sched', h⟩ := ih (stream.drop k) (sched.drop 1) fin (want - k) (acc ++ stream.take k)
        (by omega) (by simp; omega)
      refine ⟨sched', ?_⟩
      rw [h, List.append_assoc, List.take_append_drop]

theorem hdrOf_hdrBytes (p : Packet) (h : HdrOK p) : hdrOf (hdrBytes p.hdr) = p.hdr := by
  obtain ⟨h1, h2, h3, h4, h5, h6, h7⟩ := h
  simp only [hdrBytes, hdrOf, u8_hi_lo _ h4, u8_hi_lo _ h5, u8_id _ h1, u8_id _ h2, u8_id _ h6, u8_id _ h7]

/-- the end of the stream as the reader sees it when no packet is pending -/
def endEv : Fin → Ev
  | .hang => .hangs
  | _ => .connErr

theorem readPacket_end (sched : List Nat) (fin : Fin) (stream : Bytes) (h : stream.length < 8) :
    readPacket ⟨stream, sched, fin⟩ = ([endEv fin], none) := by
  unfold readPacket
  obtain ⟨s', hr⟩ := readExact_ended 9 stream sched fin 8 [] (by omega) h
  rw [hr]
  cases fin <;> rfl

/-- one well-formed packet at the head of the stream is read as that packet, whatever the schedule -/
theorem readPacket_ok (p : Packet) (hp : HdrOK p) (rest : Bytes) (sched : List Nat) (fin : Fin) :
    ∃ sched', readPacket ⟨hdrBytes p.hdr ++ (p.data ++ rest), sched, fin⟩
      = ([.packet p], some ⟨rest, sched', fin⟩) := by
  unfold readPacket
  have hl : (hdrBytes p.hdr).length = 8 := by simp [hdrBytes]
  obtain ⟨s1, h1⟩ := readExact_all 9 (hdrBytes p.hdr ++ (p.data ++ rest)) sched fin 8 [] (by omega)
    (by simp [hl])
  rw [h1]
  have ht : (hdrBytes p.hdr ++ (p.data ++ rest)).take 8 = hdrBytes p.hdr := by
    rw [List.take_append_of_le_length (by omega), List.take_of_length_le (by omega)]
  have hd : (hdrBytes p.hdr ++ (p.data ++ rest)).drop 8 = p.data ++ rest := by
    rw [List.drop_append_of_le_length (by omega), List.drop_of_length_le (by omega)]; simp
  simp only [List.nil_append, ht, hd, hdrOf_hdrBytes p hp]
  obtain ⟨_, _, h3, _⟩ := hp
  have hn : ¬ p.hdr.length < 8 := by omega
  rw [if_neg hn]
  simp only [h3, Nat.add_sub_cancel_left]
  obtain ⟨s2, h2⟩ := readExact_all (p.data.length + 1) (p.data ++ rest) s1 fin p.data.length []
    (by omega) (by simp)
  rw [h2]
  exact ⟨s2, by simp⟩

/-- a packet cut off by the end of the stream produces no packet, only the end event -/
theorem readPacket_cut (p : Packet) (hp : HdrOK p) (k : Nat) (sched : List Nat) (fin : Fin)
    (hk : k < 8 + p.data.length) :
    readPacket ⟨(hdrBytes p.hdr ++ p.data).take k, sched, fin⟩ = ([endEv fin], none) := by
  have hl : (hdrBytes p.hdr).length = 8 := by simp [hdrBytes]
  by_cases hk8 : k < 8
  · apply readPacket_end
    simp [List.length_take]; omega
  · unfold readPacket
    have hsplit : (hdrBytes p.hdr ++ p.data).take k = hdrBytes p.hdr ++ p.data.take (k - 8) := by
      rw [List.take_append, List.take_of_length_le (by omega), hl]
    rw [hsplit]
    obtain ⟨s1, h1⟩ := readExact_all 9 (hdrBytes p.hdr ++ p.data.take (k - 8)) sched fin 8 [] (by omega)
      (by simp [hl])
    rw [h1]
    have ht : (hdrBytes p.hdr ++ p.data.take (k - 8)).take 8 = hdrBytes p.hdr := by
      rw [List.take_append_of_le_length (by omega), List.take_of_length_le (by omega)]
    have hd : (hdrBytes p.hdr ++ p.data.take (k - 8)).drop 8 = p.data.take (k - 8) := by
      rw [List.drop_append_of_le_length (by omega), List.drop_of_length_le (by omega)]; simp
    simp only [List.nil_append, ht, hd, hdrOf_hdrBytes p hp]
    obtain ⟨_, _, h3, _⟩ := hp
    have hn : ¬ p.hdr.length < 8 := by omega
    rw [if_neg hn]
    simp only [h3, Nat.add_sub_cancel_left]
    obtain ⟨s2, h2⟩ := readExact_ended (p.data.length + 1) (p.data.take (k - 8)) s1 fin p.data.length []
      (by omega) (by simp [List.length_take]; omega)
    rw [h2]
    cases fin <;> rfl

end Dblib.Reader
