/-
Round-trip lemmas for the Fields codec group: the tie between the Go tables (`fmtTable`, `ByteSizes`,
`LengthBytes`) and the TDS shapes (`shapeTable`), and the evaluation of the Go decoders on the TDS
layouts of Model/Codec/FieldsSpec.lean.
-/
import Dblib.Model.Codec.FieldsSpec
import Dblib.Lemmas.CodecFields
import Dblib.Lemmas.CodecCursorSpec

set_option linter.unusedSimpArgs false

namespace Dblib.CodecFields
open Dblib Dblib.P Dblib.Codec Dblib.Codec.Fields Dblib.CodecCursor
open Dblib.Codec.Cursor (lstr frame plstr framed isInt32)

/-! ## the Go tables agree with the TDS shapes -/

/-- what the Go tables say about data type `t`, compared with its TDS shape -/
def agrees (t : Nat) (cls : FmtClass) (preset : Int) : Bool :=
  match shape t with
  | some (.fixed size) => cls == .length && isFixed t && Value.byteSize t == (size : Int) && preset == (size : Int)
  | some .len1 => cls == .length && !isFixed t && fmtLengthBytes t == 1
  | some .len4 => cls == .length && !isFixed t && fmtLengthBytes t == 4
  | some .prec => cls == .lengthPrecisionScale && !isFixed t && fmtLengthBytes t == 1
  | some .scale => cls == .lengthScale && !isFixed t && fmtLengthBytes t == 1
  | some .text => cls == .txtPtr && !isFixed t && fmtLengthBytes t == 4
  | some .blob => cls == .blob && !isFixed t && fmtLengthBytes t == -1
  | none => false

/-- every data type `LookupFieldFmt` knows is a TDS data type, filed under the struct family, the
`ByteSizes` / `LengthBytes` entries and the preset length its TDS shape calls for -/
theorem table_agrees : ∀ e ∈ fmtTable, agrees e.1 e.2.1 e.2.2 = true := by decide

/-- every TDS data type is known to `LookupFieldFmt` -/
theorem shapes_known : ∀ e ∈ shapeTable, (lookupFmt e.1).isSome = true := by decide

theorem lookupIn_mem {tab : List (Nat × FmtClass × Int)} {t : Nat} {v : FmtClass × Int}
    (h : lookupIn tab t = some v) : (t, v) ∈ tab := by
  induction tab with
  | nil => simp [lookupIn] at h
  | cons e rest ih =>
    obtain ⟨k, w⟩ := e
    simp only [lookupIn] at h
    split at h
    · rename_i hk
      simp only [Option.some.injEq] at h
      subst hk; subst h; simp
    · exact List.mem_cons_of_mem _ (ih h)

theorem lookupFmt_agrees {t : Nat} {cls : FmtClass} {p : Int} (h : lookupFmt t = some (cls, p)) :
    agrees t cls p = true :=
  table_agrees (t, cls, p) (lookupIn_mem h)

theorem shapeIn_mem {tab : List (Nat × Shape)} {t : Nat} {sh : Shape} (h : shapeIn tab t = some sh) :
    (t, sh) ∈ tab := by
  induction tab with
  | nil => simp [shapeIn] at h
  | cons e rest ih =>
    obtain ⟨k, w⟩ := e
    simp only [shapeIn] at h
    split at h
    · rename_i hk
      simp only [Option.some.injEq] at h
      subst hk; subst h; simp
    · exact List.mem_cons_of_mem _ (ih h)

/-- a TDS data type has a Go format, and the two descriptions agree -/
theorem shape_lookup {t : Nat} {sh : Shape} (h : shape t = some sh) :
    ∃ cls p, lookupFmt t = some (cls, p) ∧ agrees t cls p = true := by
  have hm := shapes_known (t, sh) (shapeIn_mem h)
  cases hl : lookupFmt t with
  | none => simp [hl] at hm
  | some v => exact ⟨v.1, v.2, rfl, lookupFmt_agrees (by rw [hl])⟩

theorem shape_lt {t : Nat} {sh : Shape} (h : shape t = some sh) : t < 256 := by
  have hall : ∀ e ∈ shapeTable, e.1 < 256 := by decide
  exact hall (t, sh) (shapeIn_mem h)

/-! ## primitives on encodings -/

theorem leEncodeInt_ofNat (w n : Nat) (h : n < 256 ^ w) : leEncodeInt w (n : Int) = leEncode w n := by
  unfold leEncodeInt
  congr 1
  have : ((n : Int) % ((256 ^ w : Nat) : Int)) = (n : Int) := Int.emod_eq_of_lt (by omega) (by exact_mod_cast h)
  rw [this]; simp

theorem leEncodeInt_nonneg (w : Nat) (i : Int) (h0 : 0 ≤ i) (h1 : i < (256 ^ w : Nat)) :
    leEncodeInt w i = leEncode w i.toNat := by
  obtain ⟨n, rfl⟩ := Int.eq_ofNat_of_zero_le h0
  rw [leEncodeInt_ofNat w n (by exact_mod_cast h1)]
  simp

theorem uintLE_int_bind (w : Nat) (i : Int) (rest : Bytes) (g : Nat → P β) (h0 : 0 ≤ i) (h1 : i < (256 ^ w : Nat)) :
    (uintLE w >>= g) (leEncodeInt w i ++ rest) = shift w (g i.toNat rest) := by
  rw [leEncodeInt_nonneg w i h0 h1]
  exact uintLE_bind w i.toNat rest g (by omega)

theorem str8_bind (s rest : Bytes) (g : Bytes → P β) (h : s.length < 256) :
    (str8 >>= g) (lstr 1 s ++ rest) = shift (1 + s.length) (g s rest) := by
  unfold str8 lstr
  rt_simp [h]

theorem lstr_length (w : Nat) (s : Bytes) : (lstr w s).length = w + s.length := by
  simp [lstr, leEncode_length]

end Dblib.CodecFields

/-! ## well-formed formats and their normal form -/

namespace Dblib.Codec.Fields
open Dblib
open Dblib.Codec.Cursor (isInt32)

/-- width of the `Length` member of a shape (0 = none) -/
def lenWidth : Shape → Nat
  | .len1 | .prec | .scale => 1
  | .len4 | .text => 4
  | .fixed _ | .blob => 0

/-- what a reader that knows the data type reconstructs: members the shape does not have are zero,
a fixed-length type has its size as maximum length, the four ROWFMT2 names exist only there -/
def Fmt.norm (names : Bool) (f : Fmt) : Fmt :=
  match shape f.dataType with
  | none => f
  | some sh =>
    { f with
      maxLength := (match sh with | .fixed size => (size : Int) | .blob => 0 | _ => f.maxLength)
      precision := if sh = .prec then f.precision else 0
      scale := if sh = .prec ∨ sh = .scale then f.scale else 0
      blobType := if sh = .blob then f.blobType else 0
      classId := if sh = .blob ∧ (f.blobType = 1 ∨ f.blobType = 2) then f.classId else []
      tableName := if sh = .text then f.tableName else []
      label := if names then f.label else []
      catalogue := if names then f.catalogue else []
      schema := if names then f.schema else []
      table := if names then f.table else [] }

/-- the width constraints of one format description (BLOB excluded: see the counterexamples) -/
structure Fmt.WF (names wide : Bool) (f : Fmt) : Prop where
  name : f.name.length < 256
  status : f.status < 256 ^ sw wide
  userType : isInt32 f.userType
  shape : ∃ sh, shape f.dataType = some sh ∧ sh ≠ .blob ∧
    (0 < lenWidth sh → 0 ≤ f.maxLength ∧ f.maxLength < (256 ^ lenWidth sh : Nat))
  precision : f.precision < 256
  scale : f.scale < 256
  tableName : f.tableName.length < 65536
  locale : f.locale.length < 256
  label : names = true → f.label.length < 256
  catalogue : names = true → f.catalogue.length < 256
  schema : names = true → f.schema.length < 256
  table : names = true → f.table.length < 256

end Dblib.Codec.Fields

namespace Dblib.CodecFields
open Dblib Dblib.P Dblib.Codec Dblib.Codec.Fields Dblib.CodecCursor
open Dblib.Codec.Cursor (lstr frame plstr framed isInt32)

/-- the shape-specific part, read by the Go `FieldFmt.ReadFrom` from its TDS layout: the members and
a reported count equal to the number of bytes -/
theorem fmtTail_layout (f : Fmt) (sh : Shape) (cls : FmtClass) (p : Int) (rest : Bytes) (g : Tail × Int → P β)
    (hsh : shape f.dataType = some sh) (hag : agrees f.dataType cls p = true) (hnb : sh ≠ .blob)
    (hml : 0 < lenWidth sh → 0 ≤ f.maxLength ∧ f.maxLength < (256 ^ lenWidth sh : Nat))
    (hp : f.precision < 256) (hs : f.scale < 256) (htn : f.tableName.length < 65536) :
    (fmtTail cls f.dataType p >>= g) (f.layoutTail sh ++ rest) =
      shift (f.layoutTail sh).length
        (g ({ maxLength := (Fmt.norm false f).maxLength, precision := (Fmt.norm false f).precision,
              scale := (Fmt.norm false f).scale, blobType := 0, classId := [],
              tableName := (Fmt.norm false f).tableName }, ((f.layoutTail sh).length : Int)) rest) := by
  have htn' : f.tableName.length < 256 ^ 2 := by simpa using htn
  unfold agrees at hag
  rw [hsh] at hag
  unfold fmtTail readFromBase Fmt.layoutTail Fmt.norm readLengthBytes
  rw [hsh]
  cases sh with
  | blob => exact absurd rfl hnb
  | fixed size =>
    simp only [Bool.and_eq_true, beq_iff_eq, bne_iff_ne, ne_eq, Bool.not_eq_true'] at hag
    obtain ⟨⟨⟨hc, hf⟩, _⟩, hpre⟩ := hag
    subst hc
    rt_simp [hf, hpre]
    simp
  | len1 =>
    simp only [Bool.and_eq_true, beq_iff_eq, bne_iff_ne, ne_eq, Bool.not_eq_true'] at hag
    obtain ⟨⟨hc, hf⟩, hlb⟩ := hag
    subst hc
    obtain ⟨h0, h1⟩ := hml (by decide)
    have hw : lbWidth 1 = 1 := rfl
    rt_simp [hf, hlb, hw, uintLE_int_bind 1 _ _ _ h0 h1, leEncodeInt_length]
    simp [Int.toNat_of_nonneg h0]
  | len4 =>
    simp only [Bool.and_eq_true, beq_iff_eq, bne_iff_ne, ne_eq, Bool.not_eq_true'] at hag
    obtain ⟨⟨hc, hf⟩, hlb⟩ := hag
    subst hc
    obtain ⟨h0, h1⟩ := hml (by decide)
    have hw : lbWidth 4 = 4 := rfl
    rt_simp [hf, hlb, hw, uintLE_int_bind 4 _ _ _ h0 h1, leEncodeInt_length]
    simp [Int.toNat_of_nonneg h0]
  | prec =>
    simp only [Bool.and_eq_true, beq_iff_eq, bne_iff_ne, ne_eq, Bool.not_eq_true'] at hag
    obtain ⟨⟨hc, hf⟩, hlb⟩ := hag
    subst hc
    obtain ⟨h0, h1⟩ := hml (by decide)
    have hw : lbWidth 1 = 1 := rfl
    rt_simp [hf, hlb, hw, uintLE_int_bind 1 _ _ _ h0 h1, leEncodeInt_length, hp, hs]
    simp [Int.toNat_of_nonneg h0]
  | scale =>
    simp only [Bool.and_eq_true, beq_iff_eq, bne_iff_ne, ne_eq, Bool.not_eq_true'] at hag
    obtain ⟨⟨hc, hf⟩, hlb⟩ := hag
    subst hc
    obtain ⟨h0, h1⟩ := hml (by decide)
    have hw : lbWidth 1 = 1 := rfl
    rt_simp [hf, hlb, hw, uintLE_int_bind 1 _ _ _ h0 h1, leEncodeInt_length, hs]
    simp [Int.toNat_of_nonneg h0]
  | text =>
    simp only [Bool.and_eq_true, beq_iff_eq, bne_iff_ne, ne_eq, Bool.not_eq_true'] at hag
    obtain ⟨⟨hc, hf⟩, hlb⟩ := hag
    subst hc
    obtain ⟨h0, h1⟩ := hml (by decide)
    have hw : lbWidth 4 = 4 := rfl
    unfold lstr
    rt_simp [hf, hlb, hw, uintLE_int_bind 4 _ _ _ h0 h1, leEncodeInt_length, htn']
    simp [Int.toNat_of_nonneg h0]
    congr 3; omega

theorem norm_eq (names : Bool) (f : Fmt) (sh : Shape) (hsh : shape f.dataType = some sh) (hnb : sh ≠ .blob) :
    Fmt.norm names f =
      { name := f.name, status := f.status, userType := f.userType, dataType := f.dataType,
        maxLength := (Fmt.norm false f).maxLength, precision := (Fmt.norm false f).precision,
        scale := (Fmt.norm false f).scale, blobType := 0, classId := [], tableName := (Fmt.norm false f).tableName,
        locale := f.locale, label := if names then f.label else [], catalogue := if names then f.catalogue else [],
        schema := if names then f.schema else [], table := if names then f.table else [] } := by
  unfold Fmt.norm
  rw [hsh]
  cases sh <;> simp at hnb ⊢

/-- `ReadFromField` of PARAMFMT/2 and ROWFMT/2 on the TDS layout of one description: the normal form
of the description, and a reported count equal to the number of bytes -/
theorem readFromField_layout (names wide : Bool) (f : Fmt) (rest : Bytes) (g : Fmt × Int → P β)
    (h : Fmt.WF names wide f) :
    (readFromField names wide >>= g) (Fmt.layout names wide f ++ rest) =
      shift (Fmt.layout names wide f).length
        (g (Fmt.norm names f, ((Fmt.layout names wide f).length : Int)) rest) := by
  obtain ⟨hn, hst, hut, ⟨sh, hsh, hnb, hml⟩, hp, hs, htn, hlo, hla, hca, hsc, hta⟩ := h
  obtain ⟨cls, p, hl, hag⟩ := shape_lookup hsh
  have hdt : f.dataType < 256 := shape_lt hsh
  have htail := fun (g' : Tail × Int → P β) r => fmtTail_layout f sh cls p r g' hsh hag hnb hml hp hs htn
  unfold readFromField Fmt.layout
  rw [hsh]
  cases names
  · rt_simp [str8_bind _ _ _ hn, hst, hut, hdt, hl, htail, str8_bind _ _ _ hlo, lstr_length]
    congr 2
    refine Prod.ext ?_ ?_
    · rw [norm_eq false f sh hsh hnb]; simp
    · simp; omega
  · have hla' := hla rfl
    have hca' := hca rfl
    have hsc' := hsc rfl
    have hta' := hta rfl
    rt_simp [str8_bind _ _ _ hn, hst, hut, hdt, hl, htail, str8_bind _ _ _ hlo, lstr_length,
      str8_bind _ _ _ hla', str8_bind _ _ _ hca', str8_bind _ _ _ hsc', str8_bind _ _ _ hta']
    congr 2
    refine Prod.ext ?_ ?_
    · rw [norm_eq true f sh hsh hnb]; simp
    · simp; omega

/-- a parser that reads one laid-out element, run over the concatenation of the layouts of a list -/
theorem replicateM_layout {α γ β : Type} (p : P γ) (lay : α → Bytes) (res : α → γ) (xs : List α)
    (h : ∀ x ∈ xs, ∀ (β' : Type) (g : γ → P β') (r : Bytes),
      (p >>= g) (lay x ++ r) = shift (lay x).length (g (res x) r))
    (g : List γ → P β) (rest : Bytes) :
    (replicateM xs.length p >>= g) ((xs.map lay).flatten ++ rest) =
      shift ((xs.map lay).flatten).length (g (xs.map res) rest) := by
  induction xs generalizing g with
  | nil => simp [replicateM, pure_bind_apply]
  | cons x xs ih =>
    have hx := h x (by simp)
    have hxs : ∀ y ∈ xs, ∀ (β' : Type) (g : γ → P β') (r : Bytes),
        (p >>= g) (lay y ++ r) = shift (lay y).length (g (res y) r) := fun y hy => h y (by simp [hy])
    simp only [List.length_cons, replicateM, List.map_cons, List.flatten_cons]
    rt_simp [hx]
    have := ih hxs (fun as => (Pure.pure (res x :: as) : P (List γ)) >>= g)
    rw [this]
    rt_simp []

/-- same for `sequence` over per-element parsers -/
theorem sequence_layout {α δ γ β : Type} (p : α → P γ) (lay : α → δ → Bytes) (res : α → δ → γ)
    (xs : List α) (ds : List δ) (hlen : xs.length = ds.length)
    (h : ∀ xd ∈ xs.zip ds, ∀ (β' : Type) (g : γ → P β') (r : Bytes),
      (p xd.1 >>= g) (lay xd.1 xd.2 ++ r) = shift (lay xd.1 xd.2).length (g (res xd.1 xd.2) r))
    (g : List γ → P β) (rest : Bytes) :
    (sequence (xs.map p) >>= g) (((xs.zip ds).map (fun xd => lay xd.1 xd.2)).flatten ++ rest) =
      shift (((xs.zip ds).map (fun xd => lay xd.1 xd.2)).flatten).length
        (g ((xs.zip ds).map (fun xd => res xd.1 xd.2)) rest) := by
  induction xs generalizing ds g with
  | nil => simp [sequence, pure_bind_apply]
  | cons x xs ih =>
    cases ds with
    | nil => simp at hlen
    | cons d ds =>
      have hx := h (x, d) (by simp)
      have hxs : ∀ xd ∈ xs.zip ds, ∀ (β' : Type) (g : γ → P β') (r : Bytes),
          (p xd.1 >>= g) (lay xd.1 xd.2 ++ r) = shift (lay xd.1 xd.2).length (g (res xd.1 xd.2) r) :=
        fun y hy => h y (by simp [hy])
      simp only [List.map_cons, sequence, List.zip_cons_cons, List.flatten_cons]
      rt_simp [hx]
      have := ih ds (by simpa using hlen) hxs (fun as => (Pure.pure (res x d :: as) : P (List γ)) >>= g)
      rw [this]
      rt_simp []

theorem sumInt_lengths {α : Type} (lay : α → Bytes) (xs : List α) :
    sumInt (xs.map (fun x => ((lay x).length : Int))) = (((xs.map lay).flatten).length : Int) := by
  induction xs with
  | nil => rfl
  | cons x xs ih =>
    simp only [List.map_cons, sumInt, List.foldr_cons, List.flatten_cons, List.length_append] at ih ⊢
    rw [ih]; simp

theorem norm_dataType (names : Bool) (f : Fmt) : (Fmt.norm names f).dataType = f.dataType := by
  unfold Fmt.norm; split <;> rfl

/-- PARAMFMT's per-field check holds on the TDS layout of a description (BLOB excluded by `WF`):
`FormatByteLength` is the number of bytes of the shape-specific part -/
theorem paramFieldLength_norm (wide : Bool) (f : Fmt) (h : Fmt.WF false wide f) :
    (Fmt.norm false f).paramFieldLength wide = ((Fmt.layout false wide f).length : Int) := by
  obtain ⟨_, _, _, ⟨sh, hsh, hnb, _⟩, _, _, _, _, _, _, _, _⟩ := h
  obtain ⟨cls, p, hl, hag⟩ := shape_lookup hsh
  have hcls : (Fmt.norm false f).cls = some cls := by
    simp [Fmt.cls, norm_dataType, fmtClass, hl]
  unfold Fmt.paramFieldLength Fmt.formatByteLength
  rw [hcls]
  simp only [norm_dataType]
  unfold agrees at hag
  rw [hsh] at hag
  unfold Fmt.layout
  rw [hsh]
  have hn : (Fmt.norm false f).name = f.name := by unfold Fmt.norm; rw [hsh]
  have hlo : (Fmt.norm false f).locale = f.locale := by unfold Fmt.norm; rw [hsh]
  have htn : (Fmt.norm false f).tableName = if sh = .text then f.tableName else [] := by
    unfold Fmt.norm; rw [hsh]
  rw [hn, hlo, htn]
  cases sh with
  | blob => exact absurd rfl hnb
  | fixed size =>
    simp only [Bool.and_eq_true, beq_iff_eq, bne_iff_ne, ne_eq, Bool.not_eq_true'] at hag
    obtain ⟨⟨⟨hc, hf⟩, _⟩, _⟩ := hag
    subst hc
    cases wide <;>
      simp [formatByteLength, hf, Fmt.layoutTail, lstr_length, leEncode_length, leEncodeInt_length, sw] <;> omega
  | len1 | len4 | prec | scale | text =>
    simp only [Bool.and_eq_true, beq_iff_eq, bne_iff_ne, ne_eq, Bool.not_eq_true'] at hag
    obtain ⟨⟨hc, hf⟩, hlb⟩ := hag
    subst hc
    cases wide <;>
      simp [formatByteLength, hf, hlb, Fmt.layoutTail, lstr_length, leEncode_length, leEncodeInt_length, sw] <;> omega

/-- `ReadFromField` + the per-field check of `ParamFmtPackage.ReadFrom` on the TDS layout -/
theorem paramField_layout (wide : Bool) (f : Fmt) (rest : Bytes) (g : Fmt × Int → P β)
    (h : Fmt.WF false wide f) :
    (ParamFmt.field wide >>= g) (Fmt.layout false wide f ++ rest) =
      shift (Fmt.layout false wide f).length
        (g (Fmt.norm false f, ((Fmt.layout false wide f).length : Int)) rest) := by
  unfold ParamFmt.field
  have hg : (((Fmt.layout false wide f).length : Int) == (Fmt.norm false f).paramFieldLength wide) = true := by
    rw [paramFieldLength_norm wide f h]; simp
  rt_simp [readFromField_layout false wide f _ _ h, guard_bind_true _ _ _ hg]

/-! ## the Go writer of PARAMFMT produces the TDS layout -/

/-- the writer's per-field length (`1 + len(name) + 1 + 4 + 1 + FormatByteLength + 1 + len(locale)`,
`+ 3` wide) is the number of bytes of the description's layout -/
theorem paramFieldLength_eq (wide : Bool) (f : Fmt) (sh : Shape) (hsh : shape f.dataType = some sh)
    (hnb : sh ≠ .blob) : f.paramFieldLength wide = ((Fmt.layout false wide f).length : Int) := by
  obtain ⟨cls, p, hl, hag⟩ := shape_lookup hsh
  have hcls : f.cls = some cls := by simp [Fmt.cls, fmtClass, hl]
  unfold Fmt.paramFieldLength Fmt.formatByteLength
  rw [hcls]
  unfold agrees at hag
  rw [hsh] at hag
  unfold Fmt.layout
  rw [hsh]
  cases sh with
  | blob => exact absurd rfl hnb
  | fixed size =>
    simp only [Bool.and_eq_true, beq_iff_eq, bne_iff_ne, ne_eq, Bool.not_eq_true'] at hag
    obtain ⟨⟨⟨hc, hf⟩, _⟩, _⟩ := hag
    subst hc
    cases wide <;>
      simp [formatByteLength, hf, Fmt.layoutTail, lstr_length, leEncode_length, leEncodeInt_length, sw] <;> omega
  | len1 | len4 | prec | scale | text =>
    simp only [Bool.and_eq_true, beq_iff_eq, bne_iff_ne, ne_eq, Bool.not_eq_true'] at hag
    obtain ⟨⟨hc, hf⟩, hlb⟩ := hag
    subst hc
    cases wide <;>
      simp [formatByteLength, hf, hlb, Fmt.layoutTail, lstr_length, leEncode_length, leEncodeInt_length, sw] <;> omega

/-- `FieldFmt.WriteTo` writes the shape-specific part of the layout and reports its size -/
theorem encTail_eq (f : Fmt) (sh : Shape) (cls : FmtClass) (p : Int) (hsh : shape f.dataType = some sh)
    (hag : agrees f.dataType cls p = true) (hnb : sh ≠ .blob) :
    f.encTail cls = (f.layoutTail sh, ((f.layoutTail sh).length : Int)) := by
  unfold agrees at hag
  rw [hsh] at hag
  unfold Fmt.encTail writeToBase Fmt.layoutTail
  cases sh with
  | blob => exact absurd rfl hnb
  | fixed size =>
    simp only [Bool.and_eq_true, beq_iff_eq, bne_iff_ne, ne_eq, Bool.not_eq_true'] at hag
    obtain ⟨⟨⟨hc, hf⟩, _⟩, _⟩ := hag
    subst hc
    simp [hf]
  | len1 | len4 | prec | scale | text =>
    simp only [Bool.and_eq_true, beq_iff_eq, bne_iff_ne, ne_eq, Bool.not_eq_true'] at hag
    obtain ⟨⟨hc, hf⟩, hlb⟩ := hag
    subst hc
    simp [hf, hlb, lbWidth, lstr, leEncode_length, leEncodeInt_length] <;> omega

/-- `WriteToField` writes the layout of the description and counts its bytes -/
theorem encParamField_eq (wide : Bool) (f : Fmt) (sh : Shape) (hsh : shape f.dataType = some sh)
    (hnb : sh ≠ .blob) :
    f.encParamField wide = some (Fmt.layout false wide f, ((Fmt.layout false wide f).length : Int)) := by
  obtain ⟨cls, p, hl, hag⟩ := shape_lookup hsh
  have hcls : f.cls = some cls := by simp [Fmt.cls, fmtClass, hl]
  unfold Fmt.encParamField Fmt.layout
  rw [hcls, hsh]
  simp only [encTail_eq f sh cls p hsh hag hnb]
  simp [lstr, leEncode_length, leEncodeInt_length]
  omega

theorem fieldsEnc_eq (wide : Bool) (fs : List Fmt)
    (h : ∀ f ∈ fs, ∃ sh, shape f.dataType = some sh ∧ sh ≠ .blob) :
    ParamFmt.fieldsEnc wide fs =
      some ((fs.map (Fmt.layout false wide)).flatten, (((fs.map (Fmt.layout false wide)).flatten).length : Int)) := by
  induction fs with
  | nil => rfl
  | cons f fs ih =>
    obtain ⟨sh, hsh, hnb⟩ := h f (by simp)
    have := ih (fun g hg => h g (by simp [hg]))
    simp only [ParamFmt.fieldsEnc, encParamField_eq wide f sh hsh hnb, this, List.map_cons, List.flatten_cons,
      List.length_append]
    simp

theorem total_eq (wide : Bool) (fs : List Fmt)
    (h : ∀ f ∈ fs, ∃ sh, shape f.dataType = some sh ∧ sh ≠ .blob) :
    ParamFmt.total wide fs = ((2 + ((fs.map (Fmt.layout false wide)).flatten).length : Nat) : Int) := by
  unfold ParamFmt.total
  have : fs.map (Fmt.paramFieldLength wide) = fs.map (fun f => ((Fmt.layout false wide f).length : Int)) := by
    apply List.map_congr_left
    intro f hf
    obtain ⟨sh, hsh, hnb⟩ := h f hf
    exact paramFieldLength_eq wide f sh hsh hnb
  rw [this, sumInt_lengths]
  simp

/-! ## the independent decoder on the layout -/

theorem specTail_layout (f : Fmt) (sh : Shape) (rest : Bytes) (g : Int × Nat × Nat × Nat × Bytes × Bytes → P β)
    (hsh : shape f.dataType = some sh) (hnb : sh ≠ .blob)
    (hml : 0 < lenWidth sh → 0 ≤ f.maxLength ∧ f.maxLength < (256 ^ lenWidth sh : Nat))
    (hp : f.precision < 256) (hs : f.scale < 256) (htn : f.tableName.length < 65536) :
    (specTail sh >>= g) (f.layoutTail sh ++ rest) =
      shift (f.layoutTail sh).length
        (g ((Fmt.norm false f).maxLength, (Fmt.norm false f).precision, (Fmt.norm false f).scale, 0, [],
            (Fmt.norm false f).tableName) rest) := by
  have htn' : f.tableName.length < 256 ^ 2 := by simpa using htn
  have hp' : f.precision < 256 ^ 1 := by simpa using hp
  have hs' : f.scale < 256 ^ 1 := by simpa using hs
  unfold specTail Fmt.layoutTail Fmt.norm
  rw [hsh]
  cases sh with
  | blob => exact absurd rfl hnb
  | fixed size => rt_simp []; simp
  | len1 =>
    obtain ⟨h0, h1⟩ := hml (by decide)
    rt_simp [uintLE_int_bind 1 _ _ _ h0 h1, leEncodeInt_length]
    simp [Int.toNat_of_nonneg h0]
  | len4 =>
    obtain ⟨h0, h1⟩ := hml (by decide)
    rt_simp [uintLE_int_bind 4 _ _ _ h0 h1, leEncodeInt_length]
    simp [Int.toNat_of_nonneg h0]
  | prec =>
    obtain ⟨h0, h1⟩ := hml (by decide)
    rt_simp [uintLE_int_bind 1 _ _ _ h0 h1, leEncodeInt_length, hp', hs']
    simp [Int.toNat_of_nonneg h0]
  | scale =>
    obtain ⟨h0, h1⟩ := hml (by decide)
    rt_simp [uintLE_int_bind 1 _ _ _ h0 h1, leEncodeInt_length, hs']
    simp [Int.toNat_of_nonneg h0]
  | text =>
    obtain ⟨h0, h1⟩ := hml (by decide)
    unfold lstr
    rt_simp [uintLE_int_bind 4 _ _ _ h0 h1, leEncodeInt_length, plstr_bind _ _ _ _ htn']
    simp [Int.toNat_of_nonneg h0]

theorem specField_layout (names wide : Bool) (f : Fmt) (rest : Bytes) (g : Fmt → P β)
    (h : Fmt.WF names wide f) :
    (specField names wide >>= g) (Fmt.layout names wide f ++ rest) =
      shift (Fmt.layout names wide f).length (g (Fmt.norm names f) rest) := by
  obtain ⟨hn, hst, hut, ⟨sh, hsh, hnb, hml⟩, hp, hs, htn, hlo, hla, hca, hsc, hta⟩ := h
  have hdt : f.dataType < 256 ^ 1 := by simpa using shape_lt hsh
  have hn' : f.name.length < 256 ^ 1 := by simpa using hn
  have hlo' : f.locale.length < 256 ^ 1 := by simpa using hlo
  have htail := fun (g' : Int × Nat × Nat × Nat × Bytes × Bytes → P β) r =>
    specTail_layout f sh r g' hsh hnb hml hp hs htn
  unfold specField Fmt.layout
  rw [hsh]
  unfold lstr
  cases names
  · rt_simp [plstr_bind _ _ _ _ hn', hst, hut, hdt, hsh, htail, plstr_bind _ _ _ _ hlo']
    rw [norm_eq false f sh hsh hnb]
    simp only [Bool.false_eq_true, if_false]
    congr 1
    omega
  · have hla' : f.label.length < 256 ^ 1 := by simpa using hla rfl
    have hca' : f.catalogue.length < 256 ^ 1 := by simpa using hca rfl
    have hsc' : f.schema.length < 256 ^ 1 := by simpa using hsc rfl
    have hta' : f.table.length < 256 ^ 1 := by simpa using hta rfl
    rt_simp [plstr_bind _ _ _ _ hn', hst, hut, hdt, hsh, htail, plstr_bind _ _ _ _ hlo',
      plstr_bind _ _ _ _ hla', plstr_bind _ _ _ _ hca', plstr_bind _ _ _ _ hsc', plstr_bind _ _ _ _ hta']
    rw [norm_eq true f sh hsh hnb]
    simp only [if_true]
    congr 1
    omega

end Dblib.CodecFields
