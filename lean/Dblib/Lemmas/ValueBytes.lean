/-
Byte-level lemmas for the value codecs (C04 / C05): little-endian encode/decode (`Util.leEncode`,
`leDecode`), two's complement conversions, minimal big-endian magnitude (`natBytesBE` / `beNat`).
All by induction / `omega`; nothing is enumerated.
-/
import Dblib.Model.Value

namespace Dblib.Lemmas.ValueBytes
open Dblib Dblib.Value Dblib.AseTime

theorem u8_mod (n : Nat) : (UInt8.ofNat (n % 256)).toNat = n % 256 := by
  simp only [UInt8.toNat_ofNat', Nat.reducePow]; omega

theorem u8_lt (b : UInt8) : b.toNat < 256 := by
  have := b.toNat_lt; simpa using this

theorem u8_ofNat_toNat (b : UInt8) : UInt8.ofNat b.toNat = b := by
  simp

/-! ### little endian -/

theorem leEncode_length (w n : Nat) : (leEncode w n).length = w := by
  induction w generalizing n with
  | zero => rfl
  | succ w ih => simp [leEncode, ih]

theorem leDecode_leEncode (w n : Nat) : leDecode (leEncode w n) = n % 256 ^ w := by
  induction w generalizing n with
  | zero => simp [leEncode, leDecode, Nat.mod_one]
  | succ w ih =>
    simp only [leEncode, leDecode, ih, u8_mod]
    rw [Nat.pow_succ, Nat.mul_comm (256 ^ w) 256, Nat.mod_mul]

theorem leDecode_leEncode_lt (w n : Nat) (h : n < 256 ^ w) : leDecode (leEncode w n) = n := by
  rw [leDecode_leEncode, Nat.mod_eq_of_lt h]

theorem leDecode_lt (bs : Bytes) : leDecode bs < 256 ^ bs.length := by
  induction bs with
  | nil => simp [leDecode]
  | cons b bs ih =>
    have := u8_lt b
    simp only [leDecode, List.length_cons, Nat.pow_succ]
    omega

theorem leEncode_leDecode (bs : Bytes) : leEncode bs.length (leDecode bs) = bs := by
  induction bs with
  | nil => rfl
  | cons b bs ih =>
    have hb := u8_lt b
    have e1 : (b.toNat + 256 * leDecode bs) % 256 = b.toNat := by omega
    have e2 : (b.toNat + 256 * leDecode bs) / 256 = leDecode bs := by omega
    simp only [List.length_cons, leEncode, leDecode, e1, e2, ih, u8_ofNat_toNat]

theorem take_leEncode (w n : Nat) (rest : Bytes) : (leEncode w n ++ rest).take w = leEncode w n := by
  have := leEncode_length w n
  rw [List.take_append_of_le_length (by omega), List.take_of_length_le (by omega)]

theorem drop_leEncode (w n : Nat) (rest : Bytes) : (leEncode w n ++ rest).drop w = rest := by
  have := leEncode_length w n
  rw [List.drop_append_of_le_length (by omega), List.drop_of_length_le (by omega), List.nil_append]

theorem take_self (w n : Nat) : (leEncode w n).take w = leEncode w n := by
  have := take_leEncode w n []
  simpa using this

/-! ### two's complement -/

theorem toSigned2_toU (x : Int) (h : -32768 ≤ x ∧ x ≤ 32767) : toSigned 2 (toU 16 x % 256 ^ 2) = x := by
  simp only [toSigned, toU, Nat.reducePow, Nat.reduceMul, Nat.reduceSub]; omega

theorem toSigned4_toU (x : Int) (h : -2147483648 ≤ x ∧ x ≤ 2147483647) : toSigned 4 (toU 32 x % 256 ^ 4) = x := by
  simp only [toSigned, toU, Nat.reducePow, Nat.reduceMul, Nat.reduceSub]; omega

theorem toSigned8_toU (x : Int) (h : -9223372036854775808 ≤ x ∧ x ≤ 9223372036854775807) :
    toSigned 8 (toU 64 x % 256 ^ 8) = x := by
  simp only [toSigned, toU, Nat.reducePow, Nat.reduceMul, Nat.reduceSub]; omega

theorem toI32_toU (x : Int) (h : -2147483648 ≤ x ∧ x ≤ 2147483647) : toI32 (toU 32 x % 256 ^ 4) = x := by
  simp only [toI32, toU, Nat.reducePow]; omega

theorem toU_lt (bits : Nat) (x : Int) : toU bits x < 2 ^ bits := by
  have hp : (0 : Int) < ((2 ^ bits : Nat) : Int) := by
    have := Nat.two_pow_pos bits; omega
  have h1 := Int.emod_lt_of_pos x hp
  have h2 := Int.emod_nonneg x (Int.ne_of_gt hp)
  simp only [toU]; omega

/-! ### big endian magnitude -/

theorem beNat_append (l : Bytes) (b : UInt8) : beNat (l ++ [b]) = 256 * beNat l + b.toNat := by
  simp [beNat, List.foldl_append]

theorem beNat_natBytesBE (n : Nat) : beNat (natBytesBE n) = n := by
  induction n using Nat.strongRecOn with
  | ind n ih =>
    rw [natBytesBE]
    split
    · subst_vars; rfl
    · rename_i h
      rw [beNat_append, ih (n / 256) (by omega), u8_mod]; omega

end Dblib.Lemmas.ValueBytes
