/-
The serialisation of packets (`packetBytes`, transcribed from `Packet.Bytes`/`PacketHeader.Read`)
is read back by the independent wire reader `parsePackets` (`Model/Wire.lean`).
-/
import Dblib.Model.ChanTx
import Dblib.Model.Wire
namespace Dblib
/-- header fields fit their wire widths and the length field is the real size -/
def HdrOK (p : Packet) : Prop :=
  p.hdr.msgType < 256 ∧ p.hdr.status < 256 ∧ p.hdr.length = 8 + p.data.length ∧ p.hdr.length < 65536
  ∧ p.hdr.channel < 65536 ∧ p.hdr.packetNr < 256 ∧ p.hdr.window < 256

def wireOf (ps : List Packet) : Bytes := (ps.map (fun p => (packetBytes p).getD [])).flatten

theorem packetBytes_ok (p : Packet) (h : HdrOK p) : packetBytes p = some (hdrBytes p.hdr ++ p.data) := by
  obtain ⟨_, _, hl, _⟩ := h
  unfold packetBytes
  have : ¬ p.hdr.length < 8 := by omega
  rw [if_neg this]
  simp only [hl, Nat.add_sub_cancel_left, List.take_length, Nat.sub_self,
    List.replicate_zero, List.append_nil]

theorem u8_hi_lo (c : Nat) (h : c < 65536) :
    (UInt8.ofNat (c / 256)).toNat * 256 + (UInt8.ofNat c).toNat = c := by
  simp only [UInt8.toNat_ofNat', Nat.reducePow]; omega

theorem u8_id (c : Nat) (h : c < 256) : (UInt8.ofNat c).toNat = c := by
  simp only [UInt8.toNat_ofNat', Nat.reducePow]; omega

theorem parse_wire (ps : List Packet) : ∀ fuel, (wireOf ps).length ≤ fuel → (∀ p ∈ ps, HdrOK p) →
    parsePackets fuel (wireOf ps) = some ps := by
  induction ps with
  | nil => intro fuel _ _; cases fuel <;> simp [wireOf, parsePackets]
  | cons p ps ih =>
    intro fuel hf hok
    have hp := hok p (by simp)
    obtain ⟨h1, h2, h3, h4, h5, h6, h7⟩ := hp
    have hw : wireOf (p :: ps) = hdrBytes p.hdr ++ (p.data ++ wireOf ps) := by
      simp [wireOf, packetBytes_ok p (hok p (by simp))]
    rw [hw] at hf ⊢
    cases fuel with
    | zero => simp [hdrBytes] at hf
    | succ fuel =>
      show parsePackets (fuel + 1) (UInt8.ofNat p.hdr.msgType :: UInt8.ofNat p.hdr.status ::
          UInt8.ofNat (p.hdr.length / 256) :: UInt8.ofNat p.hdr.length ::
          UInt8.ofNat (p.hdr.channel / 256) :: UInt8.ofNat p.hdr.channel ::
          UInt8.ofNat p.hdr.packetNr :: UInt8.ofNat p.hdr.window :: (p.data ++ wireOf ps)) = _
      simp only [parsePackets]
      have e1 := u8_hi_lo p.hdr.length h4
      have e2 := u8_hi_lo p.hdr.channel h5
      have e3 := u8_id p.hdr.msgType h1
      have e4 := u8_id p.hdr.status h2
      have e5 := u8_id p.hdr.packetNr h6
      have e6 := u8_id p.hdr.window h7
      simp only [e1, e2, e3, e4, e5, e6]
      have hc : ¬ (p.hdr.length < 8 ∨ (p.data ++ wireOf ps).length < p.hdr.length - 8) := by
        simp [h3]
      simp only [hc, if_false, h3, Nat.add_sub_cancel_left, List.drop_left', List.take_left']
      rw [ih fuel (by simp [hdrBytes] at hf; omega) (fun q hq => hok q (by simp [hq]))]
      simp
      cases p with | mk hdr data => cases hdr; simp_all
end Dblib
