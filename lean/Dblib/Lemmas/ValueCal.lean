/-
Calendar lemmas for the value codecs (C04 / C05), about `Dblib/Model/AseTime.lean`.

* `civil_days`, `days_civil`   `civilFromDays` and `daysFromCivil` are inverse to each other, for every
                               `Int` day number / every valid date of every `Int` year.
* `goJdn_eq`                   Go's Julian-day formula (Doggett, truncating divisions) is
                               `daysFromCivil + 1721426` for every year ≥ −4000 (no upper bound).
* `fliegel_civil`              the Fliegel / Van Flandern steps of `MicrosecondsToTime` invert it, for every
                               valid date of every year ≥ −4000.
* closed forms of `durationFromTime`, `durationFromDateTime`, `timeToMicroseconds`, `mkDate`.

Everything is linear integer arithmetic with divisions by literals: proved by `omega`, staged one division
level at a time (omega does not see through nested divisions in one shot), no enumeration of years.
-/
import Dblib.Model.AseTime

namespace Dblib.Lemmas.ValueCal
open Dblib.AseTime

/-! ### leap years and the 400/100/4/1 cascade -/

theorem isLeap_iff (y : Int) : isLeap y = true ↔ (y % 4 = 0 ∧ (y % 100 ≠ 0 ∨ y % 400 = 0)) := by
  simp [isLeap]

theorem ys_decomp (a b c e : Int) (hb : 0 ≤ b ∧ b ≤ 3) (hc : 0 ≤ c ∧ c ≤ 24) (he : 0 ≤ e ∧ e ≤ 3) :
    yearStart (400 * a + 100 * b + 4 * c + e + 1) = 146097 * a + 36524 * b + 1461 * c + 365 * e := by
  unfold yearStart
  omega

theorem isLeap_decomp (a b c e : Int) (hb : 0 ≤ b ∧ b ≤ 3) (hc : 0 ≤ c ∧ c ≤ 24) (he : 0 ≤ e ∧ e ≤ 3) :
    isLeap (400 * a + 100 * b + 4 * c + e + 1) = true ↔ (e = 3 ∧ (c ≠ 24 ∨ b = 3)) := by
  rw [isLeap_iff]; omega

theorem yearDoy_decomp (a b c e : Int) (doy : Nat) (hb : 0 ≤ b ∧ b ≤ 3) (hc : 0 ≤ c ∧ c ≤ 24)
    (he : 0 ≤ e ∧ e ≤ 3) (hd : doy < 365 ∨ (doy = 365 ∧ e = 3 ∧ (c ≠ 24 ∨ b = 3))) :
    yearDoy (146097 * a + 36524 * b + 1461 * c + 365 * e + doy) = (400 * a + 100 * b + 4 * c + e + 1, doy) := by
  have h1 : (146097 * a + 36524 * b + 1461 * c + 365 * e + doy) / 146097 = a := by omega
  have h2 : (146097 * a + 36524 * b + 1461 * c + 365 * e + doy) % 146097
      = 36524 * b + 1461 * c + 365 * e + doy := by omega
  have h3 : min ((36524 * b + 1461 * c + 365 * e + (doy : Int)) / 36524) 3 = b := by omega
  have h4 : (36524 * b + 1461 * c + 365 * e + (doy : Int) - b * 36524) / 1461 = c := by omega
  have h5 : (36524 * b + 1461 * c + 365 * e + (doy : Int) - b * 36524) % 1461 = 365 * e + doy := by omega
  have h6 : min ((365 * e + (doy : Int)) / 365) 3 = e := by omega
  have h7 : (365 * e + (doy : Int) - e * 365).toNat = doy := by omega
  simp only [yearDoy, h1, h2, h3, h4, h5, h6, h7]

/-- every day number has a cascade decomposition -/
theorem decomp_exists (n : Int) : ∃ a b c e : Int, ∃ doy : Nat, (0 ≤ b ∧ b ≤ 3) ∧ (0 ≤ c ∧ c ≤ 24) ∧
    (0 ≤ e ∧ e ≤ 3) ∧ (doy < 365 ∨ (doy = 365 ∧ e = 3 ∧ (c ≠ 24 ∨ b = 3))) ∧
    n = 146097 * a + 36524 * b + 1461 * c + 365 * e + doy := by
  refine ⟨n / 146097, min (n % 146097 / 36524) 3, (n % 146097 - min (n % 146097 / 36524) 3 * 36524) / 1461,
    min ((n % 146097 - min (n % 146097 / 36524) 3 * 36524) % 1461 / 365) 3,
    ((n % 146097 - min (n % 146097 / 36524) 3 * 36524) % 1461
      - min ((n % 146097 - min (n % 146097 / 36524) 3 * 36524) % 1461 / 365) 3 * 365).toNat,
    ?_, ?_, ?_, ?_, ?_⟩ <;> omega

/-- every year has a cascade decomposition -/
theorem year_decomp (y : Int) : ∃ a b c e : Int, (0 ≤ b ∧ b ≤ 3) ∧ (0 ≤ c ∧ c ≤ 24) ∧ (0 ≤ e ∧ e ≤ 3) ∧
    y = 400 * a + 100 * b + 4 * c + e + 1 :=
  ⟨(y - 1) / 400, (y - 1) % 400 / 100, (y - 1) % 100 / 4, (y - 1) % 4, by omega, by omega, by omega, by omega⟩

/-! ### day of the year ↔ month and day (finite tables, kernel evaluated) -/

theorem doy_month_tab (leap : Bool) : ∀ doy : Nat, doy < 366 → (doy < 365 ∨ leap = true) →
    1 ≤ monthOfDoy doy leap ∧ monthOfDoy doy leap ≤ 12 ∧
    daysBeforeMonth (monthOfDoy doy leap) leap ≤ doy ∧
    doy - daysBeforeMonth (monthOfDoy doy leap) leap + 1 ≤ daysInMonth (monthOfDoy doy leap) leap := by
  cases leap <;> decide +kernel

def monthDoyOk (leap : Bool) (m d : Nat) : Bool :=
  decide (1 ≤ m → 1 ≤ d → d ≤ daysInMonth m leap →
    monthOfDoy (daysBeforeMonth m leap + d - 1) leap = m ∧
    (daysBeforeMonth m leap + d - 1 < 365 ∨ (daysBeforeMonth m leap + d - 1 = 365 ∧ leap = true)))

theorem month_doy_ok (leap : Bool) : ∀ m : Nat, m < 13 → ∀ d : Nat, d < 32 → monthDoyOk leap m d = true := by
  cases leap <;> decide +kernel

theorem month_doy_tab (leap : Bool) (m : Nat) (hm : m < 13) (d : Nat) (hd : d < 32) (h1 : 1 ≤ m) (h2 : 1 ≤ d)
    (h3 : d ≤ daysInMonth m leap) :
    monthOfDoy (daysBeforeMonth m leap + d - 1) leap = m ∧
    (daysBeforeMonth m leap + d - 1 < 365 ∨ (daysBeforeMonth m leap + d - 1 = 365 ∧ leap = true)) := by
  have := month_doy_ok leap m hm d hd
  simp only [monthDoyOk, decide_eq_true_eq] at this
  exact this h1 h2 h3

theorem daysInMonth_le (m : Nat) (leap : Bool) : daysInMonth m leap ≤ 31 := by
  unfold daysInMonth; split <;> (try split) <;> omega

/-! ### `civilFromDays` and `daysFromCivil` are inverse -/

theorem civil_days (n : Int) :
    daysFromCivil (civilFromDays n).1 (civilFromDays n).2.1 (civilFromDays n).2.2 = n ∧
    ValidDate (civilFromDays n).1 (civilFromDays n).2.1 (civilFromDays n).2.2 := by
  obtain ⟨a, b, c, e, doy, hb, hc, he, hd, rfl⟩ := decomp_exists n
  have hl := isLeap_decomp a b c e hb hc he
  simp only [civilFromDays, yearDoy_decomp a b c e doy hb hc he hd, daysFromCivil, ValidDate,
    ys_decomp a b c e hb hc he]
  have hdoy : doy < 366 := by omega
  have hlp : doy < 365 ∨ isLeap (400 * a + 100 * b + 4 * c + e + 1) = true := by
    rcases hd with h | ⟨_, h2, h3⟩
    · exact Or.inl h
    · exact Or.inr (hl.2 ⟨h2, h3⟩)
  obtain ⟨t1, t2, t3, t4⟩ := doy_month_tab _ doy hdoy hlp
  refine ⟨by omega, t1, t2, by omega, t4⟩

theorem days_civil (y : Int) (m d : Nat) (h : ValidDate y m d) :
    civilFromDays (daysFromCivil y m d) = (y, m, d) := by
  obtain ⟨a, b, c, e, hb, hc, he, rfl⟩ := year_decomp y
  obtain ⟨h1, h2, h3, h4⟩ := h
  have hl := isLeap_decomp a b c e hb hc he
  have hd31 := daysInMonth_le m (isLeap (400 * a + 100 * b + 4 * c + e + 1))
  obtain ⟨t1, t2⟩ := month_doy_tab (isLeap (400 * a + 100 * b + 4 * c + e + 1)) m (by omega) d (by omega) h1 h3 h4
  have hd : daysBeforeMonth m (isLeap (400 * a + 100 * b + 4 * c + e + 1)) + d - 1 < 365 ∨
      (daysBeforeMonth m (isLeap (400 * a + 100 * b + 4 * c + e + 1)) + d - 1 = 365 ∧ e = 3 ∧ (c ≠ 24 ∨ b = 3)) := by
    rcases t2 with h | ⟨h, hh⟩
    · exact Or.inl h
    · exact Or.inr ⟨h, hl.1 hh⟩
  have e1 : daysFromCivil (400 * a + 100 * b + 4 * c + e + 1) m d = 146097 * a + 36524 * b + 1461 * c + 365 * e +
      ((daysBeforeMonth m (isLeap (400 * a + 100 * b + 4 * c + e + 1)) + d - 1 : Nat) : Int) := by
    simp only [daysFromCivil, ys_decomp a b c e hb hc he]; omega
  simp only [civilFromDays, e1, yearDoy_decomp a b c e _ hb hc he hd, t1]
  refine Prod.ext rfl (Prod.ext rfl ?_)
  show daysBeforeMonth m _ + d - 1 - daysBeforeMonth m _ + 1 = d
  omega

/-- `daysFromCivil` is injective on valid dates -/
theorem daysFromCivil_inj (y y' : Int) (m d m' d' : Nat) (h : ValidDate y m d) (h' : ValidDate y' m' d')
    (e : daysFromCivil y m d = daysFromCivil y' m' d') : y = y' ∧ m = m' ∧ d = d' := by
  have := days_civil y m d h
  rw [e, days_civil y' m' d' h'] at this
  simp only [Prod.mk.injEq] at this
  omega

theorem year_pos_of_day_nonneg (n : Int) (h : 0 ≤ n) : 1 ≤ (civilFromDays n).1 := by
  obtain ⟨a, b, c, e, doy, hb, hc, he, hd, rfl⟩ := decomp_exists n
  simp only [civilFromDays, yearDoy_decomp a b c e doy hb hc he hd]
  omega

theorem year_le_of_day_lt (n : Int) (h : n < 3652059) : (civilFromDays n).1 ≤ 9999 := by
  obtain ⟨a, b, c, e, doy, hb, hc, he, hd, rfl⟩ := decomp_exists n
  simp only [civilFromDays, yearDoy_decomp a b c e doy hb hc he hd]
  omega

theorem year_ge_of_day_ge (n : Int) (h : -1461000 ≤ n) : -4000 ≤ (civilFromDays n).1 := by
  obtain ⟨a, b, c, e, doy, hb, hc, he, hd, rfl⟩ := decomp_exists n
  simp only [civilFromDays, yearDoy_decomp a b c e doy hb hc he hd]
  omega

/-! ### `time.Date` -/

theorem mkDate_valid (y : Int) (m d h mi s ns : Nat) (hv : ValidDate y m d) (hh : h < 24) (hmi : mi < 60)
    (hs : s < 60) (hns : ns < 1000000000) :
    mkDate y m d h mi s ns =
      ⟨daysFromCivil y m d, h * 3600000000000 + mi * 60000000000 + s * 1000000000 + ns⟩ := by
  obtain ⟨h1, h2, h3, h4⟩ := hv
  have e1 : ((m : Int) - 1) / 12 = 0 := by omega
  have e2 : (((m : Int) - 1) % 12).toNat + 1 = m := by omega
  simp only [mkDate, e1, e2, Int.add_zero, daysFromCivil, nsPerDay]
  congr 1 <;> omega

theorem mkDate_midnight (y : Int) (m d : Nat) (hv : ValidDate y m d) :
    mkDate y m d 0 0 0 0 = ⟨daysFromCivil y m d, 0⟩ := by
  have := mkDate_valid y m d 0 0 0 0 hv (by omega) (by omega) (by omega) (by omega)
  simpa using this

theorem epoch1900_eq : epoch1900 = ⟨693595, 0⟩ := by decide +kernel
theorem epochRataDie_eq : epochRataDie = ⟨0, 0⟩ := by decide +kernel
theorem dateYear0_eq : dateYear0 = ⟨-366, 0⟩ := by decide +kernel
theorem mkDate_111 : mkDate 1 1 1 0 0 0 0 = ⟨0, 0⟩ := by decide +kernel

/-! ### accessors -/

theorem time_civil (t : Time) :
    daysFromCivil t.year t.month t.dayOfMonth = t.day ∧ ValidDate t.year t.month t.dayOfMonth :=
  civil_days t.day

theorem hms_bounds (t : Time) (h : t.ns < nsPerDay) :
    t.hour < 24 ∧ t.minute < 60 ∧ t.second < 60 ∧ t.nanosecond < 1000000000 ∧
    t.hour * 3600000000000 + t.minute * 60000000000 + t.second * 1000000000 + t.nanosecond = t.ns := by
  simp only [Time.hour, Time.minute, Time.second, Time.nanosecond, nsPerDay] at *
  omega

/-- re-assembling a time from its accessors (`time.Date(t.Year(), t.Month(), …)` is `t`) -/
theorem mkDate_accessors (t : Time) (h : t.ns < nsPerDay) :
    mkDate t.year t.month t.dayOfMonth t.hour t.minute t.second t.nanosecond = t := by
  obtain ⟨e, hv⟩ := time_civil t
  obtain ⟨b1, b2, b3, b4, b5⟩ := hms_bounds t h
  rw [mkDate_valid _ _ _ _ _ _ _ hv b1 b2 b3 b4, e, b5]

/-! ### `asetime` closed forms -/

theorem durationFromTime_eq (t : Time) (h : t.ns < nsPerDay) : durationFromTime t = ((t.ns / 1000 : Nat) : Int) := by
  simp only [durationFromTime]
  rw [Int.tdiv_eq_ediv_of_nonneg (by omega), Int.tdiv_eq_ediv_of_nonneg (by omega),
    Int.tdiv_eq_ediv_of_nonneg (by omega), Int.tdiv_eq_ediv_of_nonneg (by omega)]
  simp only [Time.hour, Time.minute, Time.second, Time.nanosecond, nsPerDay] at *
  omega

theorem durationFromTime_bounds (t : Time) (h : t.ns < nsPerDay) :
    0 ≤ durationFromTime t ∧ durationFromTime t < 86400000000 := by
  rw [durationFromTime_eq t h]; simp only [nsPerDay] at h; omega

/-! ### the Julian day formula -/

/-- the formula with the month adjustment `a` made explicit and floor divisions -/
def jdnE (y a M d : Int) : Int :=
  (1461 * (y + 4800 + a)) / 4 + (367 * M) / 12 - (3 * ((y + 4900 + a) / 100)) / 4 + d - 32075

theorem goJdn_jdnE (y d : Int) (m : Int) (a : Int) (ha : Int.tdiv (m - 14) 12 = a) (hy : 0 ≤ y + 4800 + a)
    (hM : 0 ≤ m - 2 - 12 * a) : goJdn y m d = jdnE y a (m - 2 - 12 * a) d := by
  unfold goJdn jdnE
  rw [ha]
  rw [Int.tdiv_eq_ediv_of_nonneg (a := 1461 * (y + 4800 + a)) (by omega),
    Int.tdiv_eq_ediv_of_nonneg (a := 367 * (m - 2 - 12 * a)) (by omega),
    Int.tdiv_eq_ediv_of_nonneg (a := y + 4900 + a) (by omega),
    Int.tdiv_eq_ediv_of_nonneg (a := 3 * ((y + 4900 + a) / 100)) (by omega)]

theorem jdnE_late (y M d : Int) :
    jdnE y 0 M d = 365 * (y - 1) + y / 4 - y / 100 + y / 400 + (367 * M) / 12 + d + 1721454 := by
  unfold jdnE
  have h1 : (1461 * (y + 4800 + 0)) / 4 = 365 * y + y / 4 + 1753200 := by omega
  have h2 : (y + 4900 + 0) / 100 = y / 100 + 49 := by omega
  have h3 : ∀ g : Int, (3 * (g + 49)) / 4 = g - g / 4 + 36 := by intro g; omega
  have h4 : y / 100 / 4 = y / 400 := by omega
  rw [h1, h2, h3, h4]
  omega

theorem jdnE_early (y M d : Int) :
    jdnE y (-1) M d =
      365 * (y - 1) + (y - 1) / 4 - (y - 1) / 100 + (y - 1) / 400 + (367 * M) / 12 + d + 1721089 := by
  have := jdnE_late (y - 1) M d
  unfold jdnE at this ⊢
  have e1 : y + 4800 + -1 = y - 1 + 4800 + 0 := by omega
  have e2 : y + 4900 + -1 = y - 1 + 4900 + 0 := by omega
  rw [e1, e2, this]; omega

/-- **Go's Julian-day formula is the proleptic Gregorian day number** (+1721426), every year ≥ −4000 -/
theorem goJdn_eq (y : Int) (m d : Nat) (hy : -4000 ≤ y) (hm : 1 ≤ m ∧ m ≤ 12) :
    goJdn y m d = daysFromCivil y m d + 1721426 := by
  have hm' : m = 1 ∨ m = 2 ∨ m = 3 ∨ m = 4 ∨ m = 5 ∨ m = 6 ∨ m = 7 ∨ m = 8 ∨ m = 9 ∨ m = 10 ∨ m = 11 ∨ m = 12 := by
    omega
  have hl := isLeap_iff y
  rcases hm' with h | h | h | h | h | h | h | h | h | h | h | h <;> subst h
  · rw [goJdn_jdnE y d _ (-1) (by decide) (by omega) (by decide), jdnE_early]
    simp only [daysFromCivil, yearStart, daysBeforeMonth, cumDays]
    cases isLeap y <;> simp <;> omega
  · rw [goJdn_jdnE y d _ (-1) (by decide) (by omega) (by decide), jdnE_early]
    simp only [daysFromCivil, yearStart, daysBeforeMonth, cumDays]
    cases isLeap y <;> simp <;> omega
  all_goals
    rw [goJdn_jdnE y d _ 0 (by decide) (by omega) (by decide), jdnE_late]
    simp only [daysFromCivil, yearStart, daysBeforeMonth, cumDays]
    cases h : isLeap y <;> simp [h] at hl <;> simp <;> omega

theorem goJdn_time (t : Time) (h : -4000 ≤ t.year) : goJdn t.year t.month t.dayOfMonth = t.day + 1721426 := by
  obtain ⟨e, hv⟩ := time_civil t
  rw [goJdn_eq _ _ _ h ⟨hv.1, hv.2.1⟩, e]

theorem durationFromDateTime_eq (t : Time) (h : t.ns < nsPerDay) (hy : -4000 ≤ t.year) :
    durationFromDateTime t = (t.day + 366) * 86400000000 + ((t.ns / 1000 : Nat) : Int) := by
  simp only [durationFromDateTime, goJdn_time t hy, durationFromTime_eq t h]
  have e1 : Int.tdiv (24 * 3600000000000) 1000 = 86400000000 := by decide
  have e2 : Int.tdiv (3600000000000 * 24 * 365) 1000 = 31536000000000 := by decide
  rw [e1, e2]; omega

theorem timeToMicroseconds_eq (t : Time) (h : t.ns < nsPerDay) (hd : 0 ≤ t.day) (hd' : t.day < 100000000) :
    timeToMicroseconds t = ((t.day + 366) * 86400000000 + ((t.ns / 1000 : Nat) : Int)).toNat := by
  have hy : -4000 ≤ t.year := by have := year_pos_of_day_nonneg t.day hd; unfold Time.year; omega
  have hf := durationFromTime_eq t h
  simp only [durationFromTime] at hf
  simp only [timeToMicroseconds, goJdn_time t hy]
  have e1 : Int.tdiv (24 * 3600000000000) 1000 = 86400000000 := by decide
  have e2 : Int.tdiv (3600000000000 * 24 * 365) 1000 = 31536000000000 := by decide
  rw [e1, e2]
  simp only [nsPerDay] at h
  simp only [toU]
  omega

/-! ### Fliegel / Van Flandern -/

/-- length of the `mp`-th month of the March-based year (0 = March … 11 = February) -/
def marchLen (mp : Int) (leapNext : Bool) : Int :=
  if mp = 11 then (if leapNext then 29 else 28)
  else if mp = 1 ∨ mp = 3 ∨ mp = 6 ∨ mp = 8 then 30 else 31

/-- the steps after the century has been split off: `W` = day in the century -/
theorem fliegel_core (C r doyM W l : Int) (hC : 0 ≤ C) (hr : 0 ≤ r ∧ r ≤ 99)
    (hdoy : 0 ≤ doyM ∧ (doyM ≤ 364 ∨ (doyM = 365 ∧ (r + 1) % 4 = 0 ∧ (r ≠ 99 ∨ C % 4 = 0))))
    (hW : W = 365 * r + r / 4 + doyM)
    (hl : l = 36524 * C + (C + 3) / 4 + W) :
    Int.tdiv (4 * l) 146097 = C ∧ l - Int.tdiv (146097 * C + 3) 4 = W ∧
    Int.tdiv (4000 * (W + 1)) 1461001 = r ∧ W - Int.tdiv (1461 * r) 4 + 31 = doyM + 31 := by
  have e1 : (146097 * C + 3) / 4 = 36524 * C + (C + 3) / 4 := by omega
  have hW0 : 0 ≤ W := by omega
  refine ⟨?_, ?_, ?_, ?_⟩
  · rw [Int.tdiv_eq_ediv_of_nonneg (by omega)]; omega
  · rw [Int.tdiv_eq_ediv_of_nonneg (by omega), e1]; omega
  · rw [Int.tdiv_eq_ediv_of_nonneg (by omega)]; omega
  · rw [Int.tdiv_eq_ediv_of_nonneg (by omega)]; omega

theorem fliegel_month (mp d : Int) (b : Bool) (hmp : 0 ≤ mp ∧ mp ≤ 11) (hd : 1 ≤ d ∧ d ≤ marchLen mp b) :
    Int.tdiv (80 * ((153 * mp + 2) / 5 + d - 1 + 31)) 2447 = mp + 1 ∧
    (153 * mp + 2) / 5 + d - 1 + 31 - Int.tdiv (2447 * (mp + 1)) 80 = d ∧
    Int.tdiv (mp + 1) 11 = (if 10 ≤ mp then 1 else 0) ∧
    0 ≤ (153 * mp + 2) / 5 + d - 1 ∧
    ((153 * mp + 2) / 5 + d - 1 ≤ 364 ∨ ((153 * mp + 2) / 5 + d - 1 = 365 ∧ b = true)) := by
  have hmp' : mp = 0 ∨ mp = 1 ∨ mp = 2 ∨ mp = 3 ∨ mp = 4 ∨ mp = 5 ∨ mp = 6 ∨ mp = 7 ∨ mp = 8 ∨ mp = 9 ∨
      mp = 10 ∨ mp = 11 := by omega
  rcases hmp' with h | h | h | h | h | h | h | h | h | h | h | h <;> subst h <;>
    cases b <;> simp [marchLen] at hd <;>
    (refine ⟨?_, ?_, ?_, ?_, ?_⟩ <;>
      first | (rw [Int.tdiv_eq_ediv_of_nonneg (by omega)]; omega) | simp; omega | omega)

theorem fliegel_march (c r mp d : Int) (hc : -49 ≤ c) (hr : 0 ≤ r ∧ r ≤ 99) (hmp : 0 ≤ mp ∧ mp ≤ 11)
    (hd : 1 ≤ d ∧ d ≤ marchLen mp (isLeap (100 * c + r + 1))) :
    fliegel (36524 * c + c / 4 + 365 * r + r / 4 + (153 * mp + 2) / 5 + d - 693902) =
      (100 * c + r + (if 10 ≤ mp then 1 else 0), mp + 3 - (if 10 ≤ mp then 12 else 0), d) := by
  have hleap : isLeap (100 * c + r + 1) = true ↔ ((r + 1) % 4 = 0 ∧ (r ≠ 99 ∨ (c + 1) % 4 = 0)) := by
    simp only [isLeap, Bool.and_eq_true, Bool.or_eq_true, beq_iff_eq, bne_iff_ne, ne_eq]
    omega
  obtain ⟨m1, m2, m3, m4, m5⟩ := fliegel_month mp d _ hmp hd
  obtain ⟨c1, c2, c3, c4⟩ := fliegel_core (c + 49) r ((153 * mp + 2) / 5 + d - 1)
    (365 * r + r / 4 + ((153 * mp + 2) / 5 + d - 1))
    (36524 * c + c / 4 + 365 * r + r / 4 + (153 * mp + 2) / 5 + d - 693902 + 68569 + 2415021)
    (by omega) hr ⟨m4, by rcases m5 with h | ⟨h1, h2⟩
                          · exact Or.inl h
                          · exact Or.inr ⟨h1, by have := hleap.1 h2; omega⟩⟩ rfl (by omega)
  simp only [fliegel]
  rw [c1, c2, c3, c4, m1, m2, m3]
  split <;> simp <;> omega

end Dblib.Lemmas.ValueCal
