/-
Closed forms of the temporal and money arms of `Value.bytes` / `Value.goValue` on their domains
(C04 composes them, C05 compares them with the reference layouts).
-/
import Dblib.Lemmas.ValueArms
import Dblib.Lemmas.ValueFliegel

namespace Dblib.Lemmas.ValueTemporal
open Dblib Dblib.Value Dblib.AseTime Dblib.Gen
open Dblib.Lemmas.ValueBytes Dblib.Lemmas.ValueArms Dblib.Lemmas.ValueCal

/-! ### arithmetic of the units -/

theorem dfd_epoch1900 : durationFromDateTime epoch1900 = 59958230400000000 := by decide +kernel

/-- `Days()` of a duration `a days + u µs`, `0 ≤ u < 1 day`: truncation toward zero -/
theorem days_split (a : Int) (u : Nat) (hu : u < 86400000000) :
    AseTime.days (a * 86400000000 + u) = if 0 ≤ a ∨ u = 0 then a else a + 1 := by
  simp only [AseTime.days, Types.day, tdiv_pos]
  split <;> split <;> omega

theorem days_mul (x : Int) : AseTime.days (x * 86400000000) = x := by
  have := days_split x 0 (by omega)
  simpa using this

/-- `floorDays` of a duration `a days + u µs`, `0 ≤ u < 1 day`, is `a` — before the epoch as well -/
theorem floorDays_split (a : Int) (u : Nat) (hu : u < 86400000000) :
    floorDays (a * 86400000000 + u) = a := by
  simp only [floorDays, days_split a u hu, Types.day]
  by_cases h : 0 ≤ a * 86400000000 + (u : Int)
  · rw [if_neg (by omega), if_pos (by omega)]
  · have hm : Int.tmod (a * 86400000000 + (u : Int)) 86400000000 = -(Int.tmod (-(a * 86400000000 + (u : Int))) 86400000000) := by
      have := Int.neg_tmod (-(a * 86400000000 + (u : Int))) 86400000000
      rw [Int.neg_neg] at this; exact this
    rw [hm, Int.tmod_eq_emod_of_nonneg (by omega)]
    by_cases hu0 : u = 0
    · subst hu0
      rw [if_neg (by omega), if_pos (by omega)]
    · rw [if_pos (by omega), if_neg (by omega)]; omega

/-- `MillisecondToFractionalSecond` on a non-negative microsecond count: nearest tick, ties up -/
theorem ms2f_nonneg (s : Int) (h : 0 ≤ s) : millisecondToFractionalSecond s = (3 * s + 5000) / 10000 := by
  simp only [millisecondToFractionalSecond, roundHalfAway, Types.millisecond]
  rw [if_pos (by omega)]; omega

theorem ms2f_neg (s : Int) (h : s < 0) : millisecondToFractionalSecond s = -((3 * (-s) + 5000) / 10000) := by
  simp only [millisecondToFractionalSecond, roundHalfAway, Types.millisecond]
  rw [if_neg (by omega)]; omega

/-- `FractionalSecondToMillisecond` on a non-negative tick count: whole milliseconds, truncated -/
theorem f2ms_nonneg (k : Int) (h : 0 ≤ k) : fractionalSecondToMillisecond k = 10 * k / 3 * 1000 := by
  simp only [fractionalSecondToMillisecond, Types.millisecond, tdiv_pos]
  rw [if_pos (by omega)]; omega

theorem dfd_diff (tm : Time) (h : tm.ns < nsPerDay) (hy : -4000 ≤ tm.year) :
    durationFromDateTime tm - durationFromDateTime epoch1900
      = (tm.day - 693595) * 86400000000 + ((tm.ns / 1000 : Nat) : Int) := by
  rw [durationFromDateTime_eq tm h hy, dfd_epoch1900]; omega

theorem us_lt (tm : Time) (h : tm.ns < nsPerDay) : tm.ns / 1000 < 86400000000 := by
  simp only [nsPerDay] at h; omega

/-! ### DATE -/

theorem enc_date (tm : Time) (h : tm.ns < nsPerDay) (hy : -4000 ≤ tm.year) :
    dateBytes tm 4 = .ok (leEncode 4 (toU 32 (tm.day - 693595))) := by
  have e : mkBytes 4 = some (zeros 4) := mkBytes_nat 4
  simp only [dateBytes, e, dfd_diff tm h hy, floorDays_split _ _ (us_lt tm h), putLE_zeros, ofOpt]

theorem dec_date (x : Int) (hx : -100000000 < x ∧ x < 100000000) :
    dateArm (leEncode 4 (toU 32 x)) = .ok (.time ⟨693595 + x, 0⟩) := by
  have hg := getLE_leEncode 4 (toU 32 x) []
  rw [List.append_nil] at hg
  simp only [dateArm, leEncode_length, ne_eq, not_true_eq_false, hg, toI32_toU x (by omega), Types.day,
    wrap64_id (x * 86400000000) (by omega), days_mul, epoch1900_eq, Time.addDays]
  simp

/-! ### TIME / BIGTIME -/

theorem enc_time (tm : Time) (h : tm.ns < nsPerDay) :
    timeBytes tm 4 = .ok (leEncode 4 (toU 32 ((3 * ((tm.ns / 1000 : Nat) : Int) + 5000) / 10000))) := by
  have e : mkBytes 4 = some (zeros 4) := mkBytes_nat 4
  simp only [timeBytes, e, durationFromTime_eq tm h, microseconds, ms2f_nonneg _ (Int.natCast_nonneg _),
    putLE_zeros, ofOpt]

theorem dec_time (k : Nat) (hk : k < 2147483648) :
    timeArm (leEncode 4 k) =
      .ok (.time ⟨((10 * k / 3 * 1000000 / nsPerDay : Nat) : Int), 10 * k / 3 * 1000000 % nsPerDay⟩) := by
  have h1 : toI32 (leDecode (List.take 4 (leEncode 4 k))) = (k : Int) := by
    rw [take_self, leDecode_leEncode]; simp only [toI32]; omega
  simp only [timeArm, leEncode_length, h1, f2ms_nonneg _ (Int.natCast_nonneg _), milliseconds, Types.millisecond,
    tdiv_pos, mkDate_111, Time.add, nsPerDay]
  simp only [Nat.reduceEqDiff, if_false, if_true]
  rw [if_pos (by omega)]
  have e : (10 * (k : Int) / 3 * 1000) / 1000 = ((10 * k / 3 : Nat) : Int) := by omega
  rw [e]
  simp only [VOut.ok.injEq, Val.time.injEq, Time.mk.injEq]
  generalize 10 * k / 3 = q
  constructor <;> omega

theorem enc_bigtime (tm : Time) (h : tm.ns < nsPerDay) :
    bytes Types.BIGTIMEN (.time tm) 8 = .ok (leEncode 8 (tm.ns / 1000)) := by
  have e : mkBytes 8 = some (zeros 8) := mkBytes_nat 8
  have e2 : toU 64 ((tm.ns / 1000 : Nat) : Int) = tm.ns / 1000 := by
    have := us_lt tm h; simp only [toU]; omega
  rw [bytes_BIGTIMEN]
  simp only [e, durationFromTime_eq tm h, putLE_zeros, ofOpt, e2]

theorem dec_bigtime (u : Nat) (hu : u < 86400000000) :
    timeArm (leEncode 8 u) = .ok (.time ⟨0, u * 1000⟩) := by
  have h1 : leDecode (List.take 8 (leEncode 8 u)) = u := by
    rw [take_self, leDecode_leEncode]; omega
  simp only [timeArm, leEncode_length, h1, wrap64_id (u : Int) (by omega),
    wrap64_id ((u : Int) * 1000) (by omega), epochRataDie_eq]
  simp only [Nat.reduceEqDiff, if_false, if_true]
  rw [add_small 0 0 _ (by omega) (by omega)]
  simp only [VOut.ok.injEq, Val.time.injEq, Time.mk.injEq, true_and]
  omega

/-! ### DATETIME / SHORTDATE -/

theorem enc_datetime (tm : Time) (h : tm.ns < nsPerDay) (hy : -4000 ≤ tm.year) :
    dtBytes tm 8 = .ok (leEncode 4 (toU 32 (tm.day - 693595)) ++
      leEncode 4 (toU 32 ((3 * ((tm.ns / 1000 : Nat) : Int) + 5000) / 10000))) := by
  have e : mkBytes 8 = some (zeros 8) := mkBytes_nat 8
  simp only [dtBytes, e, dateTimeBytes, dfd_diff tm h hy, floorDays_split _ _ (us_lt tm h), microseconds, Types.day]
  have e3 : (tm.day - 693595) * 86400000000 + ((tm.ns / 1000 : Nat) : Int) - (tm.day - 693595) * 86400000000
      = ((tm.ns / 1000 : Nat) : Int) := by omega
  simp only [e3, ms2f_nonneg _ (Int.natCast_nonneg _)]
  simp

theorem dec_datetime (x : Int) (k : Nat) (hx : -100000000 < x ∧ x < 100000000) (hk : k < 4294967296) :
    dateTimeArm (leEncode 4 (toU 32 x) ++ leEncode 4 k) =
      .ok (.time (Time.add ⟨693595 + x, 0⟩ (((10 * k / 3 * 1000000 : Nat) : Int)))) := by
  have hl : (leEncode 4 (toU 32 x) ++ leEncode 4 k).length = 8 := by simp [leEncode_length]
  have h1 : leDecode (List.take 4 (leEncode 4 (toU 32 x) ++ leEncode 4 k)) = toU 32 x % 256 ^ 4 := by
    rw [take_leEncode, leDecode_leEncode]
  have h2 : leDecode (List.take 4 (List.drop 4 (leEncode 4 (toU 32 x) ++ leEncode 4 k))) = k := by
    rw [drop_leEncode, take_self, leDecode_leEncode]; omega
  simp only [dateTimeArm, hl, h1, h2, toI32_toU x (by omega), Types.day,
    wrap64_id (x * 86400000000) (by omega), days_mul, epoch1900_eq, Time.addDays,
    f2ms_nonneg _ (Int.natCast_nonneg _), microseconds]
  simp only [Nat.reduceEqDiff, if_false, if_true, VOut.ok.injEq, Val.time.injEq]
  have e5 : (10 * ((k : Nat) : Int) / 3 * 1000) * 1000 = ((10 * k / 3 * 1000000 : Nat) : Int) := by omega
  rw [e5]

theorem enc_shortdate (tm : Time) (h : tm.ns < nsPerDay) (hy : -4000 ≤ tm.year) :
    dtBytes tm 4 = .ok (leEncode 2 (toU 16 (tm.day - 693595)) ++
      leEncode 2 (toU 16 ((tm.ns / 60000000000 : Nat) : Int))) := by
  have e : mkBytes 4 = some (zeros 4) := mkBytes_nat 4
  simp only [dtBytes, e, dateTimeBytes, dfd_diff tm h hy, floorDays_split _ _ (us_lt tm h), microseconds, Types.day]
  have e3 : (tm.day - 693595) * 86400000000 + ((tm.ns / 1000 : Nat) : Int) - (tm.day - 693595) * 86400000000
      = ((tm.ns / 1000 : Nat) : Int) := by omega
  have e4 : minutes ((tm.ns / 1000 : Nat) : Int) = ((tm.ns / 60000000000 : Nat) : Int) := by
    simp only [minutes, Types.minute, tdiv_pos]; rw [if_pos (by omega)]; omega
  simp only [e3, e4]
  simp

theorem dec_shortdate (d m : Nat) (hd : d < 65536) (hm : m < 65536) :
    dateTimeArm (leEncode 2 d ++ leEncode 2 m) =
      .ok (.time (Time.add ⟨693595 + (d : Int), 0⟩ ((m : Int) * 60000000000))) := by
  have hl : (leEncode 2 d ++ leEncode 2 m).length = 4 := by simp [leEncode_length]
  have h1 : leDecode (List.take 2 (leEncode 2 d ++ leEncode 2 m)) = d := by
    rw [take_leEncode, leDecode_leEncode]; omega
  have h2 : leDecode (List.take 2 (List.drop 2 (leEncode 2 d ++ leEncode 2 m))) = m := by
    rw [drop_leEncode, take_self, leDecode_leEncode]; omega
  simp only [dateTimeArm, hl, h1, h2, epoch1900_eq, Time.addDays]
  simp

/-! ### BIGDATETIME -/

theorem enc_bigdatetime (tm : Time) (h : tm.ns < nsPerDay) (hd : 0 ≤ tm.day) (hd' : tm.day < 100000000) :
    bytes Types.BIGDATETIMEN (.time tm) 8 =
      .ok (leEncode 8 (((tm.day + 366) * 86400000000 + ((tm.ns / 1000 : Nat) : Int)).toNat)) := by
  have hy : -4000 ≤ tm.year := by
    have := year_pos_of_day_nonneg tm.day hd; simp only [Time.year]; omega
  have e : mkBytes 8 = some (zeros 8) := mkBytes_nat 8
  have hu := us_lt tm h
  have e2 : toU 64 ((tm.day + 366) * 86400000000 + ((tm.ns / 1000 : Nat) : Int))
      = ((tm.day + 366) * 86400000000 + ((tm.ns / 1000 : Nat) : Int)).toNat := by
    simp only [toU]; omega
  rw [bytes_BIGDATETIMEN]
  simp only [e, durationFromDateTime_eq tm h hy, putLE_zeros, ofOpt, e2]

theorem dec_bigdatetime (D : Int) (us : Nat) (hD : -366 ≤ D ∧ D < 100000000) (hus : us < 86400000000) :
    goValue Types.BIGDATETIMEN (leEncode 8 (((D + 366) * 86400000000 + (us : Int)).toNat)) =
      .ok (.time ⟨D, us * 1000⟩) := by
  have hg := getLE_leEncode 8 (((D + 366) * 86400000000 + (us : Int)).toNat) []
  rw [List.append_nil] at hg
  have hm : ((D + 366) * 86400000000 + (us : Int)).toNat % 256 ^ 8 = ((D + 366) * 86400000000 + (us : Int)).toNat := by
    omega
  have hw : wrap64 ((((D + 366) * 86400000000 + (us : Int)).toNat : Nat) : Int) = (D + 366) * 86400000000 + us := by
    simp only [wrap64]; omega
  rw [goValue_BIGDATETIMEN]
  rw [leEncode_length, if_neg (by decide), if_neg (by decide), hg, hm]
  show VOut.ok (.time _) = _
  rw [hw]
  have hc : 0 ≤ D + 366 ∨ us = 0 := by omega
  have e3 : (D + 366) * 86400000000 + (us : Int) - (D + 366) * 86400000000 = us := by omega
  rw [days_split _ _ hus, if_pos hc, dateYear0_eq]
  simp only [microseconds, Types.day, Time.addDays, e3]
  rw [show (-366 : Int) + (D + 366) = D by omega, add_small D 0 _ (by omega) (by omega)]
  simp only [VOut.ok.injEq, Val.time.injEq, Time.mk.injEq, true_and]
  omega

/-! ### MONEY -/

theorem enc_money8 (i : Int) (p s : Nat) :
    moneyBytes (.dec i p s) 8 =
      .ok (leEncode 4 (toU 32 (wrap64 i / 4294967296)) ++ leEncode 4 (toU 32 (wrap64 i))) := by
  have e : mkBytes 8 = some (zeros 8) := mkBytes_nat 8
  simp [moneyBytes, e]

theorem enc_money4 (i : Int) (p s : Nat) : moneyBytes (.dec i p s) 4 = .ok (leEncode 4 (toU 32 (wrap64 i))) := by
  have e : mkBytes 4 = some (zeros 4) := mkBytes_nat 4
  simp [moneyBytes, e]

theorem dec_money8 (a b : Nat) :
    moneyArm (leEncode 4 a ++ leEncode 4 b) =
      .ok (.dec (wrap64 (((a % 4294967296 : Nat) : Int) * 4294967296 + ((b % 4294967296 : Nat) : Int)))
        Types.aseMoneyPrecision Types.aseMoneyScale) := by
  have hl : (leEncode 4 a ++ leEncode 4 b).length = 8 := by simp [leEncode_length]
  have h1 : leDecode (List.take 4 (leEncode 4 a ++ leEncode 4 b)) = a % 4294967296 := by
    rw [take_leEncode, leDecode_leEncode]
  have h2 : leDecode (List.take 4 (List.drop 4 (leEncode 4 a ++ leEncode 4 b))) = b % 4294967296 := by
    rw [drop_leEncode, take_self, leDecode_leEncode]
  simp only [moneyArm, hl, h1, h2]
  simp

theorem dec_money4 (a : Nat) :
    moneyArm (leEncode 4 a) =
      .ok (.dec (toI32 (a % 256 ^ 4)) Types.aseShortMoneyPrecision Types.aseShortMoneyScale) := by
  simp only [moneyArm, leEncode_length, take_self, leDecode_leEncode]
  simp

end Dblib.Lemmas.ValueTemporal
