/-
Decimal digit-list theory for C16 (core Lean only).
-/
import Dblib.Model.Decimal

namespace Dblib.Lemmas.C16
open Dblib.Decimal

/-! ### characters -/

theorem digChar_toNat : ∀ d, d < 10 → (digChar d).toNat = 48 + d := by decide
theorem isDig_digChar : ∀ d, d < 10 → isDig (digChar d) = true := by decide
theorem digVal_digChar : ∀ d, d < 10 → digVal (digChar d) = d := by decide
theorem digChar_eq_zero : ∀ d, d < 10 → (digChar d = '0' ↔ d = 0) := by decide
theorem digVal_lt {c : Char} (h : isDig c = true) : digVal c < 10 := by
  simp only [isDig, Bool.and_eq_true, decide_eq_true_eq] at h
  simp only [digVal]; omega

theorem isDig_not_space {c : Char} (h : isDig c = true) : isSpace c = false := by
  simp only [isDig, Bool.and_eq_true, decide_eq_true_eq] at h
  simp only [isSpace, Bool.or_eq_false_iff, Bool.and_eq_false_iff, decide_eq_false_iff_not, beq_eq_false_iff_ne]
  omega

theorem isDig_ne_dot {c : Char} (h : isDig c = true) : c ≠ '.' := by
  intro e; subst e; exact absurd h (by decide)
theorem isDig_ne_minus {c : Char} (h : isDig c = true) : c ≠ '-' := by
  intro e; subst e; exact absurd h (by decide)
theorem isDig_ne_plus {c : Char} (h : isDig c = true) : c ≠ '+' := by
  intro e; subst e; exact absurd h (by decide)


/-- all characters are ASCII digits -/
def AllDig (l : Text) : Prop := ∀ c ∈ l, isDig c = true

instance (l : Text) : Decidable (AllDig l) := inferInstanceAs (Decidable (∀ c ∈ l, isDig c = true))

theorem allDig_iff (l : Text) : l.all isDig = true ↔ AllDig l := by
  simp [AllDig, List.all_eq_true]

theorem allDig_of_not_any {l : Text} (h : ¬ (l.any (fun c => !isDig c) = true)) : AllDig l := by
  intro c hc
  cases hd : isDig c with
  | true => rfl
  | false => exact absurd (List.any_eq_true.2 ⟨c, hc, by simp [hd]⟩) h

theorem not_any_of_allDig {l : Text} (h : AllDig l) : ¬ (l.any (fun c => !isDig c) = true) := by
  intro h'
  obtain ⟨c, hc, hn⟩ := List.any_eq_true.1 h'
  simp [h c hc] at hn

theorem AllDig.append {a b : Text} (ha : AllDig a) (hb : AllDig b) : AllDig (a ++ b) := by
  intro c hc; rcases List.mem_append.1 hc with h | h
  · exact ha c h
  · exact hb c h

theorem AllDig.left {a b : Text} (h : AllDig (a ++ b)) : AllDig a :=
  fun c hc => h c (List.mem_append_left _ hc)
theorem AllDig.right {a b : Text} (h : AllDig (a ++ b)) : AllDig b :=
  fun c hc => h c (List.mem_append_right _ hc)

/-! ### value of a digit string -/

theorem foldl_acc (l : Text) (acc : Nat) :
    l.foldl (fun a c => 10 * a + digVal c) acc = acc * 10 ^ l.length + ofDigits l := by
  induction l generalizing acc with
  | nil => simp [ofDigits]
  | cons c t ih =>
    simp only [List.foldl_cons, List.length_cons, ofDigits]
    rw [ih, ih (10 * 0 + digVal c)]
    simp only [Nat.pow_succ, Nat.mul_zero, Nat.zero_add, Nat.add_mul]
    rw [Nat.add_assoc]; congr 1
    rw [Nat.mul_comm 10 acc, Nat.mul_assoc, Nat.mul_comm 10]

theorem ofDigits_nil : ofDigits [] = 0 := rfl

theorem ofDigits_cons (c : Char) (t : Text) : ofDigits (c :: t) = digVal c * 10 ^ t.length + ofDigits t := by
  simp only [ofDigits, List.foldl_cons]
  rw [foldl_acc]; simp [ofDigits]

theorem ofDigits_append (a b : Text) : ofDigits (a ++ b) = ofDigits a * 10 ^ b.length + ofDigits b := by
  simp only [ofDigits, List.foldl_append]
  rw [foldl_acc]; rfl

theorem ofDigits_snoc (a : Text) (c : Char) : ofDigits (a ++ [c]) = ofDigits a * 10 + digVal c := by
  rw [ofDigits_append, ofDigits_cons]; simp [ofDigits_nil]

theorem ofDigits_replicate_zero (k : Nat) : ofDigits (List.replicate k '0') = 0 := by
  induction k with
  | zero => rfl
  | succ k ih => rw [List.replicate_succ, ofDigits_cons, ih]; simp [digVal]

theorem ofDigits_lt {l : Text} (h : AllDig l) : ofDigits l < 10 ^ l.length := by
  induction l with
  | nil => simp [ofDigits_nil]
  | cons c t ih =>
    rw [ofDigits_cons, List.length_cons, Nat.pow_succ]
    have h1 := ih (fun x hx => h x (List.mem_cons_of_mem _ hx))
    have h2 := digVal_lt (h c (by simp))
    have h3 : digVal c * 10 ^ t.length ≤ 9 * 10 ^ t.length := Nat.mul_le_mul_right _ (by omega)
    omega

/-! ### `natDigits` (big.nat.utoa) -/

theorem natDigits_lt {n : Nat} (h : n < 10) : natDigits n = [digChar n] := by
  rw [natDigits]; simp [h]

theorem natDigits_ge {n : Nat} (h : 10 ≤ n) : natDigits n = natDigits (n / 10) ++ [digChar (n % 10)] := by
  rw [natDigits]; simp [Nat.not_lt.2 h]

theorem natDigits_allDig (n : Nat) : AllDig (natDigits n) := by
  induction n using Nat.strongRecOn with
  | _ n ih =>
    by_cases h : n < 10
    · rw [natDigits_lt h]; intro c hc; simp at hc; subst hc; exact isDig_digChar n h
    · rw [natDigits_ge (by omega)]
      refine (ih (n / 10) (by omega)).append ?_
      intro c hc; simp at hc; subst hc; exact isDig_digChar _ (Nat.mod_lt _ (by omega))

theorem natDigits_ne_nil (n : Nat) : natDigits n ≠ [] := by
  by_cases h : n < 10
  · rw [natDigits_lt h]; simp
  · rw [natDigits_ge (by omega)]; simp

theorem ofDigits_natDigits (n : Nat) : ofDigits (natDigits n) = n := by
  induction n using Nat.strongRecOn with
  | _ n ih =>
    by_cases h : n < 10
    · rw [natDigits_lt h, ofDigits_cons, digVal_digChar n h]; simp [ofDigits_nil]
    · rw [natDigits_ge (by omega), ofDigits_snoc, ih (n / 10) (by omega),
        digVal_digChar _ (Nat.mod_lt _ (by omega))]
      omega

/-- no leading zero: the first digit of a positive number is not `0` -/
theorem natDigits_head (n : Nat) (hn : n ≠ 0) : ∃ c t, natDigits n = c :: t ∧ c ≠ '0' := by
  induction n using Nat.strongRecOn with
  | _ n ih =>
    by_cases h : n < 10
    · refine ⟨digChar n, [], natDigits_lt h, ?_⟩
      intro e; exact hn ((digChar_eq_zero n h).1 e)
    · obtain ⟨c, t, e, hc⟩ := ih (n / 10) (by omega) (by omega)
      exact ⟨c, t ++ [digChar (n % 10)], by rw [natDigits_ge (by omega), e]; rfl, hc⟩

theorem natDigits_zero : natDigits 0 = ['0'] := by rw [natDigits_lt (by omega)]; rfl

/-! ### fixed-width expansion (specification side) -/

/-- the `w` least significant decimal digits of `n`, most significant first -/
def fixed : Nat → Nat → Text
  | 0, _ => []
  | w + 1, n => fixed w (n / 10) ++ [digChar (n % 10)]

theorem fixed_length (w n : Nat) : (fixed w n).length = w := by
  induction w generalizing n with
  | zero => rfl
  | succ w ih => simp [fixed, ih]

theorem fixed_allDig (w n : Nat) : AllDig (fixed w n) := by
  induction w generalizing n with
  | zero => intro c hc; simp [fixed] at hc
  | succ w ih =>
    refine (ih (n / 10)).append ?_
    intro c hc; simp at hc; subst hc; exact isDig_digChar _ (Nat.mod_lt _ (by omega))

theorem ofDigits_fixed (w n : Nat) : ofDigits (fixed w n) = n % 10 ^ w := by
  induction w generalizing n with
  | zero => simp [fixed, ofDigits_nil, Nat.mod_one]
  | succ w ih =>
    rw [fixed, ofDigits_snoc, ih, digVal_digChar _ (Nat.mod_lt _ (by omega)), Nat.pow_succ,
      Nat.mul_comm (10 ^ w) 10, Nat.mod_mul]
    omega

theorem fixed_zero (w : Nat) : fixed w 0 = List.replicate w '0' := by
  induction w with
  | zero => rfl
  | succ w ih =>
    rw [fixed, Nat.zero_div, ih, List.replicate_succ']; rfl

/-- splitting the expansion at position `a`: quotient digits, then remainder digits -/
theorem fixed_split (a b n : Nat) : fixed (a + b) n = fixed a (n / 10 ^ b) ++ fixed b n := by
  induction b generalizing n with
  | zero => simp [fixed]
  | succ b ih =>
    rw [← Nat.add_assoc, fixed, ih, fixed, List.append_assoc, Nat.div_div_eq_div_mul, Nat.pow_succ,
      Nat.mul_comm 10]

/-- `%0ws` padding of the digits of a number below `10^w` is the fixed-width expansion -/
theorem fixed_eq_pad (w n : Nat) (hn : n ≠ 0) (h : n < 10 ^ w) :
    (natDigits n).length ≤ w ∧
      fixed w n = List.replicate (w - (natDigits n).length) '0' ++ natDigits n := by
  induction w generalizing n with
  | zero => simp at h; exact absurd h hn
  | succ w ih =>
    by_cases h10 : n < 10
    · rw [natDigits_lt h10, fixed, Nat.div_eq_of_lt h10, fixed_zero, Nat.mod_eq_of_lt h10]
      simp
    · have hq : n / 10 < 10 ^ w := by
        rw [Nat.pow_succ] at h; omega
      obtain ⟨hl, he⟩ := ih (n / 10) (by omega) hq
      rw [natDigits_ge (by omega), fixed, he]
      simp only [List.length_append, List.length_singleton, List.append_assoc]
      refine ⟨by omega, ?_⟩
      congr 2; omega

theorem zeroPad_natDigits (w n : Nat) (hw : 1 ≤ w) (h : n < 10 ^ w) :
    zeroPad w (natDigits n) = fixed w n := by
  by_cases hn : n = 0
  · subst hn
    rw [natDigits_zero, fixed_zero, zeroPad]
    obtain ⟨k, rfl⟩ : ∃ k, w = k + 1 := ⟨w - 1, by omega⟩
    simp [List.replicate_succ']
  · rw [zeroPad, (fixed_eq_pad w n hn h).2]


/-! ### trimming -/

theorem dropWhile_append_all {p : Char → Bool} {a : Text} (r : Text) (h : ∀ c ∈ a, p c = true) :
    (a ++ r).dropWhile p = r.dropWhile p := by
  induction a with
  | nil => rfl
  | cons x t ih =>
    have hx := h x (by simp)
    simp only [List.cons_append, List.dropWhile_cons, hx, if_true]
    exact ih (fun c hc => h c (List.mem_cons_of_mem _ hc))

theorem dropWhile_all {p : Char → Bool} {a : Text} (h : ∀ c ∈ a, p c = true) : a.dropWhile p = [] := by
  have := dropWhile_append_all (p := p) [] h
  simpa using this

theorem dropWhile_head {p : Char → Bool} (c : Char) (t : Text) (h : p c = false) :
    (c :: t).dropWhile p = c :: t := by
  simp [h]

theorem dropWhile_result {p : Char → Bool} {l : Text} {c : Char} {t : Text}
    (h : l.dropWhile p = c :: t) : p c = false := by
  induction l with
  | nil => simp at h
  | cons x r ih =>
    rw [List.dropWhile_cons] at h
    split at h
    · exact ih h
    · rename_i hx; simp only [List.cons.injEq] at h; rw [← h.1]; simpa using hx

theorem dropWhile_none {p : Char → Bool} {m : Text} (h : ∀ c ∈ m, p c = false) : m.dropWhile p = m := by
  cases m with
  | nil => rfl
  | cons x t => exact dropWhile_head x t (h x (by simp))

/-- `TrimSpace` removes exactly the surrounding white space of a text that contains none -/
theorem trimSpace_sandwich {a m b : Text} (ha : ∀ c ∈ a, isSpace c = true) (hb : ∀ c ∈ b, isSpace c = true)
    (hm : ∀ c ∈ m, isSpace c = false) : trimSpace (a ++ m ++ b) = m := by
  unfold trimSpace
  rw [List.append_assoc, dropWhile_append_all _ ha]
  cases m with
  | nil => simp [dropWhile_all hb]
  | cons x t =>
    rw [List.cons_append, dropWhile_head x _ (hm x (by simp)), ← List.cons_append, List.reverse_append,
      dropWhile_append_all _ (fun c hc => hb c (List.mem_reverse.1 hc)),
      dropWhile_none (fun c hc => hm c (List.mem_reverse.1 hc)), List.reverse_reverse]

theorem trimSpace_id {m : Text} (hm : ∀ c ∈ m, isSpace c = false) : trimSpace m = m := by
  have := trimSpace_sandwich (a := []) (b := []) (m := m) (by simp) (by simp) hm
  simpa using this

theorem mem_takeWhile {p : Char → Bool} {l : Text} {b : Char} (h : b ∈ l.takeWhile p) : p b = true := by
  induction l with
  | nil => simp at h
  | cons x t ih =>
    rw [List.takeWhile_cons] at h
    split at h
    · rename_i hx
      simp only [List.mem_cons] at h
      rcases h with rfl | h
      · exact hx
      · exact ih h
    · simp at h

theorem takeWhile_eq_replicate (l : Text) :
    l.takeWhile (· == '0') = List.replicate (l.takeWhile (· == '0')).length '0' := by
  rw [List.eq_replicate_iff]
  refine ⟨rfl, fun b hb => ?_⟩
  simpa using mem_takeWhile hb

/-- `TrimRight(l, "0")` removes a block of zeros and leaves a text not ending in `0` -/
theorem trimRight0_spec (l : Text) :
    ∃ k, l = trimRight0 l ++ List.replicate k '0' ∧
      ∀ c, (trimRight0 l).getLast? = some c → c ≠ '0' := by
  refine ⟨(l.reverse.takeWhile (· == '0')).length, ?_, ?_⟩
  · have h := List.takeWhile_append_dropWhile (p := (· == '0')) (l := l.reverse)
    have h2 := congrArg List.reverse h
    rw [List.reverse_append, List.reverse_reverse, takeWhile_eq_replicate, List.reverse_replicate] at h2
    exact h2.symm
  · intro c hc
    unfold trimRight0 at hc
    rw [List.getLast?_reverse] at hc
    cases hd : l.reverse.dropWhile (· == '0') with
    | nil => rw [hd] at hc; simp at hc
    | cons x t =>
      rw [hd] at hc; simp only [List.head?_cons, Option.some.injEq] at hc
      have := dropWhile_result hd
      subst hc; simpa using this

/-- every character is `0` (also true of the empty text) -/
def AllZero (l : Text) : Prop := ∀ c ∈ l, c = '0'

instance (l : Text) : Decidable (AllZero l) := inferInstanceAs (Decidable (∀ c ∈ l, c = '0'))

theorem trimRight0_allDig {F : Text} (h : AllDig F) : AllDig (trimRight0 F) := by
  obtain ⟨k, hk, _⟩ := trimRight0_spec F
  have h' : AllDig (trimRight0 F ++ List.replicate k '0') := by rw [← hk]; exact h
  exact h'.left

theorem trimRight0_eq_nil_iff (F : Text) : trimRight0 F = [] ↔ AllZero F := by
  constructor
  · intro h
    obtain ⟨k, hk, _⟩ := trimRight0_spec F
    rw [h, List.nil_append] at hk
    intro c hc; rw [hk] at hc; exact (List.mem_replicate.1 hc).2
  · intro h
    unfold trimRight0
    rw [dropWhile_all (fun c hc => by simp [h c (List.mem_reverse.1 hc)])]; rfl

/-- a text that does not end in `0` is left alone by `TrimRight(_, "0")` -/
theorem trimRight0_of_last {F : Text} (h : ∀ c, F.getLast? = some c → c ≠ '0') : trimRight0 F = F := by
  unfold trimRight0
  cases hr : F.reverse with
  | nil => simp [List.reverse_eq_nil_iff.1 hr]
  | cons x t =>
    have hx : F.getLast? = some x := by rw [← List.head?_reverse, hr]; rfl
    rw [dropWhile_head x t (by simpa using h x hx), ← hr, List.reverse_reverse]

/-- the trimmed fraction fits into `s` digits exactly when every digit beyond the `s`-th is a zero -/
theorem trimRight0_len_iff (s : Nat) (F : Text) : (trimRight0 F).length ≤ s ↔ AllZero (F.drop s) := by
  obtain ⟨k, hk, hlast⟩ := trimRight0_spec F
  constructor
  · intro hl c hc
    have hd : F.drop s = List.replicate (k - (s - (trimRight0 F).length)) '0' := by
      conv => lhs; rw [hk]
      rw [List.drop_append, List.drop_of_length_le hl, List.drop_replicate, List.nil_append]
    rw [hd] at hc; exact (List.mem_replicate.1 hc).2
  · intro hz
    apply Nat.le_of_not_lt
    intro hlt
    have hd : F.drop s = (trimRight0 F).drop s ++ List.replicate k '0' := by
      conv => lhs; rw [hk]
      rw [List.drop_append_of_le_length (Nat.le_of_lt hlt)]
    have hne : (trimRight0 F).getLast? ≠ none := by
      rw [Ne, List.getLast?_eq_none_iff]; intro e; rw [e] at hlt; simp at hlt
    cases hg : (trimRight0 F).getLast? with
    | none => exact hne hg
    | some c =>
      have h1 : ((trimRight0 F).drop s).getLast? = some c := by
        rw [List.getLast?_drop, if_neg (Nat.not_le.2 hlt), hg]
      have h2 : c ∈ F.drop s := by
        rw [hd]; exact List.mem_append_left _ (List.mem_of_getLast? h1)
      exact hlast c hg (hz c h2)

/-- reading the trimmed fraction scaled up to `s` digits is reading the first `s` fraction digits -/
theorem trimRight0_value (s : Nat) (I F : Text) (hl : (trimRight0 F).length ≤ s) :
    ofDigits (I ++ trimRight0 F) * 10 ^ (s - (trimRight0 F).length) =
      ofDigits (I ++ F.take s) * 10 ^ (s - (F.take s).length) := by
  obtain ⟨k, hk, _⟩ := trimRight0_spec F
  have ht : F.take s = trimRight0 F ++ List.replicate (min (s - (trimRight0 F).length) k) '0' := by
    conv => lhs; rw [hk]
    rw [List.take_append, List.take_of_length_le hl, List.take_replicate]
  rw [ht, ← List.append_assoc, ofDigits_append (I ++ trimRight0 F), ofDigits_replicate_zero, Nat.add_zero,
    List.length_replicate, List.length_append, List.length_replicate, Nat.mul_assoc, ← Nat.pow_add]
  congr 2
  omega

/-- the first `s` fraction digits, scaled, are the exact value when the digits beyond are zeros
(cross-multiplied: `scaled / 10^s = ofDigits (I ++ F) / 10^|F|`) -/
theorem take_value_exact (s : Nat) (I F : Text) (hz : AllZero (F.drop s)) :
    ofDigits (I ++ F.take s) * 10 ^ (s - (F.take s).length) * 10 ^ F.length = ofDigits (I ++ F) * 10 ^ s := by
  have hF : F = F.take s ++ F.drop s := (List.take_append_drop s F).symm
  have hd : F.drop s = List.replicate (F.drop s).length '0' := by
    rw [List.eq_replicate_iff]; exact ⟨rfl, hz⟩
  have hlen : F.length = (F.take s).length + (F.drop s).length := by
    conv => lhs; rw [hF]
    rw [List.length_append]
  have hv : ofDigits (I ++ F) = ofDigits (I ++ F.take s) * 10 ^ (F.drop s).length := by
    conv => lhs; rw [hF]
    rw [← List.append_assoc, ofDigits_append (I ++ F.take s), hd, ofDigits_replicate_zero, List.length_replicate,
      Nat.add_zero]
  have hts : (F.take s).length ≤ s := by simp [List.length_take]; omega
  rw [hv, hlen, Nat.mul_assoc, Nat.mul_assoc, ← Nat.pow_add, ← Nat.pow_add]
  congr 2
  omega

theorem trimLeft0_replicate (k : Nat) : trimLeft0 (List.replicate k '0') = [] :=
  dropWhile_all (by intro c hc; simp [List.mem_replicate] at hc; simp [hc.2])

theorem trimLeft0_pad (k : Nat) (c : Char) (t : Text) (hc : c ≠ '0') :
    trimLeft0 (List.replicate k '0' ++ c :: t) = c :: t := by
  unfold trimLeft0
  rw [dropWhile_append_all _ (by intro x hx; simp [List.mem_replicate] at hx; simp [hx.2])]
  exact dropWhile_head c t (by simpa using hc)

/-- `TrimLeft(.., "0")` of the fixed-width expansion, with the empty result replaced by `"0"`,
gives the digits without leading zeros -/
theorem orZero_trimLeft0_fixed (w m : Nat) (h : m < 10 ^ w) :
    orZero (trimLeft0 (fixed w m)) = natDigits m := by
  by_cases hm : m = 0
  · subst hm; rw [fixed_zero, trimLeft0_replicate, natDigits_zero]; rfl
  · obtain ⟨c, t, e, hc⟩ := natDigits_head m hm
    rw [(fixed_eq_pad w m hm h).2, e, trimLeft0_pad _ c t hc]
    simp [orZero]

/-! ### `strings.Split(_, ".")` -/

def NoDot (l : Text) : Prop := ∀ c ∈ l, c ≠ '.'

instance (l : Text) : Decidable (NoDot l) := inferInstanceAs (Decidable (∀ c ∈ l, c ≠ '.'))

theorem splitOn_ne_nil (l : Text) : splitOn '.' l ≠ [] := by
  cases l with
  | nil => simp [splitOn]
  | cons c t => simp only [splitOn]; split <;> simp

theorem splitOn_noDot {a : Text} (h : NoDot a) : splitOn '.' a = [a] := by
  induction a with
  | nil => rfl
  | cons c t ih =>
    have hc : c ≠ '.' := h c (by simp)
    have := ih (fun x hx => h x (List.mem_cons_of_mem _ hx))
    simp [splitOn, hc, this]

theorem splitOn_append {a : Text} (b : Text) (h : NoDot a) :
    splitOn '.' (a ++ '.' :: b) = a :: splitOn '.' b := by
  induction a with
  | nil => simp [splitOn]
  | cons c t ih =>
    have hc : c ≠ '.' := h c (by simp)
    have := ih (fun x hx => h x (List.mem_cons_of_mem _ hx))
    simp [splitOn, hc, this]

theorem dot_cases (l : Text) : NoDot l ∨ ∃ a b, NoDot a ∧ l = a ++ '.' :: b := by
  induction l with
  | nil => left; intro c hc; simp at hc
  | cons c t ih =>
    by_cases hc : c = '.'
    · right; exact ⟨[], t, by intro x hx; simp at hx, by simp [hc]⟩
    · rcases ih with h | ⟨a, b, ha, e⟩
      · left; intro x hx; simp at hx; rcases hx with rfl | hx
        · exact hc
        · exact h x hx
      · right; refine ⟨c :: a, b, ?_, by simp [e]⟩
        intro x hx; simp at hx; rcases hx with rfl | hx
        · exact hc
        · exact ha x hx

/-- the three possible shapes of the result of `Split` -/
theorem splitOn_cases (l : Text) :
    (NoDot l ∧ splitOn '.' l = [l]) ∨
    (∃ a b, NoDot a ∧ NoDot b ∧ l = a ++ '.' :: b ∧ splitOn '.' l = [a, b]) ∨
    (∃ x y z r, splitOn '.' l = x :: y :: z :: r) := by
  rcases dot_cases l with h | ⟨a, b, ha, e⟩
  · exact Or.inl ⟨h, splitOn_noDot h⟩
  · right
    rcases dot_cases b with hb | ⟨b1, b2, hb1, e2⟩
    · left; exact ⟨a, b, ha, hb, e, by rw [e, splitOn_append _ ha, splitOn_noDot hb]⟩
    · right
      cases hs : splitOn '.' b2 with
      | nil => exact absurd hs (splitOn_ne_nil _)
      | cons z r =>
        exact ⟨a, b1, z, r, by rw [e, splitOn_append _ ha, e2, splitOn_append _ hb1, hs]⟩

/-! ### `big.Int.SetString(_, 10)` -/

/-- optional sign of a numeral -/
def IsSign (sg : Text) : Prop := sg = [] ∨ sg = ['+'] ∨ sg = ['-']

instance (sg : Text) : Decidable (IsSign sg) := inferInstanceAs (Decidable (sg = [] ∨ sg = ['+'] ∨ sg = ['-']))

def signVal (sg : Text) : Int := if sg = ['-'] then -1 else 1

theorem bigIntSetString_digits {d : Text} (hd : AllDig d) (hne : d ≠ []) :
    bigIntSetString d = some (ofDigits d : Int) := by
  cases d with
  | nil => exact absurd rfl hne
  | cons c t =>
    have hc := hd c (by simp)
    have hall : (c :: t).all isDig = true := (allDig_iff _).2 hd
    simp only [bigIntSetString, isDig_ne_minus hc, isDig_ne_plus hc, if_false, hall, if_true]

theorem bigIntSetString_sign {sg d : Text} (hs : IsSign sg) (hd : AllDig d) (hne : d ≠ []) :
    bigIntSetString (sg ++ d) = some (signVal sg * (ofDigits d : Int)) := by
  have hall : d.all isDig = true := (allDig_iff _).2 hd
  rcases hs with rfl | rfl | rfl
  · simp [signVal, bigIntSetString_digits hd hne]
  · simp [bigIntSetString, signVal, hne, hall]
  · simp [bigIntSetString, signVal, hne, hall]

theorem bigIntSetString_sound {l : Text} {v : Int} (h : bigIntSetString l = some v) :
    ∃ sg d, IsSign sg ∧ l = sg ++ d ∧ AllDig d ∧ d ≠ [] ∧ v = signVal sg * (ofDigits d : Int) := by
  cases l with
  | nil => simp [bigIntSetString] at h
  | cons c r =>
    simp only [bigIntSetString] at h
    split at h
    · rename_i hc
      split at h
      · rename_i hr
        refine ⟨['-'], r, Or.inr (Or.inr rfl), by simp [hc], (allDig_iff _).1 hr.2, hr.1, ?_⟩
        simp only [Option.some.injEq] at h; simp [signVal, ← h]
      · simp at h
    · split at h
      · rename_i hc
        split at h
        · rename_i hr
          refine ⟨['+'], r, Or.inr (Or.inl rfl), by simp [hc], (allDig_iff _).1 hr.2, hr.1, ?_⟩
          simp only [Option.some.injEq] at h; simp [signVal, ← h]
        · simp at h
      · split at h
        · rename_i hr
          refine ⟨[], c :: r, Or.inl rfl, rfl, (allDig_iff _).1 hr, by simp, ?_⟩
          simp only [Option.some.injEq] at h; simp [signVal, ← h]
        · simp at h

end Dblib.Lemmas.C16
