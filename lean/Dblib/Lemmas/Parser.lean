/-
Closure lemmas for the incremental-parsing law `Incr` (`Model/Parser.lean`): the primitives
satisfy it and it is preserved by `bind`, so every decoder written in the parser monad satisfies
it by construction along its syntax.
-/
import Dblib.Model.Parser

namespace Dblib
open P

theorem incr_pure (a : α) : Incr (Pure.pure a : P α) := by
  intro s b n h
  simp only [Pure.pure, P.pure] at h
  injection h with h1 h2
  subst h1; subst h2
  exact ⟨Nat.zero_le _, fun t => rfl, fun k hk => absurd hk (Nat.not_lt_zero _)⟩

theorem incr_fail : Incr (P.fail : P α) := by
  intro s a n h; simp [P.fail] at h

theorem incr_crash : Incr (P.crash : P α) := by
  intro s a n h; simp [P.crash] at h

theorem incr_take (k : Nat) : Incr (P.take k) := by
  intro s a n h
  unfold P.take at h
  split at h
  · rename_i hk
    injection h with h1 h2
    subst h2
    refine ⟨hk, ?_, ?_⟩
    · intro t
      unfold P.take
      have : k ≤ (s.take k ++ t).length := by simp [List.length_take]; omega
      simp only [this, if_true]
      rw [List.take_append_of_le_length (by simp [List.length_take]; omega)]
      rw [List.take_take, Nat.min_self, h1]
    · intro j hj
      unfold P.take
      have : ¬ k ≤ (s.take j).length := by simp [List.length_take]; omega
      rw [if_neg this]
  · simp at h

theorem incr_takeInt (n : Int) : Incr (P.takeInt n) := by
  unfold P.takeInt; split
  · exact incr_crash
  · exact incr_take _

theorem incr_u8 : Incr P.u8 := by
  intro s a n h
  unfold P.u8 at h
  cases s with
  | nil => simp at h
  | cons b rest =>
    simp only at h
    injection h with h1 h2
    subst h2
    refine ⟨by simp, fun t => by simp [P.u8, h1], ?_⟩
    intro k hk
    have : k = 0 := by omega
    subst this; simp [P.u8]

theorem incr_bind {p : P α} {f : α → P β} (hp : Incr p) (hf : ∀ a, Incr (f a)) :
    Incr (p >>= f) := by
  intro s b nm h
  simp only [Bind.bind, P.bind] at h
  cases hps : p s with
  | notEnough => simp [hps] at h
  | err e => simp [hps] at h
  | panic => simp [hps] at h
  | ok a n =>
    simp only [hps] at h
    cases hfs : f a (s.drop n) with
    | notEnough => simp [hfs] at h
    | err e => simp [hfs] at h
    | panic => simp [hfs] at h
    | ok b' m =>
      simp only [hfs] at h
      injection h with h1 h2
      subst h1; subst h2
      obtain ⟨pn, pstab, pshort⟩ := hp s a n hps
      obtain ⟨fm, fstab, fshort⟩ := hf a (s.drop n) b' m hfs
      simp only [List.length_drop] at fm
      refine ⟨by omega, ?_, ?_⟩
      · intro t
        have hsplit : s.take (n + m) ++ t = s.take n ++ ((s.drop n).take m ++ t) := by
          rw [← List.append_assoc, List.take_add]
        simp only [Bind.bind, P.bind]
        rw [hsplit, pstab]
        have hd : (s.take n ++ ((s.drop n).take m ++ t)).drop n = (s.drop n).take m ++ t := by
          rw [List.drop_append_of_le_length (by simp [List.length_take]; omega)]
          rw [List.drop_of_length_le (by simp [List.length_take]; omega)]
          simp
        simp only [hd, fstab]
      · intro k hk
        simp only [Bind.bind, P.bind]
        by_cases hkn : k < n
        · rw [pshort k hkn]
        · have hk' : s.take k = s.take n ++ (s.drop n).take (k - n) := by
            have : k = n + (k - n) := by omega
            conv => lhs; rw [this, List.take_add]
          rw [hk', pstab]
          have hd : (s.take n ++ (s.drop n).take (k - n)).drop n = (s.drop n).take (k - n) := by
            rw [List.drop_append_of_le_length (by simp [List.length_take]; omega)]
            rw [List.drop_of_length_le (by simp [List.length_take]; omega)]
            simp
          simp only [hd, fshort (k - n) (by omega)]

theorem incr_map {p : P α} (g : α → β) (hp : Incr p) : Incr (do let a ← p; return g a) :=
  incr_bind hp (fun a => incr_pure (g a))

theorem incr_uintLE (w : Nat) : Incr (P.uintLE w) :=
  incr_bind (incr_take w) (fun _ => incr_pure _)

theorem incr_u16 : Incr P.u16 := incr_uintLE 2
theorem incr_u32 : Incr P.u32 := incr_uintLE 4
theorem incr_u64 : Incr P.u64 := incr_uintLE 8

theorem incr_intLE (w : Nat) : Incr (P.intLE w) :=
  incr_bind (incr_uintLE w) (fun _ => incr_pure _)

theorem incr_ite {c : Prop} [Decidable c] {p q : P α} (hp : Incr p) (hq : Incr q) :
    Incr (if c then p else q) := by split <;> assumption

theorem incr_guard (c : Bool) : Incr (P.guard c) := by
  unfold P.guard; split
  · exact incr_pure ()
  · exact incr_fail

theorem incr_replicateM (k : Nat) {p : P α} (hp : Incr p) : Incr (P.replicateM k p) := by
  induction k with
  | zero => exact incr_pure _
  | succ k ih =>
    exact incr_bind hp (fun a => incr_bind ih (fun as => incr_pure _))

theorem incr_sequence (ps : List (P α)) (h : ∀ p ∈ ps, Incr p) : Incr (P.sequence ps) := by
  induction ps with
  | nil => exact incr_pure _
  | cons p ps ih =>
    exact incr_bind (h p (by simp)) (fun a =>
      incr_bind (ih (fun q hq => h q (by simp [hq]))) (fun as => incr_pure _))

/-- C07 for any `Incr` decoder: every proper prefix of what a successful parse consumed is
"not enough bytes", and parsing the complete bytes again gives the same result. -/
theorem incr_prefix_not_enough {p : P α} (hp : Incr p) (enc rest : Bytes) (a : α)
    (h : p (enc ++ rest) = .ok a enc.length) :
    (∀ k, k < enc.length → p (enc.take k) = .notEnough) ∧ p enc = .ok a enc.length := by
  obtain ⟨_, stab, short⟩ := hp _ _ _ h
  constructor
  · intro k hk
    have := short k hk
    rwa [List.take_append_of_le_length (by omega)] at this
  · have := stab []
    simpa using this

end Dblib
