/-
Helper lemmas for Props/C17: totality of the simple-form parser, fuel irrelevance, sequential
composition, parsing of one well-formed entry.
-/
import Dblib.Model.Dsn

namespace Dblib.Lemmas.C17
open Dblib Dblib.Dsn

/-! ### splitOn / index2 / splitFirst -/

theorem splitOn_ne_nil (sep : UInt8) (s : Str) : splitOn sep s ≠ [] := by
  induction s with
  | nil => simp [splitOn]
  | cons c cs ih =>
    simp only [splitOn]
    split
    · simp
    · split <;> simp

theorem splitOn_append (sep : UInt8) (a b' : Str) :
    splitOn sep (a ++ sep :: b') = splitOn sep a ++ splitOn sep b' := by
  induction a with
  | nil => simp [splitOn]
  | cons c cs ih =>
    simp only [List.cons_append, splitOn]
    split
    · simp [ih]
    · rw [ih]
      cases h : splitOn sep cs with
      | nil => exact absurd h (splitOn_ne_nil sep cs)
      | cons p ps => simp

theorem splitOn_nosep (sep : UInt8) (a : Str) (h : sep ∉ a) : splitOn sep a = [a] := by
  induction a with
  | nil => simp [splitOn]
  | cons c cs ih =>
    simp only [List.mem_cons, not_or] at h
    simp only [splitOn]
    rw [if_neg (fun e => h.1 e.symm), ih h.2]

theorem splitOn_prefix (sep : UInt8) (a : Str) (h : sep ∉ a) (s : Str) (r0 : Str) (rs : List Str)
    (hs : splitOn sep s = r0 :: rs) : splitOn sep (a ++ s) = (a ++ r0) :: rs := by
  induction a with
  | nil => simpa using hs
  | cons c cs ih =>
    simp only [List.mem_cons, not_or] at h
    simp only [List.cons_append, splitOn]
    rw [if_neg (fun e => h.1 e.symm), ih h.2]

theorem splitOn_mem (sep : UInt8) (s : Str) : ∀ t ∈ splitOn sep s, ∀ x ∈ t, x ∈ s := by
  induction s with
  | nil => simp [splitOn]
  | cons c cs ih =>
    intro t ht x hx
    simp only [splitOn] at ht
    split at ht
    · simp only [List.mem_cons] at ht
      rcases ht with rfl | ht
      · simp at hx
      · exact List.mem_cons_of_mem _ (ih t ht x hx)
    · cases h : splitOn sep cs with
      | nil => exact absurd h (splitOn_ne_nil sep cs)
      | cons p ps =>
        rw [h] at ht ih
        simp only [List.mem_cons] at ht
        rcases ht with rfl | ht
        · simp only [List.mem_cons] at hx
          rcases hx with rfl | hx
          · simp
          · exact List.mem_cons_of_mem _ (ih p (by simp) x hx)
        · exact List.mem_cons_of_mem _ (ih t (by simp [ht]) x hx)

theorem index2_none_of_not_mem (x y : UInt8) (l : Str) (h : y ∉ l) : index2 x y l = none := by
  induction l with
  | nil => simp [index2]
  | cons c cs ih =>
    cases cs with
    | nil => simp [index2]
    | cons d rest =>
      simp only [List.mem_cons, not_or] at h
      simp only [index2]
      rw [if_neg (fun e => h.2.1 e.2.symm)]
      rw [ih (by simp only [List.mem_cons, not_or]; exact ⟨h.2.1, h.2.2⟩)]
      rfl

theorem index2_cons_ne (x y c : UInt8) (t : Str) (h : c ≠ x) :
    index2 x y (c :: t) = (index2 x y t).map (· + 1) := by
  cases t with
  | nil => simp [index2]
  | cons d rest =>
    simp only [index2]
    rw [if_neg (fun e => h e.1)]

theorem index2_prefix (x y : UInt8) (k r : Str) (h : x ∉ k) :
    index2 x y (k ++ x :: y :: r) = some k.length := by
  induction k with
  | nil => simp [index2]
  | cons c cs ih =>
    simp only [List.mem_cons, not_or] at h
    rw [List.cons_append, index2_cons_ne x y c _ (fun e => h.1 e.symm), ih h.2]
    simp

theorem splitFirst_prefix (sep : UInt8) (k r : Str) (h : sep ∉ k) :
    splitFirst sep (k ++ sep :: r) = some (k, r) := by
  induction k with
  | nil => simp [splitFirst]
  | cons c cs ih =>
    simp only [List.mem_cons, not_or] at h
    simp only [List.cons_append, splitFirst]
    rw [if_neg (fun e => h.1 e.symm), ih h.2]

theorem splitFirst_none (sep : UInt8) (s : Str) (h : sep ∉ s) : splitFirst sep s = none := by
  induction s with
  | nil => rfl
  | cons c cs ih =>
    simp only [List.mem_cons, not_or] at h
    simp only [splitFirst]
    rw [if_neg (fun e => h.1 e.symm), ih h.2]

/-! ### no panic -/

theorem needMore_ne_none (start : Nat) (q : UInt8) (part : Str) : needMore start q part ≠ none := by
  unfold needMore
  split
  · simp
  · rename_i h
    cases hl : part.getLast? with
    | none =>
      rw [List.getLast?_eq_none_iff] at hl
      subst hl
      simp at h
    | some c => simp

theorem joinLoop_ne_panic (start : Nat) (q : UInt8) (part : Str) (rest : List Str) :
    joinLoop start q part rest ≠ .panic := by
  induction rest generalizing part with
  | nil =>
    unfold joinLoop
    cases h : needMore start q part with
    | none => exact absurd h (needMore_ne_none _ _ _)
    | some bb => cases bb <;> simp
  | cons r rest ih =>
    unfold joinLoop
    cases h : needMore start q part with
    | none => exact absurd h (needMore_ne_none _ _ _)
    | some bb =>
      cases bb
      · simp
      · simpa using ih _

theorem joinQuoted_ne_panic (part : Str) (rest : List Str) : joinQuoted part rest ≠ .panic := by
  unfold joinQuoted
  split
  · exact joinLoop_ne_panic _ _ _ _
  · split
    · exact joinLoop_ne_panic _ _ _ _
    · simp

theorem joinLoop_length (start : Nat) (q : UInt8) (part : Str) (rest : List Str) (p' : Str) (r' : List Str)
    (h : joinLoop start q part rest = .done p' r') : r'.length ≤ rest.length := by
  induction rest generalizing part with
  | nil =>
    unfold joinLoop at h
    cases hn : needMore start q part with
    | none => simp [hn] at h
    | some bb =>
      cases bb
      · simp only [hn, Join.done.injEq] at h
        rw [← h.2]; exact Nat.le_refl _
      · simp [hn] at h
  | cons r rest ih =>
    unfold joinLoop at h
    cases hn : needMore start q part with
    | none => simp [hn] at h
    | some bb =>
      cases bb
      · simp only [hn, Join.done.injEq] at h
        rw [← h.2]; exact Nat.le_refl _
      · simp only [hn] at h
        have := ih _ h
        simp only [List.length_cons]; omega

theorem joinQuoted_length (part : Str) (rest : List Str) (p' : Str) (r' : List Str)
    (h : joinQuoted part rest = .done p' r') : r'.length ≤ rest.length := by
  unfold joinQuoted at h
  split at h
  · exact joinLoop_length _ _ _ _ _ _ h
  · split at h
    · exact joinLoop_length _ _ _ _ _ _ h
    · simp only [Join.done.injEq] at h
      rw [← h.2]; exact Nat.le_refl _

theorem slice_strip (v : Str) (h : 2 ≤ v.length) : slice v 1 (v.length - 1) ≠ none := by
  unfold slice
  rw [if_pos ⟨by omega, by omega⟩]
  simp

theorem stripQuote_ne_none (q : UInt8) (v : Str) : stripQuote q v ≠ none := by
  unfold stripQuote
  split
  · rename_i h
    cases v with
    | nil => simp at h
    | cons c cs =>
      cases hl : (c :: cs).getLast? with
      | none => simp [List.getLast?_eq_none_iff] at hl
      | some l =>
        simp only [List.head?_cons]
        split
        · exact slice_strip _ h
        · simp
  · simp

theorem stripQuotes_ne_none (v : Str) : stripQuotes v ≠ none := by
  unfold stripQuotes
  split
  · simp
  · cases h : stripQuote SQ v with
    | none => exact absurd h (stripQuote_ne_none _ _)
    | some v' => simpa using stripQuote_ne_none DQ v'

theorem processPart_ne_panic (tbl : Table) (st : Fields) (part : Str) :
    processPart tbl st part ≠ .panic := by
  unfold processPart
  cases splitFirst EQ part with
  | none => simp
  | some kv =>
    obtain ⟨key, value⟩ := kv
    simp only
    cases h : stripQuotes value with
    | none => exact absurd h (stripQuotes_ne_none _)
    | some v =>
      simp only
      cases tbl.lookup key with
      | none => simp
      | some i =>
        simp only
        cases setValue st i v <;> simp

theorem parseLoop_ne_panic (tbl : Table) (fuel : Nat) (parts : List Str) (st : Fields)
    (h : parts.length ≤ fuel) : parseLoop tbl fuel parts st ≠ .panic := by
  induction fuel generalizing parts st with
  | zero =>
    cases parts with
    | nil => simp [parseLoop]
    | cons p ps => simp at h
  | succ f ih =>
    cases parts with
    | nil => simp [parseLoop]
    | cons p ps =>
      simp only [parseLoop]
      cases hj : joinQuoted p ps with
      | panic => exact absurd hj (joinQuoted_ne_panic _ _)
      | unterminated => simp
      | done p' r' =>
        simp only
        have hl := joinQuoted_length _ _ _ _ hj
        cases hp : processPart tbl st p' with
        | panic => exact absurd hp (processPart_ne_panic _ _ _)
        | err => simp
        | ok st' =>
          simp only
          apply ih
          simp only [List.length_cons] at h; omega

/-! ### fuel irrelevance, one-step unfolding -/

theorem parseLoop_fuel (tbl : Table) (f f' : Nat) (parts : List Str) (st : Fields)
    (h : parts.length ≤ f) (h' : parts.length ≤ f') :
    parseLoop tbl f parts st = parseLoop tbl f' parts st := by
  induction f generalizing f' parts st with
  | zero =>
    cases parts with
    | nil => cases f' <;> simp [parseLoop]
    | cons p ps => simp at h
  | succ f ih =>
    cases parts with
    | nil => cases f' <;> simp [parseLoop]
    | cons p ps =>
      cases f' with
      | zero => simp at h'
      | succ f' =>
        simp only [parseLoop]
        cases hj : joinQuoted p ps with
        | panic => rfl
        | unterminated => rfl
        | done p' r' =>
          simp only
          have hl := joinQuoted_length _ _ _ _ hj
          cases hp : processPart tbl st p' with
          | panic => rfl
          | err => rfl
          | ok st' =>
            simp only
            simp only [List.length_cons] at h h'
            exact ih _ _ _ (by omega) (by omega)

/-- the parser with exactly the fuel `parseSimple` gives it -/
def P (tbl : Table) (parts : List Str) (st : Fields) : Outcome := parseLoop tbl parts.length parts st

theorem parseSimple_eq_P (specs : List Spec) (st : Fields) (s : Str) :
    parseSimple specs st s = P (mkTable specs) (splitOn SP s) st := rfl

theorem P_nil (tbl : Table) (st : Fields) : P tbl [] st = .ok st := by simp [P, parseLoop]

theorem P_cons (tbl : Table) (part : Str) (rest : List Str) (st : Fields) :
    P tbl (part :: rest) st =
      match joinQuoted part rest with
      | .panic => .panic
      | .unterminated => .err
      | .done p r =>
        match processPart tbl st p with
        | .ok st' => P tbl r st'
        | o => o := by
  simp only [P, List.length_cons, parseLoop]
  cases hj : joinQuoted part rest with
  | panic => rfl
  | unterminated => rfl
  | done p' r' =>
    simp only
    have hl := joinQuoted_length _ _ _ _ hj
    cases hp : processPart tbl st p' with
    | panic => rfl
    | err => rfl
    | ok st' => exact parseLoop_fuel _ _ _ _ _ hl (Nat.le_refl _)

theorem P_cons_done (tbl : Table) (part : Str) (rest : List Str) (st st' : Fields) (p : Str) (r : List Str)
    (hj : joinQuoted part rest = .done p r) (hp : processPart tbl st p = .ok st') :
    P tbl (part :: rest) st = P tbl r st' := by
  rw [P_cons, hj]; simp only [hp]

theorem P_ne_panic (tbl : Table) (parts : List Str) (st : Fields) : P tbl parts st ≠ .panic :=
  parseLoop_ne_panic _ _ _ _ (Nat.le_refl _)

/-! ### sequential composition -/

theorem joinLoop_false (start : Nat) (q : UInt8) (part : Str) (rest : List Str)
    (hn : needMore start q part = some false) : joinLoop start q part rest = .done part rest := by
  unfold joinLoop; simp only [hn]

theorem joinLoop_true_cons (start : Nat) (q : UInt8) (part r : Str) (rest : List Str)
    (hn : needMore start q part = some true) :
    joinLoop start q part (r :: rest) = joinLoop start q (part ++ SP :: r) rest := by
  rw [joinLoop]; simp only [hn]

theorem joinLoop_true_nil (start : Nat) (q : UInt8) (part : Str)
    (hn : needMore start q part = some true) : joinLoop start q part [] = .unterminated := by
  unfold joinLoop; simp only [hn]

theorem joinLoop_append (start : Nat) (q : UInt8) (part : Str) (rest x : List Str) (p' : Str) (r' : List Str)
    (h : joinLoop start q part rest = .done p' r') :
    joinLoop start q part (rest ++ x) = .done p' (r' ++ x) := by
  induction rest generalizing part with
  | nil =>
    cases hn : needMore start q part with
    | none => unfold joinLoop at h; simp [hn] at h
    | some bb =>
      cases bb
      · rw [joinLoop_false _ _ _ _ hn] at h
        simp only [Join.done.injEq] at h
        obtain ⟨rfl, rfl⟩ := h
        exact joinLoop_false _ _ _ _ hn
      · rw [joinLoop_true_nil _ _ _ hn] at h; simp at h
  | cons r rest ih =>
    cases hn : needMore start q part with
    | none => unfold joinLoop at h; simp [hn] at h
    | some bb =>
      cases bb
      · rw [joinLoop_false _ _ _ _ hn] at h
        simp only [Join.done.injEq] at h
        obtain ⟨rfl, rfl⟩ := h
        exact joinLoop_false _ _ _ _ hn
      · rw [joinLoop_true_cons _ _ _ _ _ hn] at h
        rw [List.cons_append, joinLoop_true_cons _ _ _ _ _ hn]
        exact ih _ h

theorem joinQuoted_append (part : Str) (rest x : List Str) (p' : Str) (r' : List Str)
    (h : joinQuoted part rest = .done p' r') :
    joinQuoted part (rest ++ x) = .done p' (r' ++ x) := by
  unfold joinQuoted at h ⊢
  split at h
  · exact joinLoop_append _ _ _ _ _ _ _ h
  · split at h
    · exact joinLoop_append _ _ _ _ _ _ _ h
    · simp only [Join.done.injEq] at h
      simp [h.1, ← h.2]

theorem P_append (tbl : Table) (p1 p2 : List Str) (st st1 : Fields)
    (h : P tbl p1 st = .ok st1) : P tbl (p1 ++ p2) st = P tbl p2 st1 := by
  generalize hn : p1.length = n
  induction n using Nat.strongRecOn generalizing p1 st with
  | _ n ih =>
    cases p1 with
    | nil =>
      rw [P_nil] at h
      simp only [Outcome.ok.injEq] at h
      simp [h]
    | cons part rest =>
      rw [P_cons] at h
      rw [List.cons_append, P_cons]
      cases hj : joinQuoted part rest with
      | panic => simp [hj] at h
      | unterminated => simp [hj] at h
      | done p' r' =>
        rw [joinQuoted_append _ _ p2 _ _ hj]
        simp only [hj] at h ⊢
        have hl := joinQuoted_length _ _ _ _ hj
        cases hp : processPart tbl st p' with
        | panic => simp [hp] at h
        | err => simp [hp] at h
        | ok st' =>
          simp only [hp] at h ⊢
          exact ih r'.length (by simp only [List.length_cons] at hn; omega) r' st' h rfl

/-! ### one well-formed entry -/

/-- a key that can be written in the simple form: no `=`, space or quotation mark -/
def KeyOK (k : Str) : Prop := EQ ∉ k ∧ SP ∉ k ∧ SQ ∉ k ∧ DQ ∉ k

instance (k : Str) : Decidable (KeyOK k) := by unfold KeyOK; exact inferInstance

theorem needMore_true (start : Nat) (acc : Str) (h1 : start + 2 ≤ acc.length)
    (h2 : start + 3 ≤ acc.length → acc.getLast? ≠ some DQ) : needMore start DQ acc = some true := by
  unfold needMore
  split
  · rfl
  · rename_i h
    have h3 := h2 (by omega)
    cases hl : acc.getLast? with
    | none =>
      rw [List.getLast?_eq_none_iff] at hl
      subst hl; simp at h1
    | some c =>
      rw [hl] at h3
      simp only [Option.some.injEq, bne_iff_ne, ne_eq]
      intro e; exact h3 (by rw [e])

theorem joinLoop_split (start : Nat) (more : List Str) (w : Str) (hw : DQ ∉ w) :
    ∀ (acc : Str), start + 2 ≤ acc.length → (start + 3 ≤ acc.length → acc.getLast? ≠ some DQ) →
    ∀ (r0 : Str) (rs : List Str), splitOn SP (w ++ [DQ]) = r0 :: rs →
    joinLoop start DQ (acc ++ r0) (rs ++ more) = .done (acc ++ w ++ [DQ]) more := by
  induction w with
  | nil =>
    intro acc h1 _ r0 rs hs
    have : splitOn SP ([] ++ [DQ]) = [[DQ]] := by decide
    rw [this] at hs
    simp only [List.cons.injEq] at hs
    obtain ⟨rfl, rfl⟩ := hs
    simp only [List.nil_append, List.append_nil]
    apply joinLoop_false
    unfold needMore
    rw [if_neg (by simp only [List.length_append, List.length_cons, List.length_nil]; omega)]
    simp
  | cons c w ih =>
    intro acc h1 h2 r0 rs hs
    simp only [List.mem_cons, not_or] at hw
    have ih := ih hw.2
    simp only [List.cons_append, splitOn] at hs
    cases hsp : splitOn SP (w ++ [DQ]) with
    | nil => exact absurd hsp (splitOn_ne_nil _ _)
    | cons r0' rs' =>
      rw [hsp] at hs
      by_cases hc : c = SP
      · rw [if_pos hc] at hs
        simp only [List.cons.injEq] at hs
        obtain ⟨rfl, rfl⟩ := hs
        rw [List.append_nil, List.cons_append, joinLoop_true_cons _ _ _ _ _ (needMore_true _ _ h1 h2)]
        have := ih (acc ++ [SP]) (by simp only [List.length_append, List.length_cons, List.length_nil]; omega)
          (by intro _; simp only [List.getLast?_append, List.getLast?_singleton, Option.some_or]; decide) r0' rs' hsp
        simp only [List.append_assoc, List.cons_append, List.nil_append] at this
        subst hc
        simpa using this
      · rw [if_neg hc] at hs
        simp only [List.cons.injEq] at hs
        obtain ⟨rfl, rfl⟩ := hs
        have := ih (acc ++ [c]) (by simp only [List.length_append, List.length_cons, List.length_nil]; omega)
          (by intro _; simp only [List.getLast?_append, List.getLast?_singleton, Option.some_or]
              simp only [ne_eq, Option.some.injEq]; exact fun e => hw.1 e.symm) r0' rs' hsp
        simpa using this

theorem stripQuotes_quoted (s : Str) : stripQuotes (DQ :: (s ++ [DQ])) = some s := by
  have hlen : (DQ :: (s ++ [DQ])).length = s.length + 2 := by simp
  have hlast : (DQ :: (s ++ [DQ])).getLast? = some DQ := by
    rw [show DQ :: (s ++ [DQ]) = (DQ :: s) ++ [DQ] by simp, List.getLast?_append]; simp
  have h1 : stripQuote SQ (DQ :: (s ++ [DQ])) = some (DQ :: (s ++ [DQ])) := by
    unfold stripQuote
    rw [if_pos (by omega), hlast]
    simp only [List.head?_cons]
    rw [if_neg (by decide)]
  have h2 : stripQuote DQ (DQ :: (s ++ [DQ])) = some s := by
    unfold stripQuote
    rw [if_pos (by omega), hlast]
    simp only [List.head?_cons, and_self, if_true]
    unfold slice
    rw [if_pos ⟨by omega, by omega⟩, hlen]
    simp
  unfold stripQuotes
  rw [if_neg (by simp), h1]
  simpa using h2

theorem stripQuote_plain (q : UInt8) (t : Str) (h : q ∉ t) : stripQuote q t = some t := by
  unfold stripQuote
  split
  · rename_i hlen
    cases t with
    | nil => simp at hlen
    | cons c cs =>
      simp only [List.mem_cons, not_or] at h
      cases hl : (c :: cs).getLast? with
      | none => simp [List.getLast?_eq_none_iff] at hl
      | some l =>
        simp only [List.head?_cons]
        rw [if_neg (fun e => h.1 e.1.symm)]
  · rfl

theorem stripQuotes_plain (t : Str) (h1 : SQ ∉ t) (h2 : DQ ∉ t) : stripQuotes t = some t := by
  unfold stripQuotes
  split
  · rfl
  · rw [stripQuote_plain _ _ h1]; simpa using stripQuote_plain _ _ h2

theorem process_quoted (tbl : Table) (st st' : Fields) (k s : Str) (i : Nat) (hk : EQ ∉ k)
    (hl : tbl.lookup k = some i) (hs : setValue st i s = some st') :
    processPart tbl st (k ++ EQ :: DQ :: (s ++ [DQ])) = .ok st' := by
  unfold processPart
  rw [splitFirst_prefix _ _ _ hk]
  simp only [stripQuotes_quoted, hl, hs]

theorem process_plain (tbl : Table) (st st' : Fields) (k t : Str) (i : Nat) (hk : EQ ∉ k)
    (h1 : SQ ∉ t) (h2 : DQ ∉ t)
    (hl : tbl.lookup k = some i) (hs : setValue st i t = some st') :
    processPart tbl st (k ++ EQ :: t) = .ok st' := by
  unfold processPart
  rw [splitFirst_prefix _ _ _ hk]
  simp only [stripQuotes_plain _ h1 h2, hl, hs]

theorem P_quoted (tbl : Table) (st st' : Fields) (k s : Str) (i : Nat) (more : List Str)
    (hk : KeyOK k) (hs1 : SQ ∉ s) (hs2 : DQ ∉ s)
    (hl : tbl.lookup k = some i) (hs : setValue st i s = some st') :
    P tbl (splitOn SP (k ++ EQ :: DQ :: (s ++ [DQ])) ++ more) st = P tbl more st' := by
  obtain ⟨hk1, hk2, hk3, hk4⟩ := hk
  cases hsp : splitOn SP (s ++ [DQ]) with
  | nil => exact absurd hsp (splitOn_ne_nil _ _)
  | cons r0 rs =>
    have hpre : SP ∉ k ++ [EQ, DQ] := by
      simp only [List.mem_append, List.mem_cons, List.not_mem_nil, or_false, not_or]
      exact ⟨hk2, by decide, by decide⟩
    have hsplit := splitOn_prefix SP (k ++ [EQ, DQ]) hpre (s ++ [DQ]) r0 rs hsp
    have e1 : k ++ EQ :: DQ :: (s ++ [DQ]) = (k ++ [EQ, DQ]) ++ (s ++ [DQ]) := by simp
    rw [e1, hsplit, List.cons_append]
    have hr0 : ∀ x ∈ r0, x ∈ s ++ [DQ] := splitOn_mem SP _ r0 (by rw [hsp]; simp)
    have hj : joinQuoted ((k ++ [EQ, DQ]) ++ r0) (rs ++ more) = .done ((k ++ [EQ, DQ]) ++ s ++ [DQ]) more := by
      unfold joinQuoted
      have hsq : SQ ∉ (k ++ [EQ, DQ]) ++ r0 := by
        simp only [List.mem_append, List.mem_cons, List.not_mem_nil, or_false, not_or]
        refine ⟨⟨hk3, by decide, by decide⟩, ?_⟩
        intro hx
        have := hr0 _ hx
        simp only [List.mem_append, List.mem_cons, List.not_mem_nil, or_false] at this
        rcases this with h | h
        · exact hs1 h
        · exact absurd h (by decide)
      rw [index2_none_of_not_mem _ _ _ hsq]
      have e2 : (k ++ [EQ, DQ]) ++ r0 = k ++ EQ :: DQ :: r0 := by simp
      have hidx : index2 EQ DQ ((k ++ [EQ, DQ]) ++ r0) = some k.length := by
        rw [e2]; exact index2_prefix _ _ _ _ hk1
      simp only [hidx]
      exact joinLoop_split k.length more s hs2 (k ++ [EQ, DQ]) (by simp) (by intro h; simp at h) r0 rs hsp
    have e3 : (k ++ [EQ, DQ]) ++ s ++ [DQ] = k ++ EQ :: DQ :: (s ++ [DQ]) := by simp
    rw [e3] at hj
    exact P_cons_done _ _ _ _ _ _ _ hj (process_quoted _ _ _ _ _ _ hk1 hl hs)

theorem P_plain (tbl : Table) (st st' : Fields) (k t : Str) (i : Nat) (more : List Str)
    (hk : KeyOK k) (ht0 : SP ∉ t) (ht1 : SQ ∉ t) (ht2 : DQ ∉ t)
    (hl : tbl.lookup k = some i) (hs : setValue st i t = some st') :
    P tbl (splitOn SP (k ++ EQ :: t) ++ more) st = P tbl more st' := by
  obtain ⟨hk1, hk2, hk3, hk4⟩ := hk
  have hnosp : SP ∉ k ++ EQ :: t := by
    simp only [List.mem_append, List.mem_cons, not_or]; exact ⟨hk2, by decide, ht0⟩
  rw [splitOn_nosep _ _ hnosp, List.cons_append, List.nil_append]
  have hj : joinQuoted (k ++ EQ :: t) more = .done (k ++ EQ :: t) more := by
    unfold joinQuoted
    rw [index2_none_of_not_mem _ _ _ (by simp only [List.mem_append, List.mem_cons, not_or]; exact ⟨hk3, by decide, ht1⟩),
        index2_none_of_not_mem _ _ _ (by simp only [List.mem_append, List.mem_cons, not_or]; exact ⟨hk4, by decide, ht2⟩)]
  exact P_cons_done _ _ _ _ _ _ _ hj (process_plain _ _ _ _ _ _ hk1 ht1 ht2 hl hs)

/-! ### values: %q on the documented alphabet, bool and int texts -/

/-- a byte of the simple form's documented alphabet: no quotation mark, no backslash, no control
byte (bytes >= 0x80 belong to printable runes by the assumption stated in `Model/Dsn.lean`) -/
def plainByte (c : UInt8) : Bool := c != DQ && c != SQ && c != BSL && decide (32 ≤ c) && c != 127

theorem quoteByte_plain (c : UInt8) (h : plainByte c = true) : quoteByte c = [c] := by
  simp only [plainByte, Bool.and_eq_true, bne_iff_ne, ne_eq, decide_eq_true_eq] at h
  obtain ⟨⟨⟨⟨h1, _⟩, h3⟩, h4⟩, h5⟩ := h
  unfold quoteByte
  rw [if_neg (by intro e; rcases e with e | e; exact h1 e; exact h3 e), if_pos ⟨h4, h5⟩]

theorem quote_plain (s : Str) (h : ∀ c ∈ s, plainByte c = true) : quote s = DQ :: (s ++ [DQ]) := by
  unfold quote
  congr 2
  induction s with
  | nil => rfl
  | cons c cs ih =>
    rw [List.flatMap_cons, quoteByte_plain c (h c (by simp)), ih (fun x hx => h x (by simp [hx]))]
    rfl

theorem plain_no_quotes (s : Str) (h : ∀ c ∈ s, plainByte c = true) : SQ ∉ s ∧ DQ ∉ s := by
  constructor <;> intro hm <;> have := h _ hm <;> revert this <;> decide

theorem natOfDigits_append (a : Nat) (xs ys : Str) :
    natOfDigits a (xs ++ ys) = natOfDigits (natOfDigits a xs) ys := by
  induction xs generalizing a with
  | nil => rfl
  | cons x xs ih =>
    rw [List.cons_append, natOfDigits.eq_2, natOfDigits.eq_2]
    exact ih _

theorem digit_fact1 : ∀ n, n < 10 → ((48 + n).toUInt8 - 48).toNat = n := by decide
theorem digit_fact2 : ∀ n, n < 10 → isDigit (48 + n).toUInt8 = true := by decide
theorem digit_facts (n : Nat) (h : n < 10) :
    (((48 + n).toUInt8 - 48).toNat = n ∧ isDigit (48 + n).toUInt8 = true) :=
  ⟨digit_fact1 n h, digit_fact2 n h⟩

theorem digitsAux_spec (f n : Nat) (acc : Str) (h : n < f) :
    ∃ ds, digitsAux f n acc = ds ++ acc ∧ ds ≠ [] ∧ ds.all isDigit = true ∧
      ∀ a, natOfDigits a ds = a * 10 ^ ds.length + n := by
  induction f generalizing n acc with
  | zero => omega
  | succ f ih =>
    unfold digitsAux
    split
    · rename_i hlt
      refine ⟨[(48 + n).toUInt8], rfl, List.cons_ne_nil _ _, ?_, ?_⟩
      · simp only [List.all_cons, List.all_nil, Bool.and_true]; exact (digit_facts n hlt).2
      · intro a
        rw [natOfDigits.eq_2, natOfDigits.eq_1, (digit_facts n hlt).1]
        simp only [List.length_cons, List.length_nil]
        omega
    · rename_i hge
      obtain ⟨ds, h1, h2, h3, h4⟩ := ih (n / 10) ((48 + n % 10).toUInt8 :: acc) (by omega)
      have hd := digit_facts (n % 10) (by omega)
      refine ⟨ds ++ [(48 + n % 10).toUInt8], by rw [h1, List.append_assoc]; rfl, by simp, ?_, ?_⟩
      · simp only [List.all_append, List.all_cons, List.all_nil, h3, hd.2, Bool.and_self]
      · intro a
        rw [natOfDigits_append, h4]
        rw [natOfDigits.eq_2, natOfDigits.eq_1, hd.1]
        simp only [List.length_append, List.length_cons, List.length_nil,
          Nat.pow_succ, Nat.zero_add]
        rw [← Nat.mul_assoc]
        generalize a * 10 ^ ds.length = X
        omega

theorem natDec_spec (n : Nat) : natDec n ≠ [] ∧ (natDec n).all isDigit = true ∧ parseNat (natDec n) = some n := by
  obtain ⟨ds, h1, h2, h3, h4⟩ := digitsAux_spec (n + 1) n [] (by omega)
  unfold natDec
  rw [h1, List.append_nil]
  refine ⟨h2, h3, ?_⟩
  unfold parseNat
  rw [if_pos ⟨h2, h3⟩, h4]
  simp

theorem digit_ne (c : UInt8) (h : isDigit c = true) :
    c ≠ 45 ∧ c ≠ 43 ∧ c ≠ SP ∧ c ≠ SQ ∧ c ≠ DQ ∧ c ≠ EQ := by
  refine ⟨?_, ?_, ?_, ?_, ?_, ?_⟩ <;> intro e <;> subst e <;> revert h <;> decide

theorem parseInt_intDec (n : Int) (h1 : -(2 ^ 63 : Int) ≤ n) (h2 : n < 2 ^ 63) :
    parseInt (intDec n) = some n := by
  obtain ⟨hne, hall, hp⟩ := natDec_spec n.natAbs
  unfold intDec
  split
  · rename_i hneg
    simp only [parseInt, if_true, hp]
    rw [if_pos (by omega)]
    congr 1; omega
  · rename_i hpos
    cases hd : natDec n.natAbs with
    | nil => exact absurd hd hne
    | cons c cs =>
      rw [hd] at hall hp
      have hc : isDigit c = true := by
        simp only [List.all_cons, Bool.and_eq_true] at hall; exact hall.1
      have := digit_ne c hc
      simp only [parseInt]
      rw [if_neg this.1, if_neg this.2.1, hp]
      simp only
      rw [if_pos (by omega)]
      congr 1; omega

theorem intDec_chars (n : Int) : SP ∉ intDec n ∧ SQ ∉ intDec n ∧ DQ ∉ intDec n := by
  have hall := (natDec_spec n.natAbs).2.1
  rw [List.all_eq_true] at hall
  have key : ∀ c ∈ intDec n, c = 45 ∨ isDigit c = true := by
    intro c hc
    unfold intDec at hc
    split at hc
    · simp only [List.mem_cons] at hc
      rcases hc with rfl | hc
      · exact Or.inl rfl
      · exact Or.inr (hall c hc)
    · exact Or.inr (hall c hc)
  refine ⟨?_, ?_, ?_⟩ <;> intro hm <;> rcases key _ hm with e | e
  · revert e; decide
  · exact (digit_ne _ e).2.2.1 rfl
  · revert e; decide
  · exact (digit_ne _ e).2.2.2.1 rfl
  · revert e; decide
  · exact (digit_ne _ e).2.2.2.2.1 rfl

/-- values that the simple form is claimed to carry: text of the documented alphabet,
booleans, integers of Go's `int` (64 bit) -/
def GoodVal : Val → Prop
  | .str s => ∀ c ∈ s, plainByte c = true
  | .bool _ => True
  | .int n => -(2 ^ 63 : Int) ≤ n ∧ n < 2 ^ 63

theorem P_entry (tbl : Table) (st : Fields) (k : Str) (v : Val) (i : Nat) (more : List Str)
    (hk : KeyOK k) (hv : GoodVal v) (hl : tbl.lookup k = some i)
    (hi : (st[i]?).map Val.kind = some v.kind) :
    P tbl (splitOn SP (entryText (k, v)) ++ more) st = P tbl more (st.set i v) := by
  cases hsi : st[i]? with
  | none => simp [hsi] at hi
  | some old =>
    rw [hsi] at hi
    simp only [Option.map_some, Option.some.injEq] at hi
    cases v with
    | str s =>
      cases old <;> simp [Val.kind] at hi
      have hq := plain_no_quotes s hv
      simp only [entryText, fmtVal, quote_plain s hv]
      exact P_quoted _ _ _ _ _ _ _ hk hq.1 hq.2 hl (by simp [setValue, hsi])
    | bool v =>
      cases old <;> simp [Val.kind] at hi
      simp only [entryText, fmtVal]
      cases v
      · exact P_plain _ _ _ _ _ _ _ hk (by decide) (by decide) (by decide) hl
          (by simp only [setValue, hsi]; rfl)
      · exact P_plain _ _ _ _ _ _ _ hk (by decide) (by decide) (by decide) hl
          (by simp only [setValue, hsi]; rfl)
    | int n =>
      cases old <;> simp [Val.kind] at hi
      simp only [entryText, fmtVal]
      have hc := intDec_chars n
      exact P_plain _ _ _ _ _ _ _ hk hc.1 hc.2.1 hc.2.2 hl
        (by simp only [setValue, hsi, parseInt_intDec n hv.1 hv.2]; rfl)

/-! ### a list of well-formed entries -/

theorem filterMap_eq_map_of {α β : Type} (f : α → Option β) (g : α → β) (l : List α)
    (h : ∀ x ∈ l, f x = some (g x)) : l.filterMap f = l.map g := by
  induction l with
  | nil => rfl
  | cons x xs ih =>
    rw [List.filterMap_cons, h x (by simp), List.map_cons, ih (fun y hy => h y (by simp [hy]))]

instance : DecidablePred GoodVal := fun v => by
  cases v <;> unfold GoodVal <;> exact inferInstance


def idxOf (tbl : Table) (k : Str) : Nat := (tbl.lookup k).getD 0

/-- the assignments a list of entries stands for, applied in order -/
def applyAll (tbl : Table) (l : List (Str × Val)) (st : Fields) : Fields :=
  l.foldl (fun s e => s.set (idxOf tbl e.1) e.2) st

def GoodEntry (tbl : Table) (K : List Kind) (e : Str × Val) : Prop :=
  KeyOK e.1 ∧ GoodVal e.2 ∧ ∃ i, tbl.lookup e.1 = some i ∧ K[i]? = some e.2.kind

theorem kinds_set (st : Fields) (K : List Kind) (i : Nat) (v : Val) (h : st.map Val.kind = K)
    (hi : K[i]? = some v.kind) : (st.set i v).map Val.kind = K := by
  rw [List.map_set, h]
  apply List.ext_getElem?
  intro j
  rw [List.getElem?_set]
  split
  · rename_i e; subst e
    have : i < K.length := by
      rcases Nat.lt_or_ge i K.length with h' | h'
      · exact h'
      · rw [List.getElem?_eq_none h'] at hi; simp at hi
    rw [if_pos this, hi]
  · rfl

theorem P_entries (tbl : Table) (K : List Kind) :
    ∀ (l : List (Str × Val)) (st : Fields), l ≠ [] → st.map Val.kind = K →
      (∀ e ∈ l, GoodEntry tbl K e) →
      P tbl (splitOn SP (joinSp (l.map entryText))) st = .ok (applyAll tbl l st) := by
  intro l
  induction l with
  | nil => intro st h; exact absurd rfl h
  | cons e l ih =>
    intro st _ hK hg
    obtain ⟨hk, hv, i, hl, hi⟩ := hg e (by simp)
    have hi' : (st[i]?).map Val.kind = some e.2.kind := by
      rw [← List.getElem?_map, hK]; exact hi
    have hidx : idxOf tbl e.1 = i := by simp [idxOf, hl]
    cases l with
    | nil =>
      have := P_entry tbl st e.1 e.2 i [] hk hv hl hi'
      simp only [List.append_nil] at this
      simp only [List.map_cons, List.map_nil, joinSp, applyAll, List.foldl_cons, List.foldl_nil, hidx]
      rw [this, P_nil]
    | cons e' l' =>
      have hjoin : joinSp (List.map entryText (e :: e' :: l')) =
          entryText e ++ SP :: joinSp (List.map entryText (e' :: l')) := rfl
      rw [hjoin, splitOn_append, P_entry tbl st e.1 e.2 i _ hk hv hl hi']
      rw [ih (st.set i e.2) (by simp) (kinds_set _ _ _ _ hK hi) (fun x hx => hg x (by simp [hx]))]
      simp only [applyAll, List.foldl_cons, hidx]

theorem applyAll_length (tbl : Table) (l : List (Str × Val)) (st : Fields) :
    (applyAll tbl l st).length = st.length := by
  induction l generalizing st with
  | nil => rfl
  | cons e l ih => simp only [applyAll, List.foldl_cons] at ih ⊢; rw [ih]; simp

theorem applyAll_get_other (tbl : Table) (l : List (Str × Val)) (st : Fields) (j : Nat)
    (h : ∀ e ∈ l, idxOf tbl e.1 ≠ j) : (applyAll tbl l st)[j]? = st[j]? := by
  induction l generalizing st with
  | nil => rfl
  | cons e l ih =>
    simp only [applyAll, List.foldl_cons] at ih ⊢
    rw [ih _ (fun x hx => h x (by simp [hx])), List.getElem?_set, if_neg (h e (by simp))]

theorem applyAll_get (tbl : Table) (l : List (Str × Val)) (st : Fields) (j : Nat) (e : Str × Val)
    (hn : (l.map (fun x => idxOf tbl x.1)).Nodup) (he : e ∈ l) (hj : idxOf tbl e.1 = j)
    (hlt : j < st.length) : (applyAll tbl l st)[j]? = some e.2 := by
  induction l generalizing st with
  | nil => simp at he
  | cons x l ih =>
    simp only [List.map_cons, List.nodup_cons, List.mem_map, not_exists, not_and] at hn
    simp only [applyAll, List.foldl_cons] at ih ⊢
    simp only [List.mem_cons] at he
    rcases he with rfl | he
    · have := applyAll_get_other tbl l (st.set (idxOf tbl e.1) e.2) j
        (fun y hy e' => hn.1 y hy (by rw [e', hj]))
      simp only [applyAll] at this
      rw [this, hj, List.getElem?_set, if_pos rfl, if_pos hlt]
    · exact ih _ hn.2 he (by simp [hlt])

/-! ### the key table -/

theorem lookup_names (names : List Str) (i : Nat) (a : Str) :
    (names.map (·, i)).lookup a = if a ∈ names then some i else none := by
  induction names with
  | nil => simp
  | cons n ns ih =>
    simp only [List.map_cons, List.lookup_cons, List.mem_cons]
    by_cases h : a = n
    · subst h; simp
    · have : (a == n) = false := by simpa using h
      rw [this, ih]; simp [h]

theorem mkTableFrom_lookup_none (off : Nat) (specs : List Spec) (a : Str)
    (h : ∀ s ∈ specs, a ∉ s.names) : (mkTableFrom off specs).lookup a = none := by
  induction specs generalizing off with
  | nil => simp [mkTableFrom]
  | cons s ss ih =>
    simp only [mkTableFrom, List.lookup_append]
    rw [ih _ (fun x hx => h x (by simp [hx])), lookup_names, if_neg (h s (by simp))]
    rfl

theorem mkTableFrom_lookup_isSome (off : Nat) (specs : List Spec) (a : Str)
    (h : ∃ s ∈ specs, a ∈ s.names) : ((mkTableFrom off specs).lookup a).isSome = true := by
  induction specs generalizing off with
  | nil => simp at h
  | cons s ss ih =>
    simp only [mkTableFrom, List.lookup_append, lookup_names]
    by_cases hs : a ∈ s.names
    · rw [if_pos hs]; cases (mkTableFrom (off + 1) ss).lookup a <;> rfl
    · obtain ⟨x, hx, hxa⟩ := h
      simp only [List.mem_cons] at hx
      rcases hx with rfl | hx
      · exact absurd hxa hs
      · have := ih (off + 1) ⟨x, hx, hxa⟩
        cases hl : (mkTableFrom (off + 1) ss).lookup a with
        | none => rw [hl] at this; simp at this
        | some v => rfl

theorem mkTableFrom_lookup (specs : List Spec) (off i : Nat) (hi : i < specs.length) (a : Str)
    (ha : a ∈ specs[i].names)
    (hlater : ∀ j, i < j → ∀ hj : j < specs.length, a ∉ specs[j].names) :
    (mkTableFrom off specs).lookup a = some (off + i) := by
  induction specs generalizing off i with
  | nil => simp at hi
  | cons s ss ih =>
    simp only [mkTableFrom, List.lookup_append, lookup_names]
    cases i with
    | zero =>
      simp only [List.getElem_cons_zero] at ha
      have hn : (mkTableFrom (off + 1) ss).lookup a = none := by
        apply mkTableFrom_lookup_none
        intro x hx
        obtain ⟨j, hj, rfl⟩ := List.mem_iff_getElem.1 hx
        have := hlater (j + 1) (by omega) (by simp only [List.length_cons]; omega)
        simpa using this
      rw [hn, if_pos ha]; rfl
    | succ i =>
      simp only [List.getElem_cons_succ] at ha
      simp only [List.length_cons] at hi
      rw [ih (off + 1) i (by omega) ha (by
        intro j hij hj
        have := hlater (j + 1) (by omega) (by simp only [List.length_cons]; omega)
        simpa using this)]
      simp only [Option.some_or, Option.some.injEq]; omega

/-! ### unknown keys -/

theorem joinLoop_prefix (start : Nat) (q : UInt8) (part : Str) (rest : List Str) (p' : Str) (r' : List Str)
    (h : joinLoop start q part rest = .done p' r') : ∃ x, p' = part ++ x := by
  induction rest generalizing part with
  | nil =>
    cases hn : needMore start q part with
    | none => unfold joinLoop at h; simp [hn] at h
    | some bb =>
      cases bb
      · rw [joinLoop_false _ _ _ _ hn] at h
        simp only [Join.done.injEq] at h
        exact ⟨[], by simp [h.1]⟩
      · rw [joinLoop_true_nil _ _ _ hn] at h; simp at h
  | cons r rest ih =>
    cases hn : needMore start q part with
    | none => unfold joinLoop at h; simp [hn] at h
    | some bb =>
      cases bb
      · rw [joinLoop_false _ _ _ _ hn] at h
        simp only [Join.done.injEq] at h
        exact ⟨[], by simp [h.1]⟩
      · rw [joinLoop_true_cons _ _ _ _ _ hn] at h
        obtain ⟨x, hx⟩ := ih _ h
        exact ⟨SP :: r ++ x, by rw [hx]; simp⟩

theorem joinQuoted_prefix (part : Str) (rest : List Str) (p' : Str) (r' : List Str)
    (h : joinQuoted part rest = .done p' r') : ∃ x, p' = part ++ x := by
  unfold joinQuoted at h
  split at h
  · exact joinLoop_prefix _ _ _ _ _ _ h
  · split at h
    · exact joinLoop_prefix _ _ _ _ _ _ h
    · simp only [Join.done.injEq] at h
      exact ⟨[], by simp [h.1]⟩

theorem processPart_unknown (tbl : Table) (st : Fields) (k r : Str) (hk : EQ ∉ k)
    (hl : tbl.lookup k = none) : processPart tbl st (k ++ EQ :: r) = .err := by
  unfold processPart
  rw [splitFirst_prefix _ _ _ hk]
  simp only
  cases h : stripQuotes r with
  | none => exact absurd h (stripQuotes_ne_none _)
  | some v => simp only [hl]

theorem P_unknown (tbl : Table) (st : Fields) (k value : Str) (hk : EQ ∉ k) (hs : SP ∉ k)
    (hl : tbl.lookup k = none) : P tbl (splitOn SP (k ++ EQ :: value)) st = .err := by
  cases hsp : splitOn SP value with
  | nil => exact absurd hsp (splitOn_ne_nil _ _)
  | cons v0 vs =>
    have hpre : SP ∉ k ++ [EQ] := by
      simp only [List.mem_append, List.mem_cons, List.not_mem_nil, or_false, not_or]
      exact ⟨hs, by decide⟩
    have e1 : k ++ EQ :: value = (k ++ [EQ]) ++ value := by simp
    rw [e1, splitOn_prefix SP _ hpre value v0 vs hsp, P_cons]
    cases hj : joinQuoted (k ++ [EQ] ++ v0) vs with
    | panic => exact absurd hj (joinQuoted_ne_panic _ _)
    | unterminated => rfl
    | done p r =>
      obtain ⟨x, hx⟩ := joinQuoted_prefix _ _ _ _ hj
      have e2 : p = k ++ EQ :: (v0 ++ x) := by rw [hx]; simp
      simp only [e2, processPart_unknown tbl st k (v0 ++ x) hk hl]

end Dblib.Lemmas.C17
