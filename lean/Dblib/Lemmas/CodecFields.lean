/-
Lemmas for the Fields codec group (Model/Codec/Fields*.lean):

* generic facts about `bind` in the parser monad (where an error / a panic of a composite comes
  from), used for the fuel argument of the BLOB chunk loop and for the totality statements;
* the BLOB chunk loop does not depend on its fuel once the fuel exceeds the number of input bytes
  (`blobChunks_fuel`), and is therefore incremental as run by `blobData` (`blobLoop_incr`).

`Total`, `shift`, `bind_of_ok`, the evaluation lemmas `uintLE_bind`, `u8_bind`, `take_bind`, … are
those of Lemmas/CodecCursor.lean (namespace `Dblib.CodecCursor`).
-/
import Dblib.Model.Codec.Fields
import Dblib.Lemmas.Parser
import Dblib.Lemmas.CodecCursor

namespace Dblib.CodecFields
open Dblib Dblib.P Dblib.Codec.Fields Dblib.CodecCursor

/-! ## where the outcome of a `bind` comes from -/

theorem bind_eq_err {p : P α} {f : α → P β} {s : Bytes} {e : Nat} (h : (p >>= f) s = .err e) :
    (∃ e', p s = .err e') ∨ ∃ a k e', p s = .ok a k ∧ f a (s.drop k) = .err e' := by
  simp only [Bind.bind, P.bind] at h
  cases hp : p s with
  | notEnough => simp [hp] at h
  | err e' => exact Or.inl ⟨e', rfl⟩
  | panic => simp [hp] at h
  | ok a k =>
    simp only [hp] at h
    cases hf : f a (s.drop k) with
    | notEnough => simp [hf] at h
    | err e' => exact Or.inr ⟨a, k, e', rfl, hf⟩
    | panic => simp [hf] at h
    | ok b m => simp [hf] at h

theorem bind_err_of {p : P α} {f : α → P β} {s : Bytes} {a : α} {k e : Nat} (hp : p s = .ok a k)
    (hf : f a (s.drop k) = .err e) : (p >>= f) s = .err (k + e) := by
  simp only [Bind.bind, P.bind, hp, hf]

theorem bind_congr_on {p : P α} {f g : α → P β} {s : Bytes}
    (h : ∀ a k, p s = .ok a k → f a (s.drop k) = g a (s.drop k)) : (p >>= f) s = (p >>= g) s := by
  simp only [Bind.bind, P.bind]
  cases hp : p s with
  | ok a k => simp only [h a k hp]
  | _ => rfl

theorem take_ok {k : Nat} {s a : Bytes} {m : Nat} (h : take k s = .ok a m) : m = k ∧ k ≤ s.length := by
  unfold take at h
  split at h
  · injection h with _ h2; exact ⟨h2.symm, by assumption⟩
  · simp at h

theorem take_not_err (k : Nat) (s : Bytes) (e : Nat) : take k s ≠ .err e := by
  unfold take; split <;> simp

theorem uintLE_ok {w : Nat} {s : Bytes} {a m : Nat} (h : uintLE w s = .ok a m) : m = w ∧ w ≤ s.length := by
  unfold uintLE at h
  obtain ⟨bs, k, m', hk, hpure⟩ := bind_eq_ok h
  obtain ⟨h1, h2⟩ := take_ok hk
  have hb := bind_of_ok (f := fun bs => (Pure.pure (leDecode bs) : P Nat)) hk
  rw [hb] at h
  simp only [pure_apply, shift_ok, Res.ok.injEq] at h
  omega

theorem uintLE_not_err (w : Nat) (s : Bytes) (e : Nat) : uintLE w s ≠ .err e := by
  intro h
  unfold uintLE at h
  rcases bind_eq_err h with ⟨e', h'⟩ | ⟨a, k, e', _, h'⟩
  · exact take_not_err _ _ _ h'
  · simp [pure_apply] at h'

/-! ## the BLOB chunk loop and its fuel -/

/-- one iteration -/
def chunkStep (n : Nat) (dataLen : Nat) : P Bytes :=
  if dataLen ≥ 2147483648 then Pure.pure []
  else if dataLen = 0 then blobChunks n
  else take dataLen >>= fun part => blobChunks n >>= fun rest => Pure.pure (part ++ rest)

theorem blobChunks_succ (n : Nat) : blobChunks (n + 1) = (u32 >>= chunkStep n) := by
  funext s
  rw [blobChunks.eq_2]
  rfl

/-- with more fuel than input bytes the loop never runs out of fuel (`err` has no other source) -/
theorem blobChunks_no_err (fuel : Nat) (s : Bytes) (h : s.length < fuel) (e : Nat) :
    blobChunks fuel s ≠ .err e := by
  induction fuel generalizing s e with
  | zero => omega
  | succ n ih =>
    intro he
    rw [blobChunks_succ] at he
    rcases bind_eq_err he with ⟨e', h'⟩ | ⟨d, k, e', hu, h'⟩
    · exact uintLE_not_err _ _ _ h'
    · obtain ⟨hk, hlen⟩ := uintLE_ok hu
      subst hk
      have hl : (s.drop 4).length < n := by simp [List.length_drop]; omega
      unfold chunkStep at h'
      split at h'
      · simp [pure_apply] at h'
      · split at h'
        · exact ih _ hl _ h'
        · rcases bind_eq_err h' with ⟨e2, h2⟩ | ⟨part, m, e2, ht, h2⟩
          · exact take_not_err _ _ _ h2
          · have hm : (List.drop m (s.drop 4)).length < n := by simp [List.length_drop]; omega
            rcases bind_eq_err h2 with ⟨e3, h3⟩ | ⟨rest, m', e3, _, h3⟩
            · exact ih _ hm _ h3
            · simp [pure_apply] at h3

theorem bind_congr_left {p q : P α} {f : α → P β} {s : Bytes} (h : p s = q s) : (p >>= f) s = (q >>= f) s := by
  simp only [Bind.bind, P.bind, h]

theorem bind_err_left {p : P α} {f : α → P β} {s : Bytes} {e : Nat} (hp : p s = .err e) :
    (p >>= f) s = .err e := by
  simp only [Bind.bind, P.bind, hp]

/-- a result that is not "out of fuel" is the result with one more unit of fuel -/
theorem blobChunks_mono (fuel : Nat) (s : Bytes) (h : ∀ e, blobChunks fuel s ≠ .err e) :
    blobChunks (fuel + 1) s = blobChunks fuel s := by
  induction fuel generalizing s with
  | zero => exact absurd rfl (h 0)
  | succ n ih =>
    rw [blobChunks_succ n] at h
    rw [blobChunks_succ (n + 1), blobChunks_succ n]
    apply bind_congr_on
    intro d k hu
    have hstep : ∀ e, chunkStep n d (s.drop k) ≠ .err e := fun e he => h _ (bind_err_of hu he)
    unfold chunkStep at hstep ⊢
    split
    · rfl
    · rename_i hhigh
      simp only [hhigh, if_false] at hstep
      split
      · rename_i hz
        simp only [hz, if_true] at hstep
        exact ih _ hstep
      · rename_i hz
        simp only [hz, if_false] at hstep
        apply bind_congr_on
        intro part m ht
        apply bind_congr_left
        apply ih
        intro e he
        exact hstep _ (bind_err_of ht (bind_err_left he))

theorem blobChunks_fuel (s : Bytes) (fuel : Nat) (h : s.length < fuel) :
    blobChunks fuel s = blobChunks (s.length + 1) s := by
  induction fuel with
  | zero => omega
  | succ n ih =>
    by_cases hn : s.length < n
    · rw [blobChunks_mono n s (blobChunks_no_err n s hn), ih hn]
    · have : n = s.length := by omega
      subst this; rfl

theorem blobChunks_incr (fuel : Nat) : Incr (blobChunks fuel) := by
  induction fuel with
  | zero => exact incr_fail
  | succ n ih =>
    rw [blobChunks_succ]
    refine incr_bind incr_u32 (fun d => ?_)
    unfold chunkStep
    split
    · exact incr_pure _
    · split
      · exact ih
      · exact incr_bind (incr_take _) (fun _ => incr_bind ih (fun _ => incr_pure _))

/-- the chunk loop as `blobData` runs it (fuel = remaining bytes + 1) is incremental -/
theorem blobLoop_incr : Incr (fun s => blobChunks (s.length + 1) s : P Bytes) := by
  intro s a n h
  obtain ⟨hn, hstab, hshort⟩ := blobChunks_incr (s.length + 1) s a n h
  refine ⟨hn, ?_, ?_⟩
  · intro t
    show blobChunks ((s.take n ++ t).length + 1) (s.take n ++ t) = _
    by_cases hlt : (s.take n ++ t).length < s.length + 1
    · rw [← blobChunks_fuel _ (s.length + 1) hlt]; exact hstab t
    · have h1 := hstab t
      have hgen : ∀ d, blobChunks (s.length + 1 + d) (s.take n ++ t) = .ok a n := by
        intro d
        induction d with
        | zero => exact h1
        | succ d ihd =>
          rw [← Nat.add_assoc, blobChunks_mono _ _ (by intro e he; rw [ihd] at he; simp at he), ihd]
      have : (s.take n ++ t).length + 1 = s.length + 1 + ((s.take n ++ t).length - s.length) := by omega
      rw [this]; exact hgen _
  · intro k hk
    show blobChunks ((s.take k).length + 1) (s.take k) = _
    have hlt : (s.take k).length < s.length + 1 := by simp [List.length_take]; omega
    rw [← blobChunks_fuel _ (s.length + 1) hlt]
    exact hshort k hk

/-! ## totality helpers -/

theorem total_crash_free_takeInt (n : Int) (h : 0 ≤ n) : Total (takeInt n) := by
  unfold takeInt
  split
  · omega
  · exact total_take _

theorem total_sequence (ps : List (P α)) (h : ∀ p ∈ ps, Total p) : Total (P.sequence ps) := by
  induction ps with
  | nil => exact total_pure _
  | cons p ps ih =>
    exact total_bind (h p (by simp)) (fun a =>
      total_bind (ih (fun q hq => h q (by simp [hq]))) (fun as => total_pure _))

theorem blobChunks_total (fuel : Nat) : Total (blobChunks fuel) := by
  induction fuel with
  | zero => exact total_fail
  | succ n ih =>
    rw [blobChunks_succ]
    refine total_bind total_u32 (fun d => ?_)
    unfold chunkStep
    split
    · exact total_pure _
    · split
      · exact ih
      · exact total_bind (total_take _) (fun _ => total_bind ih (fun _ => total_pure _))

theorem blobLoop_total : Total (fun s => blobChunks (s.length + 1) s : P Bytes) :=
  fun s => blobChunks_total _ s

/-- `ByteSize()` is -1 or a size -/
theorem byteSize_ge (t : Nat) : -1 ≤ Value.byteSize t := by
  unfold Value.byteSize Value.lookupInt
  split
  · rename_i kv hfind
    have hmem := List.mem_of_find?_eq_some hfind
    have hall : ∀ kv ∈ Gen.Types.byteSizes, -1 ≤ kv.2 := by decide
    exact hall kv hmem
  · omega

end Dblib.CodecFields
