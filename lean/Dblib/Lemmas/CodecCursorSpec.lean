/-
Evaluation lemmas for the layout-side parsers of Model/Codec/CursorSpec.lean
(`plstr`, `framed`, `atEnd`, `specRef`) on their layouts.
-/
import Dblib.Model.Codec.CursorSpec
import Dblib.Lemmas.CodecCursor

namespace Dblib.CodecCursor
open Dblib Dblib.P Dblib.Codec Dblib.Codec.Cursor

theorem plstr_bind (w : Nat) (s rest : Bytes) (f : Bytes → P β) (h : s.length < 256 ^ w) :
    (plstr w >>= f) (leEncode w s.length ++ (s ++ rest)) = shift (w + s.length) (f s rest) := by
  unfold plstr
  rt_simp [h]

theorem framed_exact (p : P α) (body rest : Bytes) (a : α) (h : p body = .ok a body.length) :
    framed body.length p (body ++ rest) = .ok a body.length := by
  unfold framed
  simp [h]

theorem atEnd_bind_nil (f : Bool → P β) : (atEnd >>= f) [] = f true [] := by
  have : atEnd [] = .ok true 0 := rfl
  rw [bind_of_ok this]; simp

theorem atEnd_bind_cons (f : Bool → P β) (b : UInt8) (s : Bytes) :
    (atEnd >>= f) (b :: s) = f false (b :: s) := by
  have : atEnd (b :: s) = .ok false 0 := rfl
  rw [bind_of_ok this]; simp

theorem atEnd_bind_leEncode2 (f : Bool → P β) (n : Nat) (x : Bytes) :
    (atEnd >>= f) (leEncode 2 n ++ x) = f false (leEncode 2 n ++ x) :=
  atEnd_bind_cons f _ _

theorem layoutRef_eq (id : Int) (name : Bytes) : layoutRef id name = encCursorRef id name := rfl

theorem layoutCols_eq (cols : List Bytes) : layoutCols cols = encCols cols := rfl

theorem specRef_bind (id : Int) (name rest : Bytes) (f : Int × Bytes → P β)
    (hid : isInt32 id) (hn : id = 0 → name.length < 256) :
    (specRef >>= f) (encCursorRef id name ++ rest) =
      shift (lenCursorRef id name) (f (id, (if id = 0 then name else [])) rest) := by
  unfold specRef encCursorRef lenCursorRef int32
  by_cases h0 : id = 0
  · have hn' : name.length < 256 ^ 1 := by simpa using hn h0
    rt_simp [h0, hid]
    have h00 : isInt32 0 := by decide
    rt_simp [h00, plstr_bind _ _ _ _ hn']
  · rt_simp [h0, hid]

theorem specCols_bind (cols : List Bytes) (rest : Bytes) (f : List Bytes → P β)
    (h : ∀ c ∈ cols, c.length < 256) :
    (P.replicateM cols.length (plstr 1) >>= f) (encCols cols ++ rest) = shift (colsLen cols) (f cols rest) := by
  induction cols generalizing f with
  | nil => simp [P.replicateM, encCols, colsLen, pure_bind_apply]
  | cons c cs ih =>
    have hc : c.length < 256 ^ 1 := by simpa using h c (by simp)
    have hcs : ∀ d ∈ cs, d.length < 256 := fun d hd => h d (by simp [hd])
    simp only [List.length_cons, P.replicateM, encCols, colsLen, List.map_cons, List.flatten_cons,
      List.sum_cons]
    rt_simp [plstr_bind _ _ _ _ hc]
    have := ih (fun as => (Pure.pure (c :: as) : P (List Bytes)) >>= f) hcs
    simp only [encCols, colsLen] at this
    rw [this]
    rt_simp []

end Dblib.CodecCursor
