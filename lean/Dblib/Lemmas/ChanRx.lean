/-
Lemmas about the receive model (`Model/ChanRx.lean`): fuel irrelevance of the parse loop, its
unfolding equation, and the split lemma behind fragmentation independence (C02).
-/
import Dblib.Model.ChanRx
import Dblib.Lemmas.Parser

namespace Dblib.Rx
variable {Pkg : Type}

@[simp] theorem accept_buf (ops : Ops Pkg) (rx : Rx Pkg) (pkg : Pkg) :
    (accept ops rx pkg).1.buf = rx.buf := by
  unfold accept; split <;> simp

@[simp] theorem accept_eom (ops : Ops Pkg) (rx : Rx Pkg) (pkg : Pkg) :
    (accept ops rx pkg).1.eom = rx.eom := by
  unfold accept; split <;> simp

/-- `lastPkgRx` after a successfully parsed package -/
def lastAfter (ops : Ops Pkg) (last : Option Pkg) (pkg : Pkg) : Option Pkg :=
  match ops.special pkg with
  | .env _ => last
  | .eedInfo => last
  | .eed => last
  | .none => some pkg

/-- the events a successfully parsed package causes (independent of the buffer) -/
def acceptEv (ops : Ops Pkg) (nEed nEnv : Nat) (pkg : Pkg) : List (Ev Pkg) :=
  (accept ops { nEed := nEed, nEnv := nEnv } pkg).2

theorem accept_eq (ops : Ops Pkg) (rx : Rx Pkg) (pkg : Pkg) :
    accept ops rx pkg = ({ rx with last := lastAfter ops rx.last pkg }, acceptEv ops rx.nEed rx.nEnv pkg) := by
  unfold accept acceptEv accept lastAfter
  split <;> simp_all

theorem parseLoop_fuel (ops : Ops Pkg) : ∀ (f1 f2 : Nat) (rx : Rx Pkg),
    rx.buf.length + 2 ≤ f1 → rx.buf.length + 2 ≤ f2 → parseLoop ops f1 rx = parseLoop ops f2 rx := by
  intro f1
  induction f1 with
  | zero => intro f2 rx h; omega
  | succ f1 ih =>
    intro f2 rx h1 h2
    cases f2 with
    | zero => omega
    | succ f2 =>
      unfold parseLoop
      cases hb : rx.buf with
      | nil => rfl
      | cons tok rest =>
        simp only
        cases ops.select tok rx.last with
        | lastErr => rfl
        | parser p =>
          simp only
          cases hp : p rest with
          | notEnough => rfl
          | err n => rfl
          | panic => rfl
          | ok pkg n =>
            simp only
            rw [hb] at h1 h2
            simp only [List.length_cons] at h1 h2
            have hl : (accept ops { rx with buf := rest.drop n } pkg).1.buf.length ≤ rest.length := by
              simp
            rw [ih f2 _ (by omega) (by omega)]

/-- the parse loop with sufficient fuel -/
def run (ops : Ops Pkg) (rx : Rx Pkg) : Rx Pkg × List (Ev Pkg) × Bool :=
  parseLoop ops (rx.buf.length + 2) rx

theorem run_nil (ops : Ops Pkg) (rx : Rx Pkg) (hb : rx.buf = []) :
    run ops rx =
      if rx.eom then
        ({ rx with buf := [], eom := false, last := none },
          (match rx.last with
           | some l => if ops.isDoneFinal l then [] else [.deliver ops.doneFinal]
           | none => [.deliver ops.doneFinal]), true)
      else (rx, [], true) := by
  unfold run parseLoop
  simp only [hb]
  split <;> rfl

theorem run_cons_ok (ops : Ops Pkg) (rx : Rx Pkg) (tok : UInt8) (rest : Bytes) (p : P Pkg) (pkg : Pkg)
    (n : Nat) (hb : rx.buf = tok :: rest) (hs : ops.select tok rx.last = .parser p)
    (hp : p rest = .ok pkg n) :
    run ops rx =
      let r := run ops { rx with buf := rest.drop n, last := lastAfter ops rx.last pkg }
      (r.1, acceptEv ops rx.nEed rx.nEnv pkg ++ r.2.1, r.2.2) := by
  unfold run
  rw [show rx.buf.length + 2 = (rest.length + 1) + 1 + 1 by rw [hb]; simp]
  conv => lhs; unfold parseLoop
  simp only [hb, hs, hp, accept_eq]
  rw [parseLoop_fuel ops (rest.length + 1 + 1) ((rest.drop n).length + 2) _ (by simp) (by simp)]

theorem run_cons_short (ops : Ops Pkg) (rx : Rx Pkg) (tok : UInt8) (rest : Bytes) (p : P Pkg)
    (hb : rx.buf = tok :: rest) (hs : ops.select tok rx.last = .parser p)
    (hp : p rest = .notEnough) :
    run ops rx = if rx.eom then ({ rx with buf := [], eom := false }, [], true) else (rx, [], true) := by
  unfold run
  rw [show rx.buf.length + 2 = (rest.length + 1) + 1 + 1 by rw [hb]; simp]
  conv => lhs; unfold parseLoop
  simp only [hb, hs, hp]

/-- `Whole ops last T`: the byte string `T` is a concatenation of complete packages, each parsed
successfully in the context the previous ones leave (`last` = last delivered package). -/
inductive Whole (ops : Ops Pkg) : Option Pkg → Bytes → Prop
  | nil (last : Option Pkg) : Whole ops last []
  | cons (last : Option Pkg) (tok : UInt8) (rest : Bytes) (p : P Pkg) (pkg : Pkg) (n : Nat) :
      ops.select tok last = .parser p → p rest = .ok pkg n →
      Whole ops (lastAfter ops last pkg) (rest.drop n) → Whole ops last (tok :: rest)

/-- state with the given context, buffer and end-of-message marker -/
def withBuf (rx : Rx Pkg) (last : Option Pkg) (buf : Bytes) (eom : Bool) : Rx Pkg :=
  { buf := buf, eom := eom, last := last, nEed := rx.nEed, nEnv := rx.nEnv, closed := rx.closed }

theorem take_succ_cons {α : Type} (a : α) (l : List α) (k : Nat) : (a :: l).take (k + 1) = a :: l.take k := rfl

/-- **Split lemma.** If `T` is a concatenation of complete packages and every parser satisfies
the incremental law, then running the parse loop on the first `k + c` bytes of `T` is the same as
running it on the first `k` bytes, appending the next `c` bytes to what was left over, and running
it again — same final state, same events in the same order. -/
theorem run_split (ops : Ops Pkg)
    (hI : ∀ tok last p, ops.select tok last = .parser p → Incr p)
    (last : Option Pkg) (T : Bytes) (hW : Whole ops last T) :
    ∀ (rx : Rx Pkg) (k c : Nat) (e : Bool),
      run ops (withBuf rx last (T.take (k + c)) e) =
        (let r1 := run ops (withBuf rx last (T.take k) false)
         let r2 := run ops (withBuf rx r1.1.last (r1.1.buf ++ (T.drop k).take c) e)
         (r2.1, r1.2.1 ++ r2.2.1, r2.2.2)) := by
  induction hW with
  | nil last =>
    intro rx k c e
    simp only [List.take_nil, List.drop_nil, List.append_nil]
    rw [run_nil ops (withBuf rx last [] false) rfl]
    simp [withBuf]
  | cons last tok rest p pkg n hs hp hW ih =>
    intro rx k c e
    have hinc := hI tok last p hs
    obtain ⟨hn, hstab, hshort⟩ := hinc rest pkg n hp
    cases k with
    | zero =>
      simp only [List.take_zero, Nat.zero_add, List.drop_zero]
      rw [run_nil ops (withBuf rx last [] false) rfl]
      simp [withBuf]
    | succ k =>
      rw [show k + 1 + c = (k + c) + 1 by omega, take_succ_cons, take_succ_cons]
      simp only [List.drop_succ_cons]
      by_cases hk : k < n
      · -- the first package is not complete within the first k+1 bytes
        have h1 : p (rest.take k) = .notEnough := hshort k hk
        rw [run_cons_short ops (withBuf rx last (tok :: rest.take k) false) tok (rest.take k) p rfl hs h1]
        simp only [withBuf, Bool.false_eq_true, if_false, List.nil_append, List.cons_append]
        rw [← List.take_add]
      · -- the first package is complete within the first k+1 bytes
        have hsplit : ∀ j, n ≤ j → rest.take j = rest.take n ++ (rest.drop n).take (j - n) := by
          intro j hj
          have : j = n + (j - n) := by omega
          conv => lhs; rw [this, List.take_add]
        have hdrop : ∀ j, n ≤ j → (rest.take j).drop n = (rest.drop n).take (j - n) := by
          intro j hj
          rw [hsplit j hj, List.drop_append_of_le_length (by simp [List.length_take]; omega),
            List.drop_of_length_le (by simp [List.length_take]; omega)]
          simp
        have h1 : p (rest.take k) = .ok pkg n := by rw [hsplit k (by omega)]; exact hstab _
        have h2 : p (rest.take (k + c)) = .ok pkg n := by rw [hsplit (k + c) (by omega)]; exact hstab _
        rw [run_cons_ok ops (withBuf rx last (tok :: rest.take (k + c)) e) tok _ p pkg n rfl hs h2]
        rw [run_cons_ok ops (withBuf rx last (tok :: rest.take k) false) tok _ p pkg n rfl hs h1]
        have ihh := ih rx (k - n) c e
        simp only [withBuf] at ihh ⊢
        rw [hdrop (k + c) (by omega), hdrop k (by omega)]
        rw [show k + c - n = (k - n) + c by omega]
        rw [ihh]
        have hd : rest.drop k = (rest.drop n).drop (k - n) := by
          rw [List.drop_drop]; congr 1; omega
        simp only [hd, List.append_assoc]

/-- the hook counts and the closed flag are not touched by the parse loop; without an end of
message the marker stays unset -/
theorem parseLoop_fields (ops : Ops Pkg) : ∀ (fuel : Nat) (rx : Rx Pkg),
    (parseLoop ops fuel rx).1.nEed = rx.nEed ∧ (parseLoop ops fuel rx).1.nEnv = rx.nEnv
      ∧ (parseLoop ops fuel rx).1.closed = rx.closed
      ∧ (rx.eom = false → (parseLoop ops fuel rx).1.eom = false) := by
  intro fuel
  induction fuel with
  | zero => intro rx; simp [parseLoop]
  | succ fuel ih =>
    intro rx
    unfold parseLoop
    cases hb : rx.buf with
    | nil => simp only; split <;> simp_all
    | cons tok rest =>
      simp only
      cases ops.select tok rx.last with
      | lastErr => simp only; split <;> simp_all
      | parser p =>
        simp only
        cases hp : p rest with
        | notEnough => simp only; split <;> simp_all
        | err n => simp only; split <;> simp_all
        | panic => simp
        | ok pkg n =>
          simp only [accept_eq]
          have := ih { rx with buf := rest.drop n, last := lastAfter ops rx.last pkg }
          simpa using this

theorem run_withBuf_eq (ops : Ops Pkg) (rx : Rx Pkg) (last : Option Pkg) (buf : Bytes) :
    (run ops (withBuf rx last buf false)).1
      = withBuf rx (run ops (withBuf rx last buf false)).1.last
          (run ops (withBuf rx last buf false)).1.buf false := by
  obtain ⟨h1, h2, h3, h4⟩ := parseLoop_fields ops ((withBuf rx last buf false).buf.length + 2)
    (withBuf rx last buf false)
  have h4' := h4 rfl
  unfold run
  cases hr : (parseLoop ops ((withBuf rx last buf false).buf.length + 2) (withBuf rx last buf false)).1 with
  | mk b e l ne nv cl =>
    rw [hr] at h1 h2 h3 h4'
    simp only [withBuf] at h1 h2 h3 h4' ⊢
    simp [h1, h2, h3, h4']

/-- under `Whole` and the incremental law the loop never meets a panicking parser on any prefix -/
theorem run_flag (ops : Ops Pkg)
    (hI : ∀ tok last p, ops.select tok last = .parser p → Incr p)
    (last : Option Pkg) (T : Bytes) (hW : Whole ops last T) :
    ∀ (rx : Rx Pkg) (k : Nat) (e : Bool), (run ops (withBuf rx last (T.take k) e)).2.2 = true := by
  induction hW with
  | nil last =>
    intro rx k e
    simp only [List.take_nil]
    rw [run_nil ops _ rfl]; split <;> rfl
  | cons last tok rest p pkg n hs hp hW ih =>
    intro rx k e
    obtain ⟨hn, hstab, hshort⟩ := hI tok last p hs rest pkg n hp
    cases k with
    | zero => simp only [List.take_zero]; rw [run_nil ops _ rfl]; split <;> rfl
    | succ k =>
      rw [take_succ_cons]
      by_cases hk : k < n
      · rw [run_cons_short ops _ tok (rest.take k) p rfl hs (hshort k hk)]; split <;> rfl
      · have hsplit : rest.take k = rest.take n ++ (rest.drop n).take (k - n) := by
          have : k = n + (k - n) := by omega
          conv => lhs; rw [this, List.take_add]
        have h1 : p (rest.take k) = .ok pkg n := by rw [hsplit]; exact hstab _
        rw [run_cons_ok ops _ tok _ p pkg n rfl hs h1]
        have hdrop : (rest.take k).drop n = (rest.drop n).take (k - n) := by
          rw [hsplit, List.drop_append_of_le_length (by simp [List.length_take]; omega),
            List.drop_of_length_le (by simp [List.length_take]; omega)]
          simp
        have := ih rx (k - n) e
        simp only [withBuf] at this ⊢
        rw [hdrop]; exact this

/-- `Whole` with the list of parsed packages made explicit -/
inductive WholeP (ops : Ops Pkg) : Option Pkg → Bytes → List Pkg → Prop
  | nil (last : Option Pkg) : WholeP ops last [] []
  | cons (last : Option Pkg) (tok : UInt8) (rest : Bytes) (p : P Pkg) (pkg : Pkg) (n : Nat)
      (pkgs : List Pkg) :
      ops.select tok last = .parser p → p rest = .ok pkg n →
      WholeP ops (lastAfter ops last pkg) (rest.drop n) pkgs → WholeP ops last (tok :: rest) (pkg :: pkgs)

theorem WholeP.whole {ops : Ops Pkg} {last : Option Pkg} {T : Bytes} {pkgs : List Pkg}
    (h : WholeP ops last T pkgs) : Whole ops last T := by
  induction h with
  | nil last => exact .nil last
  | cons last tok rest p pkg n pkgs hs hp _ ih => exact .cons last tok rest p pkg n hs hp ih

/-- the synthetic final DONE at the end of a message -/
def synthDone (ops : Ops Pkg) (last : Option Pkg) : List (Ev Pkg) :=
  match last with
  | some l => if ops.isDoneFinal l then [] else [.deliver ops.doneFinal]
  | none => [.deliver ops.doneFinal]

/-- **What a whole response produces**: for each package in order its events (hook calls, packet
size changes, delivery), then the synthetic DONE(FINAL) unless the last delivered package is one;
afterwards the queue is empty and the end-of-message marker cleared. -/
theorem run_whole (ops : Ops Pkg) (last : Option Pkg) (T : Bytes) (pkgs : List Pkg)
    (hW : WholeP ops last T pkgs) : ∀ (rx : Rx Pkg),
    run ops (withBuf rx last T true) =
      (withBuf rx none [] false,
        pkgs.flatMap (acceptEv ops rx.nEed rx.nEnv) ++ synthDone ops (pkgs.foldl (lastAfter ops) last),
        true) := by
  induction hW with
  | nil last =>
    intro rx
    rw [run_nil ops _ rfl]
    simp only [withBuf, if_true, List.foldl_nil, List.flatMap_nil, List.nil_append, synthDone]
  | cons last tok rest p pkg n pkgs hs hp _ ih =>
    intro rx
    rw [run_cons_ok ops _ tok rest p pkg n rfl hs hp]
    have := ih rx
    simp only [withBuf] at this ⊢
    rw [this]
    simp [List.flatMap_cons, List.append_assoc]

end Dblib.Rx
