/-
Helper lemmas for C18: association-list facts, decimal digits are injective.
-/
import Dblib.Model.NamePool

namespace Dblib.Lemmas.C18
open Dblib Dblib.NamePool

/-! ### association lists -/

theorem lookup_some_mem {h : Handle} {id : Nat} :
    ∀ {l : List (Handle × Nat)}, l.lookup h = some id → (h, id) ∈ l
  | [], hl => by simp at hl
  | (a, b) :: t, hl => by
    simp only [List.lookup_cons] at hl
    split at hl
    · rename_i heq
      have : h = a := by simpa using heq
      simp only [Option.some.injEq] at hl
      subst this; subst hl
      exact List.mem_cons_self
    · exact List.mem_cons_of_mem _ (lookup_some_mem hl)

theorem lookup_none_not_mem {h : Handle} :
    ∀ {l : List (Handle × Nat)}, l.lookup h = none → ∀ id, (h, id) ∉ l
  | [], _, _ => by simp
  | (a, b) :: t, hl, id => by
    simp only [List.lookup_cons] at hl
    split at hl
    · simp at hl
    · rename_i hne
      have hne' : h ≠ a := by simpa using hne
      intro hm
      rcases List.mem_cons.1 hm with heq | hm
      · exact hne' (by simpa using congrArg Prod.fst heq)
      · exact lookup_none_not_mem hl id hm

theorem lookup_filter_self (h : Handle) :
    ∀ (l : List (Handle × Nat)), (l.filter (fun p => p.1 != h)).lookup h = none
  | [] => rfl
  | (a, b) :: t => by
    by_cases hab : a = h
    · subst hab
      simp [lookup_filter_self a t]
    · have : (h == a) = false := by simpa using fun e => hab e.symm
      simp [hab, List.lookup_cons, this, lookup_filter_self h t]

theorem lookup_filter_ne (h h' : Handle) (hne : h' ≠ h) :
    ∀ (l : List (Handle × Nat)), (l.filter (fun p => p.1 != h)).lookup h' = l.lookup h'
  | [] => rfl
  | (a, b) :: t => by
    by_cases hp : a = h
    · subst hp
      have hh : (h' == a) = false := by simpa using hne
      simp only [List.filter_cons, bne_self_eq_false, Bool.false_eq_true, if_false,
        List.lookup_cons, hh]
      exact lookup_filter_ne a h' hne t
    · have hk : (a != h) = true := by simpa using hp
      simp only [List.filter_cons, hk, if_true, List.lookup_cons]
      split
      · rfl
      · exact lookup_filter_ne h h' hne t

/-- with pairwise distinct ids, the id found under `h` does not survive the removal of `h` -/
theorem id_not_in_filter {h : Handle} {id : Nat} :
    ∀ {l : List (Handle × Nat)}, (l.map (·.2)).Nodup → l.lookup h = some id →
      id ∉ (l.filter (fun p => p.1 != h)).map (·.2)
  | [], _, hl => by simp at hl
  | (a, b) :: t, hnd, hl => by
    simp only [List.map_cons, List.nodup_cons] at hnd
    simp only [List.lookup_cons] at hl
    split at hl
    · rename_i heq
      have hha : h = a := by simpa using heq
      simp only [Option.some.injEq] at hl
      subst hha; subst hl
      simp only [List.filter_cons, bne_self_eq_false, Bool.false_eq_true, if_false]
      intro hm
      obtain ⟨p, hp, hpb⟩ := List.mem_map.1 hm
      exact hnd.1 (List.mem_map.2 ⟨p, (List.mem_filter.1 hp).1, hpb⟩)
    · rename_i hne
      have hne' : a ≠ h := by
        have : h ≠ a := by simpa using hne
        exact fun e => this e.symm
      have hidt : id ∈ t.map (·.2) := List.mem_map.2 ⟨(h, id), lookup_some_mem hl, rfl⟩
      have hidb : id ≠ b := fun e => hnd.1 (e ▸ hidt)
      simp only [List.filter_cons, bne_iff_ne, ne_eq, hne', not_false_eq_true, if_true,
        List.map_cons, List.mem_cons, not_or]
      exact ⟨hidb, id_not_in_filter hnd.2 hl⟩

theorem filter_ids_sublist (h : Handle) (l : List (Handle × Nat)) :
    ((l.filter (fun p => p.1 != h)).map (·.2)).Sublist (l.map (·.2)) :=
  List.Sublist.map _ List.filter_sublist

theorem filter_handles_sublist (h : Handle) (l : List (Handle × Nat)) :
    ((l.filter (fun p => p.1 != h)).map (·.1)).Sublist (l.map (·.1)) :=
  List.Sublist.map _ List.filter_sublist

/-- two entries with the same id in a list whose ids are pairwise distinct are the same entry -/
theorem same_id_same_handle {h₁ h₂ : Handle} {id : Nat} :
    ∀ {l : List (Handle × Nat)}, (l.map (·.2)).Nodup → (h₁, id) ∈ l → (h₂, id) ∈ l → h₁ = h₂
  | [], _, h1, _ => by simp at h1
  | (a, b) :: t, hnd, h1, h2 => by
    simp only [List.map_cons, List.nodup_cons] at hnd
    rcases List.mem_cons.1 h1 with e1 | m1 <;> rcases List.mem_cons.1 h2 with e2 | m2
    · have := congrArg Prod.fst e1; have := congrArg Prod.fst e2; simp_all
    · exfalso
      have hb : id = b := by simpa using congrArg Prod.snd e1
      exact hnd.1 (hb ▸ List.mem_map.2 ⟨(h₂, id), m2, rfl⟩)
    · exfalso
      have hb : id = b := by simpa using congrArg Prod.snd e2
      exact hnd.1 (hb ▸ List.mem_map.2 ⟨(h₁, id), m1, rfl⟩)
    · exact same_id_same_handle hnd.2 m1 m2

/-! ### decimal digits -/

/-- value of a digit string (left inverse of `decimal`) -/
def undec (bs : Bytes) : Nat := bs.foldl (fun acc b => acc * 10 + (b.toNat - 48)) 0

theorem digit_toNat (d : Nat) (hd : d < 10) : (UInt8.ofNat (48 + d)).toNat - 48 = d := by
  have : (UInt8.ofNat (48 + d)).toNat = 48 + d := by
    rw [UInt8.toNat_ofNat']
    omega
  omega

theorem undec_decimalFuel : ∀ (fuel n : Nat), n < fuel → undec (decimalFuel fuel n) = n
  | 0, n, h => by omega
  | fuel + 1, n, h => by
    rw [decimalFuel]
    split
    · rename_i hlt
      simp only [undec, List.foldl_cons, List.foldl_nil, Nat.zero_mul, Nat.zero_add]
      exact digit_toNat n hlt
    · rename_i hge
      have ih' := undec_decimalFuel fuel (n / 10) (by omega)
      simp only [undec] at ih' ⊢
      rw [List.foldl_append, ih']
      simp only [List.foldl_cons, List.foldl_nil]
      rw [digit_toNat (n % 10) (by omega)]
      omega

theorem undec_decimal (n : Nat) : undec (decimal n) = n :=
  undec_decimalFuel (n + 1) n (by omega)

theorem decimal_injective {a b : Nat} (h : decimal a = decimal b) : a = b := by
  have := congrArg undec h
  rwa [undec_decimal, undec_decimal] at this

theorem decimal_ne_nil (n : Nat) : decimal n ≠ [] := by
  rw [decimal, decimalFuel]
  split <;> simp

/-- every digit is an ASCII digit (so the text is what Go prints for `%d`) -/
theorem decimalFuel_digits : ∀ (fuel n : Nat), ∀ b ∈ decimalFuel fuel n, 48 ≤ b.toNat ∧ b.toNat ≤ 57
  | 0, n, b, hb => by simp [decimalFuel] at hb
  | fuel + 1, n, b, hb => by
    rw [decimalFuel] at hb
    split at hb
    · simp only [List.mem_singleton] at hb
      subst hb
      rw [UInt8.toNat_ofNat']
      omega
    · rcases List.mem_append.1 hb with hb | hb
      · exact decimalFuel_digits fuel (n / 10) b hb
      · simp only [List.mem_singleton] at hb
        subst hb
        rw [UInt8.toNat_ofNat']
        omega

theorem decimal_digits (n : Nat) : ∀ b ∈ decimal n, 48 ≤ b.toNat ∧ b.toNat ≤ 57 :=
  decimalFuel_digits (n + 1) n

/-- the number of digits does not depend on spare fuel: the first digit is not `0` unless `n = 0` -/
theorem decimal_small : decimal 0 = [48] ∧ decimal 9 = [57] ∧ decimal 10 = [49, 48] ∧
    decimal 18446744073709551615 =
      [49, 56, 52, 52, 54, 55, 52, 52, 48, 55, 51, 55, 48, 57, 53, 53, 49, 54, 49, 53] := by
  refine ⟨by decide, by decide, by decide, ?_⟩
  simp [decimal, decimalFuel]

/-- the format is injective in the id -/
theorem render_injective (f : Fmt) {a b : Nat} (h : f.render a = f.render b) : a = b := by
  simp only [Fmt.render, List.append_assoc] at h
  have h1 := List.append_cancel_left h
  exact decimal_injective (List.append_cancel_right h1)

end Dblib.Lemmas.C18
