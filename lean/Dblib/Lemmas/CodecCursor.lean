/-
Lemmas for the Cursor codec group (Model/Codec/Cursor.lean):

* `Total` (no input makes a parser panic) and its closure lemmas — the C10 counterpart of the
  `Incr` closure lemmas of Lemmas/Parser.lean;
* evaluation lemmas of the parser primitives on an encoding followed by arbitrary bytes
  (`uintLE w (leEncode w n ++ rest) = ok n w` for `n < 256^w`, …) in "bind" form, so that a
  round trip is proved by rewriting along the decoder's syntax.
-/
import Dblib.Model.Codec.Cursor
import Dblib.Lemmas.Parser

namespace Dblib.CodecCursor
open Dblib Dblib.P

/-! ## totality -/

/-- no input makes the parser panic -/
def Total (p : P α) : Prop := ∀ s, p s ≠ .panic

theorem total_pure (a : α) : Total (Pure.pure a : P α) := by
  intro s h; simp [Pure.pure, P.pure] at h

theorem total_fail : Total (P.fail : P α) := by
  intro s h; simp [P.fail] at h

theorem total_take (k : Nat) : Total (P.take k) := by
  intro s h; unfold P.take at h; split at h <;> simp at h

theorem total_u8 : Total P.u8 := by
  intro s h; unfold P.u8 at h; split at h <;> simp at h

theorem total_bind {p : P α} {f : α → P β} (hp : Total p) (hf : ∀ a, Total (f a)) :
    Total (p >>= f) := by
  intro s h
  simp only [Bind.bind, P.bind] at h
  cases hps : p s with
  | notEnough => simp [hps] at h
  | err e => simp [hps] at h
  | panic => exact hp s hps
  | ok a n =>
    simp only [hps] at h
    cases hfs : f a (s.drop n) with
    | notEnough => simp [hfs] at h
    | err e => simp [hfs] at h
    | panic => exact hf a _ hfs
    | ok b m => simp [hfs] at h

theorem total_uintLE (w : Nat) : Total (P.uintLE w) :=
  total_bind (total_take w) (fun _ => total_pure _)

theorem total_u16 : Total P.u16 := total_uintLE 2
theorem total_u32 : Total P.u32 := total_uintLE 4

theorem total_intLE (w : Nat) : Total (P.intLE w) :=
  total_bind (total_uintLE w) (fun _ => total_pure _)

theorem total_guard (c : Bool) : Total (P.guard c) := by
  unfold P.guard; split
  · exact total_pure ()
  · exact total_fail

theorem total_replicateM (k : Nat) {p : P α} (hp : Total p) : Total (P.replicateM k p) := by
  induction k with
  | zero => exact total_pure _
  | succ k ih => exact total_bind hp (fun a => total_bind ih (fun as => total_pure _))

/-- apply the closure lemmas along the syntax of a `do` block -/
macro "total_steps" : tactic => `(tactic| repeat (first
  | exact total_pure _ | exact total_u8 | exact total_u16 | exact total_u32
  | exact total_uintLE _ | exact total_intLE _ | exact total_take _ | exact total_guard _
  | exact total_fail | assumption
  | refine total_bind ?_ (fun _ => ?_) | refine total_replicateM _ ?_ | split))

/-! ## little-endian primitives -/

theorem leEncode_length (w n : Nat) : (leEncode w n).length = w := by
  induction w generalizing n with
  | zero => rfl
  | succ w ih => simp [leEncode, ih]

theorem leDecode_leEncode (w n : Nat) (h : n < 256 ^ w) : leDecode (leEncode w n) = n := by
  induction w generalizing n with
  | zero => simp at h; simp [leEncode, leDecode, h]
  | succ w ih =>
    have h2 : n / 256 < 256 ^ w := by
      rw [Nat.pow_succ] at h
      exact Nat.div_lt_of_lt_mul (by rw [Nat.mul_comm]; exact h)
    have hb : (UInt8.ofNat (n % 256)).toNat = n % 256 := by
      simp
    simp only [leEncode, leDecode, ih _ h2, hb]
    omega

/-- a parser's result with `k` more bytes consumed before it -/
def shift (k : Nat) : Res α → Res α
  | .ok a n => .ok a (k + n)
  | .notEnough => .notEnough
  | .err n => .err (k + n)
  | .panic => .panic

@[simp] theorem shift_ok (k n : Nat) (a : α) : shift k (Res.ok a n) = .ok a (k + n) := rfl
@[simp] theorem shift_shift (j k : Nat) (r : Res α) : shift j (shift k r) = shift (j + k) r := by
  cases r <;> simp [shift, Nat.add_assoc]
@[simp] theorem shift_zero (r : Res α) : shift 0 r = r := by
  cases r <;> simp [shift]

theorem bind_of_ok {p : P α} {f : α → P β} {s : Bytes} {a : α} {n : Nat} (h : p s = .ok a n) :
    (p >>= f) s = shift n (f a (s.drop n)) := by
  simp only [Bind.bind, P.bind, h]
  cases f a (s.drop n) <;> rfl

theorem pure_apply (a : α) (s : Bytes) : (Pure.pure a : P α) s = .ok a 0 := rfl

theorem pure_bind_apply (a : α) (f : α → P β) (s : Bytes) : ((Pure.pure a : P α) >>= f) s = f a s := by
  rw [bind_of_ok (pure_apply a s)]; simp

theorem take_append (bs rest : Bytes) : P.take bs.length (bs ++ rest) = .ok bs bs.length := by
  simp [P.take]

theorem take_bind (k : Nat) (bs rest : Bytes) (f : Bytes → P β) (hk : k = bs.length) :
    (P.take k >>= f) (bs ++ rest) = shift k (f bs rest) := by
  subst hk
  rw [bind_of_ok (take_append bs rest)]; simp

theorem uintLE_append (w n : Nat) (rest : Bytes) (h : n < 256 ^ w) :
    P.uintLE w (leEncode w n ++ rest) = .ok n w := by
  unfold P.uintLE
  have := take_bind w (leEncode w n) rest (fun bs => (Pure.pure (leDecode bs) : P Nat))
    (leEncode_length w n).symm
  rw [this, pure_apply, leDecode_leEncode w n h]; simp

theorem uintLE_bind (w n : Nat) (rest : Bytes) (f : Nat → P β) (h : n < 256 ^ w) :
    (P.uintLE w >>= f) (leEncode w n ++ rest) = shift w (f n rest) := by
  rw [bind_of_ok (uintLE_append w n rest h)]
  simp [leEncode_length]

theorem u8_append (n : Nat) (rest : Bytes) (h : n < 256) : P.u8 (leEncode 1 n ++ rest) = .ok n 1 := by
  have : (UInt8.ofNat (n % 256)).toNat = n := by simp; omega
  simp [leEncode, P.u8, this]

theorem u8_bind (n : Nat) (rest : Bytes) (f : Nat → P β) (h : n < 256) :
    (P.u8 >>= f) (leEncode 1 n ++ rest) = shift 1 (f n rest) := by
  rw [bind_of_ok (u8_append n rest h)]
  simp [leEncode]

theorem leEncodeInt_length (w : Nat) (i : Int) : (Codec.leEncodeInt w i).length = w := by
  simp [Codec.leEncodeInt, leEncode_length]

theorem intLE4_append (i : Int) (rest : Bytes) (h : Codec.Cursor.isInt32 i) :
    P.intLE 4 (Codec.leEncodeInt 4 i ++ rest) = .ok i 4 := by
  unfold P.intLE Codec.leEncodeInt
  obtain ⟨h1, h2⟩ := h
  have hm : (i % ((256 ^ 4 : Nat) : Int)).toNat < 256 ^ 4 := by
    simp only [Nat.reducePow]; omega
  rw [uintLE_bind 4 _ rest _ hm, pure_apply]
  simp only [shift_ok, Nat.add_zero, P.toSigned, Nat.reducePow]
  congr 1
  split <;> omega

theorem intLE4_bind (i : Int) (rest : Bytes) (f : Int → P β) (h : Codec.Cursor.isInt32 i) :
    (P.intLE 4 >>= f) (Codec.leEncodeInt 4 i ++ rest) = shift 4 (f i rest) := by
  rw [bind_of_ok (intLE4_append i rest h)]
  simp [leEncodeInt_length]

theorem bind_assoc_apply (p : P α) (g : α → P β) (f : β → P γ) (s : Bytes) :
    ((p >>= g) >>= f) s = (p >>= fun a => g a >>= f) s := by
  simp only [Bind.bind, P.bind]
  cases p s with
  | notEnough => rfl
  | err e => rfl
  | panic => rfl
  | ok a n =>
    simp only []
    cases g a (s.drop n) with
    | notEnough => rfl
    | err e => rfl
    | panic => rfl
    | ok b m =>
      simp only [List.drop_drop]
      cases f b (List.drop (n + m) s) <;> simp [Nat.add_assoc]

theorem guard_bind_true (c : Bool) (f : Unit → P β) (s : Bytes) (h : c = true) :
    (P.guard c >>= f) s = f () s := by
  subst h
  simp only [P.guard, if_true]
  exact pure_bind_apply () f s

theorem guard_beq_bind (a b : Nat) (f : Unit → P β) (s : Bytes) (h : a = b) :
    (P.guard (a == b) >>= f) s = f () s :=
  guard_bind_true _ f s (by simp [h])

theorem guard_bind_false (c : Bool) (f : Unit → P β) (s : Bytes) (h : c = false) :
    (P.guard c >>= f) s = .err 0 := by
  subst h
  simp [P.guard, Bind.bind, P.bind, P.fail]

theorem shift_eq_ok {r : Res α} {k : Nat} {a : α} {n : Nat} (h : shift k r = .ok a n) :
    ∃ m, r = .ok a m := by
  cases r with
  | ok b m => simp only [shift_ok, Res.ok.injEq] at h; exact ⟨m, by rw [h.1]⟩
  | notEnough => simp [shift] at h
  | err e => simp [shift] at h
  | panic => simp [shift] at h

theorem bind_eq_ok {p : P α} {f : α → P β} {s : Bytes} {b : β} {m : Nat} (h : (p >>= f) s = .ok b m) :
    ∃ a n m', p s = .ok a n ∧ f a (s.drop n) = .ok b m' := by
  simp only [Bind.bind, P.bind] at h
  cases hp : p s with
  | notEnough => simp [hp] at h
  | err e => simp [hp] at h
  | panic => simp [hp] at h
  | ok a n =>
    simp only [hp] at h
    cases hf : f a (s.drop n) with
    | notEnough => simp [hf] at h
    | err e => simp [hf] at h
    | panic => simp [hf] at h
    | ok b' m' =>
      simp only [hf, Res.ok.injEq] at h
      exact ⟨a, n, m', rfl, by rw [hf, h.1]⟩

theorem guard_bind_ok {c : Bool} {f : Unit → P β} {s : Bytes} {b : β} {m : Nat}
    (h : (P.guard c >>= f) s = .ok b m) : c = true := by
  cases c with
  | true => rfl
  | false => rw [guard_bind_false false f s rfl] at h; simp at h

/-! ## evaluation of the group's shared sub-parsers -/

open Dblib.Codec Dblib.Codec.Cursor

/-- the simp set that evaluates a decoder on an encoding, read by read -/
macro "rt_simp" "[" ts:Lean.Parser.Tactic.simpLemma,* "]" : tactic =>
  `(tactic| simp only [List.append_assoc, bind_assoc_apply, uintLE_bind, u8_bind, take_bind, intLE4_bind,
      pure_bind_apply, pure_apply, shift_shift, shift_ok, shift_zero, List.length_append, leEncode_length,
      leEncodeInt_length, List.nil_append, List.length_nil, List.length_cons, Bool.false_eq_true, ↓reduceIte,
      P.u16, P.u32, Nat.add_zero, Nat.zero_add, $ts,*])

macro "rt_simp_at" h:ident "[" ts:Lean.Parser.Tactic.simpLemma,* "]" : tactic =>
  `(tactic| simp only [List.append_assoc, bind_assoc_apply, uintLE_bind, u8_bind, take_bind, intLE4_bind,
      pure_bind_apply, pure_apply, shift_shift, shift_ok, shift_zero, List.length_append, leEncode_length,
      leEncodeInt_length, List.nil_append, List.length_nil, List.length_cons, Bool.false_eq_true, ↓reduceIte,
      P.u16, P.u32, Nat.add_zero, Nat.zero_add, $ts,*] at $h:ident)

theorem cursorRef_bind (id : Int) (name rest : Bytes) (f : Int × Bytes × Nat → P β)
    (hid : isInt32 id) (hn : id = 0 → name.length < 256) :
    (cursorRef >>= f) (encCursorRef id name ++ rest) =
      shift (lenCursorRef id name) (f (id, (if id = 0 then name else []), lenCursorRef id name) rest) := by
  unfold cursorRef encCursorRef lenCursorRef
  by_cases h0 : id = 0
  · have hn' := hn h0
    rt_simp [h0, hid, hn']
    have h00 : isInt32 0 := by decide
    rt_simp [h00, hn']
    simp only [Nat.add_assoc]
  · rt_simp [h0, hid]

theorem encCursorRef_length (id : Int) (name : Bytes) :
    (encCursorRef id name).length = lenCursorRef id name := by
  unfold encCursorRef lenCursorRef
  by_cases h0 : id = 0 <;> simp [h0, leEncode_length, leEncodeInt_length]

theorem encCols_length (cols : List Bytes) : (encCols cols).length = colsLen cols := by
  induction cols with
  | nil => rfl
  | cons c cs ih =>
    simp only [encCols, colsLen, List.map_cons, List.flatten_cons, List.sum_cons, List.length_append,
      leEncode_length] at *
    omega

theorem colName_bind (c rest : Bytes) (f : Bytes → P β) (hc : c.length < 256) :
    (colName >>= f) (leEncode 1 c.length ++ (c ++ rest)) = shift (1 + c.length) (f c rest) := by
  unfold colName
  rt_simp [hc]

theorem cols_bind (cols : List Bytes) (rest : Bytes) (f : List Bytes → P β)
    (h : ∀ c ∈ cols, c.length < 256) :
    (P.replicateM cols.length colName >>= f) (encCols cols ++ rest) = shift (colsLen cols) (f cols rest) := by
  induction cols generalizing f with
  | nil => simp [P.replicateM, encCols, colsLen, pure_bind_apply]
  | cons c cs ih =>
    have hc : c.length < 256 := h c (by simp)
    have hcs : ∀ d ∈ cs, d.length < 256 := fun d hd => h d (by simp [hd])
    simp only [List.length_cons, P.replicateM, encCols, colsLen, List.map_cons, List.flatten_cons,
      List.sum_cons]
    rt_simp [colName_bind _ _ _ hc]
    have := ih (fun as => (Pure.pure (c :: as) : P (List Bytes)) >>= f) hcs
    simp only [encCols, colsLen] at this
    rw [this]
    rt_simp []

end Dblib.CodecCursor
