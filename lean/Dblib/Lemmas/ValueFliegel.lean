/-
The Fliegel / Van Flandern steps of `asetime.MicrosecondsToTime` invert the day number, month by month
(`fliegel_civil`), and `MicrosecondsToTime ∘ TimeToMicroseconds = id` (`micro_inverse`).  C05.
-/
import Dblib.Lemmas.ValueCal

namespace Dblib.Lemmas.ValueCal
open Dblib.AseTime

/-- days before March 1 of the March-based year `y'`, split into century and year of the century -/
theorem yearStart_march (y' : Int) :
    365 * y' + y' / 4 - y' / 100 + y' / 400
      = 36524 * (y' / 100) + y' / 100 / 4 + 365 * (y' % 100) + y' % 100 / 4 := by
  have f1 : y' / 4 = 25 * (y' / 100) + y' % 100 / 4 := by omega
  have f2 : y' / 400 = y' / 100 / 4 := by omega
  rw [f1, f2]; omega

theorem fliegel_jan (y : Int) (d : Nat) (h3 : 1 ≤ d) (h4 : d ≤ daysInMonth 1 (isLeap y)) (hy : -4800 ≤ y) :
    fliegel (daysFromCivil y 1 d - 693595) = (y, 1, (d : Int)) := by
  have key := fliegel_march ((y - 1) / 100) ((y - 1) % 100) 10 d (by omega) (by omega) (by omega)
    (by simp [marchLen, daysInMonth] at h4 ⊢; omega)
  have e := yearStart_march (y - 1)
  have : daysFromCivil y 1 d - 693595 = 36524 * ((y - 1) / 100) + (y - 1) / 100 / 4 + 365 * ((y - 1) % 100)
      + (y - 1) % 100 / 4 + (153 * 10 + 2) / 5 + d - 693902 := by
    simp only [daysFromCivil, yearStart, daysBeforeMonth, cumDays]
    cases isLeap y <;> simp <;> omega
  rw [this, key]
  simp; omega

theorem fliegel_feb (y : Int) (d : Nat) (h3 : 1 ≤ d) (h4 : d ≤ daysInMonth 2 (isLeap y)) (hy : -4800 ≤ y) :
    fliegel (daysFromCivil y 2 d - 693595) = (y, 2, (d : Int)) := by
  have ey : 100 * ((y - 1) / 100) + (y - 1) % 100 + 1 = y := by omega
  have hlen : 1 ≤ (d : Int) ∧ (d : Int) ≤ marchLen 11 (isLeap (100 * ((y - 1) / 100) + (y - 1) % 100 + 1)) := by
    rw [ey]; simp only [marchLen, daysInMonth] at h4 ⊢
    cases h : isLeap y <;> simp [h] at h4 ⊢ <;> omega
  have key := fliegel_march ((y - 1) / 100) ((y - 1) % 100) 11 d (by omega) (by omega) (by omega) hlen
  have e := yearStart_march (y - 1)
  have : daysFromCivil y 2 d - 693595 = 36524 * ((y - 1) / 100) + (y - 1) / 100 / 4 + 365 * ((y - 1) % 100)
      + (y - 1) % 100 / 4 + (153 * 11 + 2) / 5 + d - 693902 := by
    simp only [daysFromCivil, yearStart, daysBeforeMonth, cumDays]
    cases isLeap y <;> simp <;> omega
  rw [this, key]
  simp; omega

theorem fliegel_mar (y : Int) (d : Nat) (h3 : 1 ≤ d) (h4 : d ≤ daysInMonth 3 (isLeap y)) (hy : -4800 ≤ y) :
    fliegel (daysFromCivil y 3 d - 693595) = (y, 3, (d : Int)) := by
  have hl := isLeap_iff y
  have key := fliegel_march (y / 100) (y % 100) 0 d (by omega) (by omega) (by omega)
    (by simp [marchLen, daysInMonth] at h4 ⊢; omega)
  have e := yearStart_march y
  have : daysFromCivil y 3 d - 693595 = 36524 * (y / 100) + y / 100 / 4 + 365 * (y % 100) + y % 100 / 4
      + (153 * 0 + 2) / 5 + d - 693902 := by
    simp only [daysFromCivil, yearStart, daysBeforeMonth, cumDays]
    cases h : isLeap y <;> simp [h] at hl <;> simp <;> omega
  rw [this, key]
  simp; omega

theorem fliegel_apr (y : Int) (d : Nat) (h3 : 1 ≤ d) (h4 : d ≤ daysInMonth 4 (isLeap y)) (hy : -4800 ≤ y) :
    fliegel (daysFromCivil y 4 d - 693595) = (y, 4, (d : Int)) := by
  have hl := isLeap_iff y
  have key := fliegel_march (y / 100) (y % 100) 1 d (by omega) (by omega) (by omega)
    (by simp [marchLen, daysInMonth] at h4 ⊢; omega)
  have e := yearStart_march y
  have : daysFromCivil y 4 d - 693595 = 36524 * (y / 100) + y / 100 / 4 + 365 * (y % 100) + y % 100 / 4
      + (153 * 1 + 2) / 5 + d - 693902 := by
    simp only [daysFromCivil, yearStart, daysBeforeMonth, cumDays]
    cases h : isLeap y <;> simp [h] at hl <;> simp <;> omega
  rw [this, key]
  simp; omega

theorem fliegel_may (y : Int) (d : Nat) (h3 : 1 ≤ d) (h4 : d ≤ daysInMonth 5 (isLeap y)) (hy : -4800 ≤ y) :
    fliegel (daysFromCivil y 5 d - 693595) = (y, 5, (d : Int)) := by
  have hl := isLeap_iff y
  have key := fliegel_march (y / 100) (y % 100) 2 d (by omega) (by omega) (by omega)
    (by simp [marchLen, daysInMonth] at h4 ⊢; omega)
  have e := yearStart_march y
  have : daysFromCivil y 5 d - 693595 = 36524 * (y / 100) + y / 100 / 4 + 365 * (y % 100) + y % 100 / 4
      + (153 * 2 + 2) / 5 + d - 693902 := by
    simp only [daysFromCivil, yearStart, daysBeforeMonth, cumDays]
    cases h : isLeap y <;> simp [h] at hl <;> simp <;> omega
  rw [this, key]
  simp; omega

theorem fliegel_jun (y : Int) (d : Nat) (h3 : 1 ≤ d) (h4 : d ≤ daysInMonth 6 (isLeap y)) (hy : -4800 ≤ y) :
    fliegel (daysFromCivil y 6 d - 693595) = (y, 6, (d : Int)) := by
  have hl := isLeap_iff y
  have key := fliegel_march (y / 100) (y % 100) 3 d (by omega) (by omega) (by omega)
    (by simp [marchLen, daysInMonth] at h4 ⊢; omega)
  have e := yearStart_march y
  have : daysFromCivil y 6 d - 693595 = 36524 * (y / 100) + y / 100 / 4 + 365 * (y % 100) + y % 100 / 4
      + (153 * 3 + 2) / 5 + d - 693902 := by
    simp only [daysFromCivil, yearStart, daysBeforeMonth, cumDays]
    cases h : isLeap y <;> simp [h] at hl <;> simp <;> omega
  rw [this, key]
  simp; omega

theorem fliegel_jul (y : Int) (d : Nat) (h3 : 1 ≤ d) (h4 : d ≤ daysInMonth 7 (isLeap y)) (hy : -4800 ≤ y) :
    fliegel (daysFromCivil y 7 d - 693595) = (y, 7, (d : Int)) := by
  have hl := isLeap_iff y
  have key := fliegel_march (y / 100) (y % 100) 4 d (by omega) (by omega) (by omega)
    (by simp [marchLen, daysInMonth] at h4 ⊢; omega)
  have e := yearStart_march y
  have : daysFromCivil y 7 d - 693595 = 36524 * (y / 100) + y / 100 / 4 + 365 * (y % 100) + y % 100 / 4
      + (153 * 4 + 2) / 5 + d - 693902 := by
    simp only [daysFromCivil, yearStart, daysBeforeMonth, cumDays]
    cases h : isLeap y <;> simp [h] at hl <;> simp <;> omega
  rw [this, key]
  simp; omega

theorem fliegel_aug (y : Int) (d : Nat) (h3 : 1 ≤ d) (h4 : d ≤ daysInMonth 8 (isLeap y)) (hy : -4800 ≤ y) :
    fliegel (daysFromCivil y 8 d - 693595) = (y, 8, (d : Int)) := by
  have hl := isLeap_iff y
  have key := fliegel_march (y / 100) (y % 100) 5 d (by omega) (by omega) (by omega)
    (by simp [marchLen, daysInMonth] at h4 ⊢; omega)
  have e := yearStart_march y
  have : daysFromCivil y 8 d - 693595 = 36524 * (y / 100) + y / 100 / 4 + 365 * (y % 100) + y % 100 / 4
      + (153 * 5 + 2) / 5 + d - 693902 := by
    simp only [daysFromCivil, yearStart, daysBeforeMonth, cumDays]
    cases h : isLeap y <;> simp [h] at hl <;> simp <;> omega
  rw [this, key]
  simp; omega

theorem fliegel_sep (y : Int) (d : Nat) (h3 : 1 ≤ d) (h4 : d ≤ daysInMonth 9 (isLeap y)) (hy : -4800 ≤ y) :
    fliegel (daysFromCivil y 9 d - 693595) = (y, 9, (d : Int)) := by
  have hl := isLeap_iff y
  have key := fliegel_march (y / 100) (y % 100) 6 d (by omega) (by omega) (by omega)
    (by simp [marchLen, daysInMonth] at h4 ⊢; omega)
  have e := yearStart_march y
  have : daysFromCivil y 9 d - 693595 = 36524 * (y / 100) + y / 100 / 4 + 365 * (y % 100) + y % 100 / 4
      + (153 * 6 + 2) / 5 + d - 693902 := by
    simp only [daysFromCivil, yearStart, daysBeforeMonth, cumDays]
    cases h : isLeap y <;> simp [h] at hl <;> simp <;> omega
  rw [this, key]
  simp; omega

theorem fliegel_oct (y : Int) (d : Nat) (h3 : 1 ≤ d) (h4 : d ≤ daysInMonth 10 (isLeap y)) (hy : -4800 ≤ y) :
    fliegel (daysFromCivil y 10 d - 693595) = (y, 10, (d : Int)) := by
  have hl := isLeap_iff y
  have key := fliegel_march (y / 100) (y % 100) 7 d (by omega) (by omega) (by omega)
    (by simp [marchLen, daysInMonth] at h4 ⊢; omega)
  have e := yearStart_march y
  have : daysFromCivil y 10 d - 693595 = 36524 * (y / 100) + y / 100 / 4 + 365 * (y % 100) + y % 100 / 4
      + (153 * 7 + 2) / 5 + d - 693902 := by
    simp only [daysFromCivil, yearStart, daysBeforeMonth, cumDays]
    cases h : isLeap y <;> simp [h] at hl <;> simp <;> omega
  rw [this, key]
  simp; omega

theorem fliegel_nov (y : Int) (d : Nat) (h3 : 1 ≤ d) (h4 : d ≤ daysInMonth 11 (isLeap y)) (hy : -4800 ≤ y) :
    fliegel (daysFromCivil y 11 d - 693595) = (y, 11, (d : Int)) := by
  have hl := isLeap_iff y
  have key := fliegel_march (y / 100) (y % 100) 8 d (by omega) (by omega) (by omega)
    (by simp [marchLen, daysInMonth] at h4 ⊢; omega)
  have e := yearStart_march y
  have : daysFromCivil y 11 d - 693595 = 36524 * (y / 100) + y / 100 / 4 + 365 * (y % 100) + y % 100 / 4
      + (153 * 8 + 2) / 5 + d - 693902 := by
    simp only [daysFromCivil, yearStart, daysBeforeMonth, cumDays]
    cases h : isLeap y <;> simp [h] at hl <;> simp <;> omega
  rw [this, key]
  simp; omega

theorem fliegel_dec (y : Int) (d : Nat) (h3 : 1 ≤ d) (h4 : d ≤ daysInMonth 12 (isLeap y)) (hy : -4800 ≤ y) :
    fliegel (daysFromCivil y 12 d - 693595) = (y, 12, (d : Int)) := by
  have hl := isLeap_iff y
  have key := fliegel_march (y / 100) (y % 100) 9 d (by omega) (by omega) (by omega)
    (by simp [marchLen, daysInMonth] at h4 ⊢; omega)
  have e := yearStart_march y
  have : daysFromCivil y 12 d - 693595 = 36524 * (y / 100) + y / 100 / 4 + 365 * (y % 100) + y % 100 / 4
      + (153 * 9 + 2) / 5 + d - 693902 := by
    simp only [daysFromCivil, yearStart, daysBeforeMonth, cumDays]
    cases h : isLeap y <;> simp [h] at hl <;> simp <;> omega
  rw [this, key]
  simp; omega

/-- **Fliegel / Van Flandern inverts the day number**: for every valid date of every year ≥ −4800, the
steps of `MicrosecondsToTime` applied to the days since 1900-01-01 give back year, month and day -/
theorem fliegel_civil (y : Int) (m d : Nat) (hv : ValidDate y m d) (hy : -4800 ≤ y) :
    fliegel (daysFromCivil y m d - 693595) = (y, (m : Int), (d : Int)) := by
  obtain ⟨h1, h2, h3, h4⟩ := hv
  have hm' : m = 1 ∨ m = 2 ∨ m = 3 ∨ m = 4 ∨ m = 5 ∨ m = 6 ∨ m = 7 ∨ m = 8 ∨ m = 9 ∨ m = 10 ∨ m = 11 ∨ m = 12 := by
    omega
  rcases hm' with h | h | h | h | h | h | h | h | h | h | h | h <;> subst h
  · exact fliegel_jan y d h3 h4 hy
  · exact fliegel_feb y d h3 h4 hy
  · exact fliegel_mar y d h3 h4 hy
  · exact fliegel_apr y d h3 h4 hy
  · exact fliegel_may y d h3 h4 hy
  · exact fliegel_jun y d h3 h4 hy
  · exact fliegel_jul y d h3 h4 hy
  · exact fliegel_aug y d h3 h4 hy
  · exact fliegel_sep y d h3 h4 hy
  · exact fliegel_oct y d h3 h4 hy
  · exact fliegel_nov y d h3 h4 hy
  · exact fliegel_dec y d h3 h4 hy

/-! ### `MicrosecondsToTime` and `TimeToMicroseconds` -/

theorem add_small (day : Int) (ns : Nat) (d : Int) (h0 : 0 ≤ (ns : Int) + d) (h1 : (ns : Int) + d < 86400000000000) :
    Time.add ⟨day, ns⟩ d = ⟨day, ((ns : Int) + d).toNat⟩ := by
  simp only [Time.add, nsPerDay]
  congr 1 <;> omega

/-- `MicrosecondsToTime` of the microsecond count `(D + 366) days + u µs` (day `D` since 0001-01-01) -/
theorem microsecondsToTime_eq (D : Int) (u : Nat) (hD : -366 ≤ D) (hD' : D < 100000000) (hu : u < 86400000000) :
    microsecondsToTime (((D + 366) * 86400000000 + (u : Int)).toNat) = ⟨D, u * 1000⟩ := by
  obtain ⟨e, hv⟩ := civil_days D
  have hy : -4800 ≤ (civilFromDays D).1 := by have := year_ge_of_day_ge D (by omega); omega
  have hf := fliegel_civil _ _ _ hv hy
  rw [e] at hf
  have h1 : (((((D + 366) * 86400000000 + (u : Int)).toNat / 1000000 : Nat) : Int))
      = (D + 366) * 86400 + (u / 1000000 : Nat) := by omega
  have h2 : (((((D + 366) * 86400000000 + (u : Int)).toNat % 1000000 : Nat) : Int)) = (u % 1000000 : Nat) := by
    omega
  simp only [microsecondsToTime, h1, h2]
  rw [Int.tdiv_eq_ediv_of_nonneg (by omega), Int.tmod_eq_emod_of_nonneg (by omega)]
  have h3 : ((D + 366) * 86400 + ((u / 1000000 : Nat) : Int)) / 86400 - 693961 = D - 693595 := by omega
  have h4 : ((D + 366) * 86400 + ((u / 1000000 : Nat) : Int)) % 86400 = (u / 1000000 : Nat) := by omega
  rw [h3, h4, hf]
  simp only [mkDate_midnight _ _ _ hv, e]
  have hA : ((u % 1000000 : Nat) : Int) * 1000 < 1000000000 := by omega
  have inner : (if ((u % 1000000 : Nat) : Int) * 1000 ≠ 0
      then Time.add ⟨D, 0⟩ (((u % 1000000 : Nat) : Int) * 1000)
      else ⟨D, 0⟩) = (⟨D, (u % 1000000) * 1000⟩ : Time) := by
    split
    · rw [add_small D 0 _ (by omega) (by omega)]; congr 1; omega
    · congr 1; omega
  simp only [inner]
  split
  · rw [add_small D _ _ (by omega) (by omega)]; simp only [Time.mk.injEq, true_and]; omega
  · simp only [Time.mk.injEq, true_and]; omega

/-- `MicrosecondsToTime (TimeToMicroseconds t)` is `t` truncated to the microsecond -/
theorem micro_inverse (t : Time) (h : t.ns < nsPerDay) (hd : 0 ≤ t.day) (hd' : t.day < 100000000) :
    microsecondsToTime (timeToMicroseconds t) = ⟨t.day, t.ns / 1000 * 1000⟩ := by
  rw [timeToMicroseconds_eq t h hd hd']
  have : t.ns / 1000 < 86400000000 := by simp only [nsPerDay] at h; omega
  exact microsecondsToTime_eq t.day (t.ns / 1000) (by omega) hd' this

end Dblib.Lemmas.ValueCal
