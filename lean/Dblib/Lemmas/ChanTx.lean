/-
Lemmas about the transmit model (`Model/ChanTx.lean`): what `sendPackets` emits for a queue in
writer shape, and the headers `sendPacket` stamps on full packets.
-/
import Dblib.Model.ChanTx
import Dblib.Lemmas.PacketQueueWrite

namespace Dblib.Tx
open Dblib.PQ

/-- `sendPacket` applied to a list of packets in order -/
def sendMany : Tx → List Packet → Tx × List Packet
  | tx, [] => (tx, [])
  | tx, p :: ps =>
    let r := tx.sendPacket p
    let rs := sendMany r.1 ps
    (rs.1, r.2 :: rs.2)

theorem sendLoop_prefix (onlyFull : Bool) (ip di : Nat) (init : List Packet) :
    ∀ (rest : List Packet) (i : Nat) (tx : Tx) (acc : List Packet), i + init.length ≤ ip →
      sendLoop onlyFull ip di tx (init ++ rest) i acc
        = sendLoop onlyFull ip di (sendMany tx init).1 rest (i + init.length)
            ((sendMany tx init).2.reverse ++ acc) := by
  induction init with
  | nil => intro rest i tx acc _; simp [sendMany]
  | cons p ps ih =>
    intro rest i tx acc hle
    simp only [List.length_cons] at hle
    have hne : (i == ip) = false := by simp; omega
    simp only [List.cons_append, sendLoop, hne, Bool.false_eq_true, if_false]
    rw [ih rest (i + 1) _ _ (by omega)]
    simp [sendMany, Nat.add_assoc, Nat.add_comm 1]

/-- `sendPackets(onlyFull = true)` on a queue `init ++ [last]` positioned in `last`: the packets in
front of the position are sent, `last` is held back. -/
theorem sendPackets_onlyFull (tx : Tx) (init : List Packet) (last : Packet) (di : Nat) (e : Bool)
    (hq : tx.q = ⟨init ++ [last], init.length, di, e⟩) :
    tx.sendPackets true
      = some ({ (sendMany tx init).1 with q := ⟨[last], 0, di, e⟩ }, (sendMany tx init).2) := by
  unfold sendPackets
  rw [hq]
  simp only
  rw [sendLoop_prefix true init.length di init [last] 0 tx [] (by simp)]
  simp [sendLoop]

theorem sendPackets_onlyFull_empty (tx : Tx) (e : Bool) (hq : tx.q = ⟨[], 0, 0, e⟩) :
    tx.sendPackets true = some (tx, []) := by
  unfold sendPackets
  rw [hq]
  simp only [sendLoop, List.reverse_nil, List.length_nil, Nat.le_refl, if_true, List.drop_nil]
  cases tx; simp_all

/-- the last packet of a message as `sendPackets(false)` prepares it -/
def trimLast (last : Packet) (di : Nat) : Packet :=
  { hdr := { last.hdr with length := (8 + di) % 65536, status := setEOM last.hdr.status },
    data := last.data.take di }

/-- `sendPackets(onlyFull = false)`: everything is sent, the position packet trimmed to the data
index and marked EOM; the queue is empty afterwards. -/
theorem sendPackets_flush (tx : Tx) (init : List Packet) (last : Packet) (di : Nat) (e : Bool)
    (hq : tx.q = ⟨init ++ [last], init.length, di, e⟩) (hdi : di ≤ last.data.length) :
    tx.sendPackets false
      = some ({ ((sendMany tx init).1.sendPacket (trimLast last di)).1 with q := ⟨[], 0, 0, e⟩ },
              (sendMany tx init).2 ++ [((sendMany tx init).1.sendPacket (trimLast last di)).2]) := by
  unfold sendPackets
  rw [hq]
  simp only
  rw [sendLoop_prefix false init.length di init [last] 0 tx [] (by simp)]
  have hnd : ¬ di > last.data.length := by omega
  simp only [sendLoop, Nat.zero_add, beq_self_eq_true, if_true, Bool.false_eq_true, if_false, hnd,
    trimLast]
  rw [setData_last]
  simp only [PQ.discard, List.length_append, List.length_cons, List.length_nil]
  have h1 : ¬ (init.length > init.length + (0 + 1)) := by omega
  simp only [h1, if_false, List.drop_left']
  have h2 : min di last.data.length ≤ di := by omega
  simp [h2]

theorem sendPackets_flush_empty (tx : Tx) (e : Bool) (hq : tx.q = ⟨[], 0, 0, e⟩) :
    tx.sendPackets false = some (tx, []) := by
  unfold sendPackets
  rw [hq]
  simp only [sendLoop, List.reverse_nil, Bool.false_eq_true, if_false, setData, List.modify_nil,
    PQ.discard, List.length_nil, List.drop_nil]
  cases tx; simp_all

/-! ### headers -/

/-- the header the `k`-th packet of a message must carry (`tx` = state at the start of the
message, `len` = header length, `eom` = last packet) -/
def stamp (tx : Tx) (k len : Nat) (eom : Bool) : Header :=
  { msgType := tx.hdrType, status := if eom then 1 else 0, length := len,
    channel := if tx.chanId > 0 then tx.chanId % 65536 else 0,
    packetNr := if tx.chanId > 0 then (tx.pktNr + k) % 256 else 0,
    window := if tx.chanId > 0 then tx.window % 256 else 0 }

/-- the channel state after `k` packets were sent -/
def advance (tx : Tx) (k : Nat) : Tx :=
  if tx.chanId > 0 then { tx with pktNr := (tx.pktNr + k) % 256 } else tx

theorem advance_zero (tx : Tx) (h : tx.pktNr < 256) : advance tx 0 = tx := by
  unfold advance; split
  · have : tx.pktNr % 256 = tx.pktNr := Nat.mod_eq_of_lt h
    cases tx; simp_all
  · rfl

@[simp] theorem advance_q (tx : Tx) (k : Nat) : (advance tx k).q = tx.q := by
  unfold advance; split <;> rfl
@[simp] theorem advance_psize (tx : Tx) (k : Nat) : (advance tx k).psize = tx.psize := by
  unfold advance; split <;> rfl
@[simp] theorem advance_hdrType (tx : Tx) (k : Nat) : (advance tx k).hdrType = tx.hdrType := by
  unfold advance; split <;> rfl
@[simp] theorem advance_chanId (tx : Tx) (k : Nat) : (advance tx k).chanId = tx.chanId := by
  unfold advance; split <;> rfl
@[simp] theorem advance_window (tx : Tx) (k : Nat) : (advance tx k).window = tx.window := by
  unfold advance; split <;> rfl

theorem advance_advance (tx : Tx) (j k : Nat) : advance (advance tx j) k = advance tx (j + k) := by
  unfold advance
  by_cases h : tx.chanId > 0
  · simp only [h, if_true]
    congr 1
    omega
  · simp [h]

/-- `sendPacket` on a full packet with a fresh header (as `NewPacket` makes it) -/
theorem sendPacket_full (tx0 : Tx) (k L : Nat) (p : Packet) (hh : p.hdr = { length := L })
    (hd : p.data.length = tx0.psize - 8) :
    (advance tx0 k).sendPacket p = (advance tx0 (k + 1), ⟨stamp tx0 k L false, p.data⟩) := by
  obtain ⟨hdr, data⟩ := p
  simp only at hh hd
  subst hh
  unfold sendPacket advance stamp
  by_cases h : tx0.chanId > 0
  · have hne : (data.length != tx0.psize - 8) = false := by simp [hd]
    simp [h, hne]
    omega
  · have hne : (data.length != tx0.psize - 8) = false := by simp [hd]
    simp [h, hne]

/-- `sendPacket` on the trimmed last packet (fresh header, EOM set by `sendPackets`) -/
theorem sendPacket_last (tx0 : Tx) (k L : Nat) (p : Packet) (hh : p.hdr = { length := L, status := 1 }) :
    (advance tx0 k).sendPacket p = (advance tx0 (k + 1), ⟨stamp tx0 k L true, p.data⟩) := by
  obtain ⟨hdr, data⟩ := p
  simp only at hh
  subst hh
  unfold sendPacket advance stamp
  by_cases h : tx0.chanId > 0
  · by_cases hne : (data.length != tx0.psize - 8) = true
    · simp [h, hne, setEOM]; omega
    · simp only [Bool.not_eq_true] at hne
      simp [h, hne]; omega
  · by_cases hne : (data.length != tx0.psize - 8) = true
    · simp [h, hne, setEOM]
    · simp only [Bool.not_eq_true] at hne
      simp [h, hne]

/-- the packets a run of full bodies is sent as, numbered from `k` -/
def stampAll (tx : Tx) (L : Nat) : Nat → List Bytes → List Packet
  | _, [] => []
  | k, b :: bs => ⟨stamp tx k L false, b⟩ :: stampAll tx L (k + 1) bs

theorem sendMany_full (tx0 : Tx) (L : Nat) (ps : List Packet) :
    ∀ k, (∀ p ∈ ps, p.hdr = { length := L } ∧ p.data.length = tx0.psize - 8) →
      sendMany (advance tx0 k) ps = (advance tx0 (k + ps.length), stampAll tx0 L k (ps.map (·.data))) := by
  induction ps with
  | nil => intro k _; simp [sendMany, stampAll]
  | cons p ps ih =>
    intro k h
    have hp := h p (by simp)
    simp only [sendMany, sendPacket_full tx0 k L p hp.1 hp.2]
    rw [ih (k + 1) (fun q hq => h q (by simp [hq]))]
    simp [stampAll, Nat.add_assoc, Nat.add_comm 1]

theorem stampAll_append (tx : Tx) (L : Nat) (a b : List Bytes) :
    ∀ k, stampAll tx L k (a ++ b) = stampAll tx L k a ++ stampAll tx L (k + a.length) b := by
  induction a with
  | nil => intro k; simp [stampAll]
  | cons x xs ih => intro k; simp [stampAll, ih, Nat.add_assoc, Nat.add_comm 1]

theorem stampAll_data (tx : Tx) (L : Nat) (bs : List Bytes) :
    ∀ k, (stampAll tx L k bs).map (·.data) = bs := by
  induction bs with
  | nil => intro k; rfl
  | cons b bs ih => intro k; simp [stampAll, ih]

/-- `sendPacket` never looks at the queue -/
theorem sendPacket_q (tx : Tx) (q' : PQ) (p : Packet) :
    ({ tx with q := q' } : Tx).sendPacket p = ({ (tx.sendPacket p).1 with q := q' }, (tx.sendPacket p).2) := by
  unfold sendPacket
  by_cases h : tx.chanId > 0 <;> by_cases h2 : (p.data.length != tx.psize - 8) = true <;> simp [h, h2]

theorem sendMany_q (q' : PQ) (ps : List Packet) : ∀ (tx : Tx),
    sendMany ({ tx with q := q' } : Tx) ps = ({ (sendMany tx ps).1 with q := q' }, (sendMany tx ps).2) := by
  induction ps with
  | nil => intro tx; rfl
  | cons p ps ih =>
    intro tx
    simp only [sendMany, sendPacket_q]
    rw [ih]

end Dblib.Tx
