/-
Writer side of the PacketQueue model: `WriteBytes` lays the data out in packets of the packet
size in force, each filled completely before the next is opened.
-/
import Dblib.Lemmas.PacketQueue

namespace Dblib.PQ

theorem setData_last (init : List Packet) (last : Packet) (f : Bytes → Bytes) :
    setData (init ++ [last]) init.length f = init ++ [{ last with data := f last.data }] := by
  unfold setData
  rw [List.modify_eq_take_cons_drop (by simp)]
  simp

theorem copyInto_at (d : Bytes) (at_ : Nat) (src : Bytes) (h : at_ + src.length ≤ d.length) :
    copyInto d at_ src = d.take at_ ++ src ++ d.drop (at_ + src.length) := by
  unfold copyInto
  have : min src.length (d.length - at_) = src.length := by omega
  simp [this]

def filled (s : Nat) (bs : Bytes) (k : Nat) : Packet :=
  { hdr := { length := s }, data := bs.take k ++ List.replicate (s - 8 - k) 0 }

theorem copy_new (s k : Nat) (bs : Bytes) (hk : k ≤ s - 8) (hkb : k ≤ bs.length) :
    copyInto (List.replicate (s - 8) 0) 0 (bs.take k) = bs.take k ++ List.replicate (s - 8 - k) 0 := by
  rw [copyInto_at _ _ _ (by simp; omega)]
  simp [List.length_take, Nat.min_eq_left hkb]

theorem writeIter_empty (eom : Bool) (bs : Bytes) (s : Nat) (hs : 9 ≤ s) (hbs : 1 ≤ bs.length) :
    writeIter ⟨[], 0, 0, eom⟩ bs s =
      some (⟨[filled s bs (min (s - 8) bs.length)], 0, min (s - 8) bs.length, eom⟩, min (s - 8) bs.length) := by
  unfold writeIter
  simp only [List.length_nil, beq_self_eq_true, if_true, List.nil_append, newPacket,
    List.getElem?_cons_zero]
  have hf : ((s : Int) - 8 - ((0 : Nat) : Int) == 0) = false := by simp; omega
  simp only [hf, Bool.false_eq_true, if_false]
  by_cases hgt : (s : Int) - 8 - ((0:Nat) : Int) > (bs.length : Int)
  · simp only [hgt, if_true]
    have h1 : ¬ ((bs.length : Int) < 0) := by omega
    have h2 : ¬ (0 > (List.replicate (s - 8) (0 : UInt8)).length) := by simp
    simp only [h1, h2, if_false, Int.toNat_natCast, Nat.zero_add]
    have hm : min (s - 8) bs.length = bs.length := by omega
    rw [hm]
    simp only [setData, List.modify_zero_cons, filled]
    rw [copy_new s bs.length bs (by omega) (by omega)]
  · simp only [hgt, if_false]
    have h1 : ¬ ((s : Int) - 8 - ((0:Nat) : Int) < 0) := by omega
    have h2 : ¬ (0 > (List.replicate (s - 8) (0 : UInt8)).length) := by simp
    simp only [h1, h2, if_false, Nat.zero_add]
    have hm : min (s - 8) bs.length = s - 8 := by omega
    have ht : ((s : Int) - 8 - ((0:Nat) : Int)).toNat = s - 8 := by omega
    rw [hm, ht]
    simp only [setData, List.modify_zero_cons, filled]
    rw [copy_new s (s-8) bs (by omega) (by omega)]
theorem writeIter_full (init : List Packet) (last : Packet) (eom : Bool) (bs : Bytes) (s : Nat)
    (hs : 9 ≤ s) (hbs : 1 ≤ bs.length) (hl : last.hdr.length = last.data.length + 8) :
    writeIter ⟨init ++ [last], init.length, last.data.length, eom⟩ bs s =
      some (⟨init ++ [last] ++ [filled s bs (min (s - 8) bs.length)], init.length + 1,
              min (s - 8) bs.length, eom⟩, min (s - 8) bs.length) := by
  unfold writeIter
  have h0 : (init.length == (init ++ [last]).length) = false := by simp
  simp only [h0, Bool.false_eq_true, if_false]
  have hg : (init ++ [last])[init.length]? = some last := by simp
  simp only [hg, hl]
  have hf : (((last.data.length + 8 : Nat) : Int) - 8 - (last.data.length : Int) == 0) = true := by
    simp
  simp only [hf, if_true]
  have := setData_last (init ++ [last]) (newPacket s) (fun d => copyInto d 0 (bs.take (min (s - 8) bs.length)))
  rw [this]
  simp only [newPacket, filled]
  rw [copy_new s _ bs (by omega) (by omega)]

theorem writeIter_room (init : List Packet) (last : Packet) (di : Nat) (eom : Bool) (bs : Bytes) (s : Nat)
    (hbs : 1 ≤ bs.length) (hl : last.hdr.length = last.data.length + 8) (hid : di < last.data.length) :
    writeIter ⟨init ++ [last], init.length, di, eom⟩ bs s =
      some (⟨init ++ [{ last with data := last.data.take di ++ bs.take (min (last.data.length - di) bs.length)
                                            ++ last.data.drop (di + min (last.data.length - di) bs.length) }],
              init.length, di + min (last.data.length - di) bs.length, eom⟩,
            min (last.data.length - di) bs.length) := by
  unfold writeIter
  have h0 : (init.length == (init ++ [last]).length) = false := by simp
  simp only [h0, Bool.false_eq_true, if_false]
  have hg : (init ++ [last])[init.length]? = some last := by simp
  simp only [hg, hl]
  have hf : (((last.data.length + 8 : Nat) : Int) - 8 - (di : Int) == 0) = false := by
    simp; omega
  simp only [hf, Bool.false_eq_true, if_false]
  have hidn : ¬ di > last.data.length := by omega
  by_cases hgt : ((last.data.length + 8 : Nat) : Int) - 8 - (di : Int) > (bs.length : Int)
  · simp only [hgt, if_true]
    have h1 : ¬ ((bs.length : Int) < 0) := by omega
    simp only [h1, hidn, if_false, Int.toNat_natCast]
    have hm : min (last.data.length - di) bs.length = bs.length := by omega
    rw [hm, setData_last, copyInto_at _ _ _ (by simp; omega)]
    simp
  · simp only [hgt, if_false]
    have h1 : ¬ (((last.data.length + 8 : Nat) : Int) - 8 - (di : Int) < 0) := by omega
    simp only [h1, hidn, if_false]
    have hm : min (last.data.length - di) bs.length = last.data.length - di := by omega
    have ht : (((last.data.length + 8 : Nat) : Int) - 8 - (di : Int)).toNat = last.data.length - di := by omega
    rw [hm, ht, setData_last, copyInto_at _ _ _ (by simp; omega)]
    simp [List.length_take]
    omega

/-! ### the writer invariant -/

/-- a packet as `NewPacket` makes it and `WriteBytes` fills it: the header length is the body
capacity plus the header size, and the body is not empty -/
def PktOK (p : Packet) : Prop := p.hdr.length = p.data.length + 8 ∧ 1 ≤ p.data.length

/-- shape of a queue in write mode after writing the bytes `w` -/
inductive WShape (q : PQ) (w : Bytes) : Prop
  | empty : q.queue = [] → q.ip = 0 → q.id = 0 → w = [] → WShape q w
  | cur (init : List Packet) (last : Packet) :
      q.queue = init ++ [last] → q.ip = init.length → 1 ≤ q.id → q.id ≤ last.data.length →
      w = flat init ++ last.data.take q.id → WShape q w

/-- writer invariant: every packet is capacity-consistent; all packets before the cursor packet
are used completely, the cursor packet up to the data index (at least one byte), and the used
bytes are exactly `w` — i.e. every packet but the last is full. -/
def WInv (q : PQ) (w : Bytes) : Prop := (∀ p ∈ q.queue, PktOK p) ∧ WShape q w

theorem WInv_reset (q : PQ) : WInv q.reset [] :=
  ⟨by simp [reset], .empty rfl rfl rfl rfl⟩

def hdrs (q : PQ) : List Header := q.queue.map (·.hdr)

theorem filled_ok (s k : Nat) (bs : Bytes) (hs : 9 ≤ s) (hk : k ≤ s - 8) (hkb : k ≤ bs.length) :
    PktOK (filled s bs k) := by
  simp [PktOK, filled, List.length_take, Nat.min_eq_left hkb]; omega

theorem filled_take (s k : Nat) (bs : Bytes) (hkb : k ≤ bs.length) :
    (filled s bs k).data.take k = bs.take k := by
  simp [filled, List.length_take, Nat.min_eq_left hkb]

/-- one loop iteration under the invariant -/
theorem writeIter_spec (q : PQ) (bs w : Bytes) (s : Nat) (hinv : WInv q w) (hs : 9 ≤ s)
    (hbs : 1 ≤ bs.length) :
    ∃ q' k j, writeIter q bs s = some (q', k) ∧ 1 ≤ k ∧ k ≤ bs.length ∧ WInv q' (w ++ bs.take k)
      ∧ hdrs q' = hdrs q ++ List.replicate j { length := s } ∧ q'.eom = q.eom := by
  obtain ⟨queue, ip, di, eom⟩ := q
  obtain ⟨hok, hshape⟩ := hinv
  cases hshape with
  | empty hq hip hid hw =>
    simp only at hq hip hid
    subst hq; subst hip; subst hid; subst hw
    have hk1 : 1 ≤ min (s - 8) bs.length := by omega
    have hkb : min (s - 8) bs.length ≤ bs.length := by omega
    refine ⟨_, _, 1, writeIter_empty eom bs s hs hbs, hk1, hkb, ⟨?_, ?_⟩, ?_, rfl⟩
    · intro p hp
      simp only [List.mem_cons, List.not_mem_nil, or_false] at hp
      subst hp; exact filled_ok s _ bs hs (by omega) hkb
    · refine .cur [] (filled s bs (min (s - 8) bs.length)) rfl rfl hk1 ?_ ?_
      · simp [filled, List.length_take]
      · simp [filled_take s _ bs hkb]
    · simp [hdrs, filled]
  | cur init last hq hip hid1 hid2 hw =>
    simp only at hq hip hid1 hid2 hw
    subst hq; subst hip
    have hlast : PktOK last := hok last (by simp)
    by_cases hfull : di = last.data.length
    · subst hfull
      have hk1 : 1 ≤ min (s - 8) bs.length := by omega
      have hkb : min (s - 8) bs.length ≤ bs.length := by omega
      refine ⟨_, _, 1, writeIter_full init last eom bs s hs hbs hlast.1, hk1, hkb, ⟨?_, ?_⟩, ?_, rfl⟩
      · intro p hp
        simp only [List.mem_append, List.mem_cons, List.not_mem_nil, or_false] at hp
        rcases hp with (hp | hp) | hp
        · exact hok p (by simp [hp])
        · subst hp; exact hlast
        · subst hp; exact filled_ok s _ bs hs (by omega) hkb
      · refine .cur (init ++ [last]) (filled s bs (min (s - 8) bs.length)) rfl (by simp) hk1 ?_ ?_
        · simp [filled, List.length_take]
        · simp only [filled_take s _ bs hkb, hw, flat_append, flat_cons, flat_nil,
            List.append_nil, List.take_length, List.append_assoc]
      · simp [hdrs, filled]
    · have hid : di < last.data.length := by omega
      have hk1 : 1 ≤ min (last.data.length - di) bs.length := by omega
      have hkb : min (last.data.length - di) bs.length ≤ bs.length := by omega
      have hkl : min (last.data.length - di) bs.length ≤ last.data.length - di := Nat.min_le_left _ _
      have hiter := writeIter_room init last di eom bs s hbs hlast.1 hid
      generalize min (last.data.length - di) bs.length = k at *
      refine ⟨_, _, 0, hiter, hk1, hkb, ⟨?_, ?_⟩, ?_, rfl⟩
      · intro p hp
        simp only [List.mem_append, List.mem_cons, List.not_mem_nil, or_false] at hp
        rcases hp with hp | hp
        · exact hok p (by simp [hp])
        · subst hp
          simp only [PktOK, List.length_append, List.length_take, List.length_drop]
          constructor
          · rw [hlast.1]; omega
          · omega
      · have h1 : 1 ≤ di + k := by omega
        refine .cur init _ rfl rfl h1 ?_ ?_
        · simp only [List.length_append, List.length_take, List.length_drop]; omega
        · simp only [hw, List.append_assoc]
          congr 1
          have hlen : (last.data.take di ++ bs.take k).length = di + k := by
            simp [List.length_take]; omega
          have hle : di + k ≤ (last.data.take di ++ bs.take k).length := by omega
          rw [← List.append_assoc, List.take_append_of_le_length hle]
          have hle2 : (last.data.take di ++ bs.take k).length ≤ di + k := by omega
          rw [List.take_of_length_le hle2]
      · simp [hdrs]

/-- the whole loop under the invariant -/
theorem writeLoop_spec (s : Nat) (hs : 9 ≤ s) : ∀ (fuel : Nat) (q : PQ) (bs w : Bytes),
    WInv q w → bs.length < fuel →
    ∃ q' j, writeLoop fuel q bs s = (.ok, q') ∧ WInv q' (w ++ bs)
      ∧ hdrs q' = hdrs q ++ List.replicate j { length := s } ∧ q'.eom = q.eom := by
  intro fuel
  induction fuel with
  | zero => intro q bs w _ h; omega
  | succ fuel ih =>
    intro q bs w hinv hlt
    unfold writeLoop
    by_cases hb : bs = []
    · subst hb
      exact ⟨q, 0, by simp, by simpa using hinv, by simp, rfl⟩
    · have hbe : bs.isEmpty = false := by cases bs <;> simp_all
      have hlen : 1 ≤ bs.length := by cases bs <;> simp_all
      simp only [hbe, Bool.false_eq_true, if_false]
      obtain ⟨q1, k, j1, hit, hk1, hkb, hinv1, hh1, he1⟩ := writeIter_spec q bs w s hinv hs hlen
      rw [hit]
      obtain ⟨q2, j2, hl, hinv2, hh2, he2⟩ :=
        ih q1 (bs.drop k) (w ++ bs.take k) hinv1 (by simp; omega)
      refine ⟨q2, j1 + j2, hl, ?_, ?_, by rw [he2, he1]⟩
      · simpa [List.append_assoc] using hinv2
      · rw [hh2, hh1, List.append_assoc, List.replicate_append_replicate]

/-- `WriteBytes` under the writer invariant: succeeds (no panic), the invariant holds for the
extended data, headers of existing packets are untouched and every packet opened by this call has
the packet size in force as its header length. -/
theorem writeBytes_spec (q : PQ) (bs w : Bytes) (s : Nat) (hinv : WInv q w)
    (hs : 9 ≤ s) (hs2 : s ≤ 65535) :
    ∃ q' j, q.writeBytes bs s = (.ok, q') ∧ WInv q' (w ++ bs)
      ∧ hdrs q' = hdrs q ++ List.replicate j { length := s } ∧ q'.eom = q.eom := by
  unfold writeBytes
  by_cases hb : bs = []
  · subst hb
    exact ⟨q, 0, by simp, by simpa using hinv, by simp, rfl⟩
  · have hbe : bs.isEmpty = false := by cases bs <;> simp_all
    have hr : ¬ (s < 9 ∨ s > 65535) := by omega
    simp only [hbe, Bool.false_eq_true, if_false, hr]
    exact writeLoop_spec s hs (bs.length + 1) q bs w hinv (by omega)

end Dblib.PQ
