/-
Text lemmas for UNITEXT (C04 / C05): Go's UTF-8 decoder (`utf8Dec`) inverts its UTF-8 encoder (`utf8Enc`),
`utf16.Decode` (`utf16Dec`) inverts `utf16.Encode` (`utf16Enc`) — for every Unicode scalar value —, and the
UTF-16LE byte layout written by `Bytes` is read back by `GoValue`.
-/
import Dblib.Lemmas.ValueArms

namespace Dblib.Lemmas.ValueText
open Dblib Dblib.Value Dblib.Gen Dblib.Lemmas.ValueBytes Dblib.Lemmas.ValueArms

/-- a Unicode scalar value: a code point that is not a surrogate -/
def IsScalar (c : Nat) : Prop := c < 0xD800 ∨ (0xE000 ≤ c ∧ c ≤ 0x10FFFF)

instance (c : Nat) : Decidable (IsScalar c) := by unfold IsScalar; exact inferInstance

theorem u8_of_lt (c : Nat) (h : c < 256) : (UInt8.ofNat c).toNat = c := by
  simp only [UInt8.toNat_ofNat', Nat.reducePow]; omega

theorem scalar_flags (c : Nat) (h : IsScalar c) : isSurrogate c = false ∧ ¬ c > 0x10FFFF := by
  unfold IsScalar at h
  constructor
  · simp [isSurrogate]; omega
  · omega

/-! ### UTF-8 -/

theorem utf8DecAux_cons (b0 : UInt8) (rest : Bytes) :
    utf8DecAux 0 (b0 :: rest) = (decodeRune b0.toNat rest).1 :: utf8DecAux (decodeRune b0.toNat rest).2 rest := rfl

theorem decodeRune_ascii (b0 : Nat) (rest : Bytes) (h : b0 < 0x80) : decodeRune b0 rest = (b0, 0) := by
  unfold decodeRune; rw [if_pos h]

theorem decodeRune_two (b0 : Nat) (b1 : UInt8) (rest : Bytes) (h0 : 0xC2 ≤ b0 ∧ b0 ≤ 0xDF)
    (h1 : 0x80 ≤ b1.toNat ∧ b1.toNat ≤ 0xBF) :
    decodeRune b0 (b1 :: rest) = ((b0 - 0xC0) * 64 + (b1.toNat - 0x80), 1) := by
  unfold decodeRune
  have hc : isCont b1.toNat = true := by simp [isCont]; omega
  rw [if_neg (by omega), if_pos (by simp; omega)]
  simp only [hc, if_true]

theorem decodeRune_three (b0 : Nat) (b1 b2 : UInt8) (rest : Bytes) (h0 : 0xE0 ≤ b0 ∧ b0 ≤ 0xEF)
    (h1 : (if b0 = 0xE0 then 0xA0 else 0x80) ≤ b1.toNat ∧ b1.toNat ≤ (if b0 = 0xED then 0x9F else 0xBF))
    (h2 : 0x80 ≤ b2.toNat ∧ b2.toNat ≤ 0xBF) :
    decodeRune b0 (b1 :: b2 :: rest)
      = ((b0 - 0xE0) * 4096 + (b1.toNat - 0x80) * 64 + (b2.toNat - 0x80), 2) := by
  unfold decodeRune
  have hc : isCont b2.toNat = true := by simp [isCont]; omega
  rw [if_neg (by omega), if_neg (by simp; omega), if_pos (by simp; omega)]
  simp only [hc, Bool.and_true]
  rw [if_pos (by simp; exact h1)]

theorem decodeRune_four (b0 : Nat) (b1 b2 b3 : UInt8) (rest : Bytes) (h0 : 0xF0 ≤ b0 ∧ b0 ≤ 0xF4)
    (h1 : (if b0 = 0xF0 then 0x90 else 0x80) ≤ b1.toNat ∧ b1.toNat ≤ (if b0 = 0xF4 then 0x8F else 0xBF))
    (h2 : 0x80 ≤ b2.toNat ∧ b2.toNat ≤ 0xBF) (h3 : 0x80 ≤ b3.toNat ∧ b3.toNat ≤ 0xBF) :
    decodeRune b0 (b1 :: b2 :: b3 :: rest)
      = ((b0 - 0xF0) * 262144 + (b1.toNat - 0x80) * 4096 + (b2.toNat - 0x80) * 64 + (b3.toNat - 0x80), 3) := by
  unfold decodeRune
  have hc2 : isCont b2.toNat = true := by simp [isCont]; omega
  have hc3 : isCont b3.toNat = true := by simp [isCont]; omega
  rw [if_neg (by omega), if_neg (by simp; omega), if_neg (by simp; omega), if_pos (by simp; omega)]
  simp only [hc2, hc3, Bool.and_true]
  rw [if_pos (by simp; exact h1)]

/-- **Go's UTF-8 decoder inverts the encoder on every scalar value** -/
theorem utf8Dec_enc (c : Nat) (h : IsScalar c) (rest : Bytes) :
    utf8DecAux 0 (utf8Enc c ++ rest) = c :: utf8DecAux 0 rest := by
  obtain ⟨hs, hgt⟩ := scalar_flags c h
  unfold IsScalar at h
  by_cases h7 : c < 0x80
  · have e : utf8Enc c = [UInt8.ofNat c] := by simp [utf8Enc, hs, hgt, h7]
    rw [e, List.singleton_append, utf8DecAux_cons, u8_of_lt c (by omega), decodeRune_ascii c rest h7]
  · by_cases h11 : c < 0x800
    · have e : utf8Enc c = [UInt8.ofNat (0xC0 + c / 64), UInt8.ofNat (0x80 + c % 64)] := by
        simp [utf8Enc, hs, hgt, h7, h11]
      have e0 : (UInt8.ofNat (0xC0 + c / 64)).toNat = 0xC0 + c / 64 := u8_of_lt _ (by omega)
      have e1 : (UInt8.ofNat (0x80 + c % 64)).toNat = 0x80 + c % 64 := u8_of_lt _ (by omega)
      rw [e]
      show utf8DecAux 0 (UInt8.ofNat (0xC0 + c / 64) :: UInt8.ofNat (0x80 + c % 64) :: rest) = _
      rw [utf8DecAux_cons, e0, decodeRune_two _ _ _ (by omega) (by rw [e1]; omega), e1]
      show ((0xC0 + c / 64 - 0xC0) * 64 + (0x80 + c % 64 - 0x80)) :: utf8DecAux 0 rest = _
      have : (0xC0 + c / 64 - 0xC0) * 64 + (0x80 + c % 64 - 0x80) = c := by omega
      rw [this]
    · by_cases h16 : c < 0x10000
      · have e : utf8Enc c = [UInt8.ofNat (0xE0 + c / 4096), UInt8.ofNat (0x80 + c / 64 % 64),
            UInt8.ofNat (0x80 + c % 64)] := by
          simp [utf8Enc, hs, hgt, h7, h11, h16]
        have e0 : (UInt8.ofNat (0xE0 + c / 4096)).toNat = 0xE0 + c / 4096 := u8_of_lt _ (by omega)
        have e1 : (UInt8.ofNat (0x80 + c / 64 % 64)).toNat = 0x80 + c / 64 % 64 := u8_of_lt _ (by omega)
        have e2 : (UInt8.ofNat (0x80 + c % 64)).toNat = 0x80 + c % 64 := u8_of_lt _ (by omega)
        rw [e]
        show utf8DecAux 0 (UInt8.ofNat (0xE0 + c / 4096) :: UInt8.ofNat (0x80 + c / 64 % 64) ::
          UInt8.ofNat (0x80 + c % 64) :: rest) = _
        rw [utf8DecAux_cons, e0, decodeRune_three _ _ _ _ (by omega)
          (by rw [e1]; constructor <;> split <;> omega) (by rw [e2]; omega), e1, e2]
        show ((0xE0 + c / 4096 - 0xE0) * 4096 + (0x80 + c / 64 % 64 - 0x80) * 64 + (0x80 + c % 64 - 0x80)) ::
          utf8DecAux 0 rest = _
        have : (0xE0 + c / 4096 - 0xE0) * 4096 + (0x80 + c / 64 % 64 - 0x80) * 64 + (0x80 + c % 64 - 0x80) = c := by
          omega
        rw [this]
      · have e : utf8Enc c = [UInt8.ofNat (0xF0 + c / 262144), UInt8.ofNat (0x80 + c / 4096 % 64),
            UInt8.ofNat (0x80 + c / 64 % 64), UInt8.ofNat (0x80 + c % 64)] := by
          simp [utf8Enc, hs, hgt, h7, h11, h16]
        have e0 : (UInt8.ofNat (0xF0 + c / 262144)).toNat = 0xF0 + c / 262144 := u8_of_lt _ (by omega)
        have e1 : (UInt8.ofNat (0x80 + c / 4096 % 64)).toNat = 0x80 + c / 4096 % 64 := u8_of_lt _ (by omega)
        have e2 : (UInt8.ofNat (0x80 + c / 64 % 64)).toNat = 0x80 + c / 64 % 64 := u8_of_lt _ (by omega)
        have e3 : (UInt8.ofNat (0x80 + c % 64)).toNat = 0x80 + c % 64 := u8_of_lt _ (by omega)
        rw [e]
        show utf8DecAux 0 (UInt8.ofNat (0xF0 + c / 262144) :: UInt8.ofNat (0x80 + c / 4096 % 64) ::
          UInt8.ofNat (0x80 + c / 64 % 64) :: UInt8.ofNat (0x80 + c % 64) :: rest) = _
        rw [utf8DecAux_cons, e0, decodeRune_four _ _ _ _ _ (by omega)
          (by rw [e1]; constructor <;> split <;> omega) (by rw [e2]; omega) (by rw [e3]; omega), e1, e2, e3]
        show ((0xF0 + c / 262144 - 0xF0) * 262144 + (0x80 + c / 4096 % 64 - 0x80) * 4096 +
          (0x80 + c / 64 % 64 - 0x80) * 64 + (0x80 + c % 64 - 0x80)) :: utf8DecAux 0 rest = _
        have : (0xF0 + c / 262144 - 0xF0) * 262144 + (0x80 + c / 4096 % 64 - 0x80) * 4096 +
          (0x80 + c / 64 % 64 - 0x80) * 64 + (0x80 + c % 64 - 0x80) = c := by omega
        rw [this]

theorem utf8Dec_encAll (cps : List Nat) (h : ∀ c ∈ cps, IsScalar c) : utf8Dec (utf8EncAll cps) = cps := by
  induction cps with
  | nil => rfl
  | cons c cs ih =>
    have hc := h c (by simp)
    have hcs : ∀ c ∈ cs, IsScalar c := fun x hx => h x (by simp [hx])
    simp only [utf8Dec, utf8EncAll, List.map_cons, List.flatten_cons] at ih ⊢
    rw [utf8Dec_enc c hc, ih hcs]

/-! ### UTF-16 -/

/-- **`utf16.Decode` inverts `utf16.Encode` on every scalar value** -/
theorem utf16Dec_enc (c : Nat) (h : IsScalar c) (rest : List Nat) :
    utf16Dec (utf16Enc c ++ rest) = c :: utf16Dec rest := by
  obtain ⟨hs, hgt⟩ := scalar_flags c h
  unfold IsScalar at h
  by_cases h16 : c < 0x10000
  · have e : utf16Enc c = [c] := by simp [utf16Enc, hs, hgt, h16]
    rw [e]
    cases rest with
    | nil => simp [utf16Dec, hs]
    | cons u2 r =>
      show utf16Dec (c :: u2 :: r) = _
      rw [utf16Dec, if_neg (by omega)]
      simp [hs]
  · have e : utf16Enc c = [0xD800 + (c - 0x10000) / 1024, 0xDC00 + (c - 0x10000) % 1024] := by
      simp [utf16Enc, hs, hgt, h16]
    rw [e]
    show utf16Dec ((0xD800 + (c - 0x10000) / 1024) :: (0xDC00 + (c - 0x10000) % 1024) :: rest) = _
    rw [utf16Dec, if_pos (by omega)]
    have : 0x10000 + (0xD800 + (c - 0x10000) / 1024 - 0xD800) * 1024 + (0xDC00 + (c - 0x10000) % 1024 - 0xDC00) = c := by
      omega
    rw [this]

theorem utf16Dec_encAll (cps : List Nat) (h : ∀ c ∈ cps, IsScalar c) : utf16Dec (utf16EncAll cps) = cps := by
  induction cps with
  | nil => rfl
  | cons c cs ih =>
    have hc := h c (by simp)
    have hcs : ∀ c ∈ cs, IsScalar c := fun x hx => h x (by simp [hx])
    simp only [utf16EncAll, List.map_cons, List.flatten_cons] at ih ⊢
    rw [utf16Dec_enc c hc, ih hcs]

theorem utf16Enc_lt (c : Nat) : ∀ u ∈ utf16Enc c, u < 65536 := by
  intro u hu
  unfold utf16Enc at hu
  split at hu
  · simp at hu; omega
  · split at hu
    · simp at hu; omega
    · rename_i h1 h2
      simp only [Bool.or_eq_true, decide_eq_true_eq, not_or, Nat.not_lt] at h1
      simp at hu
      omega

theorem utf16EncAll_lt (cps : List Nat) : ∀ u ∈ utf16EncAll cps, u < 65536 := by
  intro u hu
  simp only [utf16EncAll, List.mem_flatten, List.mem_map] at hu
  obtain ⟨l, ⟨c, _, rfl⟩, hul⟩ := hu
  exact utf16Enc_lt c u hul

/-! ### the UTF-16LE byte layout -/

/-- UTF-16LE bytes of a list of code units -/
def unitsLE (us : List Nat) : Bytes := (us.map (leEncode 2)).flatten

theorem unitsLE_cons (u : Nat) (us : List Nat) : unitsLE (u :: us) = leEncode 2 u ++ unitsLE us := rfl

theorem unitsLE_length (us : List Nat) : (unitsLE us).length = 2 * us.length := by
  induction us with
  | nil => rfl
  | cons u us ih => rw [unitsLE_cons, List.length_append, leEncode_length, ih, List.length_cons]; omega

theorem zeros_succ (n : Nat) : zeros (n + 1) = 0 :: zeros n := by simp [zeros, List.replicate_succ]

/-- the loop `PutUint16(bs[2*i:], u[i])` writes the UTF-16LE layout -/
theorem unitextWrite_eq (us : List Nat) :
    ∀ (i : Nat) (pre : Bytes) (m : Nat), pre.length = 2 * i → 2 * us.length ≤ m →
      unitextWrite i us (pre ++ zeros m) = pre ++ unitsLE us ++ zeros (m - 2 * us.length) := by
  induction us with
  | nil => intro i pre m _ _; simp [unitextWrite, unitsLE]
  | cons u us ih =>
    intro i pre m hpre hm
    obtain ⟨m', rfl⟩ : ∃ m', m = m' + 2 := ⟨m - 2, by simp at hm; omega⟩
    have e2 : (pre ++ zeros (m' + 2)).take (2 * i) = pre := by
      rw [← hpre]; simp
    have e3 : (pre ++ zeros (m' + 2)).drop (2 * i + 2) = zeros m' := by
      have : 2 * i + 2 - pre.length = 2 := by omega
      rw [List.drop_append, this, List.drop_of_length_le (by omega), zeros_succ, zeros_succ]; rfl
    simp only [unitextWrite, e2, e3]
    have hl : (pre ++ leEncode 2 u).length = 2 * (i + 1) := by
      rw [List.length_append, leEncode_length]; omega
    have key := ih (i + 1) (pre ++ leEncode 2 u) m' hl (by simp at hm; omega)
    have e4 : m' + 2 - 2 * (u :: us).length = m' - 2 * us.length := by
      simp only [List.length_cons]; omega
    rw [key, unitsLE_cons, e4]
    simp only [List.append_assoc]

theorem unitextWrite_zeros (us : List Nat) : unitextWrite 0 us (zeros (us.length * 2)) = unitsLE us := by
  have := unitextWrite_eq us 0 [] (us.length * 2) rfl (by omega)
  simp only [List.nil_append] at this
  rw [this, show us.length * 2 - 2 * us.length = 0 by omega]
  simp [zeros]

theorem unitsOfLE_unitsLE (us : List Nat) (h : ∀ u ∈ us, u < 65536) : unitsOfLE (unitsLE us) = us := by
  induction us with
  | nil => rfl
  | cons u us ih =>
    have hu := h u (by simp)
    have hus : ∀ x ∈ us, x < 65536 := fun x hx => h x (by simp [hx])
    have e : leEncode 2 u = [UInt8.ofNat (u % 256), UInt8.ofNat (u / 256 % 256)] := by
      simp [leEncode]
    rw [unitsLE_cons, e]
    show unitsOfLE (UInt8.ofNat (u % 256) :: UInt8.ofNat (u / 256 % 256) :: unitsLE us) = _
    rw [unitsOfLE, ih hus, u8_mod, u8_mod]
    congr 1
    omega

/-! ### trailing NULs -/

theorem utf8EncAll_append (a b : List Nat) : utf8EncAll (a ++ b) = utf8EncAll a ++ utf8EncAll b := by
  simp [utf8EncAll]

theorem trimRightNul_id (s : Bytes) (h : ∀ b, s.getLast? = some b → b ≠ 0) : trimRightNul s = s := by
  rcases List.eq_nil_or_concat s with rfl | ⟨s', b, rfl⟩
  · rfl
  · have hb : b ≠ 0 := h b (by simp)
    have : (b == 0) = false := by simp [hb]
    simp [trimRightNul, List.dropWhile_cons, this]

theorem ofNat_ne_zero (n : Nat) (h0 : n ≠ 0) (h : n < 256) : UInt8.ofNat n ≠ 0 := by
  intro hc
  have := congrArg UInt8.toNat hc
  rw [u8_of_lt n h] at this
  exact h0 this

/-- the four shapes of the UTF-8 encoding of a scalar value -/
theorem utf8Enc_forms (c : Nat) (h : IsScalar c) :
    (c < 0x80 ∧ utf8Enc c = [UInt8.ofNat c]) ∨
    (0x80 ≤ c ∧ utf8Enc c = [UInt8.ofNat (0xC0 + c / 64), UInt8.ofNat (0x80 + c % 64)]) ∨
    (0x80 ≤ c ∧ utf8Enc c = [UInt8.ofNat (0xE0 + c / 4096), UInt8.ofNat (0x80 + c / 64 % 64),
      UInt8.ofNat (0x80 + c % 64)]) ∨
    (0x80 ≤ c ∧ utf8Enc c = [UInt8.ofNat (0xF0 + c / 262144), UInt8.ofNat (0x80 + c / 4096 % 64),
      UInt8.ofNat (0x80 + c / 64 % 64), UInt8.ofNat (0x80 + c % 64)]) := by
  obtain ⟨hs, hgt⟩ := scalar_flags c h
  by_cases h7 : c < 0x80
  · exact Or.inl ⟨h7, by simp [utf8Enc, hs, hgt, h7]⟩
  · by_cases h11 : c < 0x800
    · exact Or.inr (Or.inl ⟨by omega, by simp [utf8Enc, hs, hgt, h7, h11]⟩)
    · by_cases h16 : c < 0x10000
      · exact Or.inr (Or.inr (Or.inl ⟨by omega, by simp [utf8Enc, hs, hgt, h7, h11, h16]⟩))
      · exact Or.inr (Or.inr (Or.inr ⟨by omega, by simp [utf8Enc, hs, hgt, h7, h11, h16]⟩))

/-- the last byte of the UTF-8 encoding of a scalar value is NUL only for U+0000 -/
theorem utf8Enc_last (c : Nat) (h : IsScalar c) (hc : c ≠ 0) :
    ∃ (init : Bytes) (last : UInt8), utf8Enc c = init ++ [last] ∧ last ≠ 0 := by
  rcases utf8Enc_forms c h with ⟨h1, e⟩ | ⟨h1, e⟩ | ⟨h1, e⟩ | ⟨h1, e⟩
  · exact ⟨[], _, e, ofNat_ne_zero _ hc (by omega)⟩
  · exact ⟨[_], _, e, ofNat_ne_zero _ (by omega) (by omega)⟩
  · exact ⟨[_, _], _, e, ofNat_ne_zero _ (by omega) (by omega)⟩
  · exact ⟨[_, _, _], _, e, ofNat_ne_zero _ (by omega) (by omega)⟩

/-- a string of scalar values that does not end in U+0000 has no trailing NUL byte -/
theorem utf8EncAll_last (cps : List Nat) (hs : ∀ c ∈ cps, IsScalar c) (h : cps.getLast? ≠ some 0) :
    ∀ b, (utf8EncAll cps).getLast? = some b → b ≠ 0 := by
  rcases List.eq_nil_or_concat cps with rfl | ⟨cs, c, rfl⟩
  · intro b hb; simp [utf8EncAll] at hb
  · rw [List.concat_eq_append] at h hs ⊢
    have hc : c ≠ 0 := by
      intro hc; apply h; simp [hc]
    obtain ⟨init, last, e1, hl⟩ := utf8Enc_last c (hs c (by simp)) hc
    intro b hb
    have e : utf8EncAll (cs ++ [c]) = (utf8EncAll cs ++ init) ++ [last] := by
      rw [utf8EncAll_append, List.append_assoc, ← e1]; simp [utf8EncAll]
    rw [e, List.getLast?_concat] at hb
    rw [← Option.some.inj hb]; exact hl

end Dblib.Lemmas.ValueText
